import CssVerif.Model.Media
/-!
# Lemmas for C17 (media lists / media queries)

Specification-level definitions (`canonSpec`, `Entry`, `view`, the ordered-set operations) and the lemmas the
property theorems of `Props/C17.lean` rest on.
-/
set_option linter.unusedSimpArgs false
set_option linter.unusedVariables false
namespace CssVerif.Media
open CssVerif.Proto

/-! ## T17.1 — the parse-time filter -/

/-- a query whose media type is literally `all` -/
def isLitAll : LItem → Bool
  | .query q => !(normalize q.mediaType).isEmpty && isAllType (normalize q.mediaType)
  | .comment _ => false

def isComment : LItem → Bool
  | .comment _ => true
  | .query _ => false

/-- keep a simple media type only the first time it is seen (`seen` = the types before) -/
def dedupFrom : List Cps → List LItem → List LItem
  | _, [] => []
  | seen, .comment c :: r => .comment c :: dedupFrom seen r
  | seen, .query q :: r =>
    if (normalize q.mediaType).isEmpty then .query q :: dedupFrom seen r
    else if seen.contains (normalize q.mediaType) then dedupFrom seen r
    else .query q :: dedupFrom ((normalize q.mediaType) :: seen) r

/-- the specification of the filter: the first literal `all` absorbs everything but the comments before it;
otherwise a simple type is kept once and everything else keeps its place -/
def canonSpec (l : List LItem) : List LItem :=
  if l.any isLitAll then
    (l.takeWhile (fun i => !isLitAll i)).filter isComment ++ (l.find? isLitAll).toList
  else dedupFrom [] l

theorem isLitAll_comment (c : Tok) : isLitAll (.comment c) = false := rfl
theorem isComment_comment (c : Tok) : isComment (.comment c) = true := rfl
theorem isComment_query (q : MQ) : isComment (.query q) = false := rfl

theorem canonGo_eq (l : List LItem) : ∀ (seen : List Cps) (final comments : List LItem),
    canonGo l seen final comments =
      if l.any isLitAll then
        comments.reverse ++ (l.takeWhile (fun i => !isLitAll i)).filter isComment ++ (l.find? isLitAll).toList
      else final.reverse ++ dedupFrom seen l := by
  induction l with
  | nil => intro seen final comments; simp [canonGo, dedupFrom]
  | cons a r ih =>
    intro seen final comments
    cases a with
    | comment c =>
      have hL := isLitAll_comment c
      simp [canonGo, ih, hL, isComment_comment, dedupFrom, List.takeWhile_cons, List.find?_cons, List.filter_cons]
    | query q =>
      by_cases he : (normalize q.mediaType).isEmpty = true
      · have hL : isLitAll (.query q) = false := by simp [isLitAll, he]
        simp [canonGo, ih, hL, he, isComment_query, dedupFrom, List.takeWhile_cons, List.find?_cons, List.filter_cons]
      · have he' : (normalize q.mediaType).isEmpty = false := by simpa using he
        by_cases ha : isAllType (normalize q.mediaType) = true
        · have hL : isLitAll (.query q) = true := by simp [isLitAll, he', ha]
          simp [canonGo, hL, he', ha, List.takeWhile_cons, List.find?_cons, List.filter_cons]
        · have ha' : isAllType (normalize q.mediaType) = false := by simpa using ha
          have hL : isLitAll (.query q) = false := by simp [isLitAll, ha']
          by_cases hs : seen.contains (normalize q.mediaType) = true
          · have hm : (normalize q.mediaType) ∈ seen := by simpa using hs
            simp [canonGo, ih, hL, he', ha', hm, isComment_query, dedupFrom, List.takeWhile_cons, List.find?_cons, List.filter_cons]
          · have hm : (normalize q.mediaType) ∉ seen := by simpa using hs
            simp [canonGo, ih, hL, he', ha', hm, isComment_query, dedupFrom, List.takeWhile_cons, List.find?_cons, List.filter_cons]

/-- T17.1 core: the accumulator loop of `_setMediaText` computes the specification -/
theorem canon_eq_spec (l : List LItem) : canon l = canonSpec l := by
  simp [canon, canonSpec, canonGo_eq]

/-- the literal media types of the simple queries of a list, in order -/
def simpleTypes : List LItem → List Cps
  | [] => []
  | .comment _ :: r => simpleTypes r
  | .query q :: r => if (normalize q.mediaType).isEmpty then simpleTypes r else (normalize q.mediaType) :: simpleTypes r

theorem simpleTypes_cons_comment (c : Tok) (r : List LItem) : simpleTypes (.comment c :: r) = simpleTypes r := rfl

theorem simpleTypes_cons_query (q : MQ) (r : List LItem) :
    simpleTypes (.query q :: r) = if (normalize q.mediaType).isEmpty then simpleTypes r else (normalize q.mediaType) :: simpleTypes r := rfl

theorem dedupFrom_types (l : List LItem) : ∀ seen : List Cps,
    (simpleTypes (dedupFrom seen l)).Nodup ∧ ∀ t ∈ simpleTypes (dedupFrom seen l), t ∉ seen := by
  induction l with
  | nil => intro seen; simp [dedupFrom, simpleTypes]
  | cons a r ih =>
    intro seen
    cases a with
    | comment c => simpa [dedupFrom, simpleTypes_cons_comment] using ih seen
    | query q =>
      by_cases he : (normalize q.mediaType).isEmpty = true
      · simpa [dedupFrom, he, simpleTypes_cons_query] using ih seen
      · have he' : (normalize q.mediaType).isEmpty = false := by simpa using he
        by_cases hm : (normalize q.mediaType) ∈ seen
        · simpa [dedupFrom, he', hm] using ih seen
        · obtain ⟨h1, h2⟩ := ih ((normalize q.mediaType) :: seen)
          simp only [dedupFrom, he', hm, List.contains_eq_mem, decide_false, Bool.false_eq_true, if_false,
            simpleTypes_cons_query, List.nodup_cons, List.mem_cons]
          refine ⟨⟨fun hin => ?_, h1⟩, ?_⟩
          · exact (h2 _ hin) (by simp)
          · intro t ht
            rcases ht with rfl | ht
            · exact hm
            · intro hts; exact (h2 t ht) (by simp [hts])

theorem dedupFrom_sublist (l : List LItem) : ∀ seen : List Cps, (dedupFrom seen l).Sublist l := by
  induction l with
  | nil => intro seen; simp [dedupFrom]
  | cons a r ih =>
    intro seen
    cases a with
    | comment c => simpa [dedupFrom] using ih seen
    | query q =>
      by_cases he : (normalize q.mediaType).isEmpty = true
      · simpa [dedupFrom, he] using ih seen
      · have he' : (normalize q.mediaType).isEmpty = false := by simpa using he
        by_cases hm : (normalize q.mediaType) ∈ seen
        · simpa [dedupFrom, he', hm] using (ih seen).cons _
        · simpa [dedupFrom, he', hm] using ih ((normalize q.mediaType) :: seen)

/-- every simple type of the input survives (first occurrence), unless it was seen before -/
theorem dedupFrom_mem (l : List LItem) : ∀ (seen : List Cps) (t : Cps),
    t ∈ simpleTypes (dedupFrom seen l) ↔ (t ∈ simpleTypes l ∧ t ∉ seen) := by
  induction l with
  | nil => intro seen t; simp [dedupFrom, simpleTypes]
  | cons a r ih =>
    intro seen t
    cases a with
    | comment c => simpa [dedupFrom, simpleTypes_cons_comment] using ih seen t
    | query q =>
      by_cases he : (normalize q.mediaType).isEmpty = true
      · simpa [dedupFrom, he, simpleTypes_cons_query] using ih seen t
      · have he' : (normalize q.mediaType).isEmpty = false := by simpa using he
        by_cases hm : (normalize q.mediaType) ∈ seen
        · simp only [dedupFrom, he', hm, List.contains_eq_mem, decide_true, if_true, Bool.false_eq_true, if_false,
            simpleTypes_cons_query, List.mem_cons, ih seen t]
          constructor
          · rintro ⟨h1, h2⟩; exact ⟨Or.inr h1, h2⟩
          · rintro ⟨h1 | h1, h2⟩
            · exact absurd (h1 ▸ hm) h2
            · exact ⟨h1, h2⟩
        · simp only [dedupFrom, he', hm, List.contains_eq_mem, decide_false, Bool.false_eq_true, if_false,
            simpleTypes_cons_query, List.mem_cons, ih ((normalize q.mediaType) :: seen) t, not_or]
          constructor
          · rintro (h | ⟨h1, h2, h3⟩)
            · exact ⟨Or.inl h, h ▸ hm⟩
            · exact ⟨Or.inr h1, h3⟩
          · rintro ⟨h1 | h1, h2⟩
            · exact Or.inl h1
            · by_cases hq : t = (normalize q.mediaType)
              · exact Or.inl hq
              · exact Or.inr ⟨h1, hq, h2⟩

/-- comments and complex queries all keep their place when no literal `all` is present -/
def isSimpleItem : LItem → Bool
  | .query q => !(normalize q.mediaType).isEmpty
  | .comment _ => false

theorem isSimpleItem_comment (c : Tok) : isSimpleItem (.comment c) = false := rfl
theorem isSimpleItem_query (q : MQ) : isSimpleItem (.query q) = !(normalize q.mediaType).isEmpty := rfl

theorem dedupFrom_keeps_rest (l : List LItem) : ∀ seen : List Cps,
    (dedupFrom seen l).filter (fun i => !isSimpleItem i) = l.filter (fun i => !isSimpleItem i) := by
  induction l with
  | nil => intro seen; simp [dedupFrom]
  | cons a r ih =>
    intro seen
    cases a with
    | comment c => simp [dedupFrom, isSimpleItem_comment, List.filter_cons, ih seen]
    | query q =>
      by_cases he : (normalize q.mediaType).isEmpty = true
      · simp [dedupFrom, he, isSimpleItem_query, List.filter_cons, ih seen]
      · have he' : (normalize q.mediaType).isEmpty = false := by simpa using he
        by_cases hm : (normalize q.mediaType) ∈ seen
        · simp [dedupFrom, he', hm, isSimpleItem_query, List.filter_cons, ih seen]
        · simp [dedupFrom, he', hm, isSimpleItem_query, List.filter_cons, ih ((normalize q.mediaType) :: seen)]

/-! ## T17.2 — the ordered-set view and its operations -/

/-- what a medium is for the ordered set: a simple media type (case-insensitive name) or a query with
features (the whole query) -/
inductive Entry
  | simple (n : Cps)
  | complex (q : MQ)
  deriving DecidableEq, Repr

def Entry.isAll : Entry → Bool
  | .simple n => isAllType n
  | .complex _ => false

def Entry.isSimple : Entry → Bool
  | .simple _ => true
  | .complex _ => false

def entryOf (q : MQ) : Entry :=
  if q.mediaType.isEmpty then .complex q else .simple (normalize q.mediaType)

/-- the ordered set a list denotes -/
def view (l : List LItem) : List Entry := (queries l).map entryOf

/-- no list-level comment (guard of known finding C17-comment-index) -/
def NoComments (l : List LItem) : Prop := ∀ i ∈ l, i.isQuery = true

instance (l : List LItem) : Decidable (NoComments l) := by unfold NoComments; infer_instance

/-- append of a present simple type moves it to the end; append to `all` is rejected (`none`); `all` replaces
everything -/
def specAppend (v : List Entry) (e : Entry) : Option (List Entry) :=
  if v.any Entry.isAll then none
  else if e.isSimple && v.contains e then some (v.erase e ++ [e])
  else if e.isAll then some [e]
  else some (v ++ [e])

/-- delete removes exactly that type; an absent type is rejected (`none`) -/
def specDelete (v : List Entry) (n : Cps) : Option (List Entry) :=
  if v.contains (.simple n) then some (v.erase (.simple n)) else none

/-- item assignment: the k-th medium becomes `e`; other occurrences of a simple `e` go; `all` replaces everything -/
def specSetItem (v : List Entry) (k : Nat) (e : Entry) : List Entry :=
  if e.isAll then [e]
  else if e.isSimple then (v.take k).filter (· != e) ++ e :: (v.drop (k + 1)).filter (· != e)
  else v.set k e

/-! ### `normalize` keeps emptiness -/

theorem unescSimple_ne_nil : ∀ x : Cps, x ≠ [] → unescSimple x ≠ []
  | [], h => absurd rfl h
  | [c], _ => by simp [unescSimple]
  | c :: d :: rest, _ => by
    unfold unescSimple
    split
    · split <;> simp
    · simp

theorem normalize_nil : normalize [] = [] := by simp [normalize, unescSimple, lowerAscii]

theorem normalize_eq_nil (x : Cps) : normalize x = [] ↔ x = [] := by
  constructor
  · intro h
    by_cases hx : x = []
    · exact hx
    · have := unescSimple_ne_nil x hx
      simp [normalize, lowerAscii] at h
      exact absurd h this
  · rintro rfl; exact normalize_nil

theorem normalize_isEmpty (x : Cps) : (normalize x).isEmpty = x.isEmpty := by
  by_cases hx : x = []
  · subst hx; simp [normalize_nil]
  · have hn : normalize x ≠ [] := fun h => hx ((normalize_eq_nil x).1 h)
    have e1 : (normalize x).isEmpty = false := by
      cases h : normalize x with
      | nil => exact absurd h hn
      | cons _ _ => rfl
    have e2 : x.isEmpty = false := by
      cases x with
      | nil => exact absurd rfl hx
      | cons _ _ => rfl
    rw [e1, e2]

theorem isAllType_nil : isAllType [] = false := by decide

/-! ### lists without comments -/

theorem queries_map_query (qs : List MQ) : queries (qs.map LItem.query) = qs := by
  induction qs with
  | nil => rfl
  | cons q r ih => simp [queries] at ih ⊢; exact ih

theorem noComments_eq (l : List LItem) (h : NoComments l) : l = (queries l).map LItem.query := by
  induction l with
  | nil => rfl
  | cons a r ih =>
    cases a with
    | comment c =>
      have := h (.comment c) (by simp)
      simp [LItem.isQuery] at this
    | query q =>
      have hr : NoComments r := fun i hi => h i (by simp [hi])
      have := ih hr
      simp [queries] at this ⊢
      exact this

theorem noComments_map_query (qs : List MQ) : NoComments (qs.map LItem.query) := by
  intro i hi
  simp at hi
  obtain ⟨q, _, rfl⟩ := hi
  rfl

theorem view_map_query (qs : List MQ) : view (qs.map LItem.query) = qs.map entryOf := by
  simp [view, queries_map_query]

/-! ### entries of queries -/

theorem entryOf_isAll (q : MQ) : (entryOf q).isAll = isAllType (normalize q.mediaType) := by
  unfold entryOf
  by_cases h : q.mediaType.isEmpty = true
  · have : q.mediaType = [] := by simpa using h
    simp [h, Entry.isAll, this, normalize_nil, isAllType_nil]
  · simp [h, Entry.isAll]

theorem entryOf_eq_simple (q : MQ) (n : Cps) (hn : n ≠ []) :
    (entryOf q = .simple n) ↔ normalize q.mediaType = n := by
  unfold entryOf
  by_cases h : q.mediaType.isEmpty = true
  · have hq : q.mediaType = [] := by simpa using h
    simp [h, hq, normalize_nil]
    exact fun e => hn e
  · simp [h]

theorem ntypes_map_query (qs : List MQ) :
    ntypes (qs.map LItem.query) = qs.map (fun q => normalize q.mediaType) := by
  simp [ntypes, queries_map_query]

theorem ntypes_any_all (qs : List MQ) :
    (ntypes (qs.map LItem.query)).any isAllType = (qs.map entryOf).any Entry.isAll := by
  simp [ntypes, queries_map_query, List.any_map, Function.comp_def, entryOf_isAll]

theorem ntypes_contains (qs : List MQ) (n : Cps) (hn : n ≠ []) :
    (ntypes (qs.map LItem.query)).contains n = (qs.map entryOf).contains (.simple n) := by
  rw [ntypes_map_query]
  induction qs with
  | nil => simp
  | cons q r ih =>
    have := entryOf_eq_simple q n hn
    have hd : (n == normalize q.mediaType) = (Entry.simple n == entryOf q) := by
      rw [Bool.eq_iff_iff]
      simp only [beq_iff_eq]
      constructor
      · intro e; exact (this.2 e.symm).symm
      · intro e; exact (this.1 e.symm).symm
    simp only [List.map_cons, List.contains_cons, ih, hd]

/-! ### `deleteMedium` -/

theorem findType_spec (n : Cps) (hn : n ≠ []) (qs : List MQ) :
    (findType n qs = none → (qs.map entryOf).contains (.simple n) = false) ∧
    (∀ i, findType n qs = some i → (qs.eraseIdx i).map entryOf = (qs.map entryOf).erase (.simple n) ∧
        (qs.map entryOf).contains (.simple n) = true) := by
  induction qs with
  | nil => simp [findType]
  | cons q r ih =>
    have hq := entryOf_eq_simple q n hn
    by_cases h : normalize q.mediaType = n
    · have h2 := hq.2 h
      simp [findType, h, h2]
    · have h2 : ¬ entryOf q = .simple n := fun e => h (hq.1 e)
      have h4 : ¬ Entry.simple n = entryOf q := fun e => h2 e.symm
      constructor
      · intro hf
        simp only [findType, beq_iff_eq, h, if_false, Option.map_eq_none_iff] at hf
        have := ih.1 hf
        simp [h4]
        simpa using this
      · intro i hf
        simp only [findType, beq_iff_eq, h, if_false, Option.map_eq_some_iff] at hf
        obtain ⟨j, hj, rfl⟩ := hf
        obtain ⟨e1, e2⟩ := ih.2 j hj
        simp [List.eraseIdx_cons_succ, e1, List.erase_cons, h2, h4]
        simpa using e2

theorem map_query_eraseIdx (qs : List MQ) (i : Nat) :
    (qs.map LItem.query).eraseIdx i = (qs.eraseIdx i).map LItem.query := by
  simp [List.eraseIdx_eq_take_drop_succ, List.map_take, List.map_drop]

theorem map_eraseIdx {α β : Type} (f : α → β) (l : List α) (i : Nat) :
    (l.eraseIdx i).map f = (l.map f).eraseIdx i := by
  simp [List.eraseIdx_eq_take_drop_succ, List.map_take, List.map_drop]

theorem queries_cons_query (q : MQ) (r : List LItem) : queries (.query q :: r) = q :: queries r := by
  simp [queries]

theorem queries_cons_comment (c : Tok) (r : List LItem) : queries (.comment c :: r) = queries r := by
  simp [queries]

/-- `_seqindex`: the k-th medium sits at position p of the seq; what lies before / behind it -/
theorem seqIndex_spec : ∀ (l : List LItem) (k : Nat), k < (queries l).length →
    ∃ p, seqIndex l k = some p ∧ p < l.length ∧
      queries (l.eraseIdx p) = (queries l).eraseIdx k ∧
      queries (l.take p) = (queries l).take k ∧
      queries (l.drop (p + 1)) = (queries l).drop (k + 1) := by
  intro l
  induction l with
  | nil => intro k h; simp [queries] at h
  | cons a r ih =>
    intro k h
    cases a with
    | comment c =>
      rw [queries_cons_comment] at h
      obtain ⟨p, h1, h2, h3, h4, h5⟩ := ih k h
      refine ⟨p + 1, by simp [seqIndex, h1], by simp; omega, ?_, ?_, ?_⟩
      · simp [List.eraseIdx_cons_succ, queries_cons_comment, h3]
      · simp [List.take_succ_cons, queries_cons_comment, h4]
      · simp [queries_cons_comment, h5]
    | query q =>
      rw [queries_cons_query] at h
      cases k with
      | zero =>
        exact ⟨0, rfl, by simp, by simp [queries_cons_query], by simp [queries], by simp [queries_cons_query]⟩
      | succ k =>
        have hk : k < (queries r).length := by simpa using h
        obtain ⟨p, h1, h2, h3, h4, h5⟩ := ih k hk
        refine ⟨p + 1, by simp [seqIndex, h1], by simp; omega, ?_, ?_, ?_⟩
        · simp [List.eraseIdx_cons_succ, queries_cons_query, h3]
        · simp [List.take_succ_cons, queries_cons_query, h4]
        · simp [queries_cons_query, h5]

theorem seqIndex_none : ∀ (l : List LItem) (k : Nat), (queries l).length ≤ k → seqIndex l k = none := by
  intro l
  induction l with
  | nil => intro k _; rfl
  | cons a r ih =>
    intro k h
    cases a with
    | comment c => rw [queries_cons_comment] at h; simp [seqIndex, ih k h]
    | query q =>
      rw [queries_cons_query] at h
      cases k with
      | zero => simp at h
      | succ k => simp [seqIndex, ih k (by simpa using h)]

theorem findType_lt (n : Cps) : ∀ (qs : List MQ) (i : Nat), findType n qs = some i → i < qs.length := by
  intro qs
  induction qs with
  | nil => intro i h; simp [findType] at h
  | cons q r ih =>
    intro i h
    simp only [findType] at h
    split at h
    · simp at h; subst h; simp
    · simp only [Option.map_eq_some_iff] at h
      obtain ⟨j, hj, rfl⟩ := h
      have := ih j hj
      simp; omega

/-- `deleteMedium`, non-empty type name, type present: exactly that medium goes -/
theorem deleteMedium_present (m : ML) (raising : Bool) (old : Cps)
    (hn : normalize old ≠ []) (hp : (view m.seq).contains (.simple (normalize old)) = true) :
    view (m.deleteMedium raising old).1.seq = (view m.seq).erase (.simple (normalize old)) ∧
    (m.deleteMedium raising old).2 = .ret () ∧
    (m.deleteMedium raising old).1.wellformed = m.wellformed := by
  obtain ⟨h1, h2⟩ := findType_spec (normalize old) hn (queries m.seq)
  unfold ML.deleteMedium
  cases hf : findType (normalize old) (queries m.seq) with
  | none =>
    have := h1 hf
    simp only [view] at hp
    rw [this] at hp; exact absurd hp (by simp)
  | some i =>
    obtain ⟨e1, _⟩ := h2 i hf
    obtain ⟨p, hp1, _, hp3, _, _⟩ := seqIndex_spec m.seq i (findType_lt _ _ _ hf)
    simp only [hp1]
    refine ⟨?_, trivial, trivial⟩
    show view (m.seq.eraseIdx p) = _
    simp only [view, hp3, e1]

/-- … type absent: rejected, nothing changes -/
theorem deleteMedium_absent (m : ML) (raising : Bool) (old : Cps)
    (hn : normalize old ≠ []) (hp : (view m.seq).contains (.simple (normalize old)) = false) :
    (m.deleteMedium raising old).1 = m ∧
    (m.deleteMedium raising old).2 = (if raising then .raised .notFound else .ret ()) := by
  obtain ⟨h1, h2⟩ := findType_spec (normalize old) hn (queries m.seq)
  unfold ML.deleteMedium
  cases hf : findType (normalize old) (queries m.seq) with
  | none => exact ⟨rfl, rfl⟩
  | some i =>
    obtain ⟨_, e2⟩ := h2 i hf
    simp only [view] at hp
    rw [e2] at hp; exact absurd hp (by simp)

/-! ### `appendMedium` -/

theorem mediaTypes_fixed : ∀ t ∈ Gen.C17Media.mediaTypes, normalize t = t := by decide

/-- the media type of a query is empty or one of `MEDIA_TYPES` (true of every parsed query, `parseQ_goodType`) -/
def GoodType (q : MQ) : Prop := q.mediaType = [] ∨ isMediaType q.mediaType = true

theorem normalize_idem_of_good (q : MQ) (h : GoodType q) :
    normalize (normalize q.mediaType) = normalize q.mediaType := by
  rcases h with h | h
  · simp [h, normalize_nil]
  · have : normalize q.mediaType ∈ Gen.C17Media.mediaTypes := by simpa [isMediaType] using h
    exact mediaTypes_fixed _ this

theorem view_append_query (l : List LItem) (q : MQ) : view (l ++ [.query q]) = view l ++ [entryOf q] := by
  simp [view, queries]

theorem ntypes_eq (l : List LItem) : ntypes l = ntypes ((queries l).map LItem.query) := by
  simp [ntypes, queries_map_query]

theorem view_eq (l : List LItem) : view l = (queries l).map entryOf := rfl

theorem appendMedium_refines (m : ML) (raising : Bool) (toks : List Tok) (q : MQ)
    (hq : parseQ {} toks = .ok q) (hg : GoodType q) :
    (specAppend (view m.seq) (entryOf q) = none →
      (m.appendMedium raising (some toks)).1 = m ∧
      (m.appendMedium raising (some toks)).2 = (if raising then .raised .invalidModification else .ret true)) ∧
    (∀ v', specAppend (view m.seq) (entryOf q) = some v' →
      view (m.appendMedium raising (some toks)).1.seq = v' ∧
      (m.appendMedium raising (some toks)).2 = .ret true ∧
      (m.appendMedium raising (some toks)).1.wellformed = m.wellformed) := by
  have hv : view m.seq = (queries m.seq).map entryOf := rfl
  have hany : (ntypes m.seq).any isAllType = (view m.seq).any Entry.isAll := by
    rw [hv, ntypes_eq, ntypes_any_all]
  unfold ML.appendMedium prepareSet specAppend
  simp only [hq]
  rw [hany]
  by_cases hall : (view m.seq).any Entry.isAll = true
  · simp [hall]
  · have hall' : (view m.seq).any Entry.isAll = false := by simpa using hall
    simp only [hall', Bool.false_eq_true, if_false]
    by_cases he : q.mediaType.isEmpty = true
    · -- complex query: appended
      have hq0 : q.mediaType = [] := by simpa using he
      have hE : entryOf q = .complex q := by simp [entryOf, he]
      have hnm : (normalize q.mediaType).isEmpty = true := by rw [normalize_isEmpty]; exact he
      have hna : isAllType (normalize q.mediaType) = false := by rw [hq0, normalize_nil]; exact isAllType_nil
      simp only [hnm, Bool.not_true, Bool.false_and, Bool.false_eq_true, if_false, hE, Entry.isSimple, Entry.isAll,
        hna]
      refine ⟨fun h => by simp at h, fun v' h => ?_⟩
      simp only [Option.some.injEq] at h
      subst h
      refine ⟨?_, trivial, trivial⟩
      rw [view_append_query, hE]
    · have he' : q.mediaType.isEmpty = false := by simpa using he
      have hnm : (normalize q.mediaType).isEmpty = false := by rw [normalize_isEmpty]; exact he'
      have hnn : normalize q.mediaType ≠ [] := by
        intro h; rw [h] at hnm; simp at hnm
      have hE : entryOf q = .simple (normalize q.mediaType) := by simp [entryOf, he']
      have hcont : (ntypes m.seq).contains (normalize q.mediaType) =
          (view m.seq).contains (.simple (normalize q.mediaType)) := by
        rw [hv, ntypes_eq, ntypes_contains _ _ hnn]
      simp only [hnm, Bool.not_false, Bool.true_and, hE, Entry.isSimple, Entry.isAll, hcont]
      by_cases hp : (view m.seq).contains (.simple (normalize q.mediaType)) = true
      · -- present: deleted, then appended
        simp only [hp, if_true]
        have hidem := normalize_idem_of_good q hg
        have hd := deleteMedium_present m raising (normalize q.mediaType) (by rw [hidem]; exact hnn)
          (by rw [hidem]; exact hp)
        rw [hidem] at hd
        obtain ⟨d1, _, d4⟩ := hd
        refine ⟨fun h => by simp at h, fun v' h => ?_⟩
        simp only [Option.some.injEq] at h
        subst h
        refine ⟨?_, trivial, d4⟩
        rw [view_append_query, d1, hE]
      · have hp' : (view m.seq).contains (.simple (normalize q.mediaType)) = false := by simpa using hp
        simp only [hp', Bool.false_eq_true, if_false]
        by_cases ha : isAllType (normalize q.mediaType) = true
        · simp only [ha, if_true]
          refine ⟨fun h => by simp at h, fun v' h => ?_⟩
          simp only [Option.some.injEq] at h
          subst h
          refine ⟨?_, trivial, trivial⟩
          simp [view, queries, hE]
        · have ha' : isAllType (normalize q.mediaType) = false := by simpa using ha
          simp only [ha', Bool.false_eq_true, if_false]
          refine ⟨fun h => by simp at h, fun v' h => ?_⟩
          simp only [Option.some.injEq] at h
          subst h
          refine ⟨?_, trivial, trivial⟩
          rw [view_append_query, hE]

/-! ### item assignment -/

/-- what the deletion loop of `__setitem__` keeps (apart from the new item itself) -/
def keepP (newmt : Cps) : LItem → Bool
  | .comment _ => true
  | .query q => !sameMedium newmt q

theorem dropSame_past (newmt : Cps) : ∀ (l : List LItem) (j k : Nat), k < j →
    dropSame newmt l j k = l.filter (keepP newmt) := by
  intro l
  induction l with
  | nil => intro j k _; simp [dropSame]
  | cons a r ih =>
    intro j k h
    have hne : (j != k) = true := by simp; omega
    cases a with
    | comment c => simp [dropSame, keepP, List.filter_cons, ih (j + 1) k (by omega)]
    | query q =>
      by_cases hc : sameMedium newmt q = true
      · simp [dropSame, hne, hc, keepP, List.filter_cons, ih (j + 1) k (by omega)]
      · have hc' : sameMedium newmt q = false := by simpa using hc
        simp [dropSame, hne, hc', keepP, List.filter_cons, ih (j + 1) k (by omega)]

theorem dropSame_set (newmt : Cps) (x : MQ) : ∀ (l : List LItem) (k j : Nat), k < l.length →
    dropSame newmt (l.set k (.query x)) j (j + k) =
      (l.take k).filter (keepP newmt) ++ .query x :: (l.drop (k + 1)).filter (keepP newmt) := by
  intro l
  induction l with
  | nil => intro k j h; simp at h
  | cons a r ih =>
    intro k j h
    cases k with
    | zero =>
      simp [dropSame, dropSame_past newmt r (j + 1) j (by omega)]
    | succ k =>
      have hk : k < r.length := by simpa using h
      have e : j + (k + 1) = (j + 1) + k := by omega
      have hne : (j != j + (k + 1)) = true := by simp
      cases a with
      | comment c =>
        simp only [List.set_cons_succ, dropSame, List.take_succ_cons, List.drop_succ_cons]
        rw [e, ih k (j + 1) hk]
        simp [keepP, List.filter_cons]
      | query q =>
        simp only [List.set_cons_succ, dropSame, List.take_succ_cons, List.drop_succ_cons, hne, Bool.true_and]
        rw [e, ih k (j + 1) hk]
        by_cases hc : sameMedium newmt q = true
        · simp [hc, keepP, List.filter_cons]
        · have hc' : sameMedium newmt q = false := by simpa using hc
          simp [hc', keepP, List.filter_cons]

theorem filter_const_true {α : Type} (l : List α) : l.filter (fun _ => true) = l := by
  induction l with
  | nil => rfl
  | cons a r ih => simp [List.filter_cons, ih]

theorem filter_const_false {α : Type} (l : List α) : l.filter (fun _ => false) = [] := by
  induction l with
  | nil => rfl
  | cons a r ih => simp [List.filter_cons, ih]

theorem pyIndex_lt (n : Nat) (i : Int) (k : Nat) (h : pyIndex n i = some k) : k < n := by
  unfold pyIndex at h
  split at h
  · split at h
    · simp at h; omega
    · simp at h
  · split at h
    · simp at h; omega
    · simp at h

theorem view_append (a b : List LItem) : view (a ++ b) = view a ++ view b := by
  simp [view, queries]

theorem view_cons_query (q : MQ) (r : List LItem) : view (.query q :: r) = entryOf q :: view r := by
  simp [view, queries_cons_query]

theorem queries_filter_keepP (newmt : Cps) (l : List LItem) :
    queries (l.filter (keepP newmt)) = (queries l).filter (fun q' => !sameMedium newmt q') := by
  induction l with
  | nil => rfl
  | cons a r ih =>
    cases a with
    | comment c => simp [List.filter_cons, keepP, queries_cons_comment, ih]
    | query q =>
      by_cases h : sameMedium newmt q = true
      · simp [List.filter_cons, keepP, h, queries_cons_query, ih]
      · have h' : sameMedium newmt q = false := by simpa using h
        simp [List.filter_cons, keepP, h', queries_cons_query, ih]

theorem setItem_refines (m : ML) (raising : Bool) (index : Int) (toks : List Tok) (q : MQ)
    (hq : parseQ {} toks = .ok q) :
    (pyIndex (queries m.seq).length index = none →
      m.setItem raising index (some toks) = (m, .raised .indexError)) ∧
    (∀ k, pyIndex (queries m.seq).length index = some k →
      view (m.setItem raising index (some toks)).1.seq = specSetItem (view m.seq) k (entryOf q) ∧
      (m.setItem raising index (some toks)).2 = .ret () ∧
      (m.setItem raising index (some toks)).1.wellformed = m.wellformed) := by
  unfold ML.setItem prepareSet
  simp only [hq]
  constructor
  · intro h; simp [h]
  · intro k h
    have hkq : k < (queries m.seq).length := pyIndex_lt _ _ _ h
    obtain ⟨p, hp1, hp2, _, hp4, hp5⟩ := seqIndex_spec m.seq k hkq
    simp only [h, Option.bind_some, hp1]
    have hd := dropSame_set (normalize q.mediaType) q m.seq p 0 hp2
    simp only [Nat.zero_add] at hd
    refine ⟨?_, trivial, trivial⟩
    show view (dropSame (normalize q.mediaType) (m.seq.set p (.query q)) 0 p) = _
    rw [hd, view_append, view_cons_query]
    simp only [view, queries_filter_keepP, hp4, hp5]
    generalize queries m.seq = qs at hkq
    unfold specSetItem
    by_cases he : q.mediaType.isEmpty = true
    · -- complex query: nothing else goes
      have hq0 : q.mediaType = [] := by simpa using he
      have hE : entryOf q = .complex q := by simp [entryOf, he]
      have hsm : ∀ q', sameMedium (normalize q.mediaType) q' = false := by
        intro q'; simp [sameMedium, hq0, normalize_nil, isAllType_nil]
      simp only [hE, Entry.isAll, Entry.isSimple, Bool.false_eq_true, if_false, hsm, Bool.not_false,
        filter_const_true]
      rw [List.set_eq_take_append_cons_drop]
      simp [hkq, List.map_take, List.map_drop]
    · have he' : q.mediaType.isEmpty = false := by simpa using he
      have hnm : (normalize q.mediaType).isEmpty = false := by rw [normalize_isEmpty]; exact he'
      have hnn : normalize q.mediaType ≠ [] := by
        intro h; rw [h] at hnm; simp at hnm
      have hE : entryOf q = .simple (normalize q.mediaType) := by simp [entryOf, he']
      by_cases ha : isAllType (normalize q.mediaType) = true
      · have hsm : ∀ q', sameMedium (normalize q.mediaType) q' = true := by
          intro q'; simp [sameMedium, ha]
        simp [hE, Entry.isAll, ha, hsm, filter_const_false]
      · have ha' : isAllType (normalize q.mediaType) = false := by simpa using ha
        have hsm : ∀ q', (!sameMedium (normalize q.mediaType) q') = (entryOf q' != .simple (normalize q.mediaType)) := by
          intro q'
          have := entryOf_eq_simple q' _ hnn
          have hb : (normalize q.mediaType == normalize q'.mediaType) =
              (entryOf q' == .simple (normalize q.mediaType)) := by
            rw [Bool.eq_iff_iff]; simp only [beq_iff_eq]
            exact ⟨fun e => this.2 e.symm, fun e => (this.1 e).symm⟩
          simp only [sameMedium, ha', hnm, Bool.false_or, Bool.not_false, Bool.true_and, hb, bne]
        have hmf : ∀ l : List MQ, (l.filter (fun q' => !sameMedium (normalize q.mediaType) q')).map entryOf =
            (l.map entryOf).filter (· != .simple (normalize q.mediaType)) := by
          intro l
          induction l with
          | nil => rfl
          | cons a r ih =>
            simp only [List.filter_cons, List.map_cons, hsm a]
            split <;> simp [ih]
        simp only [hE, Entry.isAll, ha', Bool.false_eq_true, if_false, Entry.isSimple, if_true, hmf,
          List.map_take, List.map_drop]

/-! ### the ordered-set operations keep the set canonical -/

/-- canonical: a simple media type occurs once, `all` stands alone -/
def CanonV (v : List Entry) : Prop :=
  (v.filter Entry.isSimple).Nodup ∧ ∀ e ∈ v, e.isAll = true → v = [e]

theorem canonV_nil : CanonV [] := by simp [CanonV]

theorem canonV_single (e : Entry) : CanonV [e] := by
  refine ⟨?_, ?_⟩
  · cases h : e.isSimple <;> simp [List.filter_cons, h]
  · intro e' he' _; simp at he'; rw [he']

theorem filter_erase_of_pos {α : Type} [DecidableEq α] (p : α → Bool) (e : α) (hp : p e = true) :
    ∀ v : List α, (v.erase e).filter p = (v.filter p).erase e := by
  intro v
  induction v with
  | nil => rfl
  | cons a r ih =>
    by_cases hae : a = e
    · subst hae; simp [List.filter_cons, hp]
    · have hne : (a == e) = false := by simpa using hae
      by_cases hpa : p a = true
      · simp [List.erase_cons, hne, List.filter_cons, hpa, ih]
      · have hpa' : p a = false := by simpa using hpa
        simp [List.erase_cons, hne, List.filter_cons, hpa', ih]

theorem isAll_isSimple (e : Entry) (h : e.isAll = true) : e.isSimple = true := by
  cases e <;> simp_all [Entry.isAll, Entry.isSimple]

theorem specDelete_canon (v v' : List Entry) (n : Cps) (hc : CanonV v) (h : specDelete v n = some v') :
    CanonV v' := by
  unfold specDelete at h
  split at h
  · simp only [Option.some.injEq] at h
    subst h
    refine ⟨?_, ?_⟩
    · exact List.Nodup.sublist (List.Sublist.filter _ List.erase_sublist) hc.1
    · intro e he hall
      have hev : e ∈ v := List.mem_of_mem_erase he
      have hv := hc.2 e hev hall
      rw [hv] at he ⊢
      by_cases hx : e = Entry.simple n
      · subst hx; simp at he
      · have : (e == Entry.simple n) = false := by simpa using hx
        simp [List.erase_cons, this]
  · simp at h

theorem specAppend_canon (v v' : List Entry) (e : Entry) (hc : CanonV v) (h : specAppend v e = some v') :
    CanonV v' := by
  unfold specAppend at h
  by_cases hall : v.any Entry.isAll = true
  · simp [hall] at h
  · have hall' : v.any Entry.isAll = false := by simpa using hall
    have hno : ∀ x ∈ v, x.isAll = false := by
      intro x hx
      have := List.any_eq_false.1 hall' x hx
      simpa using this
    simp only [hall', Bool.false_eq_true, if_false] at h
    by_cases hp : (e.isSimple && v.contains e) = true
    · simp only [hp, if_true, Option.some.injEq] at h
      subst h
      have hs : e.isSimple = true := by simp [Bool.and_eq_true] at hp; exact hp.1
      have hm : e ∈ v := by simp [Bool.and_eq_true] at hp; exact hp.2
      refine ⟨?_, ?_⟩
      · rw [List.filter_append, filter_erase_of_pos _ _ hs]
        simp only [List.filter_cons, hs, if_true, List.filter_nil]
        rw [List.nodup_append]
        refine ⟨List.Nodup.erase _ hc.1, by simp, ?_⟩
        intro a ha b hb
        simp at hb; subst hb
        exact ((List.Nodup.mem_erase_iff hc.1).1 ha).1
      · intro x hx hxa
        rcases List.mem_append.1 hx with hx | hx
        · have := hno x (List.mem_of_mem_erase hx); rw [this] at hxa; simp at hxa
        · simp at hx; subst hx
          have := hno x hm; rw [this] at hxa; simp at hxa
    · have hp' : (e.isSimple && v.contains e) = false := by simpa using hp
      simp only [hp', Bool.false_eq_true, if_false] at h
      by_cases ha : e.isAll = true
      · simp only [ha, if_true, Option.some.injEq] at h
        subst h; exact canonV_single e
      · have ha' : e.isAll = false := by simpa using ha
        simp only [ha', Bool.false_eq_true, if_false, Option.some.injEq] at h
        subst h
        refine ⟨?_, ?_⟩
        · rw [List.filter_append]
          by_cases hs : e.isSimple = true
          · have hnm : e ∉ v := by
              intro hm
              have : (e.isSimple && v.contains e) = true := by simp [hs, hm]
              rw [this] at hp'; simp at hp'
            simp only [List.filter_cons, hs, if_true, List.filter_nil]
            rw [List.nodup_append]
            refine ⟨hc.1, by simp, ?_⟩
            intro a hma b hb
            simp at hb; subst hb
            intro hab; subst hab
            exact hnm (List.mem_filter.1 hma).1
          · have hs' : e.isSimple = false := by simpa using hs
            simp [List.filter_cons, hs', hc.1]
        · intro x hx hxa
          rcases List.mem_append.1 hx with hx | hx
          · have := hno x hx; rw [this] at hxa; simp at hxa
          · simp at hx; subst hx; rw [ha'] at hxa; simp at hxa

theorem nodup_middle' {α : Type} (a : α) (l₁ l₂ : List α) :
    (l₁ ++ a :: l₂).Nodup ↔ (a :: (l₁ ++ l₂)).Nodup := List.Perm.nodup_iff List.perm_middle

theorem take_drop_succ_sublist {α : Type} (v : List α) (k : Nat) : (v.take k ++ v.drop (k + 1)).Sublist v := by
  rw [← List.eraseIdx_eq_take_drop_succ]; exact List.eraseIdx_sublist v k

theorem specSetItem_canon (v : List Entry) (k : Nat) (e : Entry) (hc : CanonV v) (hk : k < v.length) :
    CanonV (specSetItem v k e) := by
  unfold specSetItem
  by_cases ha : e.isAll = true
  · simp only [ha, if_true]; exact canonV_single e
  · have ha' : e.isAll = false := by simpa using ha
    simp only [ha', Bool.false_eq_true, if_false]
    -- a medium `all` in the old list means the old list is `[all]`, so k = 0 and the result is `[e]`
    have hone : ∀ x ∈ v, x.isAll = true → v.take k = [] ∧ v.drop (k + 1) = [] := by
      intro x hx hxa
      have hv := hc.2 x hx hxa
      rw [hv] at hk ⊢
      have : k = 0 := by simp at hk; omega
      subst this; simp
    by_cases hs : e.isSimple = true
    · simp only [hs, if_true]
      refine ⟨?_, ?_⟩
      · rw [List.filter_append, List.filter_cons]
        simp only [hs, if_true]
        rw [nodup_middle', List.nodup_cons]
        refine ⟨?_, ?_⟩
        · intro hm
          rcases List.mem_append.1 hm with hm | hm
          · have := (List.mem_filter.1 (List.mem_filter.1 hm).1).2; simp at this
          · have := (List.mem_filter.1 (List.mem_filter.1 hm).1).2; simp at this
        · rw [← List.filter_append, ← List.filter_append]
          exact List.Nodup.sublist
            (List.Sublist.filter _ (List.Sublist.trans List.filter_sublist (take_drop_succ_sublist v k))) hc.1
      · intro x hx hxa
        exfalso
        have hxe : x ≠ e := by intro h; rw [h, ha'] at hxa; simp at hxa
        have hxv : x ∈ v := by
          rcases List.mem_append.1 hx with h | h
          · exact List.mem_of_mem_take (List.mem_filter.1 h).1
          · rcases List.mem_cons.1 h with h | h
            · exact absurd h hxe
            · exact List.mem_of_mem_drop (List.mem_filter.1 h).1
        obtain ⟨h1, h2⟩ := hone x hxv hxa
        rw [h1, h2] at hx
        simp at hx
        exact hxe hx
    · have hs' : e.isSimple = false := by simpa using hs
      simp only [hs', Bool.false_eq_true, if_false]
      have hset : v.set k e = v.take k ++ e :: v.drop (k + 1) := by
        rw [List.set_eq_take_append_cons_drop]; simp [hk]
      refine ⟨?_, ?_⟩
      · rw [hset, List.filter_append, List.filter_cons]
        simp only [hs', Bool.false_eq_true, if_false]
        rw [← List.filter_append]
        exact List.Nodup.sublist (List.Sublist.filter _ (take_drop_succ_sublist v k)) hc.1
      · intro x hx hxa
        exfalso
        have hxe : x ≠ e := by intro h; rw [h, ha'] at hxa; simp at hxa
        have hxv : x ∈ v := by
          rcases List.mem_or_eq_of_mem_set hx with h | h
          · exact h
          · exact absurd h hxe
        obtain ⟨h1, h2⟩ := hone x hxv hxa
        rw [hset, h1, h2] at hx
        simp at hx
        exact hxe hx

/-! ### count, indexing, iteration -/

theorem pyIndex_nat (n i : Nat) : pyIndex n (i : Int) = if i < n then some i else none := by
  unfold pyIndex
  have h0 : (0 : Int) ≤ (i : Int) := Int.natCast_nonneg i
  simp [h0]

/-- `item(i)` is the i-th element of the iteration, for every i below `length` -/
theorem item_agrees (m : ML) (i : Nat) (hi : i < m.length) :
    m.item (i : Int) = .ret (m.iterTypes[i]?) := by
  unfold ML.item ML.iterTypes
  unfold ML.length at hi
  rw [pyIndex_nat]
  simp only [hi, if_true]
  have : (queries m.seq)[i]? = some (queries m.seq)[i] := by simp [hi]
  rw [this]
  simp [hi]

theorem item_at_length (m : ML) : m.item (m.length : Int) = .ret none := by
  unfold ML.item ML.length
  rw [pyIndex_nat]
  simp

/-! ## T17.4 — the query parser keeps every token -/

/-- white space is the only thing a parse drops -/
def notS (t : Tok) : Bool := t.typ != .s

/-- tokens that `ProdParser.parse` handles itself, before the productions -/
def TT.special : TT → Bool
  | .comment | .s | .invalid | .eof => true
  | _ => false

/-- the tokens consumed so far, in order -/
def QSt.toks (st : QSt) : List Tok := st.items.reverse.map QItem.toTok

theorem parseQ_cons_sig (st : QSt) (t : Tok) (ts : List Tok) (h : t.typ.special = false) :
    parseQ st (t :: ts) = match stepQ false st t with
      | .cont st' => parseQ st' ts
      | .noMatch => .bad
      | .missing => .bad
      | .unsupported => .unsupported := by
  cases ht : t.typ <;> simp [ht, TT.special] at h <;> simp only [parseQ, ht] <;> try rfl

/-- every transition appends exactly the token it consumed -/
theorem stepQ_emit (p : Bool) (st st' : QSt) (t : Tok) (h : stepQ p st t = .cont st') :
    ∃ x, st'.items = x :: st.items ∧ x.toTok = t := by
  unfold stepQ at h
  cases hs : st.s <;> simp only [hs] at h <;> (repeat' split at h) <;>
    simp_all [QSt.emit, QItem.toTok] <;> (subst h; simp)

theorem special_cases (t : Tok) :
    t.typ = .comment ∨ t.typ = .s ∨ t.typ = .invalid ∨ t.typ = .eof ∨ t.typ.special = false := by
  cases h : t.typ <;> simp [TT.special]

/-- T17.4 (intact): the tokens of an accepted query are exactly the tokens consumed — every feature, value and
their order; only white space is dropped -/
theorem parseQ_toks : ∀ (ts : List Tok) (st : QSt) (q : MQ), parseQ st ts = .ok q →
    q.toks = st.toks ++ ts.filter notS := by
  intro ts
  induction ts with
  | nil =>
    intro st q h
    simp only [parseQ] at h
    split at h
    · simp only [POut.ok.injEq] at h; subst h; simp [MQ.toks, QSt.toMQ, QSt.toks]
    · simp at h
  | cons t ts ih =>
    intro st q h
    rcases special_cases t with ht | ht | ht | ht | ht
    · simp only [parseQ, ht] at h
      rw [ih _ _ h]
      simp [QSt.toks, notS, ht, List.filter_cons, QItem.toTok]
    · simp only [parseQ, ht] at h
      rw [ih _ _ h]
      simp [notS, ht, List.filter_cons]
    · simp [parseQ, ht] at h
    · simp [parseQ, ht] at h
    · rw [parseQ_cons_sig st t ts ht] at h
      have hns : notS t = true := by
        cases hty : t.typ <;> simp [notS, hty] <;> simp [hty, TT.special] at ht
      cases hstep : stepQ false st t with
      | cont st' =>
        simp only [hstep] at h
        obtain ⟨x, hx1, hx2⟩ := stepQ_emit false st st' t hstep
        rw [ih _ _ h]
        simp [QSt.toks, hx1, hx2, List.filter_cons, hns]
      | noMatch => simp [hstep] at h
      | missing => simp [hstep] at h
      | unsupported => simp [hstep] at h

/-- white space never matters -/
theorem parseQ_filter_S : ∀ (ts : List Tok) (st : QSt), parseQ st (ts.filter notS) = parseQ st ts := by
  intro ts
  induction ts with
  | nil => intro st; rfl
  | cons t ts ih =>
    intro st
    rcases special_cases t with ht | ht | ht | ht | ht
    · simp [List.filter_cons, notS, ht, parseQ, ih]
    · simp [List.filter_cons, notS, ht, parseQ, ih]
    · simp [List.filter_cons, notS, ht, parseQ]
    · simp [List.filter_cons, notS, ht, parseQ]
    · have hns : notS t = true := by
        cases hty : t.typ <;> simp [notS, hty] <;> simp [hty, TT.special] at ht
      simp only [List.filter_cons, hns, if_true]
      rw [parseQ_cons_sig st t _ ht, parseQ_cons_sig st t _ ht]
      cases hstep : stepQ false st t <;> simp [ih]

theorem QSt_toks_init : ({} : QSt).toks = [] := rfl

/-- T17.4 (round trip for every accepted query): the token-level serialisation of a parsed query parses to the
same query -/
theorem parseQ_reparse (ts : List Tok) (q : MQ) (h : parseQ {} ts = .ok q) : parseQ {} q.toks = .ok q := by
  have h1 := parseQ_toks ts {} q h
  rw [QSt_toks_init, List.nil_append] at h1
  rw [h1, parseQ_filter_S]; exact h

/-- the media type stored by the parser is one of `MEDIA_TYPES` -/
theorem stepQ_mtype (p : Bool) (st st' : QSt) (t : Tok) (h : stepQ p st t = .cont st')
    (hi : ∀ v, st.mtype = some v → isMediaType v = true) : ∀ v, st'.mtype = some v → isMediaType v = true := by
  unfold stepQ at h
  cases hs : st.s <;> simp only [hs] at h <;> (repeat' split at h) <;>
    simp_all [QSt.emit] <;> (subst h; simp_all)

theorem parseQ_good : ∀ (ts : List Tok) (st : QSt) (q : MQ),
    (∀ v, st.mtype = some v → isMediaType v = true) → parseQ st ts = .ok q → GoodType q := by
  intro ts
  induction ts with
  | nil =>
    intro st q hi h
    simp only [parseQ] at h
    split at h
    · simp only [POut.ok.injEq] at h; subst h
      unfold GoodType QSt.toMQ
      cases hm : st.mtype with
      | none => simp
      | some v =>
        by_cases hn : st.notSimple = true
        · simp [hn]
        · simp [hn]; exact Or.inr (hi v hm)
    · simp at h
  | cons t ts ih =>
    intro st q hi h
    rcases special_cases t with ht | ht | ht | ht | ht
    · simp only [parseQ, ht] at h; exact ih _ _ (by simpa using hi) h
    · simp only [parseQ, ht] at h; exact ih _ _ hi h
    · simp [parseQ, ht] at h
    · simp [parseQ, ht] at h
    · rw [parseQ_cons_sig st t ts ht] at h
      cases hstep : stepQ false st t with
      | cont st' =>
        simp only [hstep] at h
        exact ih _ _ (stepQ_mtype false st st' t hstep hi) h
      | noMatch => simp [hstep] at h
      | missing => simp [hstep] at h
      | unsupported => simp [hstep] at h

theorem parseQ_goodType (ts : List Tok) (q : MQ) (h : parseQ {} ts = .ok q) : GoodType q :=
  parseQ_good ts {} q (by intro v hv; simp at hv) h

/-! ## histories of edit operations -/

inductive Op
  | append (raising : Bool) (t : MediumText)
  | delete (raising : Bool) (old : Cps)
  | setItem (raising : Bool) (index : Int) (t : MediumText)

def ML.apply (m : ML) : Op → ML
  | .append r t => (m.appendMedium r t).1
  | .delete r o => (m.deleteMedium r o).1
  | .setItem r i t => (m.setItem r i t).1

/-- the invariant of the edit operations: the list denotes a canonical ordered set -/
def Inv (m : ML) : Prop := CanonV (view m.seq)

theorem noComments_eraseIdx (l : List LItem) (i : Nat) (h : NoComments l) : NoComments (l.eraseIdx i) :=
  fun x hx => h x ((List.eraseIdx_sublist l i).subset hx)

theorem canonV_eraseIdx (v : List Entry) (i : Nat) (h : CanonV v) : CanonV (v.eraseIdx i) := by
  refine ⟨List.Nodup.sublist (List.Sublist.filter _ (List.eraseIdx_sublist v i)) h.1, ?_⟩
  intro e he hall
  have hev : e ∈ v := (List.eraseIdx_sublist v i).subset he
  have hv := h.2 e hev hall
  rw [hv] at he ⊢
  cases i with
  | zero => simp at he
  | succ n => simp

theorem deleteMedium_inv (m : ML) (r : Bool) (o : Cps) (h : Inv m) : Inv (m.deleteMedium r o).1 := by
  unfold ML.deleteMedium
  cases hf : findType (normalize o) (queries m.seq) with
  | none => exact h
  | some i =>
    obtain ⟨p, hp1, _, hp3, _, _⟩ := seqIndex_spec m.seq i (findType_lt _ _ _ hf)
    simp only [hp1]
    show CanonV (view (m.seq.eraseIdx p))
    have : view (m.seq.eraseIdx p) = (view m.seq).eraseIdx i := by
      simp only [view, hp3, map_eraseIdx]
    rw [this]; exact canonV_eraseIdx _ _ h

theorem view_length (l : List LItem) : (view l).length = (queries l).length := by simp [view]

theorem appendMedium_inv (m : ML) (r : Bool) (t : MediumText) (h : Inv m) : Inv (m.appendMedium r t).1 := by
  cases t with
  | none => simp [ML.appendMedium, prepareSet]; exact h
  | some toks =>
    cases hq : parseQ {} toks with
    | bad => cases r <;> simp [ML.appendMedium, prepareSet, hq] <;> exact h
    | unsupported => simp [ML.appendMedium, prepareSet, hq]; exact h
    | ok q =>
      obtain ⟨h1, h2⟩ := appendMedium_refines m r toks q hq (parseQ_goodType toks q hq)
      cases hs : specAppend (view m.seq) (entryOf q) with
      | none => rw [(h1 hs).1]; exact h
      | some v' =>
        obtain ⟨e1, _, _⟩ := h2 v' hs
        show CanonV _
        rw [e1]; exact specAppend_canon _ _ _ h hs

theorem setItem_inv (m : ML) (r : Bool) (i : Int) (t : MediumText) (h : Inv m) : Inv (m.setItem r i t).1 := by
  cases t with
  | none => simp [ML.setItem, prepareSet]; exact h
  | some toks =>
    cases hq : parseQ {} toks with
    | bad => cases r <;> simp [ML.setItem, prepareSet, hq] <;> exact h
    | unsupported => simp [ML.setItem, prepareSet, hq]; exact h
    | ok q =>
      obtain ⟨h1, h2⟩ := setItem_refines m r i toks q hq
      cases hp : pyIndex (queries m.seq).length i with
      | none => rw [h1 hp]; exact h
      | some k =>
        obtain ⟨e1, _, _⟩ := h2 k hp
        have hk : k < (view m.seq).length := by rw [view_length]; exact pyIndex_lt _ _ _ hp
        show CanonV _
        rw [e1]; exact specSetItem_canon _ _ _ h hk

theorem apply_inv (m : ML) (op : Op) (h : Inv m) : Inv (m.apply op) := by
  cases op with
  | append r t => exact appendMedium_inv m r t h
  | delete r o => exact deleteMedium_inv m r o h
  | setItem r i t => exact setItem_inv m r i t h

theorem history_inv (ops : List Op) : ∀ m : ML, Inv m → Inv (ops.foldl ML.apply m) := by
  induction ops with
  | nil => intro m h; exact h
  | cons op r ih => intro m h; exact ih _ (apply_inv m op h)

/-! ## the parse-time filter yields a canonical ordered set -/

/-- the simple entries of the view are the (normalised) simple types of the list -/
theorem view_simple_eq (l : List LItem) :
    (view l).filter Entry.isSimple = (simpleTypes l).map Entry.simple := by
  induction l with
  | nil => rfl
  | cons a r ih =>
    cases a with
    | comment c => simpa [view, queries_cons_comment, simpleTypes_cons_comment] using ih
    | query q =>
      simp only [view] at ih ⊢
      rw [queries_cons_query, List.map_cons, List.filter_cons, simpleTypes_cons_query, normalize_isEmpty]
      by_cases he : q.mediaType.isEmpty = true
      · simp only [entryOf, he, if_true, Entry.isSimple, Bool.false_eq_true, if_false, ih]
      · have he' : q.mediaType.isEmpty = false := by simpa using he
        simp only [entryOf, he', Bool.false_eq_true, if_false, Entry.isSimple, if_true, ih, List.map_cons]

theorem queries_comments_append (a : List LItem) (x : Option LItem) :
    queries (a.filter isComment ++ x.toList) = queries x.toList := by
  induction a with
  | nil => simp
  | cons b r ih =>
    cases b with
    | comment c => simpa [List.filter_cons, isComment, queries_cons_comment] using ih
    | query q => simpa [List.filter_cons, isComment] using ih

theorem canonSpec_sublist (l : List LItem) : (canonSpec l).Sublist l := by
  unfold canonSpec
  split
  · have h1 : ∀ l : List LItem,
        ((l.takeWhile (fun i => !isLitAll i)).filter isComment ++ (l.find? isLitAll).toList).Sublist l := by
      intro l
      induction l with
      | nil => simp
      | cons a r ih =>
        by_cases ha : isLitAll a = true
        · simp [List.takeWhile_cons, List.find?_cons, ha]
        · have ha' : isLitAll a = false := by simpa using ha
          simp only [List.takeWhile_cons, ha', Bool.not_false, if_true, List.find?_cons, List.filter_cons]
          split
          · exact List.Sublist.cons₂ _ ih
          · exact List.Sublist.cons _ ih
    exact h1 l
  · exact dedupFrom_sublist l []

theorem canonSpec_types_nodup (l : List LItem) : (simpleTypes (canonSpec l)).Nodup := by
  unfold canonSpec
  split
  · have : ∀ (a : List LItem) (x : Option LItem), (simpleTypes (a.filter isComment ++ x.toList)).Nodup := by
      intro a x
      induction a with
      | nil => cases x with
        | none => simp [simpleTypes]
        | some i => cases i with
          | comment c => simp [simpleTypes]
          | query q => by_cases hq : (normalize q.mediaType).isEmpty = true <;> simp [simpleTypes, hq]
      | cons b r ih =>
        cases b with
        | comment c => simpa [List.filter_cons, isComment, simpleTypes] using ih
        | query q => simpa [List.filter_cons, isComment] using ih
    exact this _ _
  · exact (dedupFrom_types l []).1

/-- T17.1: the parsed list denotes a canonical ordered set — a simple media type once (compared
case-insensitively), `all` alone -/
theorem canon_canonV (l : List LItem) : CanonV (view (canon l)) := by
  rw [canon_eq_spec]
  have hsub := canonSpec_sublist l
  refine ⟨?_, ?_⟩
  · rw [view_simple_eq]
    have hn := canonSpec_types_nodup l
    refine List.Pairwise.map _ ?_ hn
    intro a b hab hc
    exact hab (by simpa using hc)
  · intro e he hall
    simp only [view, List.mem_map] at he
    obtain ⟨q, hq, rfl⟩ := he
    have hqa : isAllType (normalize q.mediaType) = true := by
      have := entryOf_isAll q; rw [hall] at this; exact this.symm
    have hqe : (normalize q.mediaType).isEmpty = false := by
      cases hm : normalize q.mediaType with
      | nil => rw [hm, isAllType_nil] at hqa; simp at hqa
      | cons _ _ => rfl
    have hlit : isLitAll (.query q) = true := by simp [isLitAll, hqe, hqa]
    have hql : LItem.query q ∈ l := by
      have : LItem.query q ∈ canonSpec l := by
        unfold queries at hq
        simp only [List.mem_filterMap] at hq
        obtain ⟨i, hi, hiq⟩ := hq
        cases i with
        | comment c => simp at hiq
        | query q' => simp at hiq; subst hiq; exact hi
      exact hsub.subset this
    have hany : l.any isLitAll = true := List.any_eq_true.2 ⟨_, hql, hlit⟩
    have hform : canonSpec l =
        (l.takeWhile (fun i => !isLitAll i)).filter isComment ++ (l.find? isLitAll).toList := by
      unfold canonSpec; simp [hany]
    rw [hform, queries_comments_append] at hq
    show view (canonSpec l) = [entryOf q]
    rw [hform]
    simp only [view, queries_comments_append]
    cases hf : l.find? isLitAll with
    | none => rw [hf] at hq; simp [queries] at hq
    | some i =>
      rw [hf] at hq
      cases i with
      | comment c => simp [queries] at hq
      | query q' =>
        simp [queries] at hq
        subst hq
        simp [queries]

/-! ## the nested query parser of a list and the stand-alone parser differ only in the stop flag -/

def QSt.core (st : QSt) : QSt := { st with stopIf := false }

def StepRes.core : StepRes → StepRes
  | .cont st => .cont st.core
  | r => r

theorem stepQ_core (p p' : Bool) (st st2 : QSt) (t : Tok) (h : st.core = st2.core) :
    (stepQ p st t).core = (stepQ p' st2 t).core := by
  obtain ⟨s, items, stopIf, mtype, notSimple⟩ := st
  obtain ⟨s2, items2, stopIf2, mtype2, notSimple2⟩ := st2
  simp only [QSt.core, QSt.mk.injEq, true_and] at h
  obtain ⟨rfl, rfl, rfl, rfl⟩ := h
  unfold stepQ
  cases s <;> simp only [] <;> (repeat' split) <;> simp_all [StepRes.core, QSt.core, QSt.emit]

theorem core_core (st : QSt) : st.core.core = st.core := rfl
theorem core_toMQ (st : QSt) : st.core.toMQ = st.toMQ := rfl
theorem core_toks (st : QSt) : st.core.toks = st.toks := rfl
theorem core_s (st : QSt) : st.core.s = st.s := rfl

theorem stepQ_cont_core (p p' : Bool) (st st2 st' : QSt) (t : Tok) (h : st.core = st2.core)
    (hs : stepQ p st t = .cont st') : ∃ st2', stepQ p' st2 t = .cont st2' ∧ st2'.core = st'.core := by
  have := stepQ_core p p' st st2 t h
  rw [hs] at this
  cases h2 : stepQ p' st2 t with
  | cont x => rw [h2] at this; simp [StepRes.core] at this; exact ⟨x, rfl, this.symm⟩
  | noMatch => rw [h2] at this; simp [StepRes.core] at this
  | missing => rw [h2] at this; simp [StepRes.core] at this
  | unsupported => rw [h2] at this; simp [StepRes.core] at this

/-! ## T17.4 — every medium of an accepted list is a well-formed query (repaired parser) -/

/-- the state of a query parse is determined by the tokens it has consumed -/
def TracedI (st : QSt) : Prop := ∀ ts, parseQ {} (st.toks ++ ts) = parseQ st.core ts

theorem traced_init : TracedI {} := fun _ => rfl

theorem traced_comment (st : QSt) (t : Tok) (ht : t.typ = .comment) (h : TracedI st) :
    TracedI { st with items := .comment t :: st.items } := by
  intro ts
  have := h (t :: ts)
  simp only [parseQ, ht] at this
  simp only [QSt.toks, List.reverse_cons, List.map_append, List.map_cons, List.map_nil, QItem.toTok,
    List.append_assoc, List.singleton_append]
  exact this

theorem traced_step (p : Bool) (st st' : QSt) (t : Tok) (ht : t.typ.special = false) (h : TracedI st)
    (hs : stepQ p st t = .cont st') : TracedI st' := by
  intro ts
  obtain ⟨x, hx1, hx2⟩ := stepQ_emit p st st' t hs
  obtain ⟨c', hc1, hc2⟩ := stepQ_cont_core p false st st.core st' t rfl hs
  have := h (t :: ts)
  rw [parseQ_cons_sig _ _ _ ht, hc1] at this
  simp only [QSt.toks] at this
  simp only [QSt.toks, hx1, List.reverse_cons, List.map_append, List.map_cons, List.map_nil, hx2,
    List.append_assoc, List.singleton_append]
  rw [this]
  show parseQ c' ts = parseQ st'.core ts
  -- parseQ depends on the state only through its core … which here are equal
  have hcc : c' = st'.core := by
    have e := hc2
    unfold QSt.core at e ⊢
    -- c' comes from a `false`-step of a core state: its stop flag is false
    have hf : c'.stopIf = false := by
      have := hc1
      unfold stepQ at this
      cases hs0 : st.core.s <;> simp only [hs0] at this <;> (repeat' split at this) <;>
        simp_all [QSt.emit, QSt.core] <;> (subst this; simp)
    cases c'; cases st'; simp_all
  rw [hcc]

theorem stepQ_not_start (p : Bool) (st st' : QSt) (t : Tok) (hs : stepQ p st t = .cont st') : st'.s ≠ .start := by
  unfold stepQ at hs
  cases hs0 : st.s <;> simp only [hs0] at hs <;> (repeat' split at hs) <;>
    simp_all [QSt.emit] <;> (subst hs; simp)

theorem stepQ_noMatch_state (p : Bool) (st : QSt) (t : Tok) (hs : stepQ p st t = .noMatch) :
    st.s = .start ∨ st.s.accepting = true := by
  unfold stepQ at hs
  cases hs0 : st.s <;> simp only [hs0] at hs <;> (repeat' split at hs) <;> simp_all [QS.accepting]

theorem traced_close (st : QSt) (h : TracedI st) (ha : st.s.accepting = true) :
    parseQ {} st.toMQ.toks = .ok st.toMQ := by
  have := h []
  simp only [List.append_nil, parseQ, core_s, ha, if_true, core_toMQ] at this
  simpa [MQ.toks, QSt.toMQ, QSt.toks] using this

theorem parseL_cons_cur_sig (strict ft : Bool) (st : LSt) (q : QSt) (t : Tok) (ts : List Tok)
    (hc : st.cur = some q) (h : t.typ.special = false) :
    parseL strict ft st (t :: ts) =
      match stepQ true q t with
      | .cont q' => parseL strict ft { st with cur := some q' } ts
      | .unsupported => .unsupported
      | .noMatch =>
        if q.stopIf then
          match listStep (st.closeQuery q) t with
          | .ok st' => parseL strict ft st' ts
          | .bad => .bad
          | .unsupported => .unsupported
        else .bad
      | .missing =>
        if q.stopIf && !strict then
          if ft && !ts.isEmpty then
            match listStep (st.closeQuery q) t with
            | .ok st' => parseL strict ft st' ts
            | .bad => .bad
            | .unsupported => .unsupported
          else parseL strict ft (st.closeQuery q) ts
        else .bad := by
  cases ht : t.typ <;> simp [ht, TT.special] at h <;> simp only [parseL, hc, ht] <;> try rfl

theorem parseL_cons_none_sig (strict ft : Bool) (st : LSt) (t : Tok) (ts : List Tok)
    (hc : st.cur = none) (h : t.typ.special = false) :
    parseL strict ft st (t :: ts) =
      match listStep st t with
      | .ok st' => parseL strict ft st' ts
      | .bad => .bad
      | .unsupported => .unsupported := by
  cases ht : t.typ <;> simp [ht, TT.special] at h <;> simp only [parseL, hc, ht] <;> try rfl

/-- invariant of the list parse: the media collected so far are well-formed queries, the open nested parse is
determined by its tokens -/
def LWF (st : LSt) : Prop :=
  (∀ q ∈ queries st.items, parseQ {} q.toks = .ok q) ∧
  (∀ qst, st.cur = some qst → TracedI qst ∧ qst.s ≠ .start)

theorem lwf_init : LWF {} := ⟨by intro q hq; simp [queries] at hq, by intro q hq; simp at hq⟩

theorem queries_cons_comment' (c : Tok) (r : List LItem) : queries (LItem.comment c :: r) = queries r := by
  simp [queries]

theorem lwf_close (st : LSt) (q : QSt) (h : LWF st) (hc : st.cur = some q) (ha : q.s.accepting = true) :
    LWF (st.closeQuery q) := by
  obtain ⟨h1, h2⟩ := h
  refine ⟨?_, by intro x hx; simp [LSt.closeQuery] at hx⟩
  intro x hx
  simp only [LSt.closeQuery, queries_cons_query, List.mem_cons] at hx
  rcases hx with rfl | hx
  · exact traced_close q (h2 q hc).1 ha
  · exact h1 x hx

theorem lwf_listStep (st st' : LSt) (t : Tok) (ht : t.typ.special = false) (h : LWF st) (hc : st.cur = none)
    (hs : listStep st t = .ok st') : LWF st' := by
  obtain ⟨h1, _⟩ := h
  unfold listStep at hs
  cases hp : st.phase <;> simp only [hp] at hs
  · split at hs
    · cases hq : stepQ true {} t with
      | cont q =>
        simp only [hq, POut.ok.injEq] at hs; subst hs
        exact ⟨h1, by
          intro x hx; simp at hx; subst hx
          exact ⟨traced_step true {} _ t ht traced_init hq, stepQ_not_start true {} _ t hq⟩⟩
      | noMatch => simp [hq] at hs
      | missing => simp [hq] at hs
      | unsupported => simp [hq] at hs
    · simp at hs
  · split at hs
    · split at hs
      · simp only [POut.ok.injEq] at hs; subst hs
        exact ⟨h1, by intro x hx; simp [hc] at hx⟩
      · simp at hs
    · simp at hs
  · split at hs
    · cases hq : stepQ true {} t with
      | cont q =>
        simp only [hq, POut.ok.injEq] at hs; subst hs
        exact ⟨h1, by
          intro x hx; simp at hx; subst hx
          exact ⟨traced_step true {} _ t ht traced_init hq, stepQ_not_start true {} _ t hq⟩⟩
      | noMatch => simp [hq] at hs
      | missing => simp [hq] at hs
      | unsupported => simp [hq] at hs
    · simp at hs

/-- T17.4: with the repaired parser every medium of an accepted list is itself a well-formed query — one
malformed query invalidates the whole list -/
theorem parseL_strict_wf (ft : Bool) : ∀ (ts : List Tok) (st : LSt) (items : List LItem), LWF st →
    parseL true ft st ts = .ok items → ∀ q ∈ queries items, parseQ {} q.toks = .ok q := by
  intro ts
  induction ts with
  | nil =>
    intro st items hw h
    simp only [parseL] at h
    cases hc : st.cur with
    | some q =>
      simp only [hc] at h
      split at h
      · rename_i ha
        simp only [POut.ok.injEq] at h; subst h
        have := (lwf_close st q hw hc ha).1
        intro x hx
        apply this x
        unfold queries at hx ⊢
        simpa using hx
      · simp at h
    | none =>
      simp only [hc] at h
      have hq : ∀ x ∈ queries st.items.reverse, parseQ {} x.toks = .ok x := by
        intro x hx
        apply hw.1 x
        unfold queries at hx ⊢
        simpa using hx
      cases hp : st.phase <;> simp only [hp] at h
      · split at h
        · simp at h
        · simp only [POut.ok.injEq] at h; subst h; exact hq
      · simp only [POut.ok.injEq] at h; subst h; exact hq
      · simp at h
  | cons t ts ih =>
    intro st items hw h
    cases hc : st.cur with
    | some q =>
      obtain ⟨hq1, hq2⟩ := hw.2 q hc
      rcases special_cases t with ht | ht | ht | ht | ht
      · simp only [parseL, hc, ht] at h
        have hw' : LWF { st with cur := some { q with items := .comment t :: q.items } } :=
          ⟨hw.1, by
            intro x hx; simp at hx; subst hx
            exact ⟨traced_comment q t ht hq1, hq2⟩⟩
        exact ih _ _ hw' h
      · simp only [parseL, hc, ht] at h
        exact ih _ _ hw h
      · simp [parseL, hc, ht] at h
      · simp [parseL, hc, ht] at h
      · rw [parseL_cons_cur_sig true ft st q t ts hc ht] at h
        cases hstep : stepQ true q t with
        | cont q' =>
          simp only [hstep] at h
          have hw' : LWF { st with cur := some q' } :=
            ⟨hw.1, by
              intro x hx; simp at hx; subst hx
              exact ⟨traced_step true q _ t ht hq1 hstep, stepQ_not_start true q _ t hstep⟩⟩
          exact ih _ _ hw' h
        | unsupported => simp [hstep] at h
        | missing => simp [hstep] at h
        | noMatch =>
          simp only [hstep] at h
          split at h
          · have hacc : q.s.accepting = true := by
              rcases stepQ_noMatch_state true q t hstep with h0 | h0
              · exact absurd h0 hq2
              · exact h0
            have hw' := lwf_close st q hw hc hacc
            cases hl : listStep (st.closeQuery q) t with
            | ok st' =>
              simp only [hl] at h
              exact ih _ _ (lwf_listStep _ _ t ht hw' (by simp [LSt.closeQuery]) hl) h
            | bad => simp [hl] at h
            | unsupported => simp [hl] at h
          · simp at h
    | none =>
      rcases special_cases t with ht | ht | ht | ht | ht
      · simp only [parseL, hc, ht] at h
        have hw' : LWF { phase := st.phase, items := .comment t :: st.items } :=
          ⟨by intro x hx; rw [queries_cons_comment'] at hx; exact hw.1 x hx,
           by intro x hx; simp at hx⟩
        exact ih _ _ hw' h
      · simp only [parseL, hc, ht] at h
        exact ih _ _ hw h
      · simp [parseL, hc, ht] at h
      · simp [parseL, hc, ht] at h
      · rw [parseL_cons_none_sig true ft st t ts hc ht] at h
        cases hl : listStep st t with
        | ok st' =>
          simp only [hl] at h
          exact ih _ _ (lwf_listStep _ _ t ht hw hc hl) h
        | bad => simp [hl] at h
        | unsupported => simp [hl] at h

/-- whatever the repaired parser accepts, the parser as it is accepts with the same result -/
theorem parseL_strict_agree (ft : Bool) : ∀ (ts : List Tok) (st : LSt) (items : List LItem),
    parseL true ft st ts = .ok items → parseL false ft st ts = .ok items := by
  intro ts
  induction ts with
  | nil => intro st items h; simpa only [parseL] using h
  | cons t ts ih =>
    intro st items h
    cases hc : st.cur with
    | some q =>
      rcases special_cases t with ht | ht | ht | ht | ht
      · simp only [parseL, hc, ht] at h ⊢; exact ih _ _ h
      · simp only [parseL, hc, ht] at h ⊢; exact ih _ _ h
      · simp [parseL, hc, ht] at h
      · simp [parseL, hc, ht] at h
      · rw [parseL_cons_cur_sig true ft st q t ts hc ht] at h
        rw [parseL_cons_cur_sig false ft st q t ts hc ht]
        cases hstep : stepQ true q t with
        | cont q' => simp only [hstep] at h ⊢; exact ih _ _ h
        | unsupported => simp [hstep] at h
        | missing => simp [hstep] at h
        | noMatch =>
          simp only [hstep] at h ⊢
          split
          · rename_i hs
            simp only [hs, if_true] at h
            cases hl : listStep (st.closeQuery q) t with
            | ok st' => simp only [hl] at h ⊢; exact ih _ _ h
            | bad => simp [hl] at h
            | unsupported => simp [hl] at h
          · rename_i hs
            simp [hs] at h
    | none =>
      rcases special_cases t with ht | ht | ht | ht | ht
      · simp only [parseL, hc, ht] at h ⊢; exact ih _ _ h
      · simp only [parseL, hc, ht] at h ⊢; exact ih _ _ h
      · simp [parseL, hc, ht] at h
      · simp [parseL, hc, ht] at h
      · rw [parseL_cons_none_sig true ft st t ts hc ht] at h
        rw [parseL_cons_none_sig false ft st t ts hc ht]
        cases hl : listStep st t with
        | ok st' => simp only [hl] at h ⊢; exact ih _ _ h
        | bad => simp [hl] at h
        | unsupported => simp [hl] at h

/-! ## T17.3 — the tokens of a list parse back to the list (lists without comments) -/

/-- the automaton run over significant tokens -/
def runQ (p : Bool) : QSt → List Tok → Option QSt
  | st, [] => some st
  | st, t :: ts => match stepQ p st t with
    | .cont st' => runQ p st' ts
    | _ => none

def AllSig (ts : List Tok) : Prop := ∀ t ∈ ts, t.typ.special = false

theorem parseQ_run : ∀ (ts : List Tok) (st : QSt) (q : MQ), AllSig ts → parseQ st ts = .ok q →
    ∃ st', runQ false st ts = some st' ∧ st'.s.accepting = true ∧ st'.toMQ = q := by
  intro ts
  induction ts with
  | nil =>
    intro st q _ h
    simp only [parseQ] at h
    split at h
    · rename_i ha; simp only [POut.ok.injEq] at h; exact ⟨st, rfl, ha, h⟩
    · simp at h
  | cons t ts ih =>
    intro st q hs h
    have ht : t.typ.special = false := hs t (by simp)
    rw [parseQ_cons_sig st t ts ht] at h
    cases hstep : stepQ false st t with
    | cont st' =>
      simp only [hstep] at h
      obtain ⟨sf, h1, h2, h3⟩ := ih st' q (fun x hx => hs x (by simp [hx])) h
      exact ⟨sf, by simp [runQ, hstep, h1], h2, h3⟩
    | noMatch => simp [hstep] at h
    | missing => simp [hstep] at h
    | unsupported => simp [hstep] at h

theorem runQ_core (p p' : Bool) : ∀ (ts : List Tok) (st st2 sf : QSt), st.core = st2.core →
    runQ p st ts = some sf → ∃ sf2, runQ p' st2 ts = some sf2 ∧ sf2.core = sf.core := by
  intro ts
  induction ts with
  | nil => intro st st2 sf h hr; simp [runQ] at hr; subst hr; exact ⟨st2, rfl, h.symm⟩
  | cons t ts ih =>
    intro st st2 sf h hr
    cases hstep : stepQ p st t with
    | cont st' =>
      simp only [runQ, hstep] at hr
      obtain ⟨st2', h1, h2⟩ := stepQ_cont_core p p' st st2 st' t h hstep
      obtain ⟨sf2, h3, h4⟩ := ih st' st2' sf h2.symm hr
      exact ⟨sf2, by simp [runQ, h1, h3], h4⟩
    | noMatch => simp [runQ, hstep] at hr
    | missing => simp [runQ, hstep] at hr
    | unsupported => simp [runQ, hstep] at hr

/-- after any step of a nested parser, a state in which the query could end has the stop flag set -/
def StopSet (st : QSt) : Prop := st.s.accepting = true → st.stopIf = true

theorem stepQ_stopSet (st st' : QSt) (t : Tok) (hs : stepQ true st t = .cont st') : StopSet st' := by
  unfold stepQ at hs
  intro ha
  cases hs0 : st.s <;> simp only [hs0] at hs <;> (repeat' split at hs) <;>
    simp_all [QSt.emit] <;> (subst hs; simp_all [QS.accepting])

theorem runQ_stopSet : ∀ (ts : List Tok) (st sf : QSt), StopSet st → runQ true st ts = some sf → StopSet sf := by
  intro ts
  induction ts with
  | nil => intro st sf h hr; simp [runQ] at hr; subst hr; exact h
  | cons t ts ih =>
    intro st sf _ hr
    cases hstep : stepQ true st t with
    | cont st' =>
      simp only [runQ, hstep] at hr
      exact ih st' sf (stepQ_stopSet st st' t hstep) hr
    | noMatch => simp [runQ, hstep] at hr
    | missing => simp [runQ, hstep] at hr
    | unsupported => simp [runQ, hstep] at hr

/-- feeding the tokens of a run to the nested parser of a list -/
theorem parseL_feed (strict ft : Bool) : ∀ (ts : List Tok) (st : LSt) (q qf : QSt) (rest : List Tok),
    AllSig ts → st.cur = some q → runQ true q ts = some qf →
    parseL strict ft st (ts ++ rest) = parseL strict ft { st with cur := some qf } rest := by
  intro ts
  induction ts with
  | nil =>
    intro st q qf rest _ hc hr
    simp [runQ] at hr; subst hr
    have : st = { st with cur := some q } := by cases st; simp_all
    rw [List.nil_append]; exact congrArg (fun s => parseL strict ft s rest) this
  | cons t ts ih =>
    intro st q qf rest hs hc hr
    have ht : t.typ.special = false := hs t (by simp)
    cases hstep : stepQ true q t with
    | cont q' =>
      simp only [runQ, hstep] at hr
      rw [List.cons_append, parseL_cons_cur_sig strict ft st q t _ hc ht]
      simp only [hstep]
      rw [ih { st with cur := some q' } q' qf rest (fun x hx => hs x (by simp [hx])) rfl hr]
    | noMatch => simp [runQ, hstep] at hr
    | missing => simp [runQ, hstep] at hr
    | unsupported => simp [runQ, hstep] at hr

theorem stepQ_start_queryStart (p : Bool) (st' : QSt) (t : Tok) (hs : stepQ p {} t = .cont st') :
    isQueryStart t = true := by
  unfold stepQ at hs
  simp only [] at hs
  unfold isQueryStart
  (repeat' split at hs) <;> simp_all [charIs]

/-- a well-formed, comment-free query: what the edit operations and the parser put into a list -/
def GoodQ (q : MQ) : Prop := parseQ {} q.toks = .ok q ∧ AllSig q.toks

/-- one query: from "expecting a query" to "query complete, nested parser still open" -/
theorem parseL_one_query (strict ft : Bool) (st : LSt) (q : MQ) (rest : List Tok) (hg : GoodQ q)
    (hc : st.cur = none) (hp : st.phase = .start ∨ st.phase = .afterComma) :
    ∃ qf : QSt, qf.s.accepting = true ∧ qf.stopIf = true ∧ qf.toMQ = q ∧
      parseL strict ft st (q.toks ++ rest) =
        parseL strict ft { phase := .afterQuery, items := st.items, cur := some qf } rest := by
  obtain ⟨hw, hsig⟩ := hg
  obtain ⟨sf, hr, hacc, hmq⟩ := parseQ_run q.toks {} q hsig hw
  cases hts : q.toks with
  | nil => rw [hts] at hr; simp [runQ] at hr; subst hr; simp [QS.accepting] at hacc
  | cons t0 ts' =>
    rw [hts] at hr hsig
    have ht0 : t0.typ.special = false := hsig t0 (by simp)
    cases hstep : stepQ false {} t0 with
    | cont c1 =>
      simp only [runQ, hstep] at hr
      obtain ⟨q1, hq1, hq1c⟩ := stepQ_cont_core false true {} {} c1 t0 rfl hstep
      obtain ⟨qf, hqf, hqfc⟩ := runQ_core false true ts' c1 q1 sf hq1c.symm hr
      have hstop : StopSet qf := runQ_stopSet ts' q1 qf (stepQ_stopSet {} q1 t0 hq1) hqf
      have hqs : qf.s = sf.s := by have := congrArg QSt.s hqfc; simpa [QSt.core] using this
      have hqacc : qf.s.accepting = true := by rw [hqs]; exact hacc
      have hqmq : qf.toMQ = q := by
        rw [← hmq, ← core_toMQ qf, ← core_toMQ sf, hqfc]
      refine ⟨qf, hqacc, hstop hqacc, hqmq, ?_⟩
      have hstart : isQueryStart t0 = true := stepQ_start_queryStart false c1 t0 hstep
      have hl : listStep st t0 = .ok { st with phase := .afterQuery, cur := some q1 } := by
        unfold listStep
        rcases hp with hp | hp <;> simp [hp, hstart, hq1]
      rw [List.cons_append, parseL_cons_none_sig strict ft st t0 _ hc ht0, hl]
      simp only []
      rw [parseL_feed strict ft ts' _ q1 qf rest (fun x hx => hsig x (by simp [hx])) rfl hqf]
    | noMatch => simp [runQ, hstep] at hr
    | missing => simp [runQ, hstep] at hr
    | unsupported => simp [runQ, hstep] at hr

theorem commaTok_sig : commaTok.typ.special = false := rfl

/-- the comma after a complete query: the nested parser hands it back, the list parser takes it -/
theorem parseL_comma (strict ft : Bool) (acc : List LItem) (qf : QSt) (rest : List Tok)
    (ha : qf.s.accepting = true) (hs : qf.stopIf = true) :
    parseL strict ft { phase := .afterQuery, items := acc, cur := some qf } (commaTok :: rest) =
      parseL strict ft { phase := .afterComma, items := .query qf.toMQ :: acc, cur := none } rest := by
  rw [parseL_cons_cur_sig strict ft _ qf commaTok rest rfl commaTok_sig]
  have hstep : stepQ true qf commaTok = .noMatch := by
    unfold stepQ
    cases hq : qf.s <;> simp [hq, QS.accepting] at ha <;> simp [commaTok]
  simp only [hstep, hs, if_true]
  have : listStep (LSt.closeQuery { phase := .afterQuery, items := acc, cur := some qf } qf) commaTok =
      .ok { phase := .afterComma, items := .query qf.toMQ :: acc, cur := none } := by
    simp [listStep, LSt.closeQuery, charIs, commaTok]
  rw [this]

theorem parseL_end (strict ft : Bool) (acc : List LItem) (qf : QSt) (ha : qf.s.accepting = true) :
    parseL strict ft { phase := .afterQuery, items := acc, cur := some qf } [] =
      .ok ((LItem.query qf.toMQ :: acc).reverse) := by
  simp [parseL, ha, LSt.closeQuery]

theorem toksL_cons_query (q : MQ) (r : List LItem) (first : Bool) :
    toksL (.query q :: r) first = (if first then [] else [commaTok]) ++ q.toks ++ toksL r false := rfl

theorem parseL_rest (strict ft : Bool) : ∀ (r : List MQ) (acc : List LItem) (qf : QSt),
    (∀ q ∈ r, GoodQ q) → qf.s.accepting = true → qf.stopIf = true →
    parseL strict ft { phase := .afterQuery, items := acc, cur := some qf } (toksL (r.map LItem.query) false) =
      .ok ((LItem.query qf.toMQ :: acc).reverse ++ r.map LItem.query) := by
  intro r
  induction r with
  | nil => intro acc qf _ ha _; simp [toksL, parseL_end strict ft acc qf ha]
  | cons q r ih =>
    intro acc qf hg ha hs
    rw [List.map_cons, toksL_cons_query]
    simp only [Bool.false_eq_true, if_false, List.singleton_append, List.cons_append]
    rw [parseL_comma strict ft acc qf _ ha hs]
    obtain ⟨qf', ha', hs', hmq', he⟩ := parseL_one_query strict ft
      { phase := .afterComma, items := .query qf.toMQ :: acc, cur := none } q (toksL (r.map LItem.query) false)
      (hg q (by simp)) rfl (Or.inr rfl)
    simp only [List.nil_append] at he ⊢
    rw [he, ih _ qf' (fun x hx => hg x (by simp [hx])) ha' hs', hmq']
    simp

/-- T17.3 (comment-free lists): the token-level serialisation of a non-empty list of well-formed queries parses
back to exactly that list -/
theorem parseL_reparse (strict ft : Bool) (q : MQ) (r : List MQ) (hg : ∀ x ∈ q :: r, GoodQ x) :
    parseL strict ft {} (toksL ((q :: r).map LItem.query) true) = .ok ((q :: r).map LItem.query) := by
  rw [List.map_cons, toksL_cons_query]
  simp only [if_true, List.nil_append]
  obtain ⟨qf, ha, hs, hmq, he⟩ := parseL_one_query strict ft {} q (toksL (r.map LItem.query) false)
    (hg q (by simp)) rfl (Or.inl rfl)
  rw [he, parseL_rest strict ft r [] qf (fun x hx => hg x (by simp [hx])) ha hs, hmq]
  simp

/-! ## parse-time and edit-time canonicalisation agree -/

theorem allWords_fixed : ∀ t ∈ Gen.C17Media.allWords, normalize t = t := by decide

theorem dedupFrom_id (l : List LItem) : ∀ seen : List Cps, (simpleTypes l).Nodup →
    (∀ t ∈ simpleTypes l, t ∉ seen) → dedupFrom seen l = l := by
  induction l with
  | nil => intro seen _ _; rfl
  | cons a r ih =>
    intro seen hn hs
    cases a with
    | comment c =>
      simp only [dedupFrom]
      rw [ih seen (by simpa [simpleTypes_cons_comment] using hn) (by simpa [simpleTypes_cons_comment] using hs)]
    | query q =>
      by_cases he : (normalize q.mediaType).isEmpty = true
      · simp only [dedupFrom, he, if_true]
        rw [simpleTypes_cons_query] at hn hs
        simp only [he, if_true] at hn hs
        rw [ih seen hn hs]
      · have he' : (normalize q.mediaType).isEmpty = false := by simpa using he
        rw [simpleTypes_cons_query] at hn hs
        simp only [he', Bool.false_eq_true, if_false] at hn hs
        have hm : (normalize q.mediaType) ∉ seen := hs _ (by simp)
        simp only [dedupFrom, he', Bool.false_eq_true, if_false, List.contains_eq_mem, hm, decide_false]
        rw [ih ((normalize q.mediaType) :: seen) (List.nodup_cons.1 hn).2 (by
          intro t ht hts
          rcases List.mem_cons.1 hts with h | h
          · subst h; exact (List.nodup_cons.1 hn).1 ht
          · exact hs t (by simp [ht]) h)]

/-- a canonical list without list-level comments is a fixpoint of the parse-time filter -/
theorem canon_id_of_canonV (l : List LItem) (hc : NoComments l) (hv : CanonV (view l)) : canon l = l := by
  rw [canon_eq_spec]
  unfold canonSpec
  by_cases hany : l.any isLitAll = true
  · -- the literal `all` is an `all` entry, so the list is that single query
    obtain ⟨i, hi, hil⟩ := List.any_eq_true.1 hany
    cases i with
    | comment c => simp [isLitAll] at hil
    | query q =>
      simp only [isLitAll, Bool.and_eq_true, Bool.not_eq_true'] at hil
      have hqall : (entryOf q).isAll = true := by
        rw [entryOf_isAll]; exact hil.2
      have hqv : entryOf q ∈ view l := by
        simp only [view, List.mem_map]
        exact ⟨q, by unfold queries; simp only [List.mem_filterMap]; exact ⟨_, hi, rfl⟩, rfl⟩
      have hone := hv.2 _ hqv hqall
      have hs := noComments_eq l hc
      generalize hqs : queries l = qs at hs
      have hv1 : qs.map entryOf = [entryOf q] := by rw [← hone, hs, view_map_query]
      cases qs with
      | nil => simp at hv1
      | cons q0 r0 =>
        cases r0 with
        | cons _ _ => simp at hv1
        | nil =>
          rw [hs] at hi
          simp at hi
          subst hi
          rw [hs]
          have hl : isLitAll (.query q) = true := by simp [isLitAll, hil.1, hil.2]
          simp [hl, List.takeWhile_cons, List.find?_cons]
  · have hany' : l.any isLitAll = false := by simpa using hany
    simp only [hany', Bool.false_eq_true, if_false]
    apply dedupFrom_id l [] _ (by simp)
    have := hv.1
    rw [view_simple_eq, List.nodup_iff_pairwise_ne, List.pairwise_map] at this
    rw [List.nodup_iff_pairwise_ne]
    exact this.imp (fun h e => h (by rw [e]))

theorem parseQ_no_bad_tokens : ∀ (ts : List Tok) (st : QSt) (q : MQ), parseQ st ts = .ok q →
    ∀ t ∈ ts, t.typ ≠ .invalid ∧ t.typ ≠ .eof := by
  intro ts
  induction ts with
  | nil => intro st q _ t ht; simp at ht
  | cons a r ih =>
    intro st q h t ht
    rcases special_cases a with ha | ha | ha | ha | ha
    · simp only [parseQ, ha] at h
      rcases List.mem_cons.1 ht with rfl | ht
      · simp [ha]
      · exact ih _ _ h t ht
    · simp only [parseQ, ha] at h
      rcases List.mem_cons.1 ht with rfl | ht
      · simp [ha]
      · exact ih _ _ h t ht
    · simp [parseQ, ha] at h
    · simp [parseQ, ha] at h
    · rw [parseQ_cons_sig st a r ha] at h
      cases hstep : stepQ false st a with
      | cont st' =>
        simp only [hstep] at h
        rcases List.mem_cons.1 ht with rfl | ht
        · constructor <;> (intro e; simp [e, TT.special] at ha)
        · exact ih _ _ h t ht
      | noMatch => simp [hstep] at h
      | missing => simp [hstep] at h
      | unsupported => simp [hstep] at h

/-- what `appendMedium` / item assignment put into a list, for a medium text without comments -/
theorem parseQ_goodQ (ts : List Tok) (q : MQ) (h : parseQ {} ts = .ok q) (hc : ∀ t ∈ ts, t.typ ≠ .comment) :
    GoodQ q := by
  refine ⟨parseQ_reparse ts q h, ?_⟩
  have ht := parseQ_toks ts {} q h
  rw [QSt_toks_init, List.nil_append] at ht
  intro t hmem
  rw [ht] at hmem
  obtain ⟨h1, h2⟩ := List.mem_filter.1 hmem
  have h3 := parseQ_no_bad_tokens ts {} q h t h1
  have h4 := hc t h1
  cases hty : t.typ <;> simp_all [TT.special, notS]

/-- T17.2/T17.3: after any edits, assigning the list's own text gives the same list (parse-time and edit-time
canonicalisation agree) — lists without comments -/
theorem setMediaText_own_toks (m : ML) (raising ft : Bool) (hc : NoComments m.seq) (hi : Inv m)
    (hg : ∀ q ∈ queries m.seq, GoodQ q) (hne : m.seq ≠ []) :
    m.setMediaText raising ft m.toks = ({ seq := m.seq, wellformed := true }, .ret ()) := by
  have hs := noComments_eq m.seq hc
  generalize hqs : queries m.seq = qs at hs hg
  cases qs with
  | nil => rw [hs] at hne; simp at hne
  | cons q r =>
    have hp := parseL_reparse true ft q r hg
    unfold ML.setMediaText ML.toks
    have hne' : (queries m.seq).isEmpty = false := by rw [hqs]; rfl
    simp only [hne', Bool.false_eq_true, if_false]
    rw [hs, hp]
    have hq : (queries ((q :: r).map LItem.query)).isEmpty = false := by rw [queries_map_query]; rfl
    simp only [hq, Bool.false_eq_true, if_false]
    rw [← hs, canon_id_of_canonV m.seq hc hi]

/-! ## T17.4 — every query of the grammar is accepted, with exactly its tokens as items (completeness) -/

def openTok : Tok := { typ := .char, val := cOpen }
def closeTok : Tok := { typ := .char, val := cClose }
def colonTok : Tok := { typ := .char, val := cColon }

/-- `( feature [: value] )` -/
structure Expr where
  feature : Tok
  value : Option Tok

def vkind (v : Tok) : VKind := match valueKind v with
  | some (some k) => k
  | _ => .value

def Expr.Valid (e : Expr) : Prop :=
  e.feature.typ = .ident ∧ ∀ v, e.value = some v → ∃ k, valueKind v = some (some k)

def Expr.toks (e : Expr) : List Tok :=
  [openTok, e.feature] ++ (match e.value with | some v => [colonTok, v] | none => []) ++ [closeTok]

def Expr.items (e : Expr) : List QItem :=
  [.tok openTok, .tok e.feature] ++ (match e.value with | some v => [.tok colonTok, .value (vkind v) v] | none => [])
    ++ [.tok closeTok]

/-- the abstract syntax of a media query: `[only|not]? type (and expr)*` or `expr (and expr)*`; the `and` tokens
are kept for their spelling -/
inductive QAst
  | typed (pre : Option Tok) (ty : Tok) (tail : List (Tok × Expr))
  | untyped (e0 : Expr) (tail : List (Tok × Expr))

def tailToks (tail : List (Tok × Expr)) : List Tok := tail.flatMap fun p => p.1 :: p.2.toks
def tailItems (tail : List (Tok × Expr)) : List QItem := tail.flatMap fun p => .tok p.1 :: p.2.items

def ValidTail (tail : List (Tok × Expr)) : Prop :=
  ∀ p ∈ tail, p.1.typ = .ident ∧ isAndWord p.1.val = true ∧ p.2.Valid

def QAst.Valid : QAst → Prop
  | .typed pre ty tail =>
    (∀ p, pre = some p → p.typ = .ident ∧ isPrefixWord p.val = true) ∧
    ty.typ = .ident ∧ isMediaType ty.val = true ∧ ValidTail tail
  | .untyped e0 tail => e0.Valid ∧ ValidTail tail

def QAst.toks : QAst → List Tok
  | .typed pre ty tail => pre.toList ++ [ty] ++ tailToks tail
  | .untyped e0 tail => e0.toks ++ tailToks tail

def QAst.toMQ : QAst → MQ
  | .typed pre ty tail =>
    { items := (pre.toList.map QItem.tok) ++ [.tok ty] ++ tailItems tail
      mediaType := if pre.isNone && tail.isEmpty then ty.val else [] }
  | .untyped e0 tail => { items := e0.items ++ tailItems tail, mediaType := [] }

theorem mediaType_not_prefix : ∀ t ∈ Gen.C17Media.mediaTypes, t ∉ Gen.C17Media.prefixWords := by decide

theorem isPrefixWord_of_mediaType (v : Cps) (h : isMediaType v = true) : isPrefixWord v = false := by
  have h1 : normalize v ∈ Gen.C17Media.mediaTypes := by simpa [isMediaType] using h
  have := mediaType_not_prefix _ h1
  simpa [isPrefixWord] using this

theorem runQ_append (p : Bool) : ∀ (a b : List Tok) (st : QSt),
    runQ p st (a ++ b) = (runQ p st a).bind fun st' => runQ p st' b := by
  intro a
  induction a with
  | nil => intro b st; rfl
  | cons t r ih =>
    intro b st
    simp only [List.cons_append, runQ]
    cases stepQ p st t <;> simp [ih]

/-- one expression, entered in a state that expects an opening parenthesis -/
theorem run_expr (e : Expr) (he : e.Valid) (st : QSt) (hs : st.s = .start ∨ st.s = .afterAnd) :
    runQ false st e.toks = some { st with s := .afterClose, items := e.items.reverse ++ st.items } := by
  obtain ⟨hf, hv⟩ := he
  have hopen : stepQ false st openTok = .cont (st.emit .afterOpen (.tok openTok)) := by
    rcases hs with h | h <;> simp [stepQ, h, openTok, charIs, isPrefixWord, isMediaType] <;> rfl
  cases hval : e.value with
  | none =>
    simp only [Expr.toks, Expr.items, hval, List.append_nil, List.cons_append, List.nil_append, runQ, hopen]
    simp [stepQ, QSt.emit, hf, closeTok, charIs, cClose, cColon]
  | some v =>
    obtain ⟨k, hk⟩ := hv v hval
    have hvk : vkind v = k := by simp [vkind, hk]
    simp only [Expr.toks, Expr.items, hval, List.cons_append, List.nil_append, runQ, hopen]
    simp [stepQ, QSt.emit, hf, colonTok, closeTok, charIs, cClose, cColon, hk, hvk]

theorem run_tail : ∀ (tail : List (Tok × Expr)) (st : QSt), ValidTail tail →
    (st.s = .afterType ∨ st.s = .afterClose) →
    runQ false st (tailToks tail) =
      some (if tail.isEmpty then st else
        { st with s := .afterClose, items := (tailItems tail).reverse ++ st.items, notSimple := true }) := by
  intro tail
  induction tail with
  | nil => intro st _ _; rfl
  | cons p r ih =>
    intro st hv hs
    obtain ⟨ha1, ha2, he⟩ := hv p (by simp)
    have hand : stepQ false st p.1 = .cont { st.emit .afterAnd (.tok p.1) with notSimple := true } := by
      rcases hs with h | h <;> simp [stepQ, h, ha1, ha2]
    have hr : ValidTail r := fun x hx => hv x (by simp [hx])
    simp only [tailToks, List.flatMap_cons, List.cons_append, runQ, hand]
    rw [runQ_append, run_expr p.2 he _ (Or.inr rfl)]
    simp only [Option.bind_some]
    have := ih { s := .afterClose, items := p.2.items.reverse ++ (QItem.tok p.1 :: st.items), stopIf := st.stopIf,
                 mtype := st.mtype, notSimple := true } hr (Or.inr rfl)
    simp only [tailToks, QSt.emit] at this ⊢
    rw [this]
    cases r with
    | nil => simp [tailItems]
    | cons _ _ => simp [tailItems, List.flatMap_cons]

theorem parseQ_of_run : ∀ (ts : List Tok) (st sf : QSt), AllSig ts → runQ false st ts = some sf →
    parseQ st ts = if sf.s.accepting then .ok sf.toMQ else .bad := by
  intro ts
  induction ts with
  | nil => intro st sf _ h; simp [runQ] at h; subst h; simp [parseQ]
  | cons t r ih =>
    intro st sf hs h
    have ht : t.typ.special = false := hs t (by simp)
    rw [parseQ_cons_sig st t r ht]
    cases hstep : stepQ false st t with
    | cont st' =>
      simp only [runQ, hstep] at h
      simp only []
      exact ih st' sf (fun x hx => hs x (by simp [hx])) h
    | noMatch => simp [runQ, hstep] at h
    | missing => simp [runQ, hstep] at h
    | unsupported => simp [runQ, hstep] at h

theorem valueKind_sig (v : Tok) (k : VKind) (h : valueKind v = some (some k)) : v.typ.special = false := by
  unfold valueKind at h
  cases hty : v.typ <;> simp_all [TT.special]

theorem expr_allSig (e : Expr) (he : e.Valid) : AllSig e.toks := by
  intro t ht
  obtain ⟨hf, hv⟩ := he
  cases hval : e.value with
  | none =>
    simp [Expr.toks, hval] at ht
    rcases ht with rfl | rfl | rfl
    · rfl
    · simp [hf, TT.special]
    · rfl
  | some v =>
    obtain ⟨k, hk⟩ := hv v hval
    simp [Expr.toks, hval] at ht
    rcases ht with rfl | rfl | rfl | rfl | rfl
    · rfl
    · simp [hf, TT.special]
    · rfl
    · exact valueKind_sig _ k hk
    · rfl

theorem tail_allSig : ∀ (tail : List (Tok × Expr)), ValidTail tail → AllSig (tailToks tail) := by
  intro tail hv t ht
  simp only [tailToks, List.mem_flatMap] at ht
  obtain ⟨p, hp, htp⟩ := ht
  obtain ⟨ha1, _, he⟩ := hv p hp
  rcases List.mem_cons.1 htp with rfl | h
  · simp [ha1, TT.special]
  · exact expr_allSig p.2 he t h

/-- T17.4 (completeness + round trip from the AST side): every query of the grammar is accepted, its items are
exactly its tokens in order, `mediaType` is set exactly for a bare media type -/
theorem parseQ_ast (a : QAst) (hv : a.Valid) : parseQ {} a.toks = .ok a.toMQ := by
  cases a with
  | typed pre ty tail =>
    obtain ⟨hp, ht1, ht2, htl⟩ := hv
    have hnp := isPrefixWord_of_mediaType ty.val ht2
    have hsigTail := tail_allSig tail htl
    cases pre with
    | none =>
      have hstep : stepQ false {} ty = .cont { ({} : QSt).emit .afterType (.tok ty) with mtype := some ty.val } := by
        simp [stepQ, ht1, ht2, hnp, QSt.emit]
      have hrun := run_tail tail { ({} : QSt).emit .afterType (.tok ty) with mtype := some ty.val } htl (Or.inl rfl)
      have hall : AllSig (QAst.typed none ty tail).toks := by
        intro t ht
        simp [QAst.toks] at ht
        rcases ht with rfl | h
        · simp [ht1, TT.special]
        · exact hsigTail t h
      rw [parseQ_of_run _ {} _ hall (by
        simp only [QAst.toks, Option.toList, List.nil_append, List.singleton_append, runQ, hstep]; exact hrun)]
      cases tail with
      | nil => simp [QS.accepting, QSt.toMQ, QAst.toMQ, QSt.emit, tailItems]
      | cons p r => simp [QS.accepting, QSt.toMQ, QAst.toMQ, QSt.emit]
    | some p =>
      obtain ⟨hp1, hp2⟩ := hp p rfl
      have hstep0 : stepQ false {} p = .cont { ({} : QSt).emit .afterPrefix (.tok p) with notSimple := true } := by
        simp [stepQ, hp1, hp2, QSt.emit]
      let st1 : QSt := { s := .afterType, items := [.tok ty, .tok p], stopIf := false, mtype := some ty.val,
                         notSimple := true }
      have hstep1 : stepQ false { ({} : QSt).emit .afterPrefix (.tok p) with notSimple := true } ty = .cont st1 := by
        simp [stepQ, ht1, ht2, QSt.emit, st1]
      have hrun := run_tail tail st1 htl (Or.inl rfl)
      have hall : AllSig (QAst.typed (some p) ty tail).toks := by
        intro t ht
        simp [QAst.toks] at ht
        rcases ht with rfl | rfl | h
        · simp [hp1, TT.special]
        · simp [ht1, TT.special]
        · exact hsigTail t h
      rw [parseQ_of_run _ {} _ hall (by
        simp only [QAst.toks, Option.toList, List.singleton_append, List.cons_append, List.nil_append, runQ, hstep0,
          hstep1]; exact hrun)]
      cases tail with
      | nil => simp [QS.accepting, QSt.toMQ, QAst.toMQ, tailItems, st1]
      | cons p r => simp [QS.accepting, QSt.toMQ, QAst.toMQ, st1]
  | untyped e0 tail =>
    obtain ⟨he0, htl⟩ := hv
    have hsigTail := tail_allSig tail htl
    have hrun0 := run_expr e0 he0 {} (Or.inl rfl)
    have hrun := run_tail tail { ({} : QSt) with s := .afterClose, items := e0.items.reverse ++ [] } htl (Or.inr rfl)
    have hall : AllSig (QAst.untyped e0 tail).toks := by
      intro t ht
      simp only [QAst.toks, List.mem_append] at ht
      rcases ht with h | h
      · exact expr_allSig e0 he0 t h
      · exact hsigTail t h
    rw [parseQ_of_run _ {} _ hall (by
      simp only [QAst.toks]; rw [runQ_append, hrun0]; simp only [Option.bind_some]; exact hrun)]
    cases tail with
    | nil => simp [QS.accepting, QSt.toMQ, QAst.toMQ, tailItems]
    | cons p r => simp [QS.accepting, QSt.toMQ, QAst.toMQ]

/-! ## concrete tokens for the machine-checked witnesses (code points written out: `decide` evaluates them) -/

def tIdent (v : Cps) : Tok := { typ := .ident, val := v, text := v }
def tChar (v : Cps) : Tok := { typ := .char, val := v }
def tSpace : Tok := { typ := .s, val := [32] }
def tComment (v : Cps) : Tok := { typ := .comment, val := v }
def wTv : Cps := [116, 118]
def wPrint : Cps := [112, 114, 105, 110, 116]
def wPRINT : Cps := [80, 82, 73, 78, 84]
def wAnd : Cps := [97, 110, 100]
def wAll : Cps := [97, 108, 108]
def wColor : Cps := [99, 111, 108, 111, 114]
def wComment : Cps := [47, 42, 99, 42, 47]

end CssVerif.Media
