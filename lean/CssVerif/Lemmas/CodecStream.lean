import CssVerif.Model.CodecStream
import CssVerif.Lemmas.CodecEnc
/-!
Invariants of the stream reader / writer machines: what was handed out so far is a prefix of the one-shot
result, and all of it once the data lets the machine start and the inner codec has nothing pending.
-/
namespace CssVerif.Codec

/-- what `self.encoding` may hold while the reader waits, after the bytes `a` -/
def EncOk (given : Option Name) (force : Bool) (a : List Nat) (enc : Option Name) : Prop :=
  enc = given ∨ ((force = false ∨ given = none) ∧ ∃ d, detect a false = some d ∧ enc = some (pick given force d))

theorem pick_pick (given : Option Name) (d : Enc × Bool) :
    pick (some (pick given false d)) false d = pick given false d := by
  unfold pick
  cases given with
  | none => cases d.2 <;> simp
  | some g => cases d.2 <;> simp

/-- re-detecting with the encoding assigned by an earlier call gives the same encoding -/
theorem readerEnc_ok (given : Option Name) (force : Bool) (a x : List Nat) (enc : Option Name)
    (h : EncOk given force a enc) : readerEnc enc force (a ++ x) = readerEnc given force (a ++ x) := by
  rcases h with h | ⟨hgf, d, hd, he⟩
  · rw [h]
  · have hd' := detect_stable a x false d hd
    subst he
    cases force with
    | true =>
      rcases hgf with h | h
      · cases h
      · subst h
        simp [readerEnc, hd']
    | false =>
      cases given with
      | none => simp only [readerEnc, hd', Option.map_some]; rw [pick_pick]
      | some g => simp only [readerEnc, hd', Option.map_some]; rw [pick_pick]

theorem readerEnc_next (given : Option Name) (force : Bool) (a : List Nat) (E : Name)
    (h : readerEnc given force a = some E) : EncOk given force a (some E) := by
  unfold readerEnc at h
  cases given with
  | none =>
    cases hd : detect a false with
    | none => cases force <;> simp [hd] at h
    | some d =>
      refine Or.inr ⟨Or.inr rfl, d, hd, ?_⟩
      cases force <;> simp [hd] at h <;> rw [h]
  | some g =>
    cases force with
    | true => simp at h; subst h; exact Or.inl rfl
    | false =>
      cases hd : detect a false with
      | none => simp [hd] at h
      | some d =>
        refine Or.inr ⟨Or.inl rfl, d, hd, ?_⟩
        simp [hd] at h; rw [h]

/-- once the reader has settled on an encoding, it is the one one-shot `decode` uses for any continuation -/
theorem readerEnc_final (given : Option Name) (force : Bool) (a : List Nat) (E : Name)
    (h : readerEnc given force a = some E) (ext : List Nat) : finalEnc given force (a ++ ext) = E := by
  unfold readerEnc at h
  unfold finalEnc
  cases given with
  | none =>
    cases hd : detect a false with
    | none => cases force <;> simp [hd] at h
    | some d =>
      have := detectFinal_of_early a ext d hd
      cases force <;> simp [hd] at h <;> simp [this, h]
  | some g =>
    cases force with
    | true => simp at h; simp [h]
    | false =>
      cases hd : detect a false with
      | none => simp [hd] at h
      | some d =>
        have := detectFinal_of_early a ext d hd
        simp [hd] at h; simp [this, h]

theorem readerEnc_stable (given : Option Name) (force : Bool) (a x : List Nat) (E : Name)
    (h : readerEnc given force a = some E) : readerEnc given force (a ++ x) = some E := by
  unfold readerEnc at *
  cases given with
  | none =>
    cases hd : detect a false with
    | none => cases force <;> simp [hd] at h
    | some d =>
      have hd' := detect_stable a x false d hd
      cases force <;> simp [hd] at h <;> simp [hd', h]
  | some g =>
    cases force with
    | true => exact h
    | false =>
      cases hd : detect a false with
      | none => simp [hd] at h
      | some d =>
        have hd' := detect_stable a x false d hd
        simp [hd] at h; simp [hd', h]

theorem EncOk_mono (given : Option Name) (force : Bool) (a x : List Nat) (enc : Option Name)
    (h : EncOk given force a enc) : EncOk given force (a ++ x) enc := by
  rcases h with h | ⟨hgf, d, hd, he⟩
  · exact Or.inl h
  · exact Or.inr ⟨hgf, d, detect_stable a x false d hd, he⟩

def RInv (I : Inner) (given : Option Name) (force : Bool) (a em : List Nat) : RSt → Prop
  | .waiting enc bb => bb = a ∧ em = [] ∧ EncOk given force a enc ∧ RUnd I given force a
  | .reading E c => c = a ∧ readerEnc given force a = some E ∧
      (∀ ext, fixFinal (I.out E a false ++ ext) E = em ++ ext)

theorem fix_nil (g : List Nat) : fixEncoding [] g false = none := by
  simp [fixEncoding, isPrefixOf10, prefix10]

theorem rinv_init (I : Inner) (given : Option Name) (force : Bool) : RInv I given force [] [] (.waiting given []) := by
  refine ⟨rfl, rfl, Or.inl rfl, ?_⟩
  unfold RUnd readerEnc
  cases given with
  | none => cases force <;> simp [show detect [] false = none from by decide]
  | some g =>
    cases force with
    | true => simp [I.out_nil, fix_nil]
    | false => simp [show detect [] false = none from by decide]

theorem rstep_inv (I : Inner) (given : Option Name) (force : Bool) (a em x : List Nat) (s : RSt)
    (h : RInv I given force a em s) :
    RInv I given force (a ++ x) (em ++ (rstep I force s x).2) (rstep I force s x).1 := by
  cases s with
  | waiting enc bb =>
    obtain ⟨rfl, rfl, hok, _⟩ := h
    simp only [rstep, readerEnc_ok given force bb x enc hok]
    cases hc : readerEnc given force (bb ++ x) with
    | none =>
      exact ⟨rfl, rfl, EncOk_mono given force bb x enc hok, by unfold RUnd; rw [hc]; trivial⟩
    | some E =>
      dsimp only
      cases hf : fixEncoding (I.out E (bb ++ x) false) E false with
      | none =>
        exact ⟨rfl, rfl, readerEnc_next given force _ E hc, by unfold RUnd; rw [hc]; exact hf⟩
      | some t =>
        dsimp only
        refine ⟨rfl, hc, ?_⟩
        intro ext; simpa using fixFinal_of_early _ ext E t hf
  | reading E c =>
    obtain ⟨rfl, hE, hfx⟩ := h
    simp only [rstep]
    refine ⟨rfl, readerEnc_stable given force c x E hE, ?_⟩
    intro ext
    rw [feedInner_spec I E c x false, List.append_assoc, hfx, List.append_assoc]

theorem rrunChunks_inv (I : Inner) (given : Option Name) (force : Bool) (cs : List (List Nat)) :
    ∀ (a em : List Nat) (s : RSt), RInv I given force a em s →
      RInv I given force (a ++ cs.flatten) (em ++ (rrunChunks I force s cs).2) (rrunChunks I force s cs).1 := by
  induction cs with
  | nil => intro a em s h; simpa [rrunChunks] using h
  | cons c cs ih =>
    intro a em s h
    have h1 := rstep_inv I given force a em c s h
    have h2 := ih _ _ _ h1
    simpa [rrunChunks, List.append_assoc] using h2

/-- the stream reader never hands out anything one-shot `decode` would not: prefix, for every chunking -/
theorem readAll_prefix (I : Inner) (given : Option Name) (force : Bool) (cs : List (List Nat)) :
    ∃ ext, oneShot I given force cs.flatten = readAll I given force cs ++ ext := by
  have h := rrunChunks_inv I given force cs [] [] _ (rinv_init I given force)
  simp only [List.nil_append] at h
  unfold readAll
  generalize (rrunChunks I force (.waiting given []) cs).2 = em at h
  cases hs : (rrunChunks I force (.waiting given []) cs).1 with
  | waiting enc bb =>
    rw [hs] at h
    obtain ⟨_, rfl, _, _⟩ := h
    exact ⟨_, rfl⟩
  | reading E c =>
    rw [hs] at h
    obtain ⟨_, hE, hfx⟩ := h
    have hE0 : finalEnc given force cs.flatten = E := by simpa using readerEnc_final given force _ E hE []
    obtain ⟨ext, hm⟩ := I.mono E cs.flatten [] true
    simp only [List.append_nil] at hm
    refine ⟨ext, ?_⟩
    unfold oneShot
    rw [hE0, hm, hfx]

/-- … and all of it as soon as the whole data lets the reader start (encoding detected, `@charset` rule
closed or impossible) and the inner decoder has nothing pending at the end -/
theorem readAll_complete (I : Inner) (given : Option Name) (force : Bool) (cs : List (List Nat))
    (hstart : ¬ RUnd I given force cs.flatten)
    (hpend : I.out (finalEnc given force cs.flatten) cs.flatten true =
             I.out (finalEnc given force cs.flatten) cs.flatten false) :
    readAll I given force cs = oneShot I given force cs.flatten := by
  have h := rrunChunks_inv I given force cs [] [] _ (rinv_init I given force)
  simp only [List.nil_append] at h
  unfold readAll
  generalize (rrunChunks I force (.waiting given []) cs).2 = em at h
  cases hs : (rrunChunks I force (.waiting given []) cs).1 with
  | waiting enc bb =>
    rw [hs] at h
    exact absurd h.2.2.2 hstart
  | reading E c =>
    rw [hs] at h
    obtain ⟨_, hE, hfx⟩ := h
    have hE0 : finalEnc given force cs.flatten = E := by simpa using readerEnc_final given force _ E hE []
    unfold oneShot
    rw [hpend, hE0]
    have := hfx []
    simpa using this.symm

/-! ## writer -/

theorem wstep_eq_estep (I : InnerEnc) (s : ESt) (x : List Nat) : wstep I s x = estep I s x false := by
  cases s with
  | waiting g buf =>
    cases g with
    | some g => rfl
    | none =>
      simp only [wstep, estep, detU]
      cases detectUnicode (buf ++ x) false <;> rfl
  | encoding E c => rfl

theorem wrunChunks_eq (I : InnerEnc) (s : ESt) (cs : List (List Nat)) : wrunChunks I s cs = erunChunks I s cs := by
  induction cs generalizing s with
  | nil => rfl
  | cons c cs ih => simp only [wrunChunks, erunChunks, wstep_eq_estep, ih]

/-- while the writer waits, the text seen so far does not let it start -/
theorem wwaiting_und (I : InnerEnc) (given : Option Name) (cs : List (List Nat)) :
    ∀ (a : List Nat) (s : ESt), (s = .waiting given a ∧ WUnd given a) →
      ∀ g buf, (erunChunks I s cs).1 = .waiting g buf → WUnd given (a ++ cs.flatten) := by
  induction cs with
  | nil =>
    intro a s ⟨_, hu⟩ g buf _
    simpa using hu
  | cons c cs ih =>
    intro a s ⟨hs, hu⟩ g buf hw
    subst hs
    simp only [erunChunks] at hw
    cases given with
    | some gg =>
      cases hf : fixEncoding (a ++ c) gg false with
      | none =>
        have := ih (a ++ c) (.waiting (some gg) (a ++ c)) ⟨rfl, hf⟩ g buf (by simpa [estep, hf] using hw)
        simpa [List.append_assoc] using this
      | some t =>
        exfalso
        have hst : (estep I (.waiting (some gg) a) c false).1 =
            .encoding gg (if isSig gg then fixFinal t utf8Name else t) := by simp [estep, hf]
        rw [hst] at hw
        have : ∀ (cs : List (List Nat)) E c0, ∃ c1, (erunChunks I (.encoding E c0) cs).1 = .encoding E c1 := by
          intro cs
          induction cs with
          | nil => intro E c0; exact ⟨c0, rfl⟩
          | cons y ys ih2 => intro E c0; simpa [erunChunks, estep] using ih2 E (c0 ++ y)
        obtain ⟨c1, h1⟩ := this cs gg _
        rw [h1] at hw; cases hw
    | none =>
      cases hd : detectUnicode (a ++ c) false with
      | none =>
        have hdu : detU (a ++ c) false = none := by simp [detU, hd]
        have := ih (a ++ c) (.waiting none (a ++ c)) ⟨rfl, hd⟩ g buf (by simpa [estep, hdu] using hw)
        simpa [List.append_assoc] using this
      | some d =>
        exfalso
        have hdu : detU (a ++ c) false = some d.1.name := by simp [detU, hd]
        have hst : ∃ t', (estep I (.waiting none a) c false).1 = .encoding d.1.name t' := by
          simp [estep, hdu]
        obtain ⟨t', hst⟩ := hst
        rw [hst] at hw
        have : ∀ (cs : List (List Nat)) E c0, ∃ c1, (erunChunks I (.encoding E c0) cs).1 = .encoding E c1 := by
          intro cs
          induction cs with
          | nil => intro E c0; exact ⟨c0, rfl⟩
          | cons y ys ih2 => intro E c0; simpa [erunChunks, estep] using ih2 E (c0 ++ y)
        obtain ⟨c1, h1⟩ := this cs d.1.name t'
        rw [h1] at hw; cases hw

theorem wund_init (given : Option Name) : WUnd given [] := by
  cases given with
  | some g => exact fix_nil g
  | none => show detectUnicode [] false = none; decide

/-- the stream writer never writes anything one-shot `encode` would not: prefix, for every chunking -/
theorem writeAll_prefix (I : InnerEnc) (given : Option Name) (cs : List (List Nat)) :
    ∃ ext, encodeOneShot I given cs.flatten = writeAll I given cs ++ ext := by
  unfold writeAll
  rw [wrunChunks_eq]
  have h := erunChunks_inv I given cs [] [] (.waiting given []) (⟨rfl, rfl, rfl⟩ : EInv I given [] [] (.waiting given []))
  simp only [List.nil_append] at h
  generalize (erunChunks I (.waiting given []) cs).2 = em at h
  cases hs : (erunChunks I (.waiting given []) cs).1 with
  | waiting g buf =>
    rw [hs] at h
    obtain ⟨_, _, rfl⟩ := h
    exact ⟨_, rfl⟩
  | encoding E c =>
    rw [hs] at h
    obtain ⟨hem, hT⟩ := h
    obtain ⟨hE, hTT⟩ := hT []
    simp only [List.append_nil] at hE hTT
    obtain ⟨ext, hm⟩ := I.mono E c [] true
    simp only [List.append_nil] at hm
    exact ⟨ext, by rw [encodeOneShot_eq, hE, hTT, hm, hem]⟩

/-- … and all of it as soon as the whole text lets the writer start and the inner encoder adds nothing at
the end of the data -/
theorem writeAll_complete (I : InnerEnc) (given : Option Name) (cs : List (List Nat))
    (hstart : ¬ WUnd given cs.flatten)
    (hfin : I.out (finalE given cs.flatten) (finalT given cs.flatten) true =
            I.out (finalE given cs.flatten) (finalT given cs.flatten) false) :
    writeAll I given cs = encodeOneShot I given cs.flatten := by
  unfold writeAll
  rw [wrunChunks_eq]
  have h := erunChunks_inv I given cs [] [] (.waiting given []) (⟨rfl, rfl, rfl⟩ : EInv I given [] [] (.waiting given []))
  simp only [List.nil_append] at h
  generalize hem0 : (erunChunks I (.waiting given []) cs).2 = em at h
  cases hs : (erunChunks I (.waiting given []) cs).1 with
  | waiting g buf =>
    have := wwaiting_und I given cs [] _ ⟨rfl, wund_init given⟩ g buf hs
    simp only [List.nil_append] at this
    exact absurd this hstart
  | encoding E c =>
    rw [hs] at h
    obtain ⟨hem, hT⟩ := h
    obtain ⟨hE, hTT⟩ := hT []
    simp only [List.append_nil] at hE hTT
    rw [encodeOneShot_eq, hfin, hE, hTT, hem]

/-! ## reset -/

/-- a reset decoder is a fresh decoder of the same constructor arguments, whatever state it was in -/
theorem reset_initial (initial : Option Name) (force : Bool) (s : DSt) :
    s.reset initial force = .waiting initial force [] := by
  cases s <;> rfl

/-- a reset encoder is a fresh encoder of the same constructor argument, whatever state it was in -/
theorem ereset_initial (initial : Option Name) (s : ESt) : s.reset initial = .waiting initial [] := by
  cases s <;> rfl

end CssVerif.Codec
