import CssVerif.Model.NumPV
import CssVerif.Lemmas.Num
/-!
Lemmas for C18 / T18.5: what `Out.append` does with the items of a `PropertyValue` and of a `CSSFunction`, and the
closed form of the two serializer loops.
-/
namespace CssVerif.Num
open CssVerif.Proto

/-! ## component texts as `Out.append` sees them -/

/-- executable form of `Plain` -/
def plainB (t : Cps) : Bool :=
  t.any (fun c => !outPunct.contains c && !isSpaceChar c) && !endsWithRawSpace t && !(t.head? == some 0x2A)

/-- a text that `Out.append` treats as an ordinary word: it has a character that is neither white space nor one of
the punctuation characters `+>~,:{;)]/=}[(`, it does not end in an unescaped space and it does not start with `*`. Every component
of a value is written as such a text (a number has a digit, a string starts and ends with `"`, `url(…)`, `#hex`, a
name; a function ends with `)`). -/
def Plain (t : Cps) : Prop := plainB t = true

instance (t : Cps) : Decidable (Plain t) := by unfold Plain; infer_instance

theorem Plain.punct {t : Cps} (h : Plain t) : ∃ c ∈ t, c ∉ outPunct := by
  unfold Plain plainB at h
  simp only [Bool.and_eq_true, List.any_eq_true, Bool.not_eq_true'] at h
  obtain ⟨⟨⟨c, hc, hn, _⟩, _⟩, _⟩ := h
  exact ⟨c, hc, by simpa using hn⟩

theorem Plain.noSpace {t : Cps} (h : Plain t) : endsWithRawSpace t = false := by
  unfold Plain plainB at h
  simp only [Bool.and_eq_true, Bool.not_eq_true'] at h
  exact h.1.2

theorem Plain.noStar {t : Cps} (h : Plain t) : t.head? ≠ some 0x2A := by
  unfold Plain plainB at h
  simp only [Bool.and_eq_true, Bool.not_eq_true', beq_eq_false_iff_ne] at h
  exact h.2

theorem Plain.ne_nil {t : Cps} (h : Plain t) : t.isEmpty = false := by
  obtain ⟨c, hc, _⟩ := h.punct
  cases t with
  | nil => cases hc
  | cons _ _ => rfl

theorem wouldFuse_false {val : Cps} (h1 : val.head? ≠ some 0x2A) (h2 : val ≠ [0x3D]) (out : List Cps) :
    wouldFuse out val = false := by
  unfold wouldFuse
  split
  · rfl
  · simp [h1, h2]

theorem Plain.ne_eq {t : Cps} (h : Plain t) : t ≠ [0x3D] := by
  intro e
  obtain ⟨c, hc, hn⟩ := h.punct
  subst e
  simp at hc
  subst hc
  exact hn (by decide)

theorem outPush_plain {t : Cps} (h : Plain t) (out : List Cps) : outPush out t = out ++ [t] := by
  simp [outPush, h.noSpace, wouldFuse_false h.noStar h.ne_eq]

/-- what `Out.append` leaves behind an ordinary word: `prefs.spacer`, and one blank when the spacer is empty
(`serialize.py:307-315`) -/
def trail (p : Prefs) : List Cps := if p.spacer.isEmpty then [[], [0x20]] else [p.spacer]

/-- `trail` without its last (white-space) item: what stays when a `,` `/` `)` follows -/
def trailD (p : Prefs) : List Cps := if p.spacer.isEmpty then [[]] else []

/-- the separator between two adjacent components: the spacer, one blank if the spacer is empty -/
def sepSpace (p : Prefs) : Cps := if p.spacer.isEmpty then [0x20] else p.spacer

theorem trail_flatten (p : Prefs) : (trail p).flatten = sepSpace p := by
  unfold trail sepSpace; split <;> simp

theorem trailD_flatten (p : Prefs) : (trailD p).flatten = [] := by
  unfold trailD; split <;> simp

theorem isBlank_space : isCssBlank [0x20] = true := by decide

/-- CSS white space is white space of the interpreter -/
theorem isBlank_of_isCssBlank {x : Cps} (h : isCssBlank x = true) : isBlank x = true := by
  simp only [isCssBlank, isBlank, List.all_eq_true] at *
  intro c hc
  have := h c hc
  simp only [isCssSpace, Bool.or_eq_true, decide_eq_true_eq] at this
  rcases this with (((rfl | rfl) | rfl) | rfl) | rfl <;> decide

theorem isCssBlank_false_of_isBlank_false {x : Cps} (h : isBlank x = false) : isCssBlank x = false := by
  cases hc : isCssBlank x with
  | false => rfl
  | true => rw [isBlank_of_isCssBlank hc] at h; cases h

theorem removeLastIfS_snoc_blank (o : List Cps) {x : Cps} (h : isCssBlank x = true) : removeLastIfS (o ++ [x]) = o := by
  simp [removeLastIfS, h]

theorem removeLastIfS_snoc_nonblank (o : List Cps) {x : Cps} (h : isBlank x = false) :
    removeLastIfS (o ++ [x]) = o ++ [x] := by
  simp [removeLastIfS, isCssBlank_false_of_isBlank_false h]

theorem removeLastIfS_trail (p : Prefs) (hsp : isCssBlank p.spacer = true) (o : List Cps) :
    removeLastIfS (o ++ trail p) = o ++ trailD p := by
  unfold trail trailD
  split
  · have : o ++ [[], [0x20]] = (o ++ [[]]) ++ [[0x20]] := by simp
    rw [this, removeLastIfS_snoc_blank _ isBlank_space]
  · rw [removeLastIfS_snoc_blank _ hsp]; simp

/-- an ordinary word (a component's text, as text or as object) is appended as it is, followed by the spacer -/
theorem outAppend_plain (p : Prefs) {t : Cps} (h : Plain t) (isObj : Bool) (ty : ItemType)
    (hty : ty ≠ .string ∧ ty ≠ .uri ∧ ty ≠ .hash ∧ ty ≠ .s ∧ ty ≠ .function) (out : List Cps) :
    outAppend p out t isObj ty = out ++ [t] ++ trail p := by
  have hne := h.ne_nil
  obtain ⟨c, hc, hn⟩ := h.punct
  have sub : ∀ small : Cps, (∀ x ∈ small, x ∈ outPunct) → ∃ c ∈ t, c ∉ small :=
    fun small hs => ⟨c, hc, notin_sub hs hn⟩
  have h1 : isSubstr t (cps "+>~,:{;)]/=}") = false := isSubstr_false_of_mem (sub _ (by decide))
  have h2 : isSubstr t (cps "+>~") = false := isSubstr_false_of_mem (sub _ (by decide))
  have h3 : isSubstr t (cps "}[]()/=") = false := isSubstr_false_of_mem (sub _ (by decide))
  have n1 : t ≠ cps ")" := ne_of_mem (sub _ (by decide))
  have n2 : t ≠ cps "," := ne_of_mem (sub _ (by decide))
  have n3 : t ≠ cps ":" := ne_of_mem (sub _ (by decide))
  have n4 : t ≠ cps "{" := ne_of_mem (sub _ (by decide))
  have n5 : t ≠ cps ";" := ne_of_mem (sub _ (by decide))
  obtain ⟨y1, y2, y3, y4, y5⟩ := hty
  unfold outAppend
  simp only [hne, Bool.false_eq_true, Bool.false_and, if_false, y1, y2, y3, y4, y5, h1, h2, h3, n1, n2, n3, n4, n5,
    ite_self, or_self, Bool.not_false, Bool.true_and, ne_eq, not_false_eq_true, decide_true, Bool.and_true, if_true,
    outPush_plain h]
  unfold trail
  by_cases he : p.spacer.isEmpty = true
  · have : p.spacer = [] := List.isEmpty_iff.mp he
    simp [this]
  · simp [he]

/-- the name of a function (type `FUNCTION`) is appended without a spacer -/
theorem outAppend_fname (p : Prefs) {t : Cps} (h : Plain t) (out : List Cps) :
    outAppend p out t false .function = out ++ [t] := by
  have hne := h.ne_nil
  obtain ⟨c, hc, hn⟩ := h.punct
  have sub : ∀ small : Cps, (∀ x ∈ small, x ∈ outPunct) → ∃ c ∈ t, c ∉ small :=
    fun small hs => ⟨c, hc, notin_sub hs hn⟩
  have h1 : isSubstr t (cps "+>~,:{;)]/=}") = false := isSubstr_false_of_mem (sub _ (by decide))
  have h2 : isSubstr t (cps "+>~") = false := isSubstr_false_of_mem (sub _ (by decide))
  have n1 : t ≠ cps ")" := ne_of_mem (sub _ (by decide))
  have n2 : t ≠ cps "," := ne_of_mem (sub _ (by decide))
  have n3 : t ≠ cps ":" := ne_of_mem (sub _ (by decide))
  have n4 : t ≠ cps "{" := ne_of_mem (sub _ (by decide))
  have n5 : t ≠ cps ";" := ne_of_mem (sub _ (by decide))
  unfold outAppend
  simp [hne, h1, h2, n1, n2, n3, n4, n5, outPush_plain h]

/-- a comma after a component: the white space behind the component goes, `prefs.listItemSpacer` follows -/
theorem outAppend_comma (p : Prefs) (hsp : isCssBlank p.spacer = true) (o : List Cps) (ty : ItemType)
    (hty : ty ≠ .string ∧ ty ≠ .uri ∧ ty ≠ .hash ∧ ty ≠ .s) :
    outAppend p (o ++ trail p) (cps ",") false ty = o ++ trailD p ++ [cps ",", p.listItemSpacer] := by
  obtain ⟨y1, y2, y3, y4⟩ := hty
  have e1 : isSubstr (cps ",") (cps "+>~,:{;)]/=}") = true := by decide
  have e2 : isSubstr (cps ",") (cps "+>~") = false := by decide
  have e3 : endsWithRawSpace (cps ",") = false := by decide
  have e4 : ∀ out, wouldFuse out (cps ",") = false := wouldFuse_false (by decide) (by decide)
  have n1 : cps "," ≠ cps ")" := by decide
  have he : (cps ",").isEmpty = false := by decide
  unfold outAppend
  simp only [he, y1, y2, y3, y4, e1, e2, outPush, e3, e4, removeLastIfS_trail p hsp, n1, Bool.false_and,
    Bool.false_eq_true, if_false, if_true, ne_eq, not_false_eq_true, decide_true, Bool.and_true, Bool.not_false,
    List.append_assoc, List.cons_append, List.nil_append]

/-- a slash after a component: the white space behind the component goes, nothing follows -/
theorem outAppend_slash (p : Prefs) (hsp : isCssBlank p.spacer = true) (o : List Cps) (ty : ItemType)
    (hty : ty ≠ .string ∧ ty ≠ .uri ∧ ty ≠ .hash ∧ ty ≠ .s) :
    outAppend p (o ++ trail p) (cps "/") false ty = o ++ trailD p ++ [cps "/"] := by
  obtain ⟨y1, y2, y3, y4⟩ := hty
  have e1 : isSubstr (cps "/") (cps "+>~,:{;)]/=}") = true := by decide
  have e2 : isSubstr (cps "/") (cps "+>~") = false := by decide
  have e3 : endsWithRawSpace (cps "/") = false := by decide
  have e4 : ∀ out, wouldFuse out (cps "/") = false := wouldFuse_false (by decide) (by decide)
  have e5 : isSubstr (cps "/") (cps "}[]()/=") = true := by decide
  have n1 : cps "/" ≠ cps ")" := by decide
  have n2 : cps "/" ≠ cps "," := by decide
  have n3 : cps "/" ≠ cps ":" := by decide
  have n4 : cps "/" ≠ cps "{" := by decide
  have n5 : cps "/" ≠ cps ";" := by decide
  have he : (cps "/").isEmpty = false := by decide
  unfold outAppend
  simp only [he, y1, y2, y3, y4, e1, e2, e5, outPush, e3, e4, removeLastIfS_trail p hsp, n1, n2, n3, n4, n5, or_self,
    Bool.false_and, Bool.false_eq_true, if_false, if_true, ne_eq, not_false_eq_true, decide_true, Bool.and_true,
    Bool.not_false, Bool.not_true, List.append_assoc, List.cons_append, List.nil_append]

/-- the closing parenthesis after a component -/
theorem outAppend_rparen (p : Prefs) (hsp : isCssBlank p.spacer = true) (o : List Cps) :
    outAppend p (o ++ trail p) (cps ")") false .char = o ++ trailD p ++ [cps ")", [0x20]] := by
  have e1 : isSubstr (cps ")") (cps "+>~,:{;)]/=}") = true := by decide
  have e2 : isSubstr (cps ")") (cps "+>~") = false := by decide
  have e3 : endsWithRawSpace (cps ")") = false := by decide
  have e4 : ∀ out, wouldFuse out (cps ")") = false := wouldFuse_false (by decide) (by decide)
  have he : (cps ")").isEmpty = false := by decide
  unfold outAppend
  simp only [he, e1, e2, outPush, e3, e4, removeLastIfS_trail p hsp, Bool.false_and, reduceCtorEq,
    Bool.false_eq_true, if_false, if_true, ne_eq, not_false_eq_true, decide_true, Bool.and_true, Bool.not_false,
    List.append_assoc, List.cons_append, List.nil_append]

theorem Plain.not_blank {t : Cps} (h : Plain t) : isBlank t = false := by
  unfold Plain plainB at h
  simp only [Bool.and_eq_true, List.any_eq_true, Bool.not_eq_true'] at h
  obtain ⟨⟨⟨c, hc, _, hn⟩, _⟩, _⟩ := h
  cases hb : isBlank t with
  | false => rfl
  | true =>
    simp only [isBlank, List.all_eq_true] at hb
    rw [hb c hc] at hn; cases hn

/-- `f()`: the closing parenthesis directly after the name -/
theorem outAppend_rparen_name (p : Prefs) {name : Cps} (h : Plain name) :
    outAppend p [name] (cps ")") false .char = [name, cps ")", [0x20]] := by
  have e1 : isSubstr (cps ")") (cps "+>~,:{;)]/=}") = true := by decide
  have e2 : isSubstr (cps ")") (cps "+>~") = false := by decide
  have e3 : endsWithRawSpace (cps ")") = false := by decide
  have e4 : ∀ out, wouldFuse out (cps ")") = false := wouldFuse_false (by decide) (by decide)
  have e5 : removeLastIfS [name] = [name] := removeLastIfS_snoc_nonblank [] h.not_blank
  have he : (cps ")").isEmpty = false := by decide
  unfold outAppend
  simp only [he, e1, e2, outPush, e3, e4, e5, Bool.false_and, reduceCtorEq,
    Bool.false_eq_true, if_false, if_true, ne_eq, not_false_eq_true, decide_true, Bool.and_true, Bool.not_false,
    List.append_assoc, List.cons_append, List.nil_append]

/-! ## the specification side: a value rendered from its structure

`Comp.render` / `Args.render` / `pvRender` do not know `Out`: the text of a function is its name, the texts of its
arguments in source order, `,` + `listItemSpacer` where the source has a comma, the spacer (one blank if it is empty)
between two adjacent arguments, and `)`; the text of a value is the texts of its components in source order, with
`,` + `listItemSpacer`, `/` or the spacer between them. A separator that does not stand between two components (not
produced by the grammar, `css/value.py:141-174,706-731`) makes the rendering undefined (`Err.protocol`). -/

/-- what precedes the next item: nothing, a component, a separator -/
inductive Pend where
  | first | afterComp | afterSep
deriving DecidableEq, Repr

mutual
def Comp.render (ops : NumOps) (p : Prefs) : Comp → Except Err Cps
  | .num typ tv => Comp.text ops p (.num typ tv)
  | .simple t v => Comp.text ops p (.simple t v)
  | .uri v => Comp.text ops p (.uri v)
  | .color t v => Comp.text ops p (.color t v)
  | .calc toks => Comp.text ops p (.calc toks)
  | .comment t => Comp.text ops p (.comment t)
  | .func name args =>
    match Args.render ops p args .first with
    | .ok r => .ok (name ++ r)
    | .error e => .error e
def Args.render (ops : NumOps) (p : Prefs) : Args → Pend → Except Err Cps
  | .nil, pend => if pend = .afterSep then .error .protocol else .ok (cps ")")
  | .comma rest, pend =>
    if pend = .afterComp then
      match Args.render ops p rest .afterSep with
      | .ok r => .ok (cps "," ++ p.listItemSpacer ++ r)
      | .error e => .error e
    else .error .protocol
  | .comp c rest, pend =>
    match Comp.render ops p c with
    | .error e => .error e
    | .ok t =>
      match Args.render ops p rest .afterComp with
      | .error e => .error e
      | .ok r => .ok ((if pend = .afterComp then sepSpace p else []) ++ t ++ r)
end

def pvRender (ops : NumOps) (p : Prefs) : List PVItem → Pend → Except Err Cps
  | [], pend => if pend = .afterSep then .error .protocol else .ok []
  | .op v :: rest, pend =>
    if pend = .afterComp then
      match pvRender ops p rest .afterSep with
      | .error e => .error e
      | .ok r =>
        if v = cps "," then .ok (cps "," ++ p.listItemSpacer ++ r)
        else if v = cps "/" then .ok (cps "/" ++ r)
        else .error .protocol
    else .error .protocol
  | .comp c :: rest, pend =>
    match Comp.render ops p c with
    | .error e => .error e
    | .ok t =>
      match pvRender ops p rest .afterComp with
      | .error e => .error e
      | .ok r => .ok ((if pend = .afterComp then sepSpace p else []) ++ t ++ r)

mutual
/-- every leaf of the component is written as an ordinary word (`Plain`) and every function name is one -/
def Comp.LeavesPlain (ops : NumOps) (p : Prefs) : Comp → Prop
  | .num typ tv => ∀ t, Comp.text ops p (.num typ tv) = .ok t → Plain t
  | .simple ty v => ∀ t, Comp.text ops p (.simple ty v) = .ok t → Plain t
  | .uri v => ∀ t, Comp.text ops p (.uri v) = .ok t → Plain t
  | .color ty v => ∀ t, Comp.text ops p (.color ty v) = .ok t → Plain t
  | .calc toks => ∀ t, Comp.text ops p (.calc toks) = .ok t → Plain t
  | .comment c => ∀ t, Comp.text ops p (.comment c) = .ok t → Plain t
  | .func name args => Plain name ∧ Args.LeavesPlain ops p args
def Args.LeavesPlain (ops : NumOps) (p : Prefs) : Args → Prop
  | .nil => True
  | .comma rest => Args.LeavesPlain ops p rest
  | .comp c rest => Comp.LeavesPlain ops p c ∧ Args.LeavesPlain ops p rest
end

def PVItem.LeavesPlain (ops : NumOps) (p : Prefs) : PVItem → Prop
  | .comp c => Comp.LeavesPlain ops p c
  | .op _ => True

/-- the `Out` list while a loop runs, against the text rendered so far -/
def Inv (p : Prefs) : Pend → List Cps → Cps → Prop
  | .first, out, acc => out = [acc] ∧ Plain acc
  | .afterComp, out, acc => ∃ o, out = o ++ trail p ∧ o.flatten = acc
  | .afterSep, out, acc => out.flatten = acc

theorem outValue_snoc_space (x : List Cps) : outValue (x ++ [[0x20]]) = x.flatten := by
  unfold outValue; rw [removeLastIfS_snoc_blank _ isBlank_space]

theorem outValue_trail (p : Prefs) (hsp : isCssBlank p.spacer = true) (o : List Cps) :
    outValue (o ++ trail p) = o.flatten := by
  unfold outValue; rw [removeLastIfS_trail p hsp]; simp [trailD_flatten]

theorem endsWithRawSpace_of_last {r : Cps} {c : Nat} (h : r.getLast? = some c) (hc : c ≠ 0x20) (a : Cps) :
    endsWithRawSpace (a ++ r) = false := by
  obtain ⟨r', rfl⟩ := List.getLast?_eq_some_iff.mp h
  unfold endsWithRawSpace
  simp only [List.reverse_append, List.reverse_cons, List.reverse_nil, List.nil_append, List.cons_append]
  split <;> simp_all

/-- a name followed by arguments and `)` is again an ordinary word -/
theorem Plain.append_rparen {name r : Cps} (h : Plain name) (hr : r.getLast? = some 0x29) : Plain (name ++ r) := by
  have hne : name ≠ [] := by intro e; have := h.ne_nil; simp [e] at this
  have h0 := h
  unfold Plain plainB at h ⊢
  simp only [Bool.and_eq_true, Bool.not_eq_true', beq_eq_false_iff_ne] at h ⊢
  refine ⟨⟨?_, endsWithRawSpace_of_last hr (by decide) name⟩, ?_⟩
  · rw [List.any_append, h.1.1]; rfl
  · cases name with
    | nil => exact absurd rfl hne
    | cons a t => simpa using h.2

mutual
theorem Comp.text_of_render (ops : NumOps) (p : Prefs) (hsp : isCssBlank p.spacer = true) :
    ∀ (c : Comp) (t : Cps), Comp.LeavesPlain ops p c → Comp.render ops p c = .ok t →
      Comp.text ops p c = .ok t ∧ Plain t
  | .num typ tv, t, hl, hr => by
    simp only [Comp.render] at hr; exact ⟨hr, hl t hr⟩
  | .simple ty v, t, hl, hr => by
    simp only [Comp.render] at hr; exact ⟨hr, hl t hr⟩
  | .uri v, t, hl, hr => by
    simp only [Comp.render] at hr; exact ⟨hr, hl t hr⟩
  | .color ty v, t, hl, hr => by
    simp only [Comp.render] at hr; exact ⟨hr, hl t hr⟩
  | .calc toks, t, hl, hr => by
    simp only [Comp.render] at hr; exact ⟨hr, hl t hr⟩
  | .comment c, t, hl, hr => by
    simp only [Comp.render] at hr; exact ⟨hr, hl t hr⟩
  | .func name args, t, hl, hr => by
    simp only [Comp.LeavesPlain] at hl
    obtain ⟨hn, ha⟩ := hl
    simp only [Comp.render] at hr
    split at hr
    · rename_i r hrr
      injection hr with hr
      obtain ⟨out', ho, hv, hlast⟩ :=
        Args.fmt_of_render ops p hsp args .first [name] name r ha hrr ⟨rfl, hn⟩
      refine ⟨?_, ?_⟩
      · simp only [Comp.text, outAppend_fname p hn, List.nil_append, ho, hv, hr]
      · rw [← hr]; exact hn.append_rparen hlast
    · cases hr
theorem Args.fmt_of_render (ops : NumOps) (p : Prefs) (hsp : isCssBlank p.spacer = true) :
    ∀ (a : Args) (pend : Pend) (out : List Cps) (acc r : Cps),
      Args.LeavesPlain ops p a → Args.render ops p a pend = .ok r → Inv p pend out acc →
      ∃ out', Args.fmt ops p a out = .ok out' ∧ outValue out' = acc ++ r ∧ r.getLast? = some 0x29
  | .nil, pend, out, acc, r, _, hr, hi => by
    simp only [Args.render] at hr
    split at hr
    · cases hr
    · rename_i hp
      injection hr with hr
      subst hr
      cases pend with
      | afterSep => exact absurd rfl hp
      | first =>
        obtain ⟨ho, hpl⟩ := hi
        subst ho
        refine ⟨_, by simp only [Args.fmt]; rfl, ?_, by decide⟩
        rw [outAppend_rparen_name p hpl]
        have : [acc, cps ")", [0x20]] = [acc, cps ")"] ++ [[0x20]] := rfl
        rw [this, outValue_snoc_space]; simp
      | afterComp =>
        obtain ⟨o, ho, hf⟩ := hi
        subst ho
        refine ⟨_, by simp only [Args.fmt]; rfl, ?_, by decide⟩
        rw [outAppend_rparen p hsp]
        have : o ++ trailD p ++ [cps ")", [0x20]] = (o ++ trailD p ++ [cps ")"]) ++ [[0x20]] := by simp
        rw [this, outValue_snoc_space]; simp [trailD_flatten, hf]
  | .comma rest, pend, out, acc, r, hl, hr, hi => by
    simp only [Args.LeavesPlain] at hl
    simp only [Args.render] at hr
    split at hr
    · rename_i hp
      subst hp
      split at hr
      · rename_i r' hr'
        injection hr with hr
        obtain ⟨o, ho, hf⟩ := hi
        subst ho
        have hinv : Inv p .afterSep (o ++ trailD p ++ [cps ",", p.listItemSpacer]) (acc ++ cps "," ++ p.listItemSpacer) := by
          simp [Inv, trailD_flatten, hf]
        obtain ⟨out', h1, h2, h3⟩ := Args.fmt_of_render ops p hsp rest .afterSep _ _ r' hl hr' hinv
        refine ⟨out', ?_, ?_, ?_⟩
        · simp only [Args.fmt]
          rw [outAppend_comma p hsp o .char (by decide)]; exact h1
        · rw [h2, ← hr]; simp
        · rw [← hr]
          simp [List.getLast?_append, h3]
      · cases hr
    · cases hr
  | .comp c rest, pend, out, acc, r, hl, hr, hi => by
    simp only [Args.LeavesPlain] at hl
    obtain ⟨hc, hrest⟩ := hl
    simp only [Args.render] at hr
    split at hr
    · cases hr
    · rename_i t ht
      split at hr
      · cases hr
      · rename_i r' hr'
        injection hr with hr
        obtain ⟨htext, hpl⟩ := Comp.text_of_render ops p hsp c t hc ht
        have hstep := outAppend_plain p hpl true .other (by decide) out
        have hinv : Inv p .afterComp (out ++ [t] ++ trail p)
            (acc ++ (if pend = .afterComp then sepSpace p else []) ++ t) := by
          cases pend with
          | first =>
            obtain ⟨h1, _⟩ := hi
            subst h1; exact ⟨[acc, t], by simp, by simp⟩
          | afterComp =>
            obtain ⟨o, ho, hf⟩ := hi
            subst ho
            exact ⟨o ++ trail p ++ [t], by simp, by simp [hf, trail_flatten]⟩
          | afterSep =>
            simp only [Inv] at hi
            exact ⟨out ++ [t], by simp, by simp [hi]⟩
        obtain ⟨out', h1, h2, h3⟩ := Args.fmt_of_render ops p hsp rest .afterComp _ _ r' hrest hr' hinv
        refine ⟨out', ?_, ?_, ?_⟩
        · simp only [Args.fmt, htext, hstep]; exact h1
        · rw [h2, ← hr]; simp
        · rw [← hr]
          simp [List.getLast?_append, h3]
end

/-- the `Out` list while the loop of `do_css_PropertyValue` runs -/
def InvPV (p : Prefs) : Pend → List Cps → Cps → Prop
  | .first, out, acc => out = [] ∧ acc = []
  | .afterComp, out, acc => ∃ o, out = o ++ trail p ∧ o.flatten = acc
  | .afterSep, out, acc => out.flatten = acc

theorem pvPlainVal_comma : pvPlainVal (cps ",") = cps "," := by decide
theorem pvPlainVal_slash : pvPlainVal (cps "/") = cps "/" := by decide

theorem fmtPVAux_of_render (ops : NumOps) (p : Prefs) (hsp : isCssBlank p.spacer = true) :
    ∀ (items : List PVItem) (pend : Pend) (out : List Cps) (acc r : Cps),
      (∀ i ∈ items, PVItem.LeavesPlain ops p i) → pvRender ops p items pend = .ok r → InvPV p pend out acc →
      ∃ out', fmtPVAux ops p items out = .ok out' ∧ outValue out' = acc ++ r
  | [], pend, out, acc, r, _, hr, hi => by
    simp only [pvRender] at hr
    split at hr
    · cases hr
    · rename_i hp
      injection hr with hr
      subst hr
      refine ⟨out, rfl, ?_⟩
      cases pend with
      | afterSep => exact absurd rfl hp
      | first => obtain ⟨h1, h2⟩ := hi; subst h1; subst h2; rfl
      | afterComp =>
        obtain ⟨o, ho, hf⟩ := hi
        subst ho
        rw [outValue_trail p hsp, hf]; simp
  | .op v :: rest, pend, out, acc, r, hl, hr, hi => by
    have hrest : ∀ i ∈ rest, PVItem.LeavesPlain ops p i := fun i hi' => hl i (List.mem_cons_of_mem _ hi')
    simp only [pvRender] at hr
    split at hr
    · rename_i hp
      subst hp
      obtain ⟨o, ho, hf⟩ := hi
      subst ho
      split at hr
      · cases hr
      · rename_i r' hr'
        split at hr
        · rename_i hv
          subst hv
          injection hr with hr
          have hinv : InvPV p .afterSep (o ++ trailD p ++ [cps ",", p.listItemSpacer])
              (acc ++ cps "," ++ p.listItemSpacer) := by
            simp [InvPV, trailD_flatten, hf]
          obtain ⟨out', h1, h2⟩ := fmtPVAux_of_render ops p hsp rest .afterSep _ _ r' hrest hr' hinv
          refine ⟨out', ?_, ?_⟩
          · simp only [fmtPVAux, pvPlainVal_comma]
            rw [outAppend_comma p hsp o .other (by decide)]; exact h1
          · rw [h2, ← hr]; simp
        · split at hr
          · rename_i hv
            subst hv
            injection hr with hr
            have hinv : InvPV p .afterSep (o ++ trailD p ++ [cps "/"]) (acc ++ cps "/") := by
              simp [InvPV, trailD_flatten, hf]
            obtain ⟨out', h1, h2⟩ := fmtPVAux_of_render ops p hsp rest .afterSep _ _ r' hrest hr' hinv
            refine ⟨out', ?_, ?_⟩
            · simp only [fmtPVAux, pvPlainVal_slash]
              rw [outAppend_slash p hsp o .other (by decide)]; exact h1
            · rw [h2, ← hr]; simp
          · cases hr
    · cases hr
  | .comp c :: rest, pend, out, acc, r, hl, hr, hi => by
    have hrest : ∀ i ∈ rest, PVItem.LeavesPlain ops p i := fun i hi' => hl i (List.mem_cons_of_mem _ hi')
    have hc : Comp.LeavesPlain ops p c := hl (.comp c) (by simp)
    simp only [pvRender] at hr
    split at hr
    · cases hr
    · rename_i t ht
      split at hr
      · cases hr
      · rename_i r' hr'
        injection hr with hr
        obtain ⟨htext, hpl⟩ := Comp.text_of_render ops p hsp c t hc ht
        have hstep := outAppend_plain p hpl false .other (by decide) out
        have hinv : InvPV p .afterComp (out ++ [t] ++ trail p)
            (acc ++ (if pend = .afterComp then sepSpace p else []) ++ t) := by
          cases pend with
          | first =>
            obtain ⟨h1, h2⟩ := hi
            subst h1; subst h2; exact ⟨[t], by simp, by simp⟩
          | afterComp =>
            obtain ⟨o, ho, hf⟩ := hi
            subst ho
            exact ⟨o ++ trail p ++ [t], by simp, by simp [hf, trail_flatten]⟩
          | afterSep =>
            simp only [InvPV] at hi
            exact ⟨out ++ [t], by simp, by simp [hi]⟩
        obtain ⟨out', h1, h2⟩ := fmtPVAux_of_render ops p hsp rest .afterComp _ _ r' hrest hr' hinv
        refine ⟨out', ?_, ?_⟩
        · simp only [fmtPVAux, htext, hstep]; exact h1
        · rw [h2, ← hr]; simp

/-- `PropertyValue.cssText` is the rendering of the value's structure -/
theorem fmtPV_of_render (ops : NumOps) (p : Prefs) (hsp : isCssBlank p.spacer = true) (items : List PVItem) (r : Cps)
    (hl : ∀ i ∈ items, PVItem.LeavesPlain ops p i) (hv : items.any PVItem.isValue = true)
    (hr : pvRender ops p items .first = .ok r) : fmtPV ops p items = .ok r := by
  obtain ⟨out', h1, h2⟩ := fmtPVAux_of_render ops p hsp items .first [] [] r hl hr ⟨rfl, rfl⟩
  simp only [fmtPV, hv, Bool.not_true, Bool.false_eq_true, if_false, h1, h2, List.nil_append]

/-! ## leaves: what the serializers of simple values write is an ordinary word -/

theorem helperString_shape (v : Cps) : ∃ m, helperString v = cQuote :: (m ++ [cQuote]) :=
  ⟨if ((escStringChars v).reverse.takeWhile (· = cBackslash)).length % 2 = 1 then escStringChars v ++ [cBackslash]
    else escStringChars v, by simp [helperString]⟩

/-- a text that starts with a character which is neither punctuation, white space nor `*`, and ends with a character
other than a space, is an ordinary word -/
theorem plain_of_ends {a z : Nat} (m : Cps) (ha : outPunct.contains a = false) (hs : isSpaceChar a = false)
    (hstar : a ≠ 0x2A) (hz : z ≠ 0x20) : Plain (a :: (m ++ [z])) := by
  unfold Plain plainB
  simp only [Bool.and_eq_true, Bool.not_eq_true', beq_eq_false_iff_ne]
  refine ⟨⟨?_, ?_⟩, ?_⟩
  · have ha' : a ∉ outPunct := by simpa using ha
    simp [ha', hs]
  · have : a :: (m ++ [z]) = [a] ++ (m ++ [z]) := rfl
    rw [this]
    exact endsWithRawSpace_of_last (by simp) hz [a]
  · simpa using hstar

theorem plain_helperString (v : Cps) : Plain (helperString v) := by
  obtain ⟨m, hm⟩ := helperString_shape v
  rw [hm]
  exact plain_of_ends m (by decide) (by decide) (by decide) (by decide)

theorem plain_helperUri (v : Cps) : Plain (helperUri v) := by
  have : ∃ m, helperUri v = 0x75 :: (m ++ [0x29]) := by
    unfold helperUri
    split
    · exact ⟨0x72 :: 0x6C :: 0x28 :: helperString v, by simp [cps]⟩
    · exact ⟨0x72 :: 0x6C :: 0x28 :: v, by simp [cps]⟩
  obtain ⟨m, hm⟩ := this
  rw [hm]
  exact plain_of_ends m (by decide) (by decide) (by decide) (by decide)

/-- `Out.append(val, 'STRING')` on an empty `Out` -/
theorem outAppend_nil_string (p : Prefs) (v : Cps) :
    outAppend p [] v false .string = [helperString v, p.spacer] := by
  have h := plain_helperString v
  unfold outAppend
  generalize helperString v = w at h ⊢
  obtain ⟨c, hc, hn⟩ := h.punct
  have sub : ∀ small : Cps, (∀ x ∈ small, x ∈ outPunct) → ∃ c ∈ w, c ∉ small :=
    fun small hs => ⟨c, hc, notin_sub hs hn⟩
  have h2 : isSubstr w (cps "+>~") = false := isSubstr_false_of_mem (sub _ (by decide))
  have h3 : isSubstr w (cps "}[]()/=") = false := isSubstr_false_of_mem (sub _ (by decide))
  have n1 : w ≠ cps ")" := ne_of_mem (sub _ (by decide))
  have n2 : w ≠ cps "," := ne_of_mem (sub _ (by decide))
  have n3 : w ≠ cps ":" := ne_of_mem (sub _ (by decide))
  have n4 : w ≠ cps "{" := ne_of_mem (sub _ (by decide))
  have n5 : w ≠ cps ";" := ne_of_mem (sub _ (by decide))
  simp [h2, h3, n1, n2, n3, n4, n5, removeLastIfS, outPush_nil]

/-- `Out.append(val, 'URI')` on an empty `Out` -/
theorem outAppend_nil_uri (p : Prefs) (v : Cps) :
    outAppend p [] v false .uri = [helperUri v] ++ trail p := by
  have h := plain_helperUri v
  unfold outAppend
  generalize helperUri v = w at h ⊢
  obtain ⟨c, hc, hn⟩ := h.punct
  have sub : ∀ small : Cps, (∀ x ∈ small, x ∈ outPunct) → ∃ c ∈ w, c ∉ small :=
    fun small hs => ⟨c, hc, notin_sub hs hn⟩
  have h2 : isSubstr w (cps "+>~") = false := isSubstr_false_of_mem (sub _ (by decide))
  have h3 : isSubstr w (cps "}[]()/=") = false := isSubstr_false_of_mem (sub _ (by decide))
  have n1 : w ≠ cps ")" := ne_of_mem (sub _ (by decide))
  have n2 : w ≠ cps "," := ne_of_mem (sub _ (by decide))
  have n3 : w ≠ cps ":" := ne_of_mem (sub _ (by decide))
  have n4 : w ≠ cps "{" := ne_of_mem (sub _ (by decide))
  have n5 : w ≠ cps ";" := ne_of_mem (sub _ (by decide))
  unfold trail
  by_cases he : p.spacer.isEmpty = true
  · have : p.spacer = [] := List.isEmpty_iff.mp he
    simp [h2, h3, n1, n2, n3, n4, n5, outPush_nil, this]
  · simp [h2, h3, n1, n2, n3, n4, n5, outPush_nil, he]

/-- a STRING / URI value is written as `helper.string` / `helper.uri` of its stored value -/
theorem fmtSimple_quoted (p : Prefs) (hsp : isCssBlank p.spacer = true) (v : Cps) :
    fmtSimple p .string v = helperString v ∧ fmtSimple p .uri v = helperUri v := by
  constructor
  · unfold fmtSimple
    rw [outAppend_nil_string]
    show outValue ([helperString v] ++ [p.spacer]) = _
    unfold outValue
    rw [removeLastIfS_snoc_blank _ hsp]; simp
  · unfold fmtSimple
    rw [outAppend_nil_uri, outValue_trail p hsp]; simp

/-! ## leaves: a canonical number is an ordinary word -/

theorem digit_plain_char {c : Nat} (h : isDigit c = true) :
    (!outPunct.contains c && !isSpaceChar c) = true ∧ c ≠ 0x2A ∧ c ≠ 0x20 := by
  have h1 : ∀ x ∈ outPunct, isDigit x = false := by decide
  have h2 : ∀ x ∈ Gen.C18.spaceChars, isDigit x = false := by decide
  refine ⟨?_, ?_, ?_⟩
  · simp only [Bool.and_eq_true, Bool.not_eq_true', isSpaceChar]
    constructor
    · cases hc : outPunct.contains c with
      | false => rfl
      | true => rw [h1 c (List.contains_iff_mem.mp hc)] at h; cases h
    · cases hc : Gen.C18.spaceChars.contains c with
      | false => rfl
      | true => rw [h2 c (List.contains_iff_mem.mp hc)] at h; cases h
  · intro e; subst e; revert h; decide
  · intro e; subst e; revert h; decide

/-- the text of a well-formed literal whose unit has no blank is an ordinary word -/
theorem plain_lit_text {l : Lit} (h : l.Wf) (hu : ∀ c ∈ l.unit, c ≠ 0x20) : Plain l.text := by
  obtain ⟨d, hd, hdig⟩ := Lit.text_has_digit h
  obtain ⟨hd1, _, _⟩ := digit_plain_char hdig
  unfold Plain plainB
  simp only [Bool.and_eq_true, Bool.not_eq_true', beq_eq_false_iff_ne]
  refine ⟨⟨List.any_eq_true.mpr ⟨d, hd, hd1⟩, ?_⟩, ?_⟩
  · -- the last character: of the unit, else a digit
    unfold Lit.text
    by_cases hun : l.unit = []
    · rw [hun, List.append_nil]
      cases hf : l.fp with
      | none =>
        have hip : l.ip ≠ [] := h.ipne hf
        have hl : l.ip.getLast? = some (l.ip.getLast hip) := List.getLast?_eq_some_getLast hip
        have hdg : isDigit (l.ip.getLast hip) = true := h.ip _ (List.getLast_mem hip)
        simp only [fracText, List.append_nil]
        exact endsWithRawSpace_of_last hl (digit_plain_char hdg).2.2 l.sign
      | some f =>
        obtain ⟨hfd, hfne⟩ := h.fp f hf
        have hl : f.getLast? = some (f.getLast hfne) := List.getLast?_eq_some_getLast hfne
        have hdg : isDigit (f.getLast hfne) = true := hfd _ (List.getLast_mem hfne)
        have e : l.sign ++ (l.ip ++ fracText (some f)) = (l.sign ++ (l.ip ++ [cDot])) ++ f := by
          simp [fracText]
        rw [e]
        exact endsWithRawSpace_of_last hl (digit_plain_char hdg).2.2 _
    · have hl : l.unit.getLast? = some (l.unit.getLast hun) := List.getLast?_eq_some_getLast hun
      have e : l.sign ++ (l.ip ++ (fracText l.fp ++ l.unit)) = (l.sign ++ (l.ip ++ fracText l.fp)) ++ l.unit := by
        simp
      rw [e]
      exact endsWithRawSpace_of_last hl (hu _ (List.getLast_mem hun)) _
  · -- the first character: the sign, else a digit, else the point
    unfold Lit.text
    rcases h.sign with hs | hs | hs
    · rw [hs, List.nil_append]
      cases hip : l.ip with
      | cons a t =>
        have : isDigit a = true := h.ip a (by simp [hip])
        simpa using (digit_plain_char this).2.1
      | nil =>
        cases hf : l.fp with
        | none => exact absurd hip (h.ipne hf)
        | some f => simp [fracText, cDot]
    · rw [hs]; simp [cPlus]
    · rw [hs]; simp [cMinus]

theorem lowerAscii_ne_space {c : Nat} (h : c ≠ 0x20) : lowerAscii c ≠ 0x20 := by
  unfold lowerAscii; split <;> omega

/-- the canonical literal has no blank in its unit if the literal has none -/
theorem canonLit_unit_noSpace (olz : Bool) {l : Lit} (hu : ∀ c ∈ l.unit, c ≠ 0x20) :
    ∀ c ∈ (canonLit olz l).unit, c ≠ 0x20 := by
  have hm : ∀ c ∈ l.unit.map lowerAscii, c ≠ 0x20 := by
    intro c hc
    obtain ⟨a, ha, rfl⟩ := List.mem_map.mp hc
    exact lowerAscii_ne_space (hu a ha)
  unfold canonLit
  simp only
  split
  · split
    · intro c hc; cases hc
    · exact hm
  · split <;> exact hm

/-- **numbers are ordinary words**: for every well-formed literal with at most six fraction digits whose unit has no
blank, the written text (exact layer) is `Plain` — the hypothesis of the T18.5 theorems holds for numeric leaves -/
theorem num_leaf_plain {l : Lit} (h : l.Wf) (p : Prefs) (typ : NumType) (hsp : isCssBlank p.spacer = true)
    (h6 : (l.fp.getD []).length ≤ 6) (hov : l.tooLarge = false) (hu : ∀ c ∈ l.unit, c ≠ 0x20) :
    Comp.LeavesPlain exactOps p (.num typ l.text) := by
  intro t ht
  have hrt : roundTrip p typ l.text = .ok (canonLit p.omitLeadingZero l).text := roundTrip_canon h p typ hsp h6 hov
  have e : Comp.text exactOps p (.num typ l.text) = roundTrip p typ l.text := by
    unfold Comp.text roundTrip
    cases parseDim typ l.text <;> rfl
  rw [e, hrt] at ht
  injection ht with ht
  subst ht
  exact plain_lit_text (Wf.canon h _) (canonLit_unit_noSpace _ hu)

/-! ## a sample value for the non-vacuity example in `Props/C18.lean` -/

/-- minified: both spacers empty -/
def samplePrefs : Prefs := { omitLeadingZero := true, minimizeColorHash := true, spacer := [], listItemSpacer := [] }

/-- `1.50px/"a" , f(g(0.5,url(x y)) b)` as `PropertyValue.seq` -/
def sampleValue : List PVItem :=
  [.comp (.num .dimension (cps "1.50px")), .op (cps "/"), .comp (.simple .string (cps "a")), .op (cps ","),
   .comp (.func (cps "f(") (.comp (.func (cps "g(") (.comp (.num .number (cps "0.5")) (.comma
     (.comp (.uri (cps "x y")) .nil)))) (.comp (.simple .ident (cps "b")) .nil)))]

def sampleText : Cps := cps "1.5px/\"a\",f(g(.5,url(\"x y\")) b)"

end CssVerif.Num
