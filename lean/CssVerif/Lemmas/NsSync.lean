import CssVerif.Lemmas.NsStray
/-!
Coherence of the position bookkeeping of the two-sheet model: the rank recorded for the followed object is where
both rule lists show its selectors.
-/
namespace CssVerif.Ns
open CssVerif.Proto

theorem bodyRules_cons_ns {r : Rule} (t : Sheet) (h : r.isNs = true) : bodyRules (r :: t) = bodyRules t := by
  simp [bodyRules, h]

theorem bodyRules_cons_body {r : Rule} (t : Sheet) (h : r.isNs = false) : bodyRules (r :: t) = r :: bodyRules t := by
  simp [bodyRules, h]

/-- the rule at the index of rank `k` is the `k`-th non-@namespace rule -/
theorem bodyIndex_get {s : Sheet} {k i : Nat} (h : bodyIndex s k = some i) : s[i]? = (bodyRules s)[k]? := by
  induction s generalizing k i with
  | nil => simp [bodyIndex] at h
  | cons r t ih =>
    unfold bodyIndex at h
    cases hr : r.isNs with
    | true =>
      simp only [hr, if_true] at h
      cases hb : bodyIndex t k with
      | none => simp [hb] at h
      | some j =>
        simp only [hb, Option.map_some, Option.some.injEq] at h
        subst h
        rw [bodyRules_cons_ns t hr]
        simpa using ih hb
    | false =>
      simp only [hr, Bool.false_eq_true, if_false] at h
      rw [bodyRules_cons_body t hr]
      cases k with
      | zero =>
        simp only [Option.some.injEq] at h
        subst h
        simp
      | succ k =>
        simp only at h
        cases hb : bodyIndex t k with
        | none => simp [hb] at h
        | some j =>
          simp only [hb, Option.map_some, Option.some.injEq] at h
          subst h
          simpa using ih hb

/-- every rank below the number of non-@namespace rules has an index -/
theorem bodyIndex_of_lt {s : Sheet} {k : Nat} (h : k < (bodyRules s).length) : ∃ i, bodyIndex s k = some i := by
  induction s generalizing k with
  | nil => simp [bodyRules] at h
  | cons r t ih =>
    unfold bodyIndex
    cases hr : r.isNs with
    | true =>
      rw [bodyRules_cons_ns t hr] at h
      obtain ⟨i, hi⟩ := ih h
      exact ⟨i + 1, by simp [hi]⟩
    | false =>
      rw [bodyRules_cons_body t hr] at h
      cases k with
      | zero => exact ⟨0, by simp⟩
      | succ k =>
        obtain ⟨i, hi⟩ := ih (by simpa using h)
        exact ⟨i + 1, by simp [hi]⟩

/-- replacing the rule at the index of rank `k` by a non-@namespace rule replaces the `k`-th non-@namespace rule -/
theorem bodyRules_set_at {s : Sheet} {k i : Nat} {r' : Rule} (h : bodyIndex s k = some i) (hr' : r'.isNs = false) :
    bodyRules (s.set i r') = (bodyRules s).set k r' := by
  induction s generalizing k i with
  | nil => simp [bodyIndex] at h
  | cons r t ih =>
    unfold bodyIndex at h
    cases hr : r.isNs with
    | true =>
      simp only [hr, if_true] at h
      cases hb : bodyIndex t k with
      | none => simp [hb] at h
      | some j =>
        simp only [hb, Option.map_some, Option.some.injEq] at h
        subst h
        rw [List.set_cons_succ, bodyRules_cons_ns _ hr, bodyRules_cons_ns _ hr]
        exact ih hb
    | false =>
      simp only [hr, Bool.false_eq_true, if_false] at h
      cases k with
      | zero =>
        simp only [Option.some.injEq] at h
        subst h
        rw [List.set_cons_zero, bodyRules_cons_body _ hr', bodyRules_cons_body _ hr, List.set_cons_zero]
      | succ k =>
        simp only at h
        cases hb : bodyIndex t k with
        | none => simp [hb] at h
        | some j =>
          simp only [hb, Option.map_some, Option.some.injEq] at h
          subst h
          rw [List.set_cons_succ, bodyRules_cons_body _ hr, bodyRules_cons_body _ hr, List.set_cons_succ, ih hb]

/-- the index of a non-@namespace rule is the index of its rank -/
theorem bodyIndex_rank {s : Sheet} {i : Nat} {r : Rule} (h : s[i]? = some r) (hr : r.isNs = false) :
    bodyIndex s (bodyRank s i) = some i := by
  induction s generalizing i with
  | nil => simp at h
  | cons x t ih =>
    cases i with
    | zero =>
      simp only [List.getElem?_cons_zero, Option.some.injEq] at h
      subst h
      simp [bodyIndex, bodyRank, hr]
    | succ i =>
      simp only [List.getElem?_cons_succ] at h
      have := ih h
      cases hx : x.isNs with
      | true => simp [bodyIndex, bodyRank, hx] at this ⊢; simpa [bodyRank] using this
      | false => simp [bodyIndex, bodyRank, hx] at this ⊢; simpa [bodyRank] using this

/-- ranks with the same index are equal -/
theorem bodyIndex_inj {s : Sheet} {k k' i : Nat} (h : bodyIndex s k = some i) (h' : bodyIndex s k' = some i) :
    k = k' := by
  induction s generalizing k k' i with
  | nil => simp [bodyIndex] at h
  | cons r t ih =>
    unfold bodyIndex at h h'
    cases hr : r.isNs with
    | true =>
      simp only [hr, if_true] at h h'
      cases hb : bodyIndex t k with
      | none => simp [hb] at h
      | some j =>
        cases hb' : bodyIndex t k' with
        | none => simp [hb'] at h'
        | some j' =>
          simp only [hb, hb', Option.map_some, Option.some.injEq] at h h'
          have : j = j' := by omega
          subst this
          exact ih hb hb'
    | false =>
      simp only [hr, Bool.false_eq_true, if_false] at h h'
      cases k with
      | zero =>
        cases k' with
        | zero => rfl
        | succ k' =>
          simp only [Option.some.injEq] at h
          subst h
          simp only at h'
          cases hb' : bodyIndex t k' <;> simp [hb'] at h'
      | succ k =>
        cases k' with
        | zero =>
          simp only [Option.some.injEq] at h'
          subst h'
          simp only at h
          cases hb : bodyIndex t k <;> simp [hb] at h
        | succ k' =>
          simp only at h h'
          cases hb : bodyIndex t k with
          | none => simp [hb] at h
          | some j =>
            cases hb' : bodyIndex t k' with
            | none => simp [hb'] at h'
            | some j' =>
              simp only [hb, hb', Option.map_some, Option.some.injEq] at h h'
              have : j = j' := by omega
              subst this
              rw [ih hb hb']

/-- both rule lists show the selectors of the followed object at the recorded ranks -/
def Sync (w : World) : Prop :=
  ∀ o, w.obj = some o → ∀ side k, o.pos side = some k → (bodyRules (w.sheet side))[k]? = some (.style o.sels)

/-- … so the index the model computes for the object is a style rule with the object's selectors -/
theorem Sync.objIndex {w : World} (h : Sync w) {o : Obj} {side : Bool} {k : Nat} (ho : w.obj = some o)
    (hp : o.pos side = some k) : ∃ i, w.objIndex side = some i ∧ (w.sheet side)[i]? = some (.style o.sels) := by
  have hk := h o ho side k hp
  have hlt : k < (bodyRules (w.sheet side)).length := by
    apply Classical.byContradiction
    intro hge
    rw [List.getElem?_eq_none (by omega)] at hk
    cases hk
  obtain ⟨i, hi⟩ := bodyIndex_of_lt hlt
  refine ⟨i, by simp [World.objIndex, ho, hp, hi], ?_⟩
  rw [bodyIndex_get hi, hk]

end CssVerif.Ns

namespace CssVerif.Ns
open CssVerif.Proto

theorem getElem?_lt_of_some {α} {l : List α} {k : Nat} {a : α} (h : l[k]? = some a) : k < l.length := by
  apply Classical.byContradiction
  intro hge
  rw [List.getElem?_eq_none (by omega)] at h
  cases h

/-- after `setAtRank` the list shows the new rule at that rank -/
theorem bodyRules_setAtRank {s : Sheet} {k : Nat} {r r' : Rule} (h : (bodyRules s)[k]? = some r)
    (hr' : r'.isNs = false) : (bodyRules (setAtRank s (some k) r'))[k]? = some r' := by
  have hlt := getElem?_lt_of_some h
  obtain ⟨i, hi⟩ := bodyIndex_of_lt hlt
  simp only [setAtRank, hi]
  rw [bodyRules_set_at hi hr']
  simp [hlt]

theorem sync_objSetSel {w : World} {o : Obj} (sels : List SSel) (h : Sync w) (ho : w.obj = some o) :
    Sync (objSetSel w o sels).1 := by
  unfold objSetSel
  split
  · exact h
  · cases resolveSels (w.objDict o) sels with
    | error e => exact h
    | ok x =>
      simp only
      intro o' ho' side k hp
      simp only [Option.some.injEq] at ho'
      subst ho'
      cases side with
      | false =>
        have hp' : o.posA = some k := hp
        show (bodyRules (setAtRank w.a o.posA (.style x)))[k]? = some (.style x)
        rw [hp']
        exact bodyRules_setAtRank (h o ho false k hp') rfl
      | true =>
        have hp' : o.posB = some k := hp
        show (bodyRules (setAtRank w.b o.posB (.style x)))[k]? = some (.style x)
        rw [hp']
        exact bodyRules_setAtRank (h o ho true k hp') rfl

/-- a change of one sheet that leaves its non-@namespace rules alone, with the object untouched, keeps `Sync` -/
theorem sync_of_body_eq {w : World} (side : Bool) (s' : Sheet) (h : Sync w)
    (hb : bodyRules s' = bodyRules (w.sheet side)) : Sync (w.setSheet side s') := by
  intro o ho sd k hp
  rw [World.setSheet_obj] at ho
  rcases eq_or_not sd side with e | e
  · subst e; rw [World.sheet_setSheet_same, hb]; exact h o ho sd k hp
  · subst e; rw [World.sheet_setSheet_other]; exact h o ho _ k hp

/-- the parent of the object does not matter for `Sync` -/
theorem sync_with_owner {w : World} {o : Obj} (x : Option Bool) (h : Sync w) (ho : w.obj = some o) :
    Sync { w with obj := some { o with owner := x } } := by
  intro o' ho' sd k hp
  simp only [Option.some.injEq] at ho'
  subst ho'
  rw [World.sheet_with_obj]
  rw [Obj.pos_with_owner] at hp
  exact h o ho sd k hp

/-- a non-@namespace rule of one list that is not the followed object is replaced by another one (`selectorText =`,
insertion into an @media rule) -/
theorem sync_set_other {w : World} {side : Bool} {i : Nat} {r r' : Rule} (h : Sync w)
    (hi : (w.sheet side)[i]? = some r) (hr : r.isNs = false) (hr' : r'.isNs = false)
    (hne : w.objIndex side ≠ some i) :
    Sync (w.setSheet side ((w.sheet side).set i r')) := by
  intro o ho sd k hp
  rw [World.setSheet_obj] at ho
  rcases eq_or_not sd side with e | e
  · subst e
    rw [World.sheet_setSheet_same]
    have hrk := bodyIndex_rank hi hr
    rw [bodyRules_set_at hrk hr']
    have hk := h o ho sd k hp
    have hne' : bodyRank (w.sheet sd) i ≠ k := by
      intro e
      apply hne
      obtain ⟨j, hj⟩ := bodyIndex_of_lt (getElem?_lt_of_some hk)
      have : j = i := by rw [← e] at hj; rw [hrk] at hj; cases hj; rfl
      subst this
      simp [World.objIndex, ho, hp, hj]
    rw [List.getElem?_set_ne hne']
    exact hk
  · subst e; rw [World.sheet_setSheet_other]; exact h o ho _ k hp

/-- `grab`: the followed object is where its new selectors were put -/
theorem sync_grab {w : World} {side : Bool} {i : Nat} {y x : List Sel} {o : Obj} (hn : w.obj = none)
    (hi : (w.sheet side)[i]? = some (.style y)) (hx : o.sels = x) (ha : o.posA = none) (hb : o.posB = none) :
    Sync { (w.setSheet side ((w.sheet side).set i (.style x))) with
           obj := some (o.setPos side (some (bodyRank (w.sheet side) i))) } := by
  intro o' ho' sd k hp
  simp only [Option.some.injEq] at ho'
  subst ho'
  rw [World.sheet_with_obj]
  rcases eq_or_not sd side with e | e
  · subst e
    rw [Obj.pos_setPos_same] at hp
    simp only [Option.some.injEq] at hp
    subst hp
    rw [World.sheet_setSheet_same]
    have hr := bodyIndex_rank hi rfl
    rw [bodyRules_set_at hr rfl]
    have hlt : bodyRank (w.sheet sd) i < (bodyRules (w.sheet sd)).length := by
      have := bodyIndex_get hr
      rw [hi] at this
      exact getElem?_lt_of_some this.symm
    have hs : (o.setPos sd (some (bodyRank (w.sheet sd) i))).sels = x := by cases sd <;> exact hx
    simp [hlt, hs]
  · subst e
    rw [Obj.pos_setPos_other] at hp
    cases side <;> simp [Obj.pos, ha, hb] at hp

end CssVerif.Ns

namespace CssVerif.Ns

theorem sync_of_no_obj {w : World} (h : w.obj = none) : Sync w := by
  intro o ho
  rw [h] at ho
  cases ho

/-- a namespace operation of the one-sheet model inside the world: the list changes, the object at most its parent -/
theorem sync_ns_op {w : World} (side : Bool) (op : Op) (h : Sync w)
    (hb : bodyRules (step (w.sheet side) op).1 = bodyRules (w.sheet side)) :
    Sync (match w.obj with
      | some o =>
        if rolledBack (w.sheet side) op ∧ o.pos side ≠ none then
          ({ (w.setSheet side (step (w.sheet side) op).1) with obj := some { o with owner := some side } },
            (step (w.sheet side) op).2)
        else (w.setSheet side (step (w.sheet side) op).1, (step (w.sheet side) op).2)
      | none => (w.setSheet side (step (w.sheet side) op).1, (step (w.sheet side) op).2)).1 := by
  have h' := sync_of_body_eq side _ h hb
  cases ho : w.obj with
  | none => exact h'
  | some o =>
    simp only
    split
    · exact sync_with_owner (some side) h' (by rw [World.setSheet_obj]; exact ho)
    · exact h'

end CssVerif.Ns

namespace CssVerif.Ns
open CssVerif.Proto

/-- removing the rule at the index of rank `k` removes the `k`-th non-@namespace rule -/
theorem bodyRules_eraseIdx_at {s : Sheet} {k i : Nat} (h : bodyIndex s k = some i) :
    bodyRules (s.eraseIdx i) = (bodyRules s).eraseIdx k := by
  induction s generalizing k i with
  | nil => simp [bodyIndex] at h
  | cons r t ih =>
    unfold bodyIndex at h
    cases hr : r.isNs with
    | true =>
      simp only [hr, if_true] at h
      cases hb : bodyIndex t k with
      | none => simp [hb] at h
      | some j =>
        simp only [hb, Option.map_some, Option.some.injEq] at h
        subst h
        rw [List.eraseIdx_cons_succ, bodyRules_cons_ns _ hr, bodyRules_cons_ns _ hr]
        exact ih hb
    | false =>
      simp only [hr, Bool.false_eq_true, if_false] at h
      cases k with
      | zero =>
        simp only [Option.some.injEq] at h
        subst h
        rw [List.eraseIdx_cons_zero, bodyRules_cons_body _ hr, List.eraseIdx_cons_zero]
      | succ k =>
        simp only at h
        cases hb : bodyIndex t k with
        | none => simp [hb] at h
        | some j =>
          simp only [hb, Option.map_some, Option.some.injEq] at h
          subst h
          rw [List.eraseIdx_cons_succ, bodyRules_cons_body _ hr, bodyRules_cons_body _ hr, List.eraseIdx_cons_succ,
            ih hb]

/-- `deleteRule` of a non-@namespace rule that is not the followed object: the recorded rank shifts -/
theorem sync_del_other {w : World} {side : Bool} {i : Nat} {r : Rule} {o : Obj} (h : Sync w) (ho : w.obj = some o)
    (hi : (w.sheet side)[i]? = some r) (hr : r.isNs = false) (hne : w.objIndex side ≠ some i) :
    Sync { (w.setSheet side ((w.sheet side).eraseIdx i)) with
           obj := some (o.shiftDel side (bodyRank (w.sheet side) i)) } := by
  intro o' ho' sd k hp
  simp only [Option.some.injEq] at ho'
  subst ho'
  rw [World.sheet_with_obj]
  have hrk := bodyIndex_rank hi hr
  have hsels : ∀ (x : Obj) (p : Option Nat), (x.setPos side p).sels = x.sels := by
    intro x p; cases side <;> rfl
  rcases eq_or_not sd side with e | e
  · subst e
    rw [World.sheet_setSheet_same, bodyRules_eraseIdx_at hrk]
    unfold Obj.shiftDel at hp ⊢
    cases hq : o.pos sd with
    | none => simp [hq] at hp
    | some p =>
      have hk := h o ho sd p hq
      have hne' : bodyRank (w.sheet sd) i ≠ p := by
        intro e
        apply hne
        obtain ⟨j, hj⟩ := bodyIndex_of_lt (getElem?_lt_of_some hk)
        have : j = i := by rw [← e] at hj; rw [hrk] at hj; cases hj; rfl
        subst this
        simp [World.objIndex, ho, hq, hj]
      simp only [hq] at hp ⊢
      by_cases hlt : bodyRank (w.sheet sd) i < p
      · simp only [hlt, if_true, Obj.pos_setPos_same, Option.some.injEq] at hp
        subst hp
        simp only [hlt, if_true, hsels]
        rw [List.getElem?_eraseIdx]
        have : ¬ (p - 1 < bodyRank (w.sheet sd) i) := by omega
        simp only [this, if_false]
        have e2 : p - 1 + 1 = p := by omega
        rw [e2]; exact hk
      · simp only [hlt, if_false] at hp
        rw [hq] at hp
        simp only [Option.some.injEq] at hp
        subst hp
        simp only [hlt, if_false]
        rw [List.getElem?_eraseIdx]
        have : p < bodyRank (w.sheet sd) i := by omega
        simp only [this, if_true]
        exact hk
  · subst e
    rw [World.sheet_setSheet_other]
    have hpos : (o.shiftDel side (bodyRank (w.sheet side) i)).pos (!side) = o.pos (!side) := by
      unfold Obj.shiftDel
      cases o.pos side with
      | none => rfl
      | some p => simp only; split <;> simp
    have hs : (o.shiftDel side (bodyRank (w.sheet side) i)).sels = o.sels := by
      unfold Obj.shiftDel
      cases o.pos side with
      | none => rfl
      | some p => simp only; split <;> simp [hsels]
    rw [hpos] at hp
    rw [hs]
    exact h o ho _ k hp

end CssVerif.Ns

namespace CssVerif.Ns
open CssVerif.Proto

/-- `deleteRule` of the followed object through one list: it is gone from that list, detached, and stays where it
was in the other list -/
theorem sync_del_self {w : World} {side : Bool} {s' : Sheet} {o : Obj} (h : Sync w) (ho : w.obj = some o) :
    Sync { (w.setSheet side s') with obj := some { (o.setPos side none) with owner := none } } := by
  intro o' ho' sd k hp
  simp only [Option.some.injEq] at ho'
  subst ho'
  rw [World.sheet_with_obj]
  rw [Obj.pos_with_owner] at hp
  rcases eq_or_not sd side with e | e
  · subst e; simp at hp
  · subst e
    rw [Obj.pos_setPos_other] at hp
    rw [World.sheet_setSheet_other]
    have : ({ (o.setPos side none) with owner := none } : Obj).sels = o.sels := by cases side <;> rfl
    rw [this]
    exact h o ho _ k hp

theorem insertStyle_ok {s : Sheet} {x : Rule} {idx : Option Nat} {io : Bool} {j : Nat}
    (h : (insertStyle s x idx io).2 = .ok (some j)) : (insertStyle s x idx io).1 = insertAt s j x ∧ j ≤ s.length := by
  unfold insertStyle at h ⊢
  simp only at h ⊢
  split at h
  · simp at h
  · rename_i hle
    split at h
    · simp only [Outcome.ok.injEq, Option.some.injEq] at h
      subst h
      rename_i hio
      simp [hle, hio, insertAt]
    · rename_i hio
      split at h
      · simp at h
      · rename_i hh
        simp only [Outcome.ok.injEq, Option.some.injEq] at h
        subst h
        simp only [hle, hio, hh, if_false]
        exact ⟨by simp, by omega⟩

theorem bodyRules_eq_take_drop (s : Sheet) (j : Nat) :
    bodyRules s = bodyRules (s.take j) ++ bodyRules (s.drop j) := by
  rw [← bodyRules_append, List.take_append_drop]

theorem bodyRules_insertAt (s : Sheet) (j : Nat) (x : Rule) (hx : x.isNs = false) :
    bodyRules (insertAt s j x) = bodyRules (s.take j) ++ x :: bodyRules (s.drop j) := by
  rw [insertAt, bodyRules_append, bodyRules_cons_body _ hx]

theorem bodyRank_insertAt (s : Sheet) (j : Nat) (x : Rule) (hj : j ≤ s.length) :
    bodyRank (insertAt s j x) j = bodyRank s j := by
  unfold bodyRank insertAt
  rw [List.take_append_of_le_length (by simp [hj])]
  simp [List.take_take]

theorem bodyRank_eq (s : Sheet) (j : Nat) : bodyRank s j = (bodyRules (s.take j)).length := rfl

/-- a non-@namespace rule inserted into one list: the recorded rank of the object shifts -/
theorem sync_insert_other {w : World} {side : Bool} {j : Nat} {x : Rule} {o : Obj} (h : Sync w) (ho : w.obj = some o)
    (hx : x.isNs = false) (hj : j ≤ (w.sheet side).length) :
    Sync { (w.setSheet side (insertAt (w.sheet side) j x)) with
           obj := some (o.shiftIns side (bodyRank (insertAt (w.sheet side) j x) j)) } := by
  intro o' ho' sd k hp
  simp only [Option.some.injEq] at ho'
  subst ho'
  rw [World.sheet_with_obj]
  rw [bodyRank_insertAt _ _ _ hj] at hp ⊢
  have hsels : ∀ (y : Obj) (p : Option Nat), (y.setPos side p).sels = y.sels := by
    intro y p; cases side <;> rfl
  rcases eq_or_not sd side with e | e
  · subst e
    rw [World.sheet_setSheet_same, bodyRules_insertAt _ _ _ hx]
    unfold Obj.shiftIns at hp ⊢
    cases hq : o.pos sd with
    | none => simp [hq] at hp
    | some p =>
      have hk := h o ho sd p hq
      rw [bodyRules_eq_take_drop (w.sheet sd) j] at hk
      simp only [hq] at hp ⊢
      rw [bodyRank_eq] at hp ⊢
      by_cases hle : (bodyRules ((w.sheet sd).take j)).length ≤ p
      · simp only [hle, if_true, Obj.pos_setPos_same, Option.some.injEq] at hp
        subst hp
        simp only [hle, if_true, hsels]
        rw [List.getElem?_append_right (by omega)]
        rw [List.getElem?_append_right hle] at hk
        have e2 : p + 1 - (bodyRules ((w.sheet sd).take j)).length =
            (p - (bodyRules ((w.sheet sd).take j)).length) + 1 := by omega
        rw [e2, List.getElem?_cons_succ]
        exact hk
      · simp only [hle, if_false] at hp
        rw [hq] at hp
        simp only [Option.some.injEq] at hp
        subst hp
        simp only [hle, if_false]
        rw [List.getElem?_append_left (by omega)]
        rw [List.getElem?_append_left (by omega)] at hk
        exact hk
  · subst e
    rw [World.sheet_setSheet_other]
    have hpos : (o.shiftIns side (bodyRank (w.sheet side) j)).pos (!side) = o.pos (!side) := by
      unfold Obj.shiftIns
      cases o.pos side with
      | none => rfl
      | some p => simp only; split <;> simp
    have hs : (o.shiftIns side (bodyRank (w.sheet side) j)).sels = o.sels := by
      unfold Obj.shiftIns
      cases o.pos side with
      | none => rfl
      | some p => simp only; split <;> simp [hsels]
    rw [hpos] at hp
    rw [hs]
    exact h o ho _ k hp

/-- the followed object inserted into a list that did not have it -/
theorem sync_share {w : World} {to : Bool} {j : Nat} {o : Obj} (h : Sync w) (ho : w.obj = some o)
    (hj : j ≤ (w.sheet to).length) :
    Sync { (w.setSheet to (insertAt (w.sheet to) j (.style o.sels))) with
           obj := some { (o.setPos to (some (bodyRank (insertAt (w.sheet to) j (.style o.sels)) j))) with
                         owner := some to } } := by
  intro o' ho' sd k hp
  simp only [Option.some.injEq] at ho'
  subst ho'
  rw [World.sheet_with_obj]
  rw [Obj.pos_with_owner] at hp
  have hsels : ({ (o.setPos to (some (bodyRank (insertAt (w.sheet to) j (.style o.sels)) j))) with
      owner := some to } : Obj).sels = o.sels := by cases to <;> rfl
  rw [hsels]
  rcases eq_or_not sd to with e | e
  · subst e
    rw [Obj.pos_setPos_same] at hp
    simp only [Option.some.injEq] at hp
    subst hp
    rw [World.sheet_setSheet_same, bodyRank_insertAt _ _ _ hj, bodyRules_insertAt _ _ _ rfl, bodyRank_eq]
    simp
  · subst e
    rw [Obj.pos_setPos_other] at hp
    rw [World.sheet_setSheet_other]
    exact h o ho _ k hp

/-- an accepted `deleteRule(i)` removed the rule at `i` -/
theorem deleteRule_ok {s s' : Sheet} {i : Nat} (h : deleteRule s i = .ok s') :
    ∃ x, s[i]? = some x ∧ s' = s.eraseIdx i := by
  unfold deleteRule at h
  cases hi : s[i]? with
  | none => simp [hi] at h
  | some x =>
    simp only [hi] at h
    refine ⟨x, rfl, ?_⟩
    cases x with
    | ns n =>
      simp only at h
      split at h
      · cases h
      · cases h; rfl
    | style y => cases h; rfl
    | media y => cases h; rfl
    | other y => cases h; rfl

/-- the followed object's index is a style rule, so an @media rule is never it -/
theorem objIndex_ne_of_media {w : World} (h : Sync w) {side : Bool} {i : Nat} {rs : List (List Sel)}
    (hi : (w.sheet side)[i]? = some (.media rs)) : w.objIndex side ≠ some i := by
  intro e
  cases ho : w.obj with
  | none => simp [World.objIndex, ho] at e
  | some o =>
    cases hp : o.pos side with
    | none => simp [World.objIndex, ho, hp] at e
    | some k =>
      obtain ⟨j, hj, hs⟩ := h.objIndex ho hp
      rw [hj] at e
      cases e
      rw [hi] at hs
      cases hs

end CssVerif.Ns
