import CssVerif.Lemmas.SheetSpec
/-!
# Lemmas for C02: statements, `@font-face`, `@media`
-/
namespace CssVerif.SheetSpec
open CssVerif.Proto (Cps)
open CssVerif.Struct CssVerif.AtRules
set_option linter.unusedSimpArgs false
set_option linter.unusedVariables false

/-! ## statements -/

/-- a complete statement as the sheet dispatcher / the `@media` block collect it: a start token, a quiet well
nested stretch, and the `;` or `}` that brings the nesting back to depth 0 -/
def StmtShape (t : Tok) (rest : List Tok) : Prop :=
  ∃ g e stk', rest = g ++ [e] ∧ t.typ ≠ .eof ∧
    Quiet .default (startStack t) g = true ∧ nest (startStack t) g = some stk' ∧
    push stk' e = some [] ∧ endTok .default e = true

theorem StmtShape.upto {t : Tok} {rest : List Tok} (h : StmtShape t rest) (x : List Tok) :
    upto .default (some t) (rest ++ x) = (t :: rest, x) := by
  obtain ⟨g, e, stk', rfl, _, hq, hn, hp, he⟩ := h
  have := upto_start_end .default [] stk' t g e x rfl (by simpa using hq) (by simpa using hn) hp he
  simpa using this

/-- `t pre { inner }` -/
theorem stmtShape_block (t : Tok) (pre inner : List Tok) (ht : Flat .default t) (hpre : QB .default pre)
    (hB : nest [] inner = some []) (hBe : noEof inner = true) :
    StmtShape t (pre ++ lbraceTok :: (inner ++ [rbraceTok])) := by
  obtain ⟨q, n⟩ := stmt_shape_block t pre inner (QB.cons ht hpre) hB hBe
  refine ⟨pre ++ lbraceTok :: inner, rbraceTok, [.brace], by simp, ht.1, q, n, rbrace_closes.1, rbrace_closes.2⟩

theorem semi_closes : push [] semiTok = some [] ∧ endTok .default semiTok = true := by
  constructor
  · simp [push, Tok.br, semiTok, charTok]
  · decide

/-- `t g ;` -/
theorem stmtShape_semi (t : Tok) (g : List Tok) (ht : Flat .default t) (hg : QB .default g) :
    StmtShape t (g ++ [semiTok]) := by
  have hq := QB.cons ht hg
  exact ⟨g, semiTok, [], rfl, ht.1, quiet_cons_start _ _ _ hq.1, nest_cons_start _ _ _ hq.2, semi_closes.1,
    semi_closes.2⟩

/-- the sheet dispatcher on a statement -/
theorem sheetLoop_shape (O : Oracle) (M : List Cps) (st : SheetSt) (t : Tok) (rest x : List Tok)
    (h : StmtShape t rest) (h1 : t.typ ≠ .s) (h2 : t.typ ≠ .cdo) (h3 : t.typ ≠ .cdc) (h4 : t.typ ≠ .comment) :
    sheetLoop O M st (t :: rest ++ x) = sheetLoop O M (stmtEffect O M st t (t :: rest)) x := by
  obtain ⟨g, e, stk', rfl, h5, hq, hn, hp, he⟩ := h
  have := sheetLoop_stmt O M st t g e stk' x h1 h2 h3 h4 h5 hq hn hp he
  simpa using this

theorem mediaStep_rest_le (O : Oracle) (ns : List (Cps × Cps)) (nested : List Tok → Option Rule)
    (acc : List Rule) (t : Tok) (rest : List Tok) :
    (mediaStep O ns nested acc t rest).2.length ≤ rest.length := by
  unfold mediaStep
  split <;> simp [upto_rest_le]

theorem mediaLoop_cons (O : Oracle) (ns : List (Cps × Cps)) (nested : List Tok → Option Rule)
    (acc : List Rule) (t : Tok) (ts : List Tok) :
    parseLoop (mediaStep O ns nested) acc (t :: ts) =
      parseLoop (mediaStep O ns nested) (mediaStep O ns nested acc t ts).1 (mediaStep O ns nested acc t ts).2 :=
  parseLoop_cons _ _ _ _ (mediaStep_rest_le O ns nested acc t ts)

/-- the `@media` block on a statement -/
theorem mediaLoop_shape (O : Oracle) (ns : List (Cps × Cps)) (nested : List Tok → Option Rule)
    (acc : List Rule) (t : Tok) (rest x : List Tok)
    (h : StmtShape t rest) (h1 : t.typ ≠ .s) (h4 : t.typ ≠ .comment) :
    parseLoop (mediaStep O ns nested) acc (t :: rest ++ x) =
      parseLoop (mediaStep O ns nested) (mediaStmtEffect O ns nested acc t (t :: rest)) x := by
  have hup := h.upto x
  obtain ⟨_, _, _, _, h5, _⟩ := h
  rw [List.cons_append, mediaLoop_cons]
  unfold mediaStep
  split <;> simp_all

theorem mediaLoop_ws (O : Oracle) (ns : List (Cps × Cps)) (nested : List Tok → Option Rule)
    (w : WGap) (x : List Tok) (acc : List Rule) :
    parseLoop (mediaStep O ns nested) acc (WGap.toks w ++ x) = parseLoop (mediaStep O ns nested) acc x := by
  induction w with
  | nil => rfl
  | cons a w ih =>
    rw [show WGap.toks (a :: w) ++ x = a.tok :: (WGap.toks w ++ x) from rfl, mediaLoop_cons]
    simpa [mediaStep, Ws.tok] using ih

theorem mediaLoop_comment (O : Oracle) (ns : List (Cps × Cps)) (nested : List Tok → Option Rule)
    (b : Cps) (x : List Tok) (acc : List Rule) :
    parseLoop (mediaStep O ns nested) acc (commentTok b :: x) =
      parseLoop (mediaStep O ns nested) (acc ++ [.comment (commentTok b)]) x := by
  rw [mediaLoop_cons]
  simp [mediaStep, commentTok, mediaInsert]

/-! ## at-keyword tokens -/

theorem normalize_at (v : Cps) (hv : v ≠ []) : normalize (0x40 :: v) = 0x40 :: normalize v := by
  cases v with
  | nil => exact absurd rfl hv
  | cons d rest => simp [normalize, lowerAscii]

theorem spell_ne_nil (n : Cps) (sp : Mask) (h : n ≠ []) : spell sp n ≠ [] := by
  cases n with
  | nil => exact absurd rfl h
  | cons c t =>
    cases sp with
    | nil => simp [spell, CssVerif.Normalize.spell]
    | cons ue m =>
      obtain ⟨up, esc⟩ := ue
      simp only [spell, CssVerif.Normalize.spell]
      split <;> split <;> simp

/-- the normalised value of a spelled at-keyword -/
theorem normalize_atVal (n : Cps) (sp : Mask) (h : NameOk n) :
    normalize (0x40 :: spell sp n) = 0x40 :: n := by
  have hne : n ≠ [] := by obtain ⟨c, cs, rfl, _⟩ := h.head; simp
  rw [normalize_at _ (spell_ne_nil n sp hne), normalize_spell n sp h]

theorem atVal_safe (v : Cps) : SafeVal (0x40 :: v) := ⟨0x40, v, rfl, by simp [delims]⟩

theorem atTok_flat (m : Mode) (typ : TT) (kw : Mask) (name : String) (h1 : typ ≠ .eof) (h2 : typ ≠ .function)
    (h3 : typ ≠ .string) : Flat m (atTok typ kw name) :=
  safe_flat m _ (atVal_safe _) h1 h2 h3

theorem atTok_startStack (typ : TT) (kw : Mask) (name : String) (h2 : typ ≠ .function) :
    startStack (atTok typ kw name) = [] :=
  safe_startStack _ (atVal_safe _) h2

theorem nameOk_cps (s : String) (h1 : ∀ c ∈ CssVerif.Proto.cps s, c ≠ 0x5C ∧ CssVerif.Normalize.lowerAscii c = c)
    (h2 : ∃ c cs, CssVerif.Proto.cps s = c :: cs ∧ c ∉ delims) : NameOk (CssVerif.Proto.cps s) := ⟨h1, h2⟩

theorem nameOk_media : NameOk (CssVerif.Proto.cps "media") := nameOk_cps _ (by decide) ⟨_, _, rfl, by decide⟩
theorem nameOk_page : NameOk (CssVerif.Proto.cps "page") := nameOk_cps _ (by decide) ⟨_, _, rfl, by decide⟩
theorem nameOk_fontface : NameOk (CssVerif.Proto.cps "font-face") :=
  nameOk_cps _ (by decide) ⟨_, _, rfl, by decide⟩

/-! ## `@font-face` -/

theorem bareStep_gap (t : Tok) (ht : isGapTok t = true) (s : BareSt) (rest : List Tok) (hs : s.expEOF = false) :
    bareStep s t rest = (s, rest) := by
  simp only [isGapTok, Bool.or_eq_true, beq_iff_eq] at ht
  rcases ht with h | h <;> simp [bareStep, h, hs]

theorem bareOk_gap (g : List Tok) (hg : ∀ t ∈ g, isGapTok t = true) : bareOk g = true := by
  unfold bareOk
  have : ∀ s : BareSt, s.expEOF = false → parseLoop bareStep s g = s := by
    induction g with
    | nil => intro s _; exact parseLoop_nil _ _
    | cons t ts ih =>
      intro s hs
      have e := bareStep_gap t (hg t (by simp)) s ts hs
      rw [parseLoop_cons _ _ _ _ (by rw [e]; simp), e]
      exact ih (fun x hx => hg x (by simp [hx])) s hs
  rw [this {} rfl]

/-- what a spelled `@font-face` rule must satisfy -/
structure FontFaceWF (O : Oracle) (blk : SBlock) : Prop where
  blkWF : blk.WF O

theorem fontFaceRule_render (O : Oracle) (kw : Mask) (g1 : Gap) (blk : SBlock) (h : blk.WF O) :
    fontFaceRule O (SRule.fontface kw g1 blk).toks = some (parseDecls O blk.toks) := by
  obtain ⟨b1, b2⟩ := SBlock.bal O blk h
  have hg := gapL_toks g1
  have e1 : upto .blockstart none (Gap.toks g1 ++ lbraceTok :: (blk.toks ++ [rbraceTok])) =
      (Gap.toks g1 ++ [lbraceTok], blk.toks ++ [rbraceTok]) :=
    upto_blockstart _ lbraceTok _ (hg.qb .default).2 hg.noBrace (hg.qb .default).noEof rfl
  have e2 : upto .blockend none (blk.toks ++ [rbraceTok]) = (blk.toks ++ [rbraceTok], []) :=
    upto_blockend_closed .blockend (Or.inl rfl) blk.toks rbraceTok [] b1 b2 rfl
  simp only [SRule.toks, fontFaceRule, atTok, e1, e2, sepEnd, List.dropLast_concat, List.getLast?_concat]
  simp [bareOk_gap _ hg.isGap, rbraceTok, lbraceTok, charTok, vRBrace, vLBrace]

/-! ## `@media` -/

/-- no STRING token -/
def noString (g : List Tok) : Bool := g.all (fun t => t.typ != .string)

theorem noString_append (a b : List Tok) : noString (a ++ b) = (noString a && noString b) := by
  simp [noString]

/-- with `brace` at -1 (`mediaqueryendonly`) a brace-free, STRING-free, EOF-free, well nested stretch never
stops the loop -/
theorem calm_mq (stk : List K) (g : List Tok) (hs : noBraceStk stk = true)
    (hb : noBrace g = true) (he : noEof g = true) (hst : noString g = true) (hn : ∃ s, nest stk g = some s) :
    calm .mq m1Cnt stk g = true := by
  induction g generalizing stk with
  | nil => simp [calm]
  | cons t ts ih =>
    obtain ⟨sfin, hn⟩ := hn
    unfold nest at hn
    unfold calm
    simp only [noBrace, List.all_cons, Bool.and_eq_true] at hb
    simp only [noEof, List.all_cons, Bool.and_eq_true] at he
    simp only [noString, List.all_cons, Bool.and_eq_true, bne_iff_ne, ne_eq] at hst
    split at hn
    · simp at hn
    · next s1 hs1 =>
      have hs1' := push_noBrace stk s1 t hs1 (by simpa using hb.1) hs
      have hbr := cntFrom_brace_of_noBraceStk m1Cnt s1 hs1'
      simp only [Bool.and_eq_true]
      refine ⟨⟨he.1, ?_⟩, ih s1 hs1' (by simpa [noBrace] using hb.2) (by simpa [noEof] using he.2)
        (by simpa [noString] using hst.2) ⟨sfin, hn⟩⟩
      have hbr' : (cntFrom m1Cnt s1).brace = -1 := by rw [hbr]; rfl
      simp only [stop, Cnt.isZero, hbr']
      simp [hst.1]

/-- `mediaqueryendonly`: a balanced stretch without braces and strings, then the `{` -/
theorem upto_mq (g : List Tok) (lb : Tok) (rest : List Tok)
    (hbal : nest [] g = some []) (hb : noBrace g = true) (he : noEof g = true) (hst : noString g = true)
    (hl : lb.val = vLBrace) :
    upto .mq none (g ++ lb :: rest) = (g ++ [lb], rest) := by
  unfold upto
  have hinit : Mode.mq.init none = cntFrom m1Cnt [] := rfl
  rw [hinit, uptoLoop_calm .mq m1Cnt [] [] g (lb :: rest) (calm_mq [] g rfl hb he hst ⟨[], hbal⟩) hbal]
  rw [uptoLoop_stop]
  right
  have : bump (cntFrom m1Cnt []) lb = ⟨0, 0, 0⟩ := by
    simp [bump, hl, cntFrom, m1Cnt]
  rw [this]
  simp [stop, Cnt.isZero, endTok, hl, Mode.ends, isInfixOf, Mode.endString]

theorem GapL.noString {g : List Tok} (h : GapL g) : noString g = true := by
  simp only [SheetSpec.noString, List.all_eq_true, bne_iff_ne, ne_eq]
  intro t ht hs
  have := (h t ht).1
  simp [isGapTok, hs] at this

/-- a media query list as the abstract sheet holds it -/
structure MqOk (mq : List Tok) : Prop where
  core : Core (strip mq)
  qd : QB .default mq
  nb : noBrace mq = true
  ns : noString mq = true

/-- the tokens between `@media` and `{` -/
def mediaHead (g1 : Gap) (mq : List Tok) (g2 : Gap) : List Tok := Gap.toks g1 ++ (mq ++ Gap.toks g2)

theorem mediaHead_facts (g1 : Gap) (mq : List Tok) (g2 : Gap) (h : MqOk mq) :
    QB .default (mediaHead g1 mq g2) ∧ noBrace (mediaHead g1 mq g2) = true ∧
      noString (mediaHead g1 mq g2) = true := by
  have h1 := gapL_toks g1
  have h2 := gapL_toks g2
  refine ⟨(h1.qb _).append (h.qd.append (h2.qb _)), ?_, ?_⟩
  · simp [mediaHead, noBrace_append, h1.noBrace, h2.noBrace, h.nb]
  · simp [mediaHead, noString_append, h1.noString, h2.noString, h.ns]

/-! ## the optional name of `@media` / `@import` -/

theorem unescQuote_cons_ne (q c : Nat) (l : Cps) (h : c ≠ 0x5C) : unescQuote q (c :: l) = c :: unescQuote q l := by
  cases l with
  | nil => simp [unescQuote]
  | cons d rest => simp [unescQuote, h]

def escQuote (q : Nat) (h : Cps) : Cps := h.flatMap (fun c => if c = q then [0x5C, c] else [c])

theorem unescQuote_esc (q : Nat) (hq : q ≠ 0x5C) (h : Cps) (hb : 0x5C ∉ h) :
    unescQuote q (escQuote q h ++ [q]) = h ++ [q] := by
  induction h with
  | nil => simp [escQuote, unescQuote]
  | cons c t ih =>
    have hc : c ≠ 0x5C := by intro hh; exact hb (by simp [hh])
    have ht : 0x5C ∉ t := by intro hh; exact hb (by simp [hh])
    by_cases hcq : c = q
    · subst hcq
      have : escQuote c (c :: t) ++ [c] = 0x5C :: c :: (escQuote c t ++ [c]) := by simp [escQuote]
      rw [this]
      simp only [unescQuote, true_and, ↓reduceIte]
      rw [ih ht]
      simp
    · have : escQuote q (c :: t) ++ [q] = c :: (escQuote q t ++ [q]) := by simp [escQuote, hcq]
      rw [this, unescQuote_cons_ne q c _ hc, ih ht]
      simp

theorem quoteStr_eq (q : Quote) (h : Cps) : quoteStr q h = q.cp :: (escQuote q.cp h ++ [q.cp]) := rfl

theorem quote_ne_bs (q : Quote) : q.cp ≠ 0x5C := by cases q <;> decide

/-- `_stringtokenvalue` gives back the text of a quoted string -/
theorem stringValue_quoteStr (q : Quote) (h : Cps) (hb : 0x5C ∉ h) : stringValue (quoteStr q h) = h := by
  rw [quoteStr_eq]
  simp only [stringValue]
  rw [unescQuote_cons_ne _ _ _ (quote_ne_bs q), unescQuote_esc _ (quote_ne_bs q) h hb]
  simp

/-- what the optional name must satisfy: no backslash in its text -/
def NameWF (name : SName) : Prop := ∀ p, name = some p → 0x5C ∉ p.2.1

theorem nameTok?_value (name : SName) (h : NameWF name) :
    (nameTok? name).map (fun t => stringValue t.val) = name.map (·.2.1) := by
  cases name with
  | none => rfl
  | some p =>
    obtain ⟨q, n, g⟩ := p
    simp [nameTok?, strTok, stringValue_quoteStr q n (h _ rfl)]



theorem safe_flat_noStr (m : Mode) (hm : m.endString = false) (t : Tok) (hv : SafeVal t.val) (h1 : t.typ ≠ .eof)
    (h2 : t.typ ≠ .function) : Flat m t := by
  refine ⟨h1, safe_br t hv h2, ?_⟩
  obtain ⟨c, cs, hv, hc⟩ := hv
  simp only [endTok, hm, Bool.false_and, Bool.or_false]
  cases h : isInfixOf t.val m.ends with
  | false => rfl
  | true =>
    rw [hv] at h
    exact absurd (ends_sub_delims m c (isInfixOf_head_mem c cs _ h)) hc

theorem strTok_safe (q : Quote) (n : Cps) : SafeVal (strTok q n).val :=
  ⟨q.cp, _, rfl, by cases q <;> simp [Quote.cp, delims]⟩

theorem strTok_flat (m : Mode) (hm : m.endString = false) (q : Quote) (n : Cps) : Flat m (strTok q n) :=
  safe_flat_noStr m hm _ (strTok_safe q n) (by simp [strTok]) (by simp [strTok])

theorem nameToks_qb (m : Mode) (hm : m.endString = false) (name : SName) : QB m (nameToks name) := by
  cases name with
  | none => exact QB.nil _
  | some p => obtain ⟨q, n, g⟩ := p; exact QB.cons (strTok_flat m hm q n) ((gapL_toks g).qb _)

theorem nameToks_noBrace (name : SName) : noBrace (nameToks name) = true := by
  cases name with
  | none => rfl
  | some p =>
    obtain ⟨q, n, g⟩ := p
    have : nameToks (some (q, n, g)) = [strTok q n] ++ Gap.toks g := rfl
    rw [this, noBrace_append, (gapL_toks g).noBrace]
    simp [noBrace, (strTok_flat .default rfl q n).2.1]

/-- `mediaqueryendonly`: a balanced stretch without braces and strings, then a STRING (the name of the rule) -/
theorem upto_mq_string (g : List Tok) (st : Tok) (rest : List Tok)
    (hbal : nest [] g = some []) (hb : noBrace g = true) (he : noEof g = true) (hst : noString g = true)
    (ht : st.typ = .string) (hv : SafeVal st.val) :
    upto .mq none (g ++ st :: rest) = (g ++ [st], rest) := by
  unfold upto
  have hinit : Mode.mq.init none = cntFrom m1Cnt [] := rfl
  rw [hinit, uptoLoop_calm .mq m1Cnt [] [] g (st :: rest) (calm_mq [] g rfl hb he hst ⟨[], hbal⟩) hbal]
  rw [uptoLoop_stop]
  right
  obtain ⟨c, cs, hv, hc⟩ := hv
  have hne : ∀ d : Nat, d ∈ delims → st.val ≠ [d] := by
    intro d hd h; rw [hv] at h; simp at h; exact hc (h.1 ▸ hd)
  have : bump (cntFrom m1Cnt []) st = ⟨-1, 0, 0⟩ := by
    simp [bump, cntFrom, m1Cnt, ht, hne 0x7B (by decide), hne 0x7D (by decide), hne 0x5B (by decide),
      hne 0x5D (by decide), hne 0x28 (by decide), hne 0x29 (by decide)]
  rw [this]
  simp [stop, ht]

/-- `CSSMediaRule.cssText = tokens` on `@media head { inner }`, whatever parses the nested `@media` rules -/
theorem mediaRule_eval (O : Oracle) (ns : List (Cps × Cps)) (fuel : Nat) (at_ : Tok) (head inner : List Tok)
    (hat : at_.typ = .mediaSym) (hq : QB .default head) (hnb : noBrace head = true)
    (hns : noString head = true) (hO : O.mediaOk head = true)
    (hB : nest [] inner = some []) (hBe : noEof inner = true) :
    mediaRule O ns (fuel + 1) (at_ :: (head ++ lbraceTok :: (inner ++ [rbraceTok]))) =
      some (.media (some (head, none))
        (parseLoop (mediaStep O ns (fun l => mediaRule O ns fuel l)) [] inner)) := by
  have e1 : upto .mq none (head ++ lbraceTok :: (inner ++ [rbraceTok])) = (head ++ [lbraceTok], inner ++ [rbraceTok]) :=
    upto_mq head lbraceTok _ hq.2 hnb hq.noEof hns rfl
  have e3 : upto .mediaend none (inner ++ [rbraceTok]) = (inner ++ [rbraceTok], []) :=
    upto_blockend_closed .mediaend (Or.inr rfl) inner rbraceTok [] hB hBe rfl
  simp only [mediaRule, hat, e1, sepEnd, List.dropLast_concat, List.getLast?_concat]
  have t1 : lbraceTok.typ ≠ TT.string := by decide
  have t2 : lbraceTok.val = vLBrace := rfl
  have t3 : rbraceTok.typ ≠ TT.eof := by decide
  have t4 : rbraceTok.val = vRBrace := rfl
  simp only [t1, t2, ↓reduceIte, hO, mediaBlock, e3, sepEnd, List.dropLast_concat, List.getLast?_concat, t3, t4]
  simp [t2]

theorem mediaNameOk_gap (g : List Tok) (hg : ∀ t ∈ g, isGapTok t = true) : mediaNameOk g = true := by
  simp only [mediaNameOk, List.all_eq_true]
  intro t ht
  have := hg t ht
  simp only [isGapTok, Bool.or_eq_true, beq_iff_eq] at this
  rcases this with h | h <;> simp [h]

/-- `CSSMediaRule.cssText = tokens` on `@media head "name" g3 { inner }` -/
theorem mediaRule_eval_named (O : Oracle) (ns : List (Cps × Cps)) (fuel : Nat) (at_ : Tok) (head inner : List Tok)
    (q : Quote) (n : Cps) (g3 : Gap)
    (hat : at_.typ = .mediaSym) (hq : QB .default head) (hnb : noBrace head = true)
    (hns : noString head = true) (hO : O.mediaOk head = true)
    (hB : nest [] inner = some []) (hBe : noEof inner = true) :
    mediaRule O ns (fuel + 1) (at_ :: (head ++ strTok q n :: (Gap.toks g3 ++ lbraceTok :: (inner ++ [rbraceTok])))) =
      some (.media (some (head, some (strTok q n)))
        (parseLoop (mediaStep O ns (fun l => mediaRule O ns fuel l)) [] inner)) := by
  have hg := gapL_toks g3
  have e1 : upto .mq none (head ++ strTok q n :: (Gap.toks g3 ++ lbraceTok :: (inner ++ [rbraceTok]))) =
      (head ++ [strTok q n], Gap.toks g3 ++ lbraceTok :: (inner ++ [rbraceTok])) :=
    upto_mq_string head _ _ hq.2 hnb hq.noEof hns rfl (strTok_safe q n)
  have e2 : upto .blockstart none (Gap.toks g3 ++ lbraceTok :: (inner ++ [rbraceTok])) =
      (Gap.toks g3 ++ [lbraceTok], inner ++ [rbraceTok]) :=
    upto_blockstart _ lbraceTok _ (hg.qb .default).2 hg.noBrace (hg.qb .default).noEof rfl
  have e3 : upto .mediaend none (inner ++ [rbraceTok]) = (inner ++ [rbraceTok], []) :=
    upto_blockend_closed .mediaend (Or.inr rfl) inner rbraceTok [] hB hBe rfl
  have s1 : (strTok q n).typ = TT.string := rfl
  have t2 : lbraceTok.val = vLBrace := rfl
  have t3 : rbraceTok.typ ≠ TT.eof := by decide
  have t4 : rbraceTok.val = vRBrace := rfl
  simp only [mediaRule, hat, e1, sepEnd, List.dropLast_concat, List.getLast?_concat, s1, e2, ↓reduceIte, hO,
    mediaNameOk_gap _ hg.isGap, mediaBlock, e3, t3, t4, t2]
  simp [t2]

/-- the two forms in one: `@media head [name] { inner }` -/
theorem mediaRule_eval' (O : Oracle) (ns : List (Cps × Cps)) (fuel : Nat) (at_ : Tok) (head inner : List Tok)
    (name : SName)
    (hat : at_.typ = .mediaSym) (hq : QB .default head) (hnb : noBrace head = true)
    (hns : noString head = true) (hO : O.mediaOk head = true)
    (hB : nest [] inner = some []) (hBe : noEof inner = true) :
    mediaRule O ns (fuel + 1) (at_ :: ((head ++ nameToks name) ++ lbraceTok :: (inner ++ [rbraceTok]))) =
      some (.media (some (head, nameTok? name))
        (parseLoop (mediaStep O ns (fun l => mediaRule O ns fuel l)) [] inner)) := by
  cases name with
  | none => simpa [nameToks, nameTok?] using mediaRule_eval O ns fuel at_ head inner hat hq hnb hns hO hB hBe
  | some p =>
    obtain ⟨q, n, g3⟩ := p
    simpa [nameToks, nameTok?] using mediaRule_eval_named O ns fuel at_ head inner q n g3 hat hq hnb hns hO hB hBe

theorem bal_cons_flat {t : Tok} {g : List Tok} (ht : t.br = .no) (hg : nest [] g = some []) :
    nest [] (t :: g) = some [] := by
  have : nest [] ([t] ++ g) = some [] := bal_append (nest_flat [] [t] (by simpa using ht)) hg
  simpa using this

theorem bal_braces {inner : List Tok} (h : nest [] inner = some []) :
    nest [] (lbraceTok :: (inner ++ [rbraceTok])) = some [] := by
  have hp : push [] lbraceTok = some [.brace] := by simp [push, Tok.br, lbraceTok, charTok]
  have h1 : nest [.brace] inner = some [.brace] := nest_lift [] [] [.brace] inner h
  unfold nest
  simp only [hp]
  rw [nest_append, h1]
  simp [nest, rbrace_closes.1]

theorem noEof_braces {inner : List Tok} (h : noEof inner = true) :
    noEof (lbraceTok :: (inner ++ [rbraceTok])) = true := by
  have : lbraceTok :: (inner ++ [rbraceTok]) = [lbraceTok] ++ (inner ++ [rbraceTok]) := rfl
  rw [this, noEof_append, noEof_append, h]
  decide

/-- `t pre { inner }` is balanced and has no EOF -/
theorem bal_blockStmt (t : Tok) (pre inner : List Tok) (ht : Flat .default t) (hpre : QB .default pre)
    (hB : nest [] inner = some []) (hBe : noEof inner = true) :
    nest [] (t :: (pre ++ lbraceTok :: (inner ++ [rbraceTok]))) = some [] ∧
      noEof (t :: (pre ++ lbraceTok :: (inner ++ [rbraceTok]))) = true := by
  constructor
  · exact bal_cons_flat ht.2.1 (bal_append hpre.2 (bal_braces hB))
  · have : t :: (pre ++ lbraceTok :: (inner ++ [rbraceTok])) = [t] ++ (pre ++ (lbraceTok :: (inner ++ [rbraceTok]))) := rfl
    rw [this, noEof_append, noEof_append, hpre.noEof, noEof_braces hBe]
    simp [noEof, ht.1]


end CssVerif.SheetSpec
