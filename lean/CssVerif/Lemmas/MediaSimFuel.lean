import CssVerif.Lemmas.MediaSimL
/-!
# The fuel of the engine model suffices on the media grammars

`engineQ` / `engineL` answer `unsupported` when a fuelled loop runs dry (`mainLoop`, `descend`, `seqLoop`). By the
simulation theorems they equal `parseQ` / `parseL`, which answer `unsupported` only for a token outside the modelled
domain: an EOF token or a colour function in value position. So on the domain the fuel is never exhausted.
-/
set_option linter.unusedSimpArgs false
namespace CssVerif.MediaSim
open CssVerif.Proto CssVerif.Media CssVerif.ProdEngine

/-- a token outside the modelled token domain: EOF, or a colour function `rgb(` … -/
def Outside (t : Tok) : Prop :=
  t.typ = .eof ∨ (t.typ = .function ∧ colorFunctions.contains (normalize t.val) = true)

theorem stepQ_unsupported (p : Bool) (st : QSt) (t : Tok) (hd : Dom t) (h : stepQ p st t = .unsupported) :
    Outside t := by
  unfold Dom at hd
  unfold stepQ at h
  cases hs : st.s <;> simp only [hs] at h <;> (repeat' split at h) <;>
    (try simp_all [charIs, Outside, cOpen, cClose, cColon, cComma])
  rename_i heq
  unfold valueKind at heq
  (repeat' split at heq) <;> simp_all [Outside]

theorem listStep_unsupported (st : LSt) (t : Tok) (hd : Dom t) (h : listStep st t = .unsupported) : Outside t := by
  unfold listStep at h
  cases hp : st.phase <;> simp only [hp] at h <;> (repeat' split at h) <;> (try cases h)
  all_goals first
    | (rename_i hq; exact stepQ_unsupported true {} t hd hq)
    | (unfold Dom at hd; simp_all [charIs, cComma])

theorem parseL_unsupported (strict ft : Bool) : ∀ (ts : List Tok) (st : LSt), (∀ t ∈ ts, Dom t) →
    parseL strict ft st ts = .unsupported → ∃ t ∈ ts, Outside t := by
  intro ts
  induction ts with
  | nil =>
    intro st _ h
    simp only [parseL] at h
    (repeat' split at h) <;> cases h
  | cons t ts ih =>
    intro st hd h
    have hdt := hd t (List.mem_cons_self ..)
    have hd' : ∀ x ∈ ts, Dom x := fun x hx => hd x (List.mem_cons_of_mem _ hx)
    have lift : (∃ x ∈ ts, Outside x) → ∃ x ∈ t :: ts, Outside x := by
      rintro ⟨x, hx, ho⟩; exact ⟨x, List.mem_cons_of_mem _ hx, ho⟩
    have here : Outside t → ∃ x ∈ t :: ts, Outside x := fun ho => ⟨t, List.mem_cons_self .., ho⟩
    cases hc : st.cur with
    | some q =>
      rcases special_cases t with hcm | hsp | hi | he | hsig
      · simp only [parseL, hc, hcm] at h; exact lift (ih _ hd' h)
      · simp only [parseL, hc, hsp] at h; exact lift (ih _ hd' h)
      · simp [parseL, hc, hi] at h
      · exact here (.inl he)
      · rw [parseL_cons_cur_sig strict ft st q t ts hc hsig] at h
        cases hst : stepQ true q t with
        | cont q' => rw [hst] at h; exact lift (ih _ hd' h)
        | unsupported => exact here (stepQ_unsupported true q t hdt hst)
        | noMatch =>
          rw [hst] at h
          simp only [] at h
          split at h
          · cases hl : listStep (st.closeQuery q) t with
            | ok st' => rw [hl] at h; exact lift (ih _ hd' h)
            | bad => rw [hl] at h; cases h
            | unsupported => exact here (listStep_unsupported _ t hdt hl)
          · cases h
        | missing =>
          rw [hst] at h
          simp only [] at h
          split at h
          · split at h
            · cases hl : listStep (st.closeQuery q) t with
              | ok st' => rw [hl] at h; exact lift (ih _ hd' h)
              | bad => rw [hl] at h; cases h
              | unsupported => exact here (listStep_unsupported _ t hdt hl)
            · exact lift (ih _ hd' h)
          · cases h
    | none =>
      rcases special_cases t with hcm | hsp | hi | he | hsig
      · simp only [parseL, hc, hcm] at h; exact lift (ih _ hd' h)
      · simp only [parseL, hc, hsp] at h; exact lift (ih _ hd' h)
      · simp [parseL, hc, hi] at h
      · exact here (.inl he)
      · rw [parseL_cons_none_sig strict ft st t ts hc hsig] at h
        cases hl : listStep st t with
        | ok st' => rw [hl] at h; exact lift (ih _ hd' h)
        | bad => rw [hl] at h; cases h
        | unsupported => exact here (listStep_unsupported _ t hdt hl)

/-- **the fuel suffices**: on the media grammars the engine model answers `unsupported` only for an input with a
token outside the modelled domain (EOF, colour function) — never because a fuelled loop ran dry -/
theorem engineL_fuel_suffices (ft : Bool) (toks : List Tok) (hd : ∀ t ∈ toks, Dom t)
    (h : engineL Gen.C17Grammar.mediaList Gen.C17Grammar.mediaQueryPartof ft toks = .unsupported) :
    ∃ t ∈ toks, Outside t := by
  rw [engineL_eq_parseL ft toks hd] at h
  exact parseL_unsupported true ft toks {} hd h


theorem parseQ_unsupported : ∀ (ts : List Tok) (st : QSt), (∀ t ∈ ts, Dom t) →
    parseQ st ts = .unsupported → ∃ t ∈ ts, Outside t := by
  intro ts
  induction ts with
  | nil => intro st _ h; simp only [parseQ] at h; split at h <;> cases h
  | cons t ts ih =>
    intro st hd h
    have hdt := hd t (List.mem_cons_self ..)
    have hd' : ∀ x ∈ ts, Dom x := fun x hx => hd x (List.mem_cons_of_mem _ hx)
    have lift : (∃ x ∈ ts, Outside x) → ∃ x ∈ t :: ts, Outside x := by
      rintro ⟨x, hx, ho⟩; exact ⟨x, List.mem_cons_of_mem _ hx, ho⟩
    rcases special_cases t with hcm | hsp | hi | he | hsig
    · simp only [parseQ, hcm] at h; exact lift (ih _ hd' h)
    · simp only [parseQ, hsp] at h; exact lift (ih _ hd' h)
    · simp [parseQ, hi] at h
    · exact ⟨t, List.mem_cons_self .., .inl he⟩
    · rw [parseQ_cons_sig st t ts hsig] at h
      cases hst : stepQ false st t with
      | cont q' => rw [hst] at h; exact lift (ih _ hd' h)
      | unsupported => exact ⟨t, List.mem_cons_self .., stepQ_unsupported false st t hdt hst⟩
      | noMatch => rw [hst] at h; cases h
      | missing => rw [hst] at h; cases h

theorem engineQ_fuel_suffices (toks : List Tok) (hd : ∀ t ∈ toks, Dom t)
    (h : engineQ Gen.C17Grammar.mediaQueryAlone toks = .unsupported) : ∃ t ∈ toks, Outside t := by
  rw [engineQ_eq_parseQ toks hd] at h
  exact parseQ_unsupported toks {} hd h

end CssVerif.MediaSim
