import CssVerif.Lemmas.Struct
/-!
# The dispatcher consults its sub-parsers only on lists of tokens drawn from its input

`Struct` takes the sub-parsers as an `Oracle` of pure functions. Two oracles that give the same answers on every
list all of whose tokens occur in the token list `ts` give the same `cssRules` for `ts`: whatever a sub-parser would
do on other lists (raise, loop, answer differently) cannot influence the parse.
-/
namespace CssVerif.StructLocal
open CssVerif CssVerif.Struct
open CssVerif.Proto (Cps)

def Sub (l ts : List Tok) : Prop := ∀ t ∈ l, t ∈ ts

/-- the two oracles give the same answers on every list all of whose tokens occur in `ts` -/
def AgreeOn (O₁ O₂ : Oracle) (ts : List Tok) : Prop :=
  ∀ l : List Tok, Sub l ts →
    O₁.valueOk l = O₂.valueOk l ∧ (∀ ns, O₁.selOk ns l = O₂.selOk ns l) ∧ O₁.mediaOk l = O₂.mediaOk l
    ∧ (∀ k b, O₁.atOk k b l = O₂.atOk k b l) ∧ O₁.nsInfo l = O₂.nsInfo l

theorem Sub.refl (l : List Tok) : Sub l l := fun _ h => h
theorem Sub.trans {a b c : List Tok} (h1 : Sub a b) (h2 : Sub b c) : Sub a c := fun t h => h2 t (h1 t h)
theorem Sub.tail {t : Tok} {l ts : List Tok} (h : Sub (t :: l) ts) : Sub l ts := fun x hx => h x (List.mem_cons_of_mem _ hx)
theorem Sub.head {t : Tok} {l ts : List Tok} (h : Sub (t :: l) ts) : t ∈ ts := h t List.mem_cons_self
theorem Sub.dropLast {l ts : List Tok} (h : Sub l ts) : Sub l.dropLast ts := fun x hx => h x (List.dropLast_subset _ hx)
theorem Sub.cons {t : Tok} {l ts : List Tok} (ht : t ∈ ts) (h : Sub l ts) : Sub (t :: l) ts := by
  intro x hx
  rcases List.mem_cons.mp hx with rfl | hx
  · exact ht
  · exact h x hx

theorem sub_uptoLoop (m : Mode) (c : Cnt) (l : List Tok) :
    Sub (uptoLoop m c l).1 l ∧ Sub (uptoLoop m c l).2 l := by
  have h := uptoLoop_append m c l
  constructor
  · intro t ht; rw [← h]; exact List.mem_append_left _ ht
  · intro t ht; rw [← h]; exact List.mem_append_right _ ht

theorem sub_upto_none (m : Mode) {l ts : List Tok} (h : Sub l ts) :
    Sub (upto m none l).1 ts ∧ Sub (upto m none l).2 ts := by
  simp only [upto]
  exact ⟨(sub_uptoLoop m _ l).1.trans h, (sub_uptoLoop m _ l).2.trans h⟩

theorem sub_upto_some (m : Mode) {st : Tok} {l ts : List Tok} (hst : st ∈ ts) (h : Sub l ts) :
    Sub (upto m (some st) l).1 ts ∧ Sub (upto m (some st) l).2 ts := by
  simp only [upto]
  exact ⟨Sub.cons hst ((sub_uptoLoop m _ l).1.trans h), (sub_uptoLoop m _ l).2.trans h⟩

theorem parseProperty_local (O₁ O₂ : Oracle) (ts l : List Tok) (h : AgreeOn O₁ O₂ ts) (hl : Sub l ts) :
    parseProperty O₁ l = parseProperty O₂ l := by
  unfold parseProperty
  simp only []
  split
  · rfl
  · split
    · rfl
    · rename_i _ colon _ _ vlast _
      have h1 := sub_upto_none .propname hl
      have h2 := sub_upto_none .propvalue h1.2
      have hv : Sub (if vlast.val = vBang then (upto Mode.propvalue none (upto Mode.propname none l).snd).fst.dropLast
          else (upto Mode.propvalue none (upto Mode.propname none l).snd).fst) ts := by
        split
        · exact h2.1.dropLast
        · exact h2.1
      rw [(h _ hv).1]

/-- the generic loop: two step functions that agree on every position inside `ts` -/
theorem parseLoop_congr_sub {σ : Type} (step₁ step₂ : σ → Tok → List Tok → σ × List Tok) (ts : List Tok)
    (h : ∀ s t rest, Sub (t :: rest) ts → step₁ s t rest = step₂ s t rest)
    (hs : ∀ s t rest, Sub (t :: rest) ts → Sub (step₂ s t rest).2 ts)
    (l : List Tok) (s : σ) (hl : Sub l ts) : parseLoop step₁ s l = parseLoop step₂ s l := by
  generalize hn : l.length = n
  induction n using Nat.strongRecOn generalizing l s with
  | _ n ih =>
    cases l with
    | nil => simp [parseLoop_nil]
    | cons t l =>
      simp only [List.length_cons] at hn
      rw [parseLoop_cons', parseLoop_cons', h s t l hl]
      split
      · next hle => exact ih _ (by omega) _ _ (hs s t l hl) rfl
      · rfl

theorem declStep_local (O₁ O₂ : Oracle) (ts : List Tok) (h : AgreeOn O₁ O₂ ts) (acc : List Item) (t : Tok)
    (rest : List Tok) (hl : Sub (t :: rest) ts) : declStep O₁ acc t rest = declStep O₂ acc t rest := by
  have hu := sub_upto_some .semicolon hl.head hl.tail
  unfold declStep
  split
  · -- IDENT: a property
    have hp : Sub (if ((upto Mode.semicolon (some t) rest).1.getLast?.map (·.val)) = some vSemi
        then (upto Mode.semicolon (some t) rest).1.dropLast else (upto Mode.semicolon (some t) rest).1) ts := by
      split
      · exact hu.1.dropLast
      · exact hu.1
    simp only []
    rw [parseProperty_local O₁ O₂ ts _ h hp]
  all_goals rfl

theorem declStep_sub (O : Oracle) (ts : List Tok) (acc : List Item) (t : Tok) (rest : List Tok)
    (hl : Sub (t :: rest) ts) : Sub (declStep O acc t rest).2 ts := by
  have hu := sub_upto_some .semicolon hl.head hl.tail
  have hd := sub_upto_some .default hl.head hl.tail
  unfold declStep
  simp only []
  repeat' split
  all_goals first | exact hl.tail | exact hu.2 | exact hd.2

theorem parseDecls_local (O₁ O₂ : Oracle) (ts l : List Tok) (h : AgreeOn O₁ O₂ ts) (hl : Sub l ts) :
    parseDecls O₁ l = parseDecls O₂ l := by
  unfold parseDecls declTrace
  rw [parseLoop_congr_sub (declStep O₁) (declStep O₂) ts (fun s t rest hh => declStep_local O₁ O₂ ts h s t rest hh)
    (fun s t rest hh => declStep_sub O₂ ts s t rest hh) l [] hl]

theorem styleRule_local (O₁ O₂ : Oracle) (ns : List (Cps × Cps)) (ts l : List Tok) (h : AgreeOn O₁ O₂ ts)
    (hl : Sub l ts) : styleRule O₁ ns l = styleRule O₂ ns l := by
  have h1 := sub_upto_none .blockstart hl
  have h2 := sub_upto_none .blockend h1.2
  unfold styleRule
  simp only []
  split
  · rfl
  · split
    · split
      · rfl
      · split
        · rfl
        · split
          · rfl
          · rename_i _ _ _ _ _ _ last _ _
            have hb : Sub (if last.typ = TT.eof then (upto Mode.blockend none (upto Mode.blockstart none l).snd).fst
                else (upto Mode.blockend none (upto Mode.blockstart none l).snd).fst.dropLast) ts := by
              split
              · exact h2.1
              · exact h2.1.dropLast
            rw [(h _ h1.1.dropLast).2.1 ns, parseDecls_local O₁ O₂ ts _ h hb]
    · rfl

theorem mediaStmtEffect_local (O₁ O₂ : Oracle) (ns : List (Cps × Cps)) (n₁ n₂ : List Tok → Option Rule)
    (ts : List Tok) (h : AgreeOn O₁ O₂ ts) (hn : ∀ l, Sub l ts → n₁ l = n₂ l) (acc : List Rule) (t : Tok)
    (stmt : List Tok) (hs : Sub stmt ts) :
    mediaStmtEffect O₁ ns n₁ acc t stmt = mediaStmtEffect O₂ ns n₂ acc t stmt := by
  unfold mediaStmtEffect
  rw [(h _ hs).2.2.2.1 .pageSym true, hn _ hs, styleRule_local O₁ O₂ ns ts stmt h hs]

theorem mediaStep_local (O₁ O₂ : Oracle) (ns : List (Cps × Cps)) (n₁ n₂ : List Tok → Option Rule)
    (ts : List Tok) (h : AgreeOn O₁ O₂ ts) (hn : ∀ l, Sub l ts → n₁ l = n₂ l) (acc : List Rule) (t : Tok)
    (rest : List Tok) (hl : Sub (t :: rest) ts) :
    mediaStep O₁ ns n₁ acc t rest = mediaStep O₂ ns n₂ acc t rest := by
  have hu := sub_upto_some .default hl.head hl.tail
  unfold mediaStep
  simp only []
  rw [mediaStmtEffect_local O₁ O₂ ns n₁ n₂ ts h hn acc t _ hu.1]

theorem mediaStep_sub (O : Oracle) (ns : List (Cps × Cps)) (n : List Tok → Option Rule) (ts : List Tok)
    (acc : List Rule) (t : Tok) (rest : List Tok) (hl : Sub (t :: rest) ts) :
    Sub (mediaStep O ns n acc t rest).2 ts := by
  have hu := sub_upto_some .default hl.head hl.tail
  unfold mediaStep
  simp only []
  repeat' split
  all_goals first | exact hl.tail | exact hu.2

theorem mediaBlock_local (O₁ O₂ : Oracle) (ns : List (Cps × Cps)) (n₁ n₂ : List Tok → Option Rule)
    (ts : List Tok) (h : AgreeOn O₁ O₂ ts) (hn : ∀ l, Sub l ts → n₁ l = n₂ l) (rest2 : List Tok)
    (hl : Sub rest2 ts) : mediaBlock O₁ ns n₁ rest2 = mediaBlock O₂ ns n₂ rest2 := by
  have h3 := sub_upto_none .mediaend hl
  unfold mediaBlock
  simp only []
  split
  · rfl
  · split
    · rfl
    · rename_i _ last _ _
      have hi : Sub (if last.typ = TT.eof then (upto Mode.mediaend none rest2).fst
          else (sepEnd (upto Mode.mediaend none rest2).fst).fst) ts := by
        split
        · exact h3.1
        · exact h3.1.dropLast
      exact parseLoop_congr_sub _ _ ts (fun s t rest hh => mediaStep_local O₁ O₂ ns n₁ n₂ ts h hn s t rest hh)
        (fun s t rest hh => mediaStep_sub O₂ ns n₂ ts s t rest hh) _ [] hi

theorem mediaRule_local (O₁ O₂ : Oracle) (ns : List (Cps × Cps)) (ts : List Tok) (h : AgreeOn O₁ O₂ ts)
    (fuel : Nat) (l : List Tok) (hl : Sub l ts) : mediaRule O₁ ns fuel l = mediaRule O₂ ns fuel l := by
  induction fuel generalizing l with
  | zero => rfl
  | succ n ih =>
    cases l with
    | nil => rfl
    | cons at_ rest0 =>
      have h1 := sub_upto_none .mq hl.tail
      have h2 := sub_upto_none .blockstart h1.2
      have key : ∀ (c : Prop) [Decidable c],
          mediaBlock O₁ ns (fun l => mediaRule O₁ ns n l)
            (if c then upto Mode.blockstart none (upto Mode.mq none rest0).2
              else ([], (upto Mode.mq none rest0).2)).2 =
          mediaBlock O₂ ns (fun l => mediaRule O₂ ns n l)
            (if c then upto Mode.blockstart none (upto Mode.mq none rest0).2
              else ([], (upto Mode.mq none rest0).2)).2 := by
        intro c _
        apply mediaBlock_local O₁ O₂ ns _ _ ts h (fun l hl' => ih l hl')
        split
        · exact h2.2
        · exact h1.2
      simp only [mediaRule, key, (h _ h1.1.dropLast).2.2.1, sepEnd]
      rfl

theorem stmtEffect_local (O₁ O₂ : Oracle) (M : List Cps) (ts : List Tok) (h : AgreeOn O₁ O₂ ts) (st : SheetSt)
    (t : Tok) (stmt : List Tok) (hs : Sub stmt ts) : stmtEffect O₁ M st t stmt = stmtEffect O₂ M st t stmt := by
  obtain ⟨_, _, _, hat, hns⟩ := h _ hs
  unfold stmtEffect
  simp only [hat, hns, mediaRule_local O₁ O₂ st.nsmap ts h _ stmt hs, styleRule_local O₁ O₂ st.nsmap ts stmt h hs]

theorem sheetStep_local (O₁ O₂ : Oracle) (M : List Cps) (ts : List Tok) (h : AgreeOn O₁ O₂ ts) (st : SheetSt)
    (t : Tok) (rest : List Tok) (hl : Sub (t :: rest) ts) : sheetStep O₁ M st t rest = sheetStep O₂ M st t rest := by
  have hu := sub_upto_some .default hl.head hl.tail
  unfold sheetStep
  simp only []
  rw [stmtEffect_local O₁ O₂ M ts h st t _ hu.1]

theorem sheetStep_sub (O : Oracle) (M : List Cps) (ts : List Tok) (st : SheetSt) (t : Tok) (rest : List Tok)
    (hl : Sub (t :: rest) ts) : Sub (sheetStep O M st t rest).2 ts := by
  have hu := sub_upto_some .default hl.head hl.tail
  unfold sheetStep
  simp only []
  repeat' split
  all_goals first | exact hl.tail | exact hu.2

theorem sheetLoop_local (O₁ O₂ : Oracle) (M : List Cps) (ts : List Tok) (h : AgreeOn O₁ O₂ ts) (st : SheetSt)
    (l : List Tok) (hl : Sub l ts) : sheetLoop O₁ M st l = sheetLoop O₂ M st l :=
  parseLoop_congr_sub _ _ ts (fun s t rest hh => sheetStep_local O₁ O₂ M ts h s t rest hh)
    (fun s t rest hh => sheetStep_sub O₂ M ts s t rest hh) l st hl

/-- **locality**: the dispatcher's result depends on the sub-parsers only through their answers on lists of tokens
drawn from the token list it parses -/
theorem parseSheet_local (O₁ O₂ : Oracle) (M : List Cps) (ts : List Tok) (h : AgreeOn O₁ O₂ ts) :
    parseSheet O₁ M ts = parseSheet O₂ M ts := by
  unfold parseSheet
  rw [sheetLoop_local O₁ O₂ M ts h {} ts (Sub.refl ts)]

end CssVerif.StructLocal
