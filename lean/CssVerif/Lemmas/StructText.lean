import CssVerif.Lemmas.Tok
import CssVerif.Model.StructText
import CssVerif.Lemmas.StructMedia
/-!
# Lemmas about K2 `Struct`, part 4: from text to the token list the sheet dispatcher sees

Composition with the tokenizer model of C05 (`Model/Tok.lean`, read-only): `sheetToks text doC` is what
`CSSParser.parseString` hands to `CSSStyleSheet._setCssText` — the yielded tokens of the full-sheet
tokenization, projected to (type, value).  From C05's `mainLoop_done` / `body_itemsOK_mem` (T5.1) the list
ends with exactly one EOF token and contains no other, which discharges the EOF hypotheses of T4.4 for every
text; from `tokenize_tile` (T5.2) a split of the token list is a split of the text.
-/
namespace CssVerif.Struct
open CssVerif.Proto (Cps)
set_option linter.unusedSimpArgs false

theorem ttOf_eof (s : String) (h : ttOf s = .eof) : s = "EOF" := by
  unfold ttOf at h
  split at h <;> first | rfl | simp at h

/-- the items before the end marker -/
def bodyItems (text : Cps) (doC : Bool) : List CssVerif.Tok.Item :=
  CssVerif.Tok.bomItems text ++ CssVerif.Tok.body text true doC

theorem items_eof (text : Cps) (doC : Bool) :
    ∃ line col, (CssVerif.Tok.tokenize text true doC).items =
        bodyItems text doC ++ [⟨"EOF", [], line, col, [], [], true⟩] ∧
      ∀ it ∈ bodyItems text doC, it.typ ≠ "EOF" := by
  obtain ⟨l, c, hd⟩ := CssVerif.Tok.mainLoop_done text true doC
  refine ⟨l, c, by simp [CssVerif.Tok.tokenize, hd, CssVerif.Tok.eofItems, bodyItems], ?_⟩
  intro it hit
  have hk : it.typ ∈ CssVerif.Tok.knownTypes := by
    rcases List.mem_append.mp hit with h | h
    · unfold CssVerif.Tok.bomItems at h
      split at h
      · simp only [List.mem_singleton] at h; subst h
        show CssVerif.Gen.C05.bomName ∈ CssVerif.Tok.knownTypes
        decide
      · simp at h
    · exact (CssVerif.Tok.body_itemsOK_mem text true doC it h).1
  intro he
  rw [he] at hk
  revert hk; decide

/-- **T4.5 (domain)**: for EVERY text the token list of `parseString` is a body without EOF token followed
by exactly one EOF token — the shape every truncation theorem assumes (`eof.typ = .eof`, `noEof …`). -/
theorem sheetToks_shape (text : Cps) (doC : Bool) :
    ∃ body eof, sheetToks text doC = body ++ [eof] ∧ eof.typ = .eof ∧ noEof body = true
      ∧ body = ((bodyItems text doC).filter (·.emit)).map ofItem := by
  obtain ⟨l, c, hi, hne⟩ := items_eof text doC
  refine ⟨((bodyItems text doC).filter (·.emit)).map ofItem, ⟨.eof, [], 0⟩, ?_, rfl, ?_, rfl⟩
  · simp [sheetToks, CssVerif.Tok.Res.tokens, hi, ofItem, ttOf]
  · simp only [noEof, List.all_eq_true, List.mem_map, List.mem_filter, bne_iff_ne, ne_eq]
    rintro t ⟨it, ⟨hit, _⟩, rfl⟩ he
    exact hne it hit (ttOf_eof _ he)

/-- **T4.5 (a split of the token list is a split of the text)**: the spans of the tokenizer's steps tile the
text (C05 T5.2), so the steps that produced a prefix of the token list consumed a prefix of the text. -/
theorem items_split_text (text : Cps) (doC : Bool) (a b : List CssVerif.Tok.Item)
    (h : (CssVerif.Tok.tokenize text true doC).items = a ++ b) :
    text = CssVerif.Tok.spans a ++ CssVerif.Tok.spans b := by
  have := CssVerif.Tok.tokenize_tile text true doC
  rw [h, CssVerif.Tok.spans_append] at this
  exact this.symm

/-- whatever stands before the last token of `parseString`'s token list has no EOF, and the last token is EOF -/
theorem sheetToks_open (text : Cps) (doC : Bool) (pre : List Tok) (e : Tok)
    (h : sheetToks text doC = pre ++ [e]) : e.typ = .eof ∧ noEof pre = true := by
  obtain ⟨body, eof, hb, he, hne, _⟩ := sheetToks_shape text doC
  rw [hb] at h
  have := List.append_inj' h (by simp)
  obtain ⟨h1, h2⟩ := this
  simp only [List.cons.injEq, and_true] at h2
  subst h1; subst h2
  exact ⟨he, hne⟩

end CssVerif.Struct
