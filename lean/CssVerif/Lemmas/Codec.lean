import CssVerif.Model.Codec
/-!
Helper lemmas for C07: the detector only distinguishes 11 byte classes and only looks at 4 bytes.
-/
namespace CssVerif.Codec

/-- the ten byte values the detector compares with -/
def consts : List Nat := [0xEF, 0xBB, 0xBF, 0xFF, 0xFE, 0, 0x40, 0x63, 0x68, 0x61]

/-- representative of a byte's class: itself if it is one of the ten constants, else `1` ("other") -/
def norm (b : Nat) : Nat := if consts.contains b then b else 1

/-- the eleven class representatives -/
def vals : List Nat := consts ++ [1]

def val (i : Fin 11) : Nat := vals[i]

theorem norm_beq (b K : Nat) (hK : consts.contains K = true) : (norm b == K) = (b == K) := by
  unfold norm
  split
  · rfl
  · rename_i h
    have h1 : (b == K) = false := by
      apply beq_eq_false_iff_ne.mpr
      intro e; subst e; exact h hK
    have h2 : ((1 : Nat) == K) = false := by
      apply beq_eq_false_iff_ne.mpr
      intro e; subst e; revert hK; decide
    rw [h1, h2]

theorem norm_bne (b K : Nat) (hK : consts.contains K = true) : (norm b != K) = (b != K) := by
  simp only [bne, norm_beq b K hK]

theorem norm_mem (b : Nat) : ∃ i : Fin 11, norm b = val i := by
  unfold norm
  split
  · rename_i h
    simp only [consts, List.contains_cons, List.contains_nil, Bool.or_false, Bool.or_eq_true, beq_iff_eq] at h
    rcases h with h | h | h | h | h | h | h | h | h | h
    · exact ⟨0, by subst h; rfl⟩
    · exact ⟨1, by subst h; rfl⟩
    · exact ⟨2, by subst h; rfl⟩
    · exact ⟨3, by subst h; rfl⟩
    · exact ⟨4, by subst h; rfl⟩
    · exact ⟨5, by subst h; rfl⟩
    · exact ⟨6, by subst h; rfl⟩
    · exact ⟨7, by subst h; rfl⟩
    · exact ⟨8, by subst h; rfl⟩
    · exact ⟨9, by subst h; rfl⟩
  · exact ⟨10, rfl⟩

theorem m0_norm (b c : Nat) : m0 (norm b) c = m0 b c := by
  simp (discharger := decide) only [m0, norm_bne]
theorem m1_norm (b c : Nat) : m1 (norm b) c = m1 b c := by
  simp (discharger := decide) only [m1, norm_bne]
theorem m2_norm (b c : Nat) : m2 (norm b) c = m2 b c := by
  simp (discharger := decide) only [m2, norm_bne]
theorem m3_norm (a b c : Nat) : m3 (norm a) (norm b) c = m3 a b c := by
  simp (discharger := decide) only [m3, norm_bne, norm_beq]

theorem mask_norm (l : List Nat) : mask (l.map norm) = mask l := by
  match l with
  | [] => rfl
  | [a] => simp only [List.map, mask, m0_norm]
  | [a, b] => simp only [List.map, mask, m0_norm, m1_norm]
  | [a, b, c] => simp only [List.map, mask, m0_norm, m1_norm, m2_norm]
  | a :: b :: c :: d :: t => simp only [List.map, mask, m0_norm, m1_norm, m2_norm, m3_norm]

theorem core_norm (l : List Nat) (f : Bool) : core (l.map norm) f = core l f := by
  unfold core
  simp only [mask_norm, List.length_map]

theorem mask_append4 (a b c d : Nat) (t : List Nat) : mask (a :: b :: c :: d :: t) = mask [a, b, c, d] := by
  simp only [mask]

/-! one-step stability on the class representatives: finite, checked by the kernel -/
theorem step1 : ∀ a b : Fin 11, ∀ f, core [val a] false ≠ .dflt → core [val a, val b] f = core [val a] false := by
  decide +kernel
theorem step2 : ∀ a b c : Fin 11, ∀ f, core [val a, val b] false ≠ .dflt →
    core [val a, val b, val c] f = core [val a, val b] false := by
  decide +kernel
theorem step3 : ∀ a b c d : Fin 11, ∀ f, core [val a, val b, val c] false ≠ .dflt →
    core [val a, val b, val c, val d] f = core [val a, val b, val c] false := by
  decide +kernel

theorem core_nil : core [] false = .dflt := by decide

/-- an answer given (before the end of the data) on fewer than four bytes survives one more byte -/
theorem core_step (p : List Nat) (x : Nat) (f : Bool) (hp : p.length ≤ 3) (h : core p false ≠ .dflt) :
    core (p ++ [x]) f = core p false := by
  rw [← core_norm (p ++ [x]), ← core_norm p] at *
  match p, hp with
  | [], _ => exact absurd core_nil h
  | [a], _ =>
    obtain ⟨i, hi⟩ := norm_mem a; obtain ⟨j, hj⟩ := norm_mem x
    simp only [List.map, List.cons_append, List.nil_append, hi, hj] at *
    exact step1 i j f h
  | [a, b], _ =>
    obtain ⟨i, hi⟩ := norm_mem a; obtain ⟨j, hj⟩ := norm_mem b; obtain ⟨k, hk⟩ := norm_mem x
    simp only [List.map, List.cons_append, List.nil_append, hi, hj, hk] at *
    exact step2 i j k f h
  | [a, b, c], _ =>
    obtain ⟨i, hi⟩ := norm_mem a; obtain ⟨j, hj⟩ := norm_mem b; obtain ⟨k, hk⟩ := norm_mem c
    obtain ⟨l, hl⟩ := norm_mem x
    simp only [List.map, List.cons_append, List.nil_append, hi, hj, hk, hl] at *
    exact step3 i j k l f h

/-- from four bytes on, neither what follows nor the `final` flag changes the ladder's decision -/
theorem core_ge4 (p ext : List Nat) (f g : Bool) (hp : 4 ≤ p.length) : core (p ++ ext) f = core p g := by
  match p, hp with
  | a :: b :: c :: d :: t, _ =>
    unfold core
    have h1 : mask (a :: b :: c :: d :: t ++ ext) = mask (a :: b :: c :: d :: t) := by
      simp only [List.cons_append, mask]
    have e1 : ∀ k, k ≤ 4 → decide ((a :: b :: c :: d :: t ++ ext).length ≥ k) = true := by
      intro k hk; simp only [List.cons_append, List.length_cons, decide_eq_true_eq]; omega
    have e2 : ∀ k, k ≤ 4 → decide ((a :: b :: c :: d :: t).length ≥ k) = true := by
      intro k hk; simp only [List.length_cons, decide_eq_true_eq]; omega
    have l1 : decide ((a :: b :: c :: d :: t ++ ext).length < 4) = false := by
      simp only [List.cons_append, List.length_cons, decide_eq_false_iff_not]; omega
    have l2 : decide ((a :: b :: c :: d :: t).length < 4) = false := by
      simp only [List.length_cons, decide_eq_false_iff_not]; omega
    simp only [h1, l1, l2, Bool.and_false, Bool.false_eq_true, if_false,
      e1 2 (by omega), e1 3 (by omega), e1 4 (by omega), e2 2 (by omega), e2 3 (by omega), e2 4 (by omega)]

/-- an answer of the ladder given before the end of the data is never revised by more input -/
theorem core_stable (ext p : List Nat) (f : Bool) (h : core p false ≠ .dflt) : core (p ++ ext) f = core p false := by
  induction ext generalizing p with
  | nil =>
    by_cases hp : p.length ≤ 3
    · -- only the `final` clear could differ: enumerate
      rw [List.append_nil, ← core_norm p f, ← core_norm p false] at *
      match p, hp with
      | [], _ => exact absurd core_nil h
      | [a], _ =>
        obtain ⟨i, hi⟩ := norm_mem a
        simp only [List.map, hi] at *
        exact (by decide +kernel : ∀ i : Fin 11, ∀ f, core [val i] false ≠ .dflt → core [val i] f = core [val i] false) i f h
      | [a, b], _ =>
        obtain ⟨i, hi⟩ := norm_mem a; obtain ⟨j, hj⟩ := norm_mem b
        simp only [List.map, hi, hj] at *
        exact (by decide +kernel : ∀ i j : Fin 11, ∀ f, core [val i, val j] false ≠ .dflt →
          core [val i, val j] f = core [val i, val j] false) i j f h
      | [a, b, c], _ =>
        obtain ⟨i, hi⟩ := norm_mem a; obtain ⟨j, hj⟩ := norm_mem b; obtain ⟨k, hk⟩ := norm_mem c
        simp only [List.map, hi, hj, hk] at *
        exact (by decide +kernel : ∀ i j k : Fin 11, ∀ f, core [val i, val j, val k] false ≠ .dflt →
          core [val i, val j, val k] f = core [val i, val j, val k] false) i j k f h
    · have := core_ge4 p [] f false (by omega)
      simpa using this
  | cons x t ih =>
    have e : p ++ x :: t = (p ++ [x]) ++ t := by simp
    by_cases hp : p.length ≤ 3
    · have s1 := core_step p x false hp h
      rw [e, ih (p ++ [x]) (by rw [s1]; exact h), s1]
    · exact core_ge4 p (x :: t) f false (by omega)

theorem findQuote_lt (l : List Nat) (k : Nat) (h : findQuote l = some k) : k < l.length := by
  induction l generalizing k with
  | nil => simp [findQuote] at h
  | cons c t ih =>
    simp only [findQuote] at h
    split at h
    · simp at h; subst h; simp
    · cases hq : findQuote t with
      | none => simp [hq] at h
      | some j => simp [hq] at h; subst h; have := ih j hq; simp; omega

theorem findQuote_append (l ext : List Nat) (k : Nat) (h : findQuote l = some k) :
    findQuote (l ++ ext) = some k := by
  induction l generalizing k with
  | nil => simp [findQuote] at h
  | cons c t ih =>
    simp only [findQuote, List.cons_append] at *
    split at h
    · rename_i hc; simp [hc]; simpa using h
    · rename_i hc
      cases hq : findQuote t with
      | none => simp [hq] at h
      | some j => simp [hq] at h; subst h; simp [hc, ih j hq]

/-- a complete `@charset "name"` header reads the same whatever follows -/
theorem charsetName_append (l ext n : List Nat) (h : charsetName l = some n) :
    charsetName (l ++ ext) = some n := by
  unfold charsetName at *
  split at h
  · rename_i hp
    have hlen : 10 ≤ l.length := by
      have := congrArg List.length hp
      simp [prefix10] at this; omega
    have t10 : (l ++ ext).take 10 = l.take 10 := by
      rw [List.take_append_of_le_length hlen]
    have d10 : (l ++ ext).drop 10 = l.drop 10 ++ ext := by
      rw [List.drop_append_of_le_length hlen]
    cases hq : findQuote (l.drop 10) with
    | none => simp [hq] at h
    | some k =>
      simp only [hq] at h
      have hk := findQuote_lt _ _ hq
      simp only [t10, hp, if_true, d10, findQuote_append _ ext k hq]
      rw [List.take_append_of_le_length (by omega)]
      exact h
  · simp at h

theorem detect_stable (p ext : List Nat) (b : Bool) (r : Enc × Bool)
    (h : detect p false = some r) : detect (p ++ ext) b = some r := by
  unfold detect at *
  cases hc : core p false with
  | dflt => simp [hc] at h
  | ans e x =>
    have := core_stable ext p b (by rw [hc]; simp)
    simp only [hc] at h
    simp only [this, hc]; exact h
  | scan =>
    have := core_stable ext p b (by rw [hc]; simp)
    simp only [hc] at h
    simp only [this, hc]
    cases hn : charsetName p with
    | none => simp [hn] at h
    | some n =>
      simp only [hn] at h
      simp only [charsetName_append p ext n hn]; exact h

theorem fix_stable (p ext enc r : List Nat) (b : Bool)
    (h : fixEncoding p enc false = some r) : fixEncoding (p ++ ext) enc b = some (r ++ ext) := by
  unfold fixEncoding at *
  by_cases hl : p.length > 10
  · have hl' : (p ++ ext).length > 10 := by simp; omega
    have hpre : prefix10.isPrefixOf (p ++ ext) = prefix10.isPrefixOf p := by
      have hlen : prefix10.length ≤ p.length := by simp [prefix10]; omega
      cases hp : prefix10.isPrefixOf p with
      | true =>
        rw [List.isPrefixOf_iff_prefix] at hp
        exact List.isPrefixOf_iff_prefix.mpr (hp.trans (List.prefix_append p ext))
      | false =>
        cases hq : prefix10.isPrefixOf (p ++ ext) with
        | false => rfl
        | true =>
          rw [List.isPrefixOf_iff_prefix] at hq
          have := List.prefix_of_prefix_length_le hq (List.prefix_append p ext) hlen
          rw [← List.isPrefixOf_iff_prefix] at this
          rw [this] at hp; cases hp
    rw [if_pos hl] at h
    rw [if_pos hl', hpre]
    by_cases hp : prefix10.isPrefixOf p = true
    · rw [if_pos hp] at h ⊢
      have d10 : (p ++ ext).drop 10 = p.drop 10 ++ ext := by
        rw [List.drop_append_of_le_length (by omega)]
      cases hq : findQuote (p.drop 10) with
      | none => simp [hq] at h
      | some k =>
        have hk := findQuote_lt _ _ hq
        simp only [hq, Option.some.injEq] at h
        simp only [d10, findQuote_append _ ext k hq]
        rw [List.drop_append_of_le_length (by omega), ← h]
        simp
    · rw [if_neg hp] at h ⊢
      simp only [Option.some.injEq] at h; subst h; rfl
  · rw [if_neg hl] at h
    have hnp : isPrefixOf10 p = false := by
      cases hx : isPrefixOf10 p with
      | false => rfl
      | true => simp [hx] at h
    simp only [hnp, Bool.not_false, Bool.true_or, if_true, Option.some.injEq] at h
    subst h
    have hnp' : isPrefixOf10 (p ++ ext) = false := by
      cases hx : isPrefixOf10 (p ++ ext) with
      | false => rfl
      | true =>
        unfold isPrefixOf10 at *
        rw [List.isPrefixOf_iff_prefix] at hx
        have := (List.prefix_append p ext).trans hx
        rw [← List.isPrefixOf_iff_prefix] at this
        rw [this] at hnp; cases hnp
    by_cases hl' : (p ++ ext).length > 10
    · rw [if_pos hl']
      have : ¬ (prefix10.isPrefixOf (p ++ ext) = true) := by
        intro hq
        rw [List.isPrefixOf_iff_prefix] at hq
        have hlen : p.length ≤ prefix10.length := by simp [prefix10]; omega
        have := List.prefix_of_prefix_length_le (List.prefix_append p ext) hq hlen
        unfold isPrefixOf10 at hnp
        rw [← List.isPrefixOf_iff_prefix] at this
        rw [this] at hnp; cases hnp
      rw [if_neg this]
    · rw [if_neg hl']
      simp [hnp']

theorem detectUnicode_stable (p ext : List Nat) (b : Bool) (r : Enc × Bool)
    (h : detectUnicode p false = some r) : detectUnicode (p ++ ext) b = some r := by
  unfold detectUnicode at *
  by_cases hp : prefix10.isPrefixOf p = true
  · have hp' : prefix10.isPrefixOf (p ++ ext) = true := by
      rw [List.isPrefixOf_iff_prefix] at *
      exact hp.trans (List.prefix_append p ext)
    have hlen : 10 ≤ p.length := by
      rw [List.isPrefixOf_iff_prefix] at hp
      have := hp.length_le; simp [prefix10] at this; omega
    simp only [hp, hp', if_true] at *
    have d10 : (p ++ ext).drop 10 = p.drop 10 ++ ext := by
      rw [List.drop_append_of_le_length hlen]
    cases hq : findQuote (p.drop 10) with
    | none => simp [hq] at h
    | some k =>
      have hk := findQuote_lt _ _ hq
      simp only [hq] at h
      simp only [d10, findQuote_append _ ext k hq]
      rw [List.take_append_of_le_length (by omega)]; exact h
  · simp only [hp, Bool.false_eq_true, if_false, Bool.false_or] at h
    have hnp : isPrefixOf10 p = false := by
      cases hx : isPrefixOf10 p with
      | false => rfl
      | true => simp [hx] at h
    simp only [hnp, Bool.not_false, if_true] at h
    have hp' : prefix10.isPrefixOf (p ++ ext) = false := by
      cases hq : prefix10.isPrefixOf (p ++ ext) with
      | false => rfl
      | true =>
        rw [List.isPrefixOf_iff_prefix] at hq
        by_cases hlen : prefix10.length ≤ p.length
        · have := List.prefix_of_prefix_length_le hq (List.prefix_append p ext) hlen
          rw [← List.isPrefixOf_iff_prefix] at this
          exact absurd this hp
        · have := List.prefix_of_prefix_length_le (List.prefix_append p ext) hq (by omega)
          unfold isPrefixOf10 at hnp
          rw [← List.isPrefixOf_iff_prefix] at this
          rw [this] at hnp; cases hnp
    have hnp' : isPrefixOf10 (p ++ ext) = false := by
      cases hx : isPrefixOf10 (p ++ ext) with
      | false => rfl
      | true =>
        unfold isPrefixOf10 at *
        rw [List.isPrefixOf_iff_prefix] at hx
        have := (List.prefix_append p ext).trans hx
        rw [← List.isPrefixOf_iff_prefix] at this
        rw [this] at hnp; cases hnp
    simp only [hp', Bool.false_eq_true, if_false, hnp', Bool.not_false, Bool.or_true, if_true]
    exact h

end CssVerif.Codec
