import CssVerif.Model.Sel
/-!
# T16.1 accounting: the specificity counters change only by appending an item, by the stated increments

For **every** state and **every** token (no assumption on the token list).
-/
namespace CssVerif.Sel
open CssVerif.Gen.C16 CssVerif.Proto

/-- effect of one `New.append`: nothing counted and nothing appended, or one item appended and counted by
`incB / incC / incD` in the current context -/
def R (st st' : St) : Prop :=
  st'.ctx = st.ctx ∧
  ((st'.b = st.b ∧ st'.c = st.c ∧ st'.d = st.d) ∨
   (∃ c r it, st.ctx = c :: r ∧ st'.rseq = it :: st.rseq ∧
      st'.b = st.b + incB c it.typ ∧ st'.c = st.c + incC c it.typ it.val ∧ st'.d = st.d + incD c it.typ it.val))

theorem pushItem_ctx (c : Cps) (st : St) (v : Val) (typ : Cps) : (pushItem c st v typ).ctx = st.ctx := rfl

theorem append_R (ns : NsMap) (st st' : St) (v : Val) (typ : Cps) (h : append ns st v typ = .ok st') : R st st' := by
  unfold append at h
  cases hc : st.ctx with
  | nil => simp [top, hc, bind, Except.bind] at h
  | cons c r =>
    simp only [top, hc, bind, Except.bind, pure, Except.pure] at h
    split at h
    · split at h
      · cases h; exact ⟨by simp [hc], Or.inl ⟨rfl, rfl, rfl⟩⟩
      · cases h
    · split at h
      · cases h; exact ⟨by simp [hc], Or.inl ⟨rfl, rfl, rfl⟩⟩            -- a COMMENT item: appended, nothing counted
      · cases hp : takePrefix st.pfx v typ with
        | error e => simp [hp] at h
        | ok pv =>
          simp only [hp] at h
          split at h
          · split at h
            · split at h
              · cases h
                exact ⟨by simp [hc, pushItem_ctx], Or.inr ⟨c, r, _, hc, rfl, rfl, rfl, rfl⟩⟩
              · cases h; exact ⟨by simp [hc], Or.inl ⟨rfl, rfl, rfl⟩⟩
            · cases h
              exact ⟨by simp [hc, pushItem_ctx], Or.inr ⟨c, r, _, hc, rfl, rfl, rfl, rfl⟩⟩
          · cases h
            exact ⟨by simp [hc, pushItem_ctx], Or.inr ⟨c, r, _, hc, rfl, rfl, rfl, rfl⟩⟩

/-- effect of one token: the counters are unchanged, or exactly one item `it` was appended and the counters grew
by exactly `(incB c it, incC c it, incD c it)`, where `c` is the context the item was appended in — the top of
the context stack before the token or (for `:not(`, which pushes first) after it -/
def RS (st st' : St) : Prop :=
  (st'.b = st.b ∧ st'.c = st.c ∧ st'.d = st.d) ∨
  (∃ c it, (st.ctx.head? = some c ∨ st'.ctx.head? = some c) ∧ st'.rseq = it :: st.rseq ∧
     st'.b = st.b + incB c it.typ ∧ st'.c = st.c + incC c it.typ it.val ∧ st'.d = st.d + incD c it.typ it.val)

theorem RS_of_R {st st0 st1 st' : St} (hR : R st0 st1)
    (h0 : st0.b = st.b ∧ st0.c = st.c ∧ st0.d = st.d ∧ st0.rseq = st.rseq)
    (hctx : st0.ctx.head? = st.ctx.head? ∨ st0.ctx.head? = st'.ctx.head?)
    (h1 : st'.b = st1.b ∧ st'.c = st1.c ∧ st'.d = st1.d ∧ st'.rseq = st1.rseq) : RS st st' := by
  obtain ⟨hb0, hc0, hd0, hr0⟩ := h0
  obtain ⟨hb1, hc1, hd1, hr1⟩ := h1
  obtain ⟨_, hR⟩ := hR
  rcases hR with ⟨hb, hc, hd⟩ | ⟨c, r, it, hcx, hr, hb, hc, hd⟩
  · exact Or.inl ⟨by omega, by omega, by omega⟩
  · refine Or.inr ⟨c, it, ?_, by rw [hr1, hr, hr0], by omega, by omega, by omega⟩
    rcases hctx with h | h
    · left; rw [← h, hcx]; rfl
    · right; rw [← h, hcx]; rfl

/-- the usual shape: `append` on the incoming state, then only `ctx` / `expected` change -/
theorem RS_simple {ns : NsMap} {st st1 st' : St} {v : Val} {typ : Cps} (ha : append ns st v typ = .ok st1)
    (h1 : st'.b = st1.b ∧ st'.c = st1.c ∧ st'.d = st1.d ∧ st'.rseq = st1.rseq) : RS st st' :=
  RS_of_R (append_R ns st st1 v typ ha) ⟨rfl, rfl, rfl, rfl⟩ (Or.inl rfl) h1

theorem cb_RS (ns : NsMap) (cb : Cb) (st st' : St) (t : Tok) (h : runCb cb ns st t = .ok st') : RS st st' := by
  cases cb
  case char =>
    simp only [runCb, cbChar, fail, bind, Except.bind, pure, Except.pure] at h
    repeat' split at h
    all_goals first
      | (cases h; exact Or.inl ⟨rfl, rfl, rfl⟩)
      | (exact Or.inl ⟨rfl, rfl, rfl⟩)
      | (cases h
         apply RS_simple
         · assumption
         · exact ⟨rfl, rfl, rfl, rfl⟩)
      | (apply RS_simple
         · assumption
         · exact ⟨rfl, rfl, rfl, rfl⟩)
      | (exact RS_simple h ⟨rfl, rfl, rfl, rfl⟩)
      | (cases h)
  case cls =>
    simp only [runCb, cbClass, fail, bind, Except.bind, pure, Except.pure] at h
    repeat' split at h
    all_goals first
      | (cases h; exact Or.inl ⟨rfl, rfl, rfl⟩)
      | (exact Or.inl ⟨rfl, rfl, rfl⟩)
      | (cases h
         apply RS_simple
         · assumption
         · exact ⟨rfl, rfl, rfl, rfl⟩)
      | (apply RS_simple
         · assumption
         · exact ⟨rfl, rfl, rfl, rfl⟩)
      | (exact RS_simple h ⟨rfl, rfl, rfl, rfl⟩)
      | (cases h)
  case hash =>
    simp only [runCb, cbHash, fail, bind, Except.bind, pure, Except.pure] at h
    repeat' split at h
    all_goals first
      | (cases h; exact Or.inl ⟨rfl, rfl, rfl⟩)
      | (exact Or.inl ⟨rfl, rfl, rfl⟩)
      | (cases h
         apply RS_simple
         · assumption
         · exact ⟨rfl, rfl, rfl, rfl⟩)
      | (apply RS_simple
         · assumption
         · exact ⟨rfl, rfl, rfl, rfl⟩)
      | (exact RS_simple h ⟨rfl, rfl, rfl, rfl⟩)
      | (cases h)
  case string =>
    simp only [runCb, cbString, fail, bind, Except.bind, pure, Except.pure] at h
    repeat' split at h
    all_goals first
      | (cases h; exact Or.inl ⟨rfl, rfl, rfl⟩)
      | (exact Or.inl ⟨rfl, rfl, rfl⟩)
      | (cases h
         apply RS_simple
         · assumption
         · exact ⟨rfl, rfl, rfl, rfl⟩)
      | (apply RS_simple
         · assumption
         · exact ⟨rfl, rfl, rfl, rfl⟩)
      | (exact RS_simple h ⟨rfl, rfl, rfl, rfl⟩)
      | (cases h)
  case ident =>
    simp only [runCb, cbIdent, fail, bind, Except.bind, pure, Except.pure] at h
    repeat' split at h
    all_goals first
      | (cases h; exact Or.inl ⟨rfl, rfl, rfl⟩)
      | (exact Or.inl ⟨rfl, rfl, rfl⟩)
      | (cases h
         apply RS_simple
         · assumption
         · exact ⟨rfl, rfl, rfl, rfl⟩)
      | (apply RS_simple
         · assumption
         · exact ⟨rfl, rfl, rfl, rfl⟩)
      | (exact RS_simple h ⟨rfl, rfl, rfl, rfl⟩)
      | (cases h)
  case nsPrefix =>
    simp only [runCb, cbNsPrefix, fail, bind, Except.bind, pure, Except.pure] at h
    repeat' split at h
    all_goals first
      | (cases h; exact Or.inl ⟨rfl, rfl, rfl⟩)
      | (exact Or.inl ⟨rfl, rfl, rfl⟩)
      | (cases h
         apply RS_simple
         · assumption
         · exact ⟨rfl, rfl, rfl, rfl⟩)
      | (apply RS_simple
         · assumption
         · exact ⟨rfl, rfl, rfl, rfl⟩)
      | (exact RS_simple h ⟨rfl, rfl, rfl, rfl⟩)
      | (cases h)
  case pseudo =>
    simp only [runCb, cbPseudo, fail, bind, Except.bind, pure, Except.pure] at h
    repeat' split at h
    all_goals first
      | (cases h; exact Or.inl ⟨rfl, rfl, rfl⟩)
      | (exact Or.inl ⟨rfl, rfl, rfl⟩)
      | (cases h
         apply RS_simple
         · assumption
         · exact ⟨rfl, rfl, rfl, rfl⟩)
      | (apply RS_simple
         · assumption
         · exact ⟨rfl, rfl, rfl, rfl⟩)
      | (exact RS_simple h ⟨rfl, rfl, rfl, rfl⟩)
      | (cases h)
  case universal =>
    simp only [runCb, cbUniversal, fail, bind, Except.bind, pure, Except.pure] at h
    repeat' split at h
    all_goals first
      | (cases h; exact Or.inl ⟨rfl, rfl, rfl⟩)
      | (exact Or.inl ⟨rfl, rfl, rfl⟩)
      | (cases h
         apply RS_simple
         · assumption
         · exact ⟨rfl, rfl, rfl, rfl⟩)
      | (apply RS_simple
         · assumption
         · exact ⟨rfl, rfl, rfl, rfl⟩)
      | (exact RS_simple h ⟨rfl, rfl, rfl, rfl⟩)
      | (cases h)
  case expression =>
    simp only [runCb, cbExpression, fail, bind, Except.bind, pure, Except.pure] at h
    repeat' split at h
    all_goals first
      | (cases h; exact Or.inl ⟨rfl, rfl, rfl⟩)
      | (exact Or.inl ⟨rfl, rfl, rfl⟩)
      | (cases h
         apply RS_simple
         · assumption
         · exact ⟨rfl, rfl, rfl, rfl⟩)
      | (apply RS_simple
         · assumption
         · exact ⟨rfl, rfl, rfl, rfl⟩)
      | (exact RS_simple h ⟨rfl, rfl, rfl, rfl⟩)
      | (cases h)
  case attcombinator =>
    simp only [runCb, cbAttcombinator, fail, bind, Except.bind, pure, Except.pure] at h
    repeat' split at h
    all_goals first
      | (cases h; exact Or.inl ⟨rfl, rfl, rfl⟩)
      | (exact Or.inl ⟨rfl, rfl, rfl⟩)
      | (cases h
         apply RS_simple
         · assumption
         · exact ⟨rfl, rfl, rfl, rfl⟩)
      | (apply RS_simple
         · assumption
         · exact ⟨rfl, rfl, rfl, rfl⟩)
      | (exact RS_simple h ⟨rfl, rfl, rfl, rfl⟩)
      | (cases h)
  case s =>
    simp only [runCb, cbS, fail, bind, Except.bind, pure, Except.pure] at h
    repeat' split at h
    all_goals first
      | (cases h; exact Or.inl ⟨rfl, rfl, rfl⟩)
      | (exact Or.inl ⟨rfl, rfl, rfl⟩)
      | (cases h
         apply RS_simple
         · assumption
         · exact ⟨rfl, rfl, rfl, rfl⟩)
      | (apply RS_simple
         · assumption
         · exact ⟨rfl, rfl, rfl, rfl⟩)
      | (exact RS_simple h ⟨rfl, rfl, rfl, rfl⟩)
      | (cases h)
  case negation =>
    simp only [runCb, cbNegation, fail, bind, Except.bind, pure, Except.pure] at h
    repeat' split at h
    all_goals first
      | (cases h; exact Or.inl ⟨rfl, rfl, rfl⟩)
      | (exact Or.inl ⟨rfl, rfl, rfl⟩)
      | (cases h
         rename_i st1 ha
         have hR := append_R _ _ _ _ _ ha
         exact RS_of_R hR ⟨rfl, rfl, rfl, rfl⟩ (Or.inr (by rw [hR.1])) ⟨rfl, rfl, rfl, rfl⟩)
      | (rename_i st1 ha
         have hR := append_R _ _ _ _ _ ha
         exact RS_of_R hR ⟨rfl, rfl, rfl, rfl⟩ (Or.inr (by rw [hR.1])) ⟨rfl, rfl, rfl, rfl⟩)
      | (cases h)
  case comment =>
    simp only [runCb, cbCOMMENT] at h
    exact RS_simple h ⟨rfl, rfl, rfl, rfl⟩
  case atkeyword =>
    simp only [runCb, cbAtkeyword, fail, pure, Except.pure] at h
    cases h; exact Or.inl ⟨rfl, rfl, rfl⟩

theorem step_RS (ns : NsMap) (st st' : St) (t : Tok) (h : step ns st t = .ok st') : RS st st' := by
  unfold step at h
  split at h
  · exact cb_RS ns _ st st' t h
  · split at h
    · cases h; exact Or.inl ⟨rfl, rfl, rfl⟩
    · simp only [fail, pure, Except.pure] at h
      cases h; exact Or.inl ⟨rfl, rfl, rfl⟩


theorem inc_sum_le_one (c typ : Cps) (v : Val) : incB c typ + incC c typ v + incD c typ v ≤ 1 := by
  unfold incB incC incD
  cases countsIn c <;> cases (typ == tyId) <;> cases (typ == tyClass || v.isStr [91]) <;> cases elemOf typ dTypes <;> simp

theorem RS.le {st st' : St} (h : RS st st') :
    st.b ≤ st'.b ∧ st.c ≤ st'.c ∧ st.d ≤ st'.d ∧ st'.b + st'.c + st'.d ≤ st.b + st.c + st.d + 1 := by
  rcases h with ⟨hb, hc, hd⟩ | ⟨c, it, _, _, hb, hc, hd⟩
  · omega
  · have := inc_sum_le_one c it.typ it.val
    omega

/-- over a whole token list: the counters never decrease and grow by at most one unit per token -/
theorem run_counts (ns : NsMap) (toks : List Tok) (st st' : St) (h : run ns st toks = .ok st') :
    st.b ≤ st'.b ∧ st.c ≤ st'.c ∧ st.d ≤ st'.d ∧ st'.b + st'.c + st'.d ≤ st.b + st.c + st.d + toks.length := by
  induction toks generalizing st with
  | nil => simp [run, pure, Except.pure] at h; subst h; simp
  | cons t ts ih =>
    simp only [run, bind, Except.bind] at h
    cases hs : step ns st t with
    | error e => simp [hs] at h
    | ok st1 =>
      simp only [hs] at h
      have h1 := (step_RS ns st st1 t hs).le
      have h2 := ih st1 h
      simp only [List.length_cons]
      omega

end CssVerif.Sel
