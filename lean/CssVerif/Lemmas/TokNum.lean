import CssVerif.Lemmas.TokLex2
/-!
# Numbers with sign and fraction: NUMBER class for `[+-]?(digits)?(.digits)?`

`consumesIn`: a pattern whose classes are positive and lie inside a set of ranges only consumes code points of that
set — so a number match cannot reach past the number into what follows.
-/
namespace CssVerif.Tok
open CssVerif CssVerif.Gen.C05

/-- all classes of the pattern are positive and lie inside `cs` -/
def consumesIn (cs : List (Nat × Nat)) : Re → Bool
  | .eps => true
  | .cls neg rs => !neg && rs.all fun p => cs.any fun q => q.1 ≤ p.1 && p.2 ≤ q.2
  | .seq a b => consumesIn cs a && consumesIn cs b
  | .alt a b => consumesIn cs a && consumesIn cs b
  | .star a _ => consumesIn cs a
  | .rep a _ _ _ => consumesIn cs a
  | .eol => true

def TakeIn (cs : List (Nat × Nat)) (f : Cps → List Nat) : Prop :=
  ∀ s l, l ∈ f s → ∀ x ∈ s.take l, inR cs x = true

theorem takeIn_add {cs : List (Nat × Nat)} {s : Cps} {l1 l2 : Nat} (h1 : ∀ x ∈ s.take l1, inR cs x = true)
    (h2 : ∀ x ∈ (s.drop l1).take l2, inR cs x = true) : ∀ x ∈ s.take (l1 + l2), inR cs x = true := by
  intro x hx
  rw [List.take_add] at hx
  rcases List.mem_append.mp hx with h | h
  · exact h1 x h
  · exact h2 x h

theorem takeIn_starMs {cs : List (Nat × Nat)} {f : Cps → List Nat} (hf : TakeIn cs f) (g : Bool) :
    ∀ fuel, TakeIn cs (Re.starMs f g fuel) := by
  intro fuel
  induction fuel with
  | zero => intro s l h; simp [Re.starMs] at h; subst h; simp
  | succ n ih =>
    intro s l h
    have key : ∀ l, l ∈ (((f s).filter (· > 0)).flatMap fun l1 =>
        (Re.starMs f g n (s.drop l1)).map (l1 + ·)) → ∀ x ∈ s.take l, inR cs x = true := by
      intro l hl
      simp only [List.mem_flatMap, List.mem_filter, List.mem_map] at hl
      rcases hl with ⟨l1, ⟨h1, _⟩, l2, h2, rfl⟩
      exact takeIn_add (hf s l1 h1) (ih (s.drop l1) l2 h2)
    simp only [Re.starMs] at h
    split at h
    · simp only [List.mem_append, List.mem_singleton] at h
      rcases h with h | rfl
      · exact key l h
      · simp
    · simp only [List.mem_cons] at h
      rcases h with rfl | h
      · simp
      · exact key l h

theorem takeIn_repMs {cs : List (Nat × Nat)} {f : Cps → List Nat} (hf : TakeIn cs f) (g : Bool) :
    ∀ n m, TakeIn cs (Re.repMs f g m n) := by
  intro n
  induction n with
  | zero => intro m s l h; simp only [Re.repMs] at h; split at h <;> simp at h; subst h; simp
  | succ n ih =>
    intro m s l h
    simp only [Re.repMs] at h
    have key : ∀ l, l ∈ ((f s).flatMap fun l1 => (Re.repMs f g (m - 1) n (s.drop l1)).map (l1 + ·)) →
        ∀ x ∈ s.take l, inR cs x = true := by
      intro l hl
      simp only [List.mem_flatMap, List.mem_map] at hl
      rcases hl with ⟨l1, h1, l2, h2, rfl⟩
      exact takeIn_add (hf s l1 h1) (ih (m - 1) (s.drop l1) l2 h2)
    split at h
    · split at h
      · simp only [List.mem_append, List.mem_singleton] at h
        rcases h with h | rfl
        · exact key l h
        · simp
      · simp only [List.mem_cons] at h
        rcases h with rfl | h
        · simp
        · exact key l h
    · exact key l h

/-- **a pattern consumes only code points of its classes** -/
theorem consumesIn_sound (cs : List (Nat × Nat)) : ∀ r : Re, consumesIn cs r = true → TakeIn cs r.ms := by
  intro r
  induction r with
  | eps => intro _ s l h; simp [Re.ms] at h; subst h; simp
  | cls neg rs =>
    intro hc s l h
    simp only [consumesIn, Bool.and_eq_true, Bool.not_eq_true', List.all_eq_true, List.any_eq_true,
      decide_eq_true_eq] at hc
    obtain ⟨hneg, hsub⟩ := hc
    subst hneg
    cases s with
    | nil => simp [Re.ms] at h
    | cons c t =>
      simp only [Re.ms] at h
      split at h
      · rename_i hin
        simp only [List.mem_singleton] at h; subst h
        intro x hx
        simp only [List.take_succ_cons, List.take_zero, List.mem_singleton] at hx
        subst hx
        simp only [Re.inCls, bne_iff_ne, ne_eq, Bool.not_eq_false, List.any_eq_true, Bool.and_eq_true,
          decide_eq_true_eq] at hin
        obtain ⟨p, hp, hp1, hp2⟩ := hin
        obtain ⟨q, hq, hq12⟩ := hsub p hp
        simp only [inR, List.any_eq_true, Bool.and_eq_true, decide_eq_true_eq]
        exact ⟨q, hq, by omega, by omega⟩
      · simp at h
  | seq a b iha ihb =>
    intro hc s l h
    simp only [consumesIn, Bool.and_eq_true] at hc
    simp only [Re.ms, List.mem_flatMap, List.mem_map] at h
    rcases h with ⟨l1, h1, l2, h2, rfl⟩
    exact takeIn_add (iha hc.1 s l1 h1) (ihb hc.2 (s.drop l1) l2 h2)
  | alt a b iha ihb =>
    intro hc s l h
    simp only [consumesIn, Bool.and_eq_true] at hc
    simp only [Re.ms, List.mem_append] at h
    rcases h with h | h
    · exact iha hc.1 s l h
    · exact ihb hc.2 s l h
  | star a g iha => intro hc s l h; exact takeIn_starMs (iha hc) g _ s l h
  | rep a m n g iha => intro hc s l h; exact takeIn_repMs (iha hc) g n m s l h
  | eol => intro _ s l h; simp only [Re.ms] at h; split at h <;> simp at h; subst h; simp

/-- code points of a number -/
def numChars : List (Nat × Nat) := [(43, 43), (45, 46), (48, 57)]

theorem numRe_consumes : consumesIn numChars numRe = true := by decide

/-- a success of the number pattern on a number followed by something that is not part of a number stays inside it -/
theorem numRe_ms_le (N stop : Cps)
    (hs : HeadIn (fun c => inR numChars c = false) stop) : ∀ l ∈ numRe.ms (N ++ stop), l ≤ N.length := by
  intro l hl
  by_cases hle : l ≤ N.length
  · exact hle
  · exfalso
    have hall := consumesIn_sound numChars numRe numRe_consumes (N ++ stop) l hl
    have hb := Re.ms_bounded numRe (N ++ stop) l hl
    rcases hs with rfl | ⟨c, t, rfl, hc⟩
    · simp at hb; omega
    · have hmem : c ∈ (N ++ c :: t).take l := by
        have : (N ++ c :: t).take l = N ++ (c :: t).take (l - N.length) := by
          rw [List.take_append]; rw [List.take_of_length_le (by omega)]
        rw [this]
        obtain ⟨k, hk⟩ : ∃ k, l - N.length = k + 1 := ⟨l - N.length - 1, by omega⟩
        rw [hk]; simp
      rw [hall c hmem] at hc; cases hc

/-- after every success of the number pattern the text is empty or starts with a number code point or the stop -/
theorem numRe_then_nil (X : Re) (N stop : Cps) (stopcs : List (Nat × Nat)) (hN : ∀ x ∈ N, inR numChars x = true)
    (hs : HeadIn (fun c => inR stopcs c = true) stop) (hdis : clsFails false numChars stopcs = true)
    (hns : noStart (numChars ++ stopcs) X = true) (hnn : X.nonNullable = true) :
    (Re.seq numRe X).ms (N ++ stop) = [] := by
  have hs' : HeadIn (fun c => inR numChars c = false) stop :=
    headIn_mono hs (fun c hc => by
      have := clsFails_sound false numChars stopcs c hdis hc
      rw [← inR_eq_inCls] at this; exact this)
  apply seq_ms_nil_heads (numChars ++ stopcs) hns hnn
  intro l hl
  have hle := numRe_ms_le N stop hs' l hl
  have hin : ∀ c, inR numChars c = true ∨ inR stopcs c = true → inR (numChars ++ stopcs) c = true := by
    intro c h; simp only [inR, List.any_append, Bool.or_eq_true] at h ⊢; exact h
  apply headIn_drop _ N stop _ _ l hle
  · intro c hc; exact hin c (Or.inl (hN c hc))
  · exact headIn_mono hs (fun c hc => hin c (Or.inr hc))

def dotDigit : List (Nat × Nat) := [(46, 46), (48, 57)]

/-- an optional sign -/
def IsSign (sg : Cps) : Prop := sg = [] ∨ sg = [43] ∨ sg = [45]

theorem signOpt_first (sg rest : Cps) (hsg : IsSign sg) (hrest : HeadIn (fun c => inR dotDigit c = true) rest) :
    signOpt.first (sg ++ rest) = some sg.length := by
  rcases hsg with rfl | rfl | rfl
  · rw [List.nil_append, Re.first, signOpt_ms]; rfl
    intro c t e
    rcases hrest with rfl | ⟨c', t', rfl, hc'⟩
    · cases e
    · simp only [List.cons.injEq] at e; obtain ⟨rfl, _⟩ := e
      simp only [inR, dotDigit, List.any_cons, List.any_nil, Bool.or_false, Bool.or_eq_true, Bool.and_eq_true,
        decide_eq_true_eq] at hc'
      omega
  · simp [Re.first, signOpt, Re.ms, Re.repMs, Re.inCls]
  · simp [Re.first, signOpt, Re.ms, Re.repMs, Re.inCls]

theorem star_digit_first (ds stop : Cps) (hd : ∀ c ∈ ds, isDigit c = true) (hs : digitRe.ms stop = []) :
    (Re.star digitRe true).first (ds ++ stop) = some ds.length := by
  show (Re.starMs digitRe.ms true ((ds ++ stop).length + 1) (ds ++ stop)).head? = _
  rw [starMs_run digitRe.ms isDigit digit_ms_cons stop hs ds _ hd (by simp; omega)]
  exact head_countdown _

theorem digit_ms_nondigit (stop : Cps) (h : HeadIn (fun c => isDigit c = false) stop) : digitRe.ms stop = [] := by
  rcases h with rfl | ⟨c, t, rfl, hc⟩
  · simp [digitRe, Re.ms]
  · simp [digitRe, Re.ms, inCls_digit, hc]

/-- **a number with a fraction**: optional sign, digits (possibly none), `.`, at least one digit — the number pattern
matches exactly that when no digit follows -/
theorem numRe_first_frac (sg ip : Cps) (d : Nat) (ds stop : Cps) (hsg : IsSign sg)
    (hip : ∀ c ∈ ip, isDigit c = true) (hd : ∀ c ∈ d :: ds, isDigit c = true)
    (hs : HeadIn (fun c => isDigit c = false) stop) :
    numRe.first (sg ++ (ip ++ 46 :: d :: (ds ++ stop))) = some (sg.length + (ip.length + (1 + (1 + ds.length)))) := by
  have hd0 : isDigit d = true := hd d (by simp)
  have hhead : HeadIn (fun c => inR dotDigit c = true) (ip ++ 46 :: d :: (ds ++ stop)) := by
    cases ip with
    | nil => exact headIn_cons (by decide)
    | cons c t =>
      refine headIn_cons ?_
      have := hip c (by simp)
      simp only [isDigit, Bool.and_eq_true, decide_eq_true_eq] at this
      simp [inR, dotDigit]; omega
  have h46 : digitRe.ms (46 :: d :: (ds ++ stop)) = [] := by simp [digitRe, Re.ms, Re.inCls]
  have hfrac : (Re.seq (Re.cls false [(46, 46)]) (Re.seq digitRe (Re.star digitRe true))).first
      (46 :: d :: (ds ++ stop)) = some (1 + (1 + ds.length)) := by
    rw [first_seq_cls_cons]
    have hdd : Re.inCls false [(48, 57)] d = true := by rw [inCls_digit]; exact hd0
    simp only [show Re.inCls false [(46, 46)] 46 = true by decide, if_true, digitRe, first_seq_cls_cons, hdd]
    have := star_digit_first ds stop (fun c hc => hd c (List.mem_cons_of_mem _ hc)) (digit_ms_nondigit stop hs)
    simp only [digitRe] at this
    rw [this]; rfl
  have hA : numA.first (sg ++ (ip ++ 46 :: d :: (ds ++ stop))) =
      some (sg.length + (ip.length + (1 + (1 + ds.length)))) := by
    unfold numA
    apply first_seq_some (signOpt_first sg _ hsg hhead)
    rw [drop_length_append]
    apply first_seq_some (star_digit_first ip _ hip h46)
    rw [drop_length_append]
    exact hfrac
  show (Re.alt numA numB).first _ = _
  rw [first_alt, hA]; rfl

theorem isSign_len (sg : Cps) (h : IsSign sg) : sg.length ≤ 1 ∧ ∀ x ∈ sg, inR numChars x = true := by
  rcases h with rfl | rfl | rfl
  · exact ⟨by simp, by simp⟩
  · exact ⟨by simp, by intro x hx; simp at hx; subst hx; decide⟩
  · exact ⟨by simp, by intro x hx; simp at hx; subst hx; decide⟩

theorem dotDigit_numChars (x : Nat) (h : inR dotDigit x = true) : inR numChars x = true := by
  simp only [inR, dotDigit, numChars, List.any_cons, List.any_nil, Bool.or_false, Bool.or_eq_true, Bool.and_eq_true,
    decide_eq_true_eq] at h ⊢
  omega

/-- after every success of the number pattern on sign + body + stop, what remains starts with a digit, `.`, or the
stop — so `X`, which cannot start there, does not follow -/
theorem numRe_then_nil2 (X : Re) (sg body stop : Cps) (stopcs : List (Nat × Nat)) (hsg : IsSign sg)
    (hb : ∀ x ∈ body, inR dotDigit x = true) (hs : HeadIn (fun c => inR stopcs c = true) stop)
    (hdis : clsFails false numChars stopcs = true) (hns : noStart (dotDigit ++ stopcs) X = true)
    (hnn : X.nonNullable = true) : (Re.seq numRe X).ms (sg ++ (body ++ stop)) = [] := by
  have hs' : HeadIn (fun c => inR numChars c = false) stop :=
    headIn_mono hs (fun c hc => by
      have := clsFails_sound false numChars stopcs c hdis hc
      rw [← inR_eq_inCls] at this; exact this)
  obtain ⟨hl1, _⟩ := isSign_len sg hsg
  apply seq_ms_nil_heads (dotDigit ++ stopcs) hns hnn
  intro l hl
  have hpos : 0 < l := Re.nonNullable_sound numRe (by decide) _ l hl
  have hle : l ≤ (sg ++ body).length := by
    have := numRe_ms_le (sg ++ body) stop hs' l (by rw [List.append_assoc]; exact hl)
    exact this
  have hin : ∀ c, inR dotDigit c = true ∨ inR stopcs c = true → inR (dotDigit ++ stopcs) c = true := by
    intro c h; simp only [inR, List.any_append, Bool.or_eq_true] at h ⊢; exact h
  have hdrop : (sg ++ (body ++ stop)).drop l = (body ++ stop).drop (l - sg.length) := by
    rw [List.drop_append]; rw [List.drop_eq_nil_iff.mpr (by omega)]; rfl
  rw [hdrop]
  apply headIn_drop _ body stop _ _ (l - sg.length) (by simp only [List.length_append] at hle; omega)
  · intro c hc; exact hin c (Or.inl (hb c hc))
  · exact headIn_mono hs (fun c hc => hin c (Or.inr hc))

theorem dashOpt_consumes : consumesIn [(45, 45)] dashOpt = true := by decide

/-- an identifier-like production (`[-]{0,2}` then something that cannot start with a number code point) does not
match at a number -/
theorem dash_then_nil (Y : Re) (sg body stop : Cps) (hsg : IsSign sg) (c0 : Nat) (b' : Cps) (hbody : body = c0 :: b')
    (hc0 : inR dotDigit c0 = true) (hns : noStart numChars Y = true) (hnn : Y.nonNullable = true) :
    (Re.seq dashOpt Y).ms (sg ++ (body ++ stop)) = [] := by
  obtain ⟨hl1, hsgc⟩ := isSign_len sg hsg
  subst hbody
  have hc45 : c0 ≠ 45 := by
    intro e; rw [e] at hc0; revert hc0; decide
  apply seq_ms_nil_heads numChars hns hnn
  intro l hl
  have hall := consumesIn_sound [(45, 45)] dashOpt dashOpt_consumes _ l hl
  have hle : l ≤ sg.length := by
    by_cases h : l ≤ sg.length
    · exact h
    · exfalso
      have hmem : c0 ∈ (sg ++ (c0 :: b' ++ stop)).take l := by
        rw [List.take_append, List.take_of_length_le (by omega)]
        obtain ⟨k, hk⟩ : ∃ k, l - sg.length = k + 1 := ⟨l - sg.length - 1, by omega⟩
        rw [hk]; simp
      have := hall c0 hmem
      simp only [inR, List.any_cons, List.any_nil, Bool.or_false, Bool.and_eq_true, decide_eq_true_eq] at this
      omega
  apply headIn_drop _ sg (c0 :: b' ++ stop) hsgc _ l hle
  exact headIn_cons (dotDigit_numChars c0 hc0)

/-- **NUMBER class, fraction form**: optional sign, digits (possibly none), `.`, at least one digit, followed by the
end of the text or a space, is scanned as one NUMBER token (IDENT / FUNCTION, which may start with `-`, DIMENSION and
PERCENTAGE do not match) -/
theorem scan_number_frac (doC : Bool) (sg ip : Cps) (d : Nat) (ds stop : Cps) (hsg : IsSign sg)
    (hip : ∀ c ∈ ip, isDigit c = true) (hd : ∀ c ∈ d :: ds, isDigit c = true) (hs : Sep stop) :
    scan false doC (sg ++ (ip ++ 46 :: d :: (ds ++ stop))) productions =
      .hit "NUMBER" (sg.length + (ip.length + (1 + (1 + ds.length)))) := by
  have hdig : ∀ x, isDigit x = true → inR dotDigit x = true := by
    intro x hx
    simp only [isDigit, Bool.and_eq_true, decide_eq_true_eq] at hx
    simp [inR, dotDigit]; omega
  -- the text as sign + body + stop
  have hbody : ip ++ 46 :: d :: (ds ++ stop) = (ip ++ 46 :: d :: ds) ++ stop := by simp
  have hb : ∀ x ∈ ip ++ 46 :: d :: ds, inR dotDigit x = true := by
    intro x hx
    simp only [List.mem_append, List.mem_cons] at hx
    rcases hx with hx | rfl | rfl | hx
    · exact hdig x (hip x hx)
    · decide
    · exact hdig _ (hd _ (by simp))
    · exact hdig x (hd x (List.mem_cons_of_mem _ hx))
  obtain ⟨c0, b', hb0, hc0⟩ : ∃ c0 b', ip ++ 46 :: d :: ds = c0 :: b' ∧ inR dotDigit c0 = true := by
    cases ip with
    | nil => exact ⟨46, d :: ds, rfl, by decide⟩
    | cons c t => exact ⟨c, t ++ 46 :: d :: ds, rfl, hdig c (hip c (by simp))⟩
  have hstop32 := sep_headIn32 hs
  have hnondig : HeadIn (fun c => isDigit c = false) stop :=
    headIn_mono hstop32 (fun c hc => by
      simp only [inR, List.any_cons, List.any_nil, Bool.or_false, Bool.and_eq_true, decide_eq_true_eq] at hc
      simp [isDigit]; omega)
  have hsplit : productions = productions.take 3 ++ (("IDENT", reIDENT) :: ("FUNCTION", reFUNCTION) ::
      ("DIMENSION", reDIMENSION) :: ("PERCENTAGE", rePERCENTAGE) :: ("NUMBER", reNUMBER) :: productions.drop 8) := by
    decide
  obtain ⟨hl1, hsgc⟩ := isSign_len sg hsg
  obtain ⟨h0, t0, hs0, hh0⟩ : ∃ h0 t0, sg ++ (ip ++ 46 :: d :: (ds ++ stop)) = h0 :: t0 ∧ inR numChars h0 = true := by
    rw [hbody, hb0]
    cases sg with
    | nil => exact ⟨c0, b' ++ stop, rfl, dotDigit_numChars c0 hc0⟩
    | cons a r => exact ⟨a, r ++ (c0 :: b' ++ stop), rfl, hsgc a (by simp)⟩
  have hfirst := numRe_first_frac sg ip d ds stop hsg hip hd hnondig
  have hI : reIDENT.ms (sg ++ (ip ++ 46 :: d :: (ds ++ stop))) = [] := by
    rw [reIDENT_eq, hbody]
    exact dash_then_nil _ sg _ stop hsg c0 b' hb0 hc0 (by decide) (by decide)
  have hF : reFUNCTION.ms (sg ++ (ip ++ 46 :: d :: (ds ++ stop))) = [] := by
    rw [reFUNCTION_eq, hbody]
    exact dash_then_nil _ sg _ stop hsg c0 b' hb0 hc0 (by decide) (by decide)
  have hD : reDIMENSION.ms (sg ++ (ip ++ 46 :: d :: (ds ++ stop))) = [] := by
    rw [reDIMENSION_eq, hbody]
    exact numRe_then_nil2 reIDENT sg _ stop [(32, 32)] hsg hb hstop32 (by decide) (by decide) (by decide)
  have hP : rePERCENTAGE.ms (sg ++ (ip ++ 46 :: d :: (ds ++ stop))) = [] := by
    rw [rePERCENTAGE_eq, hbody]
    exact numRe_then_nil2 _ sg _ stop [(32, 32)] hsg hb hstop32 (by decide) (by decide) (by decide)
  rw [hsplit]
  rw [hs0] at hfirst hI hF hD hP ⊢
  rw [scan_false_reject hh0 _ _ _ (by decide), scan_false_none (first_none_of_ms_nil hI),
    scan_false_none (first_none_of_ms_nil hF), scan_false_none (first_none_of_ms_nil hD),
    scan_false_none (first_none_of_ms_nil hP)]
  apply scan_false_hit
  · rw [reNUMBER_eq]; exact hfirst
  · simp [identContinue]

theorem signOpt_consumes : consumesIn [(43, 43), (45, 45)] signOpt = true := by decide

/-- the fraction alternative of the number pattern does not match at digits that no `.` + digit follows -/
theorem numA_tail_nil {cs : List (Nat × Nat)} (d : Nat) (ds stop : Cps) (hd : ∀ c ∈ d :: ds, isDigit c = true)
    (hs : NumStop cs stop) :
    (Re.seq (Re.star digitRe true) (Re.seq (Re.cls false [(46, 46)]) (Re.seq digitRe (Re.star digitRe true)))).ms
      (d :: ds ++ stop) = [] := by
  have hdot : clsFails false [(46, 46)] ((48, 57) :: cs) = true := by
    have := hs.nodot
    simp only [clsFails, Bool.false_eq_true, if_false, List.all_cons, Bool.and_eq_true] at this ⊢
    exact ⟨by decide, this⟩
  apply seq_ms_nil
  intro l hl
  rw [star_digit_ms (d :: ds) stop hd hs] at hl
  have hle := mem_countdown hl
  apply seq_cls_ms_nil_of_head
  exact headIn_mono (num_heads (d :: ds) stop hd hs l hle) (fun c hc => clsFails_sound false _ _ c hdot hc)

/-- **a signed integer**: optional sign and digits are matched exactly by the number pattern when neither a digit nor
`.` follows -/
theorem numRe_first_int (sg : Cps) (d : Nat) (ds stop : Cps) {cs : List (Nat × Nat)} (hsg : IsSign sg)
    (hd : ∀ c ∈ d :: ds, isDigit c = true) (hs : NumStop cs stop) :
    numRe.first (sg ++ (d :: ds ++ stop)) = some (sg.length + (d :: ds).length) := by
  have hd0 : isDigit d = true := hd d (by simp)
  have hdd : inR dotDigit d = true := by
    simp only [isDigit, Bool.and_eq_true, decide_eq_true_eq] at hd0
    simp [inR, dotDigit]; omega
  obtain ⟨hl1, hsgc⟩ := isSign_len sg hsg
  have hA : numA.ms (sg ++ (d :: ds ++ stop)) = [] := by
    unfold numA
    apply seq_ms_nil
    intro l hl
    have hall := consumesIn_sound _ signOpt signOpt_consumes _ l hl
    have hle : l ≤ sg.length := by
      by_cases h : l ≤ sg.length
      · exact h
      · exfalso
        have hmem : d ∈ (sg ++ (d :: ds ++ stop)).take l := by
          rw [List.take_append, List.take_of_length_le (by omega)]
          obtain ⟨k, hk⟩ : ∃ k, l - sg.length = k + 1 := ⟨l - sg.length - 1, by omega⟩
          rw [hk]; simp
        have := hall d hmem
        simp only [isDigit, Bool.and_eq_true, decide_eq_true_eq] at hd0
        simp only [inR, List.any_cons, List.any_nil, Bool.or_false, Bool.or_eq_true, Bool.and_eq_true,
          decide_eq_true_eq] at this
        omega
    rcases hsg with rfl | rfl | rfl
    · have : l = 0 := by simpa using hle
      subst this
      exact numA_tail_nil d ds stop hd hs
    · rcases l with _ | _ | l
      · simp [Re.ms, Re.starMs, digitRe, Re.inCls]
      · exact numA_tail_nil d ds stop hd hs
      · simp at hle
    · rcases l with _ | _ | l
      · simp [Re.ms, Re.starMs, digitRe, Re.inCls]
      · exact numA_tail_nil d ds stop hd hs
      · simp at hle
  have hB : numB.first (sg ++ (d :: ds ++ stop)) = some (sg.length + (d :: ds).length) := by
    unfold numB
    apply first_seq_some (signOpt_first sg _ hsg (headIn_cons hdd))
    rw [drop_length_append]
    show (Re.seq (Re.cls false [(48, 57)]) (Re.star digitRe true)).first (d :: (ds ++ stop)) = _
    rw [first_seq_cls_cons, inCls_digit, hd0]
    have := star_digit_first ds stop (fun c hc => hd c (List.mem_cons_of_mem _ hc)) (digit_ms_stop stop hs)
    simp only [if_true, this, Option.map_some, List.length_cons]
    congr 1; omega
  show (Re.alt numA numB).first _ = _
  rw [first_alt, first_none_of_ms_nil hA, hB]; rfl

/-- **NUMBER class, signed integer**: optional sign and digits, followed by the end of the text or a space -/
theorem scan_number_int (doC : Bool) (sg : Cps) (d : Nat) (ds stop : Cps) (hsg : IsSign sg)
    (hd : ∀ c ∈ d :: ds, isDigit c = true) (hs : Sep stop) :
    scan false doC (sg ++ (d :: ds ++ stop)) productions = .hit "NUMBER" (sg.length + (d :: ds).length) := by
  have hdig : ∀ x, isDigit x = true → inR dotDigit x = true := by
    intro x hx
    simp only [isDigit, Bool.and_eq_true, decide_eq_true_eq] at hx
    simp [inR, dotDigit]; omega
  have hb : ∀ x ∈ d :: ds, inR dotDigit x = true := fun x hx => hdig x (hd x hx)
  have hc0 : inR dotDigit d = true := hb d (by simp)
  have hstop32 := sep_headIn32 hs
  have hsplit : productions = productions.take 3 ++ (("IDENT", reIDENT) :: ("FUNCTION", reFUNCTION) ::
      ("DIMENSION", reDIMENSION) :: ("PERCENTAGE", rePERCENTAGE) :: ("NUMBER", reNUMBER) :: productions.drop 8) := by
    decide
  obtain ⟨hl1, hsgc⟩ := isSign_len sg hsg
  obtain ⟨h0, t0, hs0, hh0⟩ : ∃ h0 t0, sg ++ (d :: ds ++ stop) = h0 :: t0 ∧ inR numChars h0 = true := by
    cases sg with
    | nil => exact ⟨d, ds ++ stop, rfl, dotDigit_numChars d hc0⟩
    | cons a r => exact ⟨a, r ++ (d :: ds ++ stop), rfl, hsgc a (by simp)⟩
  have hfirst := numRe_first_int sg d ds stop hsg hd (sep_numStop hs)
  have hI : reIDENT.ms (sg ++ (d :: ds ++ stop)) = [] := by
    rw [reIDENT_eq]; exact dash_then_nil _ sg _ stop hsg d ds rfl hc0 (by decide) (by decide)
  have hF : reFUNCTION.ms (sg ++ (d :: ds ++ stop)) = [] := by
    rw [reFUNCTION_eq]; exact dash_then_nil _ sg _ stop hsg d ds rfl hc0 (by decide) (by decide)
  have hD : reDIMENSION.ms (sg ++ (d :: ds ++ stop)) = [] := by
    rw [reDIMENSION_eq]
    exact numRe_then_nil2 reIDENT sg _ stop [(32, 32)] hsg hb hstop32 (by decide) (by decide) (by decide)
  have hP : rePERCENTAGE.ms (sg ++ (d :: ds ++ stop)) = [] := by
    rw [rePERCENTAGE_eq]
    exact numRe_then_nil2 _ sg _ stop [(32, 32)] hsg hb hstop32 (by decide) (by decide) (by decide)
  rw [hsplit]
  rw [hs0] at hfirst hI hF hD hP ⊢
  rw [scan_false_reject hh0 _ _ _ (by decide), scan_false_none (first_none_of_ms_nil hI),
    scan_false_none (first_none_of_ms_nil hF), scan_false_none (first_none_of_ms_nil hD),
    scan_false_none (first_none_of_ms_nil hP)]
  apply scan_false_hit
  · rw [reNUMBER_eq]; exact hfirst
  · simp [identContinue]

/-! ## PERCENTAGE and DIMENSION with sign and fraction -/

/-- the digits of a number: an integer, or digits (possibly none) `.` digits -/
inductive NumBody where
  | int (d : Nat) (ds : Cps)
  | frac (ip : Cps) (d : Nat) (ds : Cps)
deriving Repr, BEq, DecidableEq

def NumBody.text : NumBody → Cps
  | .int d ds => d :: ds
  | .frac ip d ds => ip ++ 46 :: d :: ds

def NumBody.WF : NumBody → Prop
  | .int d ds => ∀ c ∈ d :: ds, isDigit c = true
  | .frac ip d ds => (∀ c ∈ ip, isDigit c = true) ∧ ∀ c ∈ d :: ds, isDigit c = true

instance numBodyWFDecidable (b : NumBody) : Decidable b.WF := by
  cases b <;> simp only [NumBody.WF] <;> infer_instance

theorem isDigit_dotDigit (x : Nat) (hx : isDigit x = true) : inR dotDigit x = true := by
  simp only [isDigit, Bool.and_eq_true, decide_eq_true_eq] at hx
  simp [inR, dotDigit]; omega

theorem numBody_chars (b : NumBody) (h : b.WF) :
    (∀ x ∈ b.text, inR dotDigit x = true) ∧ ∃ c0 b', b.text = c0 :: b' ∧ inR dotDigit c0 = true := by
  cases b with
  | int d ds =>
    exact ⟨fun x hx => isDigit_dotDigit x (h x hx), d, ds, rfl, isDigit_dotDigit d (h d (by simp))⟩
  | frac ip d ds =>
    obtain ⟨hip, hd⟩ := h
    refine ⟨?_, ?_⟩
    · intro x hx
      simp only [NumBody.text, List.mem_append, List.mem_cons] at hx
      rcases hx with hx | rfl | rfl | hx
      · exact isDigit_dotDigit x (hip x hx)
      · decide
      · exact isDigit_dotDigit _ (hd _ (by simp))
      · exact isDigit_dotDigit x (hd x (List.mem_cons_of_mem _ hx))
    · cases ip with
      | nil => exact ⟨46, d :: ds, rfl, by decide⟩
      | cons c t => exact ⟨c, t ++ 46 :: d :: ds, rfl, isDigit_dotDigit c (hip c (by simp))⟩

theorem numRe_first_body (sg : Cps) (b : NumBody) (stop : Cps) {cs : List (Nat × Nat)} (hsg : IsSign sg) (hb : b.WF)
    (hs : NumStop cs stop) : numRe.first (sg ++ (b.text ++ stop)) = some (sg.length + b.text.length) := by
  cases b with
  | int d ds => exact numRe_first_int sg d ds stop hsg hb hs
  | frac ip d ds =>
    have hnd : HeadIn (fun c => isDigit c = false) stop :=
      headIn_mono hs.head (fun c hc => by
        have := clsFails_sound false _ cs c hs.nodigit hc
        rw [inCls_digit] at this; exact this)
    have := numRe_first_frac sg ip d ds stop hsg hb.1 hb.2 hnd
    simp only [NumBody.text, List.length_append, List.length_cons, List.append_assoc, List.cons_append] at this ⊢
    rw [this]; congr 1; omega

/-- **PERCENTAGE class with sign and fraction**: a number (optional sign, integer or fraction) and `%`, whatever
follows -/
theorem scan_percentage_gen (doC : Bool) (sg : Cps) (b : NumBody) (rest : Cps) (hsg : IsSign sg) (hb : b.WF) :
    scan false doC (sg ++ (b.text ++ 37 :: rest)) productions =
      .hit "PERCENTAGE" (sg.length + b.text.length + 1) := by
  obtain ⟨hchars, c0, b', hb0, hc0⟩ := numBody_chars b hb
  have hstop : HeadIn (fun c => inR [(37, 37)] c = true) (37 :: rest) := headIn_cons (by decide)
  have hns : NumStop [(37, 37)] (37 :: rest) := ⟨hstop, by decide, by decide⟩
  have hsplit : productions = productions.take 3 ++ (("IDENT", reIDENT) :: ("FUNCTION", reFUNCTION) ::
      ("DIMENSION", reDIMENSION) :: ("PERCENTAGE", rePERCENTAGE) :: productions.drop 7) := by decide
  obtain ⟨hl1, hsgc⟩ := isSign_len sg hsg
  obtain ⟨h0, t0, hs0, hh0⟩ : ∃ h0 t0, sg ++ (b.text ++ 37 :: rest) = h0 :: t0 ∧ inR numChars h0 = true := by
    rw [hb0]
    cases sg with
    | nil => exact ⟨c0, b' ++ 37 :: rest, rfl, dotDigit_numChars c0 hc0⟩
    | cons a r => exact ⟨a, r ++ (c0 :: b' ++ 37 :: rest), rfl, hsgc a (by simp)⟩
  have hI : reIDENT.ms (sg ++ (b.text ++ 37 :: rest)) = [] := by
    rw [reIDENT_eq]; exact dash_then_nil _ sg _ _ hsg c0 b' hb0 hc0 (by decide) (by decide)
  have hF : reFUNCTION.ms (sg ++ (b.text ++ 37 :: rest)) = [] := by
    rw [reFUNCTION_eq]; exact dash_then_nil _ sg _ _ hsg c0 b' hb0 hc0 (by decide) (by decide)
  have hD : reDIMENSION.ms (sg ++ (b.text ++ 37 :: rest)) = [] := by
    rw [reDIMENSION_eq]
    exact numRe_then_nil2 reIDENT sg _ _ [(37, 37)] hsg hchars hstop (by decide) (by decide) (by decide)
  have hP : rePERCENTAGE.first (sg ++ (b.text ++ 37 :: rest)) = some (sg.length + b.text.length + 1) := by
    rw [rePERCENTAGE_eq]
    apply first_seq_some (numRe_first_body sg b _ hsg hb hns)
    have : (sg ++ (b.text ++ 37 :: rest)).drop (sg.length + b.text.length) = 37 :: rest := by
      have := drop_length_append (sg ++ b.text) (37 :: rest)
      simpa [List.append_assoc] using this
    rw [this, first_cls_cons]; rfl
  rw [hsplit]
  rw [hs0] at hI hF hD hP ⊢
  rw [scan_false_reject hh0 _ _ _ (by decide), scan_false_none (first_none_of_ms_nil hI),
    scan_false_none (first_none_of_ms_nil hF), scan_false_none (first_none_of_ms_nil hD)]
  apply scan_false_hit hP
  simp [identContinue]

/-- **DIMENSION class with sign and fraction**: a number (optional sign, integer or fraction) and a plain identifier
as unit, followed by the end of the text or a space -/
theorem scan_dimension_gen (doC : Bool) (sg : Cps) (b : NumBody) (c : Nat) (cs stop : Cps) (hsg : IsSign sg)
    (hb : b.WF) (hc : inR identStart c = true) (hcs : ∀ x ∈ cs, inR identRest x = true) (hst : Sep stop) :
    scan false doC (sg ++ (b.text ++ (c :: cs ++ stop))) productions =
      .hit "DIMENSION" (sg.length + b.text.length + (c :: cs).length) := by
  obtain ⟨hchars, c0, b', hb0, hc0⟩ := numBody_chars b hb
  have hns : NumStop identStart (c :: cs ++ stop) := ⟨Or.inr ⟨c, cs ++ stop, rfl, hc⟩, by decide, by decide⟩
  have hsplit : productions = productions.take 3 ++ (("IDENT", reIDENT) :: ("FUNCTION", reFUNCTION) ::
      ("DIMENSION", reDIMENSION) :: productions.drop 6) := by decide
  obtain ⟨hl1, hsgc⟩ := isSign_len sg hsg
  obtain ⟨h0, t0, hs0, hh0⟩ : ∃ h0 t0, sg ++ (b.text ++ (c :: cs ++ stop)) = h0 :: t0 ∧ inR numChars h0 = true := by
    rw [hb0]
    cases sg with
    | nil => exact ⟨c0, b' ++ (c :: cs ++ stop), rfl, dotDigit_numChars c0 hc0⟩
    | cons a r => exact ⟨a, r ++ (c0 :: b' ++ (c :: cs ++ stop)), rfl, hsgc a (by simp)⟩
  have hI : reIDENT.ms (sg ++ (b.text ++ (c :: cs ++ stop))) = [] := by
    rw [reIDENT_eq]; exact dash_then_nil _ sg _ _ hsg c0 b' hb0 hc0 (by decide) (by decide)
  have hF : reFUNCTION.ms (sg ++ (b.text ++ (c :: cs ++ stop))) = [] := by
    rw [reFUNCTION_eq]; exact dash_then_nil _ sg _ _ hsg c0 b' hb0 hc0 (by decide) (by decide)
  have hD : reDIMENSION.first (sg ++ (b.text ++ (c :: cs ++ stop))) =
      some (sg.length + b.text.length + (c :: cs).length) := by
    rw [reDIMENSION_eq]
    apply first_seq_some (numRe_first_body sg b _ hsg hb hns)
    have : (sg ++ (b.text ++ (c :: cs ++ stop))).drop (sg.length + b.text.length) = c :: cs ++ stop := by
      have := drop_length_append (sg ++ b.text) (c :: cs ++ stop)
      simpa [List.append_assoc] using this
    rw [this]
    exact ident_first c cs stop hc hcs hst
  rw [hsplit]
  rw [hs0] at hI hF hD ⊢
  rw [scan_false_reject hh0 _ _ _ (by decide), scan_false_none (first_none_of_ms_nil hI),
    scan_false_none (first_none_of_ms_nil hF)]
  apply scan_false_hit hD
  simp [identContinue]

end CssVerif.Tok
