import CssVerif.Model.SheetEdit
/-! helper lemmas for C09 (rule-list edit machine) -/
namespace CssVerif.SheetEdit

end CssVerif.SheetEdit
