import CssVerif.Model.SheetValid
/-! helper lemmas for C09 (rule-list edit machine) -/
namespace CssVerif.SheetEdit
open CssVerif.Proto (Cps)

/-! ## kind lists -/

theorem topK_sublist {l l' : List Kind} (h : TopK l) (hs : l'.Sublist l) : TopK l' :=
  List.Pairwise.sublist hs h

/-- inserting `k` at `i` keeps the order when everything before may stand before `k` and `k` before everything after -/
theorem topK_insert {l : List Kind} {k : Kind} (i : Nat) (h : TopK l)
    (hb : ∀ x ∈ l.take i, Before x k) (ha : ∀ y ∈ l.drop i, Before k y) :
    TopK (l.take i ++ k :: l.drop i) := by
  unfold TopK at *
  rw [← List.take_append_drop i l] at h
  rw [List.pairwise_append] at h ⊢
  refine ⟨h.1, ?_, ?_⟩
  · rw [List.pairwise_cons]; exact ⟨ha, h.2.1⟩
  · intro x hx y hy
    rcases List.mem_cons.mp hy with rfl | hy
    · exact hb x hx
    · exact h.2.2 x hx y hy

theorem hasKind_false {ks l} (h : hasKind ks l = false) : ∀ x ∈ l, x ∉ ks := by
  unfold hasKind at h
  simpa using h

theorem hasKind_true {ks l} (h : hasKind ks l = true) : ∃ x ∈ l, x ∈ ks := by
  unfold hasKind at h
  simpa using h

theorem hasKind_cons {ks k rs} : hasKind ks (k :: rs) = (decide (k ∈ ks) || hasKind ks rs) := by
  simp [hasKind]

theorem topK_tail_no_charset {a : Kind} {t : List Kind} (h : TopK (a :: t)) : ∀ y ∈ t, y ≠ .charset := by
  unfold TopK at h
  rw [List.pairwise_cons] at h
  intro y hy
  exact (h.1 y hy).2

/-- no @charset from `i` on, when `i > 0` or the first rule is not @charset -/
theorem topK_drop_no_charset {l : List Kind} (h : TopK l) (i : Nat)
    (hi : 0 < i ∨ firstIs [.charset] l = false) : ∀ y ∈ l.drop i, y ≠ .charset := by
  cases l with
  | nil => simp
  | cons a t =>
    intro y hy
    cases i with
    | zero =>
      rcases hi with hi | hi
      · omega
      · simp only [List.drop_zero, List.mem_cons] at hy
        rcases hy with rfl | hy
        · intro e; subst e; simp [firstIs] at hi
        · exact topK_tail_no_charset h y hy
    | succ n =>
      simp only [List.drop_succ_cons] at hy
      exact topK_tail_no_charset h y (List.mem_of_mem_drop hy)

theorem afterLastOf_none {ks l} (h : hasKind ks l = false) : afterLastOf ks l = 0 := by
  induction l with
  | nil => rfl
  | cons k rs ih =>
    rw [hasKind_cons] at h
    simp only [Bool.or_eq_false_iff, decide_eq_false_iff_not] at h
    simp [afterLastOf, h.1, h.2]

/-- the list splits at the last rule with a kind in `ks` -/
theorem afterLastOf_split {ks l} (h : hasKind ks l = true) :
    ∃ a e b, l = a ++ e :: b ∧ e ∈ ks ∧ hasKind ks b = false ∧ afterLastOf ks l = a.length + 1 := by
  induction l with
  | nil => simp [hasKind] at h
  | cons k rs ih =>
    by_cases h1 : hasKind ks rs = true
    · obtain ⟨a, e, b, hl, he, hb, hn⟩ := ih h1
      refine ⟨k :: a, e, b, by simp [hl], he, hb, ?_⟩
      simp [afterLastOf, h1, hn]
    · have h1' : hasKind ks rs = false := by simpa using h1
      rw [hasKind_cons, h1'] at h
      have hk : k ∈ ks := by simpa using h
      exact ⟨[], k, rs, rfl, hk, h1', by simp [afterLastOf, h1', hk]⟩

theorem firstIdx_some {ks l j} (h : firstIdx ks l = some j) :
    ∃ a e b, l = a ++ e :: b ∧ a.length = j ∧ hasKind ks a = false ∧ e ∈ ks := by
  induction l generalizing j with
  | nil => simp [firstIdx] at h
  | cons k rs ih =>
    unfold firstIdx at h
    by_cases hk : k ∈ ks
    · simp only [List.contains_eq_mem, hk, decide_true, if_true, Option.some.injEq] at h
      exact ⟨[], k, rs, rfl, by simpa using h, by simp [hasKind], hk⟩
    · simp only [List.contains_eq_mem, hk, decide_false, Bool.false_eq_true, if_false, Option.map_eq_some_iff] at h
      obtain ⟨j', hj', rfl⟩ := h
      obtain ⟨a, e, b, hl, ha, hna, he⟩ := ih hj'
      refine ⟨k :: a, e, b, by simp [hl], by simp [ha], ?_, he⟩
      rw [hasKind_cons]; simp [hk, hna]

theorem firstIdx_none {ks l} (h : firstIdx ks l = none) : hasKind ks l = false := by
  induction l with
  | nil => rfl
  | cons k rs ih =>
    unfold firstIdx at h
    by_cases hk : k ∈ ks
    · simp [hk] at h
    · simp only [List.contains_eq_mem, hk, decide_false, Bool.false_eq_true, if_false, Option.map_eq_none_iff] at h
      rw [hasKind_cons]; simp [hk, ih h]

/-! ## facts about the generated kind tables (re-checked whenever the tables change) -/

theorem f_comment_before : ∀ k ∈ Gen.commentKinds, ∀ x, Before x k := by
  intro k hk x; cases k <;> cases x <;> revert hk <;> decide
theorem f_comment_after : ∀ k ∈ Gen.commentKinds, ∀ y, y ≠ .charset → Before k y := by
  intro k hk y; cases k <;> cases y <;> revert hk <;> decide
theorem f_charset_after : ∀ y, y ≠ .charset → Before .charset y := by
  intro y; cases y <;> decide
theorem f_imp_before : ∀ x, x ∉ Gen.importBefore → Before x .imp := by
  intro x; cases x <;> decide
theorem f_imp_after : ∀ y, y ≠ .charset → Before .imp y := by
  intro y; cases y <;> decide
theorem f_imp_skip : ∀ e ∈ Gen.importFirstSkip, Before e .imp := by
  intro e; cases e <;> decide
theorem f_ns_after : ∀ y, y ∉ Gen.nsAfter → Before .ns y := by
  intro y; cases y <;> decide
theorem f_ns_before : ∀ x, x ∉ Gen.nsBefore → Before x .ns := by
  intro x; cases x <;> decide
theorem f_ns_start_after : ∀ y, y ∉ Gen.nsStartAfter → Before .ns y := by
  intro y; cases y <;> decide
theorem f_ns_mid : ∀ x, x ∉ Gen.nsFirstBefore → x ∉ Gen.nsStartAfter → x ∉ [Kind.ns] → Before x .ns := by
  intro x; cases x <;> decide
theorem f_ns_pre : ∀ x e, e ∈ Gen.nsStartAfter → Before x e → Before x .ns := by
  intro x e; cases x <;> cases e <;> decide
theorem f_ns_pre' : ∀ e ∈ Gen.nsStartAfter, Before e .ns := by
  intro e; cases e <;> decide
theorem f_vars_after : ∀ y, y ∉ Gen.varsAfter → Before .vars y := by
  intro y; cases y <;> decide
theorem f_vars_before : ∀ x, x ∉ Gen.varsBefore → Before x .vars := by
  intro x; cases x <;> decide
theorem f_vars_first : ∀ x, x ∉ Gen.varsFirstBefore → x ∉ [Kind.vars] → Before x .vars := by
  intro x; cases x <;> decide
theorem f_vars_nobug : ∀ y, y ∉ [Kind.charset, .imp, .ns] → Before .vars y := by
  intro y; cases y <;> decide
theorem f_other_before : ∀ k, k ≠ .charset → k ≠ .imp → k ≠ .ns → k ≠ .vars → ∀ x, Before x k := by
  intro k; cases k <;> intro _ _ _ _ x <;> cases x <;> first | contradiction | decide
theorem f_other_after : ∀ k, k ≠ .charset → k ≠ .imp → k ≠ .ns → k ≠ .vars →
    ∀ y, y ∉ Gen.otherAfter → Before k y := by
  intro k; cases k <;> intro _ _ _ _ y <;> cases y <;> first | contradiction | decide

theorem take_succ_append {α} (a : List α) (e : α) (b : List α) : (a ++ e :: b).take (a.length + 1) = a ++ [e] := by
  induction a <;> simp_all
theorem drop_succ_append {α} (a : List α) (e : α) (b : List α) : (a ++ e :: b).drop (a.length + 1) = b := by
  induction a <;> simp_all
theorem take_len_append {α} (a b : List α) : (a ++ b).take a.length = a := by
  induction a <;> simp_all
theorem drop_len_append {α} (a b : List α) : (a ++ b).drop a.length = b := by
  induction a <;> simp_all

/-- ordered add after the last rule of the same kind -/
theorem topK_insert_after_last {l : List Kind} {k : Kind} (h : TopK l) (hk : hasKind [k] l = true)
    (hkk : Before k k) :
    TopK (l.take (afterLastOf [k] l) ++ k :: l.drop (afterLastOf [k] l)) := by
  obtain ⟨a, e, b, hl, he, hb, hn⟩ := afterLastOf_split hk
  have : e = k := by simpa using he
  subst this
  rw [hn]
  subst hl
  have h' := h
  unfold TopK at h'
  rw [List.pairwise_append, List.pairwise_cons] at h'
  apply topK_insert _ h
  · intro x hx
    rw [take_succ_append] at hx
    rcases List.mem_append.mp hx with hx | hx
    · exact h'.2.2 x hx e (by simp)
    · have : x = e := by simpa using hx
      subst this; exact hkk
  · intro y hy
    rw [drop_succ_append] at hy
    exact h'.2.1.1 y hy

theorem firstIs_charset_of {ks l} (hc : Kind.charset ∈ ks) (h : firstIs ks l = false) :
    firstIs [.charset] l = false := by
  cases l with
  | nil => rfl
  | cons a t =>
    simp only [firstIs, List.contains_eq_mem, decide_eq_false_iff_not] at h ⊢
    intro ha
    have : a = .charset := by simpa using ha
    subst this; exact h hc

/-- `idx = 0 → the first rule is not @charset` gives "no @charset from idx on" -/
theorem no_charset_from {l : List Kind} (h : TopK l) (idx : Nat)
    (hc : ¬ (idx = 0 ∧ firstIs [.charset] l = true)) : ∀ y ∈ l.drop idx, y ≠ .charset := by
  apply topK_drop_no_charset h
  by_cases h0 : idx = 0
  · right
    cases hf : firstIs [.charset] l with
    | false => rfl
    | true => exact absurd ⟨h0, hf⟩ hc
  · left; omega

theorem place_charset0 {l : List Kind} (h : TopK l) (hf : firstIs [.charset] l = false) :
    TopK (l.take 0 ++ .charset :: l.drop 0) := by
  apply topK_insert 0 h
  · simp
  · intro y hy
    exact f_charset_after y (topK_drop_no_charset h 0 (Or.inr hf) y hy)

theorem place_comment {l : List Kind} {k : Kind} (h : TopK l) (hk : k ∈ Gen.commentKinds) (idx : Nat)
    (hc : ¬ (idx = 0 ∧ firstIs [.charset] l = true)) : TopK (l.take idx ++ k :: l.drop idx) := by
  apply topK_insert idx h
  · intro x _; exact f_comment_before k hk x
  · intro y hy; exact f_comment_after k hk y (no_charset_from h idx hc y hy)

theorem place_imp_at {l : List Kind} (h : TopK l) (idx : Nat)
    (hc : ¬ (idx = 0 ∧ firstIs [.charset] l = true)) (hb : hasKind Gen.importBefore (l.take idx) = false) :
    TopK (l.take idx ++ .imp :: l.drop idx) := by
  apply topK_insert idx h
  · intro x hx; exact f_imp_before x (hasKind_false hb x hx)
  · intro y hy; exact f_imp_after y (no_charset_from h idx hc y hy)

theorem place_imp_first {l : List Kind} (h : TopK l) :
    TopK (l.take (if firstIs Gen.importFirstSkip l then 1 else 0) ++ .imp ::
      l.drop (if firstIs Gen.importFirstSkip l then 1 else 0)) := by
  cases hf : firstIs Gen.importFirstSkip l with
  | true =>
    simp only [if_true]
    cases l with
    | nil => simp [firstIs] at hf
    | cons e t =>
      apply topK_insert 1 h
      · intro x hx
        have : x = e := by simpa using hx
        subst this
        exact f_imp_skip x (by simpa [firstIs] using hf)
      · intro y hy
        simp only [List.drop_succ_cons, List.drop_zero] at hy
        exact f_imp_after y (topK_tail_no_charset h y hy)
  | false =>
    simp only [Bool.false_eq_true, if_false]
    apply topK_insert 0 h
    · simp
    · intro y hy
      exact f_imp_after y (topK_drop_no_charset h 0 (Or.inr (firstIs_charset_of (by decide) hf)) y hy)

theorem place_ns_at {l : List Kind} (h : TopK l) (idx : Nat)
    (ha : hasKind Gen.nsAfter (l.drop idx) = false) (hb : hasKind Gen.nsBefore (l.take idx) = false) :
    TopK (l.take idx ++ .ns :: l.drop idx) := by
  apply topK_insert idx h
  · intro x hx; exact f_ns_before x (hasKind_false hb x hx)
  · intro y hy; exact f_ns_after y (hasKind_false ha y hy)

theorem place_vars_at {l : List Kind} (h : TopK l) (idx : Nat)
    (ha : hasKind Gen.varsAfter (l.drop idx) = false) (hb : hasKind Gen.varsBefore (l.take idx) = false) :
    TopK (l.take idx ++ .vars :: l.drop idx) := by
  apply topK_insert idx h
  · intro x hx; exact f_vars_before x (hasKind_false hb x hx)
  · intro y hy; exact f_vars_after y (hasKind_false ha y hy)

theorem place_other_at {l : List Kind} {k : Kind} (h : TopK l) (idx : Nat)
    (h1 : k ≠ .charset) (h2 : k ≠ .imp) (h3 : k ≠ .ns) (h4 : k ≠ .vars)
    (ha : hasKind Gen.otherAfter (l.drop idx) = false) :
    TopK (l.take idx ++ k :: l.drop idx) := by
  apply topK_insert idx h
  · intro x _; exact f_other_before k h1 h2 h3 h4 x
  · intro y hy; exact f_other_after k h1 h2 h3 h4 y (hasKind_false ha y hy)

theorem place_other_end {l : List Kind} {k : Kind} (h : TopK l)
    (h1 : k ≠ .charset) (h2 : k ≠ .imp) (h3 : k ≠ .ns) (h4 : k ≠ .vars) :
    TopK (l.take l.length ++ k :: l.drop l.length) := by
  apply topK_insert l.length h
  · intro x _; exact f_other_before k h1 h2 h3 h4 x
  · simp

/-- the part of the list up to the last @charset/@import may stand before @namespace -/
theorem ns_prefix_before {l : List Kind} (h : TopK l) :
    ∀ x ∈ l.take (afterLastOf Gen.nsStartAfter l), Before x .ns := by
  cases hk : hasKind Gen.nsStartAfter l with
  | false => rw [afterLastOf_none hk]; simp
  | true =>
    obtain ⟨a, e, b, hl, he, _, hn⟩ := afterLastOf_split hk
    rw [hn]; subst hl
    unfold TopK at h
    rw [List.pairwise_append] at h
    intro x hx
    rw [take_succ_append] at hx
    rcases List.mem_append.mp hx with hx | hx
    · exact f_ns_pre x e he (h.2.2 x hx e (by simp))
    · have : x = e := by simpa using hx
      subst this; exact f_ns_pre' x he

theorem ns_suffix_free (l : List Kind) :
    hasKind Gen.nsStartAfter (l.drop (afterLastOf Gen.nsStartAfter l)) = false := by
  cases hk : hasKind Gen.nsStartAfter l with
  | false => rw [afterLastOf_none hk]; simpa using hk
  | true =>
    obtain ⟨a, e, b, hl, _, hb, hn⟩ := afterLastOf_split hk
    rw [hn]; subst hl
    rw [drop_succ_append]; exact hb

/-- ordered add of the first @namespace rule: at `start + j`, where nothing in `[start, start+j)` is in
`nsFirstBefore` -/
theorem place_ns_first {l : List Kind} (h : TopK l) (hno : hasKind [.ns] l = false) (j : Nat)
    (hmid : hasKind Gen.nsFirstBefore ((l.drop (afterLastOf Gen.nsStartAfter l)).take j) = false) :
    TopK (l.take (afterLastOf Gen.nsStartAfter l + j) ++ .ns :: l.drop (afterLastOf Gen.nsStartAfter l + j)) := by
  apply topK_insert _ h
  · intro x hx
    rw [List.take_add] at hx
    rcases List.mem_append.mp hx with hx | hx
    · exact ns_prefix_before h x hx
    · have h1 := hasKind_false hmid x hx
      have h2 := hasKind_false (ns_suffix_free l) x (List.mem_of_mem_take hx)
      have h3 := hasKind_false hno x (List.mem_of_mem_drop (List.mem_of_mem_take hx))
      exact f_ns_mid x h1 h2 h3
  · intro y hy
    rw [← List.drop_drop] at hy
    exact f_ns_start_after y (hasKind_false (ns_suffix_free l) y (List.mem_of_mem_drop hy))

theorem place_vars_first {l : List Kind} (h : TopK l) (hno : hasKind [.vars] l = false) (j : Nat)
    (hpre : hasKind Gen.varsFirstBefore (l.take j) = false)
    (hpost : hasKind [.charset, .imp, .ns] (l.drop j) = false) :
    TopK (l.take j ++ .vars :: l.drop j) := by
  apply topK_insert _ h
  · intro x hx
    exact f_vars_first x (hasKind_false hpre x hx) (hasKind_false hno x (List.mem_of_mem_take hx))
  · intro y hy
    exact f_vars_nobug y (hasKind_false hpost y hy)

/-- **the position checks keep the order**: whenever `place` answers "insert at `i`", inserting there keeps `TopK` —
for every kind, every index and both modes, outside the two listed regions -/
theorem place_topK (l : List Kind) (k : Kind) (idx : Nat) (inOrder : Bool) (i : Nat)
    (h : TopK l) (hp : place l k idx inOrder = .at i)
    (hbug : ¬ (inOrder = true ∧ k = .vars ∧ varsScanBug l = true))
    (hfb : inOrder = true → orderedFallback l k = true → idx = l.length) :
    TopK (l.take i ++ k :: l.drop i) := by
  unfold place at hp
  split at hp
  · -- @charset
    rename_i hk; subst hk
    split at hp
    · split at hp
      · cases hp
      · rename_i hf
        injection hp with hp; subst hp
        exact place_charset0 h (by simpa using hf)
    · split at hp
      · cases hp
      · rename_i hc
        injection hp with hp; subst hp
        simp only [Bool.or_eq_true, decide_eq_true_eq, not_or] at hc
        have : idx = 0 := by simpa using hc.1
        subst this
        exact place_charset0 h (by simpa using hc.2)
  · split at hp
    · -- comment / unknown, not ordered
      rename_i hk1 hk
      simp only [Bool.and_eq_true, Bool.not_eq_true', List.contains_eq_mem, decide_eq_true_eq] at hk
      split at hp
      · cases hp
      · rename_i hc
        injection hp with hp; subst hp
        exact place_comment h hk.1 idx (by simpa using hc)
    · split at hp
      · -- @import
        rename_i hk; subst hk
        split at hp
        · split at hp
          · rename_i hex
            injection hp with hp; subst hp
            exact topK_insert_after_last h hex (by decide)
          · have := place_imp_first h
            split at hp <;> rename_i hf <;> injection hp with hp <;> subst hp
            · simpa [hf] using this
            · simpa [hf] using this
        · split at hp
          · cases hp
          · split at hp
            · cases hp
            · rename_i hc hb
              injection hp with hp; subst hp
              exact place_imp_at h idx (by simpa using hc) (by simpa using hb)
      · split at hp
        · -- @namespace
          rename_i hk; subst hk
          split at hp
          · split at hp
            · rename_i hex
              injection hp with hp; subst hp
              exact topK_insert_after_last h hex (by decide)
            · rename_i hord hex
              have hno : hasKind [.ns] l = false := by simpa using hex
              dsimp only at hp
              split at hp
              · rename_i j hj
                injection hp with hp; subst hp
                obtain ⟨a, e, b, hl, ha, hna, _⟩ := firstIdx_some hj
                apply place_ns_first h hno
                rw [hl, ← ha, take_len_append]; exact hna
              · rename_i hj
                injection hp with hp; subst hp
                have hlen : idx = l.length := hfb hord (by simp [orderedFallback, hno, hj])
                subst hlen
                have hle : afterLastOf Gen.nsStartAfter l ≤ l.length := by
                  cases hk : hasKind Gen.nsStartAfter l with
                  | false => rw [afterLastOf_none hk]; omega
                  | true =>
                    obtain ⟨a, e, b, hl, _, _, hn⟩ := afterLastOf_split hk
                    rw [hn, hl]; simp
                have := place_ns_first h hno (l.length - afterLastOf Gen.nsStartAfter l) (by
                  have := firstIdx_none hj
                  apply Bool.eq_false_iff.mpr
                  intro hc
                  obtain ⟨x, hx, hxk⟩ := hasKind_true hc
                  exact hasKind_false this x (List.mem_of_mem_take hx) hxk)
                rwa [Nat.add_sub_cancel' hle] at this
          · split at hp
            · cases hp
            · split at hp
              · cases hp
              · rename_i ha hb
                injection hp with hp; subst hp
                exact place_ns_at h idx (by simpa using ha) (by simpa using hb)
        · split at hp
          · -- @variables
            rename_i hk; subst hk
            split at hp
            · split at hp
              · rename_i hex
                injection hp with hp; subst hp
                exact topK_insert_after_last h hex (by decide)
              · rename_i hord hex
                have hno : hasKind [.vars] l = false := by simpa using hex
                split at hp
                · rename_i j hj
                  injection hp with hp; subst hp
                  obtain ⟨a, e, b, hl, ha, hna, _⟩ := firstIdx_some hj
                  apply place_vars_first h hno
                  · rw [hl, ← ha, take_len_append]; exact hna
                  · cases hpost : hasKind [.charset, .imp, .ns] (List.drop j l) with
                    | false => rfl
                    | true => exact absurd ⟨hord, rfl, by simp [varsScanBug, hno, hj, hpost]⟩ hbug
                · rename_i hj
                  injection hp with hp; subst hp
                  have hlen : idx = l.length := hfb hord (by simp [orderedFallback, hno, hj])
                  subst hlen
                  apply place_vars_first h hno
                  · have := firstIdx_none hj
                    apply Bool.eq_false_iff.mpr
                    intro hc
                    obtain ⟨x, hx, hxk⟩ := hasKind_true hc
                    exact hasKind_false this x (List.mem_of_mem_take hx) hxk
                  · simp [hasKind]
            · split at hp
              · cases hp
              · split at hp
                · cases hp
                · rename_i ha hb
                  injection hp with hp; subst hp
                  exact place_vars_at h idx (by simpa using ha) (by simpa using hb)
          · -- every other kind
            rename_i h1 _ h2 h3 h4
            split at hp
            · injection hp with hp; subst hp
              exact place_other_end h h1 h2 h3 h4
            · split at hp
              · cases hp
              · rename_i ha
                injection hp with hp; subst hp
                exact place_other_at h idx h1 h2 h3 h4 (by simpa using ha)

/-! ## rule lists -/

@[simp] theorem adopt_kind (r : Rule) : r.adopt.kind = r.kind := rfl
@[simp] theorem detach_kind (r : Rule) : r.detach.kind = r.kind := rfl
@[simp] theorem kindsOf_nil : kindsOf [] = [] := rfl
@[simp] theorem kindsOf_length (l : List Rule) : (kindsOf l).length = l.length := by simp [kindsOf]

theorem kindsOf_pyInsert (l : List Rule) (i : Nat) (r : Rule) :
    kindsOf (pyInsert l i r) = (kindsOf l).take i ++ r.kind :: (kindsOf l).drop i := by
  simp [kindsOf, pyInsert, List.map_take, List.map_drop]

theorem kindsOf_setEnc0 (e : Cps) (l : List Rule) : kindsOf (setEnc0 e l) = kindsOf l := by
  cases l <;> simp [setEnc0, kindsOf]

theorem kindsOf_adoptId (i : Nat) (l : List Rule) : kindsOf (adoptId i l) = kindsOf l := by
  simp only [kindsOf, adoptId, List.map_map]
  apply List.map_congr_left
  intro r _
  simp only [Function.comp]
  split <;> rfl

theorem kindsOf_sublist {l l' : List Rule} (h : l'.Sublist l) : (kindsOf l').Sublist (kindsOf l) :=
  List.Sublist.map _ h

theorem topOK_sublist {l l' : List Rule} (h : TopOK l) (hs : l'.Sublist l) : TopOK l' :=
  topK_sublist h (kindsOf_sublist hs)

theorem cleanLoop_sublist (items : Dict) (done todo removed : List Rule) :
    (cleanLoop items done todo removed).1.Sublist (done ++ todo) := by
  induction todo generalizing done removed with
  | nil => simp [cleanLoop]
  | cons r rest ih =>
    unfold cleanLoop
    split
    · split
      · exact List.Sublist.refl _
      · exact (ih done _).trans (List.Sublist.append_left (List.sublist_cons_self r rest) done)
    · have := ih (done ++ [r]) removed
      simpa using this

theorem cleanNamespaces_sublist (l : List Rule) : (cleanNamespaces l).1.Sublist l := by
  simpa [cleanNamespaces] using cleanLoop_sublist (nsDict l) [] l []

/-- **insertRule's hierarchy check keeps the order**, whatever the outcome (accepted, refused, raised half-way) -/
theorem insertCore_topOK (st : St) (dict : Dict) (r : Rule) (idx : Nat) (inOrder clean track : Bool)
    (h : TopOK st.rules)
    (hbug : ¬ (inOrder = true ∧ r.kind = .vars ∧ varsScanBug (kindsOf st.rules) = true))
    (hfb : inOrder = true → orderedFallback (kindsOf st.rules) r.kind = true → idx = st.rules.length) :
    TopOK (insertCore st dict r idx inOrder clean track).1.rules := by
  unfold insertCore
  split
  · exact h
  · show TopOK (setEnc0 r.enc st.rules)
    unfold TopOK; rw [kindsOf_setEnc0]; exact h
  · rename_i i hp
    have hins : TopOK (pyInsert st.rules i r) := by
      unfold TopOK; rw [kindsOf_pyInsert]
      exact place_topK _ _ idx inOrder i h hp hbug (by simpa using hfb)
    have hins' : TopOK (pyInsert st.rules i r.adopt) := by
      unfold TopOK at *; rw [kindsOf_pyInsert] at *; exact hins
    split
    · split
      · exact h
      · split
        · have hsub := cleanNamespaces_sublist (pyInsert st.rules i r)
          dsimp only
          split
          · exact topOK_sublist hins hsub
          · split
            · show TopOK (adoptId r.id _)
              unfold TopOK; rw [kindsOf_adoptId]; exact topOK_sublist hins hsub
            · exact topOK_sublist hins hsub
        · exact hins'
    · exact hins'

theorem inst_kind (p : Option Nat) (n : Nat) (s : Spec) : (Spec.inst p n s).1.kind = s.kind := by
  cases s; simp [Spec.inst]

theorem kindsOf_replaceUri (p u : Cps) (l : List Rule) : kindsOf (replaceUri p u l) = kindsOf l := by
  simp only [kindsOf, replaceUri, List.map_map]
  apply List.map_congr_left
  intro r _
  simp only [Function.comp]
  split <;> rfl

/-- every kind in the list after `insertCore` was there before or is the candidate's -/
theorem insertCore_kinds (st : St) (dict : Dict) (r : Rule) (idx : Nat) (inOrder clean track : Bool) :
    ∀ k ∈ kindsOf (insertCore st dict r idx inOrder clean track).1.rules, k = r.kind ∨ k ∈ kindsOf st.rules := by
  have hins : ∀ i (r' : Rule), r'.kind = r.kind → ∀ l : List Rule, l.Sublist (pyInsert st.rules i r') →
      ∀ k ∈ kindsOf l, k = r.kind ∨ k ∈ kindsOf st.rules := by
    intro i r' hr' l hl k hk
    have := (kindsOf_sublist hl).subset hk
    rw [kindsOf_pyInsert, hr'] at this
    rcases List.mem_append.mp this with h | h
    · exact Or.inr (List.mem_of_mem_take h)
    · rcases List.mem_cons.mp h with h | h
      · exact Or.inl h
      · exact Or.inr (List.mem_of_mem_drop h)
  unfold insertCore
  split
  · intro k hk; exact Or.inr hk
  · intro k hk
    have : k ∈ kindsOf (setEnc0 r.enc st.rules) := hk
    rw [kindsOf_setEnc0] at this; exact Or.inr this
  · rename_i i _
    split
    · split
      · intro k hk; exact Or.inr hk
      · split
        · have hsub := cleanNamespaces_sublist (pyInsert st.rules i r)
          dsimp only
          split
          · exact hins i r rfl _ hsub
          · split
            · intro k hk
              have : k ∈ kindsOf (adoptId r.id (cleanNamespaces (pyInsert st.rules i r)).1) := hk
              rw [kindsOf_adoptId] at this
              exact hins i r rfl _ hsub k this
            · exact hins i r rfl _ hsub
        · exact hins i r.adopt rfl _ (List.Sublist.refl _)
    · exact hins i r.adopt rfl _ (List.Sublist.refl _)

theorem actOf_ins_kind {raising : Bool} {p : PSt} {s : Spec} {r : Rule} {nx : Nat} {nd : Dict} {cl : Bool}
    (h : actOf raising p s = .ins r nx nd cl) : r.kind = s.kind := by
  unfold actOf at h
  split at h
  · cases h
  · split at h
    · rename_i hk
      split at h
      · cases h
      · split at h
        · injection h with h; subst h; exact hk.symm
        · cases h
    · split at h
      · rename_i hk
        split at h
        · injection h with h; subst h; exact hk.symm
        · cases h
      · split at h
        · rename_i hk
          split at h
          · cases h
          · injection h with h; subst h; exact hk.symm
        · split at h
          · rename_i hk
            split at h
            · cases h
            · injection h with h; subst h; exact hk.symm
          · injection h with h; subst h; rfl

/-- the three shapes of the rule list after one statement -/
theorem parseOne_acc {raising : Bool} {p q : PSt} {s : Spec} (h : parseOne raising p s = .ok q) :
    q.acc = p.acc ∨ q.acc = replaceUri s.pre s.uri p.acc ∨
    ∃ r cl, r.kind = s.kind ∧ q.acc = (pInsert raising p r cl).1 := by
  unfold parseOne at h
  split at h
  · cases h
  · split at h
    · cases h
    · injection h with h; subst h
      left; split <;> rfl
  · injection h with h; subst h; right; left; rfl
  · rename_i r nx nd cl hact
    split at h
    · cases h
    · rename_i acc o _ hres
      injection h with h; subst h
      right; right
      exact ⟨r, cl, actOf_ins_kind hact, by simp [hres]⟩

theorem pInsert_topOK (raising : Bool) (p : PSt) (r : Rule) (cl : Bool) (h : TopOK p.acc) :
    TopOK (pInsert raising p r cl).1 := by
  unfold pInsert
  exact insertCore_topOK _ _ _ _ false _ _ h (by simp) (by simp)

theorem parseOne_topOK {raising : Bool} {p q : PSt} {s : Spec} (h : parseOne raising p s = .ok q)
    (hp : TopOK p.acc) : TopOK q.acc := by
  rcases parseOne_acc h with h | h | ⟨r, cl, _, h⟩
  · rw [h]; exact hp
  · rw [h]; unfold TopOK; rw [kindsOf_replaceUri]; exact hp
  · rw [h]; exact pInsert_topOK raising p r cl hp

theorem parseTop_topOK {raising : Bool} {specs : List Spec} {p q : PSt} (h : parseTop raising p specs = .ok q)
    (hp : TopOK p.acc) : TopOK q.acc := by
  induction specs generalizing p with
  | nil => simp only [parseTop] at h; injection h with h; subst h; exact hp
  | cons s ss ih =>
    simp only [parseTop] at h
    split at h
    · cases h
    · rename_i p' hp'
      exact ih h (show TopOK p'.acc from parseOne_topOK hp' hp)

theorem topOK_nil : TopOK [] := by simp [TopOK, TopK]

/-- `sheet.cssText = …` always leaves an ordered list: the new one (built by insertRule calls) or the old one -/
theorem setText_topOK (st : St) (specs : List Spec) (h : TopOK st.rules) : TopOK (setText st specs).1.rules := by
  unfold setText
  split
  · exact h
  · rename_i p hp
    exact topOK_sublist (parseTop_topOK hp topOK_nil) (cleanNamespaces_sublist _)

theorem deleteRule_topOK (st : St) (i : Int) (h : TopOK st.rules) : TopOK (deleteRule st i).1.rules := by
  unfold deleteRule
  split
  · exact h
  · split
    · exact h
    · split
      · exact h
      · exact topOK_sublist h (List.eraseIdx_sublist _ _)

theorem parseCand_kind {raising : Bool} {d : Dict} {n : Nat} {s : Spec} {c : Rule × Nat}
    (h : parseCand raising d n s = .ok (some c)) : c.1.kind = s.kind := by
  unfold parseCand at h
  split at h
  · cases h
  · rename_i q hq
    split at h
    · rename_i r hacc
      injection h with h; injection h with h; subst h
      show r.kind = s.kind
      rcases parseOne_acc hq with h | h | ⟨r', cl, hk, h⟩
      · rw [hacc] at h; cases h
      · rw [hacc] at h; simp [replaceUri] at h
      · have := insertCore_kinds { rules := [], gone := [], next := 0, raising := raising } d r' 0 false cl false
        unfold pInsert at h
        simp only [List.length_nil] at h
        rw [← h, hacc] at this
        have := this r.kind (by simp [kindsOf])
        simpa [hk] using this
    · cases h

theorem idx_of_len (index : Option Int) (n idx : Nat) (hi : idxOf index n = some idx)
    (hx : index = none ∨ index = some (n : Int)) : idx = n := by
  unfold idxOf at hi
  rcases hx with hx | hx
  · subst hx; simpa using hi.symm
  · subst hx
    simp at hi
    omega

theorem insertRule_topOK (st : St) (s : Spec) (index : Option Int) (inOrder viaStr track : Bool)
    (h : TopOK st.rules)
    (hbug : ¬ (inOrder = true ∧ s.kind = .vars ∧ varsScanBug (kindsOf st.rules) = true))
    (hfb : inOrder = true → orderedFallback (kindsOf st.rules) s.kind = true →
      index = none ∨ index = some (st.rules.length : Int)) :
    TopOK (insertRule st s index inOrder viaStr track).1.rules := by
  unfold insertRule
  dsimp only
  split
  · split
    · exact h
    · rename_i idx hi
      split
      · exact h
      · exact h
      · rename_i c hc
        refine insertCore_topOK { rules := st.rules, gone := st.gone, next := _, raising := st.raising }
          _ _ _ _ _ _ h ?_ ?_
        · rw [parseCand_kind hc]; exact hbug
        · rw [parseCand_kind hc]; intro hio hof; exact idx_of_len index _ idx hi (hfb hio hof)
  · split
    · exact h
    · rename_i idx hi
      split
      · exact h
      · refine insertCore_topOK { rules := st.rules, gone := st.gone, next := _, raising := st.raising }
          _ _ _ _ _ _ h ?_ ?_
        · rw [inst_kind]; exact hbug
        · rw [inst_kind]; intro hio hof; exact idx_of_len index _ idx hi (hfb hio hof)

theorem setEncoding_topOK (st : St) (e : Cps) (valid : Bool) (h : TopOK st.rules) :
    TopOK (setEncoding st e valid).1.rules := by
  have hfresh : TopOK ((if e.isEmpty = true then (st, Outcome.none)
      else if (!valid) = true then (st, logError st.raising .syntaxErr)
      else ((insertRule st ⟨.charset, [], [], e, [], []⟩ (some 0) false false false).1,
        match (insertRule st ⟨.charset, [], [], e, [], []⟩ (some 0) false false false).2 with
        | .ok _ => Outcome.none
        | o => o)) : St × Outcome).1.rules := by
    split
    · exact h
    · split
      · exact h
      · exact insertRule_topOK st _ _ false false false h (by simp) (by simp)
  unfold setEncoding
  dsimp only
  split
  · exact hfresh
  · rename_i r rest hr
    split
    · split
      · split
        · show TopOK ({ r with enc := e } :: rest)
          rw [hr] at h; exact h
        · exact h
      · exact deleteRule_topOK st 0 h
    · exact hfresh

theorem nsSet_topOK (st : St) (p u : Cps) (h : TopOK st.rules) : TopOK (nsSet st p u).1.rules := by
  unfold nsSet
  split
  · exact insertRule_topOK st _ none true false false h (by simp) (by simp)
  · split
    · exact h
    · split <;> exact h

theorem nsDel_topOK (st : St) (p : Cps) (h : TopOK st.rules) : TopOK (nsDel st p).1.rules := by
  unfold nsDel
  split
  · exact deleteRule_topOK st _ h
  · exact h

/-! ## operations on nested lists leave the kinds of the sheet's own list alone -/

theorem kindsOf_set_same (l : List Rule) (i : Nat) (c c0 : Rule) (h0 : l[i]? = some c0) (hk : c.kind = c0.kind) :
    kindsOf (l.set i c) = kindsOf l := by
  unfold kindsOf
  rw [List.map_set, hk]
  apply List.ext_getElem?
  intro j
  by_cases hj : i = j
  · subst hj
    rw [List.getElem?_set_self']
    simp [h0]
  · rw [List.getElem?_set_ne hj]

theorem kindsOf_setPath (rules : List Rule) (path : List Nat) (c c0 : Rule)
    (h0 : atPath rules path = some c0) (hk : c.kind = c0.kind) :
    kindsOf (setPath rules c path) = kindsOf rules := by
  match path with
  | [] => simp [atPath] at h0
  | [i] =>
    simp only [atPath] at h0
    simp only [setPath]
    exact kindsOf_set_same rules i c c0 h0 hk
  | i :: j :: p =>
    simp only [atPath] at h0
    simp only [setPath]
    split
    · rfl
    · rename_i r hr
      exact kindsOf_set_same rules i _ r hr rfl

theorem cInsert_kind (raising : Bool) (c r : Rule) (index : Option Int) (viaStr : Bool) :
    (cInsert raising c r index viaStr).1.kind = c.kind := by
  unfold cInsert
  dsimp only
  split
  · rfl
  · split <;> rfl

theorem cDelete_kind (c : Rule) (i : Int) : (cDelete c i).1.kind = c.kind := by
  unfold cDelete
  split
  · rfl
  · split <;> rfl

theorem cSetText_kind (raising : Bool) (d : Dict) (n : Nat) (c : Rule) (kids : List Spec) :
    (cSetText raising d n c kids).1.kind = c.kind := by
  unfold cSetText
  dsimp only
  split <;> rfl

theorem nInsert_kinds (st : St) (path : List Nat) (s : Spec) (index : Option Int) (viaStr : Bool) :
    kindsOf (nInsert st path s index viaStr).1.rules = kindsOf st.rules := by
  unfold nInsert
  split
  · rfl
  · rename_i c hc
    split
    · rfl
    · split
      · split
        · rfl
        · split
          · rfl
          · rfl
          · exact kindsOf_setPath _ _ _ c hc (cInsert_kind _ _ _ _ _)
      · exact kindsOf_setPath _ _ _ c hc (cInsert_kind _ _ _ _ _)

theorem nDelete_kinds (st : St) (path : List Nat) (i : Int) :
    kindsOf (nDelete st path i).1.rules = kindsOf st.rules := by
  unfold nDelete
  split
  · rfl
  · rename_i c hc
    split
    · rfl
    · exact kindsOf_setPath _ _ _ c hc (cDelete_kind _ _)

theorem nSetText_kinds (st : St) (path : List Nat) (kids : List Spec) :
    kindsOf (nSetText st path kids).1.rules = kindsOf st.rules := by
  unfold nSetText
  split
  · rfl
  · rename_i c hc
    split
    · rfl
    · exact kindsOf_setPath _ _ _ c hc (cSetText_kind _ _ _ _ _)

/-! ## rule descriptions used by the witnesses in `Props/C09.lean` -/
namespace Wit
def commentS : Spec := ⟨.comment, [], [], [], [], []⟩
def unknownS : Spec := ⟨.unknown, [], [], [], [], []⟩
def importS : Spec := ⟨.imp, [], [], [], [], []⟩
def varsS : Spec := ⟨.vars, [], [], [], [], []⟩
def styleS : Spec := ⟨.style, [], [], [], [], []⟩
def styleUsing (u : Nat) : Spec := ⟨.style, [], [], [], [[u]], []⟩
def fontfaceS : Spec := ⟨.fontface, [], [], [], [], []⟩
def charsetS (e : Nat) : Spec := ⟨.charset, [], [], [e], [], []⟩
def nsS (p u : Nat) : Spec := ⟨.ns, [p], [u], [], [], []⟩
def marginS (m : Nat) : Spec := ⟨.margin, [m], [], [], [], []⟩
def mediaS (kids : List Spec) : Spec := ⟨.media, [], [], [], [], kids⟩
def pageS (kids : List Spec) : Spec := ⟨.page, [], [], [], [], kids⟩
end Wit

end CssVerif.SheetEdit
