import CssVerif.Model.SheetValid
/-! helper lemmas for C09 (rule-list edit machine) -/
namespace CssVerif.SheetEdit
open CssVerif.Proto (Cps)

/-! ## kind lists -/

theorem topK_sublist {l l' : List Kind} (h : TopK l) (hs : l'.Sublist l) : TopK l' :=
  List.Pairwise.sublist hs h

/-- inserting `k` at `i` keeps the order when everything before may stand before `k` and `k` before everything after -/
theorem topK_insert {l : List Kind} {k : Kind} (i : Nat) (h : TopK l)
    (hb : ∀ x ∈ l.take i, Before x k) (ha : ∀ y ∈ l.drop i, Before k y) :
    TopK (l.take i ++ k :: l.drop i) := by
  unfold TopK at *
  rw [← List.take_append_drop i l] at h
  rw [List.pairwise_append] at h ⊢
  refine ⟨h.1, ?_, ?_⟩
  · rw [List.pairwise_cons]; exact ⟨ha, h.2.1⟩
  · intro x hx y hy
    rcases List.mem_cons.mp hy with rfl | hy
    · exact hb x hx
    · exact h.2.2 x hx y hy

theorem hasKind_false {ks l} (h : hasKind ks l = false) : ∀ x ∈ l, x ∉ ks := by
  unfold hasKind at h
  simpa using h

theorem hasKind_true {ks l} (h : hasKind ks l = true) : ∃ x ∈ l, x ∈ ks := by
  unfold hasKind at h
  simpa using h

theorem hasKind_cons {ks k rs} : hasKind ks (k :: rs) = (decide (k ∈ ks) || hasKind ks rs) := by
  simp [hasKind]

theorem topK_tail_no_charset {a : Kind} {t : List Kind} (h : TopK (a :: t)) : ∀ y ∈ t, y ≠ .charset := by
  unfold TopK at h
  rw [List.pairwise_cons] at h
  intro y hy
  exact (h.1 y hy).2

/-- no @charset from `i` on, when `i > 0` or the first rule is not @charset -/
theorem topK_drop_no_charset {l : List Kind} (h : TopK l) (i : Nat)
    (hi : 0 < i ∨ firstIs [.charset] l = false) : ∀ y ∈ l.drop i, y ≠ .charset := by
  cases l with
  | nil => simp
  | cons a t =>
    intro y hy
    cases i with
    | zero =>
      rcases hi with hi | hi
      · omega
      · simp only [List.drop_zero, List.mem_cons] at hy
        rcases hy with rfl | hy
        · intro e; subst e; simp [firstIs] at hi
        · exact topK_tail_no_charset h y hy
    | succ n =>
      simp only [List.drop_succ_cons] at hy
      exact topK_tail_no_charset h y (List.mem_of_mem_drop hy)

theorem afterLastOf_none {ks l} (h : hasKind ks l = false) : afterLastOf ks l = 0 := by
  induction l with
  | nil => rfl
  | cons k rs ih =>
    rw [hasKind_cons] at h
    simp only [Bool.or_eq_false_iff, decide_eq_false_iff_not] at h
    simp [afterLastOf, h.1, h.2]

/-- the list splits at the last rule with a kind in `ks` -/
theorem afterLastOf_split {ks l} (h : hasKind ks l = true) :
    ∃ a e b, l = a ++ e :: b ∧ e ∈ ks ∧ hasKind ks b = false ∧ afterLastOf ks l = a.length + 1 := by
  induction l with
  | nil => simp [hasKind] at h
  | cons k rs ih =>
    by_cases h1 : hasKind ks rs = true
    · obtain ⟨a, e, b, hl, he, hb, hn⟩ := ih h1
      refine ⟨k :: a, e, b, by simp [hl], he, hb, ?_⟩
      simp [afterLastOf, h1, hn]
    · have h1' : hasKind ks rs = false := by simpa using h1
      rw [hasKind_cons, h1'] at h
      have hk : k ∈ ks := by simpa using h
      exact ⟨[], k, rs, rfl, hk, h1', by simp [afterLastOf, h1', hk]⟩

theorem firstIdx_some {ks l j} (h : firstIdx ks l = some j) :
    ∃ a e b, l = a ++ e :: b ∧ a.length = j ∧ hasKind ks a = false ∧ e ∈ ks := by
  induction l generalizing j with
  | nil => simp [firstIdx] at h
  | cons k rs ih =>
    unfold firstIdx at h
    by_cases hk : k ∈ ks
    · simp only [List.contains_eq_mem, hk, decide_true, if_true, Option.some.injEq] at h
      exact ⟨[], k, rs, rfl, by simpa using h, by simp [hasKind], hk⟩
    · simp only [List.contains_eq_mem, hk, decide_false, Bool.false_eq_true, if_false, Option.map_eq_some_iff] at h
      obtain ⟨j', hj', rfl⟩ := h
      obtain ⟨a, e, b, hl, ha, hna, he⟩ := ih hj'
      refine ⟨k :: a, e, b, by simp [hl], by simp [ha], ?_, he⟩
      rw [hasKind_cons]; simp [hk, hna]

theorem firstIdx_none {ks l} (h : firstIdx ks l = none) : hasKind ks l = false := by
  induction l with
  | nil => rfl
  | cons k rs ih =>
    unfold firstIdx at h
    by_cases hk : k ∈ ks
    · simp [hk] at h
    · simp only [List.contains_eq_mem, hk, decide_false, Bool.false_eq_true, if_false, Option.map_eq_none_iff] at h
      rw [hasKind_cons]; simp [hk, ih h]

/-! ## facts about the generated kind tables (re-checked whenever the tables change) -/

theorem f_comment_before : ∀ k ∈ Gen.commentKinds, ∀ x, Before x k := by
  intro k hk x; cases k <;> cases x <;> revert hk <;> decide
theorem f_comment_after : ∀ k ∈ Gen.commentKinds, ∀ y, y ≠ .charset → Before k y := by
  intro k hk y; cases k <;> cases y <;> revert hk <;> decide
theorem f_charset_after : ∀ y, y ≠ .charset → Before .charset y := by
  intro y; cases y <;> decide
theorem f_imp_before : ∀ x, x ∉ Gen.importBefore → Before x .imp := by
  intro x; cases x <;> decide
theorem f_imp_after : ∀ y, y ≠ .charset → Before .imp y := by
  intro y; cases y <;> decide
theorem f_imp_skip : ∀ e ∈ Gen.importFirstSkip, Before e .imp := by
  intro e; cases e <;> decide
theorem f_ns_after : ∀ y, y ∉ Gen.nsAfter → Before .ns y := by
  intro y; cases y <;> decide
theorem f_ns_before : ∀ x, x ∉ Gen.nsBefore → Before x .ns := by
  intro x; cases x <;> decide
theorem f_ns_start_after : ∀ y, y ∉ Gen.nsStartAfter → Before .ns y := by
  intro y; cases y <;> decide
theorem f_ns_mid : ∀ x, x ∉ Gen.nsFirstBefore → x ∉ Gen.nsStartAfter → x ∉ [Kind.ns] → Before x .ns := by
  intro x; cases x <;> decide
theorem f_ns_pre : ∀ x e, e ∈ Gen.nsStartAfter → Before x e → Before x .ns := by
  intro x e; cases x <;> cases e <;> decide
theorem f_ns_pre' : ∀ e ∈ Gen.nsStartAfter, Before e .ns := by
  intro e; cases e <;> decide
theorem f_vars_after : ∀ y, y ∉ Gen.varsAfter → Before .vars y := by
  intro y; cases y <;> decide
theorem f_vars_before : ∀ x, x ∉ Gen.varsBefore → Before x .vars := by
  intro x; cases x <;> decide
theorem f_vars_mid : ∀ x, x ∉ Gen.varsFirstBefore → x ∉ Gen.varsStartAfter → x ∉ [Kind.vars] → Before x .vars := by
  intro x; cases x <;> decide
theorem f_vars_start_after : ∀ y, y ∉ Gen.varsStartAfter → Before .vars y := by
  intro y; cases y <;> decide
theorem f_vars_pre : ∀ x e, e ∈ Gen.varsStartAfter → Before x e → Before x .vars := by
  intro x e; cases x <;> cases e <;> decide
theorem f_vars_pre' : ∀ e ∈ Gen.varsStartAfter, Before e .vars := by
  intro e; cases e <;> decide
theorem f_other_before : ∀ k, k ≠ .charset → k ≠ .imp → k ≠ .ns → k ≠ .vars → ∀ x, Before x k := by
  intro k; cases k <;> intro _ _ _ _ x <;> cases x <;> first | contradiction | decide
theorem f_other_after : ∀ k, k ≠ .charset → k ≠ .imp → k ≠ .ns → k ≠ .vars →
    ∀ y, y ∉ Gen.otherAfter → Before k y := by
  intro k; cases k <;> intro _ _ _ _ y <;> cases y <;> first | contradiction | decide

theorem take_succ_append {α} (a : List α) (e : α) (b : List α) : (a ++ e :: b).take (a.length + 1) = a ++ [e] := by
  induction a <;> simp_all
theorem drop_succ_append {α} (a : List α) (e : α) (b : List α) : (a ++ e :: b).drop (a.length + 1) = b := by
  induction a <;> simp_all
theorem take_len_append {α} (a b : List α) : (a ++ b).take a.length = a := by
  induction a <;> simp_all
theorem drop_len_append {α} (a b : List α) : (a ++ b).drop a.length = b := by
  induction a <;> simp_all

/-- ordered add after the last rule of the same kind -/
theorem topK_insert_after_last {l : List Kind} {k : Kind} (h : TopK l) (hk : hasKind [k] l = true)
    (hkk : Before k k) :
    TopK (l.take (afterLastOf [k] l) ++ k :: l.drop (afterLastOf [k] l)) := by
  obtain ⟨a, e, b, hl, he, hb, hn⟩ := afterLastOf_split hk
  have : e = k := by simpa using he
  subst this
  rw [hn]
  subst hl
  have h' := h
  unfold TopK at h'
  rw [List.pairwise_append, List.pairwise_cons] at h'
  apply topK_insert _ h
  · intro x hx
    rw [take_succ_append] at hx
    rcases List.mem_append.mp hx with hx | hx
    · exact h'.2.2 x hx e (by simp)
    · have : x = e := by simpa using hx
      subst this; exact hkk
  · intro y hy
    rw [drop_succ_append] at hy
    exact h'.2.1.1 y hy

theorem firstIs_charset_of {ks l} (hc : Kind.charset ∈ ks) (h : firstIs ks l = false) :
    firstIs [.charset] l = false := by
  cases l with
  | nil => rfl
  | cons a t =>
    simp only [firstIs, List.contains_eq_mem, decide_eq_false_iff_not] at h ⊢
    intro ha
    have : a = .charset := by simpa using ha
    subst this; exact h hc

/-- `idx = 0 → the first rule is not @charset` gives "no @charset from idx on" -/
theorem no_charset_from {l : List Kind} (h : TopK l) (idx : Nat)
    (hc : ¬ (idx = 0 ∧ firstIs [.charset] l = true)) : ∀ y ∈ l.drop idx, y ≠ .charset := by
  apply topK_drop_no_charset h
  by_cases h0 : idx = 0
  · right
    cases hf : firstIs [.charset] l with
    | false => rfl
    | true => exact absurd ⟨h0, hf⟩ hc
  · left; omega

theorem place_charset0 {l : List Kind} (h : TopK l) (hf : firstIs [.charset] l = false) :
    TopK (l.take 0 ++ .charset :: l.drop 0) := by
  apply topK_insert 0 h
  · simp
  · intro y hy
    exact f_charset_after y (topK_drop_no_charset h 0 (Or.inr hf) y hy)

theorem place_comment {l : List Kind} {k : Kind} (h : TopK l) (hk : k ∈ Gen.commentKinds) (idx : Nat)
    (hc : ¬ (idx = 0 ∧ firstIs [.charset] l = true)) : TopK (l.take idx ++ k :: l.drop idx) := by
  apply topK_insert idx h
  · intro x _; exact f_comment_before k hk x
  · intro y hy; exact f_comment_after k hk y (no_charset_from h idx hc y hy)

theorem place_imp_at {l : List Kind} (h : TopK l) (idx : Nat)
    (hc : ¬ (idx = 0 ∧ firstIs [.charset] l = true)) (hb : hasKind Gen.importBefore (l.take idx) = false) :
    TopK (l.take idx ++ .imp :: l.drop idx) := by
  apply topK_insert idx h
  · intro x hx; exact f_imp_before x (hasKind_false hb x hx)
  · intro y hy; exact f_imp_after y (no_charset_from h idx hc y hy)

theorem place_imp_first {l : List Kind} (h : TopK l) :
    TopK (l.take (if firstIs Gen.importFirstSkip l then 1 else 0) ++ .imp ::
      l.drop (if firstIs Gen.importFirstSkip l then 1 else 0)) := by
  cases hf : firstIs Gen.importFirstSkip l with
  | true =>
    simp only [if_true]
    cases l with
    | nil => simp [firstIs] at hf
    | cons e t =>
      apply topK_insert 1 h
      · intro x hx
        have : x = e := by simpa using hx
        subst this
        exact f_imp_skip x (by simpa [firstIs] using hf)
      · intro y hy
        simp only [List.drop_succ_cons, List.drop_zero] at hy
        exact f_imp_after y (topK_tail_no_charset h y hy)
  | false =>
    simp only [Bool.false_eq_true, if_false]
    apply topK_insert 0 h
    · simp
    · intro y hy
      exact f_imp_after y (topK_drop_no_charset h 0 (Or.inr (firstIs_charset_of (by decide) hf)) y hy)

theorem place_ns_at {l : List Kind} (h : TopK l) (idx : Nat)
    (ha : hasKind Gen.nsAfter (l.drop idx) = false) (hb : hasKind Gen.nsBefore (l.take idx) = false) :
    TopK (l.take idx ++ .ns :: l.drop idx) := by
  apply topK_insert idx h
  · intro x hx; exact f_ns_before x (hasKind_false hb x hx)
  · intro y hy; exact f_ns_after y (hasKind_false ha y hy)

theorem place_vars_at {l : List Kind} (h : TopK l) (idx : Nat)
    (ha : hasKind Gen.varsAfter (l.drop idx) = false) (hb : hasKind Gen.varsBefore (l.take idx) = false) :
    TopK (l.take idx ++ .vars :: l.drop idx) := by
  apply topK_insert idx h
  · intro x hx; exact f_vars_before x (hasKind_false hb x hx)
  · intro y hy; exact f_vars_after y (hasKind_false ha y hy)

theorem place_other_at {l : List Kind} {k : Kind} (h : TopK l) (idx : Nat)
    (h1 : k ≠ .charset) (h2 : k ≠ .imp) (h3 : k ≠ .ns) (h4 : k ≠ .vars)
    (ha : hasKind Gen.otherAfter (l.drop idx) = false) :
    TopK (l.take idx ++ k :: l.drop idx) := by
  apply topK_insert idx h
  · intro x _; exact f_other_before k h1 h2 h3 h4 x
  · intro y hy; exact f_other_after k h1 h2 h3 h4 y (hasKind_false ha y hy)

theorem place_other_end {l : List Kind} {k : Kind} (h : TopK l)
    (h1 : k ≠ .charset) (h2 : k ≠ .imp) (h3 : k ≠ .ns) (h4 : k ≠ .vars) :
    TopK (l.take l.length ++ k :: l.drop l.length) := by
  apply topK_insert l.length h
  · intro x _; exact f_other_before k h1 h2 h3 h4 x
  · simp

/-- the part of the list up to the last rule of `ks` may stand before `k` -/
theorem prefix_before {l : List Kind} {ks : List Kind} {k : Kind} (h : TopK l)
    (fpre : ∀ x e, e ∈ ks → Before x e → Before x k) (fpre' : ∀ e ∈ ks, Before e k) :
    ∀ x ∈ l.take (afterLastOf ks l), Before x k := by
  cases hk : hasKind ks l with
  | false => rw [afterLastOf_none hk]; simp
  | true =>
    obtain ⟨a, e, b, hl, he, _, hn⟩ := afterLastOf_split hk
    rw [hn]; subst hl
    unfold TopK at h
    rw [List.pairwise_append] at h
    intro x hx
    rw [take_succ_append] at hx
    rcases List.mem_append.mp hx with hx | hx
    · exact fpre x e he (h.2.2 x hx e (by simp))
    · have : x = e := by simpa using hx
      subst this; exact fpre' x he

theorem suffix_free (ks : List Kind) (l : List Kind) : hasKind ks (l.drop (afterLastOf ks l)) = false := by
  cases hk : hasKind ks l with
  | false => rw [afterLastOf_none hk]; simpa using hk
  | true =>
    obtain ⟨a, e, b, hl, _, hb, hn⟩ := afterLastOf_split hk
    rw [hn]; subst hl
    rw [drop_succ_append]; exact hb

/-- ordered add of the first rule of kind `k`: at `start + j`, where `start` is behind the last rule of `ks` and
nothing in `[start, start+j)` is in `stop` -/
theorem place_first {l : List Kind} {ks stop : List Kind} {k : Kind} (h : TopK l) (hno : hasKind [k] l = false)
    (j : Nat) (hmid : hasKind stop ((l.drop (afterLastOf ks l)).take j) = false)
    (fpre : ∀ x e, e ∈ ks → Before x e → Before x k) (fpre' : ∀ e ∈ ks, Before e k)
    (fmid : ∀ x, x ∉ stop → x ∉ ks → x ∉ [k] → Before x k) (fafter : ∀ y, y ∉ ks → Before k y) :
    TopK (l.take (afterLastOf ks l + j) ++ k :: l.drop (afterLastOf ks l + j)) := by
  apply topK_insert _ h
  · intro x hx
    rw [List.take_add] at hx
    rcases List.mem_append.mp hx with hx | hx
    · exact prefix_before h fpre fpre' x hx
    · have h1 := hasKind_false hmid x hx
      have h2 := hasKind_false (suffix_free ks l) x (List.mem_of_mem_take hx)
      have h3 := hasKind_false hno x (List.mem_of_mem_drop (List.mem_of_mem_take hx))
      exact fmid x h1 h2 h3
  · intro y hy
    rw [← List.drop_drop] at hy
    exact fafter y (hasKind_false (suffix_free ks l) y (List.mem_of_mem_drop hy))

theorem afterLastOf_le' (ks : List Kind) (l : List Kind) : afterLastOf ks l ≤ l.length := by
  induction l with
  | nil => simp [afterLastOf]
  | cons a t ih =>
    simp only [afterLastOf, List.length_cons]
    split
    · omega
    · split <;> omega

/-- … and at the end of the list when no rule of `stop` follows -/
theorem place_first_end {l : List Kind} {ks stop : List Kind} {k : Kind} (h : TopK l) (hno : hasKind [k] l = false)
    (hnone : firstIdx stop (l.drop (afterLastOf ks l)) = none)
    (fpre : ∀ x e, e ∈ ks → Before x e → Before x k) (fpre' : ∀ e ∈ ks, Before e k)
    (fmid : ∀ x, x ∉ stop → x ∉ ks → x ∉ [k] → Before x k) (fafter : ∀ y, y ∉ ks → Before k y) :
    TopK (l.take l.length ++ k :: l.drop l.length) := by
  have hle := afterLastOf_le' ks l
  have := place_first h hno (l.length - afterLastOf ks l) (by
    have := firstIdx_none hnone
    apply Bool.eq_false_iff.mpr
    intro hc
    obtain ⟨x, hx, hxk⟩ := hasKind_true hc
    exact hasKind_false this x (List.mem_of_mem_take hx) hxk) fpre fpre' fmid fafter
  rwa [Nat.add_sub_cancel' hle] at this

/-- **the position checks keep the order**: whenever `place` answers "insert at `i`", inserting there keeps `TopK` —
for every kind, every index and both modes -/
theorem place_topK (l : List Kind) (k : Kind) (idx : Nat) (inOrder : Bool) (i : Nat)
    (h : TopK l) (hp : place l k idx inOrder = .at i) :
    TopK (l.take i ++ k :: l.drop i) := by
  unfold place at hp
  split at hp
  · -- @charset
    rename_i hk; subst hk
    split at hp
    · split at hp
      · cases hp
      · rename_i hf
        injection hp with hp; subst hp
        exact place_charset0 h (by simpa using hf)
    · split at hp
      · cases hp
      · rename_i hc
        injection hp with hp; subst hp
        simp only [Bool.or_eq_true, decide_eq_true_eq, not_or] at hc
        have : idx = 0 := by simpa using hc.1
        subst this
        exact place_charset0 h (by simpa using hc.2)
  · split at hp
    · -- comment / unknown, not ordered
      rename_i hk1 hk
      simp only [Bool.and_eq_true, Bool.not_eq_true', List.contains_eq_mem, decide_eq_true_eq] at hk
      split at hp
      · cases hp
      · rename_i hc
        injection hp with hp; subst hp
        exact place_comment h hk.1 idx (by simpa using hc)
    · split at hp
      · -- @import
        rename_i hk; subst hk
        split at hp
        · split at hp
          · rename_i hex
            injection hp with hp; subst hp
            exact topK_insert_after_last h hex (by decide)
          · have := place_imp_first h
            split at hp <;> rename_i hf <;> injection hp with hp <;> subst hp
            · simpa [hf] using this
            · simpa [hf] using this
        · split at hp
          · cases hp
          · split at hp
            · cases hp
            · rename_i hc hb
              injection hp with hp; subst hp
              exact place_imp_at h idx (by simpa using hc) (by simpa using hb)
      · split at hp
        · -- @namespace
          rename_i hk; subst hk
          split at hp
          · split at hp
            · rename_i hex
              injection hp with hp; subst hp
              exact topK_insert_after_last h hex (by decide)
            · rename_i hord hex
              have hno : hasKind [.ns] l = false := by simpa using hex
              dsimp only at hp
              split at hp
              · rename_i j hj
                injection hp with hp; subst hp
                obtain ⟨a, e, b, hl, ha, hna, _⟩ := firstIdx_some hj
                apply place_first h hno j _ f_ns_pre f_ns_pre' f_ns_mid f_ns_start_after
                rw [hl, ← ha, take_len_append]; exact hna
              · rename_i hj
                injection hp with hp; subst hp
                exact place_first_end h hno hj f_ns_pre f_ns_pre' f_ns_mid f_ns_start_after
          · split at hp
            · cases hp
            · split at hp
              · cases hp
              · rename_i ha hb
                injection hp with hp; subst hp
                exact place_ns_at h idx (by simpa using ha) (by simpa using hb)
        · split at hp
          · -- @variables
            rename_i hk; subst hk
            split at hp
            · split at hp
              · rename_i hex
                injection hp with hp; subst hp
                exact topK_insert_after_last h hex (by decide)
              · rename_i hord hex
                have hno : hasKind [.vars] l = false := by simpa using hex
                dsimp only at hp
                split at hp
                · rename_i j hj
                  injection hp with hp; subst hp
                  obtain ⟨a, e, b, hl, ha, hna, _⟩ := firstIdx_some hj
                  apply place_first h hno j _ f_vars_pre f_vars_pre' f_vars_mid f_vars_start_after
                  rw [hl, ← ha, take_len_append]; exact hna
                · rename_i hj
                  injection hp with hp; subst hp
                  exact place_first_end h hno hj f_vars_pre f_vars_pre' f_vars_mid f_vars_start_after
            · split at hp
              · cases hp
              · split at hp
                · cases hp
                · rename_i ha hb
                  injection hp with hp; subst hp
                  exact place_vars_at h idx (by simpa using ha) (by simpa using hb)
          · -- every other kind
            rename_i h1 _ h2 h3 h4
            split at hp
            · injection hp with hp; subst hp
              exact place_other_end h h1 h2 h3 h4
            · split at hp
              · cases hp
              · rename_i ha
                injection hp with hp; subst hp
                exact place_other_at h idx h1 h2 h3 h4 (by simpa using ha)

/-! ## rule lists -/

@[simp] theorem adopt_kind (r : Rule) : r.adopt.kind = r.kind := rfl
@[simp] theorem detach_kind (r : Rule) : r.detach.kind = r.kind := rfl
@[simp] theorem kindsOf_nil : kindsOf [] = [] := rfl
@[simp] theorem kindsOf_length (l : List Rule) : (kindsOf l).length = l.length := by simp [kindsOf]

theorem kindsOf_pyInsert (l : List Rule) (i : Nat) (r : Rule) :
    kindsOf (pyInsert l i r) = (kindsOf l).take i ++ r.kind :: (kindsOf l).drop i := by
  simp [kindsOf, pyInsert, List.map_take, List.map_drop]

theorem kindsOf_setEnc0 (e : Cps) (l : List Rule) : kindsOf (setEnc0 e l) = kindsOf l := by
  cases l <;> simp [setEnc0, kindsOf]

theorem kindsOf_adoptId (i : Nat) (l : List Rule) : kindsOf (adoptId i l) = kindsOf l := by
  simp only [kindsOf, adoptId, List.map_map]
  apply List.map_congr_left
  intro r _
  simp only [Function.comp]
  split <;> rfl

theorem kindsOf_sublist {l l' : List Rule} (h : l'.Sublist l) : (kindsOf l').Sublist (kindsOf l) :=
  List.Sublist.map _ h

theorem topOK_sublist {l l' : List Rule} (h : TopOK l) (hs : l'.Sublist l) : TopOK l' :=
  topK_sublist h (kindsOf_sublist hs)

theorem cleanLoop_sublist (items : Dict) (done todo removed : List Rule) :
    (cleanLoop items done todo removed).1.Sublist (done ++ todo) := by
  induction todo generalizing done removed with
  | nil => simp [cleanLoop]
  | cons r rest ih =>
    unfold cleanLoop
    split
    · split
      · exact List.Sublist.refl _
      · exact (ih done _).trans (List.Sublist.append_left (List.sublist_cons_self r rest) done)
    · have := ih (done ++ [r]) removed
      simpa using this

theorem cleanNamespaces_sublist (l : List Rule) : (cleanNamespaces l).1.Sublist l := by
  simpa [cleanNamespaces] using cleanLoop_sublist (nsDict l) [] l []

/-- **insertRule's hierarchy check keeps the order**, whatever the outcome (accepted, refused, raised half-way) -/
theorem insertCore_topOK (st : St) (dict : Dict) (r : Rule) (idx : Nat) (inOrder clean track : Bool)
    (h : TopOK st.rules) :
    TopOK (insertCore st dict r idx inOrder clean track).1.rules := by
  unfold insertCore
  split
  · exact h
  · show TopOK (setEnc0 r.enc st.rules)
    unfold TopOK; rw [kindsOf_setEnc0]; exact h
  · rename_i i hp
    have hins : TopOK (pyInsert st.rules i r) := by
      unfold TopOK; rw [kindsOf_pyInsert]
      exact place_topK _ _ idx inOrder i h hp
    have hins' : TopOK (pyInsert st.rules i r.adopt) := by
      unfold TopOK at *; rw [kindsOf_pyInsert] at *; exact hins
    split
    · split
      · exact h
      · split
        · have hsub := cleanNamespaces_sublist (pyInsert st.rules i r)
          dsimp only
          split
          · exact h
          · split
            · show TopOK (adoptId r.id _)
              unfold TopOK; rw [kindsOf_adoptId]; exact topOK_sublist hins hsub
            · exact topOK_sublist hins hsub
        · exact hins'
    · exact hins'

theorem inst_kind (p : Option Nat) (n : Nat) (s : Spec) : (Spec.inst p n s).1.kind = s.kind := by
  cases s; simp [Spec.inst]

theorem kindsOf_replaceUri (p u : Cps) (l : List Rule) : kindsOf (replaceUri p u l) = kindsOf l := by
  simp only [kindsOf, replaceUri, List.map_map]
  apply List.map_congr_left
  intro r _
  simp only [Function.comp]
  split <;> rfl

/-- every kind in the list after `insertCore` was there before or is the candidate's -/
theorem insertCore_kinds (st : St) (dict : Dict) (r : Rule) (idx : Nat) (inOrder clean track : Bool) :
    ∀ k ∈ kindsOf (insertCore st dict r idx inOrder clean track).1.rules, k = r.kind ∨ k ∈ kindsOf st.rules := by
  have hins : ∀ i (r' : Rule), r'.kind = r.kind → ∀ l : List Rule, l.Sublist (pyInsert st.rules i r') →
      ∀ k ∈ kindsOf l, k = r.kind ∨ k ∈ kindsOf st.rules := by
    intro i r' hr' l hl k hk
    have := (kindsOf_sublist hl).subset hk
    rw [kindsOf_pyInsert, hr'] at this
    rcases List.mem_append.mp this with h | h
    · exact Or.inr (List.mem_of_mem_take h)
    · rcases List.mem_cons.mp h with h | h
      · exact Or.inl h
      · exact Or.inr (List.mem_of_mem_drop h)
  unfold insertCore
  split
  · intro k hk; exact Or.inr hk
  · intro k hk
    have : k ∈ kindsOf (setEnc0 r.enc st.rules) := hk
    rw [kindsOf_setEnc0] at this; exact Or.inr this
  · rename_i i _
    split
    · split
      · intro k hk; exact Or.inr hk
      · split
        · have hsub := cleanNamespaces_sublist (pyInsert st.rules i r)
          dsimp only
          split
          · intro k hk; exact Or.inr hk
          · split
            · intro k hk
              have : k ∈ kindsOf (adoptId r.id (cleanNamespaces (pyInsert st.rules i r)).1) := hk
              rw [kindsOf_adoptId] at this
              exact hins i r rfl _ hsub k this
            · exact hins i r rfl _ hsub
        · exact hins i r.adopt rfl _ (List.Sublist.refl _)
    · exact hins i r.adopt rfl _ (List.Sublist.refl _)

theorem actOf_ins_kind {raising : Bool} {p : PSt} {s : Spec} {r : Rule} {nx : Nat} {nd : Dict} {cl : Bool}
    (h : actOf raising p s = .ins r nx nd cl) : r.kind = s.kind := by
  unfold actOf at h
  split at h
  · cases h
  · split at h
    · rename_i hk
      split at h
      · cases h
      · split at h
        · injection h with h; subst h; exact hk.symm
        · cases h
    · split at h
      · rename_i hk
        split at h
        · injection h with h; subst h; exact hk.symm
        · cases h
      · split at h
        · rename_i hk
          split at h
          · cases h
          · injection h with h; subst h; exact hk.symm
        · split at h
          · rename_i hk
            split at h
            · cases h
            · injection h with h; subst h; exact hk.symm
          · injection h with h; subst h; rfl

/-- the three shapes of the rule list after one statement -/
theorem parseOne_acc {raising : Bool} {p q : PSt} {s : Spec} (h : parseOne raising p s = .ok q) :
    q.acc = p.acc ∨ q.acc = replaceUri s.pre s.uri p.acc ∨
    ∃ r cl, r.kind = s.kind ∧ q.acc = (pInsert raising p r cl).1 := by
  unfold parseOne at h
  split at h
  · cases h
  · split at h
    · cases h
    · injection h with h; subst h
      left; split <;> rfl
  · injection h with h; subst h; right; left; rfl
  · rename_i r nx nd cl hact
    split at h
    · cases h
    · rename_i acc o _ hres
      injection h with h; subst h
      right; right
      exact ⟨r, cl, actOf_ins_kind hact, by simp [hres]⟩

theorem pInsert_topOK (raising : Bool) (p : PSt) (r : Rule) (cl : Bool) (h : TopOK p.acc) :
    TopOK (pInsert raising p r cl).1 := by
  unfold pInsert
  exact insertCore_topOK _ _ _ _ false _ _ h

theorem parseOne_topOK {raising : Bool} {p q : PSt} {s : Spec} (h : parseOne raising p s = .ok q)
    (hp : TopOK p.acc) : TopOK q.acc := by
  rcases parseOne_acc h with h | h | ⟨r, cl, _, h⟩
  · rw [h]; exact hp
  · rw [h]; unfold TopOK; rw [kindsOf_replaceUri]; exact hp
  · rw [h]; exact pInsert_topOK raising p r cl hp

theorem parseTop_topOK {raising : Bool} {specs : List Spec} {p q : PSt} (h : parseTop raising p specs = .ok q)
    (hp : TopOK p.acc) : TopOK q.acc := by
  induction specs generalizing p with
  | nil => simp only [parseTop] at h; injection h with h; subst h; exact hp
  | cons s ss ih =>
    simp only [parseTop] at h
    split at h
    · cases h
    · rename_i p' hp'
      exact ih h (show TopOK p'.acc from parseOne_topOK hp' hp)

theorem topOK_nil : TopOK [] := by simp [TopOK, TopK]

/-- `sheet.cssText = …` always leaves an ordered list: the new one (built by insertRule calls) or the old one -/
theorem setText_topOK (st : St) (specs : List Spec) (h : TopOK st.rules) : TopOK (setText st specs).1.rules := by
  unfold setText
  split
  · exact h
  · rename_i p hp
    exact topOK_sublist (parseTop_topOK hp topOK_nil) (cleanNamespaces_sublist _)

theorem deleteRule_topOK (st : St) (i : Int) (h : TopOK st.rules) : TopOK (deleteRule st i).1.rules := by
  unfold deleteRule
  split
  · exact h
  · split
    · exact h
    · split
      · exact h
      · exact topOK_sublist h (List.eraseIdx_sublist _ _)

theorem parseCand_kind {raising : Bool} {d : Dict} {n : Nat} {s : Spec} {c : Rule × Nat}
    (h : parseCand raising d n s = .ok (some c)) : c.1.kind = s.kind := by
  unfold parseCand at h
  split at h
  · cases h
  · rename_i q hq
    split at h
    · rename_i r hacc
      injection h with h; injection h with h; subst h
      show r.kind = s.kind
      rcases parseOne_acc hq with h | h | ⟨r', cl, hk, h⟩
      · rw [hacc] at h; cases h
      · rw [hacc] at h; simp [replaceUri] at h
      · have := insertCore_kinds { rules := [], gone := [], next := 0, raising := raising } d r' 0 false cl false
        unfold pInsert at h
        simp only [List.length_nil] at h
        rw [← h, hacc] at this
        have := this r.kind (by simp [kindsOf])
        simpa [hk] using this
    · cases h

theorem idx_of_len (index : Option Int) (n idx : Nat) (hi : idxOf index n = some idx)
    (hx : index = none ∨ index = some (n : Int)) : idx = n := by
  unfold idxOf at hi
  rcases hx with hx | hx
  · subst hx; simpa using hi.symm
  · subst hx
    simp at hi
    omega

theorem insertRule_topOK (st : St) (s : Spec) (index : Option Int) (inOrder viaStr track : Bool)
    (h : TopOK st.rules) : TopOK (insertRule st s index inOrder viaStr track).1.rules := by
  unfold insertRule
  dsimp only
  split
  · split
    · exact h
    · split
      · exact h
      · exact h
      · exact insertCore_topOK { rules := st.rules, gone := st.gone, next := _, raising := st.raising } _ _ _ _ _ _ h
  · split
    · exact h
    · split
      · exact h
      · exact insertCore_topOK { rules := st.rules, gone := st.gone, next := _, raising := st.raising } _ _ _ _ _ _ h

theorem setEncoding_topOK (st : St) (e : Cps) (valid : Bool) (h : TopOK st.rules) :
    TopOK (setEncoding st e valid).1.rules := by
  have hfresh : TopOK ((if e.isEmpty = true then (st, Outcome.none)
      else if (!valid) = true then (st, logError st.raising .syntaxErr)
      else ((insertRule st ⟨.charset, [], [], e, [], []⟩ (some 0) false false false).1,
        match (insertRule st ⟨.charset, [], [], e, [], []⟩ (some 0) false false false).2 with
        | .ok _ => Outcome.none
        | o => o)) : St × Outcome).1.rules := by
    split
    · exact h
    · split
      · exact h
      · exact insertRule_topOK st _ _ false false false h
  unfold setEncoding
  dsimp only
  split
  · exact hfresh
  · rename_i r rest hr
    split
    · split
      · split
        · show TopOK ({ r with enc := e } :: rest)
          rw [hr] at h; exact h
        · exact h
      · exact deleteRule_topOK st 0 h
    · exact hfresh

theorem nsSet_topOK (st : St) (p u : Cps) (h : TopOK st.rules) : TopOK (nsSet st p u).1.rules := by
  unfold nsSet
  split
  · exact insertRule_topOK st _ none true false false h
  · split
    · exact h
    · split <;> exact h

theorem nsDel_topOK (st : St) (p : Cps) (h : TopOK st.rules) : TopOK (nsDel st p).1.rules := by
  unfold nsDel
  split
  · exact deleteRule_topOK st _ h
  · exact h

/-! ## operations on nested lists leave the kinds of the sheet's own list alone -/

theorem kindsOf_set_same (l : List Rule) (i : Nat) (c c0 : Rule) (h0 : l[i]? = some c0) (hk : c.kind = c0.kind) :
    kindsOf (l.set i c) = kindsOf l := by
  unfold kindsOf
  rw [List.map_set, hk]
  apply List.ext_getElem?
  intro j
  by_cases hj : i = j
  · subst hj
    rw [List.getElem?_set_self']
    simp [h0]
  · rw [List.getElem?_set_ne hj]

theorem kindsOf_setPath (rules : List Rule) (path : List Nat) (c c0 : Rule)
    (h0 : atPath rules path = some c0) (hk : c.kind = c0.kind) :
    kindsOf (setPath rules c path) = kindsOf rules := by
  match path with
  | [] => simp [atPath] at h0
  | [i] =>
    simp only [atPath] at h0
    simp only [setPath]
    exact kindsOf_set_same rules i c c0 h0 hk
  | i :: j :: p =>
    simp only [atPath] at h0
    simp only [setPath]
    split
    · rfl
    · rename_i r hr
      exact kindsOf_set_same rules i _ r hr rfl

theorem cInsert_kind (raising : Bool) (c r : Rule) (index : Option Int) (viaStr : Bool) :
    (cInsert raising c r index viaStr).1.kind = c.kind := by
  unfold cInsert
  dsimp only
  split
  · rfl
  · split <;> rfl

theorem cDelete_kind (c : Rule) (i : Int) : (cDelete c i).1.kind = c.kind := by
  unfold cDelete
  split
  · rfl
  · split <;> rfl

theorem cSetText_kind (raising : Bool) (d : Dict) (n : Nat) (c : Rule) (kids : List Spec) :
    (cSetText raising d n c kids).1.kind = c.kind := by
  unfold cSetText
  dsimp only
  split <;> rfl

theorem nInsert_kinds (st : St) (path : List Nat) (s : Spec) (index : Option Int) (viaStr : Bool) :
    kindsOf (nInsert st path s index viaStr).1.rules = kindsOf st.rules := by
  unfold nInsert
  split
  · rfl
  · rename_i c hc
    split
    · rfl
    · split
      · split
        · rfl
        · split
          · rfl
          · rfl
          · exact kindsOf_setPath _ _ _ c hc (cInsert_kind _ _ _ _ _)
      · exact kindsOf_setPath _ _ _ c hc (cInsert_kind _ _ _ _ _)

theorem nDelete_kinds (st : St) (path : List Nat) (i : Int) :
    kindsOf (nDelete st path i).1.rules = kindsOf st.rules := by
  unfold nDelete
  split
  · rfl
  · rename_i c hc
    split
    · rfl
    · exact kindsOf_setPath _ _ _ c hc (cDelete_kind _ _)

theorem nSetText_kinds (st : St) (path : List Nat) (kids : List Spec) :
    kindsOf (nSetText st path kids).1.rules = kindsOf st.rules := by
  unfold nSetText
  split
  · rfl
  · rename_i c hc
    split
    · rfl
    · exact kindsOf_setPath _ _ _ c hc (cSetText_kind _ _ _ _ _)

/-! ## trees: allowed kinds and back pointers -/

theorem kidsOK_eq (r : Rule) : r.kidsOK = Rule.kidsOKL r.kind r.kids := by
  cases r; simp [Rule.kidsOK]

theorem kidsOKL_eq (ck : Kind) (l : List Rule) :
    Rule.kidsOKL ck l = l.all (fun r => allowedIn ck r.kind && r.kidsOK) := by
  induction l with
  | nil => simp [Rule.kidsOKL]
  | cons r rs ih => simp [Rule.kidsOKL, ih]

theorem linksOK_eq (p : Option Nat) (s : Bool) (r : Rule) :
    r.linksOK p s = (r.pss == s && r.prule == p && Rule.linksOKL (some r.id) r.kids) := by
  cases r; simp [Rule.linksOK]

theorem linksOKL_eq (p : Option Nat) (l : List Rule) :
    Rule.linksOKL p l = l.all (fun r => r.linksOK p false) := by
  induction l with
  | nil => simp [Rule.linksOKL]
  | cons r rs ih => simp [Rule.linksOKL, ih]

/-- every rule of the list has an allowed kind (`A`) and is itself well nested -/
def allOK (A : Kind → Bool) (l : List Rule) : Bool := l.all (fun r => A r.kind && r.kidsOK)

theorem kidsOKL_allOK (ck : Kind) (l : List Rule) : Rule.kidsOKL ck l = allOK (allowedIn ck) l := kidsOKL_eq ck l

theorem allOK_set {A : Kind → Bool} {l : List Rule} {i : Nat} {c c0 : Rule} (h : allOK A l = true)
    (h0 : l[i]? = some c0) (hk : c.kind = c0.kind) (hc : c.kidsOK = true) : allOK A (l.set i c) = true := by
  unfold allOK at *
  rw [List.all_eq_true] at *
  intro x hx
  rcases List.mem_or_eq_of_mem_set hx with hx | hx
  · exact h x hx
  · subst hx
    have := h c0 (List.mem_of_getElem? h0)
    simp only [Bool.and_eq_true] at this ⊢
    exact ⟨by rw [hk]; exact this.1, hc⟩

/-- replacing the container at `path` by one of the same kind that is well nested keeps the whole tree well nested -/
theorem allOK_setPath (A : Kind → Bool) (rules : List Rule) (path : List Nat) (c c0 : Rule)
    (h : allOK A rules = true) (h0 : atPath rules path = some c0) (hk : c.kind = c0.kind)
    (hc : c.kidsOK = true) : allOK A (setPath rules c path) = true := by
  induction path generalizing rules A with
  | nil => simp [atPath] at h0
  | cons i rest ih =>
    cases rest with
    | nil =>
      simp only [atPath] at h0
      simp only [setPath]
      exact allOK_set h h0 hk hc
    | cons j p =>
      simp only [atPath] at h0
      simp only [setPath]
      split
      · exact h
      · rename_i r hr
        simp only [hr] at h0
        have hr' : r.kidsOK = true := by
          have := (List.all_eq_true.mp h) r (List.mem_of_getElem? hr)
          simp only [Bool.and_eq_true] at this; exact this.2
        rw [kidsOK_eq, kidsOKL_allOK] at hr'
        refine allOK_set (c := { r with kids := setPath r.kids c (j :: p) }) h hr rfl ?_
        rw [kidsOK_eq, kidsOKL_allOK]
        exact ih (allowedIn r.kind) r.kids hr' h0

/-! ### fresh objects -/

@[simp] theorem adopt_kidsOK (r : Rule) : r.adopt.kidsOK = r.kidsOK := by
  rw [kidsOK_eq, kidsOK_eq]; rfl
@[simp] theorem detach_kidsOK (r : Rule) : r.detach.kidsOK = r.kidsOK := by
  rw [kidsOK_eq, kidsOK_eq]; rfl

theorem adopt_linksOK {r : Rule} (h : r.linksOK none false = true) : r.adopt.linksOK none true = true := by
  rw [linksOK_eq] at *
  simp only [Bool.and_eq_true, beq_iff_eq] at h ⊢
  exact ⟨⟨rfl, h.1.2⟩, h.2⟩

theorem adopt_linksOK' {r : Rule} (h : r.linksOK none true = true) : r.adopt.linksOK none true = true := by
  rw [linksOK_eq] at *
  simp only [Bool.and_eq_true, beq_iff_eq] at h ⊢
  exact ⟨⟨rfl, h.1.2⟩, h.2⟩

theorem detach_linksOK {r : Rule} {s : Bool} (h : r.linksOK none s = true) : r.detach.linksOK none false = true := by
  rw [linksOK_eq] at *
  simp only [Bool.and_eq_true, beq_iff_eq] at h ⊢
  exact ⟨⟨rfl, h.1.2⟩, h.2⟩

mutual
theorem inst_kidsOK (p : Option Nat) (n : Nat) :
    (s : Spec) → s.kidsOK = true → (Spec.inst p n s).1.kidsOK = true
  | ⟨k, pre, uri, enc, used, kids⟩, h => by
    simp only [Spec.inst, Rule.kidsOK]
    exact instList_kidsOKL k (some n) (n + 1) kids (by simpa [Spec.kidsOK] using h)
theorem instList_kidsOKL (ck : Kind) (p : Option Nat) (n : Nat) :
    (l : List Spec) → Spec.kidsOKL ck l = true → Rule.kidsOKL ck (Spec.instList p n l).1 = true
  | [], _ => by simp [Spec.instList, Rule.kidsOKL]
  | s :: ss, h => by
    simp only [Spec.kidsOKL, Bool.and_eq_true] at h
    simp only [Spec.instList, Rule.kidsOKL, Bool.and_eq_true]
    exact ⟨⟨by rw [inst_kind]; exact h.1.1, inst_kidsOK p n s h.1.2⟩, instList_kidsOKL ck p _ ss h.2⟩
end

mutual
/-- a fresh object names `p` as parent rule, no sheet, and its children name it -/
theorem inst_linksOK (p : Option Nat) (n : Nat) : (s : Spec) → (Spec.inst p n s).1.linksOK p false = true
  | ⟨k, pre, uri, enc, used, kids⟩ => by
    simp only [Spec.inst, Rule.linksOK, beq_self_eq_true, Bool.true_and]
    exact instList_linksOKL (some n) (n + 1) kids
theorem instList_linksOKL (p : Option Nat) (n : Nat) : (l : List Spec) → Rule.linksOKL p (Spec.instList p n l).1 = true
  | [] => by simp [Spec.instList, Rule.linksOKL]
  | s :: ss => by
    simp only [Spec.instList, Rule.linksOKL, Bool.and_eq_true]
    exact ⟨inst_linksOK p n s, instList_linksOKL p _ ss⟩
end

theorem inst_id (p : Option Nat) (n : Nat) (s : Spec) : (Spec.inst p n s).1.id = n := by
  cases s; simp [Spec.inst]

mutual
theorem inst_next (p : Option Nat) (n : Nat) : (s : Spec) → n < (Spec.inst p n s).2
  | ⟨k, pre, uri, enc, used, kids⟩ => by
    simp only [Spec.inst]
    exact Nat.lt_of_lt_of_le (Nat.lt_succ_self n) (instList_next (some n) (n + 1) kids)
theorem instList_next (p : Option Nat) (n : Nat) : (l : List Spec) → n ≤ (Spec.instList p n l).2
  | [] => by simp [Spec.instList]
  | s :: ss => by
    simp only [Spec.instList]
    exact Nat.le_trans (Nat.le_of_lt (inst_next p n s)) (instList_next p _ ss)
end

/-! ### parsed children -/

theorem f_media_text : ∀ k : Kind, k ≠ .vars → k ∉ Gen.mediaTextRejects → k ≠ .margin → allowedIn .media k = true := by
  intro k; cases k <;> decide

theorem parsePageKids_ok (raising : Bool) (cid : Nat) :
    (n : Nat) → (l : List Spec) → (ks : List Rule × Nat) → parsePageKids raising cid n l = .ok ks →
      Rule.kidsOKL .page ks.1 = true ∧ Rule.linksOKL (some cid) ks.1 = true
  | n, [], ks, h => by
    simp only [parsePageKids] at h; injection h with h; subst h
    simp [Rule.kidsOKL, Rule.linksOKL]
  | n, s :: ss, ks, h => by
    simp only [parsePageKids] at h
    split at h
    · split at h
      · cases h
      · rename_i rest hrest
        injection h with h; subst h
        have ih := parsePageKids_ok raising cid (n + 1) ss rest hrest
        rw [kidsOKL_eq, linksOKL_eq] at ih ⊢
        simp only [List.all_cons, Bool.and_eq_true, List.all_eq_true] at ih ⊢
        refine ⟨⟨⟨by decide, by simp [Rule.kidsOK, Rule.kidsOKL]⟩, ?_⟩, ⟨by simp [Rule.linksOK, Rule.linksOKL], ?_⟩⟩
        · intro x hx; exact ih.1 x (List.mem_filter.mp hx).1
        · intro x hx; exact ih.2 x (List.mem_filter.mp hx).1
    · split at h
      · exact parsePageKids_ok raising cid n ss ks h
      · split at h
        · cases h
        · exact parsePageKids_ok raising cid n ss ks h

mutual
theorem parseMediaKid_ok (raising : Bool) (d : Dict) (cid n : Nat) :
    (s : Spec) → (rn : Rule × Nat) → parseMediaKid raising d cid n s = .ok (some rn) →
      allowedIn .media rn.1.kind = true ∧ rn.1.kidsOK = true ∧ rn.1.linksOK (some cid) false = true
  | ⟨k, pre, uri, enc, used, kids⟩, rn, h => by
    simp only [parseMediaKid] at h
    split at h
    · split at h <;> cases h
    · rename_i hv
      split at h
      · split at h <;> cases h
      · rename_i hrej
        split at h
        · rename_i hk
          split at h
          · injection h with h; injection h with h; subst h; subst hk
            simp [allowedIn, Rule.kidsOK, Rule.kidsOKL, Rule.linksOK, Rule.linksOKL]
          · split at h <;> cases h
        · split at h
          · rename_i hk
            split at h
            · cases h
            · rename_i ks hks
              injection h with h; injection h with h; subst h; subst hk
              have ih := parseMediaKids_ok raising d n (n + 1) kids ks hks
              simp only [allowedIn, Rule.kidsOK, Rule.linksOK, beq_self_eq_true, Bool.true_and]
              exact ⟨by simp, ih.1, ih.2⟩
          · split at h
            · rename_i hk
              split at h
              · cases h
              · rename_i ks hks
                injection h with h; injection h with h; subst h; subst hk
                have ih := parsePageKids_ok raising n (n + 1) kids ks hks
                simp only [allowedIn, Rule.kidsOK, Rule.linksOK, beq_self_eq_true, Bool.true_and]
                exact ⟨by simp, ih.1, ih.2⟩
            · split at h
              · injection h with h; injection h with h; subst h
                simp [allowedIn, Rule.kidsOK, Rule.kidsOKL, Rule.linksOK, Rule.linksOKL]
              · rename_i hs hm hp hmar
                injection h with h; injection h with h; subst h
                refine ⟨f_media_text k hv (by simpa using hrej) hmar, ?_, ?_⟩
                · simp [Rule.kidsOK, Rule.kidsOKL]
                · simp [Rule.linksOK, Rule.linksOKL]
theorem parseMediaKids_ok (raising : Bool) (d : Dict) (cid n : Nat) :
    (l : List Spec) → (ks : List Rule × Nat) → parseMediaKids raising d cid n l = .ok ks →
      Rule.kidsOKL .media ks.1 = true ∧ Rule.linksOKL (some cid) ks.1 = true
  | [], ks, h => by
    simp only [parseMediaKids] at h; injection h with h; subst h
    simp [Rule.kidsOKL, Rule.linksOKL]
  | s :: ss, ks, h => by
    simp only [parseMediaKids] at h
    split at h
    · cases h
    · exact parseMediaKids_ok raising d cid n ss ks h
    · rename_i rn hrn
      split at h
      · cases h
      · rename_i rest hrest
        injection h with h; subst h
        have h1 := parseMediaKid_ok raising d cid n s rn hrn
        have h2 := parseMediaKids_ok raising d cid rn.2 ss rest hrest
        simp only [Rule.kidsOKL, Rule.linksOKL, Bool.and_eq_true]
        exact ⟨⟨⟨h1.1, h1.2.1⟩, h2.1⟩, h1.2.2, h2.2⟩
end

theorem parsePageKids_next (raising : Bool) (cid : Nat) :
    (n : Nat) → (l : List Spec) → (ks : List Rule × Nat) → parsePageKids raising cid n l = .ok ks → n ≤ ks.2
  | n, [], ks, h => by
    simp only [parsePageKids] at h; injection h with h; subst h; exact Nat.le_refl _
  | n, s :: ss, ks, h => by
    simp only [parsePageKids] at h
    split at h
    · split at h
      · cases h
      · rename_i rest hrest
        injection h with h; subst h
        exact Nat.le_trans (Nat.le_succ n) (parsePageKids_next raising cid (n + 1) ss rest hrest)
    · split at h
      · exact parsePageKids_next raising cid n ss ks h
      · split at h
        · cases h
        · exact parsePageKids_next raising cid n ss ks h

mutual
theorem parseMediaKid_ids (raising : Bool) (d : Dict) (cid n : Nat) :
    (s : Spec) → (rn : Rule × Nat) → parseMediaKid raising d cid n s = .ok (some rn) → rn.1.id = n ∧ n < rn.2
  | ⟨k, pre, uri, enc, used, kids⟩, rn, h => by
    simp only [parseMediaKid] at h
    split at h
    · split at h <;> cases h
    · split at h
      · split at h <;> cases h
      · split at h
        · split at h
          · injection h with h; injection h with h; subst h; exact ⟨rfl, Nat.lt_succ_self n⟩
          · split at h <;> cases h
        · split at h
          · split at h
            · cases h
            · rename_i ks hks
              injection h with h; injection h with h; subst h
              exact ⟨rfl, Nat.lt_of_lt_of_le (Nat.lt_succ_self n) (parseMediaKids_next raising d n (n + 1) kids ks hks)⟩
          · split at h
            · split at h
              · cases h
              · rename_i ks hks
                injection h with h; injection h with h; subst h
                exact ⟨rfl, Nat.lt_of_lt_of_le (Nat.lt_succ_self n) (parsePageKids_next raising n (n + 1) kids ks hks)⟩
            · split at h
              · injection h with h; injection h with h; subst h; exact ⟨rfl, Nat.lt_succ_self n⟩
              · injection h with h; injection h with h; subst h; exact ⟨rfl, Nat.lt_succ_self n⟩
theorem parseMediaKids_next (raising : Bool) (d : Dict) (cid n : Nat) :
    (l : List Spec) → (ks : List Rule × Nat) → parseMediaKids raising d cid n l = .ok ks → n ≤ ks.2
  | [], ks, h => by
    simp only [parseMediaKids] at h; injection h with h; subst h; exact Nat.le_refl _
  | s :: ss, ks, h => by
    simp only [parseMediaKids] at h
    split at h
    · cases h
    · exact parseMediaKids_next raising d cid n ss ks h
    · rename_i rn hrn
      split at h
      · cases h
      · rename_i rest hrest
        injection h with h; subst h
        exact Nat.le_trans (Nat.le_of_lt (parseMediaKid_ids raising d cid n s rn hrn).2)
          (parseMediaKids_next raising d cid rn.2 ss rest hrest)
end

/-! ### `insertCore`: nested kinds, live links, links of dropped objects -/

theorem mem_pyInsert {l : List Rule} {i : Nat} {r x : Rule} (h : x ∈ pyInsert l i r) : x = r ∨ x ∈ l := by
  unfold pyInsert at h
  rcases List.mem_append.mp h with h | h
  · exact Or.inr (List.mem_of_mem_take h)
  · rcases List.mem_cons.mp h with h | h
    · exact Or.inl h
    · exact Or.inr (List.mem_of_mem_drop h)

theorem mem_setEnc0 {e : Cps} {l : List Rule} {x : Rule} (h : x ∈ setEnc0 e l) :
    x ∈ l ∨ ∃ y ∈ l, x = { y with enc := e } := by
  cases l with
  | nil => simp [setEnc0] at h
  | cons a t =>
    simp only [setEnc0, List.mem_cons] at h
    rcases h with h | h
    · exact Or.inr ⟨a, by simp, h⟩
    · exact Or.inl (by simp [h])

theorem mem_adoptId {i : Nat} {l : List Rule} {x : Rule} (h : x ∈ adoptId i l) :
    ∃ y ∈ l, (x = y ∧ y.id ≠ i) ∨ (x = y.adopt ∧ y.id = i) := by
  unfold adoptId at h
  obtain ⟨y, hy, rfl⟩ := List.mem_map.mp h
  refine ⟨y, hy, ?_⟩
  split
  · rename_i hi; exact Or.inr ⟨rfl, hi⟩
  · rename_i hi; exact Or.inl ⟨rfl, hi⟩

/-- the only exception the clean-up can raise is the refusal of `deleteRule` -/
theorem cleanLoop_err (items : Dict) (done todo removed : List Rule) (e : Err)
    (h : (cleanLoop items done todo removed).2.2 = some e) : e = .noMod := by
  induction todo generalizing done removed with
  | nil => simp [cleanLoop] at h
  | cons r rest ih =>
    unfold cleanLoop at h
    split at h
    · split at h
      · simpa using h.symm
      · exact ih _ _ h
    · exact ih _ _ h

theorem enc_kidsOK (y : Rule) (e : Cps) : ({ y with enc := e } : Rule).kidsOK = y.kidsOK := by
  rw [kidsOK_eq, kidsOK_eq]
theorem enc_linksOK (y : Rule) (e : Cps) (p : Option Nat) (s : Bool) :
    ({ y with enc := e } : Rule).linksOK p s = y.linksOK p s := by
  rw [linksOK_eq, linksOK_eq]

/-- the objects `_cleanNamespaces` drops are rules of the list, detached -/
theorem cleanLoop_removed (items : Dict) (done todo removed : List Rule) :
    ∀ g ∈ (cleanLoop items done todo removed).2.1, g ∈ removed ∨ ∃ y ∈ todo, g = y.detach := by
  induction todo generalizing done removed with
  | nil => intro g hg; exact Or.inl (by simpa [cleanLoop] using hg)
  | cons r rest ih =>
    unfold cleanLoop
    split
    · split
      · intro g hg; exact Or.inl hg
      · intro g hg
        rcases ih done (removed ++ [r.detach]) g hg with h | ⟨y, hy, h⟩
        · rcases List.mem_append.mp h with h | h
          · exact Or.inl h
          · exact Or.inr ⟨r, by simp, by simpa using h⟩
        · exact Or.inr ⟨y, by simp [hy], h⟩
    · intro g hg
      rcases ih (done ++ [r]) removed g hg with h | ⟨y, hy, h⟩
      · exact Or.inl h
      · exact Or.inr ⟨y, by simp [hy], h⟩

theorem cleanNamespaces_removed (l : List Rule) : ∀ g ∈ (cleanNamespaces l).2.1, ∃ y ∈ l, g = y.detach := by
  intro g hg
  rcases cleanLoop_removed (nsDict l) [] l [] g hg with h | h
  · cases h
  · exact h

theorem insertCore_kidsOK (st : St) (dict : Dict) (r : Rule) (idx : Nat) (inOrder clean track : Bool)
    (hk : ∀ x ∈ st.rules, x.kidsOK = true) (hr : r.kidsOK = true) :
    ∀ x ∈ (insertCore st dict r idx inOrder clean track).1.rules, x.kidsOK = true := by
  have hins : ∀ i (r' : Rule), r'.kidsOK = true → ∀ l : List Rule, l.Sublist (pyInsert st.rules i r') →
      ∀ x ∈ l, x.kidsOK = true := by
    intro i r' hr' l hl x hx
    rcases mem_pyInsert (hl.subset hx) with h | h
    · rw [h]; exact hr'
    · exact hk x h
  unfold insertCore
  split
  · exact hk
  · intro x hx
    rcases mem_setEnc0 (show x ∈ setEnc0 r.enc st.rules from hx) with h | ⟨y, hy, h⟩
    · exact hk x h
    · rw [h, enc_kidsOK]; exact hk y hy
  · rename_i i _
    split
    · split
      · exact hk
      · split
        · have hsub := cleanNamespaces_sublist (pyInsert st.rules i r)
          dsimp only
          split
          · exact hk
          · split
            · intro x hx
              obtain ⟨y, hy, ⟨h, _⟩ | ⟨h, _⟩⟩ := mem_adoptId (show x ∈ adoptId r.id _ from hx)
              · rw [h]; exact hins i r hr _ hsub y hy
              · rw [h, adopt_kidsOK]; exact hins i r hr _ hsub y hy
            · exact hins i r hr _ hsub
        · exact hins i r.adopt (by simpa using hr) _ (List.Sublist.refl _)
    · exact hins i r.adopt (by simpa using hr) _ (List.Sublist.refl _)

/-- the `place` answers for which the candidate, though not kept, is given the sheet as parent
(known finding C09-add-charset-adopts) -/
def mergesCharset (st : St) (k : Kind) (idx : Nat) (inOrder : Bool) : Bool :=
  place (kindsOf st.rules) k idx inOrder == .mergeCharset

theorem insertCore_goneOK (st : St) (dict : Dict) (r : Rule) (idx : Nat) (inOrder clean track : Bool)
    (hl : ∀ x ∈ st.rules, x.linksOK none true = true) (hg : ∀ g ∈ st.gone, g.linksOK none false = true)
    (hr : r.linksOK none false = true) :
    ∀ g ∈ (insertCore st dict r idx inOrder clean track).1.gone, g.linksOK none false = true := by
  have hheld : ∀ g ∈ st.gone ++ (if track = true then [r] else []), g.linksOK none false = true := by
    intro g hg'
    rcases List.mem_append.mp hg' with h | h
    · exact hg g h
    · split at h
      · have : g = r := by simpa using h
        rw [this]; exact hr
      · cases h
  have hrem : ∀ i, ∀ g ∈ st.gone ++ List.filter (fun g => track || decide (g.id ≠ r.id))
      (cleanNamespaces (pyInsert st.rules i r)).2.1, g.linksOK none false = true := by
    intro i g hg'
    rcases List.mem_append.mp hg' with h | h
    · exact hg g h
    · obtain ⟨y, hy, rfl⟩ := cleanNamespaces_removed _ g (List.mem_filter.mp h).1
      rcases mem_pyInsert hy with h | h
      · rw [h]; exact detach_linksOK hr
      · exact detach_linksOK (hl y h)
  unfold insertCore
  split
  · exact hheld
  · exact hheld
  · rename_i i _
    split
    · split
      · exact hheld
      · split
        · dsimp only
          split
          · exact hheld
          · split
            · exact hrem i
            · exact hrem i
        · exact hg
    · exact hg

/-- live links after `insertCore` — also when the clean-up's `deleteRule` raised (the old list is put back) -/
theorem insertCore_linksOK (st : St) (dict : Dict) (r : Rule) (idx : Nat) (inOrder clean track : Bool)
    (hl : ∀ x ∈ st.rules, x.linksOK none true = true) (hr : r.linksOK none false = true) :
    ∀ x ∈ (insertCore st dict r idx inOrder clean track).1.rules, x.linksOK none true = true := by
  have hins : ∀ i, ∀ x ∈ pyInsert st.rules i r.adopt, x.linksOK none true = true := by
    intro i x hx
    rcases mem_pyInsert hx with h | h
    · rw [h]; exact adopt_linksOK hr
    · exact hl x h
  unfold insertCore
  split
  · exact hl
  · intro x hx
    rcases mem_setEnc0 (show x ∈ setEnc0 r.enc st.rules from hx) with h | ⟨y, hy, h⟩
    · exact hl x h
    · rw [h, enc_linksOK]; exact hl y hy
  · rename_i i hp
    split
    · split
      · exact hl
      · split
        · have hsub := cleanNamespaces_sublist (pyInsert st.rules i r)
          dsimp only
          split
          · -- the clean-up raised: the old list is put back
            exact hl
          · split
            · intro x hx
              obtain ⟨y, hy, ⟨h, hid⟩ | ⟨h, hid⟩⟩ := mem_adoptId (show x ∈ adoptId r.id _ from hx)
              · rw [h]
                rcases mem_pyInsert (hsub.subset hy) with h' | h'
                · rw [h'] at hid; exact absurd rfl hid
                · exact hl y h'
              · rw [h]
                rcases mem_pyInsert (hsub.subset hy) with h' | h'
                · rw [h']; exact adopt_linksOK hr
                · exact adopt_linksOK' (hl y h')
            · rename_i hany
              intro x hx
              rcases mem_pyInsert (hsub.subset (show x ∈ (cleanNamespaces (pyInsert st.rules i r)).1 from hx)) with h' | h'
              · exfalso
                apply hany
                rw [List.any_eq_true]
                exact ⟨x, hx, by simp [h']⟩
              · exact hl x h'
        · exact hins i
    · exact hins i

/-- ids: every rule of the list after `insertCore` is the candidate or has the id of a rule that was there -/
theorem insertCore_ids (st : St) (dict : Dict) (r : Rule) (idx : Nat) (inOrder clean track : Bool) :
    ∀ x ∈ (insertCore st dict r idx inOrder clean track).1.rules, x.id = r.id ∨ ∃ y ∈ st.rules, y.id = x.id := by
  have hins : ∀ i (r' : Rule), r'.id = r.id → ∀ l : List Rule, l.Sublist (pyInsert st.rules i r') →
      ∀ x ∈ l, x.id = r.id ∨ ∃ y ∈ st.rules, y.id = x.id := by
    intro i r' hr' l hl x hx
    rcases mem_pyInsert (hl.subset hx) with h | h
    · rw [h]; exact Or.inl hr'
    · exact Or.inr ⟨x, h, rfl⟩
  unfold insertCore
  split
  · intro x hx; exact Or.inr ⟨x, hx, rfl⟩
  · intro x hx
    rcases mem_setEnc0 (show x ∈ setEnc0 r.enc st.rules from hx) with h | ⟨y, hy, h⟩
    · exact Or.inr ⟨x, h, rfl⟩
    · exact Or.inr ⟨y, hy, by rw [h]⟩
  · rename_i i _
    split
    · split
      · intro x hx; exact Or.inr ⟨x, hx, rfl⟩
      · split
        · have hsub := cleanNamespaces_sublist (pyInsert st.rules i r)
          dsimp only
          split
          · intro x hx; exact Or.inr ⟨x, hx, rfl⟩
          · split
            · intro x hx
              obtain ⟨y, hy, ⟨h, _⟩ | ⟨h, _⟩⟩ := mem_adoptId (show x ∈ adoptId r.id _ from hx)
              · rw [h]; exact hins i r rfl _ hsub y hy
              · rw [h]; exact hins i r rfl _ hsub y hy
            · exact hins i r rfl _ hsub
        · exact hins i r.adopt rfl _ (List.Sublist.refl _)
    · exact hins i r.adopt rfl _ (List.Sublist.refl _)

/-! ### the invariant besides the order -/

structure Inv (st : St) : Prop where
  kids : ∀ r ∈ st.rules, r.kidsOK = true
  links : ∀ r ∈ st.rules, r.linksOK none true = true
  gone : ∀ g ∈ st.gone, g.linksOK none false = true
  ids : ∀ r ∈ st.rules, r.id < st.next

theorem mergesCharset_iff (st : St) (k : Kind) (idx : Nat) (inOrder : Bool) :
    mergesCharset st k idx inOrder = true ↔
      (k = .charset ∧ inOrder = true ∧ firstIs [.charset] (kindsOf st.rules) = true) := by
  unfold mergesCharset place
  constructor
  · intro h
    split at h
    · rename_i hk
      split at h
      · rename_i hio
        split at h
        · rename_i hf; exact ⟨hk, hio, hf⟩
        · simp at h
      · split at h <;> simp at h
    · exfalso
      try dsimp only at h
      repeat' split at h
      all_goals simp at h
  · rintro ⟨hk, hio, hf⟩
    simp [hk, hio, hf]

/-- `insertCore` for a candidate whose id is above every id of the list and below `next` -/
theorem insertCore_inv (st : St) (dict : Dict) (r : Rule) (idx : Nat) (inOrder clean track : Bool)
    (hk : ∀ x ∈ st.rules, x.kidsOK = true) (hl : ∀ x ∈ st.rules, x.linksOK none true = true)
    (hg : ∀ g ∈ st.gone, g.linksOK none false = true) (hlt : ∀ x ∈ st.rules, x.id < r.id) (hn : r.id < st.next)
    (hrk : r.kidsOK = true) (hrl : r.linksOK none false = true) :
    Inv (insertCore st dict r idx inOrder clean track).1 := by
  refine ⟨insertCore_kidsOK st dict r idx inOrder clean track hk hrk,
   insertCore_linksOK st dict r idx inOrder clean track hl hrl,
   insertCore_goneOK st dict r idx inOrder clean track hl hg hrl, ?_⟩
  intro x hx
  have hnext : (insertCore st dict r idx inOrder clean track).1.next = st.next := by
    unfold insertCore
    split
    · rfl
    · rfl
    · split
      · split
        · rfl
        · split
          · dsimp only
            split
            · rfl
            · split <;> rfl
          · rfl
      · rfl
  rw [hnext]
  rcases insertCore_ids st dict r idx inOrder clean track x hx with h | ⟨y, hy, h⟩
  · rw [h]; exact hn
  · rw [← h]; exact Nat.lt_trans (hlt y hy) hn

/-- the rule object a dispatcher callback builds is well nested and fresh (names nothing; children name it) -/
theorem actOf_ins_ok {raising : Bool} {p : PSt} {s : Spec} {r : Rule} {nx : Nat} {nd : Dict} {cl : Bool}
    (h : actOf raising p s = .ins r nx nd cl) : r.kidsOK = true ∧ r.linksOK none false = true := by
  unfold actOf at h
  split at h
  · cases h
  · split at h
    · split at h
      · cases h
      · split at h
        · injection h with h; subst h; simp [Rule.kidsOK, Rule.kidsOKL, Rule.linksOK, Rule.linksOKL]
        · cases h
    · split at h
      · split at h
        · injection h with h; subst h; simp [Rule.kidsOK, Rule.kidsOKL, Rule.linksOK, Rule.linksOKL]
        · cases h
      · split at h
        · split at h
          · cases h
          · rename_i ks hks
            injection h with h; subst h
            have := parseMediaKids_ok _ _ _ _ _ ks hks
            simp only [Rule.kidsOK, Rule.linksOK, beq_self_eq_true, Bool.true_and]
            exact this
        · split at h
          · split at h
            · cases h
            · rename_i ks hks
              injection h with h; subst h
              have := parsePageKids_ok _ _ _ _ ks hks
              simp only [Rule.kidsOK, Rule.linksOK, beq_self_eq_true, Bool.true_and]
              exact this
          · rename_i h1 h2 h3 h4
            injection h with h; subst h
            refine ⟨?_, by simp [Rule.linksOK, Rule.linksOKL]⟩
            simp [Rule.kidsOK, Rule.kidsOKL]

theorem actOf_ins_id {raising : Bool} {p : PSt} {s : Spec} {r : Rule} {nx : Nat} {nd : Dict} {cl : Bool}
    (h : actOf raising p s = .ins r nx nd cl) : r.id = p.next ∧ p.next < nx := by
  unfold actOf at h
  split at h
  · cases h
  · split at h
    · split at h
      · cases h
      · split at h
        · injection h with h h2; subst h; subst h2; exact ⟨rfl, Nat.lt_succ_self _⟩
        · cases h
    · split at h
      · split at h
        · injection h with h h2; subst h; subst h2; exact ⟨rfl, Nat.lt_succ_self _⟩
        · cases h
      · split at h
        · split at h
          · cases h
          · rename_i ks hks
            injection h with h h2; subst h; subst h2
            exact ⟨rfl, Nat.lt_of_lt_of_le (Nat.lt_succ_self _) (parseMediaKids_next _ _ _ _ _ ks hks)⟩
        · split at h
          · split at h
            · cases h
            · rename_i ks hks
              injection h with h h2; subst h; subst h2
              exact ⟨rfl, Nat.lt_of_lt_of_le (Nat.lt_succ_self _) (parsePageKids_next _ _ _ _ ks hks)⟩
          · injection h with h h2; subst h; subst h2; exact ⟨rfl, Nat.lt_succ_self _⟩

/-- the three shapes of the rule list after one statement, with what is known about an inserted rule -/
theorem parseOne_acc' {raising : Bool} {p q : PSt} {s : Spec} (h : parseOne raising p s = .ok q) :
    (q.acc = p.acc ∧ q.next = p.next) ∨ (q.acc = replaceUri s.pre s.uri p.acc ∧ q.next = p.next) ∨
    ∃ r cl, r.kind = s.kind ∧ r.kidsOK = true ∧ r.linksOK none false = true ∧ r.id = p.next ∧ p.next < q.next ∧
      q.acc = (pInsert raising p r cl).1 := by
  unfold parseOne at h
  split at h
  · cases h
  · split at h
    · cases h
    · injection h with h; subst h
      left; split <;> exact ⟨rfl, rfl⟩
  · injection h with h; subst h; right; left; exact ⟨rfl, rfl⟩
  · rename_i r nx nd cl hact
    split at h
    · cases h
    · rename_i acc o hne hres
      injection h with h; subst h
      right; right
      exact ⟨r, cl, actOf_ins_kind hact, (actOf_ins_ok hact).1, (actOf_ins_ok hact).2, (actOf_ins_id hact).1,
        (actOf_ins_id hact).2, by simp [hres]⟩

theorem replaceUri_mem {p u : Cps} {l : List Rule} {x : Rule} (h : x ∈ replaceUri p u l) :
    ∃ y ∈ l, x = y ∨ x = { y with uri := u } := by
  unfold replaceUri at h
  obtain ⟨y, hy, rfl⟩ := List.mem_map.mp h
  refine ⟨y, hy, ?_⟩
  split
  · exact Or.inr rfl
  · exact Or.inl rfl

theorem uri_kidsOK (y : Rule) (u : Cps) : ({ y with uri := u } : Rule).kidsOK = y.kidsOK := by
  rw [kidsOK_eq, kidsOK_eq]
theorem uri_linksOK (y : Rule) (u : Cps) (p : Option Nat) (s : Bool) :
    ({ y with uri := u } : Rule).linksOK p s = y.linksOK p s := by
  rw [linksOK_eq, linksOK_eq]

/-- every rule of the list being built is well nested, names the sheet, and was created before `next` -/
def AccOK (p : PSt) : Prop := ∀ x ∈ p.acc, x.kidsOK = true ∧ x.linksOK none true = true ∧ x.id < p.next

theorem parseOne_accOK {raising : Bool} {p q : PSt} {s : Spec} (h : parseOne raising p s = .ok q)
    (hp : AccOK p) : AccOK q ∧ p.next ≤ q.next := by
  rcases parseOne_acc' h with ⟨h, hn⟩ | ⟨h, hn⟩ | ⟨r, cl, _, hk, hl, hid, hlt, h⟩
  · refine ⟨?_, by omega⟩
    intro x hx; rw [h] at hx; rw [hn]; exact hp x hx
  · refine ⟨?_, by omega⟩
    intro x hx
    rw [h] at hx; rw [hn]
    obtain ⟨y, hy, hxy | hxy⟩ := replaceUri_mem hx
    · rw [hxy]; exact hp y hy
    · rw [hxy, uri_kidsOK, uri_linksOK]; exact hp y hy
  · refine ⟨?_, by omega⟩
    intro x hx
    rw [h] at hx
    unfold pInsert at hx
    refine ⟨insertCore_kidsOK _ _ _ _ _ _ _ (fun y hy => (hp y hy).1) hk x hx,
      insertCore_linksOK _ _ _ _ _ _ _ (fun y hy => (hp y hy).2.1) hl x hx, ?_⟩
    rcases insertCore_ids _ _ _ _ _ _ _ x hx with h' | ⟨y, hy, h'⟩
    · rw [h', hid]; exact hlt
    · rw [← h']; exact Nat.lt_trans (hp y hy).2.2 hlt

theorem parseTop_accOK {raising : Bool} {specs : List Spec} {p q : PSt} (h : parseTop raising p specs = .ok q)
    (hp : AccOK p) : AccOK q ∧ p.next ≤ q.next := by
  induction specs generalizing p with
  | nil => simp only [parseTop] at h; injection h with h; subst h; exact ⟨hp, Nat.le_refl _⟩
  | cons s ss ih =>
    simp only [parseTop] at h
    split at h
    · cases h
    · rename_i p' hp'
      have h1 := parseOne_accOK hp' hp
      have h2 := ih h (show AccOK { p' with level := max 1 p'.level } from h1.1)
      exact ⟨h2.1, Nat.le_trans h1.2 h2.2⟩

theorem parseCand_ok {raising : Bool} {d : Dict} {n : Nat} {s : Spec} {c : Rule × Nat}
    (h : parseCand raising d n s = .ok (some c)) :
    c.1.kidsOK = true ∧ c.1.linksOK none false = true ∧ c.1.id = n ∧ n < c.2 := by
  unfold parseCand at h
  split at h
  · cases h
  · rename_i q hq
    split at h
    · rename_i r hacc
      injection h with h; injection h with h; subst h
      have hr : r ∈ q.acc := by simp [hacc]
      have := (parseOne_accOK hq (by intro x hx; cases hx)).1 r hr
      refine ⟨by simpa using this.1, detach_linksOK this.2.1, ?_, ?_⟩
      · -- the only rule of the temp sheet is the one the callback built, with id `n`
        rcases parseOne_acc' hq with ⟨h', _⟩ | ⟨h', _⟩ | ⟨r', cl, _, _, _, hid, _, h'⟩
        · rw [hacc] at h'; cases h'
        · rw [hacc] at h'; simp [replaceUri] at h'
        · have hx : r ∈ (pInsert raising { acc := [], nd := d, level := 0, next := n } r' cl).1 := by rw [← h']; exact hr
          unfold pInsert at hx
          rcases insertCore_ids _ _ _ _ _ _ _ r hx with h'' | ⟨y, hy, _⟩
          · show r.id = n
            rw [h'', hid]
          · cases hy
      · rcases parseOne_acc' hq with ⟨h', _⟩ | ⟨h', _⟩ | ⟨r', cl, _, _, _, _, hlt, _⟩
        · rw [hacc] at h'; cases h'
        · rw [hacc] at h'; simp [replaceUri] at h'
        · exact hlt
    · cases h

/-! ### operations on the sheet's own list keep `Inv` outside the regions -/

theorem place_reject {l : List Kind} {k : Kind} {idx : Nat} {io : Bool} {e : Err}
    (h : place l k idx io = .reject e) : e = .hierarchy := by
  unfold place at h
  try dsimp only at h
  repeat' split at h
  all_goals first | (injection h with h; exact h.symm) | cases h

theorem logError_ne {raising : Bool} {e e' : Err} (h : e ≠ e') : logError raising e ≠ .err e' := by
  unfold logError; split <;> simp [h]

theorem insertRule_inv (st : St) (s : Spec) (index : Option Int) (inOrder viaStr track : Bool) (h : Inv st)
    (hs : viaStr = true ∨ s.kidsOK = true) :
    Inv (insertRule st s index inOrder viaStr track).1 := by
  unfold insertRule
  dsimp only
  split
  · rename_i hv
    split
    · exact h
    · rename_i idx hi
      split
      · exact h
      · exact h
      · rename_i c hc
        have hc' := parseCand_ok hc
        refine insertCore_inv { rules := st.rules, gone := st.gone, next := c.2, raising := st.raising }
          _ _ _ _ _ _ h.kids h.links h.gone ?_ ?_ hc'.1 hc'.2.1
        · intro x hx; rw [hc'.2.2.1]; exact h.ids x hx
        · rw [hc'.2.2.1]; exact hc'.2.2.2
  · rename_i hv
    have hv' : viaStr = false := by simpa using hv
    have hfresh : ∀ g ∈ (if track = true then [(Spec.inst none st.next s).1] else []),
        g.linksOK none false = true := by
      intro g hg
      split at hg
      · have : g = (Spec.inst none st.next s).1 := by simpa using hg
        rw [this]; exact inst_linksOK none st.next s
      · cases hg
    have hheld : ∀ g ∈ st.gone ++ (if track = true then [(Spec.inst none st.next s).1] else []),
        g.linksOK none false = true := by
      intro g hg
      rcases List.mem_append.mp hg with hg | hg
      · exact h.gone g hg
      · exact hfresh g hg
    have hids : ∀ x ∈ st.rules, x.id < (Spec.inst none st.next s).2 :=
      fun x hx => Nat.lt_trans (h.ids x hx) (inst_next none st.next s)
    split
    · exact ⟨h.kids, h.links, hheld, hids⟩
    · rename_i idx hi
      split
      · exact ⟨h.kids, h.links, hheld, hids⟩
      · rename_i hwf
        have hsk : s.kidsOK = true := by
          rcases hs with hs | hs
          · rw [hv'] at hs; cases hs
          · exact hs
        refine insertCore_inv
          { rules := st.rules, gone := st.gone, next := (Spec.inst none st.next s).2, raising := st.raising }
          _ _ _ _ _ _ h.kids h.links h.gone ?_ ?_ (inst_kidsOK none st.next s hsk) (inst_linksOK none st.next s)
        · intro x hx; rw [inst_id]; exact h.ids x hx
        · rw [inst_id]; exact inst_next none st.next s

theorem deleteRule_inv (st : St) (i : Int) (h : Inv st) : Inv (deleteRule st i).1 := by
  unfold deleteRule
  split
  · exact h
  · rename_i n _
    split
    · exact h
    · rename_i r hr
      split
      · exact h
      · have hsub : (st.rules.eraseIdx n).Sublist st.rules := List.eraseIdx_sublist _ _
        refine ⟨fun x hx => h.kids x (hsub.subset hx), fun x hx => h.links x (hsub.subset hx), ?_,
          fun x hx => h.ids x (hsub.subset hx)⟩
        intro g hg
        rcases List.mem_append.mp hg with hg | hg
        · exact h.gone g hg
        · have : g = r.detach := by simpa using hg
          rw [this]
          exact detach_linksOK (h.links r (List.mem_of_getElem? hr))

theorem deleteRule_err_unchanged (st : St) (i : Int) (e : Err) (h : (deleteRule st i).2 = .err e) :
    (deleteRule st i).1 = st := by
  unfold deleteRule at *
  split <;> try rfl
  split <;> try rfl
  split <;> simp_all

theorem setEncoding_inv (st : St) (e : Cps) (valid : Bool) (h : Inv st) : Inv (setEncoding st e valid).1 := by
  have hfresh : Inv ((if e.isEmpty = true then (st, Outcome.none)
      else if (!valid) = true then (st, logError st.raising .syntaxErr)
      else ((insertRule st ⟨.charset, [], [], e, [], []⟩ (some 0) false false false).1,
        match (insertRule st ⟨.charset, [], [], e, [], []⟩ (some 0) false false false).2 with
        | .ok _ => Outcome.none
        | o => o)) : St × Outcome).1 := by
    split
    · exact h
    · split
      · exact h
      · exact insertRule_inv st _ _ false false false h (Or.inr (by simp [Spec.kidsOK, Spec.kidsOKL]))
  unfold setEncoding
  dsimp only
  split
  · exact hfresh
  · rename_i r rest hr
    split
    · split
      · split
        · refine ⟨?_, ?_, h.gone, ?_⟩
          · intro x hx
            rcases List.mem_cons.mp hx with hx | hx
            · rw [hx, enc_kidsOK]; exact h.kids r (by simp [hr])
            · exact h.kids x (by simp [hr, hx])
          · intro x hx
            rcases List.mem_cons.mp hx with hx | hx
            · rw [hx, enc_linksOK]; exact h.links r (by simp [hr])
            · exact h.links x (by simp [hr, hx])
          · intro x hx
            rcases List.mem_cons.mp hx with hx | hx
            · rw [hx]; exact h.ids r (by simp [hr])
            · exact h.ids x (by simp [hr, hx])
        · exact h
      · exact deleteRule_inv st 0 h
    · exact hfresh

theorem nsDel_inv (st : St) (p : Cps) (h : Inv st) : Inv (nsDel st p).1 := by
  unfold nsDel
  split
  · exact deleteRule_inv st _ h
  · exact h

theorem nsSet_inv (st : St) (p u : Cps) (h : Inv st) : Inv (nsSet st p u).1 := by
  unfold nsSet
  split
  · exact insertRule_inv st _ none true false false h (Or.inr (by simp [Spec.kidsOK, Spec.kidsOKL]))
  · split
    · exact h
    · split <;> exact h

/-- `sheet.cssText = …`: refused (nothing changes) or accepted (new tree valid, the replaced rules detached) -/
theorem setText_inv (st : St) (specs : List Spec) (h : Inv st) : Inv (setText st specs).1 := by
  unfold setText
  split
  · exact h
  · rename_i p hp
    have hacc := (parseTop_accOK hp (by intro x hx; cases hx)).1
    have hsub := cleanNamespaces_sublist p.acc
    refine ⟨fun x hx => (hacc x (hsub.subset hx)).1, fun x hx => (hacc x (hsub.subset hx)).2.1, ?_,
      fun x hx => (hacc x (hsub.subset hx)).2.2⟩
    intro g hg
    rcases List.mem_append.mp hg with hg | hg
    · exact h.gone g hg
    · obtain ⟨y, hy, rfl⟩ := List.mem_map.mp hg
      exact detach_linksOK (h.links y hy)

/-! ### operations on nested lists -/

/-- every rule of the list names `p` as parent rule and has `_parentStyleSheet is sheet = s` -/
def linksAll (p : Option Nat) (s : Bool) (l : List Rule) : Bool := l.all (fun r => r.linksOK p s)

theorem linksOKL_linksAll (p : Option Nat) (l : List Rule) : Rule.linksOKL p l = linksAll p false l := linksOKL_eq p l

theorem linksAll_set {p : Option Nat} {s : Bool} {l : List Rule} {i : Nat} {c c0 : Rule}
    (h : linksAll p s l = true) (h0 : l[i]? = some c0) (hid : c.id = c0.id) (hpss : c.pss = c0.pss)
    (hpr : c.prule = c0.prule) (hk : Rule.linksOKL (some c.id) c.kids = true) :
    linksAll p s (l.set i c) = true := by
  unfold linksAll at *
  rw [List.all_eq_true] at *
  intro x hx
  rcases List.mem_or_eq_of_mem_set hx with hx | hx
  · exact h x hx
  · subst hx
    have := h c0 (List.mem_of_getElem? h0)
    rw [linksOK_eq] at this ⊢
    simp only [Bool.and_eq_true] at this ⊢
    exact ⟨⟨by rw [hpss]; exact this.1.1, by rw [hpr]; exact this.1.2⟩, hk⟩

theorem linksAll_setPath (p : Option Nat) (s : Bool) (rules : List Rule) (path : List Nat) (c c0 : Rule)
    (h : linksAll p s rules = true) (h0 : atPath rules path = some c0) (hid : c.id = c0.id)
    (hpss : c.pss = c0.pss) (hpr : c.prule = c0.prule) (hk : Rule.linksOKL (some c.id) c.kids = true) :
    linksAll p s (setPath rules c path) = true := by
  induction path generalizing rules p s with
  | nil => simp [atPath] at h0
  | cons i rest ih =>
    cases rest with
    | nil =>
      simp only [atPath] at h0
      simp only [setPath]
      exact linksAll_set h h0 hid hpss hpr hk
    | cons j q =>
      simp only [atPath] at h0
      simp only [setPath]
      split
      · exact h
      · rename_i r hr
        simp only [hr] at h0
        have hr' : r.linksOK p s = true := (List.all_eq_true.mp h) r (List.mem_of_getElem? hr)
        rw [linksOK_eq] at hr'
        simp only [Bool.and_eq_true] at hr'
        refine linksAll_set (c := { r with kids := setPath r.kids c (j :: q) }) h hr rfl rfl rfl ?_
        rw [linksOKL_linksAll]
        exact ih (some r.id) false r.kids (by rw [← linksOKL_linksAll]; exact hr'.2) h0

theorem atPath_kidsOK (A : Kind → Bool) (rules : List Rule) (path : List Nat) (c : Rule)
    (h : allOK A rules = true) (h0 : atPath rules path = some c) : c.kidsOK = true := by
  induction path generalizing rules A with
  | nil => simp [atPath] at h0
  | cons i rest ih =>
    cases rest with
    | nil =>
      simp only [atPath] at h0
      have := (List.all_eq_true.mp h) c (List.mem_of_getElem? h0)
      simp only [Bool.and_eq_true] at this; exact this.2
    | cons j q =>
      simp only [atPath] at h0
      split at h0
      · cases h0
      · rename_i r hr
        have := (List.all_eq_true.mp h) r (List.mem_of_getElem? hr)
        simp only [Bool.and_eq_true] at this
        have hr' := this.2
        rw [kidsOK_eq, kidsOKL_allOK] at hr'
        exact ih _ r.kids hr' h0

theorem atPath_linksOK (p : Option Nat) (s : Bool) (rules : List Rule) (path : List Nat) (c : Rule)
    (h : linksAll p s rules = true) (h0 : atPath rules path = some c) :
    Rule.linksOKL (some c.id) c.kids = true := by
  induction path generalizing rules p s with
  | nil => simp [atPath] at h0
  | cons i rest ih =>
    cases rest with
    | nil =>
      simp only [atPath] at h0
      have := (List.all_eq_true.mp h) c (List.mem_of_getElem? h0)
      rw [linksOK_eq] at this
      simp only [Bool.and_eq_true] at this; exact this.2
    | cons j q =>
      simp only [atPath] at h0
      split at h0
      · cases h0
      · rename_i r hr
        have := (List.all_eq_true.mp h) r (List.mem_of_getElem? hr)
        rw [linksOK_eq] at this
        simp only [Bool.and_eq_true] at this
        exact ih (some r.id) false r.kids (by rw [← linksOKL_linksAll]; exact this.2) h0

theorem set_self_of_getElem? {α} (l : List α) (i : Nat) (c : α) (h : l[i]? = some c) : l.set i c = l := by
  apply List.ext_getElem?
  intro j
  by_cases hj : i = j
  · subst hj; rw [List.getElem?_set_self']; simp [h]
  · rw [List.getElem?_set_ne hj]

theorem setPath_self (rules : List Rule) (path : List Nat) (c : Rule) (h0 : atPath rules path = some c) :
    setPath rules c path = rules := by
  induction path generalizing rules with
  | nil => rfl
  | cons i rest ih =>
    cases rest with
    | nil =>
      simp only [atPath] at h0
      simp only [setPath]
      exact set_self_of_getElem? _ _ _ h0
    | cons j q =>
      simp only [atPath] at h0
      simp only [setPath]
      split
      · rfl
      · rename_i r hr
        simp only [hr] at h0
        rw [ih r.kids h0]
        exact set_self_of_getElem? _ _ _ (by rw [hr]; cases r; rfl)

theorem inv_top_allOK {st : St} (h : Inv st) : allOK (fun _ => true) st.rules = true := by
  unfold allOK; rw [List.all_eq_true]; intro x hx; simp [h.kids x hx]

theorem inv_top_linksAll {st : St} (h : Inv st) : linksAll none true st.rules = true := by
  unfold linksAll; rw [List.all_eq_true]; exact h.links

theorem allOK_top_iff {l : List Rule} (h : allOK (fun _ => true) l = true) : ∀ x ∈ l, x.kidsOK = true := by
  intro x hx
  have := (List.all_eq_true.mp h) x hx
  simpa using this

theorem ids_set_same (l : List Rule) (i : Nat) (c c0 : Rule) (h0 : l[i]? = some c0) (hk : c.id = c0.id) :
    (l.set i c).map (·.id) = l.map (·.id) := by
  rw [List.map_set, hk]
  apply List.ext_getElem?
  intro j
  by_cases hj : i = j
  · subst hj
    rw [List.getElem?_set_self']
    simp [h0]
  · rw [List.getElem?_set_ne hj]

theorem ids_setPath (rules : List Rule) (path : List Nat) (c c0 : Rule)
    (h0 : atPath rules path = some c0) (hk : c.id = c0.id) :
    (setPath rules c path).map (·.id) = rules.map (·.id) := by
  match path with
  | [] => simp [atPath] at h0
  | [i] =>
    simp only [atPath] at h0
    simp only [setPath]
    exact ids_set_same rules i c c0 h0 hk
  | i :: j :: p =>
    simp only [atPath] at h0
    simp only [setPath]
    split
    · rfl
    · rename_i r hr
      exact ids_set_same rules i _ r hr rfl

/-- replacing a container in the tree by one with the same header whose own list is fine keeps `Inv` -/
theorem inv_setPath {st : St} (h : Inv st) (path : List Nat) (c c0 : Rule) (n : Nat) (extra : List Rule)
    (h0 : atPath st.rules path = some c0) (hk : c.kind = c0.kind) (hid : c.id = c0.id) (hpss : c.pss = c0.pss)
    (hpr : c.prule = c0.prule) (hkids : c.kidsOK = true) (hlinks : Rule.linksOKL (some c.id) c.kids = true)
    (hextra : ∀ g ∈ extra, g.linksOK none false = true) (hn : st.next ≤ n) :
    Inv { rules := setPath st.rules c path, gone := st.gone ++ extra, next := n, raising := st.raising } := by
  refine ⟨?_, ?_, ?_, ?_⟩
  · exact allOK_top_iff (allOK_setPath _ _ _ _ _ (inv_top_allOK h) h0 hk hkids)
  · have := linksAll_setPath none true _ _ _ _ (inv_top_linksAll h) h0 hid hpss hpr hlinks
    exact List.all_eq_true.mp this
  · intro g hg
    rcases List.mem_append.mp hg with hg | hg
    · exact h.gone g hg
    · exact hextra g hg
  · intro x hx
    have : x.id ∈ (setPath st.rules c path).map (·.id) := List.mem_map.mpr ⟨x, hx, rfl⟩
    rw [ids_setPath _ _ _ _ h0 hid] at this
    obtain ⟨y, hy, hyx⟩ := List.mem_map.mp this
    show x.id < n
    rw [← hyx]; exact Nat.lt_of_lt_of_le (h.ids y hy) hn

theorem cInsert_header (raising : Bool) (c r : Rule) (index : Option Int) (viaStr : Bool) :
    (cInsert raising c r index viaStr).1.id = c.id ∧ (cInsert raising c r index viaStr).1.pss = c.pss ∧
    (cInsert raising c r index viaStr).1.prule = c.prule := by
  unfold cInsert
  dsimp only
  split
  · exact ⟨rfl, rfl, rfl⟩
  · split <;> exact ⟨rfl, rfl, rfl⟩

theorem kid_kidsOK (r : Rule) (p : Option Nat) (s : Bool) : ({ r with prule := p, pss := s } : Rule).kidsOK = r.kidsOK := by
  rw [kidsOK_eq, kidsOK_eq]

theorem kid_linksOK {r : Rule} (cid : Nat) (h : r.linksOK none false = true) :
    ({ r with prule := some cid, pss := false } : Rule).linksOK (some cid) false = true := by
  rw [linksOK_eq] at *
  simp only [Bool.and_eq_true, beq_iff_eq] at h ⊢
  exact ⟨by simp, h.2⟩

theorem cInsert_kidsOK (raising : Bool) (c r : Rule) (index : Option Int) (viaStr : Bool)
    (hc : c.kidsOK = true) (hr : r.kidsOK = true)
    (hreg : containerRejects c.kind r.kind = false → allowedIn c.kind r.kind = true) :
    (cInsert raising c r index viaStr).1.kidsOK = true := by
  unfold cInsert
  dsimp only
  split
  · exact hc
  · split
    · exact hc
    · rename_i idx _ hrej
      rw [kidsOK_eq, kidsOKL_eq] at hc ⊢
      rw [List.all_eq_true] at hc ⊢
      intro x hx
      rcases mem_pyInsert hx with hx | hx
      · rw [hx]
        simp only [Bool.and_eq_true]
        exact ⟨hreg (by simpa using hrej), by rw [kid_kidsOK]; exact hr⟩
      · exact hc x hx

theorem cInsert_links (raising : Bool) (c r : Rule) (index : Option Int) (viaStr : Bool)
    (hc : Rule.linksOKL (some c.id) c.kids = true) (hr : r.linksOK none false = true) :
    Rule.linksOKL (some (cInsert raising c r index viaStr).1.id) (cInsert raising c r index viaStr).1.kids = true ∧
    ∀ g ∈ (cInsert raising c r index viaStr).2.1, g.linksOK none false = true := by
  have hheld : ∀ g ∈ (if viaStr = true then [] else [r]), g.linksOK none false = true := by
    intro g hg
    split at hg
    · cases hg
    · have : g = r := by simpa using hg
      rw [this]; exact hr
  unfold cInsert
  dsimp only
  split
  · exact ⟨hc, hheld⟩
  · split
    · exact ⟨hc, hheld⟩
    · refine ⟨?_, by intro g hg; cases hg⟩
      rw [linksOKL_eq] at hc ⊢
      rw [List.all_eq_true] at hc ⊢
      intro x hx
      rcases mem_pyInsert hx with hx | hx
      · rw [hx]; exact kid_linksOK c.id hr
      · exact hc x hx

/-- what `container.insertRule` lets through is what the container may hold (facts about the generated isinstance
tests) -/
theorem f_container : ∀ ck k : Kind, containerRejects ck k = false → allowedIn ck k = true := by
  intro ck k; cases ck <;> cases k <;> decide

theorem nInsert_inv (st : St) (path : List Nat) (s : Spec) (index : Option Int) (viaStr : Bool) (h : Inv st)
    (hs : viaStr = true ∨ s.kidsOK = true) :
    Inv (nInsert st path s index viaStr).1 := by
  have hreg : ∀ c, atPath st.rules path = some c →
      containerRejects c.kind s.kind = false → allowedIn c.kind s.kind = true := fun c _ => f_container c.kind s.kind
  unfold nInsert
  split
  · exact h
  · rename_i c hc
    have hck := atPath_kidsOK _ _ _ _ (inv_top_allOK h) hc
    have hcl := atPath_linksOK _ _ _ _ _ (inv_top_linksAll h) hc
    split
    · exact h
    · split
      · split
        · exact h
        · split
          · exact h
          · exact h
          · rename_i i hi
            have hi' := parseCand_ok hi
            have hhead := cInsert_header st.raising c i.1 index true
            have hl := cInsert_links st.raising c i.1 index true hcl hi'.2.1
            exact inv_setPath h path _ c _ _ hc (cInsert_kind _ _ _ _ _) hhead.1 hhead.2.1 hhead.2.2
              (cInsert_kidsOK _ _ _ _ _ hck hi'.1 (by rw [parseCand_kind hi]; exact hreg c hc)) hl.1 hl.2
              (Nat.le_of_lt hi'.2.2.2)
      · rename_i hv
        have hsk : s.kidsOK = true := by
          rcases hs with hs | hs
          · exact absurd hs hv
          · exact hs
        have hhead := cInsert_header st.raising c (Spec.inst none st.next s).1 index false
        have hl := cInsert_links st.raising c (Spec.inst none st.next s).1 index false hcl (inst_linksOK none st.next s)
        exact inv_setPath h path _ c _ _ hc (cInsert_kind _ _ _ _ _) hhead.1 hhead.2.1 hhead.2.2
          (cInsert_kidsOK _ _ _ _ _ hck (inst_kidsOK none st.next s hsk) (by rw [inst_kind]; exact hreg c hc)) hl.1 hl.2
          (Nat.le_of_lt (inst_next none st.next s))

theorem nDelete_inv (st : St) (path : List Nat) (i : Int) (h : Inv st) : Inv (nDelete st path i).1 := by
  unfold nDelete
  split
  · exact h
  · rename_i c hc
    have hck := atPath_kidsOK _ _ _ _ (inv_top_allOK h) hc
    have hcl := atPath_linksOK _ _ _ _ _ (inv_top_linksAll h) hc
    split
    · exact h
    · unfold cDelete
      split
      · have := inv_setPath h path c c st.next [] hc rfl rfl rfl rfl hck hcl (by intro g hg; cases hg) (Nat.le_refl _)
        simpa using this
      · rename_i n _
        split
        · have := inv_setPath h path c c st.next [] hc rfl rfl rfl rfl hck hcl (by intro g hg; cases hg) (Nat.le_refl _)
          simpa using this
        · rename_i k hk
          have hsub : (c.kids.eraseIdx n).Sublist c.kids := List.eraseIdx_sublist _ _
          refine inv_setPath h path _ c st.next _ hc rfl rfl rfl rfl ?_ ?_ ?_ (Nat.le_refl _)
          · rw [kidsOK_eq, kidsOKL_eq] at hck ⊢
            rw [List.all_eq_true] at hck ⊢
            intro x hx; exact hck x (hsub.subset hx)
          · rw [linksOKL_eq] at hcl ⊢
            rw [List.all_eq_true] at hcl ⊢
            intro x hx; exact hcl x (hsub.subset hx)
          · intro g hg
            have : g = { k with prule := none } := by simpa using hg
            rw [this]
            rw [linksOKL_eq, List.all_eq_true] at hcl
            have hkl := hcl k (List.mem_of_getElem? hk)
            rw [linksOK_eq] at hkl ⊢
            simp only [Bool.and_eq_true, beq_iff_eq] at hkl ⊢
            exact ⟨by simp [hkl.1.1], hkl.2⟩

theorem nSetText_inv (st : St) (path : List Nat) (kids : List Spec) (h : Inv st) :
    Inv (nSetText st path kids).1 := by
  unfold nSetText
  split
  · exact h
  · rename_i c hc
    have hck := atPath_kidsOK _ _ _ _ (inv_top_allOK h) hc
    have hcl := atPath_linksOK _ _ _ _ _ (inv_top_linksAll h) hc
    split
    · exact h
    · rename_i hcont
      have hcont' : isContainer c = true := by simpa using hcont
      unfold cSetText
      dsimp only
      split
      · have := inv_setPath h path c c st.next [] hc rfl rfl rfl rfl hck hcl (by intro g hg; cases hg) (Nat.le_refl _)
        simpa using this
      · rename_i ks hks
        have hnew : Rule.kidsOKL c.kind ks.1 = true ∧ Rule.linksOKL (some c.id) ks.1 = true ∧ st.next ≤ ks.2 := by
          split at hks
          · rename_i hm
            rw [hm]
            exact ⟨(parseMediaKids_ok _ _ _ _ _ ks hks).1, (parseMediaKids_ok _ _ _ _ _ ks hks).2,
              parseMediaKids_next _ _ _ _ _ ks hks⟩
          · rename_i hm
            have hp : c.kind = .page := by
              unfold isContainer at hcont'
              simp only [Bool.or_eq_true, decide_eq_true_eq] at hcont'
              rcases hcont' with h' | h'
              · exact absurd h' hm
              · exact h'
            rw [hp]
            exact ⟨(parsePageKids_ok _ _ _ _ ks hks).1, (parsePageKids_ok _ _ _ _ ks hks).2,
              parsePageKids_next _ _ _ _ ks hks⟩
        refine inv_setPath h path _ c _ _ hc rfl rfl rfl rfl ?_ hnew.2.1 ?_ hnew.2.2
        · rw [kidsOK_eq]; exact hnew.1
        · -- the replaced children are detached
          intro g hg
          obtain ⟨k, hk, rfl⟩ := List.mem_map.mp hg
          rw [linksOKL_eq, List.all_eq_true] at hcl
          have hkl := hcl k hk
          rw [linksOK_eq] at hkl ⊢
          simp only [Bool.and_eq_true, beq_iff_eq] at hkl ⊢
          exact ⟨by simp [hkl.1.1], hkl.2⟩

/-! ### the live tree alone: no hypothesis and no conclusion about dropped objects

The findings C09-add-charset-adopts and C09-text-replace-keeps-parent only concern objects that are NOT in the tree.
The following restatements show that the tree itself (nested kinds, links of every rule in it, ids) stays valid
under those operations too. -/

structure Live (st : St) : Prop where
  kids : ∀ r ∈ st.rules, r.kidsOK = true
  links : ∀ r ∈ st.rules, r.linksOK none true = true
  ids : ∀ r ∈ st.rules, r.id < st.next

theorem Inv.live {st : St} (h : Inv st) : Live st := ⟨h.kids, h.links, h.ids⟩

/-- forgetting the dropped objects -/
def St.forget (st : St) : St := { st with gone := [] }

theorem live_forget_inv {st : St} (h : Live st) : Inv st.forget := by
  refine ⟨h.kids, h.links, ?_, h.ids⟩
  intro g hg
  simp [St.forget] at hg

theorem insertCore_forget (st : St) (dict : Dict) (r : Rule) (idx : Nat) (inOrder clean track : Bool) :
    (insertCore st.forget dict r idx inOrder clean track).1.rules = (insertCore st dict r idx inOrder clean track).1.rules ∧
    (insertCore st.forget dict r idx inOrder clean track).1.next = (insertCore st dict r idx inOrder clean track).1.next := by
  unfold insertCore St.forget
  dsimp only
  split
  · exact ⟨rfl, rfl⟩
  · exact ⟨rfl, rfl⟩
  · split
    · split
      · exact ⟨rfl, rfl⟩
      · split
        · split
          · exact ⟨rfl, rfl⟩
          · split <;> exact ⟨rfl, rfl⟩
        · exact ⟨rfl, rfl⟩
    · exact ⟨rfl, rfl⟩

theorem insertCore_live (st : St) (dict : Dict) (r : Rule) (idx : Nat) (inOrder clean track : Bool)
    (hk : ∀ x ∈ st.rules, x.kidsOK = true) (hl : ∀ x ∈ st.rules, x.linksOK none true = true)
    (hlt : ∀ x ∈ st.rules, x.id < r.id) (hn : r.id < st.next)
    (hrk : r.kidsOK = true) (hrl : r.linksOK none false = true) :
    Live (insertCore st dict r idx inOrder clean track).1 := by
  have h := insertCore_inv st.forget dict r idx inOrder clean false hk hl (by intro g hg; cases hg) hlt hn hrk hrl
  have hf := insertCore_forget st dict r idx inOrder clean false
  have hf2 : (insertCore st dict r idx inOrder clean track).1.rules = (insertCore st dict r idx inOrder clean false).1.rules ∧
      (insertCore st dict r idx inOrder clean track).1.next = (insertCore st dict r idx inOrder clean false).1.next := by
    unfold insertCore
    split
    · exact ⟨rfl, rfl⟩
    · exact ⟨rfl, rfl⟩
    · split
      · split
        · exact ⟨rfl, rfl⟩
        · split
          · dsimp only
            split
            · exact ⟨rfl, rfl⟩
            · split <;> exact ⟨rfl, rfl⟩
          · exact ⟨rfl, rfl⟩
      · exact ⟨rfl, rfl⟩
  refine ⟨?_, ?_, ?_⟩
  · rw [hf2.1, ← hf.1]; exact h.kids
  · rw [hf2.1, ← hf.1]; exact h.links
  · rw [hf2.1, hf2.2, ← hf.1, ← hf.2]; exact h.ids

theorem insertRule_live (st : St) (s : Spec) (index : Option Int) (inOrder viaStr track : Bool) (h : Live st)
    (hs : viaStr = true ∨ s.kidsOK = true) : Live (insertRule st s index inOrder viaStr track).1 := by
  unfold insertRule
  dsimp only
  split
  · split
    · exact h
    · split
      · exact h
      · exact h
      · rename_i c hc
        have hc' := parseCand_ok hc
        refine insertCore_live { rules := st.rules, gone := st.gone, next := c.2, raising := st.raising }
          _ _ _ _ _ _ h.kids h.links ?_ ?_ hc'.1 hc'.2.1
        · intro x hx; rw [hc'.2.2.1]; exact h.ids x hx
        · rw [hc'.2.2.1]; exact hc'.2.2.2
  · rename_i hv
    have hv' : viaStr = false := by simpa using hv
    have hids : ∀ x ∈ st.rules, x.id < (Spec.inst none st.next s).2 :=
      fun x hx => Nat.lt_trans (h.ids x hx) (inst_next none st.next s)
    split
    · exact ⟨h.kids, h.links, hids⟩
    · split
      · exact ⟨h.kids, h.links, hids⟩
      · have hsk : s.kidsOK = true := by
          rcases hs with hs | hs
          · rw [hv'] at hs; cases hs
          · exact hs
        refine insertCore_live
          { rules := st.rules, gone := st.gone, next := (Spec.inst none st.next s).2, raising := st.raising }
          _ _ _ _ _ _ h.kids h.links ?_ ?_ (inst_kidsOK none st.next s hsk) (inst_linksOK none st.next s)
        · intro x hx; rw [inst_id]; exact h.ids x hx
        · rw [inst_id]; exact inst_next none st.next s

theorem deleteRule_live (st : St) (i : Int) (h : Live st) : Live (deleteRule st i).1 := by
  unfold deleteRule
  split
  · exact h
  · rename_i n _
    split
    · exact h
    · split
      · exact h
      · have hsub : (st.rules.eraseIdx n).Sublist st.rules := List.eraseIdx_sublist _ _
        exact ⟨fun x hx => h.kids x (hsub.subset hx), fun x hx => h.links x (hsub.subset hx),
          fun x hx => h.ids x (hsub.subset hx)⟩

theorem setEncoding_live (st : St) (e : Cps) (valid : Bool) (h : Live st) : Live (setEncoding st e valid).1 := by
  have hfresh : Live ((if e.isEmpty = true then (st, Outcome.none)
      else if (!valid) = true then (st, logError st.raising .syntaxErr)
      else ((insertRule st ⟨.charset, [], [], e, [], []⟩ (some 0) false false false).1,
        match (insertRule st ⟨.charset, [], [], e, [], []⟩ (some 0) false false false).2 with
        | .ok _ => Outcome.none
        | o => o)) : St × Outcome).1 := by
    split
    · exact h
    · split
      · exact h
      · exact insertRule_live st _ _ false false false h (Or.inr (by simp [Spec.kidsOK, Spec.kidsOKL]))
  unfold setEncoding
  dsimp only
  split
  · exact hfresh
  · rename_i r rest hr
    split
    · split
      · split
        · refine ⟨?_, ?_, ?_⟩
          · intro x hx
            rcases List.mem_cons.mp hx with hx | hx
            · rw [hx, enc_kidsOK]; exact h.kids r (by simp [hr])
            · exact h.kids x (by simp [hr, hx])
          · intro x hx
            rcases List.mem_cons.mp hx with hx | hx
            · rw [hx, enc_linksOK]; exact h.links r (by simp [hr])
            · exact h.links x (by simp [hr, hx])
          · intro x hx
            rcases List.mem_cons.mp hx with hx | hx
            · rw [hx]; exact h.ids r (by simp [hr])
            · exact h.ids x (by simp [hr, hx])
        · exact h
      · exact deleteRule_live st 0 h
    · exact hfresh

theorem nsDel_live (st : St) (p : Cps) (h : Live st) : Live (nsDel st p).1 := by
  unfold nsDel
  split
  · exact deleteRule_live st _ h
  · exact h

theorem nsSet_live (st : St) (p u : Cps) (h : Live st) : Live (nsSet st p u).1 := by
  unfold nsSet
  split
  · exact insertRule_live st _ none true false false h (Or.inr (by simp [Spec.kidsOK, Spec.kidsOKL]))
  · split
    · exact h
    · split <;> exact h

/-- an accepted `sheet.cssText = …` always builds a valid tree — on any sheet -/
theorem setText_live (st : St) (specs : List Spec) (h : Live st) : Live (setText st specs).1 := by
  unfold setText
  split
  · exact h
  · rename_i p hp
    have hacc := (parseTop_accOK hp (by intro x hx; cases hx)).1
    have hsub := cleanNamespaces_sublist p.acc
    exact ⟨fun x hx => (hacc x (hsub.subset hx)).1, fun x hx => (hacc x (hsub.subset hx)).2.1,
      fun x hx => (hacc x (hsub.subset hx)).2.2⟩

theorem live_setPath {st : St} (h : Live st) (path : List Nat) (c c0 : Rule) (n : Nat) (g : List Rule)
    (h0 : atPath st.rules path = some c0) (hk : c.kind = c0.kind) (hid : c.id = c0.id) (hpss : c.pss = c0.pss)
    (hpr : c.prule = c0.prule) (hkids : c.kidsOK = true) (hlinks : Rule.linksOKL (some c.id) c.kids = true)
    (hn : st.next ≤ n) :
    Live { rules := setPath st.rules c path, gone := g, next := n, raising := st.raising } := by
  have := inv_setPath (live_forget_inv h) path c c0 n [] h0 hk hid hpss hpr hkids hlinks
    (by intro g hg; cases hg) hn
  exact ⟨this.kids, this.links, this.ids⟩

theorem nInsert_live (st : St) (path : List Nat) (s : Spec) (index : Option Int) (viaStr : Bool) (h : Live st)
    (hs : viaStr = true ∨ s.kidsOK = true) :
    Live (nInsert st path s index viaStr).1 := by
  have hreg : ∀ c, atPath st.rules path = some c →
      containerRejects c.kind s.kind = false → allowedIn c.kind s.kind = true := fun c _ => f_container c.kind s.kind
  have hi := live_forget_inv h
  unfold nInsert
  split
  · exact h
  · rename_i c hc
    have hck := atPath_kidsOK _ _ _ _ (inv_top_allOK hi) hc
    have hcl := atPath_linksOK _ _ _ _ _ (inv_top_linksAll hi) hc
    split
    · exact h
    · split
      · split
        · exact h
        · split
          · exact h
          · exact h
          · rename_i i hi'
            have hi'' := parseCand_ok hi'
            have hhead := cInsert_header st.raising c i.1 index true
            have hl := cInsert_links st.raising c i.1 index true hcl hi''.2.1
            exact live_setPath h path _ c _ _ hc (cInsert_kind _ _ _ _ _) hhead.1 hhead.2.1 hhead.2.2
              (cInsert_kidsOK _ _ _ _ _ hck hi''.1 (by rw [parseCand_kind hi']; exact hreg c hc)) hl.1
              (Nat.le_of_lt hi''.2.2.2)
      · rename_i hv
        have hsk : s.kidsOK = true := by
          rcases hs with hs | hs
          · exact absurd hs hv
          · exact hs
        have hhead := cInsert_header st.raising c (Spec.inst none st.next s).1 index false
        have hl := cInsert_links st.raising c (Spec.inst none st.next s).1 index false hcl (inst_linksOK none st.next s)
        exact live_setPath h path _ c _ _ hc (cInsert_kind _ _ _ _ _) hhead.1 hhead.2.1 hhead.2.2
          (cInsert_kidsOK _ _ _ _ _ hck (inst_kidsOK none st.next s hsk) (by rw [inst_kind]; exact hreg c hc)) hl.1
          (Nat.le_of_lt (inst_next none st.next s))

theorem nDelete_live (st : St) (path : List Nat) (i : Int) (h : Live st) : Live (nDelete st path i).1 := by
  have := nDelete_inv st.forget path i (live_forget_inv h)
  have hr : (nDelete st.forget path i).1.rules = (nDelete st path i).1.rules ∧
      (nDelete st.forget path i).1.next = (nDelete st path i).1.next := by
    unfold nDelete St.forget
    dsimp only
    split
    · exact ⟨rfl, rfl⟩
    · split <;> exact ⟨rfl, rfl⟩
  exact ⟨by rw [← hr.1]; exact this.kids, by rw [← hr.1]; exact this.links, by rw [← hr.1, ← hr.2]; exact this.ids⟩

/-- an accepted `container.cssText = …` always builds a valid list — whatever the container held -/
theorem nSetText_live (st : St) (path : List Nat) (kids : List Spec) (h : Live st) :
    Live (nSetText st path kids).1 := by
  have hi := live_forget_inv h
  unfold nSetText
  split
  · exact h
  · rename_i c hc
    have hck := atPath_kidsOK _ _ _ _ (inv_top_allOK hi) hc
    have hcl := atPath_linksOK _ _ _ _ _ (inv_top_linksAll hi) hc
    split
    · exact h
    · rename_i hcont
      have hcont' : isContainer c = true := by simpa using hcont
      unfold cSetText
      dsimp only
      split
      · have := live_setPath h path c c st.next (st.gone ++ []) hc rfl rfl rfl rfl hck hcl (Nat.le_refl _)
        exact this
      · rename_i ks hks
        have hnew : Rule.kidsOKL c.kind ks.1 = true ∧ Rule.linksOKL (some c.id) ks.1 = true ∧ st.next ≤ ks.2 := by
          split at hks
          · rename_i hm
            rw [hm]
            exact ⟨(parseMediaKids_ok _ _ _ _ _ ks hks).1, (parseMediaKids_ok _ _ _ _ _ ks hks).2,
              parseMediaKids_next _ _ _ _ _ ks hks⟩
          · rename_i hm
            have hp : c.kind = .page := by
              unfold isContainer at hcont'
              simp only [Bool.or_eq_true, decide_eq_true_eq] at hcont'
              rcases hcont' with h' | h'
              · exact absurd h' hm
              · exact h'
            rw [hp]
            exact ⟨(parsePageKids_ok _ _ _ _ ks hks).1, (parsePageKids_ok _ _ _ _ ks hks).2,
              parsePageKids_next _ _ _ _ ks hks⟩
        refine live_setPath h path _ c _ _ hc rfl rfl rfl rfl ?_ hnew.2.1 hnew.2.2
        rw [kidsOK_eq]; exact hnew.1

theorem validB_iff (st : St) : validB st = true ↔ Valid st := by
  unfold validB
  simp only [Bool.and_eq_true, decide_eq_true_eq, List.all_eq_true]
  constructor
  · rintro ⟨⟨⟨h1, h2⟩, h3⟩, h4⟩
    exact ⟨h1, fun r hr => (h2 r hr).1, fun r hr => (h2 r hr).2, h3, h4⟩
  · intro h
    exact ⟨⟨⟨h.top, fun r hr => ⟨h.kids r hr, h.links r hr⟩⟩, h.gone⟩, h.ids⟩

mutual
/-- where the raw back pointers mirror containment, the getter `parentStyleSheet` (which walks up the parent rules)
answers what the outermost rule answers — at every depth -/
theorem pssOK_of_links (anc : List Rule) (p : Option Nat) (s : Bool) :
    (r : Rule) → r.linksOK p s = true →
      derivedPss anc ⟨r.id, r.kind, r.pre, r.uri, r.enc, r.used, r.pss, r.prule, []⟩ = true → r.pssOK anc = true
  | ⟨i, k, pre, uri, enc, used, ps, pr, kids⟩, hl, hd => by
    simp only [Rule.linksOK, Bool.and_eq_true] at hl
    simp only [Rule.pssOK, Bool.and_eq_true]
    exact ⟨hd, pssOKL_of_links _ anc i kids hl.2 hd⟩
theorem pssOKL_of_links (c : Rule) (anc : List Rule) (cid : Nat) :
    (l : List Rule) → Rule.linksOKL (some cid) l = true → derivedPss anc c = true → Rule.pssOKL (c :: anc) l = true
  | [], _, _ => by simp [Rule.pssOKL]
  | r :: rs, hl, hd => by
    simp only [Rule.linksOKL, Bool.and_eq_true] at hl
    simp only [Rule.pssOKL, Bool.and_eq_true]
    refine ⟨pssOK_of_links (c :: anc) (some cid) false r hl.1 ?_, pssOKL_of_links c anc cid rs hl.2 hd⟩
    have := hl.1
    rw [linksOK_eq] at this
    simp only [Bool.and_eq_true, beq_iff_eq] at this
    unfold derivedPss
    simp only [this.1.2]
    exact hd
end

/-- in a valid state the public getter `parentStyleSheet` answers the sheet for every rule of the tree, at any depth -/
theorem derivedPss_all (st : St) (hl : ∀ r ∈ st.rules, r.linksOK none true = true) :
    ∀ r ∈ st.rules, r.pssOK [] = true := by
  intro r hr
  apply pssOK_of_links [] none true r (hl r hr)
  have := hl r hr
  rw [linksOK_eq] at this
  simp only [Bool.and_eq_true, beq_iff_eq] at this
  unfold derivedPss
  simp only [this.1.2]
  exact this.1.1

/-! ## rule descriptions used by the witnesses in `Props/C09.lean` -/
namespace Wit
def commentS : Spec := ⟨.comment, [], [], [], [], []⟩
def unknownS : Spec := ⟨.unknown, [], [], [], [], []⟩
def importS : Spec := ⟨.imp, [], [], [], [], []⟩
def varsS : Spec := ⟨.vars, [], [], [], [], []⟩
def styleS : Spec := ⟨.style, [], [], [], [], []⟩
def styleUsing (u : Nat) : Spec := ⟨.style, [], [], [], [[u]], []⟩
def fontfaceS : Spec := ⟨.fontface, [], [], [], [], []⟩
def charsetS (e : Nat) : Spec := ⟨.charset, [], [], [e], [], []⟩
def nsS (p u : Nat) : Spec := ⟨.ns, [p], [u], [], [], []⟩
def marginS (m : Nat) : Spec := ⟨.margin, [m], [], [], [], []⟩
def mediaS (kids : List Spec) : Spec := ⟨.media, [], [], [], [], kids⟩
def pageS (kids : List Spec) : Spec := ⟨.page, [], [], [], [], kids⟩
end Wit

end CssVerif.SheetEdit
