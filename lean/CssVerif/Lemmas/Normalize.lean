import CssVerif.Model.Normalize
namespace CssVerif.Normalize

theorem lower_upper (c : Nat) (h : lowerAscii c = c) : lowerAscii (upperAscii c) = c := by
  unfold lowerAscii upperAscii at *
  split <;> split at h <;> (try split) <;> omega

theorem upper_ne_bs (c : Nat) (h : c ≠ 0x5C) (hl : lowerAscii c = c) : upperAscii c ≠ 0x5C := by
  unfold upperAscii lowerAscii at *
  split <;> split at hl <;> omega

/-- `unesc` of a string that starts with a non-backslash character keeps that character -/
theorem unesc_cons_ne (c : Nat) (t : List Nat) (h : c ≠ 0x5C) : unesc (c :: t) = c :: unesc t := by
  cases t with
  | nil => simp [unesc]
  | cons d t => simp [unesc, h]

theorem unesc_bs_nonhex (d : Nat) (t : List Nat) (h : isHex d = false) : unesc (0x5C :: d :: t) = d :: unesc t := by
  simp [unesc, h]

theorem normalize_spell_aux : ∀ (name : List Nat) (m : List (Bool × Bool)), Plain name →
    (unesc (spell m name)).map lowerAscii = name := by
  intro name
  induction name with
  | nil => intro m _; cases m <;> simp [spell, unesc]
  | cons c t ih =>
    intro m hp
    have hc := hp c (by simp)
    have ht : Plain t := fun x hx => hp x (by simp [hx])
    cases m with
    | nil =>
      simp only [spell]
      rw [unesc_cons_ne c _ hc.1]
      simp only [List.map_cons, hc.2, ih [] ht]
    | cons ue m =>
      obtain ⟨up, esc⟩ := ue
      simp only [spell]
      have key : ∀ c', c' ≠ 0x5C → lowerAscii c' = c →
          (unesc (if (esc && !isHex c') = true then 0x5C :: c' :: spell m t else c' :: spell m t)).map lowerAscii
            = c :: t := by
        intro c' hne hlow
        by_cases he : (esc && !isHex c') = true
        · have hh : isHex c' = false := by
            cases hx : isHex c' <;> simp_all
          simp only [he, if_true, unesc_bs_nonhex c' _ hh, List.map_cons, hlow, ih m ht]
        · simp only [he]
          rw [if_neg (by simp), unesc_cons_ne c' _ hne]
          simp only [List.map_cons, hlow, ih m ht]
      cases up with
      | true => simpa using key (upperAscii c) (upper_ne_bs c hc.1 hc.2) (lower_upper c hc.2)
      | false => simpa using key c hc.1 hc.2

end CssVerif.Normalize
