import CssVerif.Lemmas.TokDom
import CssVerif.Lemmas.StructLocal
import CssVerif.Props.C05
/-!
# The dispatcher's view of the token stream: faithful look-up, and the domain `tokWF` of the structure model

* a list of dispatcher tokens drawn from the stream is looked up to exactly the tuples it was made from (no token is
  lost or replaced on the way to a sub-parser);
* the stream of every text satisfies `Struct.tokWF` (EOF only as the last token, a CHAR is one character), the domain
  on which `Drv/C04` / `Drv/C01` run the dispatcher and on which C04's containment theorems speak.
-/
namespace CssVerif.ParseAllDom
open CssVerif CssVerif.ParseAll

theorem mem_structFrom (items : List Tok.Item) (k : Nat) (t : Struct.Tok) (h : t ∈ structFrom k items) :
    ∃ i it, items[i]? = some it ∧ t = structTok (k + i) it := by
  induction items generalizing k with
  | nil => simp [structFrom] at h
  | cons x xs ih =>
    simp only [structFrom, List.mem_cons] at h
    rcases h with rfl | h
    · exact ⟨0, x, rfl, rfl⟩
    · obtain ⟨i, it, hi, rfl⟩ := ih (k + 1) h
      exact ⟨i + 1, it, by simpa using hi, by congr 1; omega⟩

/-- a dispatcher token of the stream points at the tuple it was made from -/
theorem lookup_faithful (items : List Tok.Item) (t : Struct.Tok) (h : t ∈ structToks items) :
    ∃ it, items[t.pos]? = some it ∧ t = structTok t.pos it := by
  obtain ⟨i, it, hi, rfl⟩ := mem_structFrom items 0 t h
  refine ⟨it, ?_, ?_⟩
  · simpa [structTok] using hi
  · simp [structTok]

/-- … so the list a sub-parser receives is, token by token, the list the dispatcher collected -/
theorem lookup_list (items : List Tok.Item) (l : List Struct.Tok) (h : StructLocal.Sub l (structToks items)) :
    (lookup items l).length = l.length ∧
    ∀ (i : Nat) (t : Struct.Tok), l[i]? = some t → ∃ it, (lookup items l)[i]? = some it ∧ t = structTok t.pos it := by
  induction l with
  | nil => simp [lookup]
  | cons x xs ih =>
    obtain ⟨it, hit, hx⟩ := lookup_faithful items x (h x List.mem_cons_self)
    obtain ⟨h1, h2⟩ := ih (fun t ht => h t (List.mem_cons_of_mem _ ht))
    have hl : lookup items (x :: xs) = it :: lookup items xs := by
      simp only [lookup, List.filterMap_cons, hit]
    rw [hl]
    refine ⟨by simp [h1], ?_⟩
    intro i t hi
    cases i with
    | zero =>
      simp only [List.getElem?_cons_zero, Option.some.injEq] at hi
      subst hi
      exact ⟨it, rfl, hx⟩
    | succ j =>
      simp only [List.getElem?_cons_succ] at hi ⊢
      exact h2 j t hi

/-! ## `tokWF` -/

theorem structTT_eof (s : String) (h : structTT s = .eof) : s = "EOF" := by
  unfold structTT at h
  split at h <;> first | rfl | cases h

theorem structTT_char (s : String) (h : structTT s = .char) : s = "CHAR" := by
  unfold structTT at h
  split at h <;> first | rfl | cases h

theorem structFrom_append (a b : List Tok.Item) (k : Nat) :
    structFrom k (a ++ b) = structFrom k a ++ structFrom (k + a.length) b := by
  induction a generalizing k with
  | nil => simp [structFrom]
  | cons x xs ih => simp [structFrom, ih, Nat.add_assoc, Nat.add_comm 1]

theorem tokWF_snoc (a : List Struct.Tok) (e : Struct.Tok)
    (ha : ∀ t ∈ a, t.typ ≠ .eof ∧ (t.typ ≠ .char ∨ t.val.length = 1))
    (he : e.typ ≠ .char ∨ e.val.length = 1) : Struct.tokWF (a ++ [e]) = true := by
  induction a with
  | nil =>
    simp only [List.nil_append, Struct.tokWF, Bool.or_eq_true, ne_eq, decide_eq_true_eq]
    exact he
  | cons x xs ih =>
    have hx := ha x List.mem_cons_self
    have ih' := ih (fun t ht => ha t (List.mem_cons_of_mem _ ht))
    cases hxs : xs ++ [e] with
    | nil => simp at hxs
    | cons y ys =>
      simp only [List.cons_append, hxs, Struct.tokWF, Bool.and_eq_true, Bool.or_eq_true, ne_eq,
        decide_eq_true_eq]
      rw [hxs] at ih'
      exact ⟨⟨hx.1, hx.2⟩, ih'⟩

/-- the token stream of every text is in the domain of the structure model -/
theorem stream_tokWF (text : Tok.Cps) (doC : Bool) : Struct.tokWF (structToks (stream text doC)) = true := by
  obtain ⟨line, col, hitems, hne⟩ := C05.eof_once text doC
  have hdom := TokDom.item_dom text true doC
  have hs : stream text doC =
      (Tok.bomItems text ++ Tok.body text true doC).filter (·.emit) ++ [⟨"EOF", [], line, col, [], [], true⟩] := by
    simp only [stream, Tok.Res.tokens, hitems, List.filter_append]
    rfl
  rw [hs, structToks, structFrom_append]
  simp only [structFrom]
  apply tokWF_snoc
  · intro t ht
    obtain ⟨i, it, hi, rfl⟩ := mem_structFrom _ 0 t ht
    have hmem : it ∈ (Tok.bomItems text ++ Tok.body text true doC).filter (·.emit) := List.mem_of_getElem? hi
    have hmem' : it ∈ Tok.bomItems text ++ Tok.body text true doC := (List.mem_filter.mp hmem).1
    have hin : it ∈ (Tok.tokenize text true doC).items := by
      rw [hitems]; exact List.mem_append_left _ hmem'
    refine ⟨fun he => hne it hmem' (structTT_eof _ he), ?_⟩
    by_cases hc : structTT it.typ = .char
    · exact Or.inr ((hdom it hin).1 (structTT_char _ hc))
    · exact Or.inl hc
  · left; simp [structTok, structTT]

end CssVerif.ParseAllDom
