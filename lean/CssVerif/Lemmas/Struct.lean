import CssVerif.Model.StructSpec
/-!
# Lemmas about K2 `Struct`: bracket structure versus the three counters of `_tokensupto2`,
locality of the parse loops.
-/
namespace CssVerif.Struct
open CssVerif.Proto (Cps)
set_option linter.unusedSimpArgs false

/-! ## bracket structure (specification side) -/

theorem bump_br (c : Cnt) (t : Tok) :
    bump c t = match t.br with
      | .op k => c.inc k
      | .cl k => c.dec k
      | .no => c := by
  unfold bump Tok.br
  by_cases h1 : t.val = vLBrace
  · simp [h1, Cnt.inc]
  by_cases h2 : t.val = vRBrace
  · simp [h1, h2, Cnt.dec]
  by_cases h3 : t.val = vLBrack
  · simp [h1, h2, h3, Cnt.inc]
  by_cases h4 : t.val = vRBrack
  · simp [h1, h2, h3, h4, Cnt.dec]
  by_cases h5 : t.val = vLParen ∨ t.typ = .function
  · simp [h1, h2, h3, h4, h5, Cnt.inc]
  have h5' := not_or.mp h5
  by_cases h6 : t.val = vRParen
  · simp [h5'.2, h6, Cnt.dec]
  · simp [h1, h2, h3, h4, h5, h6]

@[simp] theorem Cnt.dec_inc (c : Cnt) (k : K) : (c.inc k).dec k = c := by
  cases k <;> simp [Cnt.inc, Cnt.dec]

theorem bump_push (c₀ : Cnt) (stk s : List K) (t : Tok) (h : push stk t = some s) :
    bump (cntFrom c₀ stk) t = cntFrom c₀ s := by
  rw [bump_br]
  unfold push at h
  split at h
  · next k hk => simp at h; subst h; simp [hk, cntFrom]
  · next k hk =>
    split at h
    · next k' s' =>
      split at h
      · next hkk => simp at h; subst h; subst hkk; simp [hk, cntFrom]
      · simp at h
    · simp at h
  · next hk => simp at h; subst h; simp [hk]

theorem cntFrom_zero_nonneg (stk : List K) :
    0 ≤ (cntFrom zeroCnt stk).brace ∧ 0 ≤ (cntFrom zeroCnt stk).bracket ∧ 0 ≤ (cntFrom zeroCnt stk).parant ∧
    (cntFrom zeroCnt stk).brace + (cntFrom zeroCnt stk).bracket + (cntFrom zeroCnt stk).parant = stk.length := by
  induction stk with
  | nil => simp [cntFrom, zeroCnt]
  | cons k s ih =>
    obtain ⟨h1, h2, h3, h4⟩ := ih
    cases k <;> simp [cntFrom, Cnt.inc] <;> omega

theorem isZero_cntFrom_zero (stk : List K) : (cntFrom zeroCnt stk).isZero = stk.isEmpty := by
  have h := cntFrom_zero_nonneg stk
  cases stk with
  | nil => simp [cntFrom, zeroCnt, Cnt.isZero]
  | cons k s =>
    simp only [List.isEmpty_cons]
    obtain ⟨h1, h2, h3, h4⟩ := h
    simp only [List.length_cons] at h4
    simp only [Cnt.isZero, Bool.and_eq_false_imp, Bool.and_eq_true, beq_iff_eq]
    intro ⟨ha, hb⟩
    simp; omega

/-- with all counters starting at 0 the loop stops exactly at an end token at nesting depth 0 -/
theorem stop_zero (m : Mode) (s : List K) (t : Tok) :
    stop m (cntFrom zeroCnt s) t = (s.isEmpty && endTok m t) := by
  have h := cntFrom_zero_nonneg s
  unfold stop
  rw [isZero_cntFrom_zero]
  have : ((m == Mode.mq) && ((cntFrom zeroCnt s).brace == -1) && ((cntFrom zeroCnt s).bracket == 0) &&
      ((cntFrom zeroCnt s).parant == 0) && (t.typ == TT.string)) = false := by
    have hb : ((cntFrom zeroCnt s).brace == -1) = false := by
      simp; omega
    simp [hb]
  simp [this]

theorem calm_of_quiet (m : Mode) (stk : List K) (g : List Tok) (h : Quiet m stk g = true) :
    calm m zeroCnt stk g = true := by
  induction g generalizing stk with
  | nil => simp [calm]
  | cons t ts ih =>
    unfold Quiet at h
    unfold calm
    split at h
    · simp at h
    · next s hs =>
      try simp only [hs]
      rw [stop_zero]
      simp only [Bool.and_eq_true] at h ⊢
      exact ⟨h.1, ih s h.2⟩

theorem nest_of_calm (m : Mode) (c₀ : Cnt) (stk : List K) (g : List Tok) (h : calm m c₀ stk g = true) :
    ∃ s, nest stk g = some s := by
  induction g generalizing stk with
  | nil => exact ⟨stk, rfl⟩
  | cons t ts ih =>
    unfold calm at h
    unfold nest
    split at h
    · simp at h
    · next s hs =>
      try simp only [hs]
      simp only [Bool.and_eq_true] at h
      exact ih s h.2

/-- the scan lemma: a calm stretch is appended unchanged and the counters follow the stack -/
theorem uptoLoop_calm (m : Mode) (c₀ : Cnt) (stk stk' : List K) (g rest : List Tok)
    (hc : calm m c₀ stk g = true) (hn : nest stk g = some stk') :
    uptoLoop m (cntFrom c₀ stk) (g ++ rest) =
      (g ++ (uptoLoop m (cntFrom c₀ stk') rest).1, (uptoLoop m (cntFrom c₀ stk') rest).2) := by
  induction g generalizing stk with
  | nil => simp [nest] at hn; subst hn; simp
  | cons t ts ih =>
    unfold calm at hc
    unfold nest at hn
    split at hc
    · simp at hc
    · next s hs =>
      try simp only [hs] at hn
      simp only [Bool.and_eq_true, bne_iff_ne, ne_eq, Bool.not_eq_true'] at hc
      obtain ⟨⟨h1, h2⟩, h3⟩ := hc
      have hb := bump_push c₀ stk s t hs
      simp only [List.cons_append]
      rw [uptoLoop]
      simp only [h1, hb, h2, ↓reduceIte, Bool.false_eq_true]
      rw [ih s h3 hn]

theorem uptoLoop_stop (m : Mode) (c : Cnt) (e : Tok) (rest : List Tok)
    (h : e.typ = .eof ∨ stop m (bump c e) e = true) : uptoLoop m c (e :: rest) = ([e], rest) := by
  rw [uptoLoop]
  rcases h with h | h
  · simp [h]
  · simp [h]

/-! ## stacks: lifting, concatenation -/

theorem push_lift (stk s base : List K) (t : Tok) (h : push stk t = some s) :
    push (stk ++ base) t = some (s ++ base) := by
  unfold push at h ⊢
  split at h
  · next k hk => simp at h; subst h; simp [hk]
  · next k hk =>
    split at h
    · next k' s' =>
      split at h
      · next hkk => simp at h; subst h; subst hkk; simp [hk]
      · simp at h
    · simp at h
  · next hk => simp at h; subst h; simp [hk]

theorem nest_lift (stk s base : List K) (g : List Tok) (h : nest stk g = some s) :
    nest (stk ++ base) g = some (s ++ base) := by
  induction g generalizing stk with
  | nil => simp [nest] at h ⊢; exact h
  | cons t ts ih =>
    unfold nest at h ⊢
    split at h
    · simp at h
    · next s1 hs1 => rw [push_lift stk s1 base t hs1]; exact ih s1 h

theorem nest_append (stk : List K) (a b : List Tok) :
    nest stk (a ++ b) = match nest stk a with
      | some s => nest s b
      | none => none := by
  induction a generalizing stk with
  | nil => simp [nest]
  | cons t ts ih =>
    simp only [List.cons_append, nest]
    cases h : push stk t with
    | none => simp
    | some s => simp [ih s]

/-- above a non-empty base nothing is at depth 0, so a well nested EOF-free stretch is quiet in any mode -/
theorem quiet_lift (m : Mode) (stk s : List K) (b : K) (base : List K) (g : List Tok)
    (hn : nest stk g = some s) (he : noEof g = true) : Quiet m (stk ++ b :: base) g = true := by
  induction g generalizing stk with
  | nil => simp [Quiet]
  | cons t ts ih =>
    unfold nest at hn
    unfold Quiet
    simp only [noEof, List.all_cons, Bool.and_eq_true] at he
    split at hn
    · simp at hn
    · next s1 hs1 =>
      rw [push_lift stk s1 (b :: base) t hs1]
      simp only [Bool.and_eq_true]
      refine ⟨⟨he.1, ?_⟩, ih s1 hn (by simpa [noEof] using he.2)⟩
      simp

theorem quiet_append (m : Mode) (stk s : List K) (a b : List Tok)
    (ha : Quiet m stk a = true) (hn : nest stk a = some s) (hb : Quiet m s b = true) :
    Quiet m stk (a ++ b) = true := by
  induction a generalizing stk with
  | nil => simp [nest] at hn; subst hn; simpa using hb
  | cons t ts ih =>
    simp only [List.cons_append]
    unfold Quiet at ha ⊢
    unfold nest at hn
    split at ha
    · simp at ha
    · next s1 hs1 =>
      simp only [hs1] at hn
      simp only [Bool.and_eq_true] at ha ⊢
      exact ⟨ha.1, ih s1 ha.2 hn⟩

/-! ## T4.1: what `_tokensupto2` returns on well nested input -/

theorem bumpStart_eq (c₀ : Cnt) (t : Tok) : bumpStart c₀ t = cntFrom c₀ (startStack t) := by
  unfold bumpStart startStack Tok.startOpen
  by_cases h1 : t.val = vLBrack
  · simp [h1, cntFrom, Cnt.inc]
  by_cases h2 : t.val = vLBrace
  · simp [h1, h2, cntFrom, Cnt.inc]
  by_cases h3 : t.val = vLParen ∨ t.typ = .function
  · simp [h1, h2, h3, cntFrom, Cnt.inc]
  · simp [h1, h2, h3, cntFrom]

/-- the loop from a stack state: a quiet stretch `g`, then a token `e` that is an end token of the mode
and empties the stack (a `;` at depth 0, or the bracket that closes the last open one): exactly `g ++ [e]`
is taken -/
theorem uptoLoop_quiet_end (m : Mode) (stk stk' : List K) (g : List Tok) (e : Tok) (rest : List Tok)
    (hq : Quiet m stk g = true) (hn : nest stk g = some stk') (hp : push stk' e = some [])
    (he : endTok m e = true) :
    uptoLoop m (cntFrom zeroCnt stk) (g ++ e :: rest) = (g ++ [e], rest) := by
  rw [uptoLoop_calm m zeroCnt stk stk' g (e :: rest) (calm_of_quiet m stk g hq) hn]
  rw [uptoLoop_stop m _ e rest]
  right
  rw [bump_push zeroCnt stk' [] e hp, stop_zero]
  simp [he]

/-- same, the stretch runs into EOF -/
theorem uptoLoop_quiet_eof (m : Mode) (stk stk' : List K) (g : List Tok) (e : Tok) (rest : List Tok)
    (hq : Quiet m stk g = true) (hn : nest stk g = some stk') (he : e.typ = .eof) :
    uptoLoop m (cntFrom zeroCnt stk) (g ++ e :: rest) = (g ++ [e], rest) := by
  rw [uptoLoop_calm m zeroCnt stk stk' g (e :: rest) (calm_of_quiet m stk g hq) hn]
  rw [uptoLoop_stop m _ e rest (Or.inl he)]

/-- same, the tokens run out -/
theorem uptoLoop_quiet_nil (m : Mode) (stk stk' : List K) (g : List Tok)
    (hq : Quiet m stk g = true) (hn : nest stk g = some stk') :
    uptoLoop m (cntFrom zeroCnt stk) g = (g, []) := by
  have := uptoLoop_calm m zeroCnt stk stk' g [] (calm_of_quiet m stk g hq) hn
  simpa [uptoLoop] using this

/-- the modes whose counters start at zero or at one open bracket, as a stack -/
def Mode.initStack : Mode → Option (List K)
  | .blockstart => none
  | .mq => none
  | .selatt => none
  | .blockend => some [.brace]
  | .mediaend => some [.brace]
  | .funcend => some [.paren]
  | _ => some []

theorem init_eq_of_initStack (m : Mode) (st : Option Tok) (stk : List K) (h : m.initStack = some stk) :
    m.init st = cntFrom zeroCnt stk := by
  cases m <;> simp [Mode.initStack] at h <;> subst h <;> simp [Mode.init, cntFrom, zeroCnt, Cnt.inc]

theorem cntFrom_append (c₀ : Cnt) (a b : List K) : cntFrom c₀ (a ++ b) = cntFrom (cntFrom c₀ b) a := by
  induction a with
  | nil => rfl
  | cons k s ih => simp [cntFrom, ih]

/-- `_tokensupto2` without start token -/
theorem upto_none_end (m : Mode) (stk₀ stk' : List K) (g : List Tok) (e : Tok) (rest : List Tok)
    (hm : m.initStack = some stk₀)
    (hq : Quiet m stk₀ g = true) (hn : nest stk₀ g = some stk') (hp : push stk' e = some [])
    (he : endTok m e = true) :
    upto m none (g ++ e :: rest) = (g ++ [e], rest) := by
  unfold upto
  rw [init_eq_of_initStack m none stk₀ hm]
  exact uptoLoop_quiet_end m stk₀ stk' g e rest hq hn hp he

/-- `_tokensupto2` with start token `s` (whose opening bracket is counted) -/
theorem upto_start_end (m : Mode) (stk₀ stk' : List K) (s : Tok) (g : List Tok) (e : Tok) (rest : List Tok)
    (hm : m.initStack = some stk₀)
    (hq : Quiet m (startStack s ++ stk₀) g = true) (hn : nest (startStack s ++ stk₀) g = some stk')
    (hp : push stk' e = some []) (he : endTok m e = true) :
    upto m (some s) (g ++ e :: rest) = (s :: g ++ [e], rest) := by
  simp only [upto]
  rw [init_eq_of_initStack m (some s) stk₀ hm, bumpStart_eq, ← cntFrom_append]
  rw [uptoLoop_quiet_end m _ stk' g e rest hq hn hp he]
  simp

theorem upto_start_eof (m : Mode) (stk₀ stk' : List K) (s : Tok) (g : List Tok) (e : Tok) (rest : List Tok)
    (hm : m.initStack = some stk₀)
    (hq : Quiet m (startStack s ++ stk₀) g = true) (hn : nest (startStack s ++ stk₀) g = some stk')
    (he : e.typ = .eof) :
    upto m (some s) (g ++ e :: rest) = (s :: g ++ [e], rest) := by
  simp only [upto]
  rw [init_eq_of_initStack m (some s) stk₀ hm, bumpStart_eq, ← cntFrom_append]
  rw [uptoLoop_quiet_eof m _ stk' g e rest hq hn he]
  simp

theorem upto_none_eof (m : Mode) (stk₀ stk' : List K) (g : List Tok) (e : Tok) (rest : List Tok)
    (hm : m.initStack = some stk₀)
    (hq : Quiet m stk₀ g = true) (hn : nest stk₀ g = some stk') (he : e.typ = .eof) :
    upto m none (g ++ e :: rest) = (g ++ [e], rest) := by
  unfold upto
  rw [init_eq_of_initStack m none stk₀ hm]
  exact uptoLoop_quiet_eof m stk₀ stk' g e rest hq hn he

theorem upto_none_nil (m : Mode) (stk₀ stk' : List K) (g : List Tok)
    (hm : m.initStack = some stk₀) (hq : Quiet m stk₀ g = true) (hn : nest stk₀ g = some stk') :
    upto m none g = (g, []) := by
  unfold upto
  rw [init_eq_of_initStack m none stk₀ hm]
  exact uptoLoop_quiet_nil m stk₀ stk' g hq hn

/-! ### the two modes that start at `brace = -1` (`blockstart`, `mq`) -/

theorem bump_brace_of_noBrace (c : Cnt) (t : Tok) (h : (t.br != .op .brace && t.br != .cl .brace) = true) :
    (bump c t).brace = c.brace := by
  rw [bump_br]
  simp only [Bool.and_eq_true, bne_iff_ne, ne_eq] at h
  split
  · next k hk => cases k <;> simp_all [Cnt.inc]
  · next k hk => cases k <;> simp_all [Cnt.dec]
  · rfl

def noBraceStk (s : List K) : Bool := s.all (fun k => k != .brace)

theorem cntFrom_brace_of_noBraceStk (c₀ : Cnt) (s : List K) (h : noBraceStk s = true) :
    (cntFrom c₀ s).brace = c₀.brace := by
  induction s with
  | nil => rfl
  | cons k s ih =>
    simp only [noBraceStk, List.all_cons, Bool.and_eq_true, bne_iff_ne, ne_eq] at h
    have := ih (by simpa [noBraceStk] using h.2)
    cases k <;> simp_all [cntFrom, Cnt.inc]

theorem push_noBrace (stk s : List K) (t : Tok) (hp : push stk t = some s)
    (ht : (t.br != .op .brace && t.br != .cl .brace) = true) (hs : noBraceStk stk = true) :
    noBraceStk s = true := by
  unfold push at hp
  simp only [Bool.and_eq_true, bne_iff_ne, ne_eq] at ht
  split at hp
  · next k hk =>
    simp at hp; subst hp
    simp only [noBraceStk, List.all_cons, Bool.and_eq_true, bne_iff_ne, ne_eq]
    refine ⟨?_, by simpa [noBraceStk] using hs⟩
    intro hkb; subst hkb; exact ht.1 hk
  · next k hk =>
    split at hp
    · next k' s' =>
      split at hp
      · simp at hp; subst hp
        simp only [noBraceStk, List.all_cons, Bool.and_eq_true] at hs
        simpa [noBraceStk] using hs.2
      · simp at hp
    · simp at hp
  · simp at hp; subst hp; exact hs

def m1Cnt : Cnt := ⟨-1, 0, 0⟩

/-- with `brace` starting at -1 (`blockstart`) a brace-free, EOF-free, well nested stretch never stops the loop -/
theorem calm_blockstart (stk : List K) (g : List Tok) (hs : noBraceStk stk = true)
    (hb : noBrace g = true) (he : noEof g = true) (hn : ∃ s, nest stk g = some s) :
    calm .blockstart m1Cnt stk g = true := by
  induction g generalizing stk with
  | nil => simp [calm]
  | cons t ts ih =>
    obtain ⟨sfin, hn⟩ := hn
    unfold nest at hn
    unfold calm
    simp only [noBrace, List.all_cons, Bool.and_eq_true] at hb
    simp only [noEof, List.all_cons, Bool.and_eq_true] at he
    split at hn
    · simp at hn
    · next s1 hs1 =>
      have hs1' := push_noBrace stk s1 t hs1 (by simpa using hb.1) hs
      have hbr := cntFrom_brace_of_noBraceStk m1Cnt s1 hs1'
      try simp only [hs1]
      simp only [Bool.and_eq_true]
      refine ⟨⟨he.1, ?_⟩, ih s1 hs1' (by simpa [noBrace] using hb.2) (by simpa [noEof] using he.2) ⟨sfin, hn⟩⟩
      have hbr' : (cntFrom m1Cnt s1).brace = -1 := by rw [hbr]; rfl
      simp only [stop, Cnt.isZero, hbr']
      simp

/-- `blockstartonly` (selector of a style rule, name part of `@media`): a balanced brace-free stretch and
then the `{` -/
theorem upto_blockstart (g : List Tok) (lb : Tok) (rest : List Tok)
    (hbal : nest [] g = some []) (hb : noBrace g = true) (he : noEof g = true) (hl : lb.val = vLBrace) :
    upto .blockstart none (g ++ lb :: rest) = (g ++ [lb], rest) := by
  unfold upto
  have hinit : Mode.blockstart.init none = cntFrom m1Cnt [] := rfl
  rw [hinit, uptoLoop_calm .blockstart m1Cnt [] [] g (lb :: rest)
    (calm_blockstart [] g rfl hb he ⟨[], hbal⟩) hbal]
  rw [uptoLoop_stop]
  right
  have : bump (cntFrom m1Cnt []) lb = ⟨0, 0, 0⟩ := by
    simp [bump, hl, cntFrom, m1Cnt]
  rw [this]
  simp [stop, Cnt.isZero, endTok, hl, Mode.ends, isInfixOf, Mode.endString]

/-! ## `_parse` -/

theorem parseLoop_nil {σ : Type} (step : σ → Tok → List Tok → σ × List Tok) (s : σ) :
    parseLoop step s [] = s := by
  rw [parseLoop]

theorem parseLoop_cons {σ : Type} (step : σ → Tok → List Tok → σ × List Tok) (s : σ) (t : Tok)
    (ts : List Tok) (h : (step s t ts).2.length ≤ ts.length) :
    parseLoop step s (t :: ts) = parseLoop step (step s t ts).1 (step s t ts).2 := by
  rw [parseLoop]; simp [h]

/-- an invariant of the loop state -/
theorem parseLoop_inv {σ : Type} (step : σ → Tok → List Tok → σ × List Tok) (P : σ → Prop)
    (hstep : ∀ s t ts, P s → P (step s t ts).1) (ts : List Tok) (s : σ) (h : P s) :
    P (parseLoop step s ts) := by
  fun_induction parseLoop step s ts with
  | case1 s => exact h
  | case2 s t ts hle ih => exact ih (hstep s t ts h)
  | case3 s t ts hle => exact hstep s t ts h

/-! ## the declaration block -/

theorem declStep_rest_le (O : Oracle) (acc : List Item) (t : Tok) (rest : List Tok) :
    (declStep O acc t rest).2.length ≤ rest.length := by
  unfold declStep
  split
  · dsimp only; split <;> simp [upto_rest_le]
  · simp
  · simp
  · simp
  · dsimp only; split <;> simp [upto_rest_le]
  · dsimp only; split <;> simp [upto_rest_le]

theorem declStep_acc (O : Oracle) (acc : List Item) (t : Tok) (rest : List Tok) :
    declStep O acc t rest = (acc ++ (declStep O [] t rest).1, (declStep O [] t rest).2) := by
  unfold declStep
  split
  · dsimp only; split <;> simp
  · simp
  · simp
  · simp
  · dsimp only; split <;> simp
  · dsimp only; split <;> simp

theorem declLoop_cons (O : Oracle) (acc : List Item) (t : Tok) (ts : List Tok) :
    parseLoop (declStep O) acc (t :: ts) =
      parseLoop (declStep O) (declStep O acc t ts).1 (declStep O acc t ts).2 :=
  parseLoop_cons _ _ _ _ (declStep_rest_le O acc t ts)

theorem declLoop_acc (O : Oracle) (ts : List Tok) (acc : List Item) :
    parseLoop (declStep O) acc ts = acc ++ parseLoop (declStep O) [] ts := by
  generalize hn : ts.length = n
  induction n using Nat.strongRecOn generalizing ts acc with
  | _ n ih =>
    cases ts with
    | nil => simp [parseLoop_nil]
    | cons t ts =>
      rw [declLoop_cons, declLoop_cons O []]
      have hle := declStep_rest_le O [] t ts
      have hacc := declStep_acc O acc t ts
      rw [hacc]
      simp only
      have hlt : (declStep O [] t ts).2.length < n := by simp at hn; omega
      rw [ih _ hlt (declStep O [] t ts).2 _ rfl, ih _ hlt (declStep O [] t ts).2 (declStep O [] t ts).1 rfl]
      simp

/-- a unit of a declaration block: a token the block parser skips, or a construct it consumes as a whole.
`t :: g ++ [semi]`: anything that is not white space / comment / at-keyword, well nested, up to its `;`
at depth 0 (a declaration, valid or not, or other garbage); `t :: g ++ [e]`: an at-rule up to its `;` or the
`}` of its block. -/
inductive DeclUnit : List Tok → Prop
  | skip (t : Tok) : t.typ = .s ∨ t.typ = .comment ∨ (t.typ = .char ∧ t.val = vSemi) → DeclUnit [t]
  | decl (t : Tok) (g : List Tok) (semi : Tok) :
      t.typ ≠ .s → t.typ ≠ .comment → t.typ ≠ .eof → t.typ ≠ .atkeyword → ¬(t.typ = .char ∧ t.val = vSemi) →
      Quiet .semicolon (startStack t) g = true → nest (startStack t) g = some [] →
      semi.typ = .char → semi.val = vSemi → DeclUnit (t :: g ++ [semi])
  | atrule (t : Tok) (g : List Tok) (e : Tok) (stk' : List K) :
      t.typ = .atkeyword →
      Quiet .default (startStack t) g = true → nest (startStack t) g = some stk' →
      push stk' e = some [] → endTok .default e = true → DeclUnit (t :: g ++ [e])

/-- a sequence of complete units -/
inductive DeclSeq : List Tok → Prop
  | nil : DeclSeq []
  | cons (u d : List Tok) : DeclUnit u → DeclSeq d → DeclSeq (u ++ d)

theorem semi_br (t : Tok) (h1 : t.typ = .char) (h2 : t.val = vSemi) : t.br = .no := by
  simp [Tok.br, h1, h2]

theorem semi_endTok (m : Mode) (t : Tok) (h2 : t.val = vSemi)
    (hm : m = .semicolon ∨ m = .default ∨ m = .propprio ∨ m = .propvalue ∨ m = .propname) :
    endTok m t = true := by
  rcases hm with h | h | h | h | h <;> subst h <;> simp [endTok, h2, Mode.ends, isInfixOf]

theorem push_no (stk : List K) (t : Tok) (h : t.br = .no) : push stk t = some stk := by
  simp [push, h]

/-- what the block parser does with a unit does not depend on what follows it -/
theorem declStep_unit (O : Oracle) (u : List Tok) (hu : DeclUnit u) :
    ∃ t body items, u = t :: body ∧
      ∀ acc rest, declStep O acc t (body ++ rest) = (acc ++ items, rest) := by
  cases hu with
  | skip t ht =>
    refine ⟨t, [], (declStep O [] t []).1, rfl, ?_⟩
    intro acc rest
    rcases ht with h | h | ⟨h1, h2⟩
    · simp [declStep, h]
    · simp [declStep, h]
    · unfold declStep
      split <;> simp_all
  | decl t g semi h1 h2 h3 h4 h5 hq hn hs1 hs2 =>
    have hup : ∀ rest, upto .semicolon (some t) (g ++ semi :: rest) = (t :: g ++ [semi], rest) := by
      intro rest
      apply upto_start_end .semicolon [] [] t g semi rest rfl (by simpa using hq) (by simpa using hn)
      · exact push_no [] semi (semi_br semi hs1 hs2)
      · exact semi_endTok _ semi hs2 (Or.inl rfl)
    refine ⟨t, g ++ [semi], (declStep O [] t (g ++ [semi])).1, by simp, ?_⟩
    intro acc rest
    have h0 := hup []
    by_cases hid : t.typ = .ident
    · simp [declStep, hid, hup, h0, hs2]
      split <;> simp
    · unfold declStep
      split
      · next h => exact absurd h hid
      · next h => exact absurd h h1
      · next h => exact absurd h h3
      · next h => exact absurd h h2
      · next h => exact absurd h h4
      · simp [h5, hup, h0]
  | atrule t g e stk' ht hq hn hp he =>
    have hup : ∀ rest, upto .default (some t) (g ++ e :: rest) = (t :: g ++ [e], rest) := by
      intro rest
      exact upto_start_end .default [] stk' t g e rest rfl (by simpa using hq) (by simpa using hn) hp he
    refine ⟨t, g ++ [e], (declStep O [] t (g ++ [e])).1, by simp, ?_⟩
    intro acc rest
    have h0 := hup []
    simp [declStep, ht, hup, h0]
    split <;> simp

/-- **locality of the declaration block**: after a sequence of complete units the parser is in its start
state: the trace of `d ++ x` is the trace of `d` followed by the trace of `x` — for ANY `x` -/
theorem declTrace_append (O : Oracle) (d x : List Tok) (hd : DeclSeq d) :
    declTrace O (d ++ x) = declTrace O d ++ declTrace O x := by
  induction hd with
  | nil => simp [declTrace, parseLoop_nil]
  | cons u d hu _ ih =>
    obtain ⟨t, body, items, rfl, hstep⟩ := declStep_unit O u hu
    have key : ∀ y, declTrace O (t :: body ++ y) = items ++ declTrace O y := by
      intro y
      unfold declTrace
      rw [List.cons_append, declLoop_cons, hstep [] y]
      simp only
      rw [declLoop_acc]
      simp
    rw [List.append_assoc, key (d ++ x), key d, ih]
    simp

theorem parseDecls_append (O : Oracle) (d x : List Tok) (hd : DeclSeq d) :
    parseDecls O (d ++ x) = parseDecls O d ++ parseDecls O x := by
  simp [parseDecls, declTrace_append O d x hd]

theorem DeclSeq.append {a b : List Tok} (ha : DeclSeq a) (hb : DeclSeq b) : DeclSeq (a ++ b) := by
  induction ha with
  | nil => simpa using hb
  | cons u d hu _ ih => rw [List.append_assoc]; exact DeclSeq.cons u (d ++ b) hu ih

theorem DeclSeq.single {u : List Tok} (hu : DeclUnit u) : DeclSeq u := by
  have := DeclSeq.cons u [] hu DeclSeq.nil
  simpa using this

/-- the trace of one declaration-shaped unit: `ident()` hands `t :: g` (without the `;`) to `Property`,
anything else is skipped by `unexpected()` -/
theorem declTrace_declUnit (O : Oracle) (t : Tok) (g : List Tok) (semi : Tok)
    (h1 : t.typ ≠ .s) (h2 : t.typ ≠ .comment) (h3 : t.typ ≠ .eof) (h4 : t.typ ≠ .atkeyword)
    (h5 : ¬(t.typ = .char ∧ t.val = vSemi))
    (hq : Quiet .semicolon (startStack t) g = true) (hn : nest (startStack t) g = some [])
    (hs1 : semi.typ = .char) (hs2 : semi.val = vSemi) :
    declTrace O (t :: g ++ [semi]) =
      if t.typ = .ident then
        (match parseProperty O (t :: g) with
         | some d => [Item.decl d]
         | none => [Item.dropped (t :: g)])
      else [Item.dropped (t :: g ++ [semi])] := by
  have hup : upto .semicolon (some t) (g ++ [semi]) = (t :: g ++ [semi], []) := by
    apply upto_start_end .semicolon [] [] t g semi [] rfl (by simpa using hq) (by simpa using hn)
    · exact push_no [] semi (semi_br semi hs1 hs2)
    · exact semi_endTok _ semi hs2 (Or.inl rfl)
  unfold declTrace
  rw [List.cons_append, declLoop_cons]
  by_cases hid : t.typ = .ident
  · simp only [declStep, hid, hup, ↓reduceIte]
    simp only [List.getLast?_append, List.getLast?_singleton, Option.some_or, Option.map_some, hs2,
      ↓reduceIte]
    have : (t :: g ++ [semi]).dropLast = t :: g := by
      rw [show t :: g ++ [semi] = (t :: g) ++ [semi] from rfl, List.dropLast_concat]
    split <;> simp_all [parseLoop_nil]
  · simp only [hid, ↓reduceIte]
    unfold declStep
    split
    · next h => exact absurd h hid
    · next h => exact absurd h h1
    · next h => exact absurd h h3
    · next h => exact absurd h h2
    · next h => exact absurd h h4
    · simp [h5, hup, parseLoop_nil]

/-! ## the sheet dispatcher -/

theorem sheetStep_rest_le (O : Oracle) (M : List Cps) (st : SheetSt) (t : Tok) (rest : List Tok) :
    (sheetStep O M st t rest).2.length ≤ rest.length := by
  unfold sheetStep
  split <;> simp [upto_rest_le]

theorem sheetLoop_nil (O : Oracle) (M : List Cps) (st : SheetSt) : sheetLoop O M st [] = st := by
  simp [sheetLoop, parseLoop_nil]

theorem sheetLoop_cons (O : Oracle) (M : List Cps) (st : SheetSt) (t : Tok) (ts : List Tok) :
    sheetLoop O M st (t :: ts) = sheetLoop O M (sheetStep O M st t ts).1 (sheetStep O M st t ts).2 :=
  parseLoop_cons _ _ _ _ (sheetStep_rest_le O M st t ts)

/-- a unit at sheet level: white space / CDO / CDC / comment, or a statement: a token that starts one,
a well nested stretch without `;` at depth 0, and the `;` or the `}` that brings the nesting back to 0 -/
inductive StmtUnit : List Tok → Prop
  | skip (t : Tok) : t.typ = .s ∨ t.typ = .cdo ∨ t.typ = .cdc ∨ t.typ = .comment → StmtUnit [t]
  | stmt (t : Tok) (g : List Tok) (e : Tok) (stk' : List K) :
      t.typ ≠ .s → t.typ ≠ .cdo → t.typ ≠ .cdc → t.typ ≠ .comment → t.typ ≠ .eof →
      Quiet .default (startStack t) g = true → nest (startStack t) g = some stk' →
      push stk' e = some [] → endTok .default e = true → StmtUnit (t :: g ++ [e])

inductive StmtSeq : List Tok → Prop
  | nil : StmtSeq []
  | cons (u d : List Tok) : StmtUnit u → StmtSeq d → StmtSeq (u ++ d)

theorem StmtSeq.append {a b : List Tok} (ha : StmtSeq a) (hb : StmtSeq b) : StmtSeq (a ++ b) := by
  induction ha with
  | nil => simpa using hb
  | cons u d hu _ ih => rw [List.append_assoc]; exact StmtSeq.cons u (d ++ b) hu ih

/-- a statement production takes exactly the statement and its effect depends on the statement only -/
theorem sheetStep_stmt (O : Oracle) (M : List Cps) (st : SheetSt) (t : Tok) (g : List Tok) (e : Tok)
    (stk' : List K) (rest : List Tok)
    (h1 : t.typ ≠ .s) (h2 : t.typ ≠ .cdo) (h3 : t.typ ≠ .cdc) (h4 : t.typ ≠ .comment) (h5 : t.typ ≠ .eof)
    (hq : Quiet .default (startStack t) g = true) (hn : nest (startStack t) g = some stk')
    (hp : push stk' e = some []) (he : endTok .default e = true) :
    sheetStep O M st t (g ++ e :: rest) = (stmtEffect O M st t (t :: g ++ [e]), rest) := by
  have hup : upto .default (some t) (g ++ e :: rest) = (t :: g ++ [e], rest) :=
    upto_start_end .default [] stk' t g e rest rfl (by simpa using hq) (by simpa using hn) hp he
  unfold sheetStep
  split <;> simp_all

theorem sheetLoop_unit (O : Oracle) (M : List Cps) (u x : List Tok) (hu : StmtUnit u) (st : SheetSt) :
    sheetLoop O M st (u ++ x) = sheetLoop O M (sheetLoop O M st u) x := by
  cases hu with
  | skip t ht =>
    have : ∀ y, (sheetStep O M st t y).2 = y := by
      intro y
      unfold sheetStep
      rcases ht with h | h | h | h <;> simp [h]
    have h1 : ∀ y z, (sheetStep O M st t y).1 = (sheetStep O M st t z).1 := by
      intro y z
      unfold sheetStep
      rcases ht with h | h | h | h <;> simp [h]
    rw [List.singleton_append, sheetLoop_cons, sheetLoop_cons, this, this, sheetLoop_nil, h1 x []]
  | stmt t g e stk' h1 h2 h3 h4 h5 hq hn hp he =>
    have e1 : (t :: g ++ [e]) ++ x = t :: (g ++ e :: x) := by simp
    have e2 : (t :: g ++ [e]) = t :: (g ++ e :: []) := by simp
    have h0 : sheetLoop O M st (t :: g ++ [e]) = stmtEffect O M st t (t :: g ++ [e]) := by
      rw [e2, sheetLoop_cons, sheetStep_stmt O M st t g e stk' [] h1 h2 h3 h4 h5 hq hn hp he, sheetLoop_nil]
      simp
    rw [h0, e1, sheetLoop_cons, sheetStep_stmt O M st t g e stk' x h1 h2 h3 h4 h5 hq hn hp he]

/-- **locality of the sheet dispatcher**: after complete statements the rest is parsed from the state
those statements leave — whatever the rest is -/
theorem sheetLoop_append (O : Oracle) (M : List Cps) (s₁ x : List Tok) (hs : StmtSeq s₁) (st : SheetSt) :
    sheetLoop O M st (s₁ ++ x) = sheetLoop O M (sheetLoop O M st s₁) x := by
  induction hs generalizing st with
  | nil => simp [sheetLoop_nil]
  | cons u d hu _ ih =>
    rw [List.append_assoc, sheetLoop_unit O M u (d ++ x) hu, ih, sheetLoop_unit O M u d hu]

/-- the effect of a complete statement that stands after `s₁` -/
theorem sheetLoop_stmt (O : Oracle) (M : List Cps) (st : SheetSt) (t : Tok) (g : List Tok) (e : Tok)
    (stk' : List K) (x : List Tok)
    (h1 : t.typ ≠ .s) (h2 : t.typ ≠ .cdo) (h3 : t.typ ≠ .cdc) (h4 : t.typ ≠ .comment) (h5 : t.typ ≠ .eof)
    (hq : Quiet .default (startStack t) g = true) (hn : nest (startStack t) g = some stk')
    (hp : push stk' e = some []) (he : endTok .default e = true) :
    sheetLoop O M st (t :: g ++ e :: x) = sheetLoop O M (stmtEffect O M st t (t :: g ++ [e])) x := by
  rw [List.cons_append, sheetLoop_cons, sheetStep_stmt O M st t g e stk' x h1 h2 h3 h4 h5 hq hn hp he]

/-! ## when a statement leaves the sheet state untouched -/

theorem stmtEffect_ruleset (O : Oracle) (M : List Cps) (st : SheetSt) (t : Tok) (stmt : List Tok)
    (ht : startsRuleset t = true) :
    stmtEffect O M st t stmt =
      match styleRule O st.nsmap stmt with
      | some (sel, items) => { sheetInsert st (.style st.nsmap sel items) with expected := 3 }
      | none => st := by
  unfold startsRuleset at ht
  unfold stmtEffect
  split <;> first | rfl | simp_all

/-! ## T4.4: the rule list only grows -/

/-- forget the URI of namespace rules (the only thing a later statement can change in an earlier rule:
`_replaceNamespaceURI` for a repeated prefix) -/
def eraseUri : Rule → Rule
  | .ns p _ toks => .ns p [] toks
  | r => r

/-- `b` is `a` with rules appended, up to namespace URIs -/
def Extends (a b : List Rule) : Prop := ∃ more, b.map eraseUri = a.map eraseUri ++ more

theorem Extends.refl (a : List Rule) : Extends a a := ⟨[], by simp⟩

theorem Extends.trans {a b c : List Rule} (h1 : Extends a b) (h2 : Extends b c) : Extends a c := by
  obtain ⟨m1, h1⟩ := h1
  obtain ⟨m2, h2⟩ := h2
  exact ⟨m1 ++ m2, by rw [h2, h1]; simp⟩

theorem Extends.snoc (a : List Rule) (r : Rule) : Extends a (a ++ [r]) := ⟨[eraseUri r], by simp⟩

theorem sheetInsert_extends (st : SheetSt) (r : Rule) : Extends st.rules (sheetInsert st r).rules := by
  unfold sheetInsert
  split
  · split
    · exact Extends.refl _
    · next h => simp at h; simp [h]; exact ⟨[eraseUri r], by simp⟩
  · split
    · exact Extends.refl _
    · exact Extends.snoc _ _
  · split
    · exact Extends.refl _
    · split
      · split
        · exact Extends.refl _
        · exact Extends.snoc _ _
      · exact Extends.refl _
  · split
    · exact Extends.refl _
    · exact Extends.snoc _ _
  · exact Extends.snoc _ _

theorem sheetInsert_expected (st : SheetSt) (r : Rule) : (sheetInsert st r).expected = st.expected := by
  unfold sheetInsert
  repeat' split
  all_goals rfl

theorem replaceNsUri_extends (rules : List Rule) (p u : Cps) : Extends rules (replaceNsUri rules p u) := by
  refine ⟨[], ?_⟩
  simp only [List.append_nil, replaceNsUri, List.map_map]
  apply List.map_congr_left
  intro r _
  cases r with
  | ns p' u' toks => by_cases h : p' = p <;> simp [h, eraseUri]
  | _ => simp [eraseUri]

theorem stmtEffect_extends (O : Oracle) (M : List Cps) (st : SheetSt) (t : Tok) (stmt : List Tok) :
    Extends st.rules (stmtEffect O M st t stmt).rules := by
  unfold stmtEffect
  split
  · split
    · exact Extends.refl _
    · split
      · exact sheetInsert_extends _ _
      · exact Extends.refl _
  · split
    · exact Extends.refl _
    · split
      · exact sheetInsert_extends _ _
      · exact Extends.refl _
  · split
    · exact Extends.refl _
    · split
      · dsimp only
        split
        · exact sheetInsert_extends _ _
        · exact replaceNsUri_extends _ _ _
      · exact Extends.refl _
  · split
    · exact Extends.refl _
    · split
      · exact sheetInsert_extends _ _
      · exact Extends.refl _
  · split
    · exact sheetInsert_extends _ _
    · exact Extends.refl _
  · split
    · exact sheetInsert_extends _ _
    · exact Extends.refl _
  · split
    · exact sheetInsert_extends _ _
    · exact Extends.refl _
  · dsimp only
    split
    · split
      · exact sheetInsert_extends _ _
      · exact Extends.refl _
    · split
      · exact sheetInsert_extends _ _
      · exact Extends.refl _
  · split
    · exact sheetInsert_extends _ _
    · exact Extends.refl _

theorem sheetStep_extends (O : Oracle) (M : List Cps) (st : SheetSt) (t : Tok) (rest : List Tok) :
    Extends st.rules (sheetStep O M st t rest).1.rules := by
  unfold sheetStep
  split
  · exact Extends.refl _
  · exact Extends.refl _
  · exact Extends.refl _
  · exact sheetInsert_extends _ _
  · exact Extends.refl _
  · exact stmtEffect_extends _ _ _ _ _

/-- whatever follows, the rules already in the sheet stay, in order, unchanged up to namespace URIs -/
theorem sheetLoop_extends (O : Oracle) (M : List Cps) (st : SheetSt) (ts : List Tok) :
    Extends st.rules (sheetLoop O M st ts).rules := by
  unfold sheetLoop
  exact parseLoop_inv (sheetStep O M) (fun s => Extends st.rules s.rules)
    (fun s t ts h => Extends.trans h (sheetStep_extends O M s t ts)) ts st (Extends.refl _)

/-! ## T4.4: a style rule cut off inside its block -/

theorem nest_cons_start (t : Tok) (g : List Tok) (s : List K) (h : nest [] (t :: g) = some s) :
    nest (startStack t) g = some s := by
  unfold nest at h
  split at h
  · simp at h
  · next s1 hs1 =>
    have : startStack t = s1 := by
      unfold push at hs1
      unfold startStack Tok.startOpen
      unfold Tok.br at hs1
      by_cases h1 : t.val = vLBrace
      · simp [h1] at hs1 ⊢; exact hs1
      by_cases h2 : t.val = vRBrace
      · simp [h1, h2] at hs1
      by_cases h3 : t.val = vLBrack
      · simp [h1, h2, h3] at hs1 ⊢; exact hs1
      by_cases h4 : t.val = vRBrack
      · simp [h1, h2, h3, h4] at hs1
      by_cases h5 : t.val = vLParen ∨ t.typ = .function
      · simp [h1, h2, h3, h4, h5] at hs1 ⊢; exact hs1
      by_cases h6 : t.val = vRParen
      · have h5' := not_or.mp h5
        simp [h1, h2, h3, h4, h5'.2, h6] at hs1
      · simp [h1, h2, h3, h4, h5, h6] at hs1 ⊢; exact hs1
    rw [this]; exact h

theorem quiet_cons_start (m : Mode) (t : Tok) (g : List Tok) (h : Quiet m [] (t :: g) = true) :
    Quiet m (startStack t) g = true := by
  have hn : ∃ s, nest [] (t :: g) = some s := by
    have := nest_of_calm m zeroCnt [] (t :: g) (calm_of_quiet m [] (t :: g) h)
    exact this
  unfold Quiet at h
  split at h
  · simp at h
  · next s1 hs1 =>
    obtain ⟨s, hs⟩ := hn
    have h1 : nest [] [t] = some s1 := by simp [nest, hs1]
    have h2 := nest_cons_start t [] s1 h1
    simp [nest] at h2
    rw [h2]
    simp only [Bool.and_eq_true] at h
    exact h.2

theorem rbrace_br (t : Tok) (h : t.val = vRBrace) : t.br = .cl .brace := by
  simp [Tok.br, h]

theorem lbrace_br (t : Tok) (h : t.val = vLBrace) : t.br = .op .brace := by
  simp [Tok.br, h]

theorem noEof_append (a b : List Tok) : noEof (a ++ b) = (noEof a && noEof b) := by
  simp [noEof]

/-- the block of a style / media rule: balanced content `d`, then the closing `}` -/
theorem upto_blockend_closed (m : Mode) (hm : m = .blockend ∨ m = .mediaend) (d : List Tok) (rb : Tok)
    (rest : List Tok) (hd : nest [] d = some []) (hde : noEof d = true) (hr : rb.val = vRBrace) :
    upto m none (d ++ rb :: rest) = (d ++ [rb], rest) := by
  have hi : m.initStack = some [.brace] := by rcases hm with h | h <;> subst h <;> rfl
  refine upto_none_end m [.brace] [.brace] d rb rest hi ?_ ?_ ?_ ?_
  · exact quiet_lift m [] [] .brace [] d hd hde
  · exact nest_lift [] [] [.brace] d hd
  · simp [push, rbrace_br rb hr]
  · rcases hm with h | h <;> subst h <;> simp [endTok, hr, Mode.ends, isInfixOf]

/-- the block cut off by the end of input: everything up to and including EOF is the block -/
theorem upto_blockend_open (m : Mode) (hm : m = .blockend ∨ m = .mediaend) (x : List Tok) (eof : Tok)
    (stk : List K) (hx : nest [] x = some stk) (hxe : noEof x = true) (he : eof.typ = .eof) :
    upto m none (x ++ [eof]) = (x ++ [eof], []) := by
  have hi : m.initStack = some [.brace] := by rcases hm with h | h <;> subst h <;> rfl
  have hn : nest [.brace] x = some (stk ++ [.brace]) := nest_lift [] stk [.brace] x hx
  have hq : Quiet m [.brace] x = true := quiet_lift m [] stk .brace [] x hx hxe
  exact upto_none_eof m [.brace] (stk ++ [.brace]) x eof [] hi hq hn he

/-- the selector part of a style rule, as the theorems need it: not empty, does not start with `@`,
balanced, no braces, no EOF -/
structure SelShape (sel : List Tok) : Prop where
  ne : sel ≠ []
  noAt : ∀ t, sel.head? = some t → t.val.head? ≠ some 0x40
  bal : nest [] sel = some []
  nb : noBrace sel = true
  ne' : noEof sel = true

theorem styleRule_eval (O : Oracle) (ns : List (Cps × Cps)) (sel body : List Tok) (lb last : Tok)
    (rest : List Tok) (hs : SelShape sel) (hl : lb.val = vLBrace)
    (h2 : upto .blockend none rest = (body ++ [last], []))
    (hlast : last.val = vRBrace ∨ last.typ = .eof) :
    styleRule O ns (sel ++ lb :: rest) =
      if O.selOk ns sel then
        some (sel, parseDecls O (if last.typ = .eof then body ++ [last] else body))
      else none := by
  have h1 := upto_blockstart sel lb rest hs.bal hs.nb hs.ne' hl
  obtain ⟨t, sel', rfl⟩ := List.exists_cons_of_ne_nil hs.ne
  have hat := hs.noAt t rfl
  unfold styleRule
  simp only [h1, h2]
  have e1 : (t :: sel' ++ [lb]).head? = some t := by simp
  have e2 : (t :: sel' ++ [lb]).getLast? = some lb := by
    rw [show t :: sel' ++ [lb] = (t :: sel') ++ [lb] from rfl, List.getLast?_concat]
  have e3 : (t :: sel' ++ [lb]).dropLast = t :: sel' := by
    rw [show t :: sel' ++ [lb] = (t :: sel') ++ [lb] from rfl, List.dropLast_concat]
  have e4 : (body ++ [last]).getLast? = some last := by simp
  have e5 : (body ++ [last]).dropLast = body := List.dropLast_concat
  simp only [e1, e2, e3, e4, e5, hat, hl]
  rcases hlast with h | h
  · by_cases he : last.typ = .eof <;> by_cases ho : O.selOk ns (t :: sel') = true <;> simp [h, he, ho]
  · by_cases ho : O.selOk ns (t :: sel') = true <;> simp [h, ho]

/-- a complete style rule -/
theorem styleRule_complete (O : Oracle) (ns : List (Cps × Cps)) (sel d : List Tok) (lb rb : Tok)
    (hs : SelShape sel) (hl : lb.val = vLBrace) (hd : nest [] d = some []) (hde : noEof d = true)
    (hr : rb.val = vRBrace) (hrt : rb.typ ≠ .eof) :
    styleRule O ns (sel ++ lb :: d ++ [rb]) =
      if O.selOk ns sel then some (sel, parseDecls O d) else none := by
  have h2 := upto_blockend_closed .blockend (Or.inl rfl) d rb [] hd hde hr
  have := styleRule_eval O ns sel d lb rb (d ++ [rb]) hs hl h2 (Or.inl hr)
  simp only [hrt, ↓reduceIte] at this
  simpa using this

/-- a style rule cut off inside its block by the end of input -/
theorem styleRule_truncated (O : Oracle) (ns : List (Cps × Cps)) (sel x : List Tok) (lb eof : Tok)
    (stk : List K) (hs : SelShape sel) (hl : lb.val = vLBrace)
    (hx : nest [] x = some stk) (hxe : noEof x = true) (he : eof.typ = .eof) :
    styleRule O ns (sel ++ lb :: x ++ [eof]) =
      if O.selOk ns sel then some (sel, parseDecls O (x ++ [eof])) else none := by
  have h2 := upto_blockend_open .blockend (Or.inl rfl) x eof stk hx hxe he
  have := styleRule_eval O ns sel x lb eof (x ++ [eof]) hs hl h2 (Or.inr he)
  simp only [he, ↓reduceIte] at this
  simpa using this

/-- the statement the sheet dispatcher collects when a style rule is cut off inside its block: all of it,
EOF included -/
theorem upto_default_open_rule (t : Tok) (sel' x : List Tok) (lb eof : Tok) (stk : List K)
    (hq : Quiet .default [] (t :: sel') = true) (hbal : nest [] (t :: sel') = some [])
    (hl : lb.val = vLBrace) (hlt : lb.typ ≠ .eof)
    (hx : nest [] x = some stk) (hxe : noEof x = true) (he : eof.typ = .eof) :
    upto .default (some t) (sel' ++ lb :: x ++ [eof]) = (t :: sel' ++ lb :: x ++ [eof], []) := by
  have q1 := quiet_cons_start .default t sel' hq
  have n1 := nest_cons_start t sel' [] hbal
  have hp : push [] lb = some [.brace] := by simp [push, lbrace_br lb hl]
  have q2 : Quiet .default [] (lb :: x) = true := by
    unfold Quiet
    simp only [hp, Bool.and_eq_true, bne_iff_ne, ne_eq]
    refine ⟨⟨hlt, by simp⟩, ?_⟩
    exact quiet_lift .default [] stk .brace [] x hx hxe
  have n2 : nest [] (lb :: x) = some (stk ++ [.brace]) := by
    unfold nest
    simp only [hp]
    exact nest_lift [] stk [.brace] x hx
  have q := quiet_append .default (startStack t) [] sel' (lb :: x) q1 n1 q2
  have n : nest (startStack t) (sel' ++ lb :: x) = some (stk ++ [.brace]) := by
    rw [nest_append, n1]; exact n2
  have := upto_start_eof .default [] (stk ++ [.brace]) t (sel' ++ lb :: x) eof [] rfl
    (by simpa using q) (by simpa using n) he
  simpa using this

theorem sheetStep_starter (O : Oracle) (M : List Cps) (st : SheetSt) (t : Tok) (rest : List Tok)
    (ht : startsRuleset t = true) :
    sheetStep O M st t rest =
      (stmtEffect O M st t (upto .default (some t) rest).1, (upto .default (some t) rest).2) := by
  unfold startsRuleset at ht
  unfold sheetStep
  split <;> simp_all

/-- the sheet dispatcher on a style rule that is cut off inside its block by the end of input -/
theorem sheetLoop_truncated_style (O : Oracle) (M : List Cps) (st : SheetSt) (t : Tok) (sel' x : List Tok)
    (lb eof : Tok) (stk : List K)
    (ht : startsRuleset t = true) (hs : SelShape (t :: sel')) (hq : Quiet .default [] (t :: sel') = true)
    (hl : lb.val = vLBrace) (hlt : lb.typ ≠ .eof)
    (hx : nest [] x = some stk) (hxe : noEof x = true) (he : eof.typ = .eof) :
    (sheetLoop O M st (t :: sel' ++ lb :: x ++ [eof])).rules =
      st.rules ++ (if O.selOk st.nsmap (t :: sel') then
        [Rule.style st.nsmap (t :: sel') (parseDecls O (x ++ [eof]))] else []) := by
  have hup := upto_default_open_rule t sel' x lb eof stk hq hs.bal hl hlt hx hxe he
  have e0 : t :: sel' ++ lb :: x ++ [eof] = t :: (sel' ++ lb :: x ++ [eof]) := by simp
  rw [e0, sheetLoop_cons, sheetStep_starter O M st t _ ht, hup]
  simp only [sheetLoop_nil]
  rw [stmtEffect_ruleset O M st t _ ht, styleRule_truncated O st.nsmap (t :: sel') x lb eof stk hs hl hx hxe he]
  by_cases ho : O.selOk st.nsmap (t :: sel') = true
  · simp [ho, sheetInsert, Rule.kind]
  · simp [ho]

/-! ## known finding C04-escaped-delimiter-ident: value-based versus CSS-level classification -/

/-- what CSS means: only CHAR tokens are brackets; a FUNCTION token opens a parenthesis -/
def Tok.cssBr (t : Tok) : Br :=
  if t.typ = .function then .op .paren
  else if t.typ = .char then
    (if t.val = vLBrace then .op .brace else if t.val = vRBrace then .cl .brace
     else if t.val = vLBrack then .op .bracket else if t.val = vRBrack then .cl .bracket
     else if t.val = vLParen then .op .paren else if t.val = vRParen then .cl .paren else .no)
  else .no

/-- the guard of the finding: a token that is not a CHAR does not have a bracket as its (unescaped) value -/
def plainTok (t : Tok) : Bool :=
  t.typ == .char ||
    !(t.val == vLBrace || t.val == vRBrace || t.val == vLBrack || t.val == vRBrack || t.val == vLParen
      || t.val == vRParen)

theorem br_eq_cssBr (t : Tok) (h : plainTok t = true) : t.br = t.cssBr := by
  unfold Tok.br Tok.cssBr
  by_cases hc : t.typ = .char
  · simp [hc]
  · have h' : (t.val == vLBrace || t.val == vRBrace || t.val == vLBrack || t.val == vRBrack
        || t.val == vLParen || t.val == vRParen) = false := by
      unfold plainTok at h
      have : (t.typ == TT.char) = false := by simpa using hc
      simpa [this] using h
    simp only [Bool.or_eq_false_iff, beq_eq_false_iff_ne, ne_eq] at h'
    obtain ⟨⟨⟨⟨⟨h1, h2⟩, h3⟩, h4⟩, h5⟩, h6⟩ := h'
    by_cases hf : t.typ = .function <;> simp [h1, h2, h3, h4, h5, h6, hf, hc]

/-! ## the fuel of `mediaRule` is never the reason for a result -/

theorem parseLoop_cons' {σ : Type} (step : σ → Tok → List Tok → σ × List Tok) (s : σ) (t : Tok)
    (ts : List Tok) :
    parseLoop step s (t :: ts) =
      if (step s t ts).2.length ≤ ts.length then parseLoop step (step s t ts).1 (step s t ts).2
      else (step s t ts).1 := by
  rw [parseLoop]
  split <;> rfl

/-- two step functions that agree whenever fewer than `k` tokens are left give the same loop on lists of
at most `k` tokens -/
theorem parseLoop_congr {σ : Type} (step₁ step₂ : σ → Tok → List Tok → σ × List Tok) (k : Nat)
    (h : ∀ s t rest, rest.length < k → step₁ s t rest = step₂ s t rest) (ts : List Tok) (s : σ)
    (hk : ts.length ≤ k) : parseLoop step₁ s ts = parseLoop step₂ s ts := by
  generalize hn : ts.length = n
  induction n using Nat.strongRecOn generalizing ts s with
  | _ n ih =>
    cases ts with
    | nil => simp [parseLoop_nil]
    | cons t ts =>
      simp only [List.length_cons] at hk hn
      rw [parseLoop_cons', parseLoop_cons', h s t ts (by omega)]
      split
      · next hle => exact ih _ (by omega) _ _ (by omega) rfl
      · rfl

theorem mediaStep_congr (O : Oracle) (ns : List (Cps × Cps)) (n₁ n₂ : List Tok → Option Rule) (k : Nat)
    (h : ∀ l, l.length ≤ k → n₁ l = n₂ l) (acc : List Rule) (t : Tok) (rest : List Tok)
    (hr : rest.length < k) : mediaStep O ns n₁ acc t rest = mediaStep O ns n₂ acc t rest := by
  have hl : (upto .default (some t) rest).1.length ≤ k := by
    have := upto_taken_le .default (some t) rest; omega
  unfold mediaStep
  split <;> try rfl
  simp only [mediaStmtEffect]
  rw [h _ hl]

theorem sepEnd_fst_le (l : List Tok) : (sepEnd l).1.length ≤ l.length := by
  simp [sepEnd]

theorem mediaBlock_congr (O : Oracle) (ns : List (Cps × Cps)) (n₁ n₂ : List Tok → Option Rule)
    (rest2 : List Tok) (h : ∀ l, l.length ≤ rest2.length → n₁ l = n₂ l) :
    mediaBlock O ns n₁ rest2 = mediaBlock O ns n₂ rest2 := by
  unfold mediaBlock
  dsimp only
  split
  · rfl
  · next last hlast =>
    split
    · rfl
    · have b3 : (upto .mediaend none rest2).1.length ≤ rest2.length := by
        unfold upto; exact uptoLoop_taken_le _ _ _
      have b4 := sepEnd_fst_le (upto .mediaend none rest2).1
      apply parseLoop_congr _ _ rest2.length _ _ []
      · split <;> omega
      · intro acc t rest hr
        exact mediaStep_congr O ns n₁ n₂ rest2.length h acc t rest hr

theorem mediaHead_rest_le (c : Prop) [Decidable c] (rest0 : List Tok) :
    (if c then upto Mode.blockstart none (upto Mode.mq none rest0).2
      else ([], (upto Mode.mq none rest0).2)).2.length ≤ rest0.length := by
  have b1 := upto_rest_le .mq none rest0
  split
  · have := upto_rest_le .blockstart none (upto Mode.mq none rest0).2; omega
  · simpa using b1

/-- **noFuel**: any two amounts of fuel above the number of tokens give the same rule; in particular the
`none` (out of fuel) result of a nested call is never what makes a nested `@media` disappear -/
theorem mediaRule_fuel (O : Oracle) (ns : List (Cps × Cps)) (f₁ f₂ : Nat) (ts : List Tok)
    (h1 : ts.length < f₁) (h2 : ts.length < f₂) : mediaRule O ns f₁ ts = mediaRule O ns f₂ ts := by
  induction f₁ generalizing f₂ ts with
  | zero => omega
  | succ n ih =>
    cases f₂ with
    | zero => omega
    | succ m =>
      cases ts with
      | nil => simp [mediaRule]
      | cons at_ rest0 =>
        simp only [List.length_cons] at h1 h2
        have key : ∀ (c : Prop) [Decidable c],
            mediaBlock O ns (fun l => mediaRule O ns n l)
              (if c then upto Mode.blockstart none (upto Mode.mq none rest0).2
                else ([], (upto Mode.mq none rest0).2)).2 =
            mediaBlock O ns (fun l => mediaRule O ns m l)
              (if c then upto Mode.blockstart none (upto Mode.mq none rest0).2
                else ([], (upto Mode.mq none rest0).2)).2 := by
          intro c _
          apply mediaBlock_congr
          intro l hl
          have := mediaHead_rest_le c rest0
          exact ih m l (by omega) (by omega)
        simp only [mediaRule, key]

/-- a top-level call always has enough fuel: `stmtEffect` passes `stmt.length + 1` -/
theorem mediaRule_noFuel (O : Oracle) (ns : List (Cps × Cps)) (f : Nat) (ts : List Tok)
    (h : ts.length < f) : mediaRule O ns f ts ≠ none := by
  cases f with
  | zero => omega
  | succ n =>
    have : ∃ r, mediaRule O ns (n + 1) ts = some r := by
      simp only [mediaRule]
      repeat' split
      all_goals exact ⟨_, rfl⟩
    obtain ⟨r, hr⟩ := this
    simp [hr]

/-! ## example tokens (for the non-vacuity examples of the property file) -/
namespace Ex
def ch (c : Nat) (p : Nat := 0) : Tok := ⟨.char, [c], p⟩
def idt (s : String) (p : Nat := 0) : Tok := ⟨.ident, CssVerif.Proto.cps s, p⟩
def sp : Tok := ⟨.s, [0x20], 0⟩
def num (s : String) : Tok := ⟨.other, CssVerif.Proto.cps s, 0⟩
def fn (s : String) : Tok := ⟨.function, CssVerif.Proto.cps s, 0⟩
def atk (s : String) : Tok := ⟨.atkeyword, CssVerif.Proto.cps s, 0⟩
def imp (s : String) : Tok := ⟨.importSym, CssVerif.Proto.cps s, 0⟩
def str (s : String) : Tok := ⟨.string, CssVerif.Proto.cps s, 0⟩
def eof : Tok := ⟨.eof, [], 0⟩
def semi : Tok := ch 0x3B
def colon : Tok := ch 0x3A
def lbrace : Tok := ch 0x7B
def rbrace : Tok := ch 0x7D
def lparen : Tok := ch 0x28
def rparen : Tok := ch 0x29
def lbrack : Tok := ch 0x5B
def rbrack : Tok := ch 0x5D
/-- an oracle that accepts everything -/
def yes : Oracle := ⟨fun _ => true, fun _ _ => true, fun _ => true, fun _ _ _ => true, fun _ => none⟩
/-- an oracle that rejects everything -/
def no : Oracle := ⟨fun _ => false, fun _ _ => false, fun _ => false, fun _ _ _ => false, fun _ => none⟩
end Ex

end CssVerif.Struct
