import CssVerif.Model.Struct
/-!
# Lemmas about K2 `Struct`: bracket structure versus the three counters of `_tokensupto2`,
locality of the parse loops.
-/
namespace CssVerif.Struct
set_option linter.unusedSimpArgs false

/-! ## bracket structure (specification side) -/

/-- the three kinds of brackets -/
inductive K where | brace | bracket | paren
  deriving DecidableEq, Repr

/-- how `_tokensupto2` classifies a token read from the tokenizer (by VALUE, then type FUNCTION) -/
inductive Br where
  | op (k : K) | cl (k : K) | no
  deriving DecidableEq, Repr

def Tok.br (t : Tok) : Br :=
  if t.val = vLBrace then .op .brace
  else if t.val = vRBrace then .cl .brace
  else if t.val = vLBrack then .op .bracket
  else if t.val = vRBrack then .cl .bracket
  else if t.val = vLParen ∨ t.typ = .function then .op .paren
  else if t.val = vRParen then .cl .paren
  else .no

def Cnt.inc (c : Cnt) : K → Cnt
  | .brace => { c with brace := c.brace + 1 }
  | .bracket => { c with bracket := c.bracket + 1 }
  | .paren => { c with parant := c.parant + 1 }

def Cnt.dec (c : Cnt) : K → Cnt
  | .brace => { c with brace := c.brace - 1 }
  | .bracket => { c with bracket := c.bracket - 1 }
  | .paren => { c with parant := c.parant - 1 }

theorem bump_br (c : Cnt) (t : Tok) :
    bump c t = match t.br with
      | .op k => c.inc k
      | .cl k => c.dec k
      | .no => c := by
  unfold bump Tok.br
  by_cases h1 : t.val = vLBrace
  · simp [h1, Cnt.inc]
  by_cases h2 : t.val = vRBrace
  · simp [h1, h2, Cnt.dec]
  by_cases h3 : t.val = vLBrack
  · simp [h1, h2, h3, Cnt.inc]
  by_cases h4 : t.val = vRBrack
  · simp [h1, h2, h3, h4, Cnt.dec]
  by_cases h5 : t.val = vLParen ∨ t.typ = .function
  · simp [h1, h2, h3, h4, h5, Cnt.inc]
  have h5' := not_or.mp h5
  by_cases h6 : t.val = vRParen
  · simp [h5'.2, h6, Cnt.dec]
  · simp [h1, h2, h3, h4, h5, h6]

@[simp] theorem Cnt.dec_inc (c : Cnt) (k : K) : (c.inc k).dec k = c := by
  cases k <;> simp [Cnt.inc, Cnt.dec]

/-- one step of the bracket stack; `none` = a closing bracket that does not match -/
def push (stk : List K) (t : Tok) : Option (List K) :=
  match t.br with
  | .op k => some (k :: stk)
  | .cl k =>
    match stk with
    | k' :: s => if k = k' then some s else none
    | [] => none
  | .no => some stk

/-- run the bracket stack over a token list -/
def nest : List K → List Tok → Option (List K)
  | stk, [] => some stk
  | stk, t :: ts =>
    match push stk t with
    | none => none
    | some s => nest s ts

/-- brackets, braces and parentheses (a FUNCTION token opens one) are properly nested and all closed -/
def Balanced (g : List Tok) : Prop := nest [] g = some []

instance (g : List Tok) : Decidable (Balanced g) := by unfold Balanced; infer_instance

/-- the counters that correspond to a stack of open brackets, on top of `c₀` -/
def cntFrom (c₀ : Cnt) : List K → Cnt
  | [] => c₀
  | k :: s => (cntFrom c₀ s).inc k

theorem bump_push (c₀ : Cnt) (stk s : List K) (t : Tok) (h : push stk t = some s) :
    bump (cntFrom c₀ stk) t = cntFrom c₀ s := by
  rw [bump_br]
  unfold push at h
  split at h
  · next k hk => simp at h; subst h; simp [hk, cntFrom]
  · next k hk =>
    split at h
    · next k' s' =>
      split at h
      · next hkk => simp at h; subst h; subst hkk; simp [hk, cntFrom]
      · simp at h
    · simp at h
  · next hk => simp at h; subst h; simp [hk]

def zeroCnt : Cnt := ⟨0, 0, 0⟩

theorem cntFrom_zero_nonneg (stk : List K) :
    0 ≤ (cntFrom zeroCnt stk).brace ∧ 0 ≤ (cntFrom zeroCnt stk).bracket ∧ 0 ≤ (cntFrom zeroCnt stk).parant ∧
    (cntFrom zeroCnt stk).brace + (cntFrom zeroCnt stk).bracket + (cntFrom zeroCnt stk).parant = stk.length := by
  induction stk with
  | nil => simp [cntFrom, zeroCnt]
  | cons k s ih =>
    obtain ⟨h1, h2, h3, h4⟩ := ih
    cases k <;> simp [cntFrom, Cnt.inc] <;> omega

theorem isZero_cntFrom_zero (stk : List K) : (cntFrom zeroCnt stk).isZero = stk.isEmpty := by
  have h := cntFrom_zero_nonneg stk
  cases stk with
  | nil => simp [cntFrom, zeroCnt, Cnt.isZero]
  | cons k s =>
    simp only [List.isEmpty_cons]
    obtain ⟨h1, h2, h3, h4⟩ := h
    simp only [List.length_cons] at h4
    simp only [Cnt.isZero, Bool.and_eq_false_imp, Bool.and_eq_true, beq_iff_eq]
    intro ⟨ha, hb⟩
    simp; omega

/-- with all counters starting at 0 the loop stops exactly at an end token at nesting depth 0 -/
theorem stop_zero (m : Mode) (s : List K) (t : Tok) :
    stop m (cntFrom zeroCnt s) t = (s.isEmpty && endTok m t) := by
  have h := cntFrom_zero_nonneg s
  unfold stop
  rw [isZero_cntFrom_zero]
  have : ((m == Mode.mq) && ((cntFrom zeroCnt s).brace == -1) && ((cntFrom zeroCnt s).bracket == 0) &&
      ((cntFrom zeroCnt s).parant == 0) && (t.typ == TT.string)) = false := by
    have hb : ((cntFrom zeroCnt s).brace == -1) = false := by
      simp; omega
    simp [hb]
  simp [this]

/-- from stack `stk`: well nested, no EOF, and the loop (counters `cntFrom c₀ ·`) never stops inside -/
def calm (m : Mode) (c₀ : Cnt) : List K → List Tok → Bool
  | _, [] => true
  | stk, t :: ts =>
    match push stk t with
    | none => false
    | some s => t.typ != .eof && !(stop m (cntFrom c₀ s) t) && calm m c₀ s ts

/-- from stack `stk`: well nested, no EOF, no end token of mode `m` at nesting depth 0 -/
def Quiet (m : Mode) : List K → List Tok → Bool
  | _, [] => true
  | stk, t :: ts =>
    match push stk t with
    | none => false
    | some s => t.typ != .eof && !(s.isEmpty && endTok m t) && Quiet m s ts

theorem calm_of_quiet (m : Mode) (stk : List K) (g : List Tok) (h : Quiet m stk g = true) :
    calm m zeroCnt stk g = true := by
  induction g generalizing stk with
  | nil => simp [calm]
  | cons t ts ih =>
    unfold Quiet at h
    unfold calm
    split at h
    · simp at h
    · next s hs =>
      try simp only [hs]
      rw [stop_zero]
      simp only [Bool.and_eq_true] at h ⊢
      exact ⟨h.1, ih s h.2⟩

theorem nest_of_calm (m : Mode) (c₀ : Cnt) (stk : List K) (g : List Tok) (h : calm m c₀ stk g = true) :
    ∃ s, nest stk g = some s := by
  induction g generalizing stk with
  | nil => exact ⟨stk, rfl⟩
  | cons t ts ih =>
    unfold calm at h
    unfold nest
    split at h
    · simp at h
    · next s hs =>
      try simp only [hs]
      simp only [Bool.and_eq_true] at h
      exact ih s h.2

/-- the scan lemma: a calm stretch is appended unchanged and the counters follow the stack -/
theorem uptoLoop_calm (m : Mode) (c₀ : Cnt) (stk stk' : List K) (g rest : List Tok)
    (hc : calm m c₀ stk g = true) (hn : nest stk g = some stk') :
    uptoLoop m (cntFrom c₀ stk) (g ++ rest) =
      (g ++ (uptoLoop m (cntFrom c₀ stk') rest).1, (uptoLoop m (cntFrom c₀ stk') rest).2) := by
  induction g generalizing stk with
  | nil => simp [nest] at hn; subst hn; simp
  | cons t ts ih =>
    unfold calm at hc
    unfold nest at hn
    split at hc
    · simp at hc
    · next s hs =>
      try simp only [hs] at hn
      simp only [Bool.and_eq_true, bne_iff_ne, ne_eq, Bool.not_eq_true'] at hc
      obtain ⟨⟨h1, h2⟩, h3⟩ := hc
      have hb := bump_push c₀ stk s t hs
      simp only [List.cons_append]
      rw [uptoLoop]
      simp only [h1, hb, h2, ↓reduceIte, Bool.false_eq_true]
      rw [ih s h3 hn]

theorem uptoLoop_stop (m : Mode) (c : Cnt) (e : Tok) (rest : List Tok)
    (h : e.typ = .eof ∨ stop m (bump c e) e = true) : uptoLoop m c (e :: rest) = ([e], rest) := by
  rw [uptoLoop]
  rcases h with h | h
  · simp [h]
  · simp [h]

end CssVerif.Struct
