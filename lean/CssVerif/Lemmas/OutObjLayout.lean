import CssVerif.Lemmas.OutObj
/-!
# T6.2 for the value / selector / media layer: layout preferences change white space only
-/
namespace CssVerif.Out
open CssVerif.Proto (Cps)

def Val.isObj : Val → Bool
  | .obj _ => true
  | _ => false

mutual
/-- Guard of the layout theorem on the model DOM: (1) a nested *object* never sits under a type whose PRE phase
rewrites text (STRING/URI/HASH) — true of everything the parser builds; (2) the text a variable resolves to is empty
under both records or under neither (the code tests it for emptiness). -/
def ObjOk (p q : Prefs) (lv lw : Nat) : Obj → Prop
  | .comment _ => True
  | .pvalue _ items => ItemsOk p q lv lw items
  | .value _ _ => True
  | .num _ _ => True
  | .color _ items => ItemsOk p q lv lw items
  | .func items => ItemsOk p q lv lw items
  | .calc items => ItemsOk p q lv lw items
  | .ms items => ItemsOk p q lv lw items
  | .var _ res fb => ValOk p q lv lw res ∧ ValOk p q lv lw fb ∧
      ((evalVal p lv res).aval.text.isEmpty = (evalVal q lw res).aval.text.isEmpty)
  | .selector _ items => ItemsOk p q lv lw items
  | .mquery _ items => ItemsOk p q lv lw items
  | .mlist items => ItemsOk p q lv lw items
def ValOk (p q : Prefs) (lv lw : Nat) : Val → Prop
  | .obj o => ObjOk p q lv lw o
  | _ => True
def ItemsOk (p q : Prefs) (lv lw : Nat) : List Item → Prop
  | [] => True
  | .mk ty v :: t => (v.isObj = true → specialTy ty = false) ∧ ValOk p q lv lw v ∧ ItemsOk p q lv lw t
end

theorem numText_contentEq {p q : Prefs} (h : ContentEq p q) (n : Num) : numText p n = numText q n := by
  unfold numText; rw [h.omitLeadingZero]

theorem doComment_contentEq {p q : Prefs} (h : ContentEq p q) (t : Cps) : doComment p t = doComment q t := by
  unfold doComment; rw [h.keepComments]

theorem stripWs_value_append1 {p : Prefs} (hp : WsPrefs p) (il : Nat) (v : AVal) (ty : Cps) (f : Fl) :
    stripWs (value (append p il [] v ty f)) = lexA p v ty f := by
  rw [stripWs_value, core_append hp]; simp [core_nil, stripWs_nil]

theorem specialTy_None : specialTy t_None = false := by decide
theorem specialTy_COLOR_VALUE : specialTy t_COLOR_VALUE = false := by decide

/-- two strings with the same white-space-free content, passed under a type without PRE rewriting -/
theorem AValRel.strs {ty : Cps} (hs : specialTy ty = false) {a b : Cps} (e : stripWs a = stripWs b) :
    AValRel ty (.str a) (.str b) :=
  ⟨fun h => by rw [hs] at h; exact absurd h (by decide), e⟩

section
variable {p q : Prefs} (hp : WsPrefs p) (hq : WsPrefs q) (h : ContentEq p q)
include hp hq h

theorem calls_layout {il im : Nat} {cs ds : List Call} (r : All2 CallRel cs ds) :
    stripWs (value (runCalls p il cs)) = stripWs (value (runCalls q im ds)) := by
  rw [stripWs_value_runCalls hp, stripWs_value_runCalls hq, lexC_congr h r]

theorem colorText_layout {il im : Nat} (ct : Cps) {a b : List EItem} (r : All2 EItemRel a b) :
    stripWs (colorText p il ct a) = stripWs (colorText q im ct b) := by
  unfold colorText
  split
  · exact calls_layout hp hq h (funcCalls_rel false r)
  · split
    · rw [stripWs_value_append1 hp, stripWs_value_append1 hq]
      exact lexA_congr h (AValRel.strs specialTy_COLOR_VALUE (calls_layout hp hq h (funcCalls_rel true r))) _ _
    · rfl

theorem varText_layout {il im : Nat} (name : Cps) {r1 r2 f1 f2 : EVal} (hr : EValRel r1 r2) (hf : EValRel f1 f2)
    (he : r1.aval.text.isEmpty = r2.aval.text.isEmpty) :
    stripWs (varText p il name r1 f1) = stripWs (varText q im name r2 f2) := by
  unfold varText
  split
  · rfl
  · have hrt : stripWs r1.aval.text = stripWs r2.aval.text := by
      cases r1 <;> cases r2 <;> simp only [EValRel] at hr <;> first | (subst hr; rfl) | rfl | exact hr
    simp only [h.resolveVariables, he]
    split
    · rw [stripWs_value_append1 hp, stripWs_value_append1 hq]
      exact lexA_congr h (AValRel.strs specialTy_None hrt) _ _
    · apply calls_layout hp hq h
      refine .cons (CallRel.same _) (.cons (CallRel.same _) (All2.append ?_ (.cons (CallRel.same _) .nil)))
      cases f1 <;> cases f2 <;> simp only [EValRel] at hf
      · subst hf; exact .cons (CallRel.same _) (.cons (CallRel.same _) .nil)
      · subst hf; exact .cons (CallRel.same _) (.cons (CallRel.same _) .nil)
      · exact .nil
      · exact .cons (CallRel.same _) (.cons ⟨rfl, AValRel.strs specialTy_None hf⟩ .nil)

mutual
theorem serObj_layout (lv lw : Nat) : ∀ o : Obj, ObjOk p q lv lw o →
    stripWs (serObj p lv o) = stripWs (serObj q lw o)
  | .comment t, _ => by simp only [serObj, doComment_contentEq h]
  | .pvalue ne items, ok => by
    simp only [serObj]
    split
    · rfl
    · exact calls_layout hp hq h (pvalueCalls_rel (evalItems_layout lv lw items ok))
  | .value ty v, _ => by
    simp only [serObj]
    rw [stripWs_value_append1 hp, stripWs_value_append1 hq]
    exact lexA_congr h (AValRel.refl _ _) _ _
  | .num ty n, _ => by
    simp only [serObj]
    rw [stripWs_value_append1 hp, stripWs_value_append1 hq, numText_contentEq h]
    exact lexA_congr h (AValRel.refl _ _) _ _
  | .color ct items, ok => by
    simp only [serObj]
    exact colorText_layout hp hq h ct (evalItems_layout lv lw items ok)
  | .func items, ok => by
    simp only [serObj]
    exact calls_layout hp hq h (funcCalls_rel false (evalItems_layout lv lw items ok))
  | .calc items, ok => by
    simp only [serObj]
    exact calls_layout hp hq h (calcCalls_rel (evalItems_layout lv lw items ok))
  | .ms items, ok => by
    simp only [serObj]
    exact calls_layout hp hq h (msCalls_rel (evalItems_layout lv lw items ok))
  | .var name res fb, ok => by
    simp only [serObj]
    exact varText_layout hp hq h name (evalVal_layout lv lw res ok.1) (evalVal_layout lv lw fb ok.2.1) ok.2.2
  | .selector wf items, ok => by
    simp only [serObj]
    split
    · exact calls_layout hp hq h (selectorCalls_rel (evalItems_layout lv lw items ok))
    · rfl
  | .mquery wf items, ok => by
    simp only [serObj]
    split
    · exact calls_layout hp hq h (mqueryCalls_rel (evalItems_layout lv lw items ok) false)
    · rfl
  | .mlist items, ok => by
    simp only [serObj]
    split
    · rfl
    · exact calls_layout hp hq h (mlistCalls_rel (evalItems_layout lv lw items ok) false)
theorem evalVal_layout (lv lw : Nat) : ∀ v : Val, ValOk p q lv lw v → EValRel (evalVal p lv v) (evalVal q lw v)
  | .str s, _ => by simp [evalVal, EValRel]
  | .tup s, _ => by simp [evalVal, EValRel]
  | .none, _ => by simp [evalVal, EValRel]
  | .obj o, ok => by
    simp only [evalVal, EValRel]
    exact serObj_layout lv lw o ok
theorem evalItems_layout (lv lw : Nat) : ∀ items : List Item, ItemsOk p q lv lw items →
    All2 EItemRel (evalItems p lv items) (evalItems q lw items)
  | [], _ => by simp only [evalItems]; exact .nil
  | .mk ty v :: t, ok => by
    simp only [evalItems]
    refine .cons ⟨rfl, evalVal_layout lv lw v ok.2.1, fun ho => ok.1 ?_⟩ (evalItems_layout lv lw t ok.2.2)
    cases v <;> simp_all [evalVal, EVal.isObj, Val.isObj]
end

end

end CssVerif.Out
