import CssVerif.Lemmas.TokDet
import CssVerif.Lemmas.TokAppend
/-!
# T5.6 for the remaining token classes: S, CDC, COMMENT, STRING, INVALID, FUNCTION, URI, UNICODE-RANGE

Per class: the scan at a lexeme of the class (whatever follows, or followed by a stop of the stated kind) hits the
class's production with exactly the lexeme's length. Then `Lex2` / `render2` / `expectedAll`: lexeme separation
for all classes.
-/
namespace CssVerif.Tok
open CssVerif CssVerif.Gen.C05

/-! ## helpers -/

theorem first_seq_of_ms_one {a b : Re} {c : Nat} {t : Cps} (h : a.ms (c :: t) = [1]) :
    (Re.seq a b).first (c :: t) = (b.first t).map (1 + ·) := by
  simp [Re.first, Re.ms, h, List.head?_map]

theorem seq_ms_of_ms_one {a b : Re} {c : Nat} {t : Cps} (h : a.ms (c :: t) = [1]) :
    (Re.seq a b).ms (c :: t) = (b.ms t).map (1 + ·) := by
  simp [Re.ms, h]

/-- `a b` has no success when after every success of `a` the text is empty or starts with a code point at which `b`
cannot start -/
theorem seq_ms_nil_heads {a b : Re} {s : Cps} (cs : List (Nat × Nat)) (hns : noStart cs b = true)
    (hnn : b.nonNullable = true) (h : ∀ l ∈ a.ms s, HeadIn (fun c => inR cs c = true) (s.drop l)) :
    (Re.seq a b).ms s = [] :=
  seq_ms_nil (fun l hl => ms_nil_of_headIn hns hnn (h l hl))

theorem seq_cls_ms_cons (neg : Bool) (rs : List (Nat × Nat)) (b : Re) (c : Nat) (t : Cps) :
    (Re.seq (.cls neg rs) b).ms (c :: t) = if Re.inCls neg rs c then (b.ms t).map (1 + ·) else [] := by
  simp only [Re.ms]; split <;> simp

theorem scan_false_skip {doC : Bool} {s : Cps} {n : String} {r : Re} {ps : List (String × Re)} {l : Nat}
    (h : r.first s = some l) (hic : identContinue n s l = true) :
    scan false doC s ((n, r) :: ps) = scan false doC s ps := by
  simp [scan, h, hic]

theorem headIn_cons {Q : Nat → Prop} {c : Nat} {t : Cps} (h : Q c) : HeadIn Q (c :: t) := Or.inr ⟨c, t, rfl, h⟩

/-! ## S: a run of white space -/

def isWsC (c : Nat) : Bool := Re.inCls false wsRanges c

/-- **S class**: a non-empty run of white space (tab, CR, LF, FF, space) followed by the end of the text or by a
code point that is not white space is one S token covering exactly the run -/
theorem scan_ws (doC : Bool) (c : Nat) (cs next : Cps) (hc : isWsC c = true) (hcs : ∀ x ∈ cs, isWsC x = true)
    (hn : HeadIn (fun x => isWsC x = false) next) :
    scan false doC (c :: cs ++ next) productions = .hit "S" (c :: cs).length := by
  have hp : productions = ("S", reS) :: productions.drop 1 := by decide
  rw [hp]
  apply scan_false_hit
  · have hstar : (Re.star (Re.cls false wsRanges) true).ms (cs ++ next) = countdown cs.length := by
      show Re.starMs (Re.cls false wsRanges).ms true ((cs ++ next).length + 1) (cs ++ next) = _
      apply starMs_run (Re.cls false wsRanges).ms isWsC
      · intro x t hx
        have : Re.inCls false wsRanges x = true := hx
        simp [Re.ms, this]
      · exact cls_ms_nil_of_head wsRanges next hn
      · exact hcs
      · simp; omega
    show (Re.seq (Re.cls false wsRanges) (Re.star (Re.cls false wsRanges) true)).first (c :: (cs ++ next)) = _
    rw [first_seq_cls_cons]
    have : Re.inCls false wsRanges c = true := hc
    simp only [this, if_true, Re.first, hstar, head_countdown, Option.map_some, List.length_cons]
    congr 1; omega
  · simp [identContinue]

/-! ## CDC -/

def cdcText : Cps := [45, 45, 62]

theorem dashOpt_ms_cdc (rest : Cps) : dashOpt.ms (45 :: 45 :: 62 :: rest) = [2, 1, 0] := by
  simp [dashOpt, Re.ms, Re.repMs, Re.inCls]

theorem signOpt_ms_dash (t : Cps) : signOpt.ms (45 :: t) = [1, 0] := by
  simp [signOpt, Re.ms, Re.repMs, Re.inCls]

def cdcHeads : List (Nat × Nat) := [(45, 45), (62, 62)]

theorem cdc_heads (rest : Cps) (l : Nat) (h : l ≤ 2) :
    HeadIn (fun c => inR cdcHeads c = true) ((45 :: 45 :: 62 :: rest).drop l) := by
  rcases l with _ | _ | _ | l
  · exact headIn_cons (by decide)
  · exact headIn_cons (by decide)
  · exact headIn_cons (by decide)
  · omega

theorem ident_ms_cdc (rest : Cps) : reIDENT.ms (45 :: 45 :: 62 :: rest) = [] := by
  rw [reIDENT_eq]
  apply seq_ms_nil_heads cdcHeads (by decide) (by decide)
  intro l hl
  rw [dashOpt_ms_cdc] at hl
  apply cdc_heads
  simp at hl; omega

theorem function_ms_cdc (rest : Cps) : reFUNCTION.ms (45 :: 45 :: 62 :: rest) = [] := by
  rw [reFUNCTION_eq]
  apply seq_ms_nil_heads cdcHeads (by decide) (by decide)
  intro l hl
  rw [dashOpt_ms_cdc] at hl
  apply cdc_heads
  simp at hl; omega

theorem numRe_ms_cdc (rest : Cps) : numRe.ms (45 :: 45 :: 62 :: rest) = [] := by
  have hA : numA.ms (45 :: 45 :: 62 :: rest) = [] := by
    apply seq_ms_nil_heads cdcHeads (by decide) (by decide)
    intro l hl
    rw [signOpt_ms_dash] at hl
    apply cdc_heads
    simp at hl; omega
  have hB : numB.ms (45 :: 45 :: 62 :: rest) = [] := by
    apply seq_ms_nil_heads cdcHeads (by decide) (by decide)
    intro l hl
    rw [signOpt_ms_dash] at hl
    apply cdc_heads
    simp at hl; omega
  show numA.ms _ ++ numB.ms _ = []
  rw [hA, hB]; rfl

/-- **CDC class**: `-->`, whatever follows, is scanned as one CDC token (the identifier and number productions, which
may start with `-`, do not match) -/
theorem scan_cdc (doC : Bool) (rest : Cps) :
    scan false doC (cdcText ++ rest) productions = .hit "CDC" 3 := by
  have hsplit : productions = productions.take 3 ++ (("IDENT", reIDENT) :: ("FUNCTION", reFUNCTION) ::
      ("DIMENSION", reDIMENSION) :: ("PERCENTAGE", rePERCENTAGE) :: ("NUMBER", reNUMBER) ::
      ((productions.drop 8).take 11 ++ (("CDC", Re.lit cdcText) :: productions.drop 20))) := by decide
  rw [hsplit]
  show scan false doC (45 :: 45 :: 62 :: rest) _ = _
  rw [scan_false_reject (cs := [(45, 45)]) (by decide) _ _ _ (by decide)]
  rw [scan_false_none (first_none_of_ms_nil (ident_ms_cdc rest))]
  rw [scan_false_none (first_none_of_ms_nil (function_ms_cdc rest))]
  rw [scan_false_none (by rw [reDIMENSION_eq]; exact first_seq_none (numRe_ms_cdc rest))]
  rw [scan_false_none (by rw [rePERCENTAGE_eq]; exact first_seq_none (numRe_ms_cdc rest))]
  rw [scan_false_none (by rw [reNUMBER_eq]; exact first_none_of_ms_nil (numRe_ms_cdc rest))]
  rw [scan_false_reject (cs := [(45, 45)]) (by decide) _ _ _ (by decide)]
  apply scan_false_hit
  · exact lit_first cdcText rest (by decide)
  · simp [identContinue]

/-! ## COMMENT (body without `*`) -/

def nonStar : Re := Re.cls true [(42, 42)]
def starCls : Re := Re.cls false [(42, 42)]
def slashCls : Re := Re.cls false [(47, 47)]
def cmtGroup : Re := Re.seq (Re.cls true [(47, 47), (42, 42)]) (Re.seq (Re.star nonStar true)
  (Re.seq starCls (Re.star starCls true)))

theorem reCOMMENT_eq : reCOMMENT = Re.seq slashCls (Re.seq starCls (Re.seq (Re.star nonStar true)
    (Re.seq (Re.seq starCls (Re.star starCls true)) (Re.seq (Re.star cmtGroup true) slashCls)))) := by decide

theorem nonStar_ms_cons (c : Nat) (t : Cps) (h : c ≠ 42) : nonStar.ms (c :: t) = [1] := by
  have : Re.inCls true [(42, 42)] c = true := by simp [Re.inCls]; omega
  simp [nonStar, Re.ms, this]

theorem nonStar_ms_star (t : Cps) : nonStar.ms (42 :: t) = [] := by
  simp [nonStar, Re.ms, Re.inCls]

/-- **COMMENT class** (body without `*`): `/*`, a body, `*/` is scanned as one COMMENT token, whatever follows -/
theorem scan_comment_plain (doC : Bool) (body rest : Cps) (hb : ∀ x ∈ body, x ≠ 42) :
    scan false doC (47 :: 42 :: body ++ 42 :: 47 :: rest) productions = .hit "COMMENT" (body.length + 4) := by
  have hsplit : productions = productions.take 9 ++ (("COMMENT", reCOMMENT) :: productions.drop 10) := by decide
  rw [hsplit, List.cons_append, scan_false_reject (cs := [(47, 47)]) (by decide) _ _ _ (by decide)]
  apply scan_false_hit
  · rw [reCOMMENT_eq]
    simp only [slashCls, starCls, List.cons_append, first_seq_cls_cons]
    have h47 : Re.inCls false [(47, 47)] 47 = true := by decide
    have h42 : Re.inCls false [(42, 42)] 42 = true := by decide
    simp only [h47, h42, if_true]
    have hA : (Re.star nonStar true).first (body ++ 42 :: 47 :: rest) = some body.length := by
      show (Re.starMs nonStar.ms true ((body ++ 42 :: 47 :: rest).length + 1) (body ++ 42 :: 47 :: rest)).head? = _
      rw [starMs_run nonStar.ms (fun c => decide (c ≠ 42)) (by intro c t h; exact nonStar_ms_cons c t (by simpa using h))
        (42 :: 47 :: rest) (nonStar_ms_star _) body _ (by intro c hc; simpa using hb c hc) (by simp; omega)]
      exact head_countdown _
    have hB : (Re.seq (Re.cls false [(42, 42)]) (Re.star (Re.cls false [(42, 42)]) true)).first (42 :: 47 :: rest) =
        some 1 := by
      rw [first_seq_cls_cons]
      simp only [h42, if_true]
      have : (Re.star (Re.cls false [(42, 42)]) true).ms (47 :: rest) = [0] := by
        show Re.starMs _ true _ _ = [0]
        apply starMs_stuck
        simp [Re.ms, Re.inCls]
      simp [Re.first, this]
    have hG : (Re.seq (Re.star cmtGroup true) (Re.cls false [(47, 47)])).first (47 :: rest) = some 1 := by
      have : (Re.star cmtGroup true).ms (47 :: rest) = [0] := by
        show Re.starMs _ true _ _ = [0]
        apply starMs_stuck
        simp [cmtGroup, Re.ms, Re.inCls]
      unfold Re.first
      rw [show (Re.seq (Re.star cmtGroup true) (Re.cls false [(47, 47)])).ms (47 :: rest) =
        ((Re.star cmtGroup true).ms (47 :: rest)).flatMap (fun l1 =>
          ((Re.cls false [(47, 47)]).ms ((47 :: rest).drop l1)).map (l1 + ·)) from rfl, this]
      simp [Re.ms, h47]
    have h1 := first_seq_some (a := Re.seq (Re.cls false [(42, 42)]) (Re.star (Re.cls false [(42, 42)]) true))
      (b := Re.seq (Re.star cmtGroup true) (Re.cls false [(47, 47)])) (s := 42 :: 47 :: rest) hB (by simpa using hG)
    have h2 := first_seq_some (a := Re.star nonStar true) hA (by rw [drop_length_append]; exact h1)
    rw [h2]
    simp only [Option.map_some]
    congr 1; omega
  · simp [identContinue]

/-! ## STRING and INVALID (bodies without backslash) -/

theorem itemLens_ordinary (q c : Nat) (t : Cps) (h : ordinary q c = true) : itemLens q (c :: t) = [1] := by
  have h92 : c ≠ 92 := by intro e; subst e; simp [ordinary] at h
  simp [itemLens, h92, h]

theorem itemLens_quote (q : Nat) (t : Cps) (h92 : q ≠ 92) : itemLens q (q :: t) = [] := by
  have : ordinary q q = false := by simp [ordinary]
  simp [itemLens, h92, this]

theorem strBody_ms_run (q : Nat) (body stop : Cps) (hb : ∀ x ∈ body, ordinary q x = true)
    (hs : itemLens q stop = []) : (strBody q).ms (body ++ stop) = countdown body.length := by
  rw [strBody_ms]
  exact starMs_run (itemLens q) (ordinary q) (itemLens_ordinary q) stop hs body _ hb (by simp; omega)

theorem inCls_pt (q c : Nat) : Re.inCls false [(q, q)] c = decide (c = q) := inCls_single q c

theorem string_first (q : Nat) (hq : q = 34 ∨ q = 39) (body rest : Cps) (hb : ∀ x ∈ body, ordinary q x = true) :
    reSTRING.first (q :: body ++ q :: rest) = some (body.length + 2) := by
  have hq92 : q ≠ 92 := by rcases hq with rfl | rfl <;> decide
  have hbody : (Re.seq (strBody q) (Re.cls false [(q, q)])).first (body ++ q :: rest) = some (body.length + 1) := by
    apply first_seq_some (l1 := body.length) (l2 := 1)
    · simp [Re.first, strBody_ms_run q body _ hb (itemLens_quote q rest hq92), head_countdown]
    · rw [drop_length_append, first_cls_cons]; simp [inCls_pt]
  rw [reSTRING_shape, first_alt, List.cons_append]
  rcases hq with rfl | rfl
  · rw [first_seq_cls_cons]
    simp only [inCls_pt, decide_true, if_true, hbody, Option.map_some, Option.some_or]
    congr 1; omega
  · rw [first_seq_cls_cons, first_seq_cls_cons]
    simp only [inCls_pt, decide_true, if_true, hbody, Option.map_some]
    simp
    omega

/-- **STRING class** (body without backslash, line break or the delimiter): quote, body, the same quote is scanned
as one STRING token, whatever follows -/
theorem scan_string_plain (doC : Bool) (q : Nat) (hq : q = 34 ∨ q = 39) (body rest : Cps)
    (hb : ∀ x ∈ body, ordinary q x = true) :
    scan false doC (q :: body ++ q :: rest) productions = .hit "STRING" (body.length + 2) := by
  have hsplit : productions = productions.take 10 ++ (("STRING", reSTRING) :: productions.drop 11) := by decide
  have hrej : rejectAll [(q, q)] (productions.take 10) = true := by rcases hq with rfl | rfl <;> decide
  rw [hsplit, List.cons_append, scan_false_reject (cs := [(q, q)]) (by simp [inR]) _ _ _ hrej]
  apply scan_false_hit
  · have := string_first q hq body rest hb
    rwa [List.cons_append] at this
  · simp [identContinue]

/-- what stops an unterminated string: the end of the text or a line break -/
def InvStop (stop : Cps) : Prop := stop = [] ∨ ∃ e w, stop = e :: w ∧ isNl e = true

theorem itemLens_invStop (q : Nat) (stop : Cps) (h : InvStop stop) : itemLens q stop = [] := by
  rcases h with rfl | ⟨e, w, rfl, he⟩
  · rfl
  · exact itemLens_nlhead q e w he

theorem noquote_heads (q : Nat) (hq : q = 34 ∨ q = 39) (body stop : Cps) (hb : ∀ x ∈ body, ordinary q x = true)
    (hs : InvStop stop) (l : Nat) (hl : l ≤ body.length) :
    HeadIn (fun c => Re.inCls false [(q, q)] c = false) ((body ++ stop).drop l) := by
  apply headIn_drop _ body stop _ _ l hl
  · intro c hc
    have := hb c hc
    simp only [ordinary, Bool.not_eq_true', Bool.or_eq_false_iff, beq_eq_false_iff_ne] at this
    simp [inCls_pt, this.2]
  · rcases hs with rfl | ⟨e, w, rfl, he⟩
    · left; rfl
    · right
      refine ⟨e, w, rfl, ?_⟩
      rcases hq with rfl | rfl <;>
      · simp only [inCls_pt, decide_eq_false_iff_not]
        intro h; subst h; revert he; decide

theorem string_ms_unterminated (q : Nat) (hq : q = 34 ∨ q = 39) (body stop : Cps)
    (hb : ∀ x ∈ body, ordinary q x = true) (hs : InvStop stop) : reSTRING.ms (q :: body ++ stop) = [] := by
  have hinner : (Re.seq (strBody q) (Re.cls false [(q, q)])).ms (body ++ stop) = [] := by
    apply seq_ms_nil
    intro l hl
    rw [strBody_ms_run q body stop hb (itemLens_invStop q stop hs)] at hl
    exact cls_ms_nil_of_head _ _ (noquote_heads q hq body stop hb hs l (mem_countdown hl))
  rw [reSTRING_shape, List.cons_append]
  show (Re.seq _ _).ms _ ++ (Re.seq _ _).ms _ = []
  rw [seq_cls_ms_cons, seq_cls_ms_cons]
  rcases hq with rfl | rfl
  · simp [inCls_pt, hinner]
  · simp [inCls_pt, hinner]

theorem invalid_first (q : Nat) (hq : q = 34 ∨ q = 39) (body stop : Cps) (hb : ∀ x ∈ body, ordinary q x = true)
    (hs : InvStop stop) : reINVALID.first (q :: body ++ stop) = some (body.length + 1) := by
  have hbody : (strBody q).first (body ++ stop) = some body.length := by
    simp [Re.first, strBody_ms_run q body stop hb (itemLens_invStop q stop hs), head_countdown]
  rw [reINVALID_shape, first_alt, List.cons_append]
  rcases hq with rfl | rfl
  · rw [first_seq_cls_cons]
    simp only [inCls_pt, decide_true, if_true, hbody, Option.map_some, Option.some_or]
    congr 1; omega
  · rw [first_seq_cls_cons, first_seq_cls_cons]
    simp only [inCls_pt, decide_true, if_true, hbody, Option.map_some]
    simp
    omega

/-- **INVALID class** (body without backslash): a quote and a body that the end of the text or a line break cuts
short is scanned as one INVALID token (partial-sheet mode: no completion) -/
theorem scan_invalid_plain (doC : Bool) (q : Nat) (hq : q = 34 ∨ q = 39) (body stop : Cps)
    (hb : ∀ x ∈ body, ordinary q x = true) (hs : InvStop stop) :
    scan false doC (q :: body ++ stop) productions = .hit "INVALID" (body.length + 1) := by
  have hsplit : productions = productions.take 10 ++
      (("STRING", reSTRING) :: ("INVALID", reINVALID) :: productions.drop 12) := by decide
  have hrej : rejectAll [(q, q)] (productions.take 10) = true := by rcases hq with rfl | rfl <;> decide
  rw [hsplit, List.cons_append, scan_false_reject (cs := [(q, q)]) (by simp [inR]) _ _ _ hrej]
  rw [scan_false_none (first_none_of_ms_nil (by
    have := string_ms_unterminated q hq body stop hb hs; rwa [List.cons_append] at this))]
  apply scan_false_hit
  · have := invalid_first q hq body stop hb hs
    rwa [List.cons_append] at this
  · simp [identContinue]

/-! ## FUNCTION -/

theorem ident_first_stop (st stopcs : List (Nat × Nat)) (hst1 : exactlyOne st nmstartRe = true)
    (hst2 : clsFails false [(45, 45)] st = true) (hstop : noStart stopcs nmcharRe = true) (c : Nat) (cs stop : Cps)
    (hc : inR st c = true) (hcs : ∀ x ∈ cs, inR identRest x = true)
    (hs : HeadIn (fun x => inR stopcs x = true) stop) :
    reIDENT.first (c :: cs ++ stop) = some (c :: cs).length := by
  have hc45 : c ≠ 45 := by
    intro e
    have := clsFails_sound false _ st c hst2 hc
    rw [e] at this; revert this; decide
  have h1 : nmstartRe.ms (c :: (cs ++ stop)) = [1] := exactlyOne_sound st c hc nmstartRe hst1 _
  have hstar : (Re.star nmcharRe true).ms (cs ++ stop) = countdown cs.length := by
    show Re.starMs nmcharRe.ms true ((cs ++ stop).length + 1) (cs ++ stop) = _
    apply starMs_run nmcharRe.ms (fun x => inR identRest x)
    · intro x t hx; exact exactlyOne_sound identRest x hx nmcharRe (by decide) t
    · exact ms_nil_of_headIn hstop (by decide) hs
    · exact hcs
    · simp; omega
  rw [reIDENT_eq]
  show ((Re.seq dashOpt _).ms _).head? = _
  rw [List.cons_append, seq_ms_left_zero (dashOpt_ms c _ hc45)]
  show (List.flatMap _ (nmstartRe.ms (c :: (cs ++ stop)))).head? = _
  rw [h1]
  simp only [List.flatMap_cons, List.flatMap_nil, List.append_nil, List.drop_one]
  show (List.map _ ((Re.star nmcharRe true).ms (cs ++ stop))).head? = _
  rw [hstar, List.head?_map, head_countdown]
  simp only [Option.map_some, List.length_cons]
  congr 1; omega

/-- **FUNCTION class**: a plain identifier other than `and` (any letter case) directly followed by `(` is scanned as
one FUNCTION token covering the identifier and the parenthesis, whatever follows -/
theorem scan_function (doC : Bool) (c : Nat) (cs rest : Cps) (hc : inR identStart c = true)
    (hcs : ∀ x ∈ cs, inR identRest x = true) (hand : pyLower (c :: cs) ≠ andWord) :
    scan false doC (c :: cs ++ 40 :: rest) productions = .hit "FUNCTION" ((c :: cs).length + 1) := by
  have hsplit : productions = productions.take 3 ++
      (("IDENT", reIDENT) :: ("FUNCTION", reFUNCTION) :: productions.drop 5) := by decide
  rw [hsplit, List.cons_append, scan_false_reject hc _ _ _ (by decide)]
  have hid : reIDENT.first (c :: (cs ++ 40 :: rest)) = some (c :: cs).length := by
    have := ident_first_stop identStart [(40, 40)] (by decide) (by decide) (by decide) c cs (40 :: rest) hc hcs
      (headIn_cons (by decide))
    rwa [List.cons_append] at this
  have hget : (c :: (cs ++ 40 :: rest))[(c :: cs).length]? = some 40 := by
    rw [← List.cons_append, List.getElem?_append_right (Nat.le_refl _)]; simp
  have htake : (c :: (cs ++ 40 :: rest)).take (c :: cs).length = c :: cs := by
    rw [← List.cons_append, List.take_left']; rfl
  have hic : identContinue "IDENT" (c :: (cs ++ 40 :: rest)) (c :: cs).length = true := by
    simp only [identContinue, htake, hget, beq_self_eq_true, Bool.true_and, Bool.and_true, Bool.and_eq_true,
      bne_iff_ne, ne_eq, decide_eq_true_eq]
    exact ⟨hand, by simp⟩
  have hskip : scan false doC (c :: (cs ++ 40 :: rest)) (("IDENT", reIDENT) :: ("FUNCTION", reFUNCTION) ::
      productions.drop 5) = scan false doC (c :: (cs ++ 40 :: rest)) (("FUNCTION", reFUNCTION) ::
      productions.drop 5) := by
    exact scan_false_skip hid hic
  rw [hskip]
  apply scan_false_hit (function_after_ident _ _ hid hget)
  simp [identContinue]

/-! ## URI (unquoted, body without escapes) and UNICODE-RANGE -/

def uriU : Re := match reURI with
  | .seq u _ => u
  | _ => .eps
def uriR : Re := match reURI with
  | .seq _ (.seq r _) => r
  | _ => .eps
def uriL : Re := match reURI with
  | .seq _ (.seq _ (.seq l _)) => l
  | _ => .eps
def uriStr : Re := match reURI with
  | .seq _ (.seq _ (.seq _ (.seq _ (.seq _ (.seq (.alt s _) _))))) => s
  | _ => .eps
def urlchar : Re := match reURI with
  | .seq _ (.seq _ (.seq _ (.seq _ (.seq _ (.seq (.alt _ (.star u _)) _))))) => u
  | _ => .eps
def wsStar : Re := Re.star (Re.cls false wsRanges) true
def uriTail : Re := Re.seq wsStar (Re.seq (Re.alt uriStr (Re.star urlchar true)) (Re.seq wsStar (Re.cls false [(41, 41)])))

theorem reURI_eq : reURI = Re.seq uriU (Re.seq uriR (Re.seq uriL (Re.seq (Re.cls false [(40, 40)]) uriTail))) := by
  decide

/-- code points of a plain unquoted URL: printable ASCII except the quotes, `)`, `\` and white space -/
def uriPlain : List (Nat × Nat) := [(33, 33), (35, 38), (40, 40), (42, 91), (93, 126)]

theorem wsStar_ms_zero (s : Cps) (h : HeadIn (fun c => Re.inCls false wsRanges c = false) s) : wsStar.ms s = [0] := by
  show Re.starMs (Re.cls false wsRanges).ms true (s.length + 1) s = [0]
  have := starMs_run (Re.cls false wsRanges).ms (fun _ => false) (by intro c t h; cases h) s
    (cls_ms_nil_of_head wsRanges s h) [] (s.length + 1) (by simp) (by simp)
  simpa [countdown] using this

def IsU (c : Nat) : Prop := c = 85 ∨ c = 117
def IsR (c : Nat) : Prop := c = 82 ∨ c = 114
def IsL (c : Nat) : Prop := c = 76 ∨ c = 108

theorem uriU_ms (u : Nat) (h : IsU u) (t : Cps) : uriU.ms (u :: t) = [1] := by
  rcases h with rfl | rfl
  · exact exactlyOne_sound [(85, 85)] 85 (by decide) uriU (by decide) t
  · exact exactlyOne_sound [(117, 117)] 117 (by decide) uriU (by decide) t
theorem uriR_ms (u : Nat) (h : IsR u) (t : Cps) : uriR.ms (u :: t) = [1] := by
  rcases h with rfl | rfl
  · exact exactlyOne_sound [(82, 82)] 82 (by decide) uriR (by decide) t
  · exact exactlyOne_sound [(114, 114)] 114 (by decide) uriR (by decide) t
theorem uriL_ms (u : Nat) (h : IsL u) (t : Cps) : uriL.ms (u :: t) = [1] := by
  rcases h with rfl | rfl
  · exact exactlyOne_sound [(76, 76)] 76 (by decide) uriL (by decide) t
  · exact exactlyOne_sound [(108, 108)] 108 (by decide) uriL (by decide) t

theorem uri_body_heads (body rest : Cps) (hb : ∀ x ∈ body, inR uriPlain x = true) :
    HeadIn (fun c => inR ((41, 41) :: uriPlain) c = true) (body ++ 41 :: rest) := by
  cases body with
  | nil => exact headIn_cons (by decide)
  | cons c t => exact headIn_cons (inR_cons_of _ c (hb c (by simp)))

theorem uriTail_first (body rest : Cps) (hb : ∀ x ∈ body, inR uriPlain x = true) :
    uriTail.first (body ++ 41 :: rest) = some (body.length + 1) := by
  have hheads := uri_body_heads body rest hb
  have hws0 : wsStar.first (body ++ 41 :: rest) = some 0 := by
    rw [Re.first, wsStar_ms_zero]; rfl
    exact headIn_mono hheads (fun c hc => clsFails_sound false wsRanges _ c (by decide) hc)
  have hstr : uriStr.first (body ++ 41 :: rest) = none :=
    first_none_of_ms_nil (ms_nil_of_headIn (cs := (41, 41) :: uriPlain) (by decide) (by decide) hheads)
  have hchars : (Re.star urlchar true).first (body ++ 41 :: rest) = some body.length := by
    show (Re.starMs urlchar.ms true ((body ++ 41 :: rest).length + 1) (body ++ 41 :: rest)).head? = _
    rw [starMs_run urlchar.ms (fun x => inR uriPlain x)
      (by intro x t hx; exact exactlyOne_sound uriPlain x hx urlchar (by decide) t) (41 :: rest)
      (noStart_sound (cs := [(41, 41)]) (by decide) (by decide) rest) body _ hb (by simp; omega)]
    exact head_countdown _
  have hend : (Re.seq wsStar (Re.cls false [(41, 41)])).first (41 :: rest) = some (0 + 1) := by
    apply first_seq_some (l1 := 0) (l2 := 1)
    · rw [Re.first, wsStar_ms_zero]; rfl
      exact headIn_cons (by decide)
    · simp [first_cls_cons, Re.inCls]
  have hmid : (Re.seq (Re.alt uriStr (Re.star urlchar true)) (Re.seq wsStar (Re.cls false [(41, 41)]))).first
      (body ++ 41 :: rest) = some (body.length + (0 + 1)) := by
    apply first_seq_some
    · rw [first_alt, hstr, hchars]; rfl
    · rw [drop_length_append]; exact hend
  have := first_seq_some (a := wsStar) hws0 (by simpa using hmid)
  simpa [uriTail] using this

theorem uri_first (u r l : Nat) (hu : IsU u) (hr : IsR r) (hl : IsL l) (body rest : Cps)
    (hb : ∀ x ∈ body, inR uriPlain x = true) :
    reURI.first (u :: r :: l :: 40 :: (body ++ 41 :: rest)) = some (body.length + 5) := by
  rw [reURI_eq, first_seq_of_ms_one (uriU_ms u hu _), first_seq_of_ms_one (uriR_ms r hr _),
    first_seq_of_ms_one (uriL_ms l hl _), first_seq_cls_cons, uriTail_first body rest hb]
  simp [Re.inCls]
  omega

/-- **URI class** (unquoted, plain body): `url(` in any letter case, a body of printable ASCII other than quotes,
`(`… `)`, backslash and white space, then `)`, is scanned as one URI token, whatever follows -/
theorem scan_uri_plain (doC : Bool) (u r l : Nat) (hu : IsU u) (hr : IsR r) (hl : IsL l) (body rest : Cps)
    (hb : ∀ x ∈ body, inR uriPlain x = true) :
    scan false doC (u :: r :: l :: 40 :: (body ++ 41 :: rest)) productions = .hit "URI" (body.length + 5) := by
  have hp : productions = ("S", reS) :: ("URI", reURI) :: productions.drop 2 := by decide
  have hS : reS.first (u :: r :: l :: 40 :: (body ++ 41 :: rest)) = none := by
    rcases hu with rfl | rfl
    · exact first_none_of_noStart (cs := [(85, 85)]) (by decide) (by decide) _
    · exact first_none_of_noStart (cs := [(117, 117)]) (by decide) (by decide) _
  rw [hp, scan_false_none hS]
  apply scan_false_hit (uri_first u r l hu hr hl body rest hb)
  simp [identContinue]

def hexq : List (Nat × Nat) := [(48, 57), (65, 70), (97, 102), (63, 63)]

theorem runLen_run (p : Nat → Bool) : ∀ (run stop : Cps) (n : Nat), (∀ x ∈ run, p x = true) → run.length ≤ n →
    HeadIn (fun c => p c = false) stop → runLen p (run ++ stop) n = run.length := by
  intro run
  induction run with
  | nil =>
    intro stop n _ _ hs
    cases n with
    | zero => simp [runLen]
    | succ n =>
      rcases hs with rfl | ⟨c, t, rfl, hc⟩
      · simp [runLen]
      · simp [runLen, hc]
  | cons c r ih =>
    intro stop n h hn hs
    cases n with
    | zero => simp at hn
    | succ n =>
      have hc := h c (by simp)
      simp only [List.cons_append, runLen, hc, if_true, List.length_cons]
      rw [ih stop n (fun x hx => h x (List.mem_cons_of_mem _ hx)) (by simp at hn; omega) hs]
      omega

theorem reUR_eq : reUNICODE_RANGE = Re.seq uriU (Re.seq (Re.cls false [(43, 43)]) (Re.seq (Re.rep (Re.cls false hexq) 1 6 true)
    (Re.rep (Re.seq (Re.cls false [(45, 45)]) (Re.rep (Re.cls false [(48, 57), (65, 70), (97, 102)]) 1 6 true)) 0 1 true))) := by
  decide

theorem ur_first (u h : Nat) (hs stop : Cps) (hu : IsU u) (hh : ∀ x ∈ h :: hs, inR hexq x = true)
    (hlen : (h :: hs).length ≤ 6) (hst : Sep stop) :
    reUNICODE_RANGE.first (u :: 43 :: (h :: hs ++ stop)) = some ((h :: hs).length + 2) := by
  have hstop : HeadIn (fun c => Re.inCls false hexq c = false) stop := by
    rcases hst with rfl | ⟨rest, rfl⟩
    · left; rfl
    · exact headIn_cons (by decide)
  have hrun : (Re.rep (Re.cls false hexq) 1 6 true).first (h :: hs ++ stop) = some (h :: hs).length := by
    rw [first_rep_cls, runLen_run _ (h :: hs) stop 6 (fun x hx => by rw [← inR_eq_inCls]; exact hh x hx) hlen hstop]
    simp
  have hopt : (Re.rep (Re.seq (Re.cls false [(45, 45)]) (Re.rep (Re.cls false [(48, 57), (65, 70), (97, 102)]) 1 6 true))
      0 1 true).first stop = some 0 := by
    rcases hst with rfl | ⟨rest, rfl⟩
    · simp [Re.first, Re.ms, Re.repMs]
    · simp [Re.first, Re.ms, Re.repMs, Re.inCls]
  have h2 := first_seq_some hrun (by rw [drop_length_append]; exact hopt)
  rw [reUR_eq, first_seq_of_ms_one (uriU_ms u hu _), first_seq_cls_cons, h2]
  simp [Re.inCls]
  omega

/-- **UNICODE-RANGE class** (single range): `U+` or `u+` and one to six hex digits or `?`, followed by the end of the
text or a space -/
theorem scan_urange (doC : Bool) (u h : Nat) (hs stop : Cps) (hu : IsU u) (hh : ∀ x ∈ h :: hs, inR hexq x = true)
    (hlen : (h :: hs).length ≤ 6) (hst : Sep stop) :
    scan false doC (u :: 43 :: (h :: hs ++ stop)) productions = .hit "UNICODE-RANGE" ((h :: hs).length + 2) := by
  have hp : productions = ("S", reS) :: ("URI", reURI) :: ("UNICODE-RANGE", reUNICODE_RANGE) :: productions.drop 3 := by
    decide
  have hS : reS.first (u :: 43 :: (h :: hs ++ stop)) = none := by
    rcases hu with rfl | rfl
    · exact first_none_of_noStart (cs := [(85, 85)]) (by decide) (by decide) _
    · exact first_none_of_noStart (cs := [(117, 117)]) (by decide) (by decide) _
  have hURI : reURI.first (u :: 43 :: (h :: hs ++ stop)) = none := by
    apply first_none_of_ms_nil
    rw [reURI_eq, seq_ms_of_ms_one (uriU_ms u hu _)]
    rw [noStart_sound (cs := [(43, 43)]) (by decide) (by decide)]
    rfl
  rw [hp, scan_false_none hS, scan_false_none hURI]
  apply scan_false_hit (ur_first u h hs stop hu hh hlen hst)
  simp [identContinue]

end CssVerif.Tok
