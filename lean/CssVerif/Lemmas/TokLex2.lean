import CssVerif.Lemmas.TokDet
import CssVerif.Lemmas.TokAppend
/-!
# T5.6 for the remaining token classes: S, CDC, COMMENT, STRING, INVALID, FUNCTION, URI, UNICODE-RANGE

Per class: the scan at a lexeme of the class (whatever follows, or followed by a stop of the stated kind) hits the
class's production with exactly the lexeme's length. Then `Lex2` / `render2` / `expectedAll`: lexeme separation
for all classes.
-/
namespace CssVerif.Tok
open CssVerif CssVerif.Gen.C05

/-! ## helpers -/

theorem first_seq_of_ms_one {a b : Re} {c : Nat} {t : Cps} (h : a.ms (c :: t) = [1]) :
    (Re.seq a b).first (c :: t) = (b.first t).map (1 + ·) := by
  simp [Re.first, Re.ms, h, List.head?_map]

theorem seq_ms_of_ms_one {a b : Re} {c : Nat} {t : Cps} (h : a.ms (c :: t) = [1]) :
    (Re.seq a b).ms (c :: t) = (b.ms t).map (1 + ·) := by
  simp [Re.ms, h]

/-- `a b` has no success when after every success of `a` the text is empty or starts with a code point at which `b`
cannot start -/
theorem seq_ms_nil_heads {a b : Re} {s : Cps} (cs : List (Nat × Nat)) (hns : noStart cs b = true)
    (hnn : b.nonNullable = true) (h : ∀ l ∈ a.ms s, HeadIn (fun c => inR cs c = true) (s.drop l)) :
    (Re.seq a b).ms s = [] :=
  seq_ms_nil (fun l hl => ms_nil_of_headIn hns hnn (h l hl))

theorem seq_cls_ms_cons (neg : Bool) (rs : List (Nat × Nat)) (b : Re) (c : Nat) (t : Cps) :
    (Re.seq (.cls neg rs) b).ms (c :: t) = if Re.inCls neg rs c then (b.ms t).map (1 + ·) else [] := by
  simp only [Re.ms]; split <;> simp

theorem scan_false_skip {doC : Bool} {s : Cps} {n : String} {r : Re} {ps : List (String × Re)} {l : Nat}
    (h : r.first s = some l) (hic : identContinue n s l = true) :
    scan false doC s ((n, r) :: ps) = scan false doC s ps := by
  simp [scan, h, hic]

theorem headIn_cons {Q : Nat → Prop} {c : Nat} {t : Cps} (h : Q c) : HeadIn Q (c :: t) := Or.inr ⟨c, t, rfl, h⟩

/-! ## S: a run of white space -/

def isWsC (c : Nat) : Bool := Re.inCls false wsRanges c

/-- **S class**: a non-empty run of white space (tab, CR, LF, FF, space) followed by the end of the text or by a
code point that is not white space is one S token covering exactly the run -/
theorem scan_ws (doC : Bool) (c : Nat) (cs next : Cps) (hc : isWsC c = true) (hcs : ∀ x ∈ cs, isWsC x = true)
    (hn : HeadIn (fun x => isWsC x = false) next) :
    scan false doC (c :: cs ++ next) productions = .hit "S" (c :: cs).length := by
  have hp : productions = ("S", reS) :: productions.drop 1 := by decide
  rw [hp]
  apply scan_false_hit
  · have hstar : (Re.star (Re.cls false wsRanges) true).ms (cs ++ next) = countdown cs.length := by
      show Re.starMs (Re.cls false wsRanges).ms true ((cs ++ next).length + 1) (cs ++ next) = _
      apply starMs_run (Re.cls false wsRanges).ms isWsC
      · intro x t hx
        have : Re.inCls false wsRanges x = true := hx
        simp [Re.ms, this]
      · exact cls_ms_nil_of_head wsRanges next hn
      · exact hcs
      · simp; omega
    show (Re.seq (Re.cls false wsRanges) (Re.star (Re.cls false wsRanges) true)).first (c :: (cs ++ next)) = _
    rw [first_seq_cls_cons]
    have : Re.inCls false wsRanges c = true := hc
    simp only [this, if_true, Re.first, hstar, head_countdown, Option.map_some, List.length_cons]
    congr 1; omega
  · simp [identContinue]

/-! ## CDC -/

def cdcText : Cps := [45, 45, 62]

theorem dashOpt_ms_cdc (rest : Cps) : dashOpt.ms (45 :: 45 :: 62 :: rest) = [2, 1, 0] := by
  simp [dashOpt, Re.ms, Re.repMs, Re.inCls]

theorem signOpt_ms_dash (t : Cps) : signOpt.ms (45 :: t) = [1, 0] := by
  simp [signOpt, Re.ms, Re.repMs, Re.inCls]

def cdcHeads : List (Nat × Nat) := [(45, 45), (62, 62)]

theorem cdc_heads (rest : Cps) (l : Nat) (h : l ≤ 2) :
    HeadIn (fun c => inR cdcHeads c = true) ((45 :: 45 :: 62 :: rest).drop l) := by
  rcases l with _ | _ | _ | l
  · exact headIn_cons (by decide)
  · exact headIn_cons (by decide)
  · exact headIn_cons (by decide)
  · omega

theorem ident_ms_cdc (rest : Cps) : reIDENT.ms (45 :: 45 :: 62 :: rest) = [] := by
  rw [reIDENT_eq]
  apply seq_ms_nil_heads cdcHeads (by decide) (by decide)
  intro l hl
  rw [dashOpt_ms_cdc] at hl
  apply cdc_heads
  simp at hl; omega

theorem function_ms_cdc (rest : Cps) : reFUNCTION.ms (45 :: 45 :: 62 :: rest) = [] := by
  rw [reFUNCTION_eq]
  apply seq_ms_nil_heads cdcHeads (by decide) (by decide)
  intro l hl
  rw [dashOpt_ms_cdc] at hl
  apply cdc_heads
  simp at hl; omega

theorem numRe_ms_cdc (rest : Cps) : numRe.ms (45 :: 45 :: 62 :: rest) = [] := by
  have hA : numA.ms (45 :: 45 :: 62 :: rest) = [] := by
    apply seq_ms_nil_heads cdcHeads (by decide) (by decide)
    intro l hl
    rw [signOpt_ms_dash] at hl
    apply cdc_heads
    simp at hl; omega
  have hB : numB.ms (45 :: 45 :: 62 :: rest) = [] := by
    apply seq_ms_nil_heads cdcHeads (by decide) (by decide)
    intro l hl
    rw [signOpt_ms_dash] at hl
    apply cdc_heads
    simp at hl; omega
  show numA.ms _ ++ numB.ms _ = []
  rw [hA, hB]; rfl

/-- **CDC class**: `-->`, whatever follows, is scanned as one CDC token (the identifier and number productions, which
may start with `-`, do not match) -/
theorem scan_cdc (doC : Bool) (rest : Cps) :
    scan false doC (cdcText ++ rest) productions = .hit "CDC" 3 := by
  have hsplit : productions = productions.take 3 ++ (("IDENT", reIDENT) :: ("FUNCTION", reFUNCTION) ::
      ("DIMENSION", reDIMENSION) :: ("PERCENTAGE", rePERCENTAGE) :: ("NUMBER", reNUMBER) ::
      ((productions.drop 8).take 11 ++ (("CDC", Re.lit cdcText) :: productions.drop 20))) := by decide
  rw [hsplit]
  show scan false doC (45 :: 45 :: 62 :: rest) _ = _
  rw [scan_false_reject (cs := [(45, 45)]) (by decide) _ _ _ (by decide)]
  rw [scan_false_none (first_none_of_ms_nil (ident_ms_cdc rest))]
  rw [scan_false_none (first_none_of_ms_nil (function_ms_cdc rest))]
  rw [scan_false_none (by rw [reDIMENSION_eq]; exact first_seq_none (numRe_ms_cdc rest))]
  rw [scan_false_none (by rw [rePERCENTAGE_eq]; exact first_seq_none (numRe_ms_cdc rest))]
  rw [scan_false_none (by rw [reNUMBER_eq]; exact first_none_of_ms_nil (numRe_ms_cdc rest))]
  rw [scan_false_reject (cs := [(45, 45)]) (by decide) _ _ _ (by decide)]
  apply scan_false_hit
  · exact lit_first cdcText rest (by decide)
  · simp [identContinue]

/-! ## COMMENT (body without `*`) -/

def nonStar : Re := Re.cls true [(42, 42)]
def starCls : Re := Re.cls false [(42, 42)]
def slashCls : Re := Re.cls false [(47, 47)]
def cmtGroup : Re := Re.seq (Re.cls true [(47, 47), (42, 42)]) (Re.seq (Re.star nonStar true)
  (Re.seq starCls (Re.star starCls true)))

theorem reCOMMENT_eq : reCOMMENT = Re.seq slashCls (Re.seq starCls (Re.seq (Re.star nonStar true)
    (Re.seq (Re.seq starCls (Re.star starCls true)) (Re.seq (Re.star cmtGroup true) slashCls)))) := by decide

theorem nonStar_ms_cons (c : Nat) (t : Cps) (h : c ≠ 42) : nonStar.ms (c :: t) = [1] := by
  have : Re.inCls true [(42, 42)] c = true := by simp [Re.inCls]; omega
  simp [nonStar, Re.ms, this]

theorem nonStar_ms_star (t : Cps) : nonStar.ms (42 :: t) = [] := by
  simp [nonStar, Re.ms, Re.inCls]

/-- **COMMENT class** (body without `*`): `/*`, a body, `*/` is scanned as one COMMENT token, whatever follows -/
theorem scan_comment_plain (doC : Bool) (body rest : Cps) (hb : ∀ x ∈ body, x ≠ 42) :
    scan false doC (47 :: 42 :: body ++ 42 :: 47 :: rest) productions = .hit "COMMENT" (body.length + 4) := by
  have hsplit : productions = productions.take 9 ++ (("COMMENT", reCOMMENT) :: productions.drop 10) := by decide
  rw [hsplit, List.cons_append, scan_false_reject (cs := [(47, 47)]) (by decide) _ _ _ (by decide)]
  apply scan_false_hit
  · rw [reCOMMENT_eq]
    simp only [slashCls, starCls, List.cons_append, first_seq_cls_cons]
    have h47 : Re.inCls false [(47, 47)] 47 = true := by decide
    have h42 : Re.inCls false [(42, 42)] 42 = true := by decide
    simp only [h47, h42, if_true]
    have hA : (Re.star nonStar true).first (body ++ 42 :: 47 :: rest) = some body.length := by
      show (Re.starMs nonStar.ms true ((body ++ 42 :: 47 :: rest).length + 1) (body ++ 42 :: 47 :: rest)).head? = _
      rw [starMs_run nonStar.ms (fun c => decide (c ≠ 42)) (by intro c t h; exact nonStar_ms_cons c t (by simpa using h))
        (42 :: 47 :: rest) (nonStar_ms_star _) body _ (by intro c hc; simpa using hb c hc) (by simp; omega)]
      exact head_countdown _
    have hB : (Re.seq (Re.cls false [(42, 42)]) (Re.star (Re.cls false [(42, 42)]) true)).first (42 :: 47 :: rest) =
        some 1 := by
      rw [first_seq_cls_cons]
      simp only [h42, if_true]
      have : (Re.star (Re.cls false [(42, 42)]) true).ms (47 :: rest) = [0] := by
        show Re.starMs _ true _ _ = [0]
        apply starMs_stuck
        simp [Re.ms, Re.inCls]
      simp [Re.first, this]
    have hG : (Re.seq (Re.star cmtGroup true) (Re.cls false [(47, 47)])).first (47 :: rest) = some 1 := by
      have : (Re.star cmtGroup true).ms (47 :: rest) = [0] := by
        show Re.starMs _ true _ _ = [0]
        apply starMs_stuck
        simp [cmtGroup, Re.ms, Re.inCls]
      unfold Re.first
      rw [show (Re.seq (Re.star cmtGroup true) (Re.cls false [(47, 47)])).ms (47 :: rest) =
        ((Re.star cmtGroup true).ms (47 :: rest)).flatMap (fun l1 =>
          ((Re.cls false [(47, 47)]).ms ((47 :: rest).drop l1)).map (l1 + ·)) from rfl, this]
      simp [Re.ms, h47]
    have h1 := first_seq_some (a := Re.seq (Re.cls false [(42, 42)]) (Re.star (Re.cls false [(42, 42)]) true))
      (b := Re.seq (Re.star cmtGroup true) (Re.cls false [(47, 47)])) (s := 42 :: 47 :: rest) hB (by simpa using hG)
    have h2 := first_seq_some (a := Re.star nonStar true) hA (by rw [drop_length_append]; exact h1)
    rw [h2]
    simp only [Option.map_some]
    congr 1; omega
  · simp [identContinue]

/-! ## STRING and INVALID (bodies without backslash) -/

theorem itemLens_ordinary (q c : Nat) (t : Cps) (h : ordinary q c = true) : itemLens q (c :: t) = [1] := by
  have h92 : c ≠ 92 := by intro e; subst e; simp [ordinary] at h
  simp [itemLens, h92, h]

theorem itemLens_quote (q : Nat) (t : Cps) (h92 : q ≠ 92) : itemLens q (q :: t) = [] := by
  have : ordinary q q = false := by simp [ordinary]
  simp [itemLens, h92, this]

theorem strBody_ms_run (q : Nat) (body stop : Cps) (hb : ∀ x ∈ body, ordinary q x = true)
    (hs : itemLens q stop = []) : (strBody q).ms (body ++ stop) = countdown body.length := by
  rw [strBody_ms]
  exact starMs_run (itemLens q) (ordinary q) (itemLens_ordinary q) stop hs body _ hb (by simp; omega)

theorem inCls_pt (q c : Nat) : Re.inCls false [(q, q)] c = decide (c = q) := inCls_single q c

theorem string_first (q : Nat) (hq : q = 34 ∨ q = 39) (body rest : Cps) (hb : ∀ x ∈ body, ordinary q x = true) :
    reSTRING.first (q :: body ++ q :: rest) = some (body.length + 2) := by
  have hq92 : q ≠ 92 := by rcases hq with rfl | rfl <;> decide
  have hbody : (Re.seq (strBody q) (Re.cls false [(q, q)])).first (body ++ q :: rest) = some (body.length + 1) := by
    apply first_seq_some (l1 := body.length) (l2 := 1)
    · simp [Re.first, strBody_ms_run q body _ hb (itemLens_quote q rest hq92), head_countdown]
    · rw [drop_length_append, first_cls_cons]; simp [inCls_pt]
  rw [reSTRING_shape, first_alt, List.cons_append]
  rcases hq with rfl | rfl
  · rw [first_seq_cls_cons]
    simp only [inCls_pt, decide_true, if_true, hbody, Option.map_some, Option.some_or]
    congr 1; omega
  · rw [first_seq_cls_cons, first_seq_cls_cons]
    simp only [inCls_pt, decide_true, if_true, hbody, Option.map_some]
    simp
    omega

/-- **STRING class** (body without backslash, line break or the delimiter): quote, body, the same quote is scanned
as one STRING token, whatever follows -/
theorem scan_string_plain (doC : Bool) (q : Nat) (hq : q = 34 ∨ q = 39) (body rest : Cps)
    (hb : ∀ x ∈ body, ordinary q x = true) :
    scan false doC (q :: body ++ q :: rest) productions = .hit "STRING" (body.length + 2) := by
  have hsplit : productions = productions.take 10 ++ (("STRING", reSTRING) :: productions.drop 11) := by decide
  have hrej : rejectAll [(q, q)] (productions.take 10) = true := by rcases hq with rfl | rfl <;> decide
  rw [hsplit, List.cons_append, scan_false_reject (cs := [(q, q)]) (by simp [inR]) _ _ _ hrej]
  apply scan_false_hit
  · have := string_first q hq body rest hb
    rwa [List.cons_append] at this
  · simp [identContinue]

/-- what stops an unterminated string: the end of the text or a line break -/
def InvStop (stop : Cps) : Prop := stop = [] ∨ ∃ e w, stop = e :: w ∧ isNl e = true

theorem itemLens_invStop (q : Nat) (stop : Cps) (h : InvStop stop) : itemLens q stop = [] := by
  rcases h with rfl | ⟨e, w, rfl, he⟩
  · rfl
  · exact itemLens_nlhead q e w he

theorem noquote_heads (q : Nat) (hq : q = 34 ∨ q = 39) (body stop : Cps) (hb : ∀ x ∈ body, ordinary q x = true)
    (hs : InvStop stop) (l : Nat) (hl : l ≤ body.length) :
    HeadIn (fun c => Re.inCls false [(q, q)] c = false) ((body ++ stop).drop l) := by
  apply headIn_drop _ body stop _ _ l hl
  · intro c hc
    have := hb c hc
    simp only [ordinary, Bool.not_eq_true', Bool.or_eq_false_iff, beq_eq_false_iff_ne] at this
    simp [inCls_pt, this.2]
  · rcases hs with rfl | ⟨e, w, rfl, he⟩
    · left; rfl
    · right
      refine ⟨e, w, rfl, ?_⟩
      rcases hq with rfl | rfl <;>
      · simp only [inCls_pt, decide_eq_false_iff_not]
        intro h; subst h; revert he; decide

theorem string_ms_unterminated (q : Nat) (hq : q = 34 ∨ q = 39) (body stop : Cps)
    (hb : ∀ x ∈ body, ordinary q x = true) (hs : InvStop stop) : reSTRING.ms (q :: body ++ stop) = [] := by
  have hinner : (Re.seq (strBody q) (Re.cls false [(q, q)])).ms (body ++ stop) = [] := by
    apply seq_ms_nil
    intro l hl
    rw [strBody_ms_run q body stop hb (itemLens_invStop q stop hs)] at hl
    exact cls_ms_nil_of_head _ _ (noquote_heads q hq body stop hb hs l (mem_countdown hl))
  rw [reSTRING_shape, List.cons_append]
  show (Re.seq _ _).ms _ ++ (Re.seq _ _).ms _ = []
  rw [seq_cls_ms_cons, seq_cls_ms_cons]
  rcases hq with rfl | rfl
  · simp [inCls_pt, hinner]
  · simp [inCls_pt, hinner]

theorem invalid_first (q : Nat) (hq : q = 34 ∨ q = 39) (body stop : Cps) (hb : ∀ x ∈ body, ordinary q x = true)
    (hs : InvStop stop) : reINVALID.first (q :: body ++ stop) = some (body.length + 1) := by
  have hbody : (strBody q).first (body ++ stop) = some body.length := by
    simp [Re.first, strBody_ms_run q body stop hb (itemLens_invStop q stop hs), head_countdown]
  rw [reINVALID_shape, first_alt, List.cons_append]
  rcases hq with rfl | rfl
  · rw [first_seq_cls_cons]
    simp only [inCls_pt, decide_true, if_true, hbody, Option.map_some, Option.some_or]
    congr 1; omega
  · rw [first_seq_cls_cons, first_seq_cls_cons]
    simp only [inCls_pt, decide_true, if_true, hbody, Option.map_some]
    simp
    omega

/-- **INVALID class** (body without backslash): a quote and a body that the end of the text or a line break cuts
short is scanned as one INVALID token (partial-sheet mode: no completion) -/
theorem scan_invalid_plain (doC : Bool) (q : Nat) (hq : q = 34 ∨ q = 39) (body stop : Cps)
    (hb : ∀ x ∈ body, ordinary q x = true) (hs : InvStop stop) :
    scan false doC (q :: body ++ stop) productions = .hit "INVALID" (body.length + 1) := by
  have hsplit : productions = productions.take 10 ++
      (("STRING", reSTRING) :: ("INVALID", reINVALID) :: productions.drop 12) := by decide
  have hrej : rejectAll [(q, q)] (productions.take 10) = true := by rcases hq with rfl | rfl <;> decide
  rw [hsplit, List.cons_append, scan_false_reject (cs := [(q, q)]) (by simp [inR]) _ _ _ hrej]
  rw [scan_false_none (first_none_of_ms_nil (by
    have := string_ms_unterminated q hq body stop hb hs; rwa [List.cons_append] at this))]
  apply scan_false_hit
  · have := invalid_first q hq body stop hb hs
    rwa [List.cons_append] at this
  · simp [identContinue]

/-! ## FUNCTION -/

theorem ident_first_stop (st stopcs : List (Nat × Nat)) (hst1 : exactlyOne st nmstartRe = true)
    (hst2 : clsFails false [(45, 45)] st = true) (hstop : noStart stopcs nmcharRe = true) (c : Nat) (cs stop : Cps)
    (hc : inR st c = true) (hcs : ∀ x ∈ cs, inR identRest x = true)
    (hs : HeadIn (fun x => inR stopcs x = true) stop) :
    reIDENT.first (c :: cs ++ stop) = some (c :: cs).length := by
  have hc45 : c ≠ 45 := by
    intro e
    have := clsFails_sound false _ st c hst2 hc
    rw [e] at this; revert this; decide
  have h1 : nmstartRe.ms (c :: (cs ++ stop)) = [1] := exactlyOne_sound st c hc nmstartRe hst1 _
  have hstar : (Re.star nmcharRe true).ms (cs ++ stop) = countdown cs.length := by
    show Re.starMs nmcharRe.ms true ((cs ++ stop).length + 1) (cs ++ stop) = _
    apply starMs_run nmcharRe.ms (fun x => inR identRest x)
    · intro x t hx; exact exactlyOne_sound identRest x hx nmcharRe (by decide) t
    · exact ms_nil_of_headIn hstop (by decide) hs
    · exact hcs
    · simp; omega
  rw [reIDENT_eq]
  show ((Re.seq dashOpt _).ms _).head? = _
  rw [List.cons_append, seq_ms_left_zero (dashOpt_ms c _ hc45)]
  show (List.flatMap _ (nmstartRe.ms (c :: (cs ++ stop)))).head? = _
  rw [h1]
  simp only [List.flatMap_cons, List.flatMap_nil, List.append_nil, List.drop_one]
  show (List.map _ ((Re.star nmcharRe true).ms (cs ++ stop))).head? = _
  rw [hstar, List.head?_map, head_countdown]
  simp only [Option.map_some, List.length_cons]
  congr 1; omega

/-- **FUNCTION class**: a plain identifier other than `and` (any letter case) directly followed by `(` is scanned as
one FUNCTION token covering the identifier and the parenthesis, whatever follows -/
theorem scan_function (doC : Bool) (c : Nat) (cs rest : Cps) (hc : inR identStart c = true)
    (hcs : ∀ x ∈ cs, inR identRest x = true) (hand : pyLower (c :: cs) ≠ andWord) :
    scan false doC (c :: cs ++ 40 :: rest) productions = .hit "FUNCTION" ((c :: cs).length + 1) := by
  have hsplit : productions = productions.take 3 ++
      (("IDENT", reIDENT) :: ("FUNCTION", reFUNCTION) :: productions.drop 5) := by decide
  rw [hsplit, List.cons_append, scan_false_reject hc _ _ _ (by decide)]
  have hid : reIDENT.first (c :: (cs ++ 40 :: rest)) = some (c :: cs).length := by
    have := ident_first_stop identStart [(40, 40)] (by decide) (by decide) (by decide) c cs (40 :: rest) hc hcs
      (headIn_cons (by decide))
    rwa [List.cons_append] at this
  have hget : (c :: (cs ++ 40 :: rest))[(c :: cs).length]? = some 40 := by
    rw [← List.cons_append, List.getElem?_append_right (Nat.le_refl _)]; simp
  have htake : (c :: (cs ++ 40 :: rest)).take (c :: cs).length = c :: cs := by
    rw [← List.cons_append, List.take_left']; rfl
  have hic : identContinue "IDENT" (c :: (cs ++ 40 :: rest)) (c :: cs).length = true := by
    simp only [identContinue, htake, hget, beq_self_eq_true, Bool.true_and, Bool.and_true, Bool.and_eq_true,
      bne_iff_ne, ne_eq, decide_eq_true_eq]
    exact ⟨hand, by simp⟩
  have hskip : scan false doC (c :: (cs ++ 40 :: rest)) (("IDENT", reIDENT) :: ("FUNCTION", reFUNCTION) ::
      productions.drop 5) = scan false doC (c :: (cs ++ 40 :: rest)) (("FUNCTION", reFUNCTION) ::
      productions.drop 5) := by
    exact scan_false_skip hid hic
  rw [hskip]
  apply scan_false_hit (function_after_ident _ _ hid hget)
  simp [identContinue]

/-! ## URI (unquoted, body without escapes) and UNICODE-RANGE -/

def uriU : Re := match reURI with
  | .seq u _ => u
  | _ => .eps
def uriR : Re := match reURI with
  | .seq _ (.seq r _) => r
  | _ => .eps
def uriL : Re := match reURI with
  | .seq _ (.seq _ (.seq l _)) => l
  | _ => .eps
def uriStr : Re := match reURI with
  | .seq _ (.seq _ (.seq _ (.seq _ (.seq _ (.seq (.alt s _) _))))) => s
  | _ => .eps
def urlchar : Re := match reURI with
  | .seq _ (.seq _ (.seq _ (.seq _ (.seq _ (.seq (.alt _ (.star u _)) _))))) => u
  | _ => .eps
def wsStar : Re := Re.star (Re.cls false wsRanges) true
def uriTail : Re := Re.seq wsStar (Re.seq (Re.alt uriStr (Re.star urlchar true)) (Re.seq wsStar (Re.cls false [(41, 41)])))

theorem reURI_eq : reURI = Re.seq uriU (Re.seq uriR (Re.seq uriL (Re.seq (Re.cls false [(40, 40)]) uriTail))) := by
  decide

/-- code points of a plain unquoted URL: printable ASCII except the quotes, `)`, `\` and white space -/
def uriPlain : List (Nat × Nat) := [(33, 33), (35, 38), (40, 40), (42, 91), (93, 126)]

theorem wsStar_ms_zero (s : Cps) (h : HeadIn (fun c => Re.inCls false wsRanges c = false) s) : wsStar.ms s = [0] := by
  show Re.starMs (Re.cls false wsRanges).ms true (s.length + 1) s = [0]
  have := starMs_run (Re.cls false wsRanges).ms (fun _ => false) (by intro c t h; cases h) s
    (cls_ms_nil_of_head wsRanges s h) [] (s.length + 1) (by simp) (by simp)
  simpa [countdown] using this

def IsU (c : Nat) : Prop := c = 85 ∨ c = 117
def IsR (c : Nat) : Prop := c = 82 ∨ c = 114
def IsL (c : Nat) : Prop := c = 76 ∨ c = 108

theorem uriU_ms (u : Nat) (h : IsU u) (t : Cps) : uriU.ms (u :: t) = [1] := by
  rcases h with rfl | rfl
  · exact exactlyOne_sound [(85, 85)] 85 (by decide) uriU (by decide) t
  · exact exactlyOne_sound [(117, 117)] 117 (by decide) uriU (by decide) t
theorem uriR_ms (u : Nat) (h : IsR u) (t : Cps) : uriR.ms (u :: t) = [1] := by
  rcases h with rfl | rfl
  · exact exactlyOne_sound [(82, 82)] 82 (by decide) uriR (by decide) t
  · exact exactlyOne_sound [(114, 114)] 114 (by decide) uriR (by decide) t
theorem uriL_ms (u : Nat) (h : IsL u) (t : Cps) : uriL.ms (u :: t) = [1] := by
  rcases h with rfl | rfl
  · exact exactlyOne_sound [(76, 76)] 76 (by decide) uriL (by decide) t
  · exact exactlyOne_sound [(108, 108)] 108 (by decide) uriL (by decide) t

theorem uri_body_heads (body rest : Cps) (hb : ∀ x ∈ body, inR uriPlain x = true) :
    HeadIn (fun c => inR ((41, 41) :: uriPlain) c = true) (body ++ 41 :: rest) := by
  cases body with
  | nil => exact headIn_cons (by decide)
  | cons c t => exact headIn_cons (inR_cons_of _ c (hb c (by simp)))

theorem uriTail_first (body rest : Cps) (hb : ∀ x ∈ body, inR uriPlain x = true) :
    uriTail.first (body ++ 41 :: rest) = some (body.length + 1) := by
  have hheads := uri_body_heads body rest hb
  have hws0 : wsStar.first (body ++ 41 :: rest) = some 0 := by
    rw [Re.first, wsStar_ms_zero]; rfl
    exact headIn_mono hheads (fun c hc => clsFails_sound false wsRanges _ c (by decide) hc)
  have hstr : uriStr.first (body ++ 41 :: rest) = none :=
    first_none_of_ms_nil (ms_nil_of_headIn (cs := (41, 41) :: uriPlain) (by decide) (by decide) hheads)
  have hchars : (Re.star urlchar true).first (body ++ 41 :: rest) = some body.length := by
    show (Re.starMs urlchar.ms true ((body ++ 41 :: rest).length + 1) (body ++ 41 :: rest)).head? = _
    rw [starMs_run urlchar.ms (fun x => inR uriPlain x)
      (by intro x t hx; exact exactlyOne_sound uriPlain x hx urlchar (by decide) t) (41 :: rest)
      (noStart_sound (cs := [(41, 41)]) (by decide) (by decide) rest) body _ hb (by simp; omega)]
    exact head_countdown _
  have hend : (Re.seq wsStar (Re.cls false [(41, 41)])).first (41 :: rest) = some (0 + 1) := by
    apply first_seq_some (l1 := 0) (l2 := 1)
    · rw [Re.first, wsStar_ms_zero]; rfl
      exact headIn_cons (by decide)
    · simp [first_cls_cons, Re.inCls]
  have hmid : (Re.seq (Re.alt uriStr (Re.star urlchar true)) (Re.seq wsStar (Re.cls false [(41, 41)]))).first
      (body ++ 41 :: rest) = some (body.length + (0 + 1)) := by
    apply first_seq_some
    · rw [first_alt, hstr, hchars]; rfl
    · rw [drop_length_append]; exact hend
  have := first_seq_some (a := wsStar) hws0 (by simpa using hmid)
  simpa [uriTail] using this

theorem uri_first (u r l : Nat) (hu : IsU u) (hr : IsR r) (hl : IsL l) (body rest : Cps)
    (hb : ∀ x ∈ body, inR uriPlain x = true) :
    reURI.first (u :: r :: l :: 40 :: (body ++ 41 :: rest)) = some (body.length + 5) := by
  rw [reURI_eq, first_seq_of_ms_one (uriU_ms u hu _), first_seq_of_ms_one (uriR_ms r hr _),
    first_seq_of_ms_one (uriL_ms l hl _), first_seq_cls_cons, uriTail_first body rest hb]
  simp [Re.inCls]
  omega

/-- **URI class** (unquoted, plain body): `url(` in any letter case, a body of printable ASCII other than quotes,
`(`… `)`, backslash and white space, then `)`, is scanned as one URI token, whatever follows -/
theorem scan_uri_plain (doC : Bool) (u r l : Nat) (hu : IsU u) (hr : IsR r) (hl : IsL l) (body rest : Cps)
    (hb : ∀ x ∈ body, inR uriPlain x = true) :
    scan false doC (u :: r :: l :: 40 :: (body ++ 41 :: rest)) productions = .hit "URI" (body.length + 5) := by
  have hp : productions = ("S", reS) :: ("URI", reURI) :: productions.drop 2 := by decide
  have hS : reS.first (u :: r :: l :: 40 :: (body ++ 41 :: rest)) = none := by
    rcases hu with rfl | rfl
    · exact first_none_of_noStart (cs := [(85, 85)]) (by decide) (by decide) _
    · exact first_none_of_noStart (cs := [(117, 117)]) (by decide) (by decide) _
  rw [hp, scan_false_none hS]
  apply scan_false_hit (uri_first u r l hu hr hl body rest hb)
  simp [identContinue]

def hexq : List (Nat × Nat) := [(48, 57), (65, 70), (97, 102), (63, 63)]

theorem runLen_run (p : Nat → Bool) : ∀ (run stop : Cps) (n : Nat), (∀ x ∈ run, p x = true) → run.length ≤ n →
    HeadIn (fun c => p c = false) stop → runLen p (run ++ stop) n = run.length := by
  intro run
  induction run with
  | nil =>
    intro stop n _ _ hs
    cases n with
    | zero => simp [runLen]
    | succ n =>
      rcases hs with rfl | ⟨c, t, rfl, hc⟩
      · simp [runLen]
      · simp [runLen, hc]
  | cons c r ih =>
    intro stop n h hn hs
    cases n with
    | zero => simp at hn
    | succ n =>
      have hc := h c (by simp)
      simp only [List.cons_append, runLen, hc, if_true, List.length_cons]
      rw [ih stop n (fun x hx => h x (List.mem_cons_of_mem _ hx)) (by simp at hn; omega) hs]
      omega

theorem reUR_eq : reUNICODE_RANGE = Re.seq uriU (Re.seq (Re.cls false [(43, 43)]) (Re.seq (Re.rep (Re.cls false hexq) 1 6 true)
    (Re.rep (Re.seq (Re.cls false [(45, 45)]) (Re.rep (Re.cls false [(48, 57), (65, 70), (97, 102)]) 1 6 true)) 0 1 true))) := by
  decide

theorem ur_first (u h : Nat) (hs stop : Cps) (hu : IsU u) (hh : ∀ x ∈ h :: hs, inR hexq x = true)
    (hlen : (h :: hs).length ≤ 6) (hst : Sep stop) :
    reUNICODE_RANGE.first (u :: 43 :: (h :: hs ++ stop)) = some ((h :: hs).length + 2) := by
  have hstop : HeadIn (fun c => Re.inCls false hexq c = false) stop := by
    rcases hst with rfl | ⟨rest, rfl⟩
    · left; rfl
    · exact headIn_cons (by decide)
  have hrun : (Re.rep (Re.cls false hexq) 1 6 true).first (h :: hs ++ stop) = some (h :: hs).length := by
    rw [first_rep_cls, runLen_run _ (h :: hs) stop 6 (fun x hx => by rw [← inR_eq_inCls]; exact hh x hx) hlen hstop]
    simp
  have hopt : (Re.rep (Re.seq (Re.cls false [(45, 45)]) (Re.rep (Re.cls false [(48, 57), (65, 70), (97, 102)]) 1 6 true))
      0 1 true).first stop = some 0 := by
    rcases hst with rfl | ⟨rest, rfl⟩
    · simp [Re.first, Re.ms, Re.repMs]
    · simp [Re.first, Re.ms, Re.repMs, Re.inCls]
  have h2 := first_seq_some hrun (by rw [drop_length_append]; exact hopt)
  rw [reUR_eq, first_seq_of_ms_one (uriU_ms u hu _), first_seq_cls_cons, h2]
  simp [Re.inCls]
  omega

/-- **UNICODE-RANGE class** (single range): `U+` or `u+` and one to six hex digits or `?`, followed by the end of the
text or a space -/
theorem scan_urange (doC : Bool) (u h : Nat) (hs stop : Cps) (hu : IsU u) (hh : ∀ x ∈ h :: hs, inR hexq x = true)
    (hlen : (h :: hs).length ≤ 6) (hst : Sep stop) :
    scan false doC (u :: 43 :: (h :: hs ++ stop)) productions = .hit "UNICODE-RANGE" ((h :: hs).length + 2) := by
  have hp : productions = ("S", reS) :: ("URI", reURI) :: ("UNICODE-RANGE", reUNICODE_RANGE) :: productions.drop 3 := by
    decide
  have hS : reS.first (u :: 43 :: (h :: hs ++ stop)) = none := by
    rcases hu with rfl | rfl
    · exact first_none_of_noStart (cs := [(85, 85)]) (by decide) (by decide) _
    · exact first_none_of_noStart (cs := [(117, 117)]) (by decide) (by decide) _
  have hURI : reURI.first (u :: 43 :: (h :: hs ++ stop)) = none := by
    apply first_none_of_ms_nil
    rw [reURI_eq, seq_ms_of_ms_one (uriU_ms u hu _)]
    rw [noStart_sound (cs := [(43, 43)]) (by decide) (by decide)]
    rfl
  rw [hp, scan_false_none hS, scan_false_none hURI]
  apply scan_false_hit (ur_first u h hs stop hu hh hlen hst)
  simp [identContinue]

/-! ## lexeme separation for all classes -/

theorem stringValue_id : ∀ (s : Cps), (∀ c ∈ s, c ≠ 92) → stringValue s = s := by
  intro s
  induction s with
  | nil => intro _; rfl
  | cons c t ih =>
    intro h
    have hc : c ≠ 92 := h c (by simp)
    have : stringValue (c :: t) = c :: stringValue t := by
      show stringValueF (t.length + 1) (c :: t) = _
      simp only [stringValueF, hc, ne_eq, not_false_eq_true, if_true]
      rfl
    rw [this, ih (fun x hx => h x (List.mem_cons_of_mem _ hx))]

theorem valueOf_clean (s : Cps) (name : String) (found : Cps) (h1 : cleanTypes.contains name = true)
    (h : ∀ c ∈ found, c ≠ 92) : valueOf s name found = some ⟨name, found, found⟩ := by
  have hun : unescTypes.contains name = true := by
    have : ∀ t ∈ cleanTypes, unescTypes.contains t = true := by decide
    exact this _ (by simpa using h1)
  simp only [valueOf, hun, h1, subS_eq_stringValue, stringValue_id found h, if_true]

/-- one iteration of the loop when the scan hits `name` with the whole lexeme and the value is the text itself;
the item is yielded unless it is a comment and comments are off -/
theorem loop_step2 (doC : Bool) (fuel : Nat) (w stop : Cps) (line col : Nat) (name : String)
    (hw : w ≠ []) (hfast : ∀ c t, w = c :: t → fastChars.contains c = false)
    (hscan : scan false doC (w ++ stop) productions = .hit name w.length)
    (hval : valueOf (w ++ stop) name w = some ⟨name, w, w⟩) :
    ∃ line' col', loop false doC (fuel + 1) (w ++ stop) line col =
      Res.cons ⟨name, w, line, col, w, w, doC || name != "COMMENT"⟩ (loop false doC fuel stop line' col') := by
  cases w with
  | nil => exact absurd rfl hw
  | cons c t =>
    have hf := hfast c t rfl
    refine ⟨(advance line col (c :: t)).1, (advance line col (c :: t)).2, ?_⟩
    have htake : List.take (c :: t).length (c :: t ++ stop) = c :: t := by
      rw [List.take_left']; rfl
    have hdrop : List.drop (c :: t).length (c :: t ++ stop) = stop := by
      rw [List.drop_left']; rfl
    simp only [List.cons_append] at hscan hval htake hdrop ⊢
    rw [loop]
    simp only [hf, Bool.false_eq_true, if_false, hscan, complete_false, htake, hval, hdrop]
    simp

inductive Lex2 where
  | old (t : Lex)                          -- the classes of `Lex`
  | str (q : Nat) (body : Cps)             -- STRING: quote, body without backslash / line break / the quote, quote
  | fn (c : Nat) (cs : Cps)                -- FUNCTION: plain identifier other than `and`, `(`
  | uri (u r l : Nat) (body : Cps)         -- URI: `url(` in any case, plain unquoted body, `)`
  | urange (u h : Nat) (hs : Cps)          -- UNICODE-RANGE: `U+`, 1-6 hex digits or `?`
  | cmt (body : Cps)                       -- COMMENT: `/*`, body without `*`, `*/`
  | cdc                                    -- CDC `-->`

def Lex2.text : Lex2 → Cps
  | .old t => t.text
  | .str q body => q :: body ++ [q]
  | .fn c cs => c :: cs ++ [40]
  | .uri u r l body => u :: r :: l :: 40 :: (body ++ [41])
  | .urange u h hs => u :: 43 :: h :: hs
  | .cmt body => 47 :: 42 :: body ++ [42, 47]
  | .cdc => cdcText

def Lex2.typ : Lex2 → String
  | .old t => t.typ
  | .str _ _ => "STRING"
  | .fn _ _ => "FUNCTION"
  | .uri _ _ _ _ => "URI"
  | .urange _ _ _ => "UNICODE-RANGE"
  | .cmt _ => "COMMENT"
  | .cdc => "CDC"

def Lex2.WF : Lex2 → Prop
  | .old t => t.WF
  | .str q body => (q = 34 ∨ q = 39) ∧ ∀ x ∈ body, ordinary q x = true
  | .fn c cs => inR identStart c = true ∧ (∀ x ∈ cs, inR identRest x = true) ∧ pyLower (c :: cs) ≠ andWord
  | .uri u r l body => IsU u ∧ IsR r ∧ IsL l ∧ ∀ x ∈ body, inR uriPlain x = true
  | .urange u h hs => IsU u ∧ (∀ x ∈ h :: hs, inR hexq x = true) ∧ (h :: hs).length ≤ 6
  | .cmt body => ∀ x ∈ body, x ≠ 42
  | .cdc => True

/-- the lexemes joined by single spaces -/
def render2 : List Lex2 → Cps
  | [] => []
  | [t] => t.text
  | t :: u :: ts => t.text ++ 32 :: render2 (u :: ts)

/-- all (type, value) pairs, comments included: the tokens with an S token between neighbours -/
def expectedAll : List Lex2 → List (String × Cps)
  | [] => []
  | [t] => [(t.typ, t.text)]
  | t :: u :: ts => (t.typ, t.text) :: ("S", [32]) :: expectedAll (u :: ts)

theorem Lex.typ_ne_comment (t : Lex) (h : t.WF) : (t.typ != "COMMENT") = true := by
  cases t with
  | num d ds => show (_ != "COMMENT") = true; simp only [Lex.typ]; decide
  | ident c cs => show (_ != "COMMENT") = true; simp only [Lex.typ]; decide
  | fixed name w k =>
    have hmem : (name, w, k) ∈ fixedLexemes := h
    have htab : ∀ e ∈ fixedLexemes, (e.1 != "COMMENT") = true := by decide
    exact htab _ hmem
  | fast c => show (_ != "COMMENT") = true; simp only [Lex.typ]; decide
  | pct d ds => show (_ != "COMMENT") = true; simp only [Lex.typ]; decide
  | dim d ds c cs => show (_ != "COMMENT") = true; simp only [Lex.typ]; decide
  | hash n ns => show (_ != "COMMENT") = true; simp only [Lex.typ]; decide
  | atkw c cs => exact atType_not_comment _

theorem ordinary_ne92 (q x : Nat) (h : ordinary q x = true) : x ≠ 92 := by
  intro e; subst e; simp [ordinary] at h

theorem ne92_of_inR (cs : List (Nat × Nat)) (hcs : clsFails false [(92, 92)] cs = true) (x : Nat)
    (h : inR cs x = true) : x ≠ 92 := by
  intro e
  have := clsFails_sound false _ cs x hcs h
  rw [e] at this; revert this; decide

theorem not_fast_pt (c : Nat) (h : (fastChars.all fun f => f != c) = true) : fastChars.contains c = false := by
  apply Bool.eq_false_iff.mpr
  intro hf
  have hmem : c ∈ fastChars := by simpa using hf
  have := List.all_eq_true.mp h c hmem
  simp at this

theorem lex2_step (doC : Bool) (t : Lex2) (h : t.WF) (stop : Cps) (hs : Sep stop) (fuel line col : Nat) :
    ∃ line' col', loop false doC (fuel + 1) (t.text ++ stop) line col =
      Res.cons ⟨t.typ, t.text, line, col, t.text, t.text, doC || t.typ != "COMMENT"⟩
        (loop false doC fuel stop line' col') := by
  cases t with
  | old t =>
    obtain ⟨l', c', hstep⟩ := lex_step doC t h stop hs fuel line col
    refine ⟨l', c', ?_⟩
    have : (doC || t.typ != "COMMENT") = true := by rw [Lex.typ_ne_comment t h]; simp
    simp only [Lex2.text, Lex2.typ, this]
    exact hstep
  | str q body =>
    obtain ⟨hq, hb⟩ := h
    have hq92 : q ≠ 92 := by rcases hq with rfl | rfl <;> decide
    apply loop_step2 doC fuel (q :: body ++ [q]) stop line col "STRING" (by simp)
    · intro c t e; simp only [List.cons_append, List.cons.injEq] at e; obtain ⟨rfl, _⟩ := e
      rcases hq with rfl | rfl <;> decide
    · have := scan_string_plain doC q hq body stop hb
      simpa [List.append_assoc] using this
    · apply valueOf_clean _ _ _ (by decide)
      intro x hx
      simp only [List.cons_append, List.mem_cons, List.mem_append, List.mem_nil_iff, or_false] at hx
      rcases hx with rfl | hx | rfl
      · exact hq92
      · exact ordinary_ne92 q x (hb x hx)
      · exact hq92
  | fn c cs =>
    obtain ⟨hc, hcs, hand⟩ := h
    apply loop_step2 doC fuel (c :: cs ++ [40]) stop line col "FUNCTION" (by simp)
    · intro c' t e; simp only [List.cons_append, List.cons.injEq] at e; obtain ⟨rfl, _⟩ := e
      exact not_fast_of_ranges identStart (by decide) _ hc
    · have := scan_function doC c cs stop hc hcs hand
      simpa [List.append_assoc] using this
    · apply valueOf_unesc _ _ _ (by decide) (by decide)
      intro x hx
      simp only [List.cons_append, List.mem_cons, List.mem_append, List.mem_nil_iff, or_false] at hx
      rcases hx with rfl | hx | rfl
      · exact ne92_of_inR identStart (by decide) _ hc
      · exact ne92_of_inR identRest (by decide) _ (hcs x hx)
      · decide
  | uri u r l body =>
    obtain ⟨hu, hr, hl, hb⟩ := h
    apply loop_step2 doC fuel (u :: r :: l :: 40 :: (body ++ [41])) stop line col "URI" (by simp)
    · intro c t e; simp only [List.cons.injEq] at e; obtain ⟨rfl, _⟩ := e
      rcases hu with rfl | rfl <;> decide
    · have := scan_uri_plain doC u r l hu hr hl body stop hb
      simpa [List.append_assoc] using this
    · apply valueOf_clean _ _ _ (by decide)
      intro x hx
      simp only [List.mem_cons, List.mem_append, List.mem_nil_iff, or_false] at hx
      rcases hx with rfl | rfl | rfl | rfl | hx | rfl
      · rcases hu with rfl | rfl <;> decide
      · rcases hr with rfl | rfl <;> decide
      · rcases hl with rfl | rfl <;> decide
      · decide
      · exact ne92_of_inR uriPlain (by decide) _ (hb x hx)
      · decide
  | urange u h0 hs0 =>
    obtain ⟨hu, hh, hlen⟩ := h
    apply loop_step2 doC fuel (u :: 43 :: h0 :: hs0) stop line col "UNICODE-RANGE" (by simp)
    · intro c t e; simp only [List.cons.injEq] at e; obtain ⟨rfl, _⟩ := e
      rcases hu with rfl | rfl <;> decide
    · have := scan_urange doC u h0 hs0 stop hu hh hlen hs
      simpa using this
    · apply valueOf_unesc _ _ _ (by decide) (by decide)
      intro x hx
      simp only [List.mem_cons] at hx
      rcases hx with rfl | rfl | hx
      · rcases hu with rfl | rfl <;> decide
      · decide
      · exact ne92_of_inR hexq (by decide) _ (hh x (by simpa using hx))
  | cmt body =>
    apply loop_step2 doC fuel (47 :: 42 :: body ++ [42, 47]) stop line col "COMMENT" (by simp)
    · intro c t e; simp only [List.cons_append, List.cons.injEq] at e; obtain ⟨rfl, _⟩ := e; decide
    · have := scan_comment_plain doC body stop h
      simpa [List.append_assoc] using this
    · exact valueOf_plain _ _ _ (by decide) (by decide)
  | cdc =>
    apply loop_step2 doC fuel cdcText stop line col "CDC" (by decide)
    · intro c t e; simp only [cdcText, List.cons.injEq] at e; obtain ⟨rfl, _⟩ := e; decide
    · exact scan_cdc doC stop
    · exact valueOf_plain _ _ _ (by decide) (by decide)

theorem lex2_head (t : Lex2) (h : t.WF) : ∃ c w, t.text = c :: w ∧ inR lexHeads c = true := by
  cases t with
  | old t => exact lex_head t h
  | str q body =>
    refine ⟨q, body ++ [q], rfl, ?_⟩
    rcases h.1 with rfl | rfl <;> decide
  | fn c cs =>
    refine ⟨c, cs ++ [40], rfl, ?_⟩
    have := h.1
    simp only [inR, identStart, List.any_cons, List.any_nil, Bool.or_false, Bool.or_eq_true, Bool.and_eq_true,
      decide_eq_true_eq] at this
    simp [inR, lexHeads]; omega
  | uri u r l body =>
    refine ⟨u, r :: l :: 40 :: (body ++ [41]), rfl, ?_⟩
    rcases h.1 with rfl | rfl <;> decide
  | urange u h0 hs0 =>
    refine ⟨u, 43 :: h0 :: hs0, rfl, ?_⟩
    rcases h.1 with rfl | rfl <;> decide
  | cmt body => exact ⟨47, 42 :: body ++ [42, 47], rfl, by decide⟩
  | cdc => exact ⟨45, [45, 62], rfl, by decide⟩

theorem render2_head (t : Lex2) (ts : List Lex2) (h : t.WF) :
    ∃ c w, render2 (t :: ts) = c :: w ∧ inR lexHeads c = true := by
  obtain ⟨c, w, hw, hc⟩ := lex2_head t h
  cases ts with
  | nil => exact ⟨c, w, hw, hc⟩
  | cons u us => exact ⟨c, w ++ 32 :: render2 (u :: us), by simp [render2, hw], hc⟩

/-- every item is yielded unless it is a comment and comments are off -/
def EmitOK (doC : Bool) (it : Item) : Prop := it.emit = (doC || it.typ != "COMMENT")

theorem loop_lexemes2 (doC : Bool) : ∀ (ts : List Lex2), (∀ t ∈ ts, t.WF) → ∀ (fuel line col : Nat),
    (render2 ts).length < fuel →
      (loop false doC fuel (render2 ts) line col).items.map proj = expectedAll ts ∧
      ∀ it ∈ (loop false doC fuel (render2 ts) line col).items, EmitOK doC it ∧ it.found = it.value := by
  intro ts
  induction ts with
  | nil =>
    intro _ fuel line col _
    simp [render2, loop_nil_items, expectedAll]
  | cons t ts ih =>
    intro hwf fuel line col hf
    have ht : t.WF := hwf t (by simp)
    have hts : ∀ u ∈ ts, u.WF := fun u hu => hwf u (List.mem_cons_of_mem _ hu)
    obtain ⟨k, rfl⟩ : ∃ k, fuel = k + 1 := ⟨fuel - 1, by omega⟩
    cases ts with
    | nil =>
      obtain ⟨l', c', hstep⟩ := lex2_step doC t ht [] (Or.inl rfl) k line col
      simp only [List.append_nil] at hstep
      simp only [render2, hstep, Res.cons, loop_nil_items, expectedAll]
      simp [proj, EmitOK]
    | cons u us =>
      have hu : u.WF := hts u (by simp)
      obtain ⟨l1, c1, hstep⟩ := lex2_step doC t ht (32 :: render2 (u :: us)) (Or.inr ⟨_, rfl⟩) k line col
      obtain ⟨hc, hw, hhead, hin⟩ := render2_head u us hu
      have hlen : (render2 (u :: us)).length + 1 < k := by
        obtain ⟨c0, w0, hw0, _⟩ := lex2_head t ht
        simp only [render2, List.length_append, List.length_cons, hw0] at hf
        omega
      obtain ⟨k', rfl⟩ : ∃ k', k = k' + 1 := ⟨k - 1, by omega⟩
      obtain ⟨l2, c2, hsp⟩ := space_step doC (render2 (u :: us)) (Or.inr ⟨hc, hw, hhead, hin⟩) k' l1 c1
      have := ih hts k' l2 c2 (by omega)
      simp only [render2, hstep, hsp, Res.cons, expectedAll, List.map_cons, List.mem_cons]
      refine ⟨by simp [proj, this.1], ?_⟩
      intro it hit
      rcases hit with rfl | rfl | hit
      · exact ⟨rfl, rfl⟩
      · exact ⟨by simp [EmitOK], rfl⟩
      · exact this.2 it hit

theorem filter_emit_proj (doC : Bool) : ∀ (items : List Item), (∀ it ∈ items, EmitOK doC it) →
    (items.filter (·.emit)).map proj = (items.map proj).filter (fun p => doC || p.1 != "COMMENT") := by
  intro items
  induction items with
  | nil => intro _; rfl
  | cons it rest ih =>
    intro h
    have hit : it.emit = (doC || it.typ != "COMMENT") := h it (by simp)
    have ih' := ih (fun x hx => h x (List.mem_cons_of_mem _ hx))
    simp only [List.filter_cons, List.map_cons, proj, hit]
    cases hb : (doC || it.typ != "COMMENT")
    · simpa [proj] using ih'
    · simpa [proj] using ih'

theorem render2_start (ts : List Lex2) (h : ∀ t ∈ ts, t.WF) :
    HeadIn (fun c => inR lexHeads c = true) (render2 ts) := by
  cases ts with
  | nil => left; rfl
  | cons t us =>
    obtain ⟨c, w, hw, hc⟩ := render2_head t us (h t (by simp))
    right; exact ⟨c, w, hw, hc⟩

theorem tokenize_lexemes2 (doC : Bool) (ts : List Lex2) (h : ∀ t ∈ ts, t.WF)
    (hcs : hasAt (render2 ts) charsetStart = false) :
    (tokenize (render2 ts) false doC).tokens.map proj =
      (expectedAll ts).filter (fun p => doC || p.1 != "COMMENT") := by
  have hstart := render2_start ts h
  have hbom : bomRe.first (render2 ts) = none := by
    apply first_none_of_ms_nil
    exact ms_nil_of_headIn (cs := lexHeads) (by decide) (by decide) hstart
  obtain ⟨hmap, hemit⟩ := loop_lexemes2 doC ts h ((render2 ts).length + 1) 1 1 (Nat.lt_succ_self _)
  simp only [Res.tokens, tokenize_plain doC _ hbom hcs, tokensAt]
  rw [filter_emit_proj doC _ (fun it h => (hemit it h).1), hmap]

/-! ## the well-formedness predicates are decidable (the driver evaluates them on generated lexeme lists) -/

instance (t : Lex) : Decidable t.WF := by
  cases t <;> simp only [Lex.WF] <;> infer_instance

instance (t : Lex2) : Decidable t.WF := by
  cases t <;> simp only [Lex2.WF, IsU, IsR, IsL] <;> infer_instance

end CssVerif.Tok
