import CssVerif.Model.ProdEngine
import CssVerif.Gen.C17Grammar
import CssVerif.Lemmas.Media
/-!
# Simulation: the generic engine of `prodparser.py` on the captured media grammars = the derived automata

`ProdEngine.engineQ` / `engineL` run the engine model on the production trees of `Gen/C17Grammar.lean` (captured from
the live objects on every run); `Media.parseQ` / `parseL` are the automata on which the property theorems are stated.
This file proves that they agree on every token list of the token domain (assumption A1: a token whose value is one
of `( ) : ,` has type CHAR).

Structure: every reachable engine configuration on the query grammar is named (`Cf`) with its production stack
(`Cf.prods`) and the part of the per-node state that matters (`Cf.ok`); `stepCf` is the transition table over the
verdicts of the `match` callbacks. `descend_cf` / `endLoop_cf` show that the engine follows the table, `stepQ_cf`
that the derived automaton does; the rest lifts this through `mainLoop` / `parse` and the nested hand-back.
-/
set_option linter.unusedSimpArgs false
namespace CssVerif.MediaSim
open CssVerif.Proto CssVerif.Media CssVerif.ProdEngine

/-! ## per-node state as a finite map -/

theorem find_filter_ne (i j : Nat) (h : ¬ j = i) : ∀ st : St,
    List.find? (fun x => x.1 == j) (List.filter (fun x => x.1 != i) st) = List.find? (fun x => x.1 == j) st
  | [] => rfl
  | a :: r => by
    have ih := find_filter_ne i j h r
    by_cases ha : a.1 = i
    · have h1 : (a.1 != i) = false := by simp [ha]
      have h2 : (a.1 == j) = false := by
        rw [ha]; exact beq_false_of_ne (fun e => h e.symm)
      rw [List.filter_cons, h1, List.find?_cons, h2]; simpa using ih
    · have h1 : (a.1 != i) = true := by simp [ha]
      rw [List.filter_cons, h1]
      simp only [if_true, List.find?_cons]
      rw [ih]

theorem get_set (st : St) (i j : Nat) (v : NState) :
    (st.set i v).get j = if j = i then some v else st.get j := by
  unfold St.get St.set
  by_cases h : j = i
  · subst h; simp [List.find?_cons]
  · have h' : (i == j) = false := beq_false_of_ne (fun e => h e.symm)
    simp only [List.find?_cons, h', h, if_false]
    rw [find_filter_ne i j h]

/-! ## the query grammar, parameterised by `_partof` -/

def cv (id : Nat) : Node := .choice id false [.prod .color {}, .prod .dimension {}, .prod .value {}]
def sc (id cid : Nat) : Node := .seq id 0 (some 1) [.prod .colon {}, cv cid]
def ex (b : Bool) (id sid cid : Nat) : Node :=
  .seq id 1 (some 1) [.prod .open_ {}, .prod .feature {}, sc sid cid, .prod .close { stopIf := b }]
def s2 (b : Bool) : Node := .seq 2 0 none [.prod .and_ { store := 2 }, ex b 3 4 5]
def s1 (b : Bool) : Node :=
  .seq 1 1 (some 1) [.prod .onlyNot { optional := true, store := 2 }, .prod .mediaType { stopIf := b, store := 1 }, s2 b]
def s10 (b : Bool) : Node := .seq 10 0 none [.prod .and_ {}, ex b 11 12 13]
def s6 (b : Bool) : Node := .seq 6 1 (some 1) [ex b 7 8 9, s10 b]
def gq (b : Bool) : Node := .choice 0 false [s1 b, s6 b]

/-- tie to the captured trees (fails to build when a captured tree changes) -/
theorem gq_partof : Gen.C17Grammar.mediaQueryPartof = gq true := rfl
theorem gq_alone : Gen.C17Grammar.mediaQueryAlone = gq false := rfl

/-- which expression of the grammar: in the tail of a typed query, first of an expression-first query, later one -/
inductive K | t | e1 | e2
  deriving DecidableEq, Repr

def K.ex (b : Bool) : K → Node
  | .t => MediaSim.ex b 3 4 5 | .e1 => MediaSim.ex b 7 8 9 | .e2 => MediaSim.ex b 11 12 13
def K.sc : K → Node
  | .t => MediaSim.sc 4 5 | .e1 => MediaSim.sc 8 9 | .e2 => MediaSim.sc 12 13
def K.cv : K → Node
  | .t => MediaSim.cv 5 | .e1 => MediaSim.cv 9 | .e2 => MediaSim.cv 13
def K.id : K → Nat | .t => 3 | .e1 => 7 | .e2 => 11
def K.sid : K → Nat | .t => 4 | .e1 => 8 | .e2 => 12
def K.cid : K → Nat | .t => 5 | .e1 => 9 | .e2 => 13
/-- the stack below the expression -/
def K.below (b : Bool) : K → List Node
  | .t => [s2 b, s1 b, gq b] | .e1 => [s6 b, gq b] | .e2 => [s10 b, s6 b, gq b]

/-- the state of the nodes below the expression -/
def K.belowOk (k : K) (st : St) : Prop :=
  st.get 0 = some (.choice true) ∧
  match k with
  | .t => st.get 1 = some (.seq 0 1 true) ∧ ∃ r, st.get 2 = some (.seq 0 r true)
  | .e1 => st.get 6 = some (.seq 1 0 true)
  | .e2 => st.get 6 = some (.seq 0 1 true) ∧ ∃ r, st.get 10 = some (.seq 0 r true)

/-- the reachable configurations -/
inductive Cf
  | start | pre | type
  | and_ (k : K) | open_ (k : K) | feat (k : K) | colon (k : K) | val (k : K) | close (k : K)
  deriving DecidableEq, Repr

def Cf.qs : Cf → QS
  | .start => .start | .pre => .afterPrefix | .type => .afterType
  | .and_ _ => .afterAnd | .open_ _ => .afterOpen | .feat _ => .afterFeature | .colon _ => .afterColon
  | .val _ => .afterValue | .close _ => .afterClose

def Cf.prods (b : Bool) : Cf → List Node
  | .start => [gq b]
  | .pre | .type => [s1 b, gq b]
  | .and_ .t => [s2 b, s1 b, gq b]
  | .and_ .e1 => []                        -- not a configuration
  | .and_ .e2 => [s10 b, s6 b, gq b]
  | .open_ k | .feat k | .close k => k.ex b :: k.below b
  | .colon k => k.sc :: k.ex b :: k.below b
  | .val k => k.cv :: k.sc :: k.ex b :: k.below b

def Cf.ok : Cf → St → Prop
  | .start, st => st.get 0 = some (.choice false)
  | .pre, st => st.get 0 = some (.choice true) ∧ st.get 1 = some (.seq 1 0 true)
  | .type, st => st.get 0 = some (.choice true) ∧ st.get 1 = some (.seq 2 0 true)
  | .and_ .t, st => st.get 0 = some (.choice true) ∧ st.get 1 = some (.seq 0 1 true) ∧
      ∃ r, st.get 2 = some (.seq 1 r true)
  | .and_ .e1, _ => False
  | .and_ .e2, st => st.get 0 = some (.choice true) ∧ st.get 6 = some (.seq 0 1 true) ∧
      ∃ r, st.get 10 = some (.seq 1 r true)
  | .open_ k, st => k.belowOk st ∧ st.get k.id = some (.seq 1 0 true)
  | .feat k, st => k.belowOk st ∧ st.get k.id = some (.seq 2 0 true)
  | .colon k, st => k.belowOk st ∧ st.get k.id = some (.seq 3 0 true) ∧ st.get k.sid = some (.seq 1 0 true)
  | .val k, st => k.belowOk st ∧ st.get k.id = some (.seq 3 0 true) ∧ st.get k.sid = some (.seq 0 1 true) ∧
      st.get k.cid = some (.choice true)
  | .close k, st => k.belowOk st ∧ st.get k.id = some (.seq 0 1 true)

/-- the configuration after `and` -/
def K.next : K → K | .t => .t | .e1 => .e2 | .e2 => .e2

inductive DRes
  | hit (m : Matcher) (f : PFlags) (c : Cf)
  | noMatch | missing
  deriving Repr

/-- the transition table of the query grammar over the verdicts `σ` of the `match` callbacks -/
def stepCf (b : Bool) (c : Cf) (σ : Matcher → Bool) : DRes :=
  match c with
  | .start =>
    if σ .onlyNot then .hit .onlyNot { optional := true, store := 2 } .pre
    else if σ .mediaType then .hit .mediaType { stopIf := b, store := 1 } .type
    else if σ .open_ then .hit .open_ {} (.open_ .e1)
    else .noMatch
  | .pre => if σ .mediaType then .hit .mediaType { stopIf := b, store := 1 } .type else .missing
  | .type => if σ .and_ then .hit .and_ { store := 2 } (.and_ .t) else .noMatch
  | .and_ k => if σ .open_ then .hit .open_ {} (.open_ k) else .missing
  | .open_ k => if σ .feature then .hit .feature {} (.feat k) else .missing
  | .feat k =>
    if σ .colon then .hit .colon {} (.colon k)
    else if σ .close then .hit .close { stopIf := b } (.close k)
    else .missing
  | .colon k =>
    if σ .color then .hit .color {} (.val k)
    else if σ .dimension then .hit .dimension {} (.val k)
    else if σ .value then .hit .value {} (.val k)
    else .missing
  | .val k => if σ .close then .hit .close { stopIf := b } (.close k) else .missing
  | .close k =>
    if σ .and_ then .hit .and_ (match k with | .t => { store := 2 } | _ => {}) (.and_ k.next)
    else .noMatch

/-- what the engine's descent has to do according to the table -/
def Follows (b : Bool) (t : Tok) (c : Cf) (st : St) : Prop :=
  match stepCf b c (fun m => m.test t) with
  | .hit m f c' => ∃ st', descend t 64 (c.prods b) st = (.ok (m, f), c'.prods b, st') ∧ c'.ok st'
  | .noMatch => (descend t 64 (c.prods b) st).1 = .error .noMatch
  | .missing => (descend t 64 (c.prods b) st).1 = .error .missing

theorem descend_start (b : Bool) (t : Tok) (st : St) (h : Cf.start.ok st) : Follows b t .start st := by
  simp only [Cf.ok] at h
  unfold Follows stepCf
  by_cases h1 : Matcher.test .onlyNot t = true
  · simp [h1, Cf.prods, gq, s1, descend, nextProd, h, choiceScan, Node.matches, matchesSeq, matchesAny, seqLoop,
      get_set, Node.reset, Node.optional, Cf.ok]
  · by_cases h2 : Matcher.test .mediaType t = true
    · simp [h1, h2, Cf.prods, gq, s1, descend, nextProd, h, choiceScan, Node.matches, matchesSeq, matchesAny, seqLoop,
        get_set, Node.reset, Node.optional, Cf.ok]
    · by_cases h3 : Matcher.test .open_ t = true
      · simp [h1, h2, h3, Cf.prods, gq, s1, s2, s6, s10, ex, K.ex, K.below, descend, nextProd, h, choiceScan,
          Node.matches, matchesSeq, matchesAny, seqLoop, get_set, Node.reset, Node.optional, Cf.ok, K.belowOk, K.id]
      · simp [h1, h2, h3, Cf.prods, gq, s1, s2, s6, s10, ex, descend, nextProd, h, choiceScan,
          Node.matches, matchesSeq, matchesAny, seqLoop, get_set, Node.reset, Node.optional]


syntax "engine_simp" : tactic
macro_rules
  | `(tactic| engine_simp) => `(tactic|
    simp_all [Cf.prods, gq, s1, s2, s6, s10, ex, sc, cv, K.ex, K.sc, K.cv, K.below, K.id, K.sid, K.cid, K.next,
      descend, nextProd, choiceScan, Node.matches, matchesSeq, matchesAny, seqLoop, get_set, Node.reset,
      Node.optional, Cf.ok, K.belowOk])

syntax "engine_simp2" : tactic
macro_rules
  | `(tactic| engine_simp2) => `(tactic|
    simp [*, Cf.prods, gq, s1, s2, s6, s10, ex, sc, cv, K.ex, K.sc, K.cv, K.below, K.id, K.sid, K.cid, K.next,
      descend, nextProd, choiceScan, Node.matches, matchesSeq, matchesAny, seqLoop, get_set, Node.reset,
      Node.optional, Cf.ok, K.belowOk])

/-- one level of the descent -/
syntax "lvl" : tactic
macro_rules
  | `(tactic| lvl) => `(tactic|
    (rw [descend];
     simp [*, gq, s1, s2, s6, s10, ex, sc, cv, nextProd, choiceScan, Node.matches, matchesSeq, matchesAny, seqLoop,
       get_set, Node.reset, Node.optional, Cf.ok, K.belowOk, K.id, K.sid, K.cid]))

theorem descend_cf (b : Bool) (t : Tok) (st : St) (c : Cf) (h : c.ok st) : Follows b t c st := by
  cases c with
  | start => exact descend_start b t st h
  | pre =>
    simp only [Cf.ok] at h
    unfold Follows stepCf
    by_cases a : Matcher.test .mediaType t = true <;> engine_simp
  | type =>
    simp only [Cf.ok] at h
    unfold Follows stepCf
    by_cases a : Matcher.test .and_ t = true <;> engine_simp
  | and_ k =>
    cases k <;> simp only [Cf.ok] at h <;> (try exact h.elim) <;> obtain ⟨h0, h1, r, h2⟩ := h <;>
      unfold Follows stepCf <;> by_cases a : Matcher.test .open_ t = true <;> engine_simp
  | open_ k =>
    cases k <;> simp only [Cf.ok, K.belowOk] at h <;> unfold Follows stepCf <;>
      by_cases a : Matcher.test .feature t = true <;> engine_simp
  | feat k =>
    cases k <;> simp only [Cf.ok, K.belowOk] at h <;> unfold Follows stepCf <;>
      by_cases a : Matcher.test .colon t = true <;> by_cases a' : Matcher.test .close t = true <;> engine_simp
  | colon k =>
    cases k <;> simp only [Cf.ok, K.belowOk] at h <;> unfold Follows stepCf <;>
      by_cases a : Matcher.test .color t = true <;> by_cases a' : Matcher.test .dimension t = true <;>
      by_cases a'' : Matcher.test .value t = true <;> engine_simp
  | val k =>
    cases k <;> simp only [Cf.ok, K.belowOk] at h <;> unfold Follows stepCf <;>
      by_cases a : Matcher.test .close t = true <;> engine_simp
  | close k =>
    cases k <;> simp only [Cf.ok, K.belowOk, K.id, K.sid, K.cid] at h
    · obtain ⟨⟨h0, h1, r, h2⟩, h3⟩ := h
      unfold Follows stepCf
      by_cases a : Matcher.test .and_ t = true <;>
        simp [a, Cf.prods, K.ex, K.below, K.next] <;> (iterate 4 (try lvl))
    · obtain ⟨⟨h0, h1⟩, h3⟩ := h
      unfold Follows stepCf
      by_cases a : Matcher.test .and_ t = true <;>
        simp [a, Cf.prods, K.ex, K.below, K.next] <;> (iterate 4 (try lvl))
    · obtain ⟨⟨h0, h1, r, h2⟩, h3⟩ := h
      unfold Follows stepCf
      by_cases a : Matcher.test .and_ t = true <;>
        simp [a, Cf.prods, K.ex, K.below, K.next] <;> (iterate 4 (try lvl))

/-! ## the end-of-input loop -/

theorem endLoop_false (lm : Option Bool) : ∀ (fuel : Nat) (prods : List Node) (st : St),
    endLoop lm fuel prods st false = false := by
  intro fuel
  induction fuel with
  | zero => intro prods st; rfl
  | succ n ih =>
    intro prods st
    cases prods with
    | nil => simp [endLoop]
    | cons top rest =>
      rw [endLoop.eq_def]
      simp only []
      rcases lm with _ | _ | _ <;>
        (split <;> (try split) <;> (try split) <;> (try split) <;> simp [ih])

/-- one level of the end-of-input loop -/
syntax "elvl" : tactic
macro_rules
  | `(tactic| elvl) => `(tactic|
    (rw [endLoop];
     simp [*, gq, s1, s2, s6, s10, ex, sc, cv, nextProd, choiceScan, Node.matches, matchesSeq, matchesAny, seqLoop,
       get_set, Node.reset, Node.optional, endLoop_false]))

theorem endLoop_cf (b : Bool) (st : St) (c : Cf) (h : c.ok st) :
    endLoop (some false) 64 (c.prods b) st true = c.qs.accepting := by
  cases c with
  | start => simp only [Cf.ok] at h; simp only [Cf.prods, Cf.qs, QS.accepting]; elvl
  | pre => simp only [Cf.ok] at h; simp only [Cf.prods, Cf.qs, QS.accepting]; elvl
  | type => simp only [Cf.ok] at h; simp only [Cf.prods, Cf.qs, QS.accepting]; elvl; elvl
  | and_ k =>
    cases k <;> simp only [Cf.ok] at h <;> (try exact h.elim) <;> obtain ⟨h0, h1, r, h2⟩ := h <;>
      simp only [Cf.prods, Cf.qs, QS.accepting] <;> elvl
  | open_ k =>
    cases k <;> simp only [Cf.ok, K.belowOk, K.id, K.sid, K.cid] at h <;>
      simp only [Cf.prods, Cf.qs, QS.accepting, K.ex, K.below] <;> elvl
  | feat k =>
    cases k <;> simp only [Cf.ok, K.belowOk, K.id, K.sid, K.cid] at h <;>
      simp only [Cf.prods, Cf.qs, QS.accepting, K.ex, K.below] <;> elvl
  | colon k =>
    cases k <;> simp only [Cf.ok, K.belowOk, K.id, K.sid, K.cid] at h <;>
      simp only [Cf.prods, Cf.qs, QS.accepting, K.ex, K.sc, K.below] <;> elvl
  | val k =>
    cases k <;> simp only [Cf.ok, K.belowOk, K.id, K.sid, K.cid] at h <;>
      simp only [Cf.prods, Cf.qs, QS.accepting, K.ex, K.sc, K.cv, K.below] <;> elvl <;> elvl <;> elvl
  | close k =>
    cases k <;> simp only [Cf.ok, K.belowOk, K.id, K.sid, K.cid] at h
    · obtain ⟨⟨h0, h1, r, h2⟩, h3⟩ := h
      simp only [Cf.prods, Cf.qs, QS.accepting, K.ex, K.below]; elvl; elvl; elvl; elvl
    · obtain ⟨⟨h0, h1⟩, h3⟩ := h
      simp only [Cf.prods, Cf.qs, QS.accepting, K.ex, K.below]; elvl; elvl; elvl
    · obtain ⟨⟨h0, h1, r, h2⟩, h3⟩ := h
      simp only [Cf.prods, Cf.qs, QS.accepting, K.ex, K.below]; elvl; elvl; elvl; elvl

/-! ## the derived automaton follows the same table -/

/-- assumption A1 of the check: a token whose value is one of `( ) : ,` has type CHAR -/
def Dom (t : Tok) : Prop := (t.val = cOpen ∨ t.val = cClose ∨ t.val = cColon ∨ t.val = cComma) → t.typ = .char

def itemOf (m : Matcher) (t : Tok) : QItem :=
  match m with
  | .color => .value .color t
  | .dimension => .value .dimension t
  | .value => .value .value t
  | _ => .tok t

def applyQ (q : QSt) (m : Matcher) (f : PFlags) (t : Tok) (c' : Cf) : QSt :=
  { s := c'.qs, items := itemOf m t :: q.items, stopIf := f.stopIf || q.stopIf,
    mtype := if f.store = 1 then some t.val else q.mtype,
    notSimple := (m == .onlyNot || m == .and_) || q.notSimple }

syntax "dsimp_all" : tactic
macro_rules
  | `(tactic| dsimp_all) => `(tactic|
    simp_all [stepQ, stepCf, Matcher.test, charIs, valueKind, applyQ, itemOf, QSt.emit, Cf.qs, cOpen, cClose, cColon,
      cComma, K.next])

theorem stepQ_cf (b : Bool) (c : Cf) (q : QSt) (t : Tok) (hc : q.s = c.qs) (hd : Dom t) :
    stepQ b q t = match stepCf b c (fun m => m.test t) with
      | .hit m f c' => if m = .color ∧ t.typ = .function then .unsupported else .cont (applyQ q m f t c')
      | .noMatch => .noMatch
      | .missing => .missing := by
  unfold Dom at hd
  cases c with
  | start =>
    simp only [Cf.qs] at hc
    by_cases h1 : t.typ = .ident <;> by_cases h2 : isPrefixWord t.val = true <;>
      by_cases h3 : isMediaType t.val = true <;> by_cases h4 : t.val = [40] <;> dsimp_all
  | pre =>
    simp only [Cf.qs] at hc
    by_cases h1 : t.typ = .ident <;> by_cases h3 : isMediaType t.val = true <;> dsimp_all
  | type =>
    simp only [Cf.qs] at hc
    by_cases h1 : t.typ = .ident <;> by_cases h3 : isAndWord t.val = true <;> dsimp_all
  | and_ k =>
    simp only [Cf.qs] at hc
    by_cases h4 : t.val = [40] <;> dsimp_all
  | open_ k =>
    simp only [Cf.qs] at hc
    by_cases h1 : t.typ = .ident <;> dsimp_all
  | feat k =>
    simp only [Cf.qs] at hc
    by_cases h4 : t.val = [58] <;> by_cases h5 : t.val = [41] <;> dsimp_all
  | colon k =>
    simp only [Cf.qs] at hc
    by_cases h4 : isHexColor t.val = true <;> by_cases h5 : colorFunctions.contains (normalize t.val) = true <;>
      cases ht : t.typ <;> dsimp_all
  | val k =>
    simp only [Cf.qs] at hc
    by_cases h5 : t.val = [41] <;> dsimp_all
  | close k =>
    simp only [Cf.qs] at hc
    cases k <;> by_cases h1 : t.typ = .ident <;> by_cases h3 : isAndWord t.val = true <;> dsimp_all

/-! ## one iteration of `mainLoop` -/

/-- the loop state after a production matched (`prodparser.py:596-612`) -/
def hitLoop {α : Type} (l : Loop α) (t : Tok) (f : PFlags) (prods : List Node) (st : St) : Loop α :=
  let l := { l with prods := prods, st := st, stopIf := f.stopIf || l.stopIf, lastMayEnd := some f.mayEnd }
  if f.store == 1 then { l with mediaType := some t }
  else if f.store == 2 then { l with notSimple := true } else l

section shapes
variable {α : Type} (act : Act α) (fuel : Nat) (l : Loop α) (t : Tok) (ts p : List Tok) (ft : Bool)

/-- the four ways a token reaches the loop: head of the stream, put in front (`pushtoken`), popped from
`savedTokens`, re-emitted by the tokenizer after `push` -/
theorem shape_cons (hp : ft = true → p = []) :
    mainLoop act (fuel + 1) none ⟨t :: ts, ft, p, []⟩ l = mainLoop act (fuel + 1) (some t) ⟨ts, ft, p, []⟩ l := by
  rw [mainLoop.eq_def, mainLoop.eq_def]
  cases ft with
  | false => simp [Src.next]
  | true => simp [Src.next, hp rfl]

theorem shape_saved :
    mainLoop act (fuel + 1) none ⟨ts, ft, p, [t]⟩ l = mainLoop act (fuel + 1) (some t) ⟨ts, ft, p, []⟩ l := by
  rw [mainLoop.eq_def, mainLoop.eq_def]

theorem shape_pushed (t2 : Tok) :
    mainLoop act (fuel + 1) none ⟨t2 :: ts, true, [t], []⟩ l
      = mainLoop act (fuel + 1) (some t) ⟨t2 :: ts, true, [], []⟩ l := by
  rw [mainLoop.eq_def, mainLoop.eq_def]
  simp [Src.next]

theorem first_comment (h : t.typ = .comment) :
    mainLoop act (fuel + 1) (some t) ⟨ts, ft, p, []⟩ l
      = mainLoop act fuel none ⟨ts, ft, p, []⟩ { l with seq := act.comment t :: l.seq } := by
  rw [mainLoop.eq_def]; simp [h]

theorem first_s (h : t.typ = .s) :
    mainLoop act (fuel + 1) (some t) ⟨ts, ft, p, []⟩ l = mainLoop act fuel none ⟨ts, ft, p, []⟩ l := by
  rw [mainLoop.eq_def]; simp [h]

theorem first_invalid (h : t.typ = .invalid) :
    mainLoop act (fuel + 1) (some t) ⟨ts, ft, p, []⟩ l = .ok ({ l with wellformed := false }, ⟨ts, ft, p, []⟩) := by
  rw [mainLoop.eq_def]; simp [h]

theorem first_eof (h : t.typ = .eof) :
    mainLoop act (fuel + 1) (some t) ⟨ts, ft, p, []⟩ l = .unsupported := by
  rw [mainLoop.eq_def]; simp [h]

theorem first_hit (hs : t.typ.special = false) (m : Matcher) (f : PFlags) (prods : List Node) (st : St)
    (hd : descend t 64 l.prods l.st = (.ok (m, f), prods, st))
    (h1 : f.nextSor = false) (h2 : f.stopAndKeep = false) (h3 : f.stop = false) :
    mainLoop act (fuel + 1) (some t) ⟨ts, ft, p, []⟩ l =
      (if f.toSeq then
         match act.prod m t ⟨ts, ft, p, []⟩ fuel with
         | .ok (item, src'') => mainLoop act fuel none src'' { hitLoop l t f prods st with seq := item :: l.seq }
         | .bad => .bad
         | .unsupported => .unsupported
       else mainLoop act fuel none ⟨ts, ft, p, []⟩ (hitLoop l t f prods st)) := by
  rw [mainLoop.eq_def]
  by_cases hs1 : f.store = 1 <;> by_cases hs2 : f.store = 2 <;> cases hts : f.toSeq <;>
    cases ht : t.typ <;> simp [ht, TT.special] at hs <;> simp [ht, hd, h1, h2, h3, hitLoop, hs1, hs2, hts] <;>
    (try (rcases act.prod m t { toks := ts, fromText := ft, pushed := p } fuel with ⟨⟨_, _⟩⟩ | _ | _ <;> rfl))


theorem first_noMatch (hs : t.typ.special = false) (hd : (descend t 64 l.prods l.st).1 = .error .noMatch) :
    mainLoop act (fuel + 1) (some t) ⟨ts, ft, p, []⟩ l =
      if l.stopIf then
        .ok ({ l with prods := (descend t 64 l.prods l.st).2.1, st := (descend t 64 l.prods l.st).2.2, stopall := true },
             ⟨ts, ft, p, [t]⟩)
      else .ok ({ l with prods := (descend t 64 l.prods l.st).2.1, st := (descend t 64 l.prods l.st).2.2,
                         wellformed := false }, ⟨ts, ft, p, []⟩) := by
  rw [mainLoop.eq_def]
  rcases hdd : descend t 64 l.prods l.st with ⟨r, prods, st⟩
  rw [hdd] at hd
  simp only at hd
  subst hd
  cases ht : t.typ <;> simp [ht, TT.special] at hs <;> simp [ht, hdd]

theorem first_missing (hs : t.typ.special = false) (hd : (descend t 64 l.prods l.st).1 = .error .missing) :
    mainLoop act (fuel + 1) (some t) ⟨ts, ft, p, []⟩ l =
      .ok ({ l with prods := (descend t 64 l.prods l.st).2.1, st := (descend t 64 l.prods l.st).2.2,
                    wellformed := false }, ⟨ts, ft, p, []⟩) := by
  rw [mainLoop.eq_def]
  rcases hdd : descend t 64 l.prods l.st with ⟨r, prods, st⟩
  rw [hdd] at hd
  simp only at hd
  subst hd
  cases ht : t.typ <;> simp [ht, TT.special] at hs <;> simp [ht, hdd]

theorem mainLoop_nil :
    mainLoop act (fuel + 1) none ⟨[], ft, p, []⟩ l = .ok (l, ⟨[], ft, p, []⟩) := by
  rw [mainLoop.eq_def]; simp [Src.next]

end shapes

end CssVerif.MediaSim
