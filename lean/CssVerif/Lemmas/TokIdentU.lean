import CssVerif.Lemmas.TokLex2
/-!
# IDENT class for identifiers that start with `u` / `U` (URI and UNICODE-RANGE, which start alike, do not match)
-/
namespace CssVerif.Tok
open CssVerif CssVerif.Gen.C05

/-- name code points and the space, without the letters `r`/`R` (resp. `l`/`L`) -/
def notR : List (Nat × Nat) := [(32, 32), (45, 45), (48, 57), (65, 81), (83, 90), (95, 95), (97, 113), (115, 122)]
def notL : List (Nat × Nat) := [(32, 32), (45, 45), (48, 57), (65, 75), (77, 90), (95, 95), (97, 107), (109, 122)]
def nameOrSpace : List (Nat × Nat) := [(32, 32), (45, 45), (48, 57), (65, 90), (95, 95), (97, 122)]

def uriAfterU : Re := match reURI with
  | .seq _ r => r
  | _ => .eps
def uriAfterR : Re := match reURI with
  | .seq _ (.seq _ r) => r
  | _ => .eps
def uriAfterL : Re := match reURI with
  | .seq _ (.seq _ (.seq _ r)) => r
  | _ => .eps

theorem reURI_split : reURI = Re.seq uriU uriAfterU ∧ uriAfterU = Re.seq uriR uriAfterR ∧
    uriAfterR = Re.seq uriL uriAfterL := by decide

/-- a text made of name code points, then the end or a space -/
def NameTail (s : Cps) : Prop := ∃ cs stop, s = cs ++ stop ∧ (∀ x ∈ cs, inR identRest x = true) ∧ Sep stop

theorem nameTail_head (s : Cps) (h : NameTail s) : HeadIn (fun c => inR nameOrSpace c = true) s := by
  obtain ⟨cs, stop, rfl, hcs, hs⟩ := h
  cases cs with
  | nil =>
    rcases hs with rfl | ⟨rest, rfl⟩
    · left; rfl
    · exact headIn_cons (by decide)
  | cons c t =>
    refine headIn_cons ?_
    rw [inR_eq_inCls]
    exact clsContains_sound false nameOrSpace identRest c (by decide) (hcs c (by simp))

theorem nameTail_tail (c : Nat) (t : Cps) (h : NameTail (c :: t)) (hc : c ≠ 32) : NameTail t := by
  obtain ⟨cs, stop, he, hcs, hs⟩ := h
  cases cs with
  | nil =>
    rcases hs with rfl | ⟨rest, rfl⟩
    · simp at he
    · simp only [List.nil_append, List.cons.injEq] at he; exact absurd he.1 hc
  | cons c' cs' =>
    simp only [List.cons_append, List.cons.injEq] at he
    exact ⟨cs', stop, he.2, fun x hx => hcs x (List.mem_cons_of_mem _ hx), hs⟩

/-- after `url` a name tail does not continue with `(` -/
theorem uriAfterL_nil (s : Cps) (h : NameTail s) : uriAfterL.ms s = [] :=
  ms_nil_of_headIn (cs := nameOrSpace) (by decide) (by decide) (nameTail_head s h)

theorem seq_ms_split (X Y : Re) (cs : List (Nat × Nat)) (hns : noStart cs X = true) (c : Nat) (t : Cps)
    (hone : inR cs c = false → X.ms (c :: t) = [1]) (hY : inR cs c = false → Y.ms t = []) :
    (Re.seq X Y).ms (c :: t) = [] := by
  by_cases hc : inR cs c = true
  · simp [Re.ms, noStart_sound hns hc t]
  · have : inR cs c = false := by simpa using hc
    rw [seq_ms_of_ms_one (hone this), hY this]; rfl

theorem inR_false_notR (c : Nat) (hn : inR nameOrSpace c = true) (h : inR notR c = false) : IsR c := by
  simp only [inR, nameOrSpace, notR, List.any_cons, List.any_nil, Bool.or_false, Bool.or_eq_true, Bool.and_eq_true,
    decide_eq_true_eq, Bool.or_eq_false_iff, Bool.and_eq_false_iff, decide_eq_false_iff_not] at hn h
  unfold IsR; omega

theorem inR_false_notL (c : Nat) (hn : inR nameOrSpace c = true) (h : inR notL c = false) : IsL c := by
  simp only [inR, nameOrSpace, notL, List.any_cons, List.any_nil, Bool.or_false, Bool.or_eq_true, Bool.and_eq_true,
    decide_eq_true_eq, Bool.or_eq_false_iff, Bool.and_eq_false_iff, decide_eq_false_iff_not] at hn h
  unfold IsL; omega

theorem not32_of_isL (c : Nat) (h : IsL c) : c ≠ 32 := by rcases h with rfl | rfl <;> decide
theorem not32_of_isR (c : Nat) (h : IsR c) : c ≠ 32 := by rcases h with rfl | rfl <;> decide

theorem uriAfterR_nil (s : Cps) (h : NameTail s) : uriAfterR.ms s = [] := by
  rw [reURI_split.2.2]
  rcases nameTail_head s h with rfl | ⟨c, t, rfl, hc⟩
  · exact ms_nil_of_nonNullable (by decide)
  · apply seq_ms_split uriL uriAfterL notL (by decide) c t
    · intro hcl; exact uriL_ms c (inR_false_notL c hc hcl) t
    · intro hcl
      exact uriAfterL_nil t (nameTail_tail c t h (not32_of_isL c (inR_false_notL c hc hcl)))

theorem uriAfterU_nil (s : Cps) (h : NameTail s) : uriAfterU.ms s = [] := by
  rw [reURI_split.2.1]
  rcases nameTail_head s h with rfl | ⟨c, t, rfl, hc⟩
  · exact ms_nil_of_nonNullable (by decide)
  · apply seq_ms_split uriR uriAfterR notR (by decide) c t
    · intro hcl; exact uriR_ms c (inR_false_notR c hc hcl) t
    · intro hcl
      exact uriAfterR_nil t (nameTail_tail c t h (not32_of_isR c (inR_false_notR c hc hcl)))

/-- URI does not match at `u` / `U` followed by a name tail -/
theorem uri_ms_identU (u : Nat) (hu : IsU u) (s : Cps) (h : NameTail s) : reURI.ms (u :: s) = [] := by
  rw [reURI_split.1, seq_ms_of_ms_one (uriU_ms u hu s), uriAfterU_nil s h]; rfl

/-- UNICODE-RANGE does not match there either (no `+`) -/
theorem ur_ms_identU (u : Nat) (hu : IsU u) (s : Cps) (h : NameTail s) : reUNICODE_RANGE.ms (u :: s) = [] := by
  rw [reUR_eq, seq_ms_of_ms_one (uriU_ms u hu s)]
  rw [ms_nil_of_headIn (cs := nameOrSpace) (by decide) (by decide) (nameTail_head s h)]
  rfl

/-- **IDENT class, `u` / `U` start**: `u` or `U`, then letters, digits, `-`, `_`, followed by the end of the text or a
space, is scanned as one IDENT token (neither URI nor UNICODE-RANGE match) -/
theorem scan_ident_u (doC : Bool) (u : Nat) (hu : IsU u) (cs stop : Cps) (hcs : ∀ x ∈ cs, inR identRest x = true)
    (hs : Sep stop) : scan false doC (u :: cs ++ stop) productions = .hit "IDENT" (u :: cs).length := by
  have hp : productions = ("S", reS) :: ("URI", reURI) :: ("UNICODE-RANGE", reUNICODE_RANGE) ::
      ("IDENT", reIDENT) :: productions.drop 4 := by decide
  have hnt : NameTail (cs ++ stop) := ⟨cs, stop, rfl, hcs, hs⟩
  have huin : inR [(85, 85), (117, 117)] u = true := by rcases hu with rfl | rfl <;> decide
  have hS : reS.first (u :: (cs ++ stop)) = none := first_none_of_noStart (cs := [(85, 85), (117, 117)]) (by decide) huin _
  rw [hp, List.cons_append, scan_false_none hS, scan_false_none (first_none_of_ms_nil (uri_ms_identU u hu _ hnt)),
    scan_false_none (first_none_of_ms_nil (ur_ms_identU u hu _ hnt))]
  have hid := ident_first_gen [(85, 85), (117, 117)] (by decide) (by decide) u cs stop huin hcs hs
  rw [List.cons_append] at hid
  apply scan_false_hit hid
  have hget : (u :: (cs ++ stop))[(u :: cs).length]? ≠ some 40 := by
    have : (u :: (cs ++ stop))[(u :: cs).length]? = stop[0]? := by
      rw [← List.cons_append, List.getElem?_append_right (Nat.le_refl _)]; simp
    rw [this]
    rcases hs with rfl | ⟨rest, rfl⟩ <;> simp
  simp only [identContinue, Bool.and_eq_false_iff]
  right
  simpa using hget

end CssVerif.Tok
