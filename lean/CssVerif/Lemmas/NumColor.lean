import CssVerif.Model.NumColor
import CssVerif.Lemmas.Num
/-!
Helper lemmas for C18 (colours).
-/
namespace CssVerif.Num
open CssVerif.Proto

theorem hexVal_isSome_of_hex {c : Nat} (h : isHexDigit c = true) : ∃ v, hexVal? c = some v ∧ v < 16 := by
  unfold isHexDigit at h
  unfold hexVal?
  simp only [Bool.or_eq_true, Bool.and_eq_true, decide_eq_true_eq] at h
  rcases h with (h | h) | h
  · exact ⟨c - 0x30, by simp [h], by omega⟩
  · refine ⟨c - 0x41 + 10, ?_, by omega⟩
    have : ¬ (0x30 ≤ c ∧ c ≤ 0x39) := by omega
    simp [this, h]
  · refine ⟨c - 0x61 + 10, ?_, by omega⟩
    have h1 : ¬ (0x30 ≤ c ∧ c ≤ 0x39) := by omega
    have h2 : ¬ (0x41 ≤ c ∧ c ≤ 0x46) := by omega
    simp [h1, h2, h]

/-- the channel a doubled hex digit stands for -/
theorem hexPair_double {c v : Nat} (h : hexVal? c = some v) : hexPair? c c = some (17 * v) := by
  unfold hexPair?; rw [h]; simp; omega

/-- the same components: same kind of value and same number, item by item -/
def SameComps : List CItem → List CItem → Prop
  | [], [] => True
  | .comp a :: s, .comp b :: t => a.typ = b.typ ∧ a.toRat = b.toRat ∧ SameComps s t
  | .func a :: s, .func b :: t => a = b ∧ SameComps s t
  | .comma :: s, .comma :: t => SameComps s t
  | .rparen :: s, .rparen :: t => SameComps s t
  | _, _ => False

theorem collectRaw_congr (hsl : Bool) : ∀ {s t : List CItem}, SameComps s t → collectRaw hsl s = collectRaw hsl t := by
  intro s
  induction s with
  | nil => intro t h; cases t with
    | nil => rfl
    | cons _ _ => simp [SameComps] at h
  | cons a s ih =>
    intro t h
    cases t with
    | nil => cases a <;> simp [SameComps] at h
    | cons b t =>
      cases a <;> cases b <;> simp only [SameComps] at h
      · simp only [collectRaw]; exact ih h.2
      · obtain ⟨h1, h2, h3⟩ := h
        simp only [collectRaw, h1, h2, ih h3]
      · simp only [collectRaw]; exact ih h
      · simp only [collectRaw]; exact ih h

/-- the channels of a colour function depend only on the function name and on the kind and the numeric value of
each component -/
theorem funcChannels_congr {s t : List CItem} (h : SameComps s t) : funcChannels s = funcChannels t := by
  cases s with
  | nil => cases t with
    | nil => rfl
    | cons _ _ => simp [SameComps] at h
  | cons a s =>
    cases t with
    | nil => cases a <;> simp [SameComps] at h
    | cons b t =>
      cases a <;> cases b <;> simp only [SameComps] at h
      · obtain ⟨h1, h2⟩ := h
        subst h1
        simp only [funcChannels, collectRaw_congr _ h2]
      all_goals rfl


theorem outAppend_hash (p : Prefs) (v : Cps) (hv : v.isEmpty = false) (hs : (hashShort p v).isEmpty = false) :
    outAppend p [] v false .hash = outAppend p [] (hashShort p v) false .other := by
  unfold outAppend
  simp [hv, hs, removeLastIfS]

theorem hashShort_head (p : Prefs) (t : Cps) : ∃ r, hashShort p (0x23 :: t) = 0x23 :: r := by
  by_cases h : hashShort p (0x23 :: t) = 0x23 :: t
  · exact ⟨t, h⟩
  · unfold hashShort at h ⊢
    split at h
    · split at h
      · rename_i hh; simp only [hh, and_self, if_true]; exact ⟨_, rfl⟩
      · exact absurd rfl h
    · exact absurd rfl h

/-- `ColorValue.cssText` of a hash colour is `_hash(v)` -/
theorem fmtColorSimple_hash (p : Prefs) (hsp : isCssBlank p.spacer = true) (t : Cps) :
    fmtColorSimple p .hash (0x23 :: t) = hashShort p (0x23 :: t) := by
  obtain ⟨r, hr⟩ := hashShort_head p t
  have hm : ∃ c ∈ hashShort p (0x23 :: t), c ∉ outPunct := ⟨0x23, by rw [hr]; simp, by decide⟩
  unfold fmtColorSimple
  rw [outAppend_hash p _ rfl (by rw [hr]; rfl)]
  rw [outValue_outAppend_text p hsp _ .other hm (by simp) false]
  rw [outValue_outAppend_text p hsp _ .other hm (by simp) false]

/-- the stored values the round-trip statement is about: simple escapes `\c` with `c` not a hex digit, not a
line break and not a double quote (the last is `C18-escaped-dquote`), a lone backslash only at the very end, and
not ending in an escaped backslash (`C18-url-trailing-backslash`) -/
def storedOk : Cps → Bool
  | [] => true
  | [_] => true
  | c :: d :: t =>
    if c = cBackslash then
      !(d = cQuote || d = 0x0A || d = 0x0D || d = 0x0C || isHexDigit d) && !(d = cBackslash && t.isEmpty) && storedOk t
    else storedOk (d :: t)

/-- all strings over `alpha` of length `≤ n` -/
def allStrings (alpha : List Nat) : Nat → List Cps
  | 0 => [[]]
  | n + 1 => [] :: (allStrings alpha n).flatMap (fun s => alpha.map (· :: s))

def strAlphabet : List Nat := [0x61, 0x22, 0x27, 0x5C, 0x0A, 0x0D, 0x20, 0x28, 0x34, 0x7A]

def stringRoundTripOn (rs : List Cps) : Bool :=
  rs.all fun r => !storedOk r || cssStringDenote (helperString r) == some (storedDenote r)

def urlRoundTripOn (rs : List Cps) : Bool :=
  rs.all fun r => !storedOk r || writtenUrlDenote (helperUri r) == some (storedDenote r)

/-! small-scope sample of `calc()` expressions (used by a kernel-run test in `Props/C18.lean`) -/

def calcOperands : List (NumType × Cps) :=
  [(.dimension, cps "1px"), (.dimension, cps "-2px"), (.number, cps "+.50")]
def calcOps : List Cps := [cps "+", cps "-", cps "*", cps "/"]
def calcSpacerPrefs : List Prefs :=
  [{ Prefs.default with spacer := [] }, { Prefs.default with listItemSpacer := [] },
   { Prefs.default with spacer := [], listItemSpacer := [] }]

/-- `calc(a o1 b o2 c)`, white-space items around the first operator only, the third operand a nested `calc(c)` -/
def calcSamples : List (List CalcTok × Cps) :=
  calcOperands.flatMap fun a => calcOperands.flatMap fun b => [((NumType.percentage, cps "-10%") : NumType × Cps)].flatMap fun c =>
    calcOps.flatMap fun o1 => [cps "-", cps "*"].map fun o2 =>
      let txt := fun (x : NumType × Cps) => match roundTrip Prefs.default x.1 x.2 with | .ok t => t | .error _ => []
      ([.func (cps "calc("), .operand a.1 a.2, .s, .op o1, .s, .operand b.1 b.2, .op o2,
        .openNested, .func (cps "calc("), .operand c.1 c.2, .rparen, .closeNested, .rparen],
       cps "calc(" ++ txt a ++ [0x20] ++ o1 ++ [0x20] ++ txt b ++ [0x20] ++ o2 ++ [0x20] ++ cps "calc(" ++ txt c ++ cps "))")

def calcSamplesOk : Bool :=
  calcSamples.all fun s =>
    fmtCalc exactOps Prefs.default s.1 == .ok s.2 &&
    calcSpacerPrefs.all fun p => fmtCalc exactOps p s.1 == .ok s.2


/-- look a name up in the independent CSS3 table -/
def css3Lookup (name : Cps) : List (Cps × Nat × Nat × Nat × Nat) → Option (Nat × Nat × Nat × Nat)
  | [] => none
  | (n, c) :: t => if n = name then some c else css3Lookup name t

def namesDistinct : List Cps → Bool
  | [] => true
  | n :: t => !t.contains n && namesDistinct t

/-- every entry of the source's table is in the CSS3 table with the same red, green, blue and the same alpha
(`am / 10^as = a`), the tables have the same size and no name occurs twice -/
def colorsAgreeWithCss3 : Bool :=
  Gen.C18.colors.all (fun e =>
    match css3Lookup e.1 Gen.C18.css3Colors with
    | some (r, g, b, a) => r == e.2.1 && g == e.2.2.1 && b == e.2.2.2.1 && e.2.2.2.2.1 == a * 10 ^ e.2.2.2.2.2
    | none => false)
  && Gen.C18.colors.length == Gen.C18.css3Colors.length
  && namesDistinct (Gen.C18.colors.map (·.1))
  && namesDistinct (Gen.C18.css3Colors.map (·.1))

end CssVerif.Num
