import CssVerif.Model.EncEscape
/-! helper lemmas for `Props/C08.lean` about `Model/EncEscape.lean` -/
namespace CssVerif.EncEscape

/-! ## hex digits -/

def isUpperHex (c : Nat) : Bool := (0x30 ≤ c && c ≤ 0x39) || (0x41 ≤ c && c ≤ 0x46)

theorem hexDigit_val : ∀ d : Fin 16, hexVal? (hexDigit d.val) = some d.val := by decide

theorem hexDigit_upper : ∀ d : Fin 16, isUpperHex (hexDigit d.val) = true := by decide

theorem hexVal_hexDigit (d : Nat) (h : d < 16) : hexVal? (hexDigit d) = some d := hexDigit_val ⟨d, h⟩

theorem isUpperHex_hexDigit (d : Nat) (h : d < 16) : isUpperHex (hexDigit d) = true := hexDigit_upper ⟨d, h⟩

theorem hexDigit_not_nl : ∀ d : Fin 16, (hexDigit d.val == 0x0A || hexDigit d.val == 0x0C) = false ∧
    (hexDigit d.val == 0x0D) = false := by decide

theorem hexDigit_ne_bs (d : Nat) (h : d < 16) : hexDigit d ≠ 0x5C := by
  have := isUpperHex_hexDigit d h
  intro e; rw [e] at this; revert this; decide

/-- every character `hexDigits` writes is one of `0-9A-F` -/
theorem hexDigitsF_upper (fuel n : Nat) : ∀ x ∈ hexDigitsF fuel n, isUpperHex x = true := by
  induction fuel generalizing n with
  | zero =>
    intro x hx
    simp only [hexDigitsF, List.mem_singleton] at hx
    subst hx; exact isUpperHex_hexDigit _ (Nat.mod_lt _ (by decide))
  | succ f ih =>
    intro x hx
    simp only [hexDigitsF] at hx
    split at hx
    · rename_i h
      simp only [List.mem_singleton] at hx
      subst hx; exact isUpperHex_hexDigit _ h
    · simp only [List.mem_append, List.mem_singleton] at hx
      rcases hx with hx | hx
      · exact ih _ x hx
      · subst hx; exact isUpperHex_hexDigit _ (Nat.mod_lt _ (by decide))

theorem hexDigits_upper (n : Nat) : ∀ x ∈ hexDigits n, isUpperHex x = true := hexDigitsF_upper n n

/-- at most `k` digits for a number below `16^k` -/
theorem hexDigitsF_length (fuel : Nat) : ∀ n k, n ≤ fuel → 1 ≤ k → n < 16 ^ k → (hexDigitsF fuel n).length ≤ k := by
  induction fuel with
  | zero =>
    intro n k _ hk _
    simp [hexDigitsF]; omega
  | succ f ih =>
    intro n k hn hk hlt
    simp only [hexDigitsF]
    split
    · simp; omega
    · rename_i h
      have h16 : 16 ≤ n := by omega
      have hk2 : 2 ≤ k := by
        rcases Nat.lt_or_ge k 2 with hk1 | hk1
        · have : k = 1 := by omega
          subst this; simp at hlt; omega
        · exact hk1
      have hdiv : n / 16 < 16 ^ (k - 1) := by
        have e : 16 ^ k = 16 ^ (k - 1) * 16 := by
          have : k = (k - 1) + 1 := by omega
          rw [this, Nat.pow_succ]; simp
        rw [e] at hlt
        exact Nat.div_lt_of_lt_mul (by rw [Nat.mul_comm]; exact hlt)
      have hle : n / 16 ≤ f := by
        have : n / 16 < n := Nat.div_lt_self (by omega) (by decide)
        omega
      have := ih (n / 16) (k - 1) hle (by omega) hdiv
      simp only [List.length_append, List.length_singleton]
      omega

theorem hexDigits_length_le6 (n : Nat) (h : n ≤ maxUnicode) : (hexDigits n).length ≤ 6 := by
  apply hexDigitsF_length n n 6 (Nat.le_refl _) (by decide)
  have : maxUnicode < 16 ^ 6 := by decide
  omega

/-! ## the scanner on concatenations -/

/-- state after reading `l` -/
def steps (m : Bool) : St → List Nat → St
  | s, [] => s
  | s, c :: t => steps m (step m s c).1 t

/-- output while reading `l` (without the flush) -/
def outs (m : Bool) : St → List Nat → List Nat
  | _, [] => []
  | s, c :: t => (step m s c).2 ++ outs m (step m s c).1 t

theorem run_append (m : Bool) (s : St) (a b : List Nat) : run m s (a ++ b) = outs m s a ++ run m (steps m s a) b := by
  induction a generalizing s with
  | nil => simp [outs, steps]
  | cons c t ih => simp [run, outs, steps, ih, List.append_assoc]

theorem steps_append (m : Bool) (s : St) (a b : List Nat) : steps m s (a ++ b) = steps m (steps m s a) b := by
  induction a generalizing s with
  | nil => simp [steps]
  | cons c t ih => simp [steps, ih]

theorem outs_append (m : Bool) (s : St) (a b : List Nat) : outs m s (a ++ b) = outs m s a ++ outs m (steps m s a) b := by
  induction a generalizing s with
  | nil => simp [outs, steps]
  | cons c t ih => simp [outs, steps, ih, List.append_assoc]

/-- feeding the digits of `n` after a backslash: no output, and the scanner holds the value `n` -/
theorem feed_digits (m : Bool) (fuel : Nat) : ∀ n, n ≤ fuel → (hexDigitsF fuel n).length ≤ 6 →
    steps m .bs (hexDigitsF fuel n) = .hex n (hexDigitsF fuel n).length (0x5C :: hexDigitsF fuel n) ∧
    outs m .bs (hexDigitsF fuel n) = [] := by
  induction fuel with
  | zero =>
    intro n hn _
    have : n = 0 := by omega
    subst this
    cases m <;> simp [hexDigitsF, steps, outs, step, hexDigit, hexVal?]
  | succ f ih =>
    intro n hn hlen
    simp only [hexDigitsF] at hlen ⊢
    split
    · rename_i h
      have hv := hexVal_hexDigit n h
      have hb := hexDigit_ne_bs n h
      have hn := hexDigit_not_nl ⟨n, h⟩
      simp only at hn
      simp [steps, outs, step, hv, hb, hn.1, hn.2]
    · rename_i h
      rw [if_neg h] at hlen
      have hle : n / 16 ≤ f := by
        have : n / 16 < n := Nat.div_lt_self (by omega) (by decide)
        omega
      simp only [List.length_append, List.length_singleton] at hlen
      obtain ⟨hs, ho⟩ := ih (n / 16) hle (by omega)
      have hv := hexVal_hexDigit (n % 16) (Nat.mod_lt _ (by decide))
      have hk : (hexDigitsF f (n / 16)).length < 6 := by omega
      constructor
      · rw [steps_append, hs]
        simp only [steps, step, hv, hk, if_true, List.length_append, List.length_singleton, List.cons_append]
        have : n / 16 * 16 + n % 16 = n := by
          have := Nat.div_add_mod n 16; omega
        rw [this]
      · rw [outs_append, ho, hs]
        simp [outs, step, hv, hk]

/-- `\` hexdigits(c) SPACE read from state `bs` (the backslash already read): the character `c` comes out -/
theorem run_bs_digits_space (m : Bool) (c : Nat) (r : List Nat) (hmax : c ≤ maxUnicode) (hne : c ≠ 0x5C) :
    run m .bs (hexDigits c ++ 0x20 :: r) = c :: run m .norm r := by
  have hlen := hexDigits_length_le6 c hmax
  obtain ⟨hs, ho⟩ := feed_digits m c c (Nat.le_refl _) hlen
  unfold hexDigits at *
  rw [run_append, ho, hs]
  have hv : hexVal? 0x20 = none := by decide
  simp only [run, step, hv, endHex, List.nil_append]
  simp [repl, hne, hmax]

/-! ## one character that has to be escaped -/

/-- properties of the representability predicate the theorems need: the characters an escape is written with,
and the white space an escape may swallow, are representable -/
structure SyntaxRep (rep : Nat → Bool) : Prop where
  bs : rep 0x5C = true
  sp : rep 0x20 = true
  upper : ∀ c, isUpperHex c = true → rep c = true
  hexAny : ∀ c, (hexVal? c).isSome = true → rep c = true
  ws : rep 0x09 = true ∧ rep 0x0A = true ∧ rep 0x0C = true ∧ rep 0x0D = true

/-- in every state but `bs`, an unrepresentable character `c` and a backslash end whatever is pending in the
same way; the character then goes to the output, the backslash opens an escape -/
theorem step_unrep (m : Bool) (rep : Nat → Bool) (hr : SyntaxRep rep) (s : St) (c : Nat) (hc : rep c = false)
    (hs : s ≠ .bs) : ∃ pre, step m s c = (.norm, pre ++ [c]) ∧ step m s 0x5C = (.bs, pre) := by
  have c_bs : c ≠ 0x5C := by intro e; rw [e, hr.bs] at hc; cases hc
  have c_sp : c ≠ 0x20 := by intro e; rw [e, hr.sp] at hc; cases hc
  have c_09 : c ≠ 0x09 := by intro e; rw [e, hr.ws.1] at hc; cases hc
  have c_0A : c ≠ 0x0A := by intro e; rw [e, hr.ws.2.1] at hc; cases hc
  have c_0C : c ≠ 0x0C := by intro e; rw [e, hr.ws.2.2.1] at hc; cases hc
  have c_0D : c ≠ 0x0D := by intro e; rw [e, hr.ws.2.2.2] at hc; cases hc
  have c_hex : hexVal? c = none := by
    cases h : hexVal? c with
    | none => rfl
    | some v => have := hr.hexAny c (by simp [h]); rw [this] at hc; cases hc
  have b_hex : hexVal? 0x5C = none := by decide
  cases s with
  | norm => exact ⟨[], by simp [step, stepNorm, c_bs], by simp [step, stepNorm]⟩
  | bs => exact absurd rfl hs
  | hex num k raw =>
    refine ⟨repl num raw, ?_, ?_⟩
    · simp [step, c_hex, endHex, c_0D, c_sp, c_09, c_0A, c_0C, stepNorm, c_bs]
    · simp [step, b_hex, endHex, stepNorm]
  | cr num raw =>
    refine ⟨repl num (raw ++ [0x0D]), ?_, ?_⟩
    · simp [step, c_0A, stepNorm, c_bs]
    · simp [step, stepNorm]
  | cont => exact ⟨[], by simp [step, stepNorm, c_0A, c_bs], by simp [step, stepNorm]⟩

theorem escape_append (rep : Nat → Bool) (a b : List Nat) : escape rep (a ++ b) = escape rep a ++ escape rep b := by
  induction a with
  | nil => simp [escape]
  | cons c t ih =>
    simp only [List.cons_append, escape]
    split <;> simp [ih, List.append_assoc]

/-- the round trip from any scanner state -/
theorem roundtrip_from (m : Bool) (rep : Nat → Bool) (hr : SyntaxRep rep) (t : List Nat) :
    ∀ s, (∀ c ∈ t, c ≤ maxUnicode) → okFrom rep m s t = true → run m s (escape rep t) = run m s t := by
  induction t with
  | nil => intro s _ _; simp [escape]
  | cons c t ih =>
    intro s hmax hok
    simp only [okFrom, Bool.and_eq_true] at hok
    obtain ⟨hhead, htail⟩ := hok
    have hmax' : ∀ x ∈ t, x ≤ maxUnicode := fun x hx => hmax x (List.mem_cons_of_mem _ hx)
    cases hc : rep c with
    | true =>
      simp only [escape, hc, if_true, run]
      rw [ih (step m s c).1 hmax' htail]
    | false =>
      have hs : s ≠ .bs := by
        intro e; subst e; simp [hc] at hhead
      obtain ⟨pre, h1, h2⟩ := step_unrep m rep hr s c hc hs
      have c_bs : c ≠ 0x5C := by intro e; rw [e, hr.bs] at hc; cases hc
      have hcm : c ≤ maxUnicode := hmax c (List.mem_cons_self)
      rw [h1] at htail
      simp only [escape, hc, Bool.false_eq_true, if_false, escChar, List.cons_append, List.append_assoc,
        List.nil_append, run, h1, h2]
      rw [run_bs_digits_space m c (escape rep t) hcm c_bs, ih .norm hmax' htail]

/-- what is written contains only representable characters -/
theorem escape_representable (rep : Nat → Bool) (hr : SyntaxRep rep) (t : List Nat) :
    ∀ x ∈ escape rep t, rep x = true := by
  induction t with
  | nil => simp [escape]
  | cons c t ih =>
    intro x hx
    simp only [escape] at hx
    split at hx
    · rename_i h
      simp only [List.mem_cons] at hx
      rcases hx with hx | hx
      · subst hx; exact h
      · exact ih x hx
    · simp only [escChar, List.cons_append, List.append_assoc, List.mem_cons, List.mem_append,
        List.not_mem_nil, false_or] at hx
      rcases hx with hx | hx | hx | hx
      · subst hx; exact hr.bs
      · exact hr.upper x (hexDigits_upper c x hx)
      · subst hx; exact hr.sp
      · exact ih x hx

theorem escape_id (rep : Nat → Bool) (t : List Nat) (h : ∀ c ∈ t, rep c = true) : escape rep t = t := by
  induction t with
  | nil => rfl
  | cons c t ih =>
    have hc := h c List.mem_cons_self
    simp only [escape, hc, if_true]
    rw [ih (fun x hx => h x (List.mem_cons_of_mem _ hx))]

end CssVerif.EncEscape

namespace CssVerif.EncEscape

/-- the guard is exact: where it fails, the escaped text reads differently -/
theorem roundtrip_fails_from (m : Bool) (rep : Nat → Bool) (hr : SyntaxRep rep) (t : List Nat) :
    ∀ s, (∀ c ∈ t, c ≤ maxUnicode) → okFrom rep m s t = false → run m s (escape rep t) ≠ run m s t := by
  induction t with
  | nil => intro s _ h; simp [okFrom] at h
  | cons c t ih =>
    intro s hmax hok
    have hmax' : ∀ x ∈ t, x ≤ maxUnicode := fun x hx => hmax x (List.mem_cons_of_mem _ hx)
    have hcm : c ≤ maxUnicode := hmax c (List.mem_cons_self)
    simp only [okFrom, Bool.and_eq_false_iff] at hok
    cases hc : rep c with
    | true =>
      -- the head is kept; the failure is in the tail
      rcases hok with hok | hok
      · simp [hc] at hok
      · simp only [escape, hc, if_true, run]
        intro e
        exact ih (step m s c).1 hmax' hok (List.append_cancel_left e)
    | false =>
      have c_bs : c ≠ 0x5C := by intro e; rw [e, hr.bs] at hc; cases hc
      by_cases hs : s = .bs
      · -- the failure is here: `\c` stays `\c`, but `\` `\HEX ` starts with an escaped backslash
        subst hs
        have c_hex : hexVal? c = none := by
          cases h : hexVal? c with
          | none => rfl
          | some v => have := hr.hexAny c (by simp [h]); rw [this] at hc; cases hc
        have c_0A : (c == 0x0A) = false := by
          apply beq_eq_false_iff_ne.mpr; intro e; rw [e, hr.ws.2.1] at hc; cases hc
        have c_0C : (c == 0x0C) = false := by
          apply beq_eq_false_iff_ne.mpr; intro e; rw [e, hr.ws.2.2.1] at hc; cases hc
        have c_0D : (c == 0x0D) = false := by
          apply beq_eq_false_iff_ne.mpr; intro e; rw [e, hr.ws.2.2.2] at hc; cases hc
        simp only [escape, hc, Bool.false_eq_true, if_false, escChar, List.cons_append, run, step, c_bs, c_hex,
          c_0A, c_0C, c_0D, Bool.or_false, Bool.and_false, if_true, if_false]
        intro e
        simp only [List.cons.injEq, true_and] at e
        exact c_bs e.1.symm
      · obtain ⟨pre, h1, h2⟩ := step_unrep m rep hr s c hc hs
        rcases hok with hok | hok
        · simp [hc, hs] at hok
        · rw [h1] at hok
          simp only [escape, hc, Bool.false_eq_true, if_false, escChar, List.cons_append, List.append_assoc,
            List.nil_append, run, h1, h2]
          rw [run_bs_digits_space m c (escape rep t) hcm c_bs]
          intro e
          have e1 := List.append_cancel_left e
          simp only [List.cons.injEq, true_and] at e1
          exact ih .norm hmax' hok e1

end CssVerif.EncEscape
