import CssVerif.Model.EncutilsTry
/-! # `tryEncodings` without chardet: what it answers -/
set_option linter.unusedSimpArgs false
namespace CssVerif.Encutils
open CssVerif CssVerif.Proto CssVerif.Gen

/-- documented answer: ascii if every byte is ASCII; else windows-1252 if the bytes are valid windows-1252 and contain
the Euro sign; else iso-8859-1 -/
def specTry (b : List UInt8) : Cps :=
  if b.all (· < 128) then cps "ascii"
  else if !b.any cp1252Undefined && b.contains 0x80 then cps "windows-1252"
  else cps "iso-8859-1"

theorem tryEncodings_eq (utf8ok : Bool) (b : List UInt8) : tryEncodings utf8ok b = some (some (specTry b)) := by
  have e1 : C20.tryEncodingsList = [cps "ascii", cps "iso-8859-1", cps "utf-8"] := by decide
  have e2 : C20.trySpecial = cps "iso-8859-1" := by decide
  have e3 : C20.tryAltCodec = cps "windows-1252" := by decide
  have e4 : C20.tryNeedle = 0x20AC := by decide
  have e5 : C20.tryAltReturn = cps "windows-1252" := by decide
  have d1 : decodes utf8ok (cps "ascii") b = some (b.all (· < 128)) := by simp [decodes]
  have d2 : decodes utf8ok (cps "iso-8859-1") b = some true := by
    have : (cps "iso-8859-1" == cps "ascii") = false := by decide
    simp [decodes, this]
  have n1 : (cps "ascii" == cps "iso-8859-1") = false := by decide
  unfold tryEncodings
  rw [e1]
  simp only [tryLoop, d1, d2, e2, n1, altTest, e3, e4, e5, cp1252ByteOf, specTry, BEq.rfl, if_true]
  by_cases ha : b.all (· < 128) = true
  · simp [ha]
  · have ha' : b.all (· < 128) = false := by simpa using ha
    simp only [ha', Bool.false_eq_true, if_false]
    by_cases hu : b.any cp1252Undefined = true
    · simp [hu]
    · have hu' : b.any cp1252Undefined = false := by simpa using hu
      simp only [hu', Bool.false_eq_true, if_false, Bool.not_false, Bool.true_and]
      cases b.contains 0x80 <;> simp

end CssVerif.Encutils
