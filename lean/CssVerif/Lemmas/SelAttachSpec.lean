import CssVerif.Lemmas.SelAttach
import CssVerif.Model.SelSpec
/-!
# The items of a written selector satisfy the two invariants of `serItems_filter`
-/
namespace CssVerif.Sel
open CssVerif.Proto CssVerif.Gen.C16

/-- an item is good: a `(namespaceURI, name)` pair sits in a type that `_getUsedUris` looks at, and its URI is
`None` only when no default namespace is declared -/
def Good (ns : NsMap) (it : Item) : Prop :=
  ∀ u n, it.val = .ns u n →
    (endsWith it.typ sfxSelector || it.typ == tyUniversal) = true ∧ (u = .none → nsGet ns [] = none)

def AllGood (ns : NsMap) (rs : List Item) : Prop := ∀ it ∈ rs, Good ns it

theorem good_str (ns : NsMap) (s typ : Cps) : Good ns ⟨.str s, typ⟩ := by intro u n h; cases h
theorem good_comment (ns : NsMap) (s typ : Cps) : Good ns ⟨.comment s, typ⟩ := by intro u n h; cases h

theorem allGood_cons {ns : NsMap} {it : Item} {rs : List Item} (h1 : Good ns it) (h2 : AllGood ns rs) :
    AllGood ns (it :: rs) := by
  intro x hx
  rcases List.mem_cons.mp hx with rfl | hx
  · exact h1
  · exact h2 x hx

theorem fillQuiet_good (ns : NsMap) : ∀ (f : List Fill) (rs : List Item), AllGood ns rs → AllGood ns (fillQuiet rs f) := by
  intro f
  induction f with
  | nil => intro rs h; exact h
  | cons a t ih =>
    intro rs h
    cases a with
    | ws v => exact ih rs h
    | cm v => exact ih _ (allGood_cons (good_comment ns _ _) h)

theorem fillDesc_good (ns : NsMap) : ∀ (f : List Fill) (rs : List Item), AllGood ns rs → AllGood ns (fillDesc rs f) := by
  intro f
  induction f with
  | nil => intro rs h; exact h
  | cons a t ih =>
    intro rs h
    cases a with
    | ws v => exact ih _ (allGood_cons (good_str ns _ _) h)
    | cm v => exact ih _ (allGood_cons (good_comment ns _ _) h)

theorem pfx_uri_none (ns : NsMap) (p : Pfx) (hp : p.ok ns = true) (h : p.uri ns = .none) : nsGet ns [] = none := by
  cases p with
  | none =>
    simp only [Pfx.uri] at h
    cases hd : nsGet ns [] with
    | none => rfl
    | some u => rw [hd] at h; cases h
  | any => cases h
  | empty => cases h
  | named q =>
    simp only [Pfx.ok, Bool.and_eq_true] at hp
    simp only [Pfx.uri] at h
    cases hd : nsGet ns q with
    | none => rw [hd] at hp; simp at hp
    | some u => rw [hd] at h; cases h

theorem typeItem_good (ns : NsMap) (neg : Bool) (t : TypeSel) (ht : t.ok ns = true) : Good ns (t.item ns neg) := by
  simp only [TypeSel.ok, Bool.and_eq_true] at ht
  intro u n h
  unfold TypeSel.item at h ⊢
  cases hn : t.name with
  | none =>
    rw [hn] at h
    simp only [Val.ns.injEq] at h
    refine ⟨rfl, fun e => pfx_uri_none ns t.pfx ht.1 (by rw [h.1, e])⟩
  | some nm =>
    rw [hn] at h
    simp only [Val.ns.injEq] at h
    refine ⟨by cases neg <;> rfl, fun e => pfx_uri_none ns t.pfx ht.1 (by rw [h.1, e])⟩

theorem attrName_good (ns : NsMap) (a : Attr) (ha : a.pfx.ok ns = true) : Good ns (a.nameItem ns) := by
  intro u n h
  unfold Attr.nameItem at h ⊢
  cases hp : a.pfx with
  | none => rw [hp] at h; cases h
  | empty => rw [hp] at h; cases h
  | any =>
    rw [hp] at h
    simp only [Val.ns.injEq] at h
    exact ⟨rfl, fun e => by rw [← h.1] at e; cases e⟩
  | named q =>
    rw [hp] at h ha
    simp only [Val.ns.injEq] at h
    exact ⟨rfl, fun e => pfx_uri_none ns (.named q) ha (by rw [h.1, e])⟩

theorem attr_good (ns : NsMap) (a : Attr) (ha : a.ok ns = true) (rs : List Item) (h : AllGood ns rs) :
    AllGood ns (a.rpush ns rs) := by
  simp only [Attr.ok, Bool.and_eq_true] at ha
  unfold Attr.rpush
  apply allGood_cons (good_str ns _ _)
  have h1 := fillQuiet_good ns a.f2 _ (allGood_cons (attrName_good ns a ha.1.1.1.2)
    (fillQuiet_good ns a.f1 _ (allGood_cons (good_str ns [91] tyAttrStart) h)))
  cases ho : a.opv with
  | none => exact h1
  | some q =>
    obtain ⟨o, f3, v, f4⟩ := q
    apply fillQuiet_good
    apply allGood_cons
    · cases v <;> exact good_str ns _ _
    · apply fillQuiet_good
      apply allGood_cons _ h1
      cases o <;> exact good_str ns _ _

theorem argPush_good (ns : NsMap) : ∀ (args : List ArgTok) (rs : List Item), AllGood ns rs → AllGood ns (argPush rs args) := by
  intro args
  induction args with
  | nil => intro rs h; exact h
  | cons a t ih =>
    intro rs h
    unfold argPush
    apply ih
    cases a with
    | plus =>
      simp only
      split
      · rename_i s ty r
        split
        · exact allGood_cons (good_str ns _ _) (fun x hx => h x (List.mem_cons_of_mem _ hx))
        · exact allGood_cons (good_str ns _ _) h
      · exact allGood_cons (good_str ns _ _) h
    | minus => exact allGood_cons (good_str ns _ _) h
    | num v => exact allGood_cons (good_str ns _ _) h
    | dim v => exact allGood_cons (good_str ns _ _) h
    | str raw => exact allGood_cons (good_str ns _ _) h
    | ident v => exact allGood_cons (good_str ns _ _) h
    | ws v =>
      simp only
      split
      · split
        · exact h
        · exact allGood_cons (good_str ns _ _) h
      · exact h
    | cm v => exact allGood_cons (good_comment ns _ _) h

theorem funcPush_good (ns : NsMap) (two : Bool) (f : Cps) (args : List ArgTok) (rs : List Item) (h : AllGood ns rs) :
    AllGood ns (funcPush two f args rs) := by
  unfold funcPush
  exact allGood_cons (good_str ns _ _) (argPush_good ns args _ (allGood_cons (good_str ns _ _) h))

theorem pseudoItem_good (ns : NsMap) (two : Bool) (n : Cps) : Good ns (pseudoItem two n) := by
  unfold pseudoItem; exact good_str ns _ _

theorem negArg_good (ns : NsMap) (x : NegArg) (hx : x.ok ns = true) (rs : List Item) (h : AllGood ns rs) :
    AllGood ns (x.rpush ns rs) := by
  cases x with
  | type t => exact allGood_cons (typeItem_good ns true t hx) h
  | id v => exact allGood_cons (good_str ns _ _) h
  | cls n => exact allGood_cons (good_str ns _ _) h
  | attr a => exact attr_good ns a hx rs h
  | pseudo two n => exact allGood_cons (pseudoItem_good ns two n) h
  | func two f args => exact funcPush_good ns two f args rs h

theorem simple_good (ns : NsMap) (s : Simple) (hs : s.ok ns = true) (rs : List Item) (h : AllGood ns rs) :
    AllGood ns (s.rpush ns rs) := by
  cases s with
  | id v => exact allGood_cons (good_str ns _ _) h
  | cls n => exact allGood_cons (good_str ns _ _) h
  | attr a => exact attr_good ns a hs rs h
  | pseudo two n => exact allGood_cons (pseudoItem_good ns two n) h
  | func two f args => exact funcPush_good ns two f args rs h
  | not fv f1 x f2 =>
    simp only [Simple.ok, Bool.and_eq_true] at hs
    unfold Simple.rpush
    apply allGood_cons (good_str ns _ _)
    apply fillQuiet_good
    apply negArg_good ns x hs.1.2
    apply fillQuiet_good
    exact allGood_cons (good_str ns _ _) h

theorem cmPush_good (ns : NsMap) : ∀ (cs : List Cps) (rs : List Item), AllGood ns rs → AllGood ns (cmPush rs cs) := by
  intro cs
  induction cs with
  | nil => intro rs h; exact h
  | cons v t ih => intro rs h; exact ih _ (allGood_cons (good_comment ns _ _) h)

theorem restOk_each (ns : NsMap) : ∀ (l : List (List Cps × Simple)), restOk ns l = true → ∀ p ∈ l, p.2.ok ns = true := by
  intro l
  induction l with
  | nil => intro _ p hp; simp at hp
  | cons a t ih =>
    intro h p hp
    obtain ⟨cs, s⟩ := a
    cases t with
    | nil =>
      simp only [restOk, Bool.and_eq_true] at h
      simp only [List.mem_cons, List.mem_nil_iff, or_false] at hp
      rw [hp]; exact h.2
    | cons b u =>
      simp only [restOk, Bool.and_eq_true] at h
      rcases List.mem_cons.mp hp with rfl | hp
      · exact h.1.1.2
      · exact ih h.2 p hp

theorem restPush_good (ns : NsMap) : ∀ (l : List (List Cps × Simple)) (rs : List Item),
    (∀ p ∈ l, p.2.ok ns = true) → AllGood ns rs → AllGood ns (restPush ns rs l) := by
  intro l
  induction l with
  | nil => intro rs _ h; exact h
  | cons a t ih =>
    intro rs hl h
    obtain ⟨cs, s⟩ := a
    unfold restPush
    apply ih _ (fun p hp => hl p (List.mem_cons_of_mem _ hp))
    exact simple_good ns s (hl (cs, s) (by simp)) _ (cmPush_good ns cs rs h)

theorem compound_good (ns : NsMap) (c : Compound) (hc : c.ok ns = true) (rs : List Item) (h : AllGood ns rs) :
    AllGood ns (c.rpush ns rs) := by
  simp only [Compound.ok, Bool.and_eq_true] at hc
  unfold Compound.rpush
  apply restPush_good ns c.rest _ (restOk_each ns c.rest hc.1.2)
  cases hh : c.head with
  | none => exact h
  | some t =>
    have ht : t.ok ns = true := by have := hc.1.1; rw [hh] at this; exact this
    exact allGood_cons (typeItem_good ns false t ht) h

theorem putComb_good (ns : NsMap) (o : Comb) (rs : List Item) (h : AllGood ns rs) : AllGood ns (putComb o rs) := by
  have ho : Good ns o.item := by cases o <;> exact good_str ns _ _
  unfold putComb
  split
  · split
    · exact allGood_cons ho (fun x hx => h x (List.mem_cons_of_mem _ hx))
    · exact allGood_cons ho h
  · exact allGood_cons ho h

theorem gap_good (ns : NsMap) (g : Gap) (rs : List Item) (h : AllGood ns rs) : AllGood ns (g.rpush rs) := by
  unfold Gap.rpush
  cases g.op with
  | none => exact fillDesc_good ns _ _ h
  | some q =>
    obtain ⟨o, post⟩ := q
    exact fillQuiet_good ns _ _ (putComb_good ns o _ (fillDesc_good ns _ _ h))

theorem more_good (ns : NsMap) : ∀ (l : List (Gap × Compound)) (rs : List Item),
    (∀ gc ∈ l, gc.2.ok ns = true) → AllGood ns rs → AllGood ns (morePush ns rs l) := by
  intro l
  induction l with
  | nil => intro rs _ h; exact h
  | cons a t ih =>
    intro rs hl h
    obtain ⟨g, c⟩ := a
    unfold morePush
    apply ih _ (fun p hp => hl p (List.mem_cons_of_mem _ hp))
    exact compound_good ns c (hl (g, c) (by simp)) _ (gap_good ns g rs h)

theorem dropBlank_sub (rs : List Item) : ∀ it ∈ dropBlank rs, it ∈ rs := by
  intro it h
  unfold dropBlank at h
  split at h
  · split at h
    · exact List.mem_cons_of_mem _ h
    · exact h
  · exact h

/-- every item of a written selector is good -/
theorem items_good (ns : NsMap) (s : Sel) (hs : s.ok ns = true) : AllGood ns (s.items ns) := by
  simp only [Sel.ok, Bool.and_eq_true, List.all_eq_true] at hs
  have h : AllGood ns (s.rpush ns) := by
    unfold Sel.rpush
    apply fillDesc_good
    apply more_good ns s.more _ (fun gc hgc => (hs.1.2 gc hgc).2)
    apply compound_good ns s.first hs.1.1.2
    exact fillQuiet_good ns _ _ (fun it hit => by simp at hit)
  intro it hit
  unfold Sel.items at hit
  exact h it (dropBlank_sub _ it (List.mem_reverse.mp hit))

theorem items_nsTyped (ns : NsMap) (s : Sel) (hs : s.ok ns = true) : NsTyped (s.items ns) :=
  fun it hit u n hv => (items_good ns s hs it hit u n hv).1

theorem items_noneOnly (ns : NsMap) (s : Sel) (hs : s.ok ns = true) : NoneOnlyWithoutDefault ns (s.items ns) :=
  fun it hit n hv => (items_good ns s hs it hit .none n hv).2 rfl

end CssVerif.Sel
