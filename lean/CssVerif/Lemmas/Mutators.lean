import CssVerif.Model.Mutators
/-!
Soundness of the static discipline `post` w.r.t. the interpreter `run` (helper lemmas for C11).
-/
namespace CssVerif.Mutators

@[simp] theorem St.setCur_ro (s : St) (f : Field) (v : Nat) : (s.setCur f v).readonly = s.readonly := rfl
@[simp] theorem St.setSaved_ro (s : St) (f : Field) (v : Nat) : (s.setSaved f v).readonly = s.readonly := rfl
@[simp] theorem St.setFlag_ro (s : St) (b : Flag) (v : Bool) : (s.setFlag b v).readonly = s.readonly := rfl
@[simp] theorem St.assign_ro (s : St) (f : Field) : (s.assign f).readonly = s.readonly := rfl
@[simp] theorem St.mutate_ro (s : St) (f : Field) : (s.mutate f).readonly = s.readonly := by
  unfold St.mutate; split <;> rfl

/-- what the abstract state says about the read-only flag -/
def SoundRO (readonly nro isro : Bool) : Prop := (nro = true → readonly = false) ∧ (isro = true → readonly = true)

theorem SoundRO.weaken {r n i n' i' : Bool} (h : SoundRO r n i) (hn : n' = true → n = true) (hi : i' = true → i = true) :
    SoundRO r n' i' := ⟨fun x => h.1 (hn x), fun x => h.2 (hi x)⟩

/-- the abstract state `a` describes the concrete state `s` relative to the entry state `s0` -/
structure Sound (s0 s : St) (a : Abs) : Prop where
  clean : ∀ f ∈ a.clean, s.cur f = s0.cur f
  valid : ∀ f ∈ a.valid, s.saved f = s0.cur f
  cvalid : ∀ f ∈ a.cvalid, s.copies f = s0.cur f
  fresh : ∀ f ∈ a.fresh, s0.next ≤ s.cur f
  known : ∀ p ∈ a.known, s.flags p.1 = p.2
  next : s0.next ≤ s.next
  ro : SoundRO s.readonly a.nro a.isro

def Holds (s0 : St) (o : AbsSet) (s : St) : Prop := ∃ a ∈ o, Sound s0 s a

def OK (s0 : St) (r : Res) (p : Post) : Prop := r.exit = .stuck ∨ Holds s0 (p.get r.exit) r.st

theorem mem_union {a b : AbsSet} {x : Abs} : x ∈ a.union b ↔ x ∈ a ∨ x ∈ b := by
  unfold AbsSet.union
  constructor
  · intro h
    rcases List.mem_append.mp h with h | h
    · exact Or.inl h
    · exact Or.inr (List.mem_filter.mp h).1
  · intro h
    by_cases hx : x ∈ a
    · exact List.mem_append.mpr (Or.inl hx)
    · rcases h with h | h
      · exact absurd h hx
      · exact List.mem_append.mpr (Or.inr (List.mem_filter.mpr ⟨h, by simpa using hx⟩))

theorem Sound.of_le {s0 s : St} {i x : Abs} (hle : i.le x = true) (h : Sound s0 s x) : Sound s0 s i := by
  simp only [Abs.le, Bool.and_eq_true, List.all_eq_true, decide_eq_true_eq] at hle
  obtain ⟨⟨⟨⟨⟨⟨h1, h2⟩, h2c⟩, h3⟩, h4⟩, h5⟩, h6⟩ := hle
  refine ⟨fun f hf => h.clean f (h1 f hf), fun f hf => h.valid f (h2 f hf), fun f hf => h.cvalid f (h2c f hf),
         fun f hf => h.fresh f (h3 f hf), fun p hp => h.known p (h4 p hp), h.next, ?_⟩
  apply h.ro.weaken
  · intro hn; cases hx : x.nro
    · simp [hn, hx] at h5
    · rfl
  · intro hn; cases hx : x.isro
    · simp [hn, hx] at h6
    · rfl

theorem Sound.bot {s0 s : St} {a : Abs} (h : Sound s0 s a) : Sound s0 s Abs.bot :=
  ⟨fun _ hf => by simp [Abs.bot] at hf, fun _ hf => by simp [Abs.bot] at hf, fun _ hf => by simp [Abs.bot] at hf,
   fun _ hf => by simp [Abs.bot] at hf, fun _ hf => by simp [Abs.bot] at hf, h.next,
   ⟨fun hn => by simp [Abs.bot] at hn, fun hn => by simp [Abs.bot] at hn⟩⟩

theorem Holds.union_left {s0 s : St} {o : AbsSet} (o' : AbsSet) (h : Holds s0 o s) : Holds s0 (o.union o') s := by
  obtain ⟨a, ha, hs⟩ := h
  exact ⟨a, mem_union.mpr (Or.inl ha), hs⟩

theorem Holds.union_right {s0 s : St} {o' : AbsSet} (o : AbsSet) (h : Holds s0 o' s) : Holds s0 (o.union o') s := by
  obtain ⟨a, ha, hs⟩ := h
  exact ⟨a, mem_union.mpr (Or.inr ha), hs⟩

theorem Holds.covers {s0 s : St} {X I : AbsSet} (h : Holds s0 X s) (hc : I.coversAll X = true) : Holds s0 I s := by
  obtain ⟨x, hx, hs⟩ := h
  simp only [AbsSet.coversAll, List.all_eq_true] at hc
  have := hc x hx
  simp only [AbsSet.covers, List.any_eq_true] at this
  obtain ⟨i, hi, hle⟩ := this
  exact ⟨i, hi, Sound.of_le hle hs⟩

theorem get_join_left (p q : Post) (k : Exit) {x : Abs} (h : x ∈ p.get k) : x ∈ (p.join q).get k := by
  cases k <;> first | exact mem_union.mpr (Or.inl h) | (simp only [Post.get] at h; cases h)

theorem get_join_right (p q : Post) (k : Exit) {x : Abs} (h : x ∈ q.get k) : x ∈ (p.join q).get k := by
  cases k <;> first | exact mem_union.mpr (Or.inr h) | (simp only [Post.get] at h; cases h)

theorem OK.join_left {s0 : St} {r : Res} {p : Post} (q : Post) (h : OK s0 r p) : OK s0 r (p.join q) := by
  rcases h with h | ⟨a, ha, hs⟩
  · exact Or.inl h
  · exact Or.inr ⟨a, get_join_left p q _ ha, hs⟩

theorem OK.join_right {s0 : St} {r : Res} {q : Post} (p : Post) (h : OK s0 r q) : OK s0 r (p.join q) := by
  rcases h with h | ⟨a, ha, hs⟩
  · exact Or.inl h
  · exact Or.inr ⟨a, get_join_right p q _ ha, hs⟩

/-- continuing from one member of the set is covered by continuing from all of them -/
theorem OK.ofBind {s0 : St} {r : Res} {f : Abs → Post} {A : AbsSet} {a : Abs} (ha : a ∈ A) (h : OK s0 r (f a)) :
    OK s0 r (bindAll f A) := by
  induction A with
  | nil => cases ha
  | cons x rest ih =>
    simp only [bindAll]
    rcases List.mem_cons.mp ha with rfl | hr
    · exact OK.join_left _ h
    · exact OK.join_right _ (ih hr)

theorem OK.of_exit {s0 : St} {r : Res} {p : Post} (k : Exit) (hk : r.exit = k) (h : Holds s0 (p.get k) r.st) :
    OK s0 r p := Or.inr (by rw [hk]; exact h)

/-! primitive steps -/
section prim
variable {s0 s : St} {a : Abs}

theorem sound_assign (f : Field) (h : Sound s0 s a) :
    Sound s0 (s.assign f) { a with clean := a.clean.filter (· ≠ f), fresh := f :: a.fresh } := by
  refine ⟨?_, ?_, ?_, ?_, ?_, ?_, by simpa using h.ro⟩
  · intro g hg
    have hg' := List.mem_filter.mp hg
    have hne : g ≠ f := by simpa using hg'.2
    simp [St.assign, St.setCur, hne, h.clean g hg'.1]
  · intro g hg; simpa [St.assign, St.setCur] using h.valid g hg
  · intro g hg; simpa [St.assign, St.setCur] using h.cvalid g hg
  · intro g hg
    by_cases e : g = f
    · subst e; simp [St.assign, St.setCur, h.next]
    · have : g ∈ a.fresh := by simpa [e] using hg
      simp [St.assign, St.setCur, e, h.fresh g this]
  · intro p hp; simpa [St.assign, St.setCur] using h.known p hp
  · simp only [St.assign, St.setCur]; exact Nat.le_succ_of_le h.next

theorem sound_mutate (h0 : ∀ f, s0.cur f < s0.next) (f : Field) (h : Sound s0 s a) :
    Sound s0 (s.mutate f)
      { a with clean := a.clean.filter (· ≠ f),
               valid := if f ∈ a.fresh then a.valid else a.valid.filter (· ≠ f),
               fresh := f :: a.fresh } := by
  refine ⟨?_, ?_, ?_, ?_, ?_, ?_, by simpa using h.ro⟩
  rotate_left 2
  · intro g hg
    simp only [St.mutate]
    split <;> simpa [St.setCur, St.setSaved] using h.cvalid g hg
  rotate_right 2
  · intro g hg
    have hg' := List.mem_filter.mp hg
    have hne : g ≠ f := by simpa using hg'.2
    simp only [St.mutate]
    split <;> simp [St.setCur, St.setSaved, hne, h.clean g hg'.1]
  · intro g hg
    by_cases e : g = f
    · subst e
      by_cases hf : g ∈ a.fresh
      · have hv : g ∈ a.valid := by simpa [hf] using hg
        have h1 := h.valid g hv
        have h2 := h.fresh g hf
        have h3 := h0 g
        have hne : ¬ (s0.cur g = s.cur g) := by omega
        simp [St.mutate, St.setCur, h1, hne]
      · have : g ∈ a.valid.filter (· ≠ g) := by simpa [hf] using hg
        simp at this
    · have hv : g ∈ a.valid := by
        by_cases hf : f ∈ a.fresh
        · simpa [hf] using hg
        · have : g ∈ a.valid.filter (· ≠ f) := by simpa [hf] using hg
          exact (List.mem_filter.mp this).1
      simp only [St.mutate]
      split <;> simp [St.setCur, St.setSaved, e, h.valid g hv]
  · intro g hg
    by_cases e : g = f
    · subst e
      simp only [St.mutate]
      split <;> simp [St.setCur, St.setSaved, h.next]
    · have : g ∈ a.fresh := by simpa [e] using hg
      simp only [St.mutate]
      split <;> simp [St.setCur, St.setSaved, e, h.fresh g this]
  · intro p hp
    simp only [St.mutate]
    split <;> simpa [St.setCur, St.setSaved] using h.known p hp
  · simp only [St.mutate]
    exact Nat.le_succ_of_le h.next

theorem sound_save (f : Field) (h : Sound s0 s a) :
    Sound s0 (s.setSaved f (s.cur f))
      { a with valid := if f ∈ a.clean then f :: a.valid else a.valid.filter (· ≠ f) } := by
  refine ⟨fun g hg => by simpa [St.setSaved] using h.clean g hg, ?_,
          fun g hg => by simpa [St.setSaved] using h.cvalid g hg,
          fun g hg => by simpa [St.setSaved] using h.fresh g hg,
          fun p hp => by simpa [St.setSaved] using h.known p hp, by simpa [St.setSaved] using h.next,
          by simpa using h.ro⟩
  intro g hg
  by_cases e : g = f
  · subst e
    by_cases hc : g ∈ a.clean
    · simp [St.setSaved, h.clean g hc]
    · have : g ∈ a.valid.filter (· ≠ g) := by simpa [hc] using hg
      simp at this
  · have hv : g ∈ a.valid := by
      by_cases hc : f ∈ a.clean
      · simpa [hc, e] using hg
      · have : g ∈ a.valid.filter (· ≠ f) := by simpa [hc] using hg
        exact (List.mem_filter.mp this).1
    simp [St.setSaved, e, h.valid g hv]

theorem sound_restore (f : Field) (h : Sound s0 s a) :
    Sound s0 (s.setCur f (s.saved f))
      { a with clean := if f ∈ a.valid then f :: a.clean else a.clean.filter (· ≠ f),
               fresh := a.fresh.filter (· ≠ f) } := by
  refine ⟨?_, fun g hg => by simpa [St.setCur] using h.valid g hg,
          fun g hg => by simpa [St.setCur] using h.cvalid g hg, ?_,
          fun p hp => by simpa [St.setCur] using h.known p hp, by simpa [St.setCur] using h.next,
          by simpa using h.ro⟩
  · intro g hg
    by_cases e : g = f
    · subst e
      by_cases hv : g ∈ a.valid
      · simp [St.setCur, h.valid g hv]
      · have : g ∈ a.clean.filter (· ≠ g) := by simpa [hv] using hg
        simp at this
    · have hc : g ∈ a.clean := by
        by_cases hv : f ∈ a.valid
        · simpa [hv, e] using hg
        · have : g ∈ a.clean.filter (· ≠ f) := by simpa [hv] using hg
          exact (List.mem_filter.mp this).1
      simp [St.setCur, e, h.clean g hc]
  · intro g hg
    have hg' := List.mem_filter.mp hg
    have hne : g ≠ f := by simpa using hg'.2
    simp [St.setCur, hne, h.fresh g hg'.1]

theorem sound_saveC (f : Field) (h : Sound s0 s a) :
    Sound s0 { s with copies := fun g => if g = f then s.cur f else s.copies g }
      { a with cvalid := if f ∈ a.clean then f :: a.cvalid else a.cvalid.filter (· ≠ f) } := by
  refine ⟨h.clean, h.valid, ?_, h.fresh, h.known, h.next, h.ro⟩
  intro g hg
  by_cases e : g = f
  · subst e
    by_cases hc : g ∈ a.clean
    · simp [h.clean g hc]
    · have : g ∈ a.cvalid.filter (· ≠ g) := by simpa [hc] using hg
      simp at this
  · have hv : g ∈ a.cvalid := by
      by_cases hc : f ∈ a.clean
      · simpa [hc, e] using hg
      · have : g ∈ a.cvalid.filter (· ≠ f) := by simpa [hc] using hg
        exact (List.mem_filter.mp this).1
    simp [e, h.cvalid g hv]

theorem sound_restoreC (f : Field) (h : Sound s0 s a) :
    Sound s0 (s.setCur f (s.copies f))
      { a with clean := if f ∈ a.cvalid then f :: a.clean else a.clean.filter (· ≠ f),
               fresh := a.fresh.filter (· ≠ f) } := by
  refine ⟨?_, fun g hg => by simpa [St.setCur] using h.valid g hg,
          fun g hg => by simpa [St.setCur] using h.cvalid g hg, ?_,
          fun p hp => by simpa [St.setCur] using h.known p hp, by simpa [St.setCur] using h.next,
          by simpa using h.ro⟩
  · intro g hg
    by_cases e : g = f
    · subst e
      by_cases hv : g ∈ a.cvalid
      · simp [St.setCur, h.cvalid g hv]
      · have : g ∈ a.clean.filter (· ≠ g) := by simpa [hv] using hg
        simp at this
    · have hc : g ∈ a.clean := by
        by_cases hv : f ∈ a.cvalid
        · simpa [hv, e] using hg
        · have : g ∈ a.clean.filter (· ≠ f) := by simpa [hv] using hg
          exact (List.mem_filter.mp this).1
      simp [St.setCur, e, h.clean g hc]
  · intro g hg
    have hg' := List.mem_filter.mp hg
    have hne : g ≠ f := by simpa using hg'.2
    simp [St.setCur, hne, h.fresh g hg'.1]

theorem sound_dropFlag (b : Flag) (v : Bool) (h : Sound s0 s a) : Sound s0 (s.setFlag b v) (a.dropFlag b) := by
  refine ⟨fun g hg => by simpa [St.setFlag] using h.clean g hg, fun g hg => by simpa [St.setFlag] using h.valid g hg,
          fun g hg => by simpa [St.setFlag] using h.cvalid g hg,
          fun g hg => by simpa [St.setFlag] using h.fresh g hg, ?_, by simpa [St.setFlag] using h.next,
          by simpa [Abs.dropFlag] using h.ro⟩
  intro p hp
  have hp' := List.mem_filter.mp hp
  have hne : p.1 ≠ b := by simpa using hp'.2
  simp [St.setFlag, hne, h.known p hp'.1]

theorem sound_setFlag (b : Flag) (v : Bool) (h : Sound s0 s a) : Sound s0 (s.setFlag b v) (a.setFlag b v) := by
  have hd := sound_dropFlag b v h
  refine ⟨hd.clean, hd.valid, hd.cvalid, hd.fresh, ?_, hd.next, hd.ro⟩
  intro p hp
  simp only [Abs.setFlag, List.mem_cons] at hp
  rcases hp with rfl | hp
  · simp [St.setFlag]
  · exact hd.known p hp

theorem sound_setFlag_same (b : Flag) (v : Bool) (hf : s.flags b = v) (h : Sound s0 s a) :
    Sound s0 s (a.setFlag b v) := by
  refine ⟨h.clean, h.valid, h.cvalid, h.fresh, ?_, h.next, h.ro⟩
  intro p hp
  simp only [Abs.setFlag, List.mem_cons] at hp
  rcases hp with rfl | hp
  · exact hf
  · exact h.known p (List.mem_filter.mp hp).1

theorem flagVal_sound {b : Flag} {v : Bool} (h : Sound s0 s a) (hv : a.flagVal b = some v) : s.flags b = v := by
  unfold Abs.flagVal at hv
  split at hv
  · rename_i ht; cases hv; exact h.known (b, true) ht
  · split at hv
    · rename_i hf; cases hv; exact h.known (b, false) hf
    · cases hv

end prim

theorem finThru_ok {s0 : St} {pf : Abs → Post} {A : AbsSet} {k : Exit} {r2 : Res} {x : Abs}
    (hx : x ∈ A) (hk : k ≠ .stuck) (h2 : OK s0 r2 (pf x)) :
    OK s0 (match r2.exit with | .norm => ⟨k, r2.st, r2.os⟩ | _ => r2) (finThru pf k A) := by
  induction A with
  | nil => cases hx
  | cons y rest ih =>
    simp only [finThru]
    rcases List.mem_cons.mp hx with rfl | hr
    · apply OK.join_left
      rcases h2 with h2 | ⟨a, ha, hs⟩
      · left; simp only [h2]
      · by_cases he : r2.exit = .norm
        · simp only [he]
          rw [he] at ha
          simp only [Post.get] at ha
          refine Or.inr ⟨a, ?_, hs⟩
          cases k <;> simp only [Post.put, Post.get] <;>
            first | exact absurd rfl hk | exact mem_union.mpr (Or.inr ha)
        · have : (match r2.exit with | .norm => (⟨k, r2.st, r2.os⟩ : Res) | _ => r2) = r2 := by
            split
            · rename_i h; exact absurd h he
            · rfl
          rw [this]
          refine Or.inr ⟨a, ?_, hs⟩
          cases hx2 : r2.exit <;> rw [hx2] at ha he <;> simp only [Post.get] at ha <;> cases k <;>
            simp only [Post.put, Post.get] <;>
            first | exact absurd rfl he | exact absurd rfl hk | exact ha | exact mem_union.mpr (Or.inl ha) | cases ha
    · exact OK.join_right _ (ih hr)

theorem runG_zero (H : Handler) (sc : Stmt) (s : St) (os : Outcomes) : runG H 0 sc s os = ⟨.stuck, s, os⟩ := by
  unfold runG; rfl

theorem run_zero (sc : Stmt) (s : St) (os : Outcomes) : run 0 sc s os = ⟨.stuck, s, os⟩ := runG_zero _ sc s os

theorem Handler.shallow_atomic : Handler.shallow.Atomic := by
  intro fuel f v os hr
  simp only [Handler.shallow] at hr ⊢
  simp [hr]

theorem invStable_norm {body : Abs → Post} {I : AbsSet} (h : invStable body I = true) :
    I.coversAll (bindAll body I).norm = true := by
  simp only [invStable, Bool.and_eq_true] at h; exact h.1

theorem invStable_cont {body : Abs → Post} {I : AbsSet} (h : invStable body I = true) :
    I.coversAll (bindAll body I).cont = true := by
  simp only [invStable, Bool.and_eq_true] at h; exact h.2

theorem bindAll_bot_norm_covered (body : Abs → Post) : invStable body [Abs.bot] = true := by
  have hb : ∀ x : Abs, AbsSet.covers [Abs.bot] x = true := by
    intro x; simp [AbsSet.covers, Abs.le, Abs.bot]
  simp only [invStable, AbsSet.coversAll, Bool.and_eq_true, List.all_eq_true]
  exact ⟨fun x _ => hb x, fun x _ => hb x⟩

/-- **Soundness of the analysis**: whatever way an execution ends, some abstract post-state computed for that way
of ending describes the concrete final state. -/
theorem post_soundG (H : Handler) (hH : H.Atomic) (s0 : St) (h0 : ∀ f, s0.cur f < s0.next) :
    ∀ fuel sc s a os, Sound s0 s a → OK s0 (runG H fuel sc s os) (post sc a) := by
  intro fuel
  induction fuel using Nat.strongRecOn with
  | _ n ih =>
    intro sc s a os hs
    cases n with
    | zero => rw [runG_zero]; exact Or.inl rfl
    | succ n =>
      have ihn : ∀ sc s a os, Sound s0 s a → OK s0 (runG H n sc s os) (post sc a) :=
        ih n (Nat.lt_succ_self n)
      have one : ∀ {st : St} {os' : Outcomes} {p : Post} {x : Abs} (k : Exit), k ≠ .stuck → x ∈ p.get k →
          Sound s0 st x → OK s0 ⟨k, st, os'⟩ p := fun k _ hx hsx => Or.inr ⟨_, hx, hsx⟩
      cases sc with
      | skip => simp only [runG, post]; exact one .norm (by decide) (by simp [Post.get]) hs
      | mark k =>
        simp only [runG, post]
        exact one .norm (by decide) (by simp [Post.get])
          ⟨hs.clean, hs.valid, hs.cvalid, hs.fresh, hs.known, hs.next, hs.ro⟩
      | assign f => simp only [runG, post]; exact one .norm (by decide) (by simp [Post.get]) (sound_assign f hs)
      | mutate f => simp only [runG, post]; exact one .norm (by decide) (by simp [Post.get]) (sound_mutate h0 f hs)
      | save f => simp only [runG, post]; exact one .norm (by decide) (by simp [Post.get]) (sound_save f hs)
      | restore f => simp only [runG, post]; exact one .norm (by decide) (by simp [Post.get]) (sound_restore f hs)
      | saveC f => simp only [runG, post]; exact one .norm (by decide) (by simp [Post.get]) (sound_saveC f hs)
      | restoreC f => simp only [runG, post]; exact one .norm (by decide) (by simp [Post.get]) (sound_restoreC f hs)
      | guard =>
        simp only [runG, post]
        cases hi : a.isro with
        | true =>
          have := hs.ro.2 hi
          simp only [this, if_true]
          exact one .roExc (by decide) (by simp [Post.get]) hs
        | false =>
          simp only [Bool.false_eq_true, if_false]
          cases hn : a.nro with
          | true =>
            have := hs.ro.1 hn
            simp only [this, if_true]
            exact one .norm (by decide) (by simp [Post.get]) hs
          | false =>
            simp only [Bool.false_eq_true, if_false]
            cases hr : s.readonly with
            | true => exact one .roExc (by decide) (by simp [Post.get]) hs
            | false =>
              refine Or.inr ⟨{ a with nro := true }, by simp [Post.get, hi],
                ⟨hs.clean, hs.valid, hs.cvalid, hs.fresh, hs.known, hs.next, ?_⟩⟩
              exact ⟨fun _ => hr, fun x => by simp [hi] at x⟩
      | raise => simp only [runG, post]; exact one .exc (by decide) (by simp [Post.get]) hs
      | mayRaise =>
        simp only [runG, post]
        split
        · exact one .exc (by decide) (by simp [Post.get]) hs
        · exact one .norm (by decide) (by simp [Post.get]) hs
      | ret => simp only [runG, post]; exact one .ret (by decide) (by simp [Post.get]) hs
      | brk => simp only [runG, post]; exact one .brk (by decide) (by simp [Post.get]) hs
      | cont => simp only [runG, post]; exact one .cont (by decide) (by simp [Post.get]) hs
      | setFlag b v => simp only [runG, post]; exact one .norm (by decide) (by simp [Post.get]) (sound_setFlag b v hs)
      | havoc b => simp only [runG, post]; exact one .norm (by decide) (by simp [Post.get]) (sound_dropFlag b _ hs)
      | ifFlag b t e =>
        simp only [runG, post]
        cases hv : a.flagVal b with
        | none =>
          simp only
          cases hf : s.flags b with
          | true =>
            simp only [if_true]
            exact OK.join_left _ (ihn t s _ os (sound_setFlag_same b true hf hs))
          | false =>
            simp only [Bool.false_eq_true, if_false]
            exact OK.join_right _ (ihn e s _ os (sound_setFlag_same b false hf hs))
        | some v =>
          have := flagVal_sound hs hv
          cases v with
          | true => simp only [this, if_true]; exact ihn t s a os hs
          | false => simp only [this]; exact ihn e s a os hs
      | seq x y =>
        simp only [runG, post]
        have hb := ihn x s a os hs
        generalize runG H n x s os = r at hb ⊢
        generalize post x a = p at hb ⊢
        rcases hb with hb | ⟨a', ha', hs'⟩
        · left; simp only [hb]
        · by_cases he : r.exit = .norm
          · simp only [he]
            rw [he] at ha'
            simp only [Post.get] at ha'
            exact OK.join_right _ (OK.ofBind ha' (ihn y _ a' _ hs'))
          · split
            · rename_i h; exact absurd h he
            · apply OK.join_left
              refine Or.inr ⟨a', ?_, hs'⟩
              cases hx : r.exit <;> rw [hx] at ha' he <;> simp only [Post.get] at ha' ⊢ <;>
                first | exact absurd rfl he | exact ha'
      | choice x y =>
        simp only [runG, post]
        split
        · exact OK.join_left _ (ihn x s a _ hs)
        · exact OK.join_right _ (ihn y s a _ hs)
      | loop body els =>
        have key : ∀ I : AbsSet, invStable (post body) I = true →
            ∀ m, m ≤ n + 1 → ∀ s os, Holds s0 I s →
              OK s0 (runG H m (.loop body els) s os)
                (Post.join { norm := (bindAll (post body) I).brk, ret := (bindAll (post body) I).ret,
                             exc := (bindAll (post body) I).exc, roExc := (bindAll (post body) I).roExc }
                  (bindAll (post els) I)) := by
          intro I hstab m
          induction m with
          | zero => intro _ s os _; rw [runG_zero]; exact Or.inl rfl
          | succ m ihm =>
            intro hm s os hI
            obtain ⟨i, hi, hsi⟩ := hI
            simp only [runG]
            split
            · have hb : OK s0 (runG H m body s (nextOutcome os).2) (bindAll (post body) I) :=
                OK.ofBind hi (ih m (by omega) body s i (nextOutcome os).2 hsi)
              generalize runG H m body s (nextOutcome os).2 = r at hb ⊢
              rcases hb with hb | hb
              · left; simp only [hb]
              · cases hx : r.exit <;> rw [hx] at hb <;> simp only [Post.get] at hb <;> simp only []
                case stuck => left; exact hx
                case norm => exact ihm (by omega) _ _ (hb.covers (invStable_norm hstab))
                case cont => exact ihm (by omega) _ _ (hb.covers (invStable_cont hstab))
                case brk =>
                  apply OK.join_left
                  exact Or.inr hb
                all_goals
                  apply OK.join_left
                  right; rw [hx]; exact hb
            · exact OK.join_right _ (OK.ofBind hi (ih m (by omega) els s i _ hsi))
        simp only [post]
        split
        · rename_i hc
          simp only [Bool.and_eq_true] at hc
          apply key _ hc.2 (n + 1) (Nat.le_refl _) s os
          have := hc.1
          simp only [AbsSet.covers, List.any_eq_true] at this
          obtain ⟨i, hi, hle⟩ := this
          exact ⟨i, hi, Sound.of_le hle hs⟩
        · exact key _ (bindAll_bot_norm_covered _) (n + 1) (Nat.le_refl _) s os
            ⟨Abs.bot, List.mem_singleton.mpr rfl, hs.bot⟩
      | tryCatch body h =>
        simp only [runG, post]
        have hb := ihn body s a os hs
        generalize runG H n body s os = r at hb ⊢
        generalize post body a = p at hb ⊢
        rcases hb with hb | ⟨a', ha', hs'⟩
        · left; simp only [hb]
        · cases hx : r.exit <;> rw [hx] at ha' <;> simp only [Post.get] at ha' <;> simp only []
          case stuck => cases ha'
          case exc =>
            exact OK.join_right _ (OK.ofBind (mem_union.mpr (Or.inl ha')) (ihn h _ a' _ hs'))
          case roExc =>
            exact OK.join_right _ (OK.ofBind (mem_union.mpr (Or.inr ha')) (ihn h _ a' _ hs'))
          all_goals
            apply OK.join_left
            right; rw [hx]; exact ⟨a', ha', hs'⟩
      | tryFinally body fin =>
        simp only [runG, post]
        have hb := ihn body s a os hs
        generalize runG H n body s os = r at hb ⊢
        generalize post body a = p at hb ⊢
        rcases hb with hb | ⟨a', ha', hs'⟩
        · left; simp only [hb]
        · cases hx : r.exit <;> rw [hx] at ha' <;> simp only [Post.get] at ha' <;> simp only []
          case stuck => cases ha'
          case norm => exact OK.join_left _ (finThru_ok ha' (by decide) (ihn fin _ a' _ hs'))
          case ret => exact OK.join_right _ (OK.join_left _ (finThru_ok ha' (by decide) (ihn fin _ a' _ hs')))
          case brk =>
            exact OK.join_right _ (OK.join_right _ (OK.join_left _ (finThru_ok ha' (by decide) (ihn fin _ a' _ hs'))))
          case cont =>
            exact OK.join_right _ (OK.join_right _ (OK.join_right _
              (OK.join_left _ (finThru_ok ha' (by decide) (ihn fin _ a' _ hs')))))
          case exc =>
            exact OK.join_right _ (OK.join_right _ (OK.join_right _ (OK.join_right _
              (OK.join_left _ (finThru_ok ha' (by decide) (ihn fin _ a' _ hs'))))))
          case roExc =>
            exact OK.join_right _ (OK.join_right _ (OK.join_right _ (OK.join_right _
              (OK.join_right _ (finThru_ok ha' (by decide) (ihn fin _ a' _ hs'))))))
      | scope body =>
        simp only [runG, post]
        have hb := ihn body s a os hs
        generalize runG H n body s os = r at hb ⊢
        generalize post body a = p at hb ⊢
        rcases hb with hb | ⟨a', ha', hs'⟩
        · left; simp only [hb]
        · cases hx : r.exit <;> rw [hx] at ha' <;> simp only [Post.get] at ha' <;> simp only []
          case stuck => cases ha'
          case norm => right; rw [hx]; exact ⟨a', mem_union.mpr (Or.inl ha'), hs'⟩
          case ret => right; exact ⟨a', mem_union.mpr (Or.inr ha'), hs'⟩
          all_goals (right; rw [hx]; exact ⟨a', ha', hs'⟩)
      | call f =>
        simp only [runG, post]
        split
        · exact Or.inl rfl
        · split
          · rename_i hr
            have hc := hH _ _ _ _ hr
            simp only [hc, Bool.false_eq_true, if_false]
            exact one .exc (by decide) (by simp [Post.get]) hs
          · exact one .norm (by decide) (by simp [Post.get]) (sound_mutate h0 f hs)

theorem post_sound (s0 : St) (h0 : ∀ f, s0.cur f < s0.next) :
    ∀ fuel sc s a os, Sound s0 s a → OK s0 (run fuel sc s os) (post sc a) :=
  post_soundG Handler.shallow Handler.shallow_atomic s0 h0


theorem entry_sound (fs : List Field) (st : St) : Sound st st (Abs.entry fs) :=
  ⟨fun _ _ => rfl, fun _ h => by simp [Abs.entry] at h, fun _ h => by simp [Abs.entry] at h,
   fun _ h => by simp [Abs.entry] at h, fun _ h => by simp [Abs.entry] at h, Nat.le_refl _,
   ⟨fun h => by simp [Abs.entry] at h, fun h => by simp [Abs.entry] at h⟩⟩

theorem entryRO_sound (fs : List Field) (st : St) (hro : st.readonly = true) : Sound st st (Abs.entryRO fs) :=
  ⟨fun _ _ => rfl, fun _ h => by simp [Abs.entryRO] at h, fun _ h => by simp [Abs.entryRO] at h,
   fun _ h => by simp [Abs.entryRO] at h, fun _ h => by simp [Abs.entryRO] at h, Nat.le_refl _,
   ⟨fun h => by simp [Abs.entryRO] at h, fun _ => hro⟩⟩

theorem clean_of_holds {s0 s : St} {fs : List Field} {o : AbsSet} (h : Holds s0 o s)
    (hc : okClean fs o = true) : ∀ f ∈ fs, s.cur f = s0.cur f := by
  obtain ⟨a, ha, hs⟩ := h
  intro f hf
  simp only [okClean, List.all_eq_true] at hc
  have := hc a ha
  simp only [Abs.allClean, List.all_eq_true, decide_eq_true_eq] at this
  exact hs.clean f (this f hf)

theorem disciplined_atomicG (H : Handler) (hH : H.Atomic) (fs : List Field) (sc : Stmt)
    (hd : Disciplined fs sc = true) (fuel : Nat) (st : St) (os : Outcomes) (hwf : st.WF)
    (hexc : (runG H fuel sc st os).exit = .exc ∨ (runG H fuel sc st os).exit = .roExc) :
    ∀ f ∈ fs, (runG H fuel sc st os).st.cur f = st.cur f := by
  have hs := post_soundG H hH st hwf fuel sc st (Abs.entry fs) os (entry_sound fs st)
  simp only [Disciplined, Bool.and_eq_true] at hd
  rcases hexc with h | h
  · rcases hs with hs | hs
    · rw [h] at hs; cases hs
    · rw [h] at hs; exact clean_of_holds hs hd.1
  · rcases hs with hs | hs
    · rw [h] at hs; cases hs
    · rw [h] at hs; exact clean_of_holds hs hd.2

theorem disciplined_atomic_aux (fs : List Field) (sc : Stmt) (hd : Disciplined fs sc = true)
    (fuel : Nat) (st : St) (os : Outcomes) (hwf : st.WF)
    (hexc : (run fuel sc st os).exit = .exc ∨ (run fuel sc st os).exit = .roExc) :
    ∀ f ∈ fs, (run fuel sc st os).st.cur f = st.cur f :=
  disciplined_atomicG Handler.shallow Handler.shallow_atomic fs sc hd fuel st os hwf hexc

theorem readonly_safe_aux (fs : List Field) (sc : Stmt) (hd : ReadonlySafe fs sc = true)
    (fuel : Nat) (st : St) (os : Outcomes) (hwf : st.WF) (hro : st.readonly = true)
    (hne : (run fuel sc st os).exit ≠ .stuck) :
    ∀ f ∈ fs, (run fuel sc st os).st.cur f = st.cur f := by
  have hs := post_sound st hwf fuel sc st (Abs.entryRO fs) os (entryRO_sound fs st hro)
  simp only [ReadonlySafe, Bool.and_eq_true] at hd
  obtain ⟨⟨⟨⟨⟨h1, h2⟩, h3⟩, h4⟩, h5⟩, h6⟩ := hd
  rcases hs with hs | hs
  · exact absurd hs hne
  · cases hx : (run fuel sc st os).exit <;> rw [hx] at hs <;> simp only [Post.get] at hs
    · exact clean_of_holds hs h1
    · exact clean_of_holds hs h2
    · exact clean_of_holds hs h3
    · exact clean_of_holds hs h4
    · exact clean_of_holds hs h5
    · exact clean_of_holds hs h6
    · obtain ⟨a, ha, _⟩ := hs; cases ha

theorem readonly_rejectsG (H : Handler) (sc : Stmt) (hg : guardedFirst sc = true) (fuel : Nat) (st : St)
    (os : Outcomes) (hro : st.readonly = true) :
    ((runG H fuel sc st os).exit = .roExc ∨ (runG H fuel sc st os).exit = .stuck) ∧
    (runG H fuel sc st os).st.cur = st.cur ∧ (runG H fuel sc st os).st.saved = st.saved ∧
    (runG H fuel sc st os).os = os := by
  induction fuel generalizing sc st with
  | zero => rw [runG_zero]; exact ⟨Or.inr rfl, rfl, rfl, rfl⟩
  | succ n ih =>
    cases sc with
    | guard => simp [runG, hro]
    | scope a =>
      have hga : guardedFirst a = true := by simpa [guardedFirst] using hg
      have h := ih a hga st hro
      simp only [runG]
      generalize runG H n a st os = r at h ⊢
      obtain ⟨he, h2, h3, h4⟩ := h
      rcases he with he | he <;> simp only [he] <;> exact ⟨by simp [he], h2, h3, h4⟩
    | seq a b =>
      cases a with
      | mark k =>
        have hgb : guardedFirst b = true := by simpa [guardedFirst] using hg
        simp only [runG]
        cases n with
        | zero => simp [runG_zero]
        | succ m =>
          simp only [runG]
          have h := ih b hgb { st with trace := k :: st.trace } hro
          exact h
      | guard =>
        simp only [runG]
        cases n with
        | zero => simp [runG_zero]
        | succ m => simp [runG, hro]
      | seq x y =>
        have hga : guardedFirst (.seq x y) = true := by simpa [guardedFirst] using hg
        have h := ih (.seq x y) hga st hro
        simp only [runG]
        generalize runG H n (.seq x y) st os = r at h ⊢
        obtain ⟨he, h2, h3, h4⟩ := h
        rcases he with he | he <;> simp only [he] <;> exact ⟨by simp [he], h2, h3, h4⟩
      | scope x =>
        have hga : guardedFirst (.scope x) = true := by simpa [guardedFirst] using hg
        have h := ih (.scope x) hga st hro
        simp only [runG]
        generalize runG H n (.scope x) st os = r at h ⊢
        obtain ⟨he, h2, h3, h4⟩ := h
        rcases he with he | he <;> simp only [he] <;> exact ⟨by simp [he], h2, h3, h4⟩
      | _ => simp [guardedFirst] at hg
    | _ => simp [guardedFirst] at hg

theorem readonly_rejects_aux (sc : Stmt) (hg : guardedFirst sc = true) (fuel : Nat) (st : St) (os : Outcomes)
    (hro : st.readonly = true) :
    ((run fuel sc st os).exit = .roExc ∨ (run fuel sc st os).exit = .stuck) ∧
    (run fuel sc st os).st.cur = st.cur ∧ (run fuel sc st os).st.saved = st.saved ∧
    (run fuel sc st os).os = os :=
  readonly_rejectsG Handler.shallow sc hg fuel st os hro

end CssVerif.Mutators
