import CssVerif.Model.Mutators
/-!
Soundness of the static discipline `post` w.r.t. the interpreter `run` (helper lemmas for C11).
-/
namespace CssVerif.Mutators

@[simp] theorem St.setCur_ro (s : St) (f : Field) (v : Nat) : (s.setCur f v).readonly = s.readonly := rfl
@[simp] theorem St.setSaved_ro (s : St) (f : Field) (v : Nat) : (s.setSaved f v).readonly = s.readonly := rfl
@[simp] theorem St.setFlag_ro (s : St) (b : Flag) (v : Bool) : (s.setFlag b v).readonly = s.readonly := rfl
@[simp] theorem St.assign_ro (s : St) (f : Field) : (s.assign f).readonly = s.readonly := rfl
@[simp] theorem St.mutate_ro (s : St) (f : Field) : (s.mutate f).readonly = s.readonly := by
  unfold St.mutate; split <;> rfl

/-- what the abstract state says about the read-only flag -/
def SoundRO (readonly nro isro : Bool) : Prop := (nro = true → readonly = false) ∧ (isro = true → readonly = true)

theorem SoundRO.weaken {r n i n' i' : Bool} (h : SoundRO r n i) (hn : n' = true → n = true) (hi : i' = true → i = true) :
    SoundRO r n' i' := ⟨fun x => h.1 (hn x), fun x => h.2 (hi x)⟩

/-- the abstract state `a` describes the concrete state `s` relative to the entry state `s0` -/
structure Sound (s0 s : St) (a : Abs) : Prop where
  clean : ∀ f ∈ a.clean, s.cur f = s0.cur f
  valid : ∀ f ∈ a.valid, s.saved f = s0.cur f
  cvalid : ∀ f ∈ a.cvalid, s.copies f = s0.cur f
  fresh : ∀ f ∈ a.fresh, s0.next ≤ s.cur f
  known : ∀ p ∈ a.known, s.flags p.1 = p.2
  next : s0.next ≤ s.next
  ro : SoundRO s.readonly a.nro a.isro

def Holds (s0 : St) (o : Option Abs) (s : St) : Prop := ∃ a, o = some a ∧ Sound s0 s a

def OK (s0 : St) (r : Res) (p : Post) : Prop :=
  match r.exit with
  | .norm => Holds s0 p.norm r.st
  | .ret => Holds s0 p.ret r.st
  | .brk => Holds s0 p.brk r.st
  | .cont => Holds s0 p.cont r.st
  | .exc => Holds s0 p.exc r.st
  | .roExc => Holds s0 p.roExc r.st
  | .stuck => True

theorem Sound.meet_left {s0 s : St} {a : Abs} (b : Abs) (h : Sound s0 s a) : Sound s0 s (a.meet b) := by
  refine ⟨?_, ?_, ?_, ?_, ?_, h.next, ?_⟩
  · intro f hf; exact h.clean f (List.mem_filter.mp hf).1
  · intro f hf; exact h.valid f (List.mem_filter.mp hf).1
  · intro f hf; exact h.cvalid f (List.mem_filter.mp hf).1
  · intro f hf; exact h.fresh f (List.mem_filter.mp hf).1
  · intro p hp; exact h.known p (List.mem_filter.mp hp).1
  · exact h.ro.weaken (fun x => by simp only [Abs.meet, Bool.and_eq_true] at x; exact x.1)
      (fun x => by simp only [Abs.meet, Bool.and_eq_true] at x; exact x.1)

theorem Sound.meet_right {s0 s : St} {b : Abs} (a : Abs) (h : Sound s0 s b) : Sound s0 s (a.meet b) := by
  refine ⟨?_, ?_, ?_, ?_, ?_, h.next, ?_⟩
  · intro f hf; exact h.clean f (by simpa using (List.mem_filter.mp hf).2)
  · intro f hf; exact h.valid f (by simpa using (List.mem_filter.mp hf).2)
  · intro f hf; exact h.cvalid f (by simpa using (List.mem_filter.mp hf).2)
  · intro f hf; exact h.fresh f (by simpa using (List.mem_filter.mp hf).2)
  · intro p hp; exact h.known p (by simpa using (List.mem_filter.mp hp).2)
  · exact h.ro.weaken (fun x => by simp only [Abs.meet, Bool.and_eq_true] at x; exact x.2)
      (fun x => by simp only [Abs.meet, Bool.and_eq_true] at x; exact x.2)

theorem Sound.of_le {s0 s : St} {i x : Abs} (hle : i.le x = true) (h : Sound s0 s x) : Sound s0 s i := by
  simp only [Abs.le, Bool.and_eq_true, List.all_eq_true, decide_eq_true_eq] at hle
  obtain ⟨⟨⟨⟨⟨⟨h1, h2⟩, h2c⟩, h3⟩, h4⟩, h5⟩, h6⟩ := hle
  refine ⟨fun f hf => h.clean f (h1 f hf), fun f hf => h.valid f (h2 f hf), fun f hf => h.cvalid f (h2c f hf),
         fun f hf => h.fresh f (h3 f hf), fun p hp => h.known p (h4 p hp), h.next, ?_⟩
  apply h.ro.weaken
  · intro hn; cases hx : x.nro
    · simp [hn, hx] at h5
    · rfl
  · intro hn; cases hx : x.isro
    · simp [hn, hx] at h6
    · rfl

theorem Sound.bot {s0 s : St} {a : Abs} (h : Sound s0 s a) : Sound s0 s Abs.bot :=
  ⟨fun _ hf => by simp [Abs.bot] at hf, fun _ hf => by simp [Abs.bot] at hf, fun _ hf => by simp [Abs.bot] at hf,
   fun _ hf => by simp [Abs.bot] at hf, fun _ hf => by simp [Abs.bot] at hf, h.next,
   ⟨fun hn => by simp [Abs.bot] at hn, fun hn => by simp [Abs.bot] at hn⟩⟩

theorem Holds.omeet_left {s0 s : St} {o : Option Abs} (o' : Option Abs) (h : Holds s0 o s) :
    Holds s0 (omeet o o') s := by
  obtain ⟨a, rfl, ha⟩ := h
  cases o' with
  | none => exact ⟨a, rfl, ha⟩
  | some b => exact ⟨a.meet b, rfl, ha.meet_left b⟩

theorem Holds.omeet_right {s0 s : St} {o' : Option Abs} (o : Option Abs) (h : Holds s0 o' s) :
    Holds s0 (omeet o o') s := by
  obtain ⟨b, rfl, hb⟩ := h
  cases o with
  | none => exact ⟨b, rfl, hb⟩
  | some a => exact ⟨a.meet b, rfl, hb.meet_right a⟩

theorem OK.join_left {s0 : St} {r : Res} {p : Post} (q : Post) (h : OK s0 r p) : OK s0 r (p.join q) := by
  unfold OK at *
  cases hr : r.exit <;> simp only [hr] at h ⊢ <;> first | trivial | exact Holds.omeet_left _ h

theorem OK.join_right {s0 : St} {r : Res} {q : Post} (p : Post) (h : OK s0 r q) : OK s0 r (p.join q) := by
  unfold OK at *
  cases hr : r.exit <;> simp only [hr] at h ⊢ <;> first | trivial | exact Holds.omeet_right _ h


/-! primitive steps -/
section prim
variable {s0 s : St} {a : Abs}

theorem sound_assign (f : Field) (h : Sound s0 s a) :
    Sound s0 (s.assign f) { a with clean := a.clean.filter (· ≠ f), fresh := f :: a.fresh } := by
  refine ⟨?_, ?_, ?_, ?_, ?_, ?_, by simpa using h.ro⟩
  · intro g hg
    have hg' := List.mem_filter.mp hg
    have hne : g ≠ f := by simpa using hg'.2
    simp [St.assign, St.setCur, hne, h.clean g hg'.1]
  · intro g hg; simpa [St.assign, St.setCur] using h.valid g hg
  · intro g hg; simpa [St.assign, St.setCur] using h.cvalid g hg
  · intro g hg
    by_cases e : g = f
    · subst e; simp [St.assign, St.setCur, h.next]
    · have : g ∈ a.fresh := by simpa [e] using hg
      simp [St.assign, St.setCur, e, h.fresh g this]
  · intro p hp; simpa [St.assign, St.setCur] using h.known p hp
  · simp only [St.assign, St.setCur]; exact Nat.le_succ_of_le h.next

theorem sound_mutate (h0 : ∀ f, s0.cur f < s0.next) (f : Field) (h : Sound s0 s a) :
    Sound s0 (s.mutate f)
      { a with clean := a.clean.filter (· ≠ f),
               valid := if f ∈ a.fresh then a.valid else a.valid.filter (· ≠ f),
               fresh := f :: a.fresh } := by
  refine ⟨?_, ?_, ?_, ?_, ?_, ?_, by simpa using h.ro⟩
  rotate_left 2
  · intro g hg
    simp only [St.mutate]
    split <;> simpa [St.setCur, St.setSaved] using h.cvalid g hg
  rotate_right 2
  · intro g hg
    have hg' := List.mem_filter.mp hg
    have hne : g ≠ f := by simpa using hg'.2
    simp only [St.mutate]
    split <;> simp [St.setCur, St.setSaved, hne, h.clean g hg'.1]
  · intro g hg
    by_cases e : g = f
    · subst e
      by_cases hf : g ∈ a.fresh
      · have hv : g ∈ a.valid := by simpa [hf] using hg
        have h1 := h.valid g hv
        have h2 := h.fresh g hf
        have h3 := h0 g
        have hne : ¬ (s0.cur g = s.cur g) := by omega
        simp [St.mutate, St.setCur, h1, hne]
      · have : g ∈ a.valid.filter (· ≠ g) := by simpa [hf] using hg
        simp at this
    · have hv : g ∈ a.valid := by
        by_cases hf : f ∈ a.fresh
        · simpa [hf] using hg
        · have : g ∈ a.valid.filter (· ≠ f) := by simpa [hf] using hg
          exact (List.mem_filter.mp this).1
      simp only [St.mutate]
      split <;> simp [St.setCur, St.setSaved, e, h.valid g hv]
  · intro g hg
    by_cases e : g = f
    · subst e
      simp only [St.mutate]
      split <;> simp [St.setCur, St.setSaved, h.next]
    · have : g ∈ a.fresh := by simpa [e] using hg
      simp only [St.mutate]
      split <;> simp [St.setCur, St.setSaved, e, h.fresh g this]
  · intro p hp
    simp only [St.mutate]
    split <;> simpa [St.setCur, St.setSaved] using h.known p hp
  · simp only [St.mutate]
    exact Nat.le_succ_of_le h.next

theorem sound_save (f : Field) (h : Sound s0 s a) :
    Sound s0 (s.setSaved f (s.cur f))
      { a with valid := if f ∈ a.clean then f :: a.valid else a.valid.filter (· ≠ f) } := by
  refine ⟨fun g hg => by simpa [St.setSaved] using h.clean g hg, ?_,
          fun g hg => by simpa [St.setSaved] using h.cvalid g hg,
          fun g hg => by simpa [St.setSaved] using h.fresh g hg,
          fun p hp => by simpa [St.setSaved] using h.known p hp, by simpa [St.setSaved] using h.next,
          by simpa using h.ro⟩
  intro g hg
  by_cases e : g = f
  · subst e
    by_cases hc : g ∈ a.clean
    · simp [St.setSaved, h.clean g hc]
    · have : g ∈ a.valid.filter (· ≠ g) := by simpa [hc] using hg
      simp at this
  · have hv : g ∈ a.valid := by
      by_cases hc : f ∈ a.clean
      · simpa [hc, e] using hg
      · have : g ∈ a.valid.filter (· ≠ f) := by simpa [hc] using hg
        exact (List.mem_filter.mp this).1
    simp [St.setSaved, e, h.valid g hv]

theorem sound_restore (f : Field) (h : Sound s0 s a) :
    Sound s0 (s.setCur f (s.saved f))
      { a with clean := if f ∈ a.valid then f :: a.clean else a.clean.filter (· ≠ f),
               fresh := a.fresh.filter (· ≠ f) } := by
  refine ⟨?_, fun g hg => by simpa [St.setCur] using h.valid g hg,
          fun g hg => by simpa [St.setCur] using h.cvalid g hg, ?_,
          fun p hp => by simpa [St.setCur] using h.known p hp, by simpa [St.setCur] using h.next,
          by simpa using h.ro⟩
  · intro g hg
    by_cases e : g = f
    · subst e
      by_cases hv : g ∈ a.valid
      · simp [St.setCur, h.valid g hv]
      · have : g ∈ a.clean.filter (· ≠ g) := by simpa [hv] using hg
        simp at this
    · have hc : g ∈ a.clean := by
        by_cases hv : f ∈ a.valid
        · simpa [hv, e] using hg
        · have : g ∈ a.clean.filter (· ≠ f) := by simpa [hv] using hg
          exact (List.mem_filter.mp this).1
      simp [St.setCur, e, h.clean g hc]
  · intro g hg
    have hg' := List.mem_filter.mp hg
    have hne : g ≠ f := by simpa using hg'.2
    simp [St.setCur, hne, h.fresh g hg'.1]

theorem sound_saveC (f : Field) (h : Sound s0 s a) :
    Sound s0 { s with copies := fun g => if g = f then s.cur f else s.copies g }
      { a with cvalid := if f ∈ a.clean then f :: a.cvalid else a.cvalid.filter (· ≠ f) } := by
  refine ⟨h.clean, h.valid, ?_, h.fresh, h.known, h.next, h.ro⟩
  intro g hg
  by_cases e : g = f
  · subst e
    by_cases hc : g ∈ a.clean
    · simp [h.clean g hc]
    · have : g ∈ a.cvalid.filter (· ≠ g) := by simpa [hc] using hg
      simp at this
  · have hv : g ∈ a.cvalid := by
      by_cases hc : f ∈ a.clean
      · simpa [hc, e] using hg
      · have : g ∈ a.cvalid.filter (· ≠ f) := by simpa [hc] using hg
        exact (List.mem_filter.mp this).1
    simp [e, h.cvalid g hv]

theorem sound_restoreC (f : Field) (h : Sound s0 s a) :
    Sound s0 (s.setCur f (s.copies f))
      { a with clean := if f ∈ a.cvalid then f :: a.clean else a.clean.filter (· ≠ f),
               fresh := a.fresh.filter (· ≠ f) } := by
  refine ⟨?_, fun g hg => by simpa [St.setCur] using h.valid g hg,
          fun g hg => by simpa [St.setCur] using h.cvalid g hg, ?_,
          fun p hp => by simpa [St.setCur] using h.known p hp, by simpa [St.setCur] using h.next,
          by simpa using h.ro⟩
  · intro g hg
    by_cases e : g = f
    · subst e
      by_cases hv : g ∈ a.cvalid
      · simp [St.setCur, h.cvalid g hv]
      · have : g ∈ a.clean.filter (· ≠ g) := by simpa [hv] using hg
        simp at this
    · have hc : g ∈ a.clean := by
        by_cases hv : f ∈ a.cvalid
        · simpa [hv, e] using hg
        · have : g ∈ a.clean.filter (· ≠ f) := by simpa [hv] using hg
          exact (List.mem_filter.mp this).1
      simp [St.setCur, e, h.clean g hc]
  · intro g hg
    have hg' := List.mem_filter.mp hg
    have hne : g ≠ f := by simpa using hg'.2
    simp [St.setCur, hne, h.fresh g hg'.1]

theorem sound_dropFlag (b : Flag) (v : Bool) (h : Sound s0 s a) : Sound s0 (s.setFlag b v) (a.dropFlag b) := by
  refine ⟨fun g hg => by simpa [St.setFlag] using h.clean g hg, fun g hg => by simpa [St.setFlag] using h.valid g hg,
          fun g hg => by simpa [St.setFlag] using h.cvalid g hg,
          fun g hg => by simpa [St.setFlag] using h.fresh g hg, ?_, by simpa [St.setFlag] using h.next,
          by simpa [Abs.dropFlag] using h.ro⟩
  intro p hp
  have hp' := List.mem_filter.mp hp
  have hne : p.1 ≠ b := by simpa using hp'.2
  simp [St.setFlag, hne, h.known p hp'.1]

theorem sound_setFlag (b : Flag) (v : Bool) (h : Sound s0 s a) : Sound s0 (s.setFlag b v) (a.setFlag b v) := by
  have hd := sound_dropFlag b v h
  refine ⟨hd.clean, hd.valid, hd.cvalid, hd.fresh, ?_, hd.next, hd.ro⟩
  intro p hp
  simp only [Abs.setFlag, List.mem_cons] at hp
  rcases hp with rfl | hp
  · simp [St.setFlag]
  · exact hd.known p hp

theorem flagVal_sound {b : Flag} {v : Bool} (h : Sound s0 s a) (hv : a.flagVal b = some v) : s.flags b = v := by
  unfold Abs.flagVal at hv
  split at hv
  · rename_i ht; cases hv; exact h.known (b, true) ht
  · split at hv
    · rename_i hf; cases hv; exact h.known (b, false) hf
    · cases hv

end prim

theorem OK.norm_of {s0 : St} {st : St} {os : Outcomes} {p : Post} (h : Holds s0 p.norm st) :
    OK s0 ⟨.norm, st, os⟩ p := h

/-- soundness of sequencing: continuing from the normal exit -/
theorem OK.bind {s0 : St} {r r2 : Res} {p : Post} {k : Abs → Post}
    (h : OK s0 r p)
    (hk : ∀ a, p.norm = some a → Sound s0 r.st a → r.exit = .norm → OK s0 r2 (k a))
    (hr : r.exit ≠ .norm → r2 = r) : OK s0 r2 (p.bind k) := by
  unfold Post.bind
  cases hn : p.norm with
  | none =>
    simp only
    by_cases he : r.exit = .norm
    · unfold OK at h; simp only [he] at h
      obtain ⟨a, ha, _⟩ := h
      rw [hn] at ha; cases ha
    · rw [hr he]; exact h
  | some a =>
    simp only
    by_cases he : r.exit = .norm
    · unfold OK at h; simp only [he] at h
      obtain ⟨a', ha', hs⟩ := h
      rw [hn] at ha'; cases ha'
      exact OK.join_right _ (hk a hn hs he)
    · rw [hr he]
      apply OK.join_left
      unfold OK at *
      cases hx : r.exit <;> simp only [hx] at h ⊢ <;> first | trivial | exact h | exact absurd hx he

/-- component of a post for a way of ending -/
def Post.get (p : Post) : Exit → Option Abs
  | .norm => p.norm | .ret => p.ret | .brk => p.brk | .cont => p.cont | .exc => p.exc | .roExc => p.roExc
  | .stuck => none

theorem OK_iff {s0 : St} {r : Res} {p : Post} : OK s0 r p ↔ (r.exit = .stuck ∨ Holds s0 (p.get r.exit) r.st) := by
  unfold OK Post.get
  cases r.exit <;> simp

theorem finThru_ok {s0 : St} {pf : Abs → Post} {o : Option Abs} {k : Exit} {r2 : Res} {x : Abs}
    (ho : o = some x) (hk : k ≠ .stuck) (h2 : OK s0 r2 (pf x)) :
    OK s0 (match r2.exit with | .norm => ⟨k, r2.st, r2.os⟩ | _ => r2) (finThru pf o k) := by
  subst ho
  simp only [finThru]
  rw [OK_iff] at h2
  by_cases he : r2.exit = .norm
  · simp only [he]
    rcases h2 with h2 | h2
    · rw [he] at h2; cases h2
    · rw [he] at h2
      simp only [Post.get] at h2
      rw [OK_iff]; right
      cases k <;> simp only [Post.put, Post.get] <;>
        first | exact absurd rfl hk | exact Holds.omeet_right _ h2
  · have : (match r2.exit with | .norm => (⟨k, r2.st, r2.os⟩ : Res) | _ => r2) = r2 := by
      split
      · rename_i h; exact absurd h he
      · rfl
    rw [this, OK_iff]
    rcases h2 with h2 | h2
    · left; exact h2
    · right
      cases hx : r2.exit <;> rw [hx] at h2 he <;> simp only [Post.get] at h2 <;> cases k <;>
        simp only [Post.put, Post.get] <;>
        first | exact absurd rfl he | exact absurd rfl hk | exact h2 | exact Holds.omeet_left _ h2

theorem invStable_norm {body : Abs → Post} {i x : Abs} (h : invStable body i = true) (hx : (body i).norm = some x) :
    i.le x = true := by
  simp only [invStable, hx, Bool.and_eq_true] at h; exact h.1

theorem invStable_cont {body : Abs → Post} {i x : Abs} (h : invStable body i = true) (hx : (body i).cont = some x) :
    i.le x = true := by
  simp only [invStable, hx, Bool.and_eq_true] at h; exact h.2

theorem invStable_bot (body : Abs → Post) : invStable body Abs.bot = true := by
  simp only [invStable, Bool.and_eq_true]
  constructor <;> split <;> simp [Abs.le, Abs.bot]

theorem run_zero (sc : Stmt) (s : St) (os : Outcomes) : run 0 sc s os = ⟨.stuck, s, os⟩ := by
  unfold run; rfl

/-- **Soundness of the analysis**: whatever way an execution ends, the abstract post-state for that way of
ending exists and describes the concrete final state. -/
theorem post_sound (s0 : St) (h0 : ∀ f, s0.cur f < s0.next) :
    ∀ fuel sc s a os, Sound s0 s a → OK s0 (run fuel sc s os) (post sc a) := by
  intro fuel
  induction fuel using Nat.strongRecOn with
  | _ n ih =>
    intro sc s a os hs
    cases n with
    | zero => rw [run_zero]; trivial
    | succ n =>
      have ihn : ∀ sc s a os, Sound s0 s a → OK s0 (run n sc s os) (post sc a) :=
        ih n (Nat.lt_succ_self n)
      cases sc with
      | skip => simp only [run, post]; exact ⟨a, rfl, hs⟩
      | mark k =>
        simp only [run, post]
        exact ⟨a, rfl, ⟨hs.clean, hs.valid, hs.cvalid, hs.fresh, hs.known, hs.next, hs.ro⟩⟩
      | assign f => simp only [run, post]; exact ⟨_, rfl, sound_assign f hs⟩
      | mutate f => simp only [run, post]; exact ⟨_, rfl, sound_mutate h0 f hs⟩
      | save f => simp only [run, post]; exact ⟨_, rfl, sound_save f hs⟩
      | restore f => simp only [run, post]; exact ⟨_, rfl, sound_restore f hs⟩
      | saveC f => simp only [run, post]; exact ⟨_, rfl, sound_saveC f hs⟩
      | restoreC f => simp only [run, post]; exact ⟨_, rfl, sound_restoreC f hs⟩
      | guard =>
        simp only [run, post]
        cases hi : a.isro with
        | true =>
          have := hs.ro.2 hi
          simp only [this, if_true]
          exact ⟨a, rfl, hs⟩
        | false =>
          simp only [Bool.false_eq_true, if_false]
          cases hn : a.nro with
          | true =>
            have := hs.ro.1 hn
            simp only [this, if_true]
            exact ⟨a, rfl, hs⟩
          | false =>
            simp only [Bool.false_eq_true, if_false]
            cases hr : s.readonly with
            | true => exact ⟨a, rfl, hs⟩
            | false =>
              refine ⟨_, rfl, ⟨hs.clean, hs.valid, hs.cvalid, hs.fresh, hs.known, hs.next, ?_⟩⟩
              exact ⟨fun _ => hr, fun x => by simp [hi] at x⟩
      | raise => simp only [run, post]; exact ⟨a, rfl, hs⟩
      | mayRaise =>
        simp only [run, post]
        split
        · exact ⟨a, rfl, hs⟩
        · exact ⟨a, rfl, hs⟩
      | ret => simp only [run, post]; exact ⟨a, rfl, hs⟩
      | brk => simp only [run, post]; exact ⟨a, rfl, hs⟩
      | cont => simp only [run, post]; exact ⟨a, rfl, hs⟩
      | setFlag b v => simp only [run, post]; exact ⟨_, rfl, sound_setFlag b v hs⟩
      | havoc b => simp only [run, post]; exact ⟨_, rfl, sound_dropFlag b _ hs⟩
      | ifFlag b t e =>
        simp only [run, post]
        cases hv : a.flagVal b with
        | none =>
          simp only
          split
          · exact OK.join_left _ (ihn t s a os hs)
          · exact OK.join_right _ (ihn e s a os hs)
        | some v =>
          have := flagVal_sound hs hv
          cases v with
          | true => simp only [this, if_true]; exact ihn t s a os hs
          | false => simp only [this]; exact ihn e s a os hs
      | seq x y =>
        simp only [run, post]
        apply OK.bind (ihn x s a os hs)
        · intro a' _ hs' he
          simp only [he]
          exact ihn y _ a' _ hs'
        · intro he
          split
          · rename_i h; exact absurd h he
          · rfl
      | choice x y =>
        simp only [run, post]
        split
        · exact OK.join_left _ (ihn x s a _ hs)
        · exact OK.join_right _ (ihn y s a _ hs)
      | loop body els =>
        have key : ∀ i : Abs, invStable (post body) i = true →
            ∀ m, m ≤ n + 1 → ∀ s os, Sound s0 s i →
              OK s0 (run m (.loop body els) s os)
                (Post.join { norm := (post body i).brk, ret := (post body i).ret,
                             exc := (post body i).exc, roExc := (post body i).roExc } (post els i)) := by
          intro i hstab m
          induction m with
          | zero => intro _ s os _; rw [run_zero]; trivial
          | succ m ihm =>
            intro hm s os hsi
            simp only [run]
            split
            · have hb := ih m (by omega) body s i (nextOutcome os).2 hsi
              generalize run m body s (nextOutcome os).2 = r at hb ⊢
              rw [OK_iff] at hb
              cases hx : r.exit <;> rw [hx] at hb <;> simp only [Post.get] at hb <;> simp only []
              case stuck => rw [OK_iff]; left; exact hx
              case norm =>
                rcases hb with hb | hb
                · cases hb
                · obtain ⟨x, hxe, hsx⟩ := hb
                  exact ihm (by omega) _ _ (Sound.of_le (invStable_norm hstab hxe) hsx)
              case cont =>
                rcases hb with hb | hb
                · cases hb
                · obtain ⟨x, hxe, hsx⟩ := hb
                  exact ihm (by omega) _ _ (Sound.of_le (invStable_cont hstab hxe) hsx)
              case brk =>
                rcases hb with hb | hb
                · cases hb
                · apply OK.join_left
                  exact hb
              all_goals
                apply OK.join_left
                rw [OK_iff]; right; rw [hx]
                rcases hb with hb | hb
                · cases hb
                · exact hb
            · exact OK.join_right _ (ih m (by omega) els s i _ hsi)
        simp only [post]
        split
        · rename_i hc
          simp only [Bool.and_eq_true] at hc
          exact key _ hc.2 (n + 1) (Nat.le_refl _) s os (Sound.of_le hc.1 hs)
        · exact key _ (invStable_bot _) (n + 1) (Nat.le_refl _) s os hs.bot
      | tryCatch body h =>
        simp only [run, post]
        have hb := ihn body s a os hs
        generalize run n body s os = r at hb ⊢
        generalize post body a = p at hb ⊢
        rw [OK_iff] at hb
        cases hx : r.exit <;> rw [hx] at hb <;> simp only [Post.get] at hb <;> simp only []
        case stuck => apply OK.join_left; rw [OK_iff]; left; exact hx
        case exc =>
          rcases hb with hb | hb
          · cases hb
          · have := Holds.omeet_left p.roExc hb
            obtain ⟨x, hxe, hsx⟩ := this
            rw [hxe]
            exact OK.join_right _ (ihn h _ x _ hsx)
        case roExc =>
          rcases hb with hb | hb
          · cases hb
          · have := Holds.omeet_right p.exc hb
            obtain ⟨x, hxe, hsx⟩ := this
            rw [hxe]
            exact OK.join_right _ (ihn h _ x _ hsx)
        all_goals
          apply OK.join_left
          rw [OK_iff]; right; rw [hx]
          rcases hb with hb | hb
          · cases hb
          · exact hb
      | tryFinally body fin =>
        simp only [run, post]
        have hb := ihn body s a os hs
        generalize run n body s os = r at hb ⊢
        generalize post body a = p at hb ⊢
        rw [OK_iff] at hb
        cases hx : r.exit <;> rw [hx] at hb <;> simp only [Post.get] at hb <;> simp only []
        case stuck => rw [OK_iff]; left; exact hx
        case norm =>
          rcases hb with hb | hb
          · cases hb
          · obtain ⟨x, hxe, hsx⟩ := hb
            exact OK.join_left _ (finThru_ok hxe (by decide) (ihn fin _ x _ hsx))
        case ret =>
          rcases hb with hb | hb
          · cases hb
          · obtain ⟨x, hxe, hsx⟩ := hb
            exact OK.join_right _ (OK.join_left _ (finThru_ok hxe (by decide) (ihn fin _ x _ hsx)))
        case brk =>
          rcases hb with hb | hb
          · cases hb
          · obtain ⟨x, hxe, hsx⟩ := hb
            exact OK.join_right _ (OK.join_right _ (OK.join_left _ (finThru_ok hxe (by decide) (ihn fin _ x _ hsx))))
        case cont =>
          rcases hb with hb | hb
          · cases hb
          · obtain ⟨x, hxe, hsx⟩ := hb
            exact OK.join_right _ (OK.join_right _ (OK.join_right _
              (OK.join_left _ (finThru_ok hxe (by decide) (ihn fin _ x _ hsx)))))
        case exc =>
          rcases hb with hb | hb
          · cases hb
          · obtain ⟨x, hxe, hsx⟩ := hb
            exact OK.join_right _ (OK.join_right _ (OK.join_right _ (OK.join_right _
              (OK.join_left _ (finThru_ok hxe (by decide) (ihn fin _ x _ hsx))))))
        case roExc =>
          rcases hb with hb | hb
          · cases hb
          · obtain ⟨x, hxe, hsx⟩ := hb
            exact OK.join_right _ (OK.join_right _ (OK.join_right _ (OK.join_right _
              (OK.join_right _ (finThru_ok hxe (by decide) (ihn fin _ x _ hsx))))))
      | scope body =>
        simp only [run, post]
        have hb := ihn body s a os hs
        generalize run n body s os = r at hb ⊢
        generalize post body a = p at hb ⊢
        rw [OK_iff] at hb
        cases hx : r.exit <;> rw [hx] at hb <;> simp only [Post.get] at hb <;> simp only []
        case stuck => rw [OK_iff]; left; exact hx
        case norm =>
          rcases hb with hb | hb
          · cases hb
          · rw [OK_iff]; right; rw [hx]; exact Holds.omeet_left _ hb
        case ret =>
          rcases hb with hb | hb
          · cases hb
          · rw [OK_iff]; right; exact Holds.omeet_right _ hb
        all_goals
          rw [OK_iff]; right; rw [hx]
          rcases hb with hb | hb
          · cases hb
          · exact hb

theorem entry_sound (fs : List Field) (st : St) : Sound st st (Abs.entry fs) :=
  ⟨fun _ _ => rfl, fun _ h => by simp [Abs.entry] at h, fun _ h => by simp [Abs.entry] at h,
   fun _ h => by simp [Abs.entry] at h, fun _ h => by simp [Abs.entry] at h, Nat.le_refl _,
   ⟨fun h => by simp [Abs.entry] at h, fun h => by simp [Abs.entry] at h⟩⟩

theorem entryRO_sound (fs : List Field) (st : St) (hro : st.readonly = true) : Sound st st (Abs.entryRO fs) :=
  ⟨fun _ _ => rfl, fun _ h => by simp [Abs.entryRO] at h, fun _ h => by simp [Abs.entryRO] at h,
   fun _ h => by simp [Abs.entryRO] at h, fun _ h => by simp [Abs.entryRO] at h, Nat.le_refl _,
   ⟨fun h => by simp [Abs.entryRO] at h, fun _ => hro⟩⟩

theorem clean_of_holds {s0 s : St} {fs : List Field} {o : Option Abs} (h : Holds s0 o s)
    (hc : okClean fs o = true) : ∀ f ∈ fs, s.cur f = s0.cur f := by
  obtain ⟨a, rfl, hs⟩ := h
  intro f hf
  simp only [okClean, Abs.allClean, List.all_eq_true, decide_eq_true_eq] at hc
  exact hs.clean f (hc f hf)

theorem disciplined_atomic_aux (fs : List Field) (sc : Stmt) (hd : Disciplined fs sc = true)
    (fuel : Nat) (st : St) (os : Outcomes) (hwf : st.WF)
    (hexc : (run fuel sc st os).exit = .exc ∨ (run fuel sc st os).exit = .roExc) :
    ∀ f ∈ fs, (run fuel sc st os).st.cur f = st.cur f := by
  have hs := post_sound st hwf fuel sc st (Abs.entry fs) os (entry_sound fs st)
  rw [OK_iff] at hs
  have hd' : okClean fs (post sc (Abs.entry fs)).exc = true ∧ okClean fs (post sc (Abs.entry fs)).roExc = true := by
    simp only [Disciplined, Bool.and_eq_true] at hd
    exact hd
  rcases hexc with h | h
  · rw [h] at hs
    rcases hs with hs | hs
    · cases hs
    · exact clean_of_holds hs hd'.1
  · rw [h] at hs
    rcases hs with hs | hs
    · cases hs
    · exact clean_of_holds hs hd'.2

theorem readonly_safe_aux (fs : List Field) (sc : Stmt) (hd : ReadonlySafe fs sc = true)
    (fuel : Nat) (st : St) (os : Outcomes) (hwf : st.WF) (hro : st.readonly = true)
    (hne : (run fuel sc st os).exit ≠ .stuck) :
    ∀ f ∈ fs, (run fuel sc st os).st.cur f = st.cur f := by
  have hs := post_sound st hwf fuel sc st (Abs.entryRO fs) os (entryRO_sound fs st hro)
  simp only [ReadonlySafe, Bool.and_eq_true] at hd
  obtain ⟨⟨⟨⟨⟨h1, h2⟩, h3⟩, h4⟩, h5⟩, h6⟩ := hd
  rw [OK_iff] at hs
  rcases hs with hs | hs
  · exact absurd hs hne
  · cases hx : (run fuel sc st os).exit <;> rw [hx] at hs <;> simp only [Post.get] at hs
    · exact clean_of_holds hs h1
    · exact clean_of_holds hs h2
    · exact clean_of_holds hs h3
    · exact clean_of_holds hs h4
    · exact clean_of_holds hs h5
    · exact clean_of_holds hs h6
    · obtain ⟨a, ha, _⟩ := hs; cases ha

theorem readonly_rejects_aux (sc : Stmt) (hg : guardedFirst sc = true) (fuel : Nat) (st : St) (os : Outcomes)
    (hro : st.readonly = true) :
    ((run fuel sc st os).exit = .roExc ∨ (run fuel sc st os).exit = .stuck) ∧
    (run fuel sc st os).st.cur = st.cur ∧ (run fuel sc st os).st.saved = st.saved ∧
    (run fuel sc st os).os = os := by
  induction fuel generalizing sc st with
  | zero => rw [run_zero]; exact ⟨Or.inr rfl, rfl, rfl, rfl⟩
  | succ n ih =>
    cases sc with
    | guard => simp [run, hro]
    | scope a =>
      have hga : guardedFirst a = true := by simpa [guardedFirst] using hg
      have h := ih a hga st hro
      simp only [run]
      generalize run n a st os = r at h ⊢
      obtain ⟨he, h2, h3, h4⟩ := h
      rcases he with he | he <;> simp only [he] <;> exact ⟨by simp [he], h2, h3, h4⟩
    | seq a b =>
      cases a with
      | mark k =>
        have hgb : guardedFirst b = true := by simpa [guardedFirst] using hg
        simp only [run]
        cases n with
        | zero => simp [run_zero]
        | succ m =>
          simp only [run]
          have h := ih b hgb { st with trace := k :: st.trace } hro
          exact h
      | guard =>
        simp only [run]
        cases n with
        | zero => simp [run_zero]
        | succ m => simp [run, hro]
      | seq x y =>
        have hga : guardedFirst (.seq x y) = true := by simpa [guardedFirst] using hg
        have h := ih (.seq x y) hga st hro
        simp only [run]
        generalize run n (.seq x y) st os = r at h ⊢
        obtain ⟨he, h2, h3, h4⟩ := h
        rcases he with he | he <;> simp only [he] <;> exact ⟨by simp [he], h2, h3, h4⟩
      | scope x =>
        have hga : guardedFirst (.scope x) = true := by simpa [guardedFirst] using hg
        have h := ih (.scope x) hga st hro
        simp only [run]
        generalize run n (.scope x) st os = r at h ⊢
        obtain ⟨he, h2, h3, h4⟩ := h
        rcases he with he | he <;> simp only [he] <;> exact ⟨by simp [he], h2, h3, h4⟩
      | _ => simp [guardedFirst] at hg
    | _ => simp [guardedFirst] at hg

end CssVerif.Mutators
