import CssVerif.Lemmas.MediaSetType
/-!
# After the `mediaType` setter the sequence of an accepted query — comments included — is again accepted

`setMediaType_reparse`: for every query `q` the parser accepts and every known media type, the tokens of the sequence
the setter leaves parse (stand-alone) to exactly that sequence.
-/
set_option linter.unusedSimpArgs false
namespace CssVerif.Media
open CssVerif.Proto

/-- a transition looks at the state only through `s`, and pushes one item that depends on the token only -/
theorem stepQ_only_s (p : Bool) (st st2 st' : QSt) (t : Tok) (hs : st2.s = st.s) (h : stepQ p st t = .cont st') :
    ∃ st2' x, stepQ p st2 t = .cont st2' ∧ st2'.s = st'.s ∧ st'.items = x :: st.items ∧
      st2'.items = x :: st2.items := by
  unfold stepQ at h ⊢
  rw [hs]
  cases hs0 : st.s <;> simp only [hs0] at h ⊢ <;> (repeat' split at h) <;>
    simp_all [QSt.emit] <;> (subst h; simp)

/-- the rest of a parse depends on the state only through `s`: from another state with the same `s` the same items
are appended -/
theorem parseQ_param : ∀ (us : List Tok) (st st2 : QSt) (q : MQ), st2.s = st.s → parseQ st us = .ok q →
    ∃ new mt', q.items = st.items.reverse ++ new ∧
      parseQ st2 us = .ok { items := st2.items.reverse ++ new, mediaType := mt' } ∧
      new.map QItem.toTok = us.filter notS := by
  intro us
  induction us with
  | nil =>
    intro st st2 q hs h
    simp only [parseQ] at h ⊢
    rw [hs]
    cases ha : st.s.accepting <;> simp [ha] at h
    subst h
    exact ⟨[], st2.toMQ.mediaType, by simp [QSt.toMQ], by simp [QSt.toMQ], rfl⟩
  | cons t us ih =>
    intro st st2 q hs h
    rcases special_cases t with hc | hsp | hi | he | hsig
    · simp only [parseQ, hc] at h ⊢
      obtain ⟨new, mt', h1, h2, h3⟩ :=
        ih { st with items := .comment t :: st.items } { st2 with items := .comment t :: st2.items } q hs h
      refine ⟨.comment t :: new, mt', by rw [h1]; simp, by rw [h2]; simp, ?_⟩
      simp [List.filter_cons, notS, hc, QItem.toTok, h3]
    · simp only [parseQ, hsp] at h ⊢
      obtain ⟨new, mt', h1, h2, h3⟩ := ih st st2 q hs h
      exact ⟨new, mt', h1, h2, by simp [List.filter_cons, notS, hsp, h3]⟩
    · simp [parseQ, hi] at h
    · simp [parseQ, he] at h
    · rw [parseQ_cons_sig st t us hsig] at h
      rw [parseQ_cons_sig st2 t us hsig]
      cases hst : stepQ false st t with
      | cont st' =>
        rw [hst] at h
        obtain ⟨st2', x, e1, e2, e3, e4⟩ := stepQ_only_s false st st2 st' t hs hst
        obtain ⟨y, hy1, hy2⟩ := stepQ_emit false st st' t hst
        have hxy : x = y := by rw [e3] at hy1; exact (List.cons.inj hy1).1
        rw [e1]
        obtain ⟨new, mt', h1, h2, h3⟩ := ih st' st2' q e2 h
        refine ⟨x :: new, mt', by rw [h1, e3]; simp, by simp only [h2, e4]; simp, ?_⟩
        have hn : notS t = true := by
          cases ht : t.typ <;> simp [ht, TT.special] at hsig <;> simp [notS, ht]
        simp [List.filter_cons, hn, h3, hxy, hy2]
      | noMatch => rw [hst] at h; cases h
      | missing => rw [hst] at h; cases h
      | unsupported => rw [hst] at h; cases h

/-- the loop of the setter on a sequence that starts with passed-over items -/
theorem setTypeGo_append (mt : Cps) (t : Tok) (post : List QItem) (hs : isSetterSkipWord t.val = false) :
    ∀ pre : List QItem, (∀ i ∈ pre, passedItem i = true) →
    setTypeGo mt (pre ++ QItem.tok t :: post)
      = some (pre ++ (if t.typ = .ident then [typeItem mt] else [typeItem mt, setterAndItem, QItem.tok t]) ++ post) := by
  intro pre
  induction pre with
  | nil => intro _; by_cases hi : t.typ = .ident <;> simp [setTypeGo, hs, hi]
  | cons x pre ih =>
    intro hp
    have hx := hp x (List.mem_cons_self ..)
    have := ih (fun i hi => hp i (List.mem_cons_of_mem _ hi))
    cases x with
    | tok t' => simp only [passedItem] at hx; simp [setTypeGo, hx, this]
    | comment t' => simp [setTypeGo, this]
    | value k t' => simp [setTypeGo, this]

theorem typeTok_sig (mt : Cps) : (typeTok mt).typ.special = false := rfl
theorem setterAndTok_sig : setterAndTok.typ.special = false := rfl

theorem passed_reverse (l : List QItem) (h : ∀ i ∈ l, passedItem i = true) : ∀ i ∈ l.reverse, passedItem i = true :=
  fun i hi => h i (List.mem_reverse.mp hi)

/-- the decisive token is the media type: it is replaced -/
theorem reparse_typed (mt : Cps) (hm : isMediaType mt = true) (st st' : QSt) (t : Tok) (us : List Tok) (q : MQ)
    (hs : st.s = .start ∨ st.s = .afterPrefix) (hp : ∀ i ∈ st.items, passedItem i = true) (htr : TracedI st)
    (ht1 : t.typ = .ident) (ht2 : isMediaType t.val = true)
    (hst' : st'.s = .afterType) (hitems : st'.items = .tok t :: st.items) (h : parseQ st' us = .ok q) :
    ∃ r mt', setTypeGo mt q.items = some r ∧ parseQ {} (r.map QItem.toTok) = .ok { items := r, mediaType := mt' } := by
  have hnp : isPrefixWord mt = false := isPrefixWord_of_mediaType mt hm
  obtain ⟨st3, hstep, h3s, h3i⟩ : ∃ st3, stepQ false st.core (typeTok mt) = .cont st3 ∧ st3.s = .afterType ∧
      st3.items = .tok (typeTok mt) :: st.items := by
    rcases hs with hs | hs <;>
      exact ⟨_, by simp [stepQ, QSt.core, hs, typeTok, hm, hnp]; rfl, rfl, rfl⟩
  obtain ⟨new, mt', h1, h2, h3⟩ := parseQ_param us st' st3 q (by rw [h3s, hst']) h
  have hskip : isSetterSkipWord t.val = false := by
    rw [isSetterSkipWord_eq]; exact isPrefixWord_of_mediaType _ ht2
  have hq : q.items = st.items.reverse ++ QItem.tok t :: new := by rw [h1, hitems]; simp
  have hr := setTypeGo_append mt t new hskip st.items.reverse (passed_reverse _ hp)
  simp only [ht1, if_true] at hr
  refine ⟨_, mt', by rw [hq]; exact hr, ?_⟩
  have htoks : (st.items.reverse ++ [typeItem mt] ++ new).map QItem.toTok
      = st.toks ++ typeTok mt :: us.filter notS := by
    simp [QSt.toks, typeItem, typeTok, QItem.toTok, h3]
  rw [htoks, htr, parseQ_cons_sig _ _ _ (typeTok_sig mt), hstep]
  simp only []
  rw [parseQ_filter_S, h2, h3i]
  simp [typeItem, typeTok]

/-- the decisive token is the parenthesis of a leading expression: `type and` goes in front -/
theorem reparse_insert (mt : Cps) (hm : isMediaType mt = true) (st st' : QSt) (t : Tok) (us : List Tok) (q : MQ)
    (hs : st.s = .start) (hp : ∀ i ∈ st.items, passedItem i = true) (htr : TracedI st)
    (ht1 : t.typ = .char) (ht2 : t.val = cOpen)
    (hst' : st'.s = .afterOpen) (hitems : st'.items = .tok t :: st.items) (h : parseQ st' us = .ok q) :
    ∃ r mt', setTypeGo mt q.items = some r ∧ parseQ {} (r.map QItem.toTok) = .ok { items := r, mediaType := mt' } := by
  have hnp : isPrefixWord mt = false := isPrefixWord_of_mediaType mt hm
  have hsig : t.typ.special = false := by rw [ht1]; rfl
  obtain ⟨sa, hstepa, has, hai⟩ : ∃ sa, stepQ false st.core (typeTok mt) = .cont sa ∧ sa.s = .afterType ∧
      sa.items = .tok (typeTok mt) :: st.items :=
    ⟨_, by simp [stepQ, QSt.core, hs, typeTok, hm, hnp]; rfl, rfl, rfl⟩
  obtain ⟨sb, hstepb, hbs, hbi⟩ : ∃ sb, stepQ false sa setterAndTok = .cont sb ∧ sb.s = .afterAnd ∧
      sb.items = .tok setterAndTok :: sa.items :=
    ⟨_, by simp [stepQ, has, setterAndTok, setterAnd_isAnd]; rfl, rfl, rfl⟩
  obtain ⟨sc, hstepc, hcs, hci⟩ : ∃ sc, stepQ false sb t = .cont sc ∧ sc.s = .afterOpen ∧
      sc.items = .tok t :: sb.items :=
    ⟨_, by simp [stepQ, hbs, charIs, ht1, ht2]; rfl, rfl, rfl⟩
  obtain ⟨new, mt', h1, h2, h3⟩ := parseQ_param us st' sc q (by rw [hcs, hst']) h
  have hskip : isSetterSkipWord t.val = false := by rw [ht2]; exact open_not_skip
  have hq : q.items = st.items.reverse ++ QItem.tok t :: new := by rw [h1, hitems]; simp
  have hr := setTypeGo_append mt t new hskip st.items.reverse (passed_reverse _ hp)
  have hni : ¬ t.typ = .ident := by rw [ht1]; decide
  simp only [hni, if_false] at hr
  refine ⟨_, mt', by rw [hq]; exact hr, ?_⟩
  have htoks : (st.items.reverse ++ [typeItem mt, setterAndItem, QItem.tok t] ++ new).map QItem.toTok
      = st.toks ++ typeTok mt :: setterAndTok :: t :: us.filter notS := by
    simp [QSt.toks, typeItem, typeTok, setterAndItem, setterAndTok, QItem.toTok, h3]
  rw [htoks, htr, parseQ_cons_sig _ _ _ (typeTok_sig mt), hstepa]
  simp only []
  rw [parseQ_cons_sig _ _ _ setterAndTok_sig, hstepb]
  simp only []
  rw [parseQ_cons_sig _ _ _ hsig, hstepc]
  simp only []
  rw [parseQ_filter_S, h2, hci, hbi, hai]
  simp [typeItem, typeTok, setterAndItem, setterAndTok]

theorem setType_reparse_gen (mt : Cps) (hm : isMediaType mt = true) : ∀ (us : List Tok) (st : QSt) (q : MQ),
    parseQ st us = .ok q → (st.s = .start ∨ st.s = .afterPrefix) → (∀ i ∈ st.items, passedItem i = true) →
    TracedI st →
    ∃ r mt', setTypeGo mt q.items = some r ∧ parseQ {} (r.map QItem.toTok) = .ok { items := r, mediaType := mt' } := by
  intro us
  induction us with
  | nil =>
    intro st q h hs _ _
    simp only [parseQ] at h
    rcases hs with hs | hs <;> simp [hs, QS.accepting] at h
  | cons t us ih =>
    intro st q h hs hp htr
    rcases special_cases t with hc | hsp | hi | he | hsig
    · simp only [parseQ, hc] at h
      refine ih _ q h hs ?_ (traced_comment st t hc htr)
      intro i hi
      simp only [List.mem_cons] at hi
      rcases hi with rfl | hi
      · rfl
      · exact hp i hi
    · simp only [parseQ, hsp] at h
      exact ih st q h hs hp htr
    · simp [parseQ, hi] at h
    · simp [parseQ, he] at h
    · rw [parseQ_cons_sig st t us hsig] at h
      cases hst : stepQ false st t with
      | noMatch => rw [hst] at h; cases h
      | missing => rw [hst] at h; cases h
      | unsupported => rw [hst] at h; cases h
      | cont st' =>
        rw [hst] at h
        simp only [] at h
        have htr' := traced_step false st st' t hsig htr hst
        rcases hs with hs | hs
        · -- at the start: `only` / `not`, the media type, or the parenthesis of a leading expression
          by_cases h1 : t.typ = .ident ∧ isPrefixWord t.val = true
          · have e : st' = { st.emit .afterPrefix (.tok t) with notSimple := true } := by
              have := hst; simp [stepQ, hs, h1] at this; exact this.symm
            refine ih st' q h (.inr (by rw [e]; rfl)) ?_ htr'
            intro i hi
            rw [e] at hi
            simp only [QSt.emit, List.mem_cons] at hi
            rcases hi with rfl | hi
            · simp [passedItem, isSetterSkipWord_eq, h1.2]
            · exact hp i hi
          · by_cases h2 : t.typ = .ident ∧ isMediaType t.val = true
            · have h1' : isPrefixWord t.val = false := isPrefixWord_of_mediaType _ h2.2
              have e : st' = { st.emit .afterType (.tok t) with mtype := some t.val, stopIf := false || st.stopIf } := by
                have := hst; simp [stepQ, hs, h1', h2] at this; exact this.symm
              exact reparse_typed mt hm st st' t us q (.inl hs) hp htr h2.1 h2.2 (by rw [e]; rfl) (by rw [e]; rfl) h
            · by_cases h3 : charIs t cOpen = true
              · by_cases h4 : t.typ = .char
                · have e : st' = st.emit .afterOpen (.tok t) := by
                    have := hst; simp [stepQ, hs, h1, h2, h3, h4] at this; exact this.symm
                  have hv : t.val = cOpen := by simpa [charIs] using h3
                  exact reparse_insert mt hm st st' t us q hs hp htr h4 hv (by rw [e]; rfl) (by rw [e]; rfl) h
                · have := hst; simp [stepQ, hs, h1, h2, h3, h4] at this
              · have := hst; simp [stepQ, hs, h1, h2, h3] at this
        · -- after `only` / `not`: the media type
          by_cases h2 : t.typ = .ident ∧ isMediaType t.val = true
          · have e : st' = { st.emit .afterType (.tok t) with mtype := some t.val, stopIf := false || st.stopIf } := by
              have := hst; simp [stepQ, hs, h2] at this; exact this.symm
            exact reparse_typed mt hm st st' t us q (.inr hs) hp htr h2.1 h2.2 (by rw [e]; rfl) (by rw [e]; rfl) h
          · have := hst; simp [stepQ, hs, h2] at this

/-- for EVERY query the parser accepts (comments at any place) and every known media type: the loop of the setter
finds its place, and the tokens of the sequence it leaves parse, stand-alone, to exactly that sequence -/
theorem setMediaType_reparse (ts : List Tok) (q : MQ) (h : parseQ {} ts = .ok q) (raising : Bool) (mt : Cps)
    (hm : isMediaType mt = true) :
    ∃ mt', parseQ {} (q.setMediaType raising mt).1.toks
      = .ok { items := (q.setMediaType raising mt).1.items, mediaType := mt' } := by
  obtain ⟨r, mt', h1, h2⟩ := setType_reparse_gen mt hm ts {} q h (.inl rfl) (fun i hi => nomatch hi) traced_init
  have hc : Gen.C17Media.mediaTypes.contains (normalize mt) = true := hm
  refine ⟨mt', ?_⟩
  simp only [MQ.setMediaType, hc, if_true, h1, Option.getD_some, MQ.toks]
  exact h2

end CssVerif.Media
