import CssVerif.Lemmas.ValidateGen
import CssVerif.Model.Css21Colors
/-!
Comparing template languages segment by segment (C13, colour grammar): `leT t u` — same shape, every segment's
set of `t` inside the one of `u` — implies that everything `t` matches, `u` matches; `coverT A B` — every template
of `A` is below one of `B` — implies `member A s → member B s`. With it the 690 templates of the registered colour
patterns are compared with the CSS 2.1 / CSS Color 3 reference without asking for the same spelling of the sets.
-/
namespace CssVerif.Validate
open CssVerif.Css21

def leSeg : Seg → Seg → Bool
  | .one a, .one b => a == b || a.all b.contains
  | .many a, .many b => a == b || a.all b.contains
  | _, _ => false

def leT : Template → Template → Bool
  | [], [] => true
  | a :: t, b :: u => leSeg a b && leT t u
  | _, _ => false

theorem contains_of_all {a b : List Nat} (h : (a == b || a.all b.contains) = true) {x : Nat}
    (hx : a.contains x = true) : b.contains x = true := by
  rw [Bool.or_eq_true] at h
  rcases h with h | h
  · have := eq_of_beq h
    subst this
    exact hx
  · simp only [List.all_eq_true, List.contains_iff_mem] at *
    exact h x hx

theorem tmatch_mono : ∀ (t u : Template) (s : Str), leT t u = true → tmatch t s = true → tmatch u s = true := by
  intro t
  induction t with
  | nil =>
    intro u s hle hm
    cases u with
    | nil => exact hm
    | cons _ _ => simp [leT] at hle
  | cons a t ih =>
    intro u s hle hm
    cases u with
    | nil => simp [leT] at hle
    | cons b u =>
      simp only [leT, Bool.and_eq_true] at hle
      obtain ⟨hab, htu⟩ := hle
      cases a with
      | one ma =>
        cases b with
        | many _ => simp [leSeg] at hab
        | one mb =>
          simp only [leSeg] at hab
          obtain ⟨x, r, rfl, hx, hr⟩ := (tmatch_one_cons ma t s).1 hm
          exact (tmatch_one_cons mb u _).2 ⟨x, r, rfl, contains_of_all hab hx, ih u r htu hr⟩
      | many ma =>
        cases b with
        | one _ => simp [leSeg] at hab
        | many mb =>
          simp only [leSeg] at hab
          induction s with
          | nil =>
            rw [tmatch_many_nil] at hm ⊢
            exact ih u [] htu hm
          | cons x r ihs =>
            rw [tmatch_many_cons, Bool.or_eq_true, Bool.and_eq_true] at hm ⊢
            rcases hm with hm | ⟨hx, hm⟩
            · exact Or.inl (ih u _ htu hm)
            · exact Or.inr ⟨contains_of_all hab hx, ihs hm⟩

/-- every template of `A` is, segment by segment, inside a template of `B` -/
def coverT (A B : List Template) : Bool := A.all fun a => B.any fun b => leT a b

theorem member_cover (A B : List Template) (h : coverT A B = true) (s : Str) (hm : member A s = true) :
    member B s = true := by
  simp only [member, List.any_eq_true] at *
  obtain ⟨t, ht, hmt⟩ := hm
  simp only [coverT, List.all_eq_true, List.any_eq_true] at h
  obtain ⟨b, hb, hle⟩ := h t ht
  exact ⟨b, hb, tmatch_mono t b s hle hmt⟩

/-- the templates with every optional sign `[-+]` narrowed to `-`: the values without a `+` sign anywhere (known
finding `C13-plus-sign`, what is left of it: the components of `rgb()` / `rgba()` / `hsl()`) -/
def plusFree (T : List Template) : List Template :=
  T.map fun t => t.map fun
    | .one ms => if ms == [45, 43] then .one [45] else .one ms
    | s => s

/-- the reference the registered colour patterns are compared with: the property's own keywords, CSS 2.1 `<color>`
and the CSS Color 3 additions, white space read as Python's ASCII `\\s` -/
def colorUpper (extra : List String) : List Template := kws extra ++ color21 wsRe ++ color3Ext wsRe

/-- what the registered colour patterns must accept: CSS 2.1 `<color>` without system colours and without `+` -/
def colorLower (extra : List String) : List Template := plusFree (colorBasic wsCss) ++ kws extra

/-- decidable: the pattern is template-shaped and accepts all of `lower` -/
def colorCovers (r : Re) (lower : List Template) : Bool :=
  match r.templatesE with
  | some T => coverT lower T
  | none => false

theorem colorCovers_spec (r : Re) (lower : List Template) (h : colorCovers r lower = true) (s : Str)
    (hs : s.getLast? ≠ some 10) : member lower s = true → accepts r s = true := by
  unfold colorCovers at h
  cases hT : r.templatesE with
  | none => simp [hT] at h
  | some T =>
    simp only [hT] at h
    rw [Re.templatesE_spec_noLF r T hT s hs]
    exact member_cover _ _ h s

/-- decidable: the pattern is template-shaped and everything it accepts is in `upper` -/
def colorWithin (r : Re) (upper : List Template) : Bool :=
  match r.templatesE with
  | some T => coverT T upper
  | none => false

theorem colorWithin_spec (r : Re) (upper : List Template) (h : colorWithin r upper = true) (s : Str)
    (hs : s.getLast? ≠ some 10) : accepts r s = true → member upper s = true := by
  unfold colorWithin at h
  cases hT : r.templatesE with
  | none => simp [hT] at h
  | some T =>
    simp only [hT] at h
    rw [Re.templatesE_spec_noLF r T hT s hs]
    exact member_cover _ _ h s

/-- the properties whose registered pattern is the one of `background-color` -/
def sameAsBackgroundColor : List String :=
  ["border-top-color", "border-right-color", "border-bottom-color", "border-left-color"]

end CssVerif.Validate
