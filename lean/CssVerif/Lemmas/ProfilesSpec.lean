import CssVerif.Lemmas.Profiles
import CssVerif.Model.ProfilesSpec
/-!
# Lemmas for C14 — the answers of the queries as explicit functions of the contents

`contents_determine` says that two registries with the same contents answer alike. `Model/ProfilesSpec.lean` writes
the function down (`specReg`); `obs_spec`: a registry that satisfies the invariant cannot be told from `specReg` of
its contents. (This is the "canonical registry" of the harness oracle O2, as a function.)
-/
namespace CssVerif.Profiles

def Entry.toS (e : Entry) : SEntry := (e.name, e.props, e.macros)

/-- the contents in the form `specReg` takes -/
def scontents (r : Reg) : List SEntry := (contents r).map Entry.toS

theorem scontents_eq (r : Reg) : scontents r = r.names.map fun n => (n, propsOf r.raw n, macrosOf r.raw n) := by
  simp [scontents, contents, List.map_map, Function.comp_def, Entry.toS]

theorem specEnv_contents (cfg : Cfg) (r : Reg) : specEnv cfg (scontents r) = envOf cfg.base r.raw r.names := by
  rw [scontents_eq]
  unfold specEnv envOf
  rw [List.foldl_map]

theorem dget_map_name {α : Type} (names : List Str) (g : Str → α) (k : Str) (hk : k ∈ names) :
    dget (names.map fun n => (n, g n)) k = some (g k) := by
  induction names with
  | nil => cases hk
  | cons a t ih =>
    simp only [List.map_cons, dget]
    by_cases h : a = k
    · subst h; simp
    · simp only [h, if_false]
      cases List.mem_cons.mp hk with
      | inl e => exact absurd e.symm h
      | inr e => exact ih e

theorem specCompiled_contents (cfg : Cfg) (r : Reg) :
    specCompiled cfg (scontents r)
      = r.names.map fun n => (n, specTable cfg (envOf cfg.base r.raw r.names) (propsOf r.raw n)) := by
  unfold specCompiled
  rw [specEnv_contents, scontents_eq, List.map_map]
  rfl

theorem scontents_names (r : Reg) : (scontents r).map (·.1) = r.names := by
  rw [scontents_eq]
  simp [List.map_map, Function.comp_def]

/-- a registry that satisfies the invariant is, for every query, the registry computed from its contents -/
theorem obs_spec (cfg : Cfg) (r : Reg) (hinv : Inv cfg r) : obs r = obs (specReg cfg (scontents r) r.default) := by
  have hcomp : r.compiled = specCompiled cfg (scontents r) := by
    rw [specCompiled_contents]
    apply dict_ext
    · rw [hinv.ckeys]
      simp [dkeys, List.map_map, Function.comp_def]
    · rw [hinv.ckeys]; exact hinv.nodup
    · intro k hk
      rw [hinv.ckeys] at hk
      obtain ⟨ex, h1, h2⟩ := hinv.cvals k hk
      rw [h2, dget_map_name r.names _ k hk]
      simp [specTable, h1]
  simp only [obs, specReg, scontents_names, Obs.mk.injEq, true_and]
  refine ⟨hcomp, ?_⟩
  rw [hinv.known, hcomp]
  exact ⟨rfl, trivial⟩

end CssVerif.Profiles
