import CssVerif.Lemmas.TokLex
/-!
# Locality of `Re.ms` and the append lemma of the tokenizer loop

* `ms_local`: for a pattern without `$`, the successes of `r` on `s ++ b` that end inside `s` are exactly the
  successes of `r` on `s`, in the same order (a match never depends on what follows its end).
* `loop_append`: when a token boundary of `a ++ b` falls at `|a|`, the tokens of `a ++ b` are the tokens of `a`
  followed by the tokens of `b` (positions continued).
-/
namespace CssVerif.Tok
open CssVerif CssVerif.Gen.C05

/-! ## locality of `Re.ms` -/

/-- the pattern does not contain `$` -/
def eolFree : Re → Bool
  | .eps => true
  | .cls _ _ => true
  | .seq a b => eolFree a && eolFree b
  | .alt a b => eolFree a && eolFree b
  | .star a _ => eolFree a
  | .rep a _ _ _ => eolFree a
  | .eol => false

/-- the successes on `s ++ b` that end inside `s` are the successes on `s`, in order -/
def Local (f : Cps → List Nat) : Prop :=
  ∀ s b, (f (s ++ b)).filter (fun l => decide (l ≤ s.length)) = f s

theorem filter_flatMap_local (L : List Nat) (n : Nat) (F G : Nat → List Nat)
    (h1 : ∀ l ∈ L, l ≤ n → (F l).filter (fun x => decide (x ≤ n)) = G l)
    (h2 : ∀ l ∈ L, ¬ l ≤ n → (F l).filter (fun x => decide (x ≤ n)) = []) :
    (L.flatMap F).filter (fun x => decide (x ≤ n)) = (L.filter (fun l => decide (l ≤ n))).flatMap G := by
  induction L with
  | nil => rfl
  | cons a t ih =>
    have iht := ih (fun l hl => h1 l (List.mem_cons_of_mem _ hl)) (fun l hl => h2 l (List.mem_cons_of_mem _ hl))
    simp only [List.flatMap_cons, List.filter_append, iht]
    by_cases ha : a ≤ n
    · rw [h1 a (by simp) ha, List.filter_cons_of_pos (by simpa using ha), List.flatMap_cons]
    · rw [h2 a (by simp) ha, List.filter_cons_of_neg (by simpa using ha)]; rfl

theorem filter_map_add_le (X : List Nat) (l1 n : Nat) (h : l1 ≤ n) :
    (X.map (l1 + ·)).filter (fun x => decide (x ≤ n)) =
      (X.filter (fun x => decide (x ≤ n - l1))).map (l1 + ·) := by
  induction X with
  | nil => rfl
  | cons a t ih =>
    simp only [List.map_cons, List.filter_cons, ih]
    have hiff : (l1 + a ≤ n) ↔ (a ≤ n - l1) := by omega
    by_cases ha : a ≤ n - l1
    · simp [ha, hiff.mpr ha]
    · simp [ha, mt hiff.mp ha]

theorem filter_map_add_gt (X : List Nat) (l1 n : Nat) (h : ¬ l1 ≤ n) :
    (X.map (l1 + ·)).filter (fun x => decide (x ≤ n)) = [] := by
  apply List.filter_eq_nil_iff.mpr
  intro x hx
  simp only [List.mem_map] at hx
  obtain ⟨y, _, rfl⟩ := hx
  simp; omega

theorem local_cont {X : Cps → List Nat} (hX : Local X) (s b : Cps) (l1 : Nat) (h : l1 ≤ s.length) :
    ((X ((s ++ b).drop l1)).map (l1 + ·)).filter (fun x => decide (x ≤ s.length)) =
      (X (s.drop l1)).map (l1 + ·) := by
  rw [filter_map_add_le _ _ _ h, List.drop_append_of_le_length h]
  have := hX (s.drop l1) b
  rw [List.length_drop] at this
  rw [this]

theorem filter_comm' (p q : Nat → Bool) (L : List Nat) : (L.filter q).filter p = (L.filter p).filter q := by
  simp only [List.filter_filter, Bool.and_comm]

theorem local_starMs {f : Cps → List Nat} (hf : Local f) (g : Bool) : ∀ fuel, Local (Re.starMs f g fuel) := by
  intro fuel
  induction fuel with
  | zero => intro s b; simp [Re.starMs]
  | succ n ih =>
    intro s b
    have key : List.filter (fun x => decide (x ≤ s.length))
        (((f (s ++ b)).filter (· > 0)).flatMap fun l1 => (Re.starMs f g n ((s ++ b).drop l1)).map (l1 + ·)) =
        ((f s).filter (· > 0)).flatMap fun l1 => (Re.starMs f g n (s.drop l1)).map (l1 + ·) := by
      rw [filter_flatMap_local _ s.length _ (fun l1 => (Re.starMs f g n (s.drop l1)).map (l1 + ·))
        (fun l _ hl => local_cont ih s b l hl) (fun l _ hl => filter_map_add_gt _ _ _ hl)]
      rw [filter_comm', hf s b]
    simp only [Re.starMs]
    cases g with
    | true =>
      simp only [if_true, List.filter_append, key]
      simp
    | false =>
      simp only [Bool.false_eq_true, if_false, List.filter_cons, key]
      simp

theorem local_repMs {f : Cps → List Nat} (hf : Local f) (g : Bool) : ∀ n m, Local (Re.repMs f g m n) := by
  intro n
  induction n with
  | zero =>
    intro m s b
    simp only [Re.repMs]
    split <;> simp
  | succ n ih =>
    intro m s b
    have key : List.filter (fun x => decide (x ≤ s.length))
        ((f (s ++ b)).flatMap fun l1 => (Re.repMs f g (m - 1) n ((s ++ b).drop l1)).map (l1 + ·)) =
        (f s).flatMap fun l1 => (Re.repMs f g (m - 1) n (s.drop l1)).map (l1 + ·) := by
      rw [filter_flatMap_local _ s.length _ (fun l1 => (Re.repMs f g (m - 1) n (s.drop l1)).map (l1 + ·))
        (fun l _ hl => local_cont (ih (m - 1)) s b l hl) (fun l _ hl => filter_map_add_gt _ _ _ hl)]
      rw [hf s b]
    simp only [Re.repMs]
    by_cases hm : m = 0
    · subst hm
      cases g with
      | true => simp only [if_true, List.filter_append, key]; simp
      | false => simp only [if_true, Bool.false_eq_true, if_false, List.filter_cons, key]; simp
    · simp only [hm, if_false, key]

theorem starMs_fuel {f : Cps → List Nat} (hf : Re.Bounded f) (g : Bool) : ∀ (fuel fuel' : Nat) (s : Cps),
    s.length < fuel → s.length < fuel' → Re.starMs f g fuel s = Re.starMs f g fuel' s := by
  intro fuel
  induction fuel with
  | zero => intro _ _ h; omega
  | succ n ih =>
    intro fuel' s h1 h2
    obtain ⟨k, rfl⟩ : ∃ k, fuel' = k + 1 := ⟨fuel' - 1, by omega⟩
    simp only [Re.starMs]
    have : (((f s).filter (· > 0)).flatMap fun l1 => (Re.starMs f g n (s.drop l1)).map (l1 + ·)) =
        (((f s).filter (· > 0)).flatMap fun l1 => (Re.starMs f g k (s.drop l1)).map (l1 + ·)) := by
      apply flatMap_congr'
      intro l1 hl1
      simp only [List.mem_filter, decide_eq_true_eq] at hl1
      have hb := hf s l1 hl1.1
      rw [ih k (s.drop l1) (by simp only [List.length_drop]; omega) (by simp only [List.length_drop]; omega)]
    rw [this]

/-- **locality**: for a pattern without `$`, the successes on `s ++ b` that end inside `s` are exactly the
successes on `s`, in the same order -/
theorem ms_local : ∀ r : Re, eolFree r = true → Local r.ms := by
  intro r
  induction r with
  | eps => intro _ s b; simp [Re.ms]
  | cls neg rs =>
    intro _ s b
    cases s with
    | nil =>
      cases b with
      | nil => simp [Re.ms]
      | cons c t => simp only [List.nil_append, Re.ms]; split <;> simp
    | cons c t => simp only [List.cons_append, Re.ms]; split <;> simp
  | seq a b iha ihb =>
    intro h s t
    simp only [eolFree, Bool.and_eq_true] at h
    simp only [Re.ms]
    rw [filter_flatMap_local _ s.length _ (fun l1 => (b.ms (s.drop l1)).map (l1 + ·))
      (fun l _ hl => local_cont (ihb h.2) s t l hl) (fun l _ hl => filter_map_add_gt _ _ _ hl), iha h.1 s t]
  | alt a b iha ihb =>
    intro h s t
    simp only [eolFree, Bool.and_eq_true] at h
    simp only [Re.ms, List.filter_append, iha h.1 s t, ihb h.2 s t]
  | star a g iha =>
    intro h s t
    simp only [eolFree] at h
    simp only [Re.ms]
    rw [local_starMs (iha h) g _ s t]
    exact starMs_fuel (Re.ms_bounded a) g _ _ s (by simp; omega) (by omega)
  | rep a m n g iha =>
    intro h s t
    simp only [eolFree] at h
    simp only [Re.ms]
    exact local_repMs (iha h) g n m s t
  | eol => intro h; simp [eolFree] at h

theorem productions_eolFree : ∀ p ∈ productions, eolFree p.2 = true := by decide

theorem head?_filter_of_head {L : List Nat} {p : Nat → Bool} {l : Nat} (h : L.head? = some l) (hp : p l = true) :
    (L.filter p).head? = some l := by
  cases L with
  | nil => simp at h
  | cons a t => simp only [List.head?_cons, Option.some.injEq] at h; subst h; simp [hp]

/-- a first match on `s ++ b` that ends inside `s` is the first match on `s` -/
theorem first_of_append {r : Re} (hr : eolFree r = true) {s b : Cps} {l : Nat} (h : r.first (s ++ b) = some l)
    (hl : l ≤ s.length) : r.first s = some l := by
  unfold Re.first at h ⊢
  rw [← ms_local r hr s b]
  exact head?_filter_of_head h (by simpa using hl)

/-- no match on `s ++ b` — none on `s` -/
theorem first_none_of_append {r : Re} (hr : eolFree r = true) {s b : Cps} (h : r.first (s ++ b) = none) :
    r.first s = none := by
  unfold Re.first at h ⊢
  rw [← ms_local r hr s b]
  have : r.ms (s ++ b) = [] := by
    cases hm : r.ms (s ++ b) with
    | nil => rfl
    | cons x xs => rw [hm] at h; simp at h
  rw [this]; rfl

/-- when no success on `s ++ b` crosses the end of `s`, the successes are those on `s` -/
theorem ms_append_of_noCross {r : Re} (hr : eolFree r = true) {s b : Cps}
    (h : ∀ l ∈ r.ms (s ++ b), l ≤ s.length) : r.ms (s ++ b) = r.ms s := by
  rw [← ms_local r hr s b]
  exact (List.filter_eq_self.mpr (fun l hl => by simpa using h l hl)).symm

/-! ## FUNCTION takes over where IDENT is followed by `(` -/

theorem ms_seq_assoc (x y z : Re) (s : Cps) : (Re.seq (Re.seq x y) z).ms s = (Re.seq x (Re.seq y z)).ms s := by
  simp only [Re.ms, List.flatMap_assoc, List.flatMap_map, List.map_flatMap, List.map_map, List.drop_drop]
  apply flatMap_congr'
  intro l1 _
  apply flatMap_congr'
  intro l2 _
  apply List.map_congr_left
  intro l3 _
  simp only [Function.comp]
  omega

/-- `a b c d` = `(a b c) d` for the successes -/
theorem ms_seq4 (a b c d : Re) (s : Cps) :
    (Re.seq a (Re.seq b (Re.seq c d))).ms s =
      ((Re.seq a (Re.seq b c)).ms s).flatMap fun l => (d.ms (s.drop l)).map (l + ·) := by
  have h1 : (Re.seq a (Re.seq b (Re.seq c d))).ms s = (Re.seq (Re.seq a b) (Re.seq c d)).ms s :=
    (ms_seq_assoc a b (Re.seq c d) s).symm
  have h2 : (Re.seq (Re.seq a b) (Re.seq c d)).ms s = (Re.seq (Re.seq (Re.seq a b) c) d).ms s :=
    (ms_seq_assoc (Re.seq a b) c d s).symm
  rw [h1, h2]
  show List.flatMap _ ((Re.seq (Re.seq a b) c).ms s) = _
  rw [ms_seq_assoc a b c s]

theorem reFUNCTION_eq : reFUNCTION =
    Re.seq dashOpt (Re.seq nmstartRe (Re.seq (Re.star nmcharRe true) (Re.cls false [(40, 40)]))) := by decide

/-- where IDENT matches and `(` follows, FUNCTION matches the identifier and the parenthesis -/
theorem function_after_ident (s : Cps) (l : Nat) (h : reIDENT.first s = some l) (h40 : s[l]? = some 40) :
    reFUNCTION.first s = some (l + 1) := by
  rw [reFUNCTION_eq]
  unfold Re.first
  rw [ms_seq4, ← reIDENT_eq]
  unfold Re.first at h
  cases hm : reIDENT.ms s with
  | nil => rw [hm] at h; simp at h
  | cons x xs =>
    rw [hm] at h
    simp only [List.head?_cons, Option.some.injEq] at h
    subst h
    have hd : s.drop x = 40 :: s.drop (x + 1) := by
      have hlt : x < s.length := by
        by_cases hx : x < s.length
        · exact hx
        · rw [List.getElem?_eq_none (by omega)] at h40; cases h40
      rw [List.drop_eq_getElem_cons hlt]
      rw [List.getElem?_eq_getElem hlt] at h40
      simp only [Option.some.injEq] at h40
      rw [h40]
    simp [List.flatMap_cons, hd, Re.ms, Re.inCls]

/-- every IDENT entry is directly followed by an entry that matches one more code point when `(` follows -/
def FnAfterIdent : List (String × Re) → Prop
  | [] => True
  | (n, r) :: ps => (n = "IDENT" → ∃ n' r' ps', ps = (n', r') :: ps' ∧ n' ≠ "IDENT" ∧
      ∀ s l, r.first s = some l → s[l]? = some 40 → r'.first s = some (l + 1)) ∧ FnAfterIdent ps

theorem fnAfterIdent_append : ∀ (pre post : List (String × Re)), pre.all (fun p => p.1 != "IDENT") = true →
    FnAfterIdent post → FnAfterIdent (pre ++ post) := by
  intro pre
  induction pre with
  | nil => intro post _ h; exact h
  | cons p ps ih =>
    intro post h hp
    obtain ⟨n, r⟩ := p
    simp only [List.all_cons, Bool.and_eq_true, bne_iff_ne, ne_eq] at h
    exact ⟨fun hn => absurd hn h.1, ih post (by simpa using h.2) hp⟩

theorem productions_fnAfterIdent : FnAfterIdent productions := by
  have hsplit : productions = productions.take 3 ++
      (("IDENT", reIDENT) :: ("FUNCTION", reFUNCTION) :: (productions.drop 5 ++ [])) := by decide
  rw [hsplit]
  apply fnAfterIdent_append _ _ (by decide)
  refine ⟨fun _ => ⟨"FUNCTION", reFUNCTION, _, rfl, by decide, function_after_ident⟩, ?_⟩
  refine ⟨fun hn => absurd hn (by decide), ?_⟩
  exact fnAfterIdent_append _ [] (by decide) trivial

/-! ## locality of the production scan -/

theorem identContinue_append_lt (n : String) (a b : Cps) (l : Nat) (h : l < a.length) :
    identContinue n (a ++ b) l = identContinue n a l := by
  have h1 : (a ++ b).take l = a.take l := List.take_append_of_le_length (by omega)
  have h2 : (a ++ b)[l]? = a[l]? := List.getElem?_append_left h
  have h3 : l < (a ++ b).length := by simp; omega
  simp only [identContinue, h1, h2, h3, h, decide_true]

theorem identContinue_append_false (n : String) (a b : Cps) (l : Nat) (h : l ≤ a.length)
    (hf : identContinue n (a ++ b) l = false) : identContinue n a l = false := by
  by_cases hl : l < a.length
  · rw [← identContinue_append_lt n a b l hl]; exact hf
  · have : ¬ l < a.length := hl
    simp [identContinue, this]

theorem scan_local (doC : Bool) (a b : Cps) : ∀ (ps : List (String × Re)), (∀ p ∈ ps, eolFree p.2 = true) →
    FnAfterIdent ps → ∀ name l, scan false doC (a ++ b) ps = .hit name l → l ≤ a.length →
    scan false doC a ps = .hit name l := by
  intro ps
  induction ps with
  | nil => intro _ _ name l h; simp [scan] at h
  | cons p ps ih =>
    obtain ⟨n, r⟩ := p
    intro hef hfn name l h hl
    have hr : eolFree r = true := hef (n, r) (by simp)
    have hef' : ∀ p ∈ ps, eolFree p.2 = true := fun p hp => hef p (List.mem_cons_of_mem _ hp)
    cases hf : r.first (a ++ b) with
    | none =>
      rw [scan_false_none hf] at h
      rw [scan_false_none (first_none_of_append hr hf)]
      exact ih hef' hfn.2 name l h hl
    | some l' =>
      by_cases hic : identContinue n (a ++ b) l' = true
      · have hscan : scan false doC (a ++ b) ((n, r) :: ps) = scan false doC (a ++ b) ps := by
          simp [scan, hf, hic]
        rw [hscan] at h
        have hn := identContinue_name hic
        by_cases hl' : l' < a.length
        · have hfa : r.first a = some l' := first_of_append hr hf (by omega)
          have hica : identContinue n a l' = true := by rw [← identContinue_append_lt n a b l' hl']; exact hic
          have : scan false doC a ((n, r) :: ps) = scan false doC a ps := by simp [scan, hfa, hica]
          rw [this]
          exact ih hef' hfn.2 name l h hl
        · exfalso
          obtain ⟨n', r', ps', hps, hn', hnext⟩ := hfn.1 hn
          have h40 : (a ++ b)[l']? = some 40 := by
            simp only [identContinue, Bool.and_eq_true, beq_iff_eq] at hic
            exact hic.2
          have hnx := hnext (a ++ b) l' hf h40
          subst hps
          have hicn : identContinue n' (a ++ b) (l' + 1) = false := by
            have : (n' == "IDENT") = false := by simpa using hn'
            simp [identContinue, this]
          rw [scan_false_hit hnx hicn] at h
          simp only [Scan.hit.injEq] at h
          omega
      · have hic' : identContinue n (a ++ b) l' = false := by simpa using hic
        rw [scan_false_hit hf hic'] at h
        simp only [Scan.hit.injEq] at h
        obtain ⟨rfl, rfl⟩ := h
        exact scan_false_hit (first_of_append hr hf hl) (identContinue_append_false n a b l' hl hic')

theorem scan_false_not_comment (doC : Bool) (s : Cps) : ∀ (ps : List (String × Re)) (v : Cps),
    scan false doC s ps ≠ .comment v := by
  intro ps
  induction ps with
  | nil => intro v h; simp [scan] at h
  | cons p ps ih =>
    intro v h
    obtain ⟨n, r⟩ := p
    simp only [scan, Bool.false_and, Bool.false_eq_true, if_false] at h
    split at h
    · exact ih v h
    · split at h
      · exact ih v h
      · cases h

/-! ## locality of the value computation -/

theorem hasAt_sep_drop (a b : Cps) (n : Nat) (h : n < a.length) :
    hasAt ((a ++ b).drop n) charsetSep = hasAt (a.drop n) charsetSep := by
  rw [List.drop_append_of_le_length (by omega)]
  have : ∃ c t, a.drop n = c :: t := by
    cases hd : a.drop n with
    | nil => have := List.drop_eq_nil_iff.mp hd; omega
    | cons c t => exact ⟨c, t, rfl⟩
  obtain ⟨c, t, hct⟩ := this
  rw [hct]
  simp [hasAt, charsetSep]

theorem valueOf_local (a b : Cps) (name : String) (found : Cps) (x : NVF)
    (h : valueOf (a ++ b) name found = some x) (hf : found.length ≤ a.length) (hx : x.found.length ≤ a.length) :
    valueOf a name found = some x := by
  unfold valueOf at h ⊢
  split
  · rename_i hu; rw [if_pos hu] at h; exact h
  · rename_i hu
    rw [if_neg hu] at h
    split
    · rename_i hk
      rw [if_pos hk] at h
      cases hn : normalizeU found with
      | none => rw [hn] at h; cases h
      | some k =>
        rw [hn] at h
        simp only at h ⊢
        cases hlk : atkeywords.lookup k with
        | some sym => rw [hlk] at h; exact h
        | none =>
          rw [hlk] at h
          simp only at h ⊢
          by_cases hlt : found.length < a.length
          · rw [hasAt_sep_drop a b _ hlt] at h; exact h
          · have hnil : a.drop found.length = [] := List.drop_eq_nil_iff.mpr (by omega)
            rw [hnil]
            have hfalse : hasAt [] charsetSep = false := by decide
            rw [hfalse]
            by_cases hc : (found == charsetKw && hasAt ((a ++ b).drop found.length) charsetSep) = true
            · rw [if_pos hc] at h
              simp only [Option.some.injEq] at h
              subst h
              simp only [List.length_append] at hx
              have : charsetSep.length = 1 := rfl
              omega
            · rw [if_neg hc] at h
              simpa using h
    · rename_i hk; rw [if_neg hk] at h; exact h

theorem valueOf_found_len (s : Cps) (name : String) (found : Cps) (x : NVF)
    (h : valueOf s name found = some x) : found.length ≤ x.found.length := by
  unfold valueOf at h
  split at h
  · split at h
    · split at h
      · cases h
      · simp only [Option.some.injEq] at h; subst h; exact Nat.le_refl _
    · split at h
      · cases h
      · simp only [Option.some.injEq] at h; subst h; exact Nat.le_refl _
  · split at h
    · split at h
      · cases h
      · split at h
        · simp only [Option.some.injEq] at h; subst h; exact Nat.le_refl _
        · split at h
          · simp only [Option.some.injEq] at h; subst h; simp
          · simp only [Option.some.injEq] at h; subst h; exact Nat.le_refl _
    · simp only [Option.some.injEq] at h; subst h; exact Nat.le_refl _

/-! ## the loop: fuel, spans, append -/

theorem loop_span_ne (full doC : Bool) (fuel : Nat) (s : Cps) (line col : Nat) :
    ∀ it ∈ (loop full doC fuel s line col).items, it.span ≠ [] := by
  fun_induction loop full doC fuel s line col <;> simp_all [Res.cons]

theorem loop_fuel (full doC : Bool) (fuel : Nat) (s : Cps) (line col : Nat) : ∀ fuel', s.length < fuel →
    s.length < fuel' → loop full doC fuel s line col = loop full doC fuel' s line col := by
  fun_induction loop full doC fuel s line col <;> intro fuel' h1 h2
  case case1 => simp at h1
  all_goals obtain ⟨k, rfl⟩ : ∃ k, fuel' = k + 1 := ⟨fuel' - 1, by omega⟩
  case case2 => simp [loop]
  case case3 ih =>
    rw [loop]; simp only [*, if_true]
    rw [ih k (by simp at h1; omega) (by simp at h2; omega)]
  case case9 ih =>
    rw [loop]; simp only [*, if_false, Bool.false_eq_true]
    rw [ih k (by simp only [List.length_drop, List.length_cons] at *; omega)
      (by simp only [List.length_drop, List.length_cons] at *; omega)]
  all_goals (rw [loop]; simp only [*, if_false, if_true, Bool.false_eq_true])

/-- one step of the loop in partial-sheet mode is local: when the token found at the start of `a ++ b` ends inside
`a`, the same production hits on `a` alone with the same value -/
theorem step_local (doC : Bool) (a b : Cps) (name : String) (l : Nat) (x : NVF)
    (hsc : scan false doC (a ++ b) productions = .hit name l)
    (hv : valueOf (a ++ b) name ((a ++ b).take l) = some x) (hx : x.found.length ≤ a.length) :
    scan false doC a productions = .hit name l ∧ valueOf a name (a.take l) = some x := by
  have hpos := scan_hit_pos false doC _ name l hsc
  have hlen : ((a ++ b).take l).length = l := by rw [List.length_take]; omega
  have hl : l ≤ x.found.length := by have := valueOf_found_len _ _ _ _ hv; omega
  have hla : l ≤ a.length := by omega
  have htake : (a ++ b).take l = a.take l := List.take_append_of_le_length hla
  refine ⟨scan_local doC a b productions productions_eolFree productions_fnAfterIdent name l hsc hla, ?_⟩
  rw [htake] at hv
  exact valueOf_local a b name _ x hv (by rw [List.length_take]; omega) hx

/-- **cut lemma of the loop** (partial-sheet mode): let the items of `a ++ b` split into `pre ++ post` and let `pre`
cover a prefix of `a` (`a = spans pre ++ a₂`: the cut `|a|` lies at or after the token boundary `|spans pre|`). Then the
run on `a` alone starts with exactly `pre` and continues, at the same line and column, on the remainder `a₂`; `post` is
the run on `a₂ ++ b` from there. -/
theorem loop_cut (doC : Bool) : ∀ (pre : List Item) (a a₂ b : Cps) (post : List Item) (fuel line col : Nat),
    (a ++ b).length < fuel →
    (loop false doC fuel (a ++ b) line col).items = pre ++ post → a = spans pre ++ a₂ →
    ∃ fuel' line' col', (a₂ ++ b).length < fuel' ∧
      (loop false doC fuel a line col).items = pre ++ (loop false doC fuel' a₂ line' col').items ∧
      (loop false doC fuel a line col).stop = (loop false doC fuel' a₂ line' col').stop ∧
      post = (loop false doC fuel' (a₂ ++ b) line' col').items := by
  intro pre
  induction pre with
  | nil =>
    intro a a₂ b post fuel line col hf h hs
    simp only [spans_nil, List.nil_append] at hs
    subst hs
    exact ⟨fuel, line, col, hf, by simp, rfl, by simpa using h.symm⟩
  | cons it pre' ih =>
    intro a a₂ b post fuel line col hf h hs
    obtain ⟨k, rfl⟩ : ∃ k, fuel = k + 1 := ⟨fuel - 1, by omega⟩
    cases a with
    | nil =>
      exfalso
      have hmem : it ∈ (loop false doC (k + 1) ([] ++ b) line col).items := by rw [h]; simp
      have := loop_span_ne _ _ _ _ _ _ it hmem
      simp only [spans_cons, List.append_assoc] at hs
      have hs2 := hs.symm
      simp only [List.append_eq_nil_iff] at hs2
      exact this hs2.1
    | cons c t =>
      have hf' : t.length + b.length < k := by simp at hf; omega
      simp only [List.cons_append] at h
      rw [loop] at h
      rw [loop]
      by_cases hfast : fastChars.contains c = true
      · simp only [hfast, if_true, Res.cons, List.cons_append, List.cons.injEq] at h ⊢
        obtain ⟨hit, hrest⟩ := h
        subst hit
        simp only [spans_cons, List.cons_append, List.nil_append, List.cons.injEq, true_and] at hs
        obtain ⟨fuel', l', c', hb, h1, hstop, hpost⟩ :=
          ih t a₂ b post k line (col + 1) (by simp; omega) hrest hs
        exact ⟨fuel', l', c', hb, by rw [h1]; exact ⟨rfl, rfl⟩, hstop, hpost⟩
      · simp only [hfast, Bool.false_eq_true, if_false] at h ⊢
        generalize hsc : scan false doC (c :: (t ++ b)) productions = sc at h
        rcases sc with _ | v | ⟨name, l⟩
        · simp at h
        · exact absurd hsc (scan_false_not_comment doC _ _ v)
        · simp only [complete_false] at h
          cases hv : valueOf (c :: (t ++ b)) name ((c :: (t ++ b)).take l) with
          | none => rw [hv] at h; simp at h
          | some x =>
            rw [hv] at h
            simp only at h
            by_cases hz : x.found.length = 0
            · simp [hz] at h
            · simp only [hz, if_false, Res.cons, List.cons_append, List.cons.injEq] at h
              obtain ⟨hit, hrest⟩ := h
              -- the token found is the text at the start
              have hspan : ((c :: t) ++ b).take x.found.length = x.found := by
                rcases valueOf_span _ _ _ _ false (spanOK_take false _ l) hv with h0 | ⟨h0, _⟩
                · exact h0
                · cases h0
              have hitspan : it.span = ((c :: t) ++ b).take x.found.length := by rw [← hit]; rfl
              have hxa : x.found.length ≤ (c :: t).length := by
                have h1 : it.span.length ≤ (c :: t).length := by
                  rw [hs, spans_cons]; simp only [List.length_append]; omega
                rw [hitspan, hspan] at h1
                exact h1
              obtain ⟨hsc', hv'⟩ := step_local doC (c :: t) b name l x hsc hv hxa
              have htk : ((c :: t) ++ b).take x.found.length = (c :: t).take x.found.length :=
                List.take_append_of_le_length hxa
              have hdr : ((c :: t) ++ b).drop x.found.length = (c :: t).drop x.found.length ++ b :=
                List.drop_append_of_le_length hxa
              have hs' : (c :: t).drop x.found.length = spans pre' ++ a₂ := by
                rw [spans_cons, hitspan, htk, List.append_assoc] at hs
                have h2 : (c :: t).take x.found.length ++ (c :: t).drop x.found.length =
                    (c :: t).take x.found.length ++ (spans pre' ++ a₂) := by
                  rw [← hs, List.take_append_drop]
                exact List.append_cancel_left h2
              have hrest' : (loop false doC k ((c :: t).drop x.found.length ++ b) (advance line col x.found).1
                  (advance line col x.found).2).items = pre' ++ post := by
                rw [← hdr]; exact hrest
              have hlen : ((c :: t).drop x.found.length ++ b).length < k := by
                simp only [List.length_append, List.length_drop, List.length_cons]
                simp only [List.length_cons] at hxa
                omega
              obtain ⟨fuel', l', c', hb, h1, hstop, hpost⟩ := ih _ a₂ b post k _ _ hlen hrest' hs'
              simp only [hsc', complete_false, hv', hz, if_false, Res.cons]
              refine ⟨fuel', l', c', hb, ?_, hstop, hpost⟩
              have htk' : List.take x.found.length (c :: (t ++ b)) = List.take x.found.length (c :: t) := htk
              rw [h1, ← hit, htk']
              rfl

/-- **append lemma of the loop** (partial-sheet mode): when a token boundary of `a ++ b` falls at `|a|` — the
items of `a ++ b` split into `pre ++ post` with `pre` covering exactly `a` — then `pre` is the run on `a` alone,
and `post` is the run on `b` started at the line and column where the run on `a` stopped. -/
theorem loop_append (doC : Bool) (pre : List Item) (a b : Cps) (post : List Item) (fuel line col : Nat)
    (hf : (a ++ b).length < fuel)
    (h : (loop false doC fuel (a ++ b) line col).items = pre ++ post) (hs : spans pre = a) :
    (loop false doC fuel a line col).items = pre ∧
    ∃ fuel' line' col', b.length < fuel' ∧ (loop false doC fuel a line col).stop = .done line' col' ∧
      post = (loop false doC fuel' b line' col').items := by
  obtain ⟨fuel', l', c', hb, h1, hstop, hpost⟩ :=
    loop_cut doC pre a [] b post fuel line col hf h (by simp [hs])
  simp only [List.nil_append] at hb hpost
  obtain ⟨k, rfl⟩ : ∃ k, fuel' = k + 1 := ⟨fuel' - 1, by omega⟩
  have hnil : loop false doC (k + 1) [] l' c' = ⟨[], .done l' c'⟩ := by simp [loop]
  rw [hnil] at h1 hstop
  exact ⟨by simpa using h1, k + 1, l', c', hb, hstop, hpost⟩

/-- the tokens of a text fragment in partial-sheet mode, started at `line`/`col` -/
def tokensAt (doC : Bool) (s : Cps) (line col : Nat) : List Item := (loop false doC (s.length + 1) s line col).items

/-- where the run on a fragment stops: the line and column after its last code point -/
def endAt (doC : Bool) (s : Cps) (line col : Nat) : Stop := (loop false doC (s.length + 1) s line col).stop

theorem loop_stop_pos (doC : Bool) (fuel : Nat) (s : Cps) (line col : Nat) :
    ∀ pre, (line, col) = lc pre → ∀ l' c', (loop false doC fuel s line col).stop = .done l' c' →
      (l', c') = lc (pre ++ s) := by
  fun_induction loop false doC fuel s line col
  case case1 => intro pre _ l' c' h; cases h
  case case2 =>
    intro pre h l' c' hd
    simp only [Stop.done.injEq] at hd
    obtain ⟨rfl, rfl⟩ := hd
    simpa using h
  case case3 c t line col hfast ih =>
    intro pre h l' c' hd
    have := advance_lc pre [c]
    rw [← h, advance_single _ _ _ (fast_not_lf c hfast)] at this
    have := ih (pre ++ [c]) this l' c' hd
    simpa [List.append_assoc] using this
  case case4 => intro pre _ l' c' h; cases h
  case case5 hsc => exact absurd hsc (scan_false_not_comment doC _ _ _)
  case case6 => intro pre _ l' c' h; cases h
  case case7 => intro pre _ l' c' h; cases h
  case case8 => intro pre _ l' c' h; cases h
  case case9 c t line col _ name l hscan nf hc x hv hz ih =>
    intro pre h l' c' hd
    have hsp : (c :: t).take x.found.length = x.found := by
      rcases valueOf_span _ _ _ _ false (complete_span _ _ _ _ _ (spanOK_take false _ l) hc) hv with h0 | ⟨h0, _⟩
      · exact h0
      · cases h0
    have h2 := advance_lc pre x.found
    rw [← h] at h2
    have := ih (pre ++ x.found) h2 l' c' hd
    rw [this, List.append_assoc]
    congr 2
    conv => rhs; rw [← List.take_append_drop x.found.length (c :: t), hsp]

theorem tokensAt_cut (doC : Bool) (a₁ a₂ b : Cps) (line col : Nat) (pre post : List Item)
    (h : tokensAt doC (a₁ ++ a₂ ++ b) line col = pre ++ post) (hs : spans pre = a₁) :
    ∃ line' col', tokensAt doC (a₁ ++ a₂) line col = pre ++ tokensAt doC a₂ line' col' ∧
      post = tokensAt doC (a₂ ++ b) line' col' := by
  obtain ⟨fuel', l', c', hb, h1, _, hpost⟩ :=
    loop_cut doC pre (a₁ ++ a₂) a₂ b post ((a₁ ++ a₂ ++ b).length + 1) line col (Nat.lt_succ_self _) h (by rw [hs])
  have hfa : loop false doC ((a₁ ++ a₂ ++ b).length + 1) (a₁ ++ a₂) line col =
      loop false doC ((a₁ ++ a₂).length + 1) (a₁ ++ a₂) line col :=
    loop_fuel _ _ _ _ _ _ _ (by simp; omega) (Nat.lt_succ_self _)
  rw [hfa] at h1
  refine ⟨l', c', ?_, ?_⟩
  · unfold tokensAt
    rw [h1, loop_fuel false doC fuel' a₂ l' c' (a₂.length + 1) (by simp at hb; omega) (Nat.lt_succ_self _)]
  · rw [hpost]
    unfold tokensAt
    rw [loop_fuel false doC fuel' (a₂ ++ b) l' c' ((a₂ ++ b).length + 1) hb (Nat.lt_succ_self _)]

theorem endAt_pos (doC : Bool) (s pre : Cps) (line col l' c' : Nat) (h : (line, col) = lc pre)
    (hd : endAt doC s line col = .done l' c') : (l', c') = lc (pre ++ s) :=
  loop_stop_pos doC _ s line col pre h l' c' hd

theorem endAt_done (doC : Bool) (s : Cps) (line col : Nat) : ∃ l' c', endAt doC s line col = .done l' c' :=
  loop_done false doC _ s line col (Nat.lt_succ_self _)

/-- a text that starts neither with the BOM production nor with `@charset ` is tokenized by the bare loop -/
theorem tokenize_plain (doC : Bool) (s : Cps) (hb : bomRe.first s = none) (hc : hasAt s charsetStart = false) :
    (tokenize s false doC).items = tokensAt doC s 1 1 := by
  have hab : afterBom s = s := by simp [afterBom, hb]
  have hbi : bomItems s = [] := by simp [bomItems, hb]
  have hac : afterCharset s = s := by simp [afterCharset, hc]
  have hci : charsetItems s = [] := by simp [charsetItems, hc]
  have hsc : startCol s = 1 := by simp [startCol, hc]
  have hml : mainLoop s false doC = loop false doC (s.length + 1) s 1 1 := by
    simp only [mainLoop, hab, hac, hsc]
  have heof : ∀ st, eofItems false st = [] := by
    intro st; unfold eofItems; split <;> simp
  simp only [tokenize, body, hbi, hab, hci, heof, List.nil_append, List.append_nil, hml, tokensAt]

theorem tokensAt_append_aux (doC : Bool) (a b : Cps) (line col : Nat) (pre post : List Item)
    (h : tokensAt doC (a ++ b) line col = pre ++ post) (hs : spans pre = a) :
    tokensAt doC a line col = pre ∧ ∃ line' col', endAt doC a line col = .done line' col' ∧
      post = tokensAt doC b line' col' := by
  obtain ⟨h1, fuel', l', c', hb, hstop, hpost⟩ :=
    loop_append doC pre a b post ((a ++ b).length + 1) line col (Nat.lt_succ_self _) h hs
  have hfa : loop false doC ((a ++ b).length + 1) a line col = loop false doC (a.length + 1) a line col :=
    loop_fuel _ _ _ _ _ _ _ (by simp; omega) (Nat.lt_succ_self _)
  rw [hfa] at h1 hstop
  refine ⟨h1, l', c', hstop, ?_⟩
  rw [hpost]
  unfold tokensAt
  rw [loop_fuel false doC fuel' b l' c' (b.length + 1) hb (Nat.lt_succ_self _)]

end CssVerif.Tok
