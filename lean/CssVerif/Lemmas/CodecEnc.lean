import CssVerif.Lemmas.CodecInc
/-!
Invariant of the incremental encoder machine (`codec.IncrementalEncoder`).
-/
namespace CssVerif.Codec

theorem findQuote_at (l : List Nat) (k : Nat) (h : findQuote l = some k) :
    ∃ r, l.drop k = 0x22 :: r := by
  induction l generalizing k with
  | nil => simp [findQuote] at h
  | cons c t ih =>
    simp only [findQuote] at h
    split at h
    · rename_i hc; simp at h; subst h; subst hc; exact ⟨t, rfl⟩
    · cases hq : findQuote t with
      | none => simp [hq] at h
      | some j =>
        simp [hq] at h; subst h
        obtain ⟨r, hr⟩ := ih j hq
        exact ⟨r, by simpa using hr⟩

theorem findQuote_skip (n r : List Nat) (hn : ∀ c ∈ n, c ≠ 0x22) :
    findQuote (n ++ 0x22 :: r) = some n.length := by
  induction n with
  | nil => simp [findQuote]
  | cons c t ih =>
    have hc : c ≠ 0x22 := hn c (by simp)
    have := ih (fun x hx => hn x (by simp [hx]))
    simp [findQuote, hc, this]

theorem isSig_utf8Name : isSig utf8Name = false := by decide

/-- the second `_fixencoding(input, "utf-8", True)` the encoders apply for utf-8-sig changes nothing -/
theorem fixFinal_idem (p g t : List Nat) (f : Bool) (h : fixEncoding p g f = some t)
    (hs : isSig g = true) : fixFinal t utf8Name = t := by
  have hg : normName g = utf8sigName := by simpa [isSig] using hs
  unfold fixEncoding at h
  by_cases hl : p.length > 10
  · rw [if_pos hl] at h
    by_cases hp : prefix10.isPrefixOf p = true
    · rw [if_pos hp] at h
      cases hq : findQuote (p.drop 10) with
      | none =>
        simp only [hq] at h
        cases f with
        | false => simp at h
        | true =>
          simp only [if_true, Option.some.injEq] at h; subst h
          unfold fixFinal; simp [hl, hp, hq]
      | some k =>
        simp only [hq, hg, if_true, Option.some.injEq] at h
        obtain ⟨r, hr⟩ := findQuote_at _ k hq
        subst h
        unfold fixFinal
        have hlen : (prefix10 ++ utf8Name ++ List.drop k (List.drop 10 p)).length > 10 := by
          simp [prefix10, utf8Name]
        have hpre : prefix10.isPrefixOf (prefix10 ++ utf8Name ++ List.drop k (List.drop 10 p)) = true := by
          rw [List.isPrefixOf_iff_prefix, List.append_assoc]; exact List.prefix_append _ _
        have hd : (prefix10 ++ utf8Name ++ List.drop k (List.drop 10 p)).drop 10 =
            utf8Name ++ 0x22 :: r := by
          rw [hr]; simp [prefix10]
        have hfq : findQuote (utf8Name ++ 0x22 :: r) = some utf8Name.length :=
          findQuote_skip utf8Name r (by decide)
        have hn : normName utf8Name = utf8sigName ↔ False := by decide
        simp only [hlen, hpre, if_true, hd, hfq, hn, if_false]
        rw [hr]
        simp [utf8Name]
    · rw [if_neg hp] at h
      simp only [Option.some.injEq] at h; subst h
      unfold fixFinal; simp [hl, hp]
  · rw [if_neg hl] at h
    have : t = p := by
      split at h
      · simpa using h.symm
      · simp at h
    subst this
    unfold fixFinal; simp [hl]

/-- a complete `@charset "…"` header (what the text-side detector needs to answer with a name) is also
what the rewriter needs to answer -/
theorem fix_some_of_named (p e n : List Nat) (x : Bool) (h : detectUnicode p false = some (.named n, x)) :
    ∃ r, fixEncoding p e false = some r := by
  unfold detectUnicode at h
  by_cases hp : prefix10.isPrefixOf p = true
  · rw [if_pos hp] at h
    cases hq : findQuote (p.drop 10) with
    | none => simp [hq] at h
    | some k =>
      have hk := findQuote_lt _ _ hq
      have hl : p.length > 10 := by simp at hk; omega
      unfold fixEncoding
      simp [hl, hp, hq]
  · rw [if_neg hp] at h
    split at h <;> simp at h

/-- the text-side detector only ever answers utf-8 (implicitly) or the name found in the rule -/
theorem detectUnicode_shape (p : List Nat) (f : Bool) (d : Enc × Bool) (h : detectUnicode p f = some d) :
    d.1 = .utf8 ∨ ∃ n, d.1 = .named n := by
  unfold detectUnicode at h
  split at h
  · cases hq : findQuote (p.drop 10) with
    | none => simp [hq] at h
    | some k => simp [hq] at h; subst h; exact Or.inr ⟨_, rfl⟩
  · split at h
    · simp at h; subst h; exact Or.inl rfl
    · simp at h

theorem detU_true (l : List Nat) : detU l true = some (detUFinal l) := by
  unfold detU detUFinal
  cases detectUnicode l true <;> simp

theorem detUFinal_of_early (p ext : List Nat) (E : Name) (h : detU p false = some E) :
    detUFinal (p ++ ext) = E := by
  unfold detU at h
  cases hd : detectUnicode p false with
  | none => simp [hd] at h
  | some d =>
    simp only [hd, Option.some.injEq] at h
    unfold detUFinal
    rw [detectUnicode_stable p ext true d hd]
    exact h

/-- the text one-shot `encode` hands to the inner encoder, and under which name -/
def finalE (given : Option Name) (whole : List Nat) : Name :=
  match given with
  | some g => g
  | none => detUFinal whole

def finalT (given : Option Name) (whole : List Nat) : List Nat :=
  match given with
  | some g => fixFinal whole g
  | none => if isSig (detUFinal whole) then fixFinal whole utf8Name else whole

theorem encodeOneShot_eq (I : InnerEnc) (given : Option Name) (whole : List Nat) :
    encodeOneShot I given whole = I.out (finalE given whole) (finalT given whole) true := by
  cases given <;> rfl

def EInv (I : InnerEnc) (given : Option Name) (a em : List Nat) : ESt → Prop
  | .waiting g buf => g = given ∧ buf = a ∧ em = []
  | .encoding E c => em = I.out E c false ∧
      ∀ rest, finalE given (a ++ rest) = E ∧ finalT given (a ++ rest) = c ++ rest

theorem feedEnc_spec (I : InnerEnc) (E : Name) (a c : List Nat) (f : Bool) :
    I.out E (a ++ c) f = I.out E a false ++ feedEnc I E a c f := by
  obtain ⟨ext, h⟩ := I.mono E a c f
  unfold feedEnc
  rw [h]; simp

theorem feedEnc_start (I : InnerEnc) (E : Name) (t : List Nat) (f : Bool) :
    feedEnc I E [] t f = I.out E t f := by
  unfold feedEnc; simp [I.out_nil]

/-- starting the inner encoder on the (rewritten) buffered text `t'` -/
theorem start_sig (p t rest : List Nat) (h : fixEncoding p utf8Name false = some t) :
    fixFinal (p ++ rest) utf8Name = t ++ rest := fixFinal_of_early p rest utf8Name t h

theorem estep_inv (I : InnerEnc) (given : Option Name) (a em x : List Nat) (s : ESt)
    (h : EInv I given a em s) :
    EInv I given (a ++ x) (em ++ (estep I s x false).2) (estep I s x false).1 := by
  cases s with
  | waiting g buf =>
    obtain ⟨rfl, rfl, rfl⟩ := h
    cases g with
    | some g =>
      simp only [estep]
      cases hf : fixEncoding (buf ++ x) g false with
      | none => exact ⟨rfl, rfl, rfl⟩
      | some t =>
        simp only [List.nil_append, feedEnc_start]
        refine ⟨rfl, ?_⟩
        intro rest
        refine ⟨rfl, ?_⟩
        have h1 : fixFinal ((buf ++ x) ++ rest) g = t ++ rest := fixFinal_of_early _ rest g t hf
        show fixFinal ((buf ++ x) ++ rest) g = _
        by_cases hs : isSig g = true
        · simp only [hs, if_true, fixFinal_idem _ g t false hf hs]; simpa [List.append_assoc] using h1
        · simpa [hs, List.append_assoc] using h1
    | none =>
      simp only [estep]
      cases hd : detU (buf ++ x) false with
      | none => exact ⟨rfl, rfl, rfl⟩
      | some E =>
        simp only [List.nil_append, feedEnc_start]
        refine ⟨rfl, ?_⟩
        intro rest
        have hE : detUFinal ((buf ++ x) ++ rest) = E := detUFinal_of_early _ rest E hd
        refine ⟨hE, ?_⟩
        show (if isSig (detUFinal ((buf ++ x) ++ rest)) then fixFinal ((buf ++ x) ++ rest) utf8Name
          else (buf ++ x) ++ rest) = _
        rw [hE]
        by_cases hs : isSig E = true
        · simp only [hs, if_true]
          -- a utf-8-sig name can only come from a complete @charset rule
          unfold detU at hd
          cases hdu : detectUnicode (buf ++ x) false with
          | none => simp [hdu] at hd
          | some d =>
            simp only [hdu, Option.some.injEq] at hd
            obtain ⟨e, ex⟩ := d
            rcases detectUnicode_shape _ _ _ hdu with he | ⟨n, he⟩
            · simp only at he; subst he; subst hd
              have : isSig Enc.utf8.name = false := by decide
              simp only [this] at hs; cases hs
            · simp only at he; subst he
              obtain ⟨r, hr⟩ := fix_some_of_named (buf ++ x) utf8Name n ex hdu
              have h1 := fixFinal_of_early _ rest utf8Name r hr
              have h2 := fixFinal_of_early _ [] utf8Name r hr
              simp only [List.append_nil] at h2
              rw [h1, h2]
        · simp [hs]
  | encoding E c =>
    obtain ⟨rfl, hT⟩ := h
    simp only [estep]
    refine ⟨(feedEnc_spec I E c x false).symm, ?_⟩
    intro rest
    have := hT (x ++ rest)
    simpa [List.append_assoc] using this

theorem erunChunks_inv (I : InnerEnc) (given : Option Name) (cs : List (List Nat)) :
    ∀ (a em : List Nat) (s : ESt), EInv I given a em s →
      EInv I given (a ++ cs.flatten) (em ++ (erunChunks I s cs).2) (erunChunks I s cs).1 := by
  induction cs with
  | nil => intro a em s h; simpa [erunChunks] using h
  | cons c cs ih =>
    intro a em s h
    have h1 := estep_inv I given a em c s h
    have h2 := ih (a ++ c) (em ++ (estep I s c false).2) (estep I s c false).1 h1
    simpa [erunChunks, List.append_assoc] using h2

theorem efinal_step (I : InnerEnc) (given : Option Name) (a em : List Nat) (s : ESt)
    (h : EInv I given a em s) :
    em ++ (estep I s [] true).2 = encodeOneShot I given a := by
  rw [encodeOneShot_eq]
  cases s with
  | waiting g buf =>
    obtain ⟨rfl, rfl, rfl⟩ := h
    cases g with
    | some g =>
      simp only [estep, List.append_nil, fix_true, List.nil_append, feedEnc_start, finalE, finalT]
      by_cases hs : isSig g = true
      · simp only [hs, if_true, fixFinal_idem buf g _ true (fix_true buf g) hs]
      · simp [hs]
    | none =>
      simp only [estep, List.append_nil, detU_true, List.nil_append, feedEnc_start, finalE, finalT]
  | encoding E c =>
    obtain ⟨rfl, hT⟩ := h
    obtain ⟨hE, hTT⟩ := hT []
    simp only [List.append_nil] at hE hTT
    simp only [estep, hE, hTT]
    have := feedEnc_spec I E c [] true
    simp only [List.append_nil] at this
    exact this.symm

end CssVerif.Codec
