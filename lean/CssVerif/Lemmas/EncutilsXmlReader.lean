import CssVerif.Lemmas.EncutilsXml
import CssVerif.Model.EncutilsXml
/-!
# The executable reader `parseXmlDecl` is sound for the grammar `XMLDecl`
-/
set_option linter.unusedSimpArgs false
set_option linter.unusedVariables false

namespace CssVerif.Encutils
open CssVerif CssVerif.Proto CssVerif.Gen

theorem isXmlSb_iff (c : Nat) : isXmlSb c = true ↔ isXmlS c := by
  simp [isXmlSb, isXmlS, or_assoc]

theorem takeS_skipS : ∀ s : Cps, takeS s ++ skipS s = s
  | [] => rfl
  | c :: t => by
    by_cases h : isXmlSb c = true
    · simp [takeS, skipS, h, takeS_skipS t]
    · simp [takeS, skipS, h]

theorem xmlS_takeS : ∀ s : Cps, XmlS (takeS s)
  | [] => by intro c hc; simp [takeS] at hc
  | c :: t => by
    by_cases h : isXmlSb c = true
    · intro x hx
      simp only [takeS, h, if_true, List.mem_cons] at hx
      rcases hx with rfl | hx
      · exact (isXmlSb_iff _).1 h
      · exact xmlS_takeS t x hx
    · intro x hx; simp [takeS, h] at hx

theorem upTo_afterFirst (q : Nat) : ∀ (s r : Cps), afterFirst q s = some r → s = upTo q s ++ q :: r
  | [], r, h => by simp [afterFirst] at h
  | c :: t, r, h => by
    by_cases hc : (c == q) = true
    · simp only [afterFirst, hc, if_true, Option.some.injEq] at h
      have : c = q := by simpa using hc
      simp [upTo, hc, h, this]
    · have hc' : (c == q) = false := by simpa using hc
      simp only [afterFirst, hc', Bool.false_eq_true, if_false] at h
      have ih := upTo_afterFirst q t r h
      simp only [upTo, hc', Bool.false_eq_true, if_false, List.cons_append]
      rw [← ih]

theorem versionNum_of_b (v : Cps) (h : versionNumB v = true) : VersionNum v := by
  match v, h with
  | 49 :: 46 :: d :: ds, h =>
    have e12 : cps "1." = [49, 46] := by decide
    refine ⟨d :: ds, by rw [e12]; rfl, by simp, ?_⟩
    intro c hc
    have := (List.all_eq_true.1 h) c hc
    simpa [isDigitB, isDigitX] using this

theorem encName_of_b (e : Cps) (h : encNameB e = true) : EncName e := by
  match e, h with
  | c :: t, h =>
    simp only [encNameB, Bool.and_eq_true] at h
    refine ⟨c, t, rfl, ?_, ?_⟩
    · simpa [isAlphaB, isAlphaX] using h.1
    · intro x hx
      have := (List.all_eq_true.1 h.2) x hx
      simpa [isAlphaB, isAlphaX, isDigitB, isDigitX, or_assoc] using this

theorem yesNo_of_b (v : Cps) (h : yesNoB v = true) : v = cps "yes" ∨ v = cps "no" := by
  simpa [yesNoB] using h

theorem parseEqValue_sound (ok : Cps → Bool) (s v r : Cps) (h : parseEqValue ok s = some (v, r)) :
    ∃ w1 w2 q, s = w1 ++ cps "=" ++ w2 ++ [q] ++ v ++ [q] ++ r ∧ XmlS w1 ∧ XmlS w2 ∧ isQuote q ∧ ok v = true := by
  unfold parseEqValue at h
  split at h
  · rename_i s1 hs1
    split at h
    · rename_i q s2 hs2
      split at h
      · rename_i hq
        split at h
        · rename_i r' hr
          split at h
          · rename_i hok
            simp only [Option.some.injEq, Prod.mk.injEq] at h
            obtain ⟨rfl, rfl⟩ := h
            refine ⟨takeS s, takeS s1, q, ?_, xmlS_takeS s, xmlS_takeS s1, ?_, hok⟩
            · have a1 := takeS_skipS s
              have a2 := takeS_skipS s1
              have a3 := upTo_afterFirst q s2 r' hr
              rw [hs1] at a1; rw [hs2] at a2
              have e : cps "=" = [61] := by decide
              have key : s = takeS s ++ (61 :: (takeS s1 ++ (q :: (upTo q s2 ++ q :: r')))) := by
                rw [← a3, a2, a1]
              rw [e]
              exact key.trans (by simp [List.append_assoc])
            · simpa [isQuote] using hq
          · simp at h
        · simp at h
      · simp at h
    · simp at h
  · simp at h

theorem parseAttr_sound (name : String) (ok : Cps → Bool) (Value : Cps → Prop) (hV : ∀ v, ok v = true → Value v)
    (s v r : Cps) (h : parseAttr (cps name) ok s = some (v, r)) :
    ∃ a, s = a ++ r ∧ PseudoAttr name Value a v := by
  unfold parseAttr at h
  split at h
  · rename_i hc
    simp only [Bool.and_eq_true, bne_iff_ne, ne_eq] at hc
    obtain ⟨w1, w2, q, hs, hw1, hw2, hq, hok⟩ := parseEqValue_sound ok _ v r h
    have hp := isPrefixOf_eq _ _ hc.2
    have hts := takeS_skipS s
    refine ⟨takeS s ++ cps name ++ w1 ++ cps "=" ++ w2 ++ [q] ++ v ++ [q], ?_,
      ⟨takeS s, w1, w2, q, rfl, xmlS_takeS s, hc.1, hw1, hw2, hq, hV v hok⟩⟩
    conv => lhs; rw [← hts, hp, hs]
    simp [List.append_assoc]
  · simp at h

theorem parseEnd_sound (s rest : Cps) (h : parseEnd s = some rest) : ∃ sp, s = sp ++ cps "?>" ++ rest ∧ XmlS sp := by
  unfold parseEnd at h
  split at h
  · rename_i rest' hend
    simp only [Option.some.injEq] at h
    subst h
    have hs3 := takeS_skipS s
    rw [hend] at hs3
    refine ⟨takeS s, ?_, xmlS_takeS s⟩
    have e : cps "?>" = [63, 62] := by decide
    rw [e]
    exact hs3.symm.trans (by simp [List.append_assoc])
  · simp at h

theorem parseDeclTail_sound (s rest : Cps) (h : parseDeclTail s = some rest) :
    ∃ sd sp, s = sd ++ sp ++ cps "?>" ++ rest ∧ SDDeclOpt sd ∧ XmlS sp := by
  unfold parseDeclTail at h
  split at h
  · rename_i sv r hsd
    obtain ⟨sd, hsd', psd⟩ := parseAttr_sound "standalone" yesNoB _ yesNo_of_b _ sv r hsd
    obtain ⟨sp, hr, psp⟩ := parseEnd_sound r rest h
    refine ⟨sd, sp, ?_, Or.inr ⟨sv, psd⟩, psp⟩
    rw [hsd', hr]; simp [List.append_assoc]
  · obtain ⟨sp, hr, psp⟩ := parseEnd_sound s rest h
    exact ⟨[], sp, by rw [List.nil_append]; exact hr, Or.inl rfl, psp⟩

/-- soundness of the reader: what it accepts is a declaration of the grammar, with that EncName -/
theorem parseXmlDecl_sound (buf : Cps) (enc : Option Cps) (rest : Cps) (h : parseXmlDecl buf = some (enc, rest)) :
    ∃ d, buf = d ++ rest ∧ XMLDecl d enc := by
  unfold parseXmlDecl at h
  split at h
  · rename_i hpre
    have hb := isPrefixOf_eq _ _ hpre
    have h5 : (cps "<?xml").length = 5 := by decide
    rw [h5] at hb
    split at h
    · simp at h
    · rename_i v s1 hver
      obtain ⟨vi, hvi, pvi⟩ := parseAttr_sound "version" versionNumB VersionNum versionNum_of_b _ v s1 hver
      split at h
      · rename_i e s2 henc
        obtain ⟨ed, hed, ped⟩ := parseAttr_sound "encoding" encNameB EncName encName_of_b _ e s2 henc
        cases ht : parseDeclTail s2 with
        | none => simp [ht] at h
        | some r =>
          simp only [ht, Option.map_some, Option.some.injEq, Prod.mk.injEq] at h
          obtain ⟨rfl, rfl⟩ := h
          obtain ⟨sd, sp, hs2, psd, psp⟩ := parseDeclTail_sound s2 r ht
          refine ⟨cps "<?xml" ++ vi ++ ed ++ sd ++ sp ++ cps "?>", ?_, ⟨vi, ed, sd, sp, rfl, ⟨v, pvi⟩, ped, psd, psp⟩⟩
          have : buf = cps "<?xml" ++ (vi ++ (ed ++ (sd ++ sp ++ cps "?>" ++ r))) := by
            rw [← hs2, ← hed, ← hvi]; exact hb
          exact this.trans (by simp [List.append_assoc])
      · rename_i henc
        cases ht : parseDeclTail s1 with
        | none => simp [ht] at h
        | some r =>
          simp only [ht, Option.map_some, Option.some.injEq, Prod.mk.injEq] at h
          obtain ⟨rfl, rfl⟩ := h
          obtain ⟨sd, sp, hs2, psd, psp⟩ := parseDeclTail_sound s1 r ht
          refine ⟨cps "<?xml" ++ vi ++ [] ++ sd ++ sp ++ cps "?>", ?_, ⟨vi, [], sd, sp, rfl, ⟨v, pvi⟩, rfl, psd, psp⟩⟩
          have : buf = cps "<?xml" ++ (vi ++ (sd ++ sp ++ cps "?>" ++ r)) := by
            rw [← hs2, ← hvi]; exact hb
          exact this.trans (by simp [List.append_assoc])
  · simp at h

end CssVerif.Encutils
