import CssVerif.Lemmas.EncutilsXml
import CssVerif.Model.EncutilsXml
/-!
# The executable reader `parseXmlDecl` is sound for the grammar `XMLDecl`
-/
set_option linter.unusedSimpArgs false
set_option linter.unusedVariables false

namespace CssVerif.Encutils
open CssVerif CssVerif.Proto CssVerif.Gen

theorem isXmlSb_iff (c : Nat) : isXmlSb c = true ↔ isXmlS c := by
  simp [isXmlSb, isXmlS, or_assoc]

theorem takeS_skipS : ∀ s : Cps, takeS s ++ skipS s = s
  | [] => rfl
  | c :: t => by
    by_cases h : isXmlSb c = true
    · simp [takeS, skipS, h, takeS_skipS t]
    · simp [takeS, skipS, h]

theorem xmlS_takeS : ∀ s : Cps, XmlS (takeS s)
  | [] => by intro c hc; simp [takeS] at hc
  | c :: t => by
    by_cases h : isXmlSb c = true
    · intro x hx
      simp only [takeS, h, if_true, List.mem_cons] at hx
      rcases hx with rfl | hx
      · exact (isXmlSb_iff _).1 h
      · exact xmlS_takeS t x hx
    · intro x hx; simp [takeS, h] at hx

theorem upTo_afterFirst (q : Nat) : ∀ (s r : Cps), afterFirst q s = some r → s = upTo q s ++ q :: r
  | [], r, h => by simp [afterFirst] at h
  | c :: t, r, h => by
    by_cases hc : (c == q) = true
    · simp only [afterFirst, hc, if_true, Option.some.injEq] at h
      have : c = q := by simpa using hc
      simp [upTo, hc, h, this]
    · have hc' : (c == q) = false := by simpa using hc
      simp only [afterFirst, hc', Bool.false_eq_true, if_false] at h
      have ih := upTo_afterFirst q t r h
      simp only [upTo, hc', Bool.false_eq_true, if_false, List.cons_append]
      rw [← ih]

theorem versionNum_of_b (v : Cps) (h : versionNumB v = true) : VersionNum v := by
  match v, h with
  | 49 :: 46 :: d :: ds, h =>
    have e12 : cps "1." = [49, 46] := by decide
    refine ⟨d :: ds, by rw [e12]; rfl, by simp, ?_⟩
    intro c hc
    have := (List.all_eq_true.1 h) c hc
    simpa [isDigitB, isDigitX] using this

theorem encName_of_b (e : Cps) (h : encNameB e = true) : EncName e := by
  match e, h with
  | c :: t, h =>
    simp only [encNameB, Bool.and_eq_true] at h
    refine ⟨c, t, rfl, ?_, ?_⟩
    · simpa [isAlphaB, isAlphaX] using h.1
    · intro x hx
      have := (List.all_eq_true.1 h.2) x hx
      simpa [isAlphaB, isAlphaX, isDigitB, isDigitX, or_assoc] using this

theorem yesNo_of_b (v : Cps) (h : yesNoB v = true) : v = cps "yes" ∨ v = cps "no" := by
  simpa [yesNoB] using h

theorem parseEqValue_sound (ok : Cps → Bool) (s v r : Cps) (h : parseEqValue ok s = some (v, r)) :
    ∃ w1 w2 q, s = w1 ++ cps "=" ++ w2 ++ [q] ++ v ++ [q] ++ r ∧ XmlS w1 ∧ XmlS w2 ∧ isQuote q ∧ ok v = true := by
  unfold parseEqValue at h
  split at h
  · rename_i s1 hs1
    split at h
    · rename_i q s2 hs2
      split at h
      · rename_i hq
        split at h
        · rename_i r' hr
          split at h
          · rename_i hok
            simp only [Option.some.injEq, Prod.mk.injEq] at h
            obtain ⟨rfl, rfl⟩ := h
            refine ⟨takeS s, takeS s1, q, ?_, xmlS_takeS s, xmlS_takeS s1, ?_, hok⟩
            · have a1 := takeS_skipS s
              have a2 := takeS_skipS s1
              have a3 := upTo_afterFirst q s2 r' hr
              rw [hs1] at a1; rw [hs2] at a2
              have e : cps "=" = [61] := by decide
              have key : s = takeS s ++ (61 :: (takeS s1 ++ (q :: (upTo q s2 ++ q :: r')))) := by
                rw [← a3, a2, a1]
              rw [e]
              exact key.trans (by simp [List.append_assoc])
            · simpa [isQuote] using hq
          · simp at h
        · simp at h
      · simp at h
    · simp at h
  · simp at h

theorem parseAttr_sound (name : String) (ok : Cps → Bool) (Value : Cps → Prop) (hV : ∀ v, ok v = true → Value v)
    (s v r : Cps) (h : parseAttr (cps name) ok s = some (v, r)) :
    ∃ a, s = a ++ r ∧ PseudoAttr name Value a v := by
  unfold parseAttr at h
  split at h
  · rename_i hc
    simp only [Bool.and_eq_true, bne_iff_ne, ne_eq] at hc
    obtain ⟨w1, w2, q, hs, hw1, hw2, hq, hok⟩ := parseEqValue_sound ok _ v r h
    have hp := isPrefixOf_eq _ _ hc.2
    have hts := takeS_skipS s
    refine ⟨takeS s ++ cps name ++ w1 ++ cps "=" ++ w2 ++ [q] ++ v ++ [q], ?_,
      ⟨takeS s, w1, w2, q, rfl, xmlS_takeS s, hc.1, hw1, hw2, hq, hV v hok⟩⟩
    conv => lhs; rw [← hts, hp, hs]
    simp [List.append_assoc]
  · simp at h

theorem parseEnd_sound (s rest : Cps) (h : parseEnd s = some rest) : ∃ sp, s = sp ++ cps "?>" ++ rest ∧ XmlS sp := by
  unfold parseEnd at h
  split at h
  · rename_i rest' hend
    simp only [Option.some.injEq] at h
    subst h
    have hs3 := takeS_skipS s
    rw [hend] at hs3
    refine ⟨takeS s, ?_, xmlS_takeS s⟩
    have e : cps "?>" = [63, 62] := by decide
    rw [e]
    exact hs3.symm.trans (by simp [List.append_assoc])
  · simp at h

theorem parseDeclTail_sound (s rest : Cps) (h : parseDeclTail s = some rest) :
    ∃ sd sp, s = sd ++ sp ++ cps "?>" ++ rest ∧ SDDeclOpt sd ∧ XmlS sp := by
  unfold parseDeclTail at h
  split at h
  · rename_i sv r hsd
    obtain ⟨sd, hsd', psd⟩ := parseAttr_sound "standalone" yesNoB _ yesNo_of_b _ sv r hsd
    obtain ⟨sp, hr, psp⟩ := parseEnd_sound r rest h
    refine ⟨sd, sp, ?_, Or.inr ⟨sv, psd⟩, psp⟩
    rw [hsd', hr]; simp [List.append_assoc]
  · obtain ⟨sp, hr, psp⟩ := parseEnd_sound s rest h
    exact ⟨[], sp, by rw [List.nil_append]; exact hr, Or.inl rfl, psp⟩

/-- soundness of the reader: what it accepts is a declaration of the grammar, with that EncName -/
theorem parseXmlDecl_sound (buf : Cps) (enc : Option Cps) (rest : Cps) (h : parseXmlDecl buf = some (enc, rest)) :
    ∃ d, buf = d ++ rest ∧ XMLDecl d enc := by
  unfold parseXmlDecl at h
  split at h
  · rename_i hpre
    have hb := isPrefixOf_eq _ _ hpre
    have h5 : (cps "<?xml").length = 5 := by decide
    rw [h5] at hb
    split at h
    · simp at h
    · rename_i v s1 hver
      obtain ⟨vi, hvi, pvi⟩ := parseAttr_sound "version" versionNumB VersionNum versionNum_of_b _ v s1 hver
      split at h
      · rename_i e s2 henc
        obtain ⟨ed, hed, ped⟩ := parseAttr_sound "encoding" encNameB EncName encName_of_b _ e s2 henc
        cases ht : parseDeclTail s2 with
        | none => simp [ht] at h
        | some r =>
          simp only [ht, Option.map_some, Option.some.injEq, Prod.mk.injEq] at h
          obtain ⟨rfl, rfl⟩ := h
          obtain ⟨sd, sp, hs2, psd, psp⟩ := parseDeclTail_sound s2 r ht
          refine ⟨cps "<?xml" ++ vi ++ ed ++ sd ++ sp ++ cps "?>", ?_, ⟨vi, ed, sd, sp, rfl, ⟨v, pvi⟩, ped, psd, psp⟩⟩
          have : buf = cps "<?xml" ++ (vi ++ (ed ++ (sd ++ sp ++ cps "?>" ++ r))) := by
            rw [← hs2, ← hed, ← hvi]; exact hb
          exact this.trans (by simp [List.append_assoc])
      · rename_i henc
        cases ht : parseDeclTail s1 with
        | none => simp [ht] at h
        | some r =>
          simp only [ht, Option.map_some, Option.some.injEq, Prod.mk.injEq] at h
          obtain ⟨rfl, rfl⟩ := h
          obtain ⟨sd, sp, hs2, psd, psp⟩ := parseDeclTail_sound s1 r ht
          refine ⟨cps "<?xml" ++ vi ++ [] ++ sd ++ sp ++ cps "?>", ?_, ⟨vi, [], sd, sp, rfl, ⟨v, pvi⟩, rfl, psd, psp⟩⟩
          have : buf = cps "<?xml" ++ (vi ++ (sd ++ sp ++ cps "?>" ++ r)) := by
            rw [← hs2, ← hvi]; exact hb
          exact this.trans (by simp [List.append_assoc])
  · simp at h

/-! ## completeness of the reader -/

theorem not_isXmlSb_of {x : Nat} (h : ¬ isXmlS x) : isXmlSb x = false := by
  cases hb : isXmlSb x with
  | false => rfl
  | true => exact absurd ((isXmlSb_iff x).1 hb) h

theorem skipS_run : ∀ (w : Cps) (x : Nat) (t : Cps), XmlS w → ¬ isXmlS x → skipS (w ++ x :: t) = x :: t
  | [], x, t, _, hx => by simp [skipS, not_isXmlSb_of hx]
  | c :: w, x, t, hw, hx => by
    have hc : isXmlSb c = true := (isXmlSb_iff c).2 (hw c (by simp))
    simp only [List.cons_append, skipS, hc, if_true]
    exact skipS_run w x t (fun y hy => hw y (by simp [hy])) hx

theorem takeS_run : ∀ (w : Cps) (x : Nat) (t : Cps), XmlS w → ¬ isXmlS x → takeS (w ++ x :: t) = w
  | [], x, t, _, hx => by simp [takeS, not_isXmlSb_of hx]
  | c :: w, x, t, hw, hx => by
    have hc : isXmlSb c = true := (isXmlSb_iff c).2 (hw c (by simp))
    simp only [List.cons_append, takeS, hc, if_true]
    rw [takeS_run w x t (fun y hy => hw y (by simp [hy])) hx]

theorem upTo_run (q : Nat) : ∀ (v r : Cps), q ∉ v → upTo q (v ++ q :: r) = v
  | [], r, _ => by simp [upTo]
  | c :: v, r, h => by
    have hc : (c == q) = false := by
      have : c ≠ q := fun e => h (by simp [e])
      simpa using this
    simp only [List.cons_append, upTo, hc, Bool.false_eq_true, if_false]
    rw [upTo_run q v r (fun hm => h (by simp [hm]))]

theorem afterFirst_run (q : Nat) : ∀ (v r : Cps), q ∉ v → afterFirst q (v ++ q :: r) = some r
  | [], r, _ => by simp [afterFirst]
  | c :: v, r, h => by
    have hc : (c == q) = false := by
      have : c ≠ q := fun e => h (by simp [e])
      simpa using this
    simp only [List.cons_append, afterFirst, hc, Bool.false_eq_true, if_false]
    exact afterFirst_run q v r (fun hm => h (by simp [hm]))

theorem not_xmlS_of_quote {q : Nat} (h : isQuote q) : ¬ isXmlS q := by
  rcases h with h | h <;> subst h <;> decide

theorem parseEqValue_complete (ok : Cps → Bool) (w1 w2 : Cps) (q : Nat) (v r : Cps) (h1 : XmlS w1) (h2 : XmlS w2)
    (hq : isQuote q) (hv : q ∉ v) (hok : ok v = true) :
    parseEqValue ok (w1 ++ cps "=" ++ w2 ++ [q] ++ v ++ [q] ++ r) = some (v, r) := by
  have e : cps "=" = [61] := by decide
  have hs : w1 ++ cps "=" ++ w2 ++ [q] ++ v ++ [q] ++ r = w1 ++ 61 :: (w2 ++ q :: (v ++ q :: r)) := by
    rw [e]; simp [List.append_assoc]
  have hqb : (q == 34 || q == 39) = true := by simpa [isQuote] using hq
  rw [hs]
  unfold parseEqValue
  rw [skipS_run w1 61 _ h1 (by decide)]
  simp only
  rw [skipS_run w2 q _ h2 (not_xmlS_of_quote hq)]
  simp only [hqb, if_true, afterFirst_run q v r hv, upTo_run q v r hv, hok]

/-- `S name Eq q value q` followed by anything is read back -/
theorem parseAttr_complete (name : String) (ok : Cps → Bool) (Value : Cps → Prop) (a v r : Cps) (c0 : Nat) (n0 : Cps)
    (hname : cps name = c0 :: n0) (hc0 : ¬ isXmlS c0)
    (hV : ∀ v q, Value v → isQuote q → ok v = true ∧ q ∉ v) (h : PseudoAttr name Value a v) :
    parseAttr (cps name) ok (a ++ r) = some (v, r) := by
  obtain ⟨s, w1, w2, q, rfl, hs, hne, hw1, hw2, hq, hval⟩ := h
  have hform : s ++ cps name ++ w1 ++ cps "=" ++ w2 ++ [q] ++ v ++ [q] ++ r =
      s ++ c0 :: (n0 ++ (w1 ++ cps "=" ++ w2 ++ [q] ++ v ++ [q] ++ r)) := by
    rw [hname]; simp [List.append_assoc]
  unfold parseAttr
  rw [hform, takeS_run s c0 _ hs hc0, skipS_run s c0 _ hs hc0]
  have hp : (cps name).isPrefixOf (c0 :: (n0 ++ (w1 ++ cps "=" ++ w2 ++ [q] ++ v ++ [q] ++ r))) = true := by
    rw [hname]; exact isPrefixOf_append (c0 :: n0) _
  have hd : (c0 :: (n0 ++ (w1 ++ cps "=" ++ w2 ++ [q] ++ v ++ [q] ++ r))).drop (cps name).length =
      w1 ++ cps "=" ++ w2 ++ [q] ++ v ++ [q] ++ r := by
    rw [hname]; exact drop_app (c0 :: n0) _ _ rfl
  have hne' : (s != []) = true := by simpa using hne
  simp only [hne', hp, Bool.and_self, if_true, hd]
  exact parseEqValue_complete ok w1 w2 q v r hw1 hw2 hq (hV v q hval hq).2 (hV v q hval hq).1

/-- the attribute is not there: after optional white space comes a character that is not the first of `name` -/
theorem parseAttr_absent (name : String) (ok : Cps → Bool) (w : Cps) (x : Nat) (t : Cps) (c0 : Nat) (n0 : Cps)
    (hname : cps name = c0 :: n0) (hw : XmlS w) (hx : ¬ isXmlS x) (hne : x ≠ c0) :
    parseAttr (cps name) ok (w ++ x :: t) = none := by
  unfold parseAttr
  rw [skipS_run w x t hw hx, hname]
  have : (c0 :: n0).isPrefixOf (x :: t) = false := by
    simp [List.isPrefixOf, Ne.symm hne]
  simp [this]

theorem versionNumB_of (v : Cps) (h : VersionNum v) : versionNumB v = true := by
  obtain ⟨ds, rfl, hne, hd⟩ := h
  have e12 : cps "1." = [49, 46] := by decide
  cases ds with
  | nil => exact absurd rfl hne
  | cons d ds =>
    rw [e12]
    simp only [List.cons_append, List.nil_append, versionNumB, List.all_eq_true]
    intro c hc
    have := hd c hc
    simpa [isDigitB, isDigitX] using this

theorem encNameB_of (e : Cps) (h : EncName e) : encNameB e = true := by
  obtain ⟨c, t, rfl, hc, ht⟩ := h
  simp only [encNameB, Bool.and_eq_true, List.all_eq_true]
  refine ⟨by simpa [isAlphaB, isAlphaX] using hc, ?_⟩
  intro x hx
  have := ht x hx
  simpa [isAlphaB, isAlphaX, isDigitB, isDigitX, or_assoc] using this

theorem parseEnd_complete (s rest : Cps) (hs : XmlS s) : parseEnd (s ++ cps "?>" ++ rest) = some rest := by
  have e : cps "?>" = [63, 62] := by decide
  have : s ++ cps "?>" ++ rest = s ++ 63 :: (62 :: rest) := by rw [e]; simp [List.append_assoc]
  unfold parseEnd
  rw [this, skipS_run s 63 _ hs (by decide)]
  rfl

theorem mem_of_noQuote {v : Cps} {q : Nat} (h : NoQuote v) (hq : isQuote q) : q ∉ v := fun hm => h q hm hq

theorem parseDeclTail_complete (sd s rest : Cps) (hsd : SDDeclOpt sd) (hs : XmlS s) :
    parseDeclTail (sd ++ s ++ cps "?>" ++ rest) = some rest := by
  have e : cps "?>" = [63, 62] := by decide
  have es : cps "standalone" = 115 :: cps "tandalone" := by decide
  unfold parseDeclTail
  rcases hsd with rfl | ⟨v, hp⟩
  · have hform : [] ++ s ++ cps "?>" ++ rest = s ++ 63 :: (62 :: rest) := by rw [e]; simp [List.append_assoc]
    rw [hform, parseAttr_absent "standalone" yesNoB s 63 _ 115 _ es hs (by decide) (by decide)]
    simp only
    rw [← hform, List.nil_append]; exact parseEnd_complete s rest hs
  · have hform : sd ++ s ++ cps "?>" ++ rest = sd ++ (s ++ cps "?>" ++ rest) := by simp [List.append_assoc]
    have hV : ∀ v q, (v = cps "yes" ∨ v = cps "no") → isQuote q → yesNoB v = true ∧ q ∉ v := by
      intro v q hv hq
      rcases hv with rfl | rfl <;> rcases hq with rfl | rfl <;> decide
    rw [hform, parseAttr_complete "standalone" yesNoB _ sd v _ 115 _ es (by decide) hV hp]
    exact parseEnd_complete s rest hs

/-- completeness of the reader: every declaration of the grammar, followed by anything, is read back with its
EncName and what follows -/
theorem parseXmlDecl_complete (d : Cps) (enc : Option Cps) (rest : Cps) (hd : XMLDecl d enc) :
    parseXmlDecl (d ++ rest) = some (enc, rest) := by
  obtain ⟨vi, ed, sd, s, rfl, ⟨v, pvi⟩, hed, hsd, hs⟩ := hd
  have ev : cps "version" = 118 :: cps "ersion" := by decide
  have ee : cps "encoding" = 101 :: cps "ncoding" := by decide
  have es : cps "standalone" = 115 :: cps "tandalone" := by decide
  have e : cps "?>" = [63, 62] := by decide
  have hVv : ∀ v q, VersionNum v → isQuote q → versionNumB v = true ∧ q ∉ v :=
    fun v q hv hq => ⟨versionNumB_of v hv, mem_of_noQuote (noQuote_of_versionNum hv) hq⟩
  have hVe : ∀ v q, EncName v → isQuote q → encNameB v = true ∧ q ∉ v :=
    fun v q hv hq => ⟨encNameB_of v hv, mem_of_noQuote (noQuote_of_encName hv).1 hq⟩
  have hform : cps "<?xml" ++ vi ++ ed ++ sd ++ s ++ cps "?>" ++ rest =
      cps "<?xml" ++ (vi ++ (ed ++ (sd ++ s ++ cps "?>" ++ rest))) := by simp [List.append_assoc]
  unfold parseXmlDecl
  rw [hform, isPrefixOf_append, if_pos rfl, drop_app (cps "<?xml") _ 5 (by decide),
    parseAttr_complete "version" versionNumB VersionNum vi v _ 118 _ ev (by decide) hVv pvi]
  simp only
  cases enc with
  | some en =>
    simp only at hed
    rw [parseAttr_complete "encoding" encNameB EncName ed en _ 101 _ ee (by decide) hVe hed]
    simp only [parseDeclTail_complete sd s rest hsd hs, Option.map_some]
  | none =>
    simp only at hed
    subst hed
    have habs : parseAttr (cps "encoding") encNameB ([] ++ (sd ++ s ++ cps "?>" ++ rest)) = none := by
      rcases hsd with rfl | ⟨sv, s0, y1, y2, q', rfl, hs0, _, _⟩
      · have : [] ++ ([] ++ s ++ cps "?>" ++ rest) = s ++ 63 :: (62 :: rest) := by rw [e]; simp [List.append_assoc]
        rw [this]
        exact parseAttr_absent "encoding" encNameB s 63 _ 101 _ ee hs (by decide) (by decide)
      · have : [] ++ (s0 ++ cps "standalone" ++ y1 ++ cps "=" ++ y2 ++ [q'] ++ sv ++ [q'] ++ s ++ cps "?>" ++ rest) =
            s0 ++ 115 :: (cps "tandalone" ++ (y1 ++ cps "=" ++ y2 ++ [q'] ++ sv ++ [q'] ++ s ++ cps "?>" ++ rest)) := by
          rw [es]; simp [List.append_assoc]
        rw [this]
        exact parseAttr_absent "encoding" encNameB s0 115 _ 101 _ ee hs0 (by decide) (by decide)
    rw [habs]
    simp only [List.nil_append, parseDeclTail_complete sd s rest hsd hs, Option.map_some]

end CssVerif.Encutils
