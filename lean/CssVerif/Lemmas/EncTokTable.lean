import CssVerif.Gen.C08Productions
import CssVerif.Gen.C05Productions
/-!
The tie of T8.4c to the source: `Gen/C08Productions.lean` is regenerated from `cssproductions.py` / `tokenize2.py` by
`./check C08` on every run; the theorems of `Props/C08.lean` are stated over `Gen.C05.productions` (the table the
tokenizer model `Tok` is built on). They are the same table — evaluated by the kernel.
-/
namespace CssVerif.EncTok

theorem productions_current : Gen.C08P.productions = Gen.C05.productions := by decide

theorem subs_current : Gen.C08P.unicodesubRe = Gen.C05.unicodesubRe ∧ Gen.C08P.stringsubRe = Gen.C05.stringsubRe ∧
    Gen.C08P.fastChars = Gen.C05.fastChars ∧ Gen.C08P.unescTypes = Gen.C05.unescTypes ∧
    Gen.C08P.cleanTypes = Gen.C05.cleanTypes := by decide

end CssVerif.EncTok
