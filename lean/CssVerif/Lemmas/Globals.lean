import CssVerif.Model.Globals
import CssVerif.Lemmas.GlobalsProd
/-! helper definitions and lemmas about the top-level state machine (used by `Props/C12.lean`) -/
namespace CssVerif.Globals
open CssVerif.GProd

/-- the part of the global state a user sets on purpose: error mode, serializer object and its preferences,
profile registry -/
structure Vis where
  raising : Bool
  serId : Nat
  prefs : List Nat
  indentSpec : Bool
  profiles : List Nat
  /-- every `CSSParser` object with all its fields -/
  parsers : List Parser
  deriving DecidableEq, Repr

def G.vis (g : G) : Vis := ⟨g.raising, g.ser.id, g.ser.prefs, g.ser.indentSpec, g.profiles, g.parsers⟩

def Step.isExplicit : Step → Bool
  | .setMode _ | .setPref _ _ | .setIndent _ | .newSer | .setProfiles _ | .newParser _ => true
  | _ => false

/-- cannot end in an exception: a log call that never raises, a serialisation -/
def calm : Step → Bool
  | .log true => true
  | .serialize _ => true
  | _ => false

mutual
/-- a library call all the way down: no explicit setter is executed inside (by a fetcher, say); the serialisation
phase of `csscombine` only does what `serialize.py` does (no raising log call — it contains none) -/
def quiet : Step → Bool
  | .log _ => true
  | .imp inner _ sub => quietL inner && quietL sub
  | .pp _ _ => true
  | .setMode _ => false
  | .setPref _ _ => false
  | .setIndent _ => false
  | .newSer => false
  | .setProfiles _ => false
  | .newParser _ => false
  | .parseString _ _ _ body => quietL body
  | .parseStyle _ _ _ body => quietL body
  | .parseFile _ _ _ _ body => quietL body
  | .parseUrl _ _ inner _ _ body => quietL inner && quietL body
  | .direct body => quietL body
  | .combine src post serBody => quiet src && quietL post && quietL serBody && serBody.all calm
  | .serialize _ => true
def quietL : List Step → Bool
  | [] => true
  | s :: ss => quiet s && quietL ss
end

mutual
/-- every production parser started directly by this step (not as somebody's child) uses a grammar that does
not hand tokens back: the stand-alone constructors of the code base (mediaquery.py:52-66 after 24ef513) -/
def topOK (env : Env) : Step → Bool
  | .log _ => true
  | .imp inner _ sub => topOKL env inner && topOKL env sub
  | .pp k _ => !(envPartof env k)
  | .setMode _ => true
  | .setPref _ _ => true
  | .setIndent _ => true
  | .newSer => true
  | .setProfiles _ => true
  | .newParser _ => true
  | .parseString _ _ _ body => topOKL env body
  | .parseStyle _ _ _ body => topOKL env body
  | .parseFile _ _ _ _ body => topOKL env body
  | .parseUrl _ _ inner _ _ body => topOKL env inner && topOKL env body
  | .direct body => topOKL env body
  | .combine src post serBody => topOK env src && topOKL env post && topOKL env serBody
  | .serialize _ => true
def topOKL (env : Env) : List Step → Bool
  | [] => true
  | s :: ss => topOK env s && topOKL env ss
end

/-- a model artefact was observed: a production parser ran out of fuel or met a case the model does not cover -/
def hasArt : List Obs → Bool
  | [] => false
  | .pp .noFuel :: _ => true
  | .pp .unsupported :: _ => true
  | _ :: r => hasArt r

theorem hasArt_append (a b : List Obs) : hasArt (a ++ b) = (hasArt a || hasArt b) := by
  induction a with
  | nil => simp [hasArt]
  | cons x xs ih =>
    cases x with
    | pp o => cases o <;> simp [hasArt, ih]
    | _ => simp [hasArt, ih]

/-- a history: the caller catches whatever a step raises and goes on -/
def runHistory (env : Env) (fuel : Nat) : List Step → G → G × List (Except Err Unit × List Obs)
  | [], g => (g, [])
  | s :: ss, g =>
    let r := runStep env fuel s g
    let x := runHistory env fuel ss r.g
    (x.1, (r.res, r.obs) :: x.2)

/-- only the explicit setters of a history -/
def explicitOnly (env : Env) (fuel : Nat) : List Step → G → G
  | [], g => g
  | s :: ss, g => if s.isExplicit then explicitOnly env fuel ss (runStep env fuel s g).g else explicitOnly env fuel ss g

/-- equal up to what no call ever reads before overwriting it: the content of the push-back queue, the
identity of the serializer object, the counter for fresh identities -/
def Agree (g g' : G) : Prop :=
  g.raising = g'.raising ∧ g.saved = g'.saved ∧ g.ser.prefs = g'.ser.prefs ∧ g.ser.indentSpec = g'.ser.indentSpec ∧
  g.profiles = g'.profiles ∧ g.parsers = g'.parsers

theorem Agree.refl (g : G) : Agree g g := by simp [Agree]
theorem Agree.symm {g g' : G} (h : Agree g g') : Agree g' g := by
  simp only [Agree] at *; simp [h]
theorem Agree.trans {a b c : G} (h : Agree a b) (h' : Agree b c) : Agree a c := by
  simp only [Agree] at *
  obtain ⟨h1, h2, h3, h4, h5, h6⟩ := h
  simp [*]

/-! ### T12.1: quiet steps restore the mode, the serializer and its preferences, the profiles -/

theorem importLoad_g (r : R) : (importLoad r).1.g = r.g := by
  unfold importLoad; split
  · split <;> rfl
  · rfl

theorem importLoad_obs (r : R) : (importLoad r).1.obs = r.obs := by
  unfold importLoad; split
  · split <;> rfl
  · rfl

/-- what a quiet step leaves as it was -/
def Kept (g g' : G) : Prop := g'.vis = g.vis

theorem Kept.refl (g : G) : Kept g g := rfl
theorem Kept.trans {a b c : G} (h : Kept a b) (h' : Kept b c) : Kept a c := by
  unfold Kept at *; rw [h', h]

/-- the last thing an entry point does: hand the sheet / declaration to the caller -/
theorem tail_kept (g : G) (obs : List Obs) : Kept g (R.mk (.ok ()) g obs).g := Kept.refl g

theorem seqR_kept {g : G} {a : R} {k : G → R} (ha : Kept g a.g) (hk : ∀ g1, Kept g1 (k g1).g) :
    Kept g (seqR a k).g := by
  unfold seqR
  split
  · exact ha
  · exact ha.trans (hk _)

theorem importOnce_kept (attempt : G → R) (g : G) (h : ∀ g1, Kept g1 (attempt g1).g) :
    Kept g (importOnce attempt g).g := by
  unfold importOnce
  rw [importLoad_g]; exact h g

theorem withParseSetting_kept (p : Parser) (body : G → R) (g : G) (hb : ∀ g1, Kept g1 (body g1).g) :
    Kept g (withParseSetting p body g).g := by
  unfold withParseSetting
  have h1 := hb { g with raising := p.raising }
  simp only [Kept, G.vis, Vis.mk.injEq] at h1 ⊢
  simp_all

theorem decode_kept (inp : Input) (g : G) (k : G → R) (hk : ∀ g1, Kept g1 (k g1).g) : Kept g (decode inp g k).g := by
  unfold decode
  split
  · exact Kept.refl g
  · exact hk g

theorem calm_ok (env : Env) (fuel : Nat) : ∀ (l : List Step) (g : G), l.all calm = true →
    (runSteps env fuel l g).res = .ok () := by
  intro l
  induction l with
  | nil => intro g _; simp [runSteps]
  | cons s ss ih =>
    intro g h
    simp only [List.all_cons, Bool.and_eq_true] at h
    obtain ⟨h1, h2⟩ := h
    unfold runSteps seqR
    cases s <;> simp only [calm, Bool.false_eq_true] at h1
    · rename_i never
      cases never <;> simp only [calm, Bool.false_eq_true] at h1
      simp only [runStep, doLog, Bool.not_true, Bool.and_false, Bool.false_eq_true, if_false]
      exact ih _ h2
    · simp only [runStep]
      exact ih _ h2

mutual
theorem runStep_kept (env : Env) (fuel : Nat) : ∀ (s : Step) (g : G), quiet s = true → Kept g (runStep env fuel s g).g
  | .log never, g, _ => by
    simp only [runStep, doLog]; split <;> exact Kept.refl g
  | .imp inner res sub, g, h => by
    simp only [quiet, Bool.and_eq_true] at h
    simp only [runStep]
    apply importOnce_kept
    intro g0
    apply seqR_kept (Kept.refl g0)
    intro g1
    apply seqR_kept (runSteps_kept env fuel inner g1 h.1)
    intro g2
    cases res with
    | raises e => exact Kept.refl _
    | nothing => exact Kept.refl _
    | content => exact runSteps_kept env fuel sub g2 h.2
  | .pp k src, g, _ => by
    simp only [runStep]
    have hr := ctor_raising env fuel k src g.toPG
    have : Kept g { g with toPG := (ctor env fuel k src g.toPG).g } := by
      simp only [Kept, G.vis, Vis.mk.injEq]
      simp [hr]
    split <;> exact this
  | .setMode _, _, h => by simp [quiet] at h
  | .setPref _ _, _, h => by simp [quiet] at h
  | .setIndent _, _, h => by simp [quiet] at h
  | .newSer, _, h => by simp [quiet] at h
  | .setProfiles _, _, h => by simp [quiet] at h
  | .newParser _, _, h => by simp [quiet] at h
  | .parseString p v inp body, g, h => by
    simp only [quiet] at h
    simp only [runStep]
    exact withParseSetting_kept _ _ g fun g1 => decode_kept inp g1 _ fun g2 =>
      seqR_kept (runSteps_kept env fuel body g2 h) fun g3 => tail_kept g3 _
  | .parseStyle p v inp body, g, h => by
    simp only [quiet] at h
    simp only [runStep]
    exact withParseSetting_kept _ _ g fun g1 => decode_kept inp g1 _ fun g2 =>
      seqR_kept (runSteps_kept env fuel body g2 h) fun g3 => tail_kept g3 _
  | .parseFile p v found inp body, g, h => by
    simp only [quiet] at h
    simp only [runStep]
    split
    · exact Kept.refl g
    · exact withParseSetting_kept _ _ g fun g1 => decode_kept inp g1 _ fun g2 =>
        seqR_kept (runSteps_kept env fuel body g2 h) fun g3 => tail_kept g3 _
  | .parseUrl p v inner res inp body, g, h => by
    simp only [quiet, Bool.and_eq_true] at h
    simp only [runStep]
    apply seqR_kept (Kept.refl g)
    intro g1
    apply seqR_kept (runSteps_kept env fuel inner g1 h.1)
    intro g2
    cases res with
    | raises e => exact Kept.refl _
    | nothing => exact Kept.refl _
    | content =>
      exact withParseSetting_kept _ _ g2 fun g1 => decode_kept inp g1 _ fun g2 =>
        seqR_kept (runSteps_kept env fuel body g2 h.2) fun g3 => tail_kept g3 _
  | .direct body, g, h => by
    simp only [quiet] at h
    simp only [runStep]
    exact runSteps_kept env fuel body g h
  | .combine src post serBody, g, h => by
    simp only [quiet, Bool.and_eq_true] at h
    obtain ⟨⟨⟨h1, h2⟩, h3⟩, h4⟩ := h
    simp only [runStep]
    apply seqR_kept (runStep_kept env fuel src g h1)
    intro g1
    apply seqR_kept (runSteps_kept env fuel post g1 h2)
    intro g2
    -- the serialisation phase cannot raise, so the old serializer is put back
    have hok := calm_ok env fuel serBody
      { g2 with ser := ⟨g2.nextSer, freshPrefs, false⟩, nextSer := g2.nextSer + 1 } h4
    have hk1 := runSteps_kept env fuel serBody
      { g2 with ser := ⟨g2.nextSer, freshPrefs, false⟩, nextSer := g2.nextSer + 1 } h3
    unfold seqR
    simp only [hok]
    simp only [Kept, G.vis, Vis.mk.injEq] at hk1 ⊢
    simp_all
  | .serialize rules, g, _ => by
    simp only [runStep]; exact Kept.refl g
theorem runSteps_kept (env : Env) (fuel : Nat) : ∀ (l : List Step) (g : G), quietL l = true → Kept g (runSteps env fuel l g).g
  | [], g, _ => by simp only [runSteps]; exact Kept.refl g
  | s :: ss, g, h => by
    simp only [quietL, Bool.and_eq_true] at h
    simp only [runSteps]
    exact seqR_kept (runStep_kept env fuel s g h.1) fun g1 => runSteps_kept env fuel ss g1 h.2
end

/-! ### T12.2: nothing stays in `savedTokens` -/

/-- "clean on exit unless a model artefact was observed" -/
def SavedOK (r : R) : Prop := hasArt r.obs = false → r.g.saved = []

theorem seqR_saved {a : R} {k : G → R} (ha : SavedOK a) (hk : ∀ g1, g1.saved = [] → SavedOK (k g1)) :
    SavedOK (seqR a k) := by
  unfold seqR SavedOK
  split
  · exact ha
  · rename_i hok
    simp only [hasArt_append, Bool.or_eq_false_iff]
    intro ⟨h1, h2⟩
    exact hk _ (ha h1) h2

theorem importLoad_saved {r : R} (h : SavedOK r) : SavedOK (importLoad r).1 := by
  unfold SavedOK; rw [importLoad_g, importLoad_obs]; exact h

theorem importOnce_saved (attempt : G → R) (g : G) (hg : g.saved = [])
    (h : ∀ g1, g1.saved = [] → SavedOK (attempt g1)) : SavedOK (importOnce attempt g) := by
  unfold importOnce
  exact importLoad_saved (h g hg)

theorem withParseSetting_saved (p : Parser) (body : G → R) (g : G) (hb : SavedOK (body { g with raising := p.raising })) :
    SavedOK (withParseSetting p body g) := by
  unfold withParseSetting SavedOK
  exact hb

theorem decode_saved (inp : Input) (g : G) (k : G → R) (hg : g.saved = []) (hk : SavedOK (k g)) :
    SavedOK (decode inp g k) := by
  unfold decode
  split
  · intro _; exact hg
  · exact hk

mutual
theorem runStep_saved (env : Env) (hwf : wfEnv env = true) (fuel : Nat) : ∀ (s : Step) (g : G),
    topOK env s = true → g.saved = [] → SavedOK (runStep env fuel s g)
  | .log never, g, _, hg => by
    simp only [runStep, doLog]; split <;> (intro _; exact hg)
  | .imp inner res sub, g, h, hg => by
    simp only [topOK, Bool.and_eq_true] at h
    simp only [runStep]
    apply importOnce_saved _ g hg
    intro g0 hg0
    apply seqR_saved (fun _ => hg0)
    intro g1 hg1
    apply seqR_saved (runSteps_saved env hwf fuel inner g1 h.1 hg1)
    intro g2 hg2
    cases res with
    | raises e => intro _; exact hg2
    | nothing => intro _; exact hg2
    | content => exact runSteps_saved env hwf fuel sub g2 h.2 hg2
  | .pp k src, g, h, hg => by
    simp only [topOK, Bool.not_eq_true'] at h
    simp only [runStep]
    have hb := ctor_handback env hwf fuel k src g.toPG hg
    obtain ⟨_, hb⟩ := hb
    simp only [h, Bool.false_eq_true, false_and, or_false] at hb
    split
    · rename_i ho
      intro _
      rcases hb with hb | hb | hb
      · simp [ho] at hb
      · simp [ho] at hb
      · exact hb
    · intro ha
      rcases hb with hb | hb | hb
      · simp [hb, hasArt] at ha
      · simp [hb, hasArt] at ha
      · exact hb
  | .setMode _, g, _, hg => by simp only [runStep]; intro _; exact hg
  | .setPref _ _, g, _, hg => by simp only [runStep]; intro _; exact hg
  | .setIndent _, g, _, hg => by simp only [runStep]; intro _; exact hg
  | .newSer, g, _, hg => by simp only [runStep]; intro _; exact hg
  | .setProfiles _, g, _, hg => by simp only [runStep]; intro _; exact hg
  | .newParser _, g, _, hg => by simp only [runStep]; intro _; exact hg
  | .parseString p v inp body, g, h, hg => by
    simp only [topOK] at h
    simp only [runStep]
    exact withParseSetting_saved _ _ g (decode_saved inp _ _ hg
      (seqR_saved (runSteps_saved env hwf fuel body _ h hg) fun g3 hg3 _ => hg3))
  | .parseStyle p v inp body, g, h, hg => by
    simp only [topOK] at h
    simp only [runStep]
    exact withParseSetting_saved _ _ g (decode_saved inp _ _ hg
      (seqR_saved (runSteps_saved env hwf fuel body _ h hg) fun g3 hg3 _ => hg3))
  | .parseFile p v found inp body, g, h, hg => by
    simp only [topOK] at h
    simp only [runStep]
    split
    · intro _; exact hg
    · exact withParseSetting_saved _ _ g (decode_saved inp _ _ hg
        (seqR_saved (runSteps_saved env hwf fuel body _ h hg) fun g3 hg3 _ => hg3))
  | .parseUrl p v inner res inp body, g, h, hg => by
    simp only [topOK, Bool.and_eq_true] at h
    simp only [runStep]
    apply seqR_saved (fun _ => hg)
    intro g1 hg1
    apply seqR_saved (runSteps_saved env hwf fuel inner g1 h.1 hg1)
    intro g2 hg2
    cases res with
    | raises e => intro _; exact hg2
    | nothing => intro _; exact hg2
    | content =>
      exact withParseSetting_saved _ _ g2 (decode_saved inp _ _ hg2
        (seqR_saved (runSteps_saved env hwf fuel body _ h.2 hg2) fun g3 hg3 _ => hg3))
  | .direct body, g, h, hg => by
    simp only [topOK] at h
    simp only [runStep]
    exact runSteps_saved env hwf fuel body g h hg
  | .combine src post serBody, g, h, hg => by
    simp only [topOK, Bool.and_eq_true] at h
    obtain ⟨⟨h1, h2⟩, h3⟩ := h
    simp only [runStep]
    apply seqR_saved (runStep_saved env hwf fuel src g h1 hg)
    intro g1 hg1
    apply seqR_saved (runSteps_saved env hwf fuel post g1 h2 hg1)
    intro g2 hg2
    apply seqR_saved (runSteps_saved env hwf fuel serBody { g2 with ser := ⟨g2.nextSer, freshPrefs, false⟩, nextSer := g2.nextSer + 1 } h3 hg2)
    intro g3 hg3 _
    exact hg3
  | .serialize rules, g, _, hg => by
    simp only [runStep]; intro _; exact hg
theorem runSteps_saved (env : Env) (hwf : wfEnv env = true) (fuel : Nat) : ∀ (l : List Step) (g : G),
    topOKL env l = true → g.saved = [] → SavedOK (runSteps env fuel l g)
  | [], g, _, hg => by simp only [runSteps]; intro _; exact hg
  | s :: ss, g, h, hg => by
    simp only [topOKL, Bool.and_eq_true] at h
    simp only [runSteps]
    exact seqR_saved (runStep_saved env hwf fuel s g h.1 hg) fun g1 hg1 => runSteps_saved env hwf fuel ss g1 h.2 hg1
end

/-! ### T12.3: results do not depend on what earlier calls left behind -/

/-- same result, same observations, and the states still agree -/
def Sim (r r' : R) : Prop := r.res = r'.res ∧ r.obs = r'.obs ∧ Agree r.g r'.g

theorem seqR_sim {a a' : R} {k k' : G → R} (ha : Sim a a') (hk : ∀ g g', Agree g g' → Sim (k g) (k' g')) :
    Sim (seqR a k) (seqR a' k') := by
  obtain ⟨h1, h2, h3⟩ := ha
  unfold seqR
  rw [← h1]
  split
  · exact ⟨rfl, h2, h3⟩
  · obtain ⟨h4, h5, h6⟩ := hk _ _ h3
    exact ⟨h4, by simp [h2, h5], h6⟩

theorem Agree.setRaising {a b : G} (h : Agree a b) (x : Bool) :
    Agree { a with raising := x } { b with raising := x } := by
  obtain ⟨_, h2, h3, h4, h5, h6⟩ := h
  exact ⟨rfl, h2, h3, h4, h5, h6⟩

theorem withParseSetting_sim (p : Parser) (body body' : G → R) (g g' : G) (hg : Agree g g')
    (hb : ∀ g g', Agree g g' → Sim (body g) (body' g')) :
    Sim (withParseSetting p body g) (withParseSetting p body' g') := by
  unfold withParseSetting
  obtain ⟨h1, h2, h3⟩ := hb _ _ (hg.setRaising p.raising)
  refine ⟨h1, h2, ?_⟩
  have hr : g.raising = g'.raising := hg.1
  simp only [hr]
  exact h3.setRaising _

theorem importLoad_sim {r r' : R} (h : Sim r r') :
    Sim (importLoad r).1 (importLoad r').1 ∧ (importLoad r).2 = (importLoad r').2 := by
  obtain ⟨h1, h2, h3⟩ := h
  unfold importLoad
  rw [← h1]
  split
  · split
    · exact ⟨⟨rfl, h2, h3⟩, rfl⟩
    · exact ⟨⟨h1, h2, h3⟩, rfl⟩
  · exact ⟨⟨h1, h2, h3⟩, rfl⟩

theorem importOnce_sim (attempt attempt' : G → R) (g g' : G) (hg : Agree g g')
    (h : ∀ g g', Agree g g' → Sim (attempt g) (attempt' g')) :
    Sim (importOnce attempt g) (importOnce attempt' g') := by
  unfold importOnce
  exact (importLoad_sim (h g g' hg)).1

theorem decode_sim (inp : Input) (g g' : G) (k k' : G → R) (hg : Agree g g') (hk : Sim (k g) (k' g')) :
    Sim (decode inp g k) (decode inp g' k') := by
  unfold decode
  split
  · exact ⟨rfl, rfl, hg⟩
  · exact hk

theorem parser_of_agree {g g' : G} (h : Agree g g') (p : PRef) : g.parser p = g'.parser p := by
  cases p with
  | obj i => simp [G.parser, h.2.2.2.2.2]
  | fresh q => rfl

/-- the body of the four entry points -/
theorem parseBody_sim (env : Env) (fuel : Nat) (pa : Parser) (b : Bool) (inp : Input) (body : List Step) (g g' : G)
    (h : Agree g g') (hb : ∀ g g', Agree g g' → Sim (runSteps env fuel body g) (runSteps env fuel body g')) :
    Sim (withParseSetting pa (fun g1 => decode inp g1 fun g1 =>
          seqR (runSteps env fuel body g1) fun g2 => ⟨.ok (), g2, [.validating b]⟩) g)
        (withParseSetting pa (fun g1 => decode inp g1 fun g1 =>
          seqR (runSteps env fuel body g1) fun g2 => ⟨.ok (), g2, [.validating b]⟩) g') :=
  withParseSetting_sim pa _ _ g g' h fun g1 g1' h1 => decode_sim inp g1 g1' _ _ h1
    (seqR_sim (hb g1 g1' h1) fun g2 g2' h2 => ⟨rfl, rfl, h2⟩)

theorem toPG_eq_of_agree {g g' : G} (h : Agree g g') : g.toPG = { g'.toPG with pushed := g.pushed } := by
  obtain ⟨h1, h2, _⟩ := h
  cases hg : g.toPG
  cases hg' : g'.toPG
  have e1 : g.raising = g.toPG.raising := rfl
  have e2 : g.saved = g.toPG.saved := rfl
  have e3 : g.pushed = g.toPG.pushed := rfl
  have f1 : g'.raising = g'.toPG.raising := rfl
  have f2 : g'.saved = g'.toPG.saved := rfl
  simp_all

mutual
theorem runStep_sim (env : Env) (fuel : Nat) : ∀ (s : Step) (g g' : G), Agree g g' →
    Sim (runStep env fuel s g) (runStep env fuel s g')
  | .log never, g, g', h => by
    simp only [runStep, doLog]
    have hr : g.raising = g'.raising := h.1
    rw [hr]
    split <;> exact ⟨rfl, rfl, h⟩
  | .imp inner res sub, g, g', h => by
    simp only [runStep]
    apply importOnce_sim _ _ g g' h
    intro g0 g0' h0
    refine seqR_sim (a := ⟨.ok (), g0, [.seen g0.raising]⟩) (a' := ⟨.ok (), g0', [.seen g0'.raising]⟩) ⟨rfl, ?_, h0⟩ ?_
    · simp [h0.1]
    intro g1 g1' h1
    apply seqR_sim (runSteps_sim env fuel inner g1 g1' h1)
    intro g2 g2' h2
    cases res with
    | raises e => exact ⟨rfl, rfl, h2⟩
    | nothing => exact ⟨rfl, rfl, h2⟩
    | content => exact runSteps_sim env fuel sub g2 g2' h2
  | .pp k src, g, g', h => by
    simp only [runStep]
    have e : ctor env fuel k src g.toPG = ctor env fuel k src g'.toPG := by
      rw [toPG_eq_of_agree h, ctor_ignores_pushed]
    rw [e]
    have ha : Agree { g with toPG := (ctor env fuel k src g'.toPG).g } { g' with toPG := (ctor env fuel k src g'.toPG).g } := by
      simp only [Agree] at h ⊢; simp [h]
    split <;> exact ⟨rfl, rfl, ha⟩
  | .setMode _, g, g', h => by
    simp only [runStep]; refine ⟨rfl, rfl, ?_⟩; simp only [Agree] at h ⊢; simp [h]
  | .setPref _ _, g, g', h => by
    simp only [runStep]; refine ⟨rfl, rfl, ?_⟩; simp only [Agree] at h ⊢; simp [h]
  | .setIndent _, g, g', h => by
    simp only [runStep]; refine ⟨rfl, rfl, ?_⟩; simp only [Agree] at h ⊢; simp [h]
  | .newSer, g, g', h => by
    simp only [runStep]; refine ⟨rfl, rfl, ?_⟩; simp only [Agree] at h ⊢; simp [h]
  | .setProfiles _, g, g', h => by
    simp only [runStep]; refine ⟨rfl, rfl, ?_⟩; simp only [Agree] at h ⊢; simp [h]
  | .newParser _, g, g', h => by
    simp only [runStep]; refine ⟨rfl, rfl, ?_⟩; simp only [Agree] at h ⊢; simp [h]
  | .parseString p v inp body, g, g', h => by
    simp only [runStep]
    rw [parser_of_agree h p]
    exact parseBody_sim env fuel _ _ inp body g g' h (runSteps_sim env fuel body)
  | .parseStyle p v inp body, g, g', h => by
    simp only [runStep]
    rw [parser_of_agree h p]
    exact parseBody_sim env fuel _ _ inp body g g' h (runSteps_sim env fuel body)
  | .parseFile p v found inp body, g, g', h => by
    simp only [runStep]
    split
    · exact ⟨rfl, rfl, h⟩
    · rw [parser_of_agree h p]
      exact parseBody_sim env fuel _ _ inp body g g' h (runSteps_sim env fuel body)
  | .parseUrl p v inner res inp body, g, g', h => by
    simp only [runStep]
    refine seqR_sim (a := ⟨.ok (), g, [.seen g.raising]⟩) (a' := ⟨.ok (), g', [.seen g'.raising]⟩) ⟨rfl, ?_, h⟩ ?_
    · simp [h.1]
    intro g1 g1' h1
    apply seqR_sim (runSteps_sim env fuel inner g1 g1' h1)
    intro g2 g2' h2
    cases res with
    | raises e => exact ⟨rfl, rfl, h2⟩
    | nothing => exact ⟨rfl, rfl, h2⟩
    | content =>
      simp only []
      rw [parser_of_agree h2 p]
      exact parseBody_sim env fuel _ _ inp body g2 g2' h2 (runSteps_sim env fuel body)
  | .direct body, g, g', h => by
    simp only [runStep]
    exact runSteps_sim env fuel body g g' h
  | .combine src post serBody, g, g', h => by
    simp only [runStep]
    apply seqR_sim (runStep_sim env fuel src g g' h)
    intro g1 g1' h1
    apply seqR_sim (runSteps_sim env fuel post g1 g1' h1)
    intro g2 g2' h2
    have hin : Agree { g2 with ser := ⟨g2.nextSer, freshPrefs, false⟩, nextSer := g2.nextSer + 1 }
        { g2' with ser := ⟨g2'.nextSer, freshPrefs, false⟩, nextSer := g2'.nextSer + 1 } := by
      simp only [Agree] at h2 ⊢; simp [h2]
    apply seqR_sim (runSteps_sim env fuel serBody _ _ hin)
    intro g3 g3' h3
    refine ⟨rfl, rfl, ?_⟩
    simp only [Agree] at h2 h3 ⊢
    simp [h2, h3]
  | .serialize rules, g, g', h => by
    simp only [runStep]
    rw [h.2.2.2.1]
    exact ⟨rfl, rfl, h⟩
theorem runSteps_sim (env : Env) (fuel : Nat) : ∀ (l : List Step) (g g' : G), Agree g g' →
    Sim (runSteps env fuel l g) (runSteps env fuel l g')
  | [], g, g', h => by simp only [runSteps]; exact ⟨rfl, rfl, h⟩
  | s :: ss, g, g', h => by
    simp only [runSteps]
    exact seqR_sim (runStep_sim env fuel s g g' h) fun g1 g1' h1 => runSteps_sim env fuel ss g1 g1' h1
end

/-! ### histories -/

theorem Agree.of_kept {g g1 : G} (hk : Kept g g1) (hs : g.saved = []) (hs1 : g1.saved = []) : Agree g1 g := by
  simp only [Kept, G.vis, Vis.mk.injEq] at hk
  exact ⟨hk.1, by rw [hs, hs1], hk.2.2.1, hk.2.2.2.1, hk.2.2.2.2.1, hk.2.2.2.2.2⟩

theorem explicit_step (env : Env) (fuel : Nat) (s : Step) (g : G) (he : s.isExplicit = true) (hs : g.saved = []) :
    (runStep env fuel s g).g.saved = [] := by
  cases s <;> simp only [Step.isExplicit, Bool.false_eq_true] at he <;> simp [runStep, hs]

/-- a history of library calls and explicit settings ends in the state that the explicit settings alone
produce — up to `Agree`, i.e. up to what no later call can see -/
theorem history_agree (env : Env) (hwf : wfEnv env = true) (fuel : Nat) : ∀ (h : List Step) (g g' : G),
    (∀ s ∈ h, s.isExplicit = true ∨ (quiet s = true ∧ topOK env s = true)) →
    Agree g g' → g.saved = [] →
    (∀ x ∈ (runHistory env fuel h g).2, hasArt x.2 = false) →
    Agree (runHistory env fuel h g).1 (explicitOnly env fuel h g') := by
  intro h
  induction h with
  | nil => intro g g' _ ha _ _; simpa [runHistory, explicitOnly] using ha
  | cons s ss ih =>
    intro g g' hq ha hs hart
    simp only [runHistory, explicitOnly]
    have hq' : ∀ s ∈ ss, s.isExplicit = true ∨ (quiet s = true ∧ topOK env s = true) :=
      fun x hx => hq x (List.mem_cons_of_mem _ hx)
    have hart0 : hasArt (runStep env fuel s g).obs = false := by
      have := hart ((runStep env fuel s g).res, (runStep env fuel s g).obs) (by simp [runHistory])
      exact this
    have hart' : ∀ x ∈ (runHistory env fuel ss (runStep env fuel s g).g).2, hasArt x.2 = false :=
      fun x hx => hart x (by simp only [runHistory]; exact List.mem_cons_of_mem _ hx)
    rcases hq s (List.mem_cons_self) with he | ⟨hqs, hts⟩
    · simp only [he, if_true]
      exact ih _ _ hq' (runStep_sim env fuel s g g' ha).2.2 (explicit_step env fuel s g he hs) hart'
    · have hne : s.isExplicit = false := by
        cases s <;> simp_all [Step.isExplicit, quiet]
      simp only [hne, Bool.false_eq_true, if_false]
      have hk := runStep_kept env fuel s g hqs
      have hsv := runStep_saved env hwf fuel s g hts hs hart0
      have hag : Agree (runStep env fuel s g).g g := Agree.of_kept hk hs hsv
      exact ih _ _ hq' (hag.trans ha) hsv hart'

theorem seqR_head (a : R) (k : G → R) (x : Obs) (h : a.obs.head? = some x) :
    (seqR a k).obs.head? = some x := by
  unfold seqR
  split
  · exact h
  · cases ha : a.obs with
    | nil => simp [ha] at h
    | cons y ys => simp [ha] at h ⊢; exact h

theorem importOnce_head (attempt : G → R) (g : G) (x : Obs) (h : (attempt g).obs.head? = some x) :
    (importOnce attempt g).obs.head? = some x := by
  unfold importOnce
  rw [importLoad_obs]; exact h

end CssVerif.Globals
