import CssVerif.Model.OutEffectDom
import CssVerif.Lemmas.OutDeclLayout
import CssVerif.Lemmas.OutEffectDecl
/-!
# T6.3 — the content filters at their points of use are DOM filters
-/
namespace CssVerif.Out
open CssVerif.Proto (Cps)

/-- an item of a declaration block that the preference record suppresses: a comment when comments are dropped, a
property that is not written (empty name sequence, not well-formed, or invalid under `validOnly`) -/
def DItem.dropped (p : Prefs) : DItem → Bool
  | .comment _ => !p.keepComments
  | .prop pr => !(!pr.nameseq.isEmpty && pr.wf && validOk p pr.valid)
  | _ => false

/-- properties are ordinary ones (`_mediaQuery` is a leftover of an old MediaQuery implementation) -/
def DItem.plainProp : DItem → Bool
  | .prop pr => !pr.mq
  | _ => true

theorem declHere_dropped (p : Prefs) (lv : Nat) (sep : Cps) (om : Bool) (it : DItem) (hm : it.plainProp = true)
    (hd : it.dropped p = true) : declHere p lv sep om it = pure [] := by
  cases it with
  | comment t =>
    have : p.keepComments = false := by simpa [DItem.dropped] using hd
    simp [declHere, this]
  | prop pr =>
    have hmq : pr.mq = false := by simpa [DItem.plainProp] using hm
    have he := doProperty_isEmpty p lv pr hmq
    simp only [DItem.dropped] at hd
    rw [hd] at he
    simp [declHere, he]
  | urule r => simp [DItem.dropped] at hd
  | other s => simp [DItem.dropped] at hd

/-- **T6.3 (declaration block).** The loop of `do_css_CSSStyleDeclaration` with the filters at the point of use
writes exactly what it writes for the filtered sequence — for every preference record (all combinations of
keepComments / validOnly / … at once). Stated for `omitLast = false`; the interaction with the omission of the last
semicolon is `declOut_last_dropped` below. -/
theorem declOut_filter (p : Prefs) (lv : Nat) (sep : Cps) :
    ∀ items : List DItem, (∀ it ∈ items, it.plainProp = true) →
      declOut p lv sep false items = declOut p lv sep false (items.filter fun it => !it.dropped p)
  | [], _ => rfl
  | it :: rest, hm => by
    have ih := declOut_filter p lv sep rest (fun x hx => hm x (List.mem_cons_of_mem _ hx))
    simp only [List.filter_cons]
    by_cases hd : it.dropped p = true
    · simp only [hd, Bool.not_true, Bool.false_eq_true, if_false]
      rw [← ih]
      simp only [declOut, Bool.false_and]
      rw [declHere_dropped p lv sep false it (hm it List.mem_cons_self) hd]
      simp only [pure, Except.pure]
      cases declOut p lv sep false rest <;> simp [pure, Except.pure]
    · have hd' : it.dropped p = false := by simpa using hd
      simp only [hd', Bool.not_false, if_true, declOut, Bool.false_and]
      rw [ih]

/-- **T6.4a (comment dropping × last-semicolon omission).** When the last item of the sequence is suppressed (e.g. a
comment while `keepComments` is off) no semicolon is omitted: the block is written as with `omitLastSemicolon` off,
so the last *written* property keeps its `;`. -/
theorem declOut_last_dropped (p : Prefs) (lv : Nat) (sep : Cps) (last : DItem) (hl : last.dropped p = true)
    (hlm : last.plainProp = true) :
    ∀ items : List DItem, declOut p lv sep true (items ++ [last]) = declOut p lv sep false (items ++ [last])
  | [] => by
    simp only [List.nil_append, declOut]
    rw [declHere_dropped p lv sep _ last hlm hl, declHere_dropped p lv sep _ last hlm hl]
  | it :: rest => by
    have ih := declOut_last_dropped p lv sep last hl hlm rest
    have hne : (rest ++ [last]).isEmpty = false := by simp
    simp only [List.cons_append, declOut, hne, Bool.and_false, Bool.false_and]
    rw [ih]

/-- **T6.4b (`validOnly`, also inside `@font-face`).** An invalid property is not written whenever `validOnly` is
set — in every declaration block, whatever rule it belongs to, whatever the other preferences are. -/
theorem invalid_property_not_written (p : Prefs) (lv : Nat) (sep : Cps) (om : Bool) (pr : Property)
    (hmq : pr.mq = false) (hv : p.validOnly = true) (hi : pr.valid = false) :
    declHere p lv sep om (.prop pr) = pure [] := by
  apply declHere_dropped p lv sep om (.prop pr) (by simp [DItem.plainProp, hmq])
  simp [DItem.dropped, validOk, hv, hi]

/-- … and a valid one always passes the `validOnly` guard -/
theorem valid_property_passes (p : Prefs) : validOk p true = true := by
  unfold validOk; cases p.validOnly <;> rfl


/-! ### rules -/

theorem doRule_dropped (p : Prefs) (lv sl : Nat) (r : Rule) (hd : r.dropped p lv sl = true) :
    doRule p lv sl r = pure [] := by
  cases r with
  | comment t =>
    have : p.keepComments = false := by simpa [Rule.dropped] using hd
    simp [doRule, doComment, this]
  | style wf swf sels style =>
    simp only [Rule.dropped, Bool.and_eq_true, Bool.not_eq_true'] at hd
    obtain ⟨hk, he⟩ := hd
    simp only [doRule]
    split
    · rfl
    · cases hdd : doDecl p (lv + 1) style with
      | error e => rw [hdd] at he; simp [isEmptyOk] at he
      | ok t =>
        rw [hdd] at he
        have : t = [] := by simpa [isEmptyOk] using he
        subst this
        simp [styleTail, hk]
  | unknown u =>
    cases u with
    | mk wf atk items =>
      have : p.keepUnknownAtRules = false := by simpa [Rule.dropped] using hd
      simp [doRule, doURule, this]
  | variables wf atk kw items vars =>
    have : p.resolveVariables = true := by simpa [Rule.dropped] using hd
    simp [doRule, this]
  | media mwf atk kw media name items rules =>
    simp only [Rule.dropped, Bool.and_eq_true, Bool.not_eq_true'] at hd
    obtain ⟨hk, he⟩ := hd
    simp only [doRule]
    split
    · rfl
    · simp only [atKeyword, pure, Except.pure]
      cases hdd : doRules p lv sl rules with
      | error e => rw [hdd] at he; simp at he
      | ok texts =>
        rw [hdd] at he
        simp only at he ⊢
        simp [mediaTail, hk, he]
  | charset _ _ => simp [Rule.dropped] at hd
  | import_ _ _ _ _ _ => simp [Rule.dropped] at hd
  | namespace_ _ _ _ _ _ _ => simp [Rule.dropped] at hd
  | page _ _ _ _ _ _ => simp [Rule.dropped] at hd
  | margin _ _ _ _ => simp [Rule.dropped] at hd
  | fontface _ _ _ _ _ => simp [Rule.dropped] at hd

/-! ### the leaf preferences of the rule level as DOM rewrites -/

theorem importCalls_hrefEffect (p : Prefs) (hs : Bool) (its : List EItem) :
    importCalls p (hrefEffect p hs) its = importCalls p hs its := by
  unfold importCalls hrefEffect
  congr 1
  funext it
  by_cases h1 : p.importHrefFormat == some s_string <;> by_cases h2 : p.importHrefFormat != some s_uri <;>
    simp [s_string, s_uri] at h1 h2 <;> simp [h1, h2, s_string, s_uri]

theorem atKeyword_kwEffect (p : Prefs) (atk : Cps) (kw : Option Cps) :
    atKeyword p atk (kwEffect p atk kw) = atKeyword p atk kw := by
  unfold atKeyword kwEffect
  cases p.defaultAtKeyword <;> rfl

theorem varDeclCalls_nameEffect (p : Prefs) (lv : Nat) : ∀ vars : List VItem,
    varDeclCalls p lv (vars.map (VItem.nameEffect p)) = varDeclCalls p lv vars
  | [] => rfl
  | it :: rest => by
    have ih := varDeclCalls_nameEffect p lv rest
    have he : (rest.map (VItem.nameEffect p)).isEmpty = rest.isEmpty := by cases rest <;> rfl
    cases it with
    | var name nname v =>
      simp only [List.map_cons, varDeclCalls, VItem.nameEffect, ih, he, serObj_effObj]
      cases p.normalizedVarNames <;> rfl
    | comment t => simp only [List.map_cons, varDeclCalls, VItem.nameEffect, ih]
    | other ty o => simp only [List.map_cons, varDeclCalls, VItem.nameEffect, ih]

theorem doVarDecl_nameEffect (p : Prefs) (lv : Nat) (vars : List VItem) :
    doVarDecl p lv (vars.map (VItem.nameEffect p)) = doVarDecl p lv vars := by
  unfold doVarDecl
  have he : (vars.map (VItem.nameEffect p)).isEmpty = vars.isEmpty := by cases vars <;> rfl
  rw [he, varDeclCalls_nameEffect]

def nonEmptyTexts (l : List Cps) : List Cps := l.filter fun t => !t.isEmpty

theorem mediaRulesOut_nonEmpty (p : Prefs) (lv : Nat) (texts : List Cps) :
    mediaRulesOut p lv texts = mediaRulesOut p lv (nonEmptyTexts texts) := by
  unfold mediaRulesOut nonEmptyTexts
  induction texts with
  | nil => rfl
  | cons t rest ih =>
    simp only [List.flatMap_cons, List.filter_cons]
    split
    · simp only [List.flatMap_cons, ih, *, if_true]
    · simp only [List.nil_append, ih]

theorem pageRulesText_nonEmpty (p : Prefs) (texts : List Cps) :
    pageRulesText p texts = pageRulesText p (nonEmptyTexts texts) := by
  unfold pageRulesText nonEmptyTexts
  congr 1
  induction texts with
  | nil => rfl
  | cons t rest ih =>
    simp only [List.flatMap_cons, List.filter_cons]
    split
    · simp only [List.flatMap_cons, ih, *, if_true]
    · simp only [List.nil_append, ih]

theorem mediaTail_nonEmpty (p : Prefs) (lv : Nat) (k mt : Cps) (name : Option Cps) (its : List EItem)
    {texts texts' : List Cps} (e : nonEmptyTexts texts = nonEmptyTexts texts') :
    mediaTail p lv k mt name its texts = mediaTail p lv k mt name its texts' := by
  unfold mediaTail
  rw [mediaRulesOut_nonEmpty p lv texts, mediaRulesOut_nonEmpty p lv texts', e]

/-- both raise the same error or return lists with the same non-empty texts -/
def SameTexts : Except Err (List Cps) → Except Err (List Cps) → Prop
  | .ok a, .ok b => nonEmptyTexts a = nonEmptyTexts b
  | .error e, .error e' => e = e'
  | _, _ => False

mutual
/-- **T6.3 (rules).** Removing the suppressed rules from the DOM (at every depth) does not change what is written:
the filters at the point of use ARE that DOM transformation — for every preference record. -/
theorem doRule_effect (p : Prefs) (lv sl : Nat) : ∀ r : Rule, doRule p lv sl (effectRule p lv sl r) = doRule p lv sl r
  | .media mwf atk kw media name items rules => by
    simp only [effectRule, doRule, atKeyword_kwEffect]
    split
    · rfl
    · cases atKeyword p atk kw with
      | error e => rfl
      | ok k =>
        simp only
        have ih := doRules_effect p lv sl rules
        revert ih
        generalize doRules p lv sl (effectRules p lv sl rules) = A
        generalize doRules p lv sl rules = B
        intro ih
        cases A <;> cases B <;> simp only [SameTexts] at ih
        · rename_i e e'; cases e; cases e'; rfl
        · simp only [pure, Except.pure]
          rw [mediaTail_nonEmpty p lv k _ name _ ih]
  | .page wf atk kw sel style rules => by
    simp only [effectRule, doRule, atKeyword_kwEffect, doDecl_effectDecl]
    have ih := doRules_effect p lv sl rules
    revert ih
    generalize doRules p lv sl (effectRules p lv sl rules) = A
    generalize doRules p lv sl rules = B
    intro ih
    cases A <;> cases B <;> simp only [SameTexts] at ih
    · rename_i e e'; cases e; cases e'; rfl
    · rename_i ts ts'
      have : pageRulesText p ts = pageRulesText p ts' := by
        rw [pageRulesText_nonEmpty p ts, pageRulesText_nonEmpty p ts', ih]
      simp only [this]
  | .comment _ => rfl
  | .charset _ _ => rfl
  | .import_ _ _ _ _ _ => by simp only [effectRule, doRule, atKeyword_kwEffect, importCalls_hrefEffect]
  | .namespace_ _ _ _ _ _ _ => by simp only [effectRule, doRule, atKeyword_kwEffect]
  | .margin atk _ _ _ => by
    cases atk with
    | none => rfl
    | some a => simp only [effectRule, doRule, kwEffectO, atKeyword_kwEffect, doDecl_effectDecl]
  | .fontface _ _ _ _ _ => by simp only [effectRule, doRule, atKeyword_kwEffect, doDecl_effectDecl]
  | .style _ _ _ _ => by simp only [effectRule, doRule, doDecl_effectDecl]
  | .unknown _ => rfl
  | .variables _ _ _ _ _ => by simp only [effectRule, doRule, atKeyword_kwEffect, doVarDecl_nameEffect]
theorem doRules_effect (p : Prefs) (lv sl : Nat) : ∀ rs : List Rule,
    SameTexts (doRules p lv sl (effectRules p lv sl rs)) (doRules p lv sl rs)
  | [] => by simp [effectRules, doRules, SameTexts, pure, Except.pure]
  | r :: rest => by
    have ih := doRules_effect p lv sl rest
    simp only [effectRules]
    split
    · rename_i hd
      simp only [doRules, doRule_dropped p lv sl r hd, pure, Except.pure]
      revert ih
      generalize doRules p lv sl (effectRules p lv sl rest) = A
      generalize doRules p lv sl rest = B
      intro ih
      cases A <;> cases B <;> simp only [SameTexts] at ih ⊢
      · simpa [nonEmptyTexts] using ih
    · simp only [doRules, doRule_effect p lv sl r]
      cases doRule p lv sl r with
      | error e => simp [SameTexts]
      | ok t =>
        simp only
        revert ih
        generalize doRules p lv sl (effectRules p lv sl rest) = A
        generalize doRules p lv sl rest = B
        intro ih
        cases A <;> cases B <;> simp only [SameTexts, pure, Except.pure] at ih ⊢
        · simp only [nonEmptyTexts, List.filter_cons] at ih ⊢
          split <;> simp [ih]
end

theorem nsDropped_of_effectRule (p : Prefs) (lv sl : Nat) (used : List (Option Cps)) (r : Rule) :
    nsDropped p used (effectRule p lv sl r) = nsDropped p used r := by
  cases r <;> simp [effectRule, nsDropped]

theorem filter_ns_effectRules (p : Prefs) (lv sl : Nat) (used : List (Option Cps)) : ∀ rs : List Rule,
    (∀ r ∈ rs, nsDropped p used r = false) →
    (effectRules p lv sl rs).filter (fun r => !nsDropped p used r) = effectRules p lv sl rs
  | [], _ => by simp [effectRules]
  | r :: rest, hn => by
    have ih := filter_ns_effectRules p lv sl used rest (fun x hx => hn x (List.mem_cons_of_mem _ hx))
    simp only [effectRules]
    split
    · exact ih
    · simp only [List.filter_cons, nsDropped_of_effectRule, hn r List.mem_cons_self, Bool.not_false, if_true, ih]

/-- **T6.3 (sheet).** `ser p d = ser p (effect p d)`: the sheet with the suppressed rules (comments, unknown
at-rules, unused namespace rules) removed at every depth serializes to the same text, for EVERY preference record. -/
theorem doSheet_effect (p : Prefs) (sl : Nat) (s : Sheet) : doSheet p sl (effectSheet p s) = doSheet p sl s := by
  unfold doSheet effectSheet
  simp only
  rw [filter_ns_effectRules p 0 0 s.usedUris _ (by
    intro r hr
    have := (List.mem_filter.mp hr).2
    simpa using this)]
  have ih := doRules_effect p 0 0 (s.rules.filter fun r => !nsDropped p s.usedUris r)
  revert ih
  generalize doRules p 0 0 (effectRules p 0 0 (s.rules.filter fun r => !nsDropped p s.usedUris r)) = A
  generalize doRules p 0 0 (s.rules.filter fun r => !nsDropped p s.usedUris r) = B
  intro ih
  cases A <;> cases B <;> simp only [SameTexts] at ih
  · rename_i e e'; cases e; cases e'; rfl
  · simp only [nonEmptyTexts] at ih
    simp only [ih]


theorem effectRule_dropped (p : Prefs) (lv sl : Nat) (r : Rule) :
    (effectRule p lv sl r).dropped p lv sl = r.dropped p lv sl := by
  cases r with
  | media mwf atk kw media name items rules =>
    simp only [effectRule, Rule.dropped]
    have ih := doRules_effect p lv sl rules
    revert ih
    generalize doRules p lv sl (effectRules p lv sl rules) = A
    generalize doRules p lv sl rules = B
    intro ih
    cases A <;> cases B <;> simp only [SameTexts] at ih
    · rfl
    · rename_i ts ts'
      simp only
      rw [mediaRulesOut_nonEmpty p lv ts, mediaRulesOut_nonEmpty p lv ts', ih]
  | _ => simp [effectRule, Rule.dropped, doDecl_effectDecl]

/-- no suppressed rule is left at the top level of the transformed rule list -/
theorem effectRules_none_dropped (p : Prefs) (lv sl : Nat) : ∀ rs : List Rule,
    ∀ r ∈ effectRules p lv sl rs, r.dropped p lv sl = false
  | [], r, hr => by simp [effectRules] at hr
  | x :: rest, r, hr => by
    simp only [effectRules] at hr
    split at hr
    · exact effectRules_none_dropped p lv sl rest r hr
    · rename_i hx
      rcases List.mem_cons.mp hr with rfl | h
      · rw [effectRule_dropped]; simpa using hx
      · exact effectRules_none_dropped p lv sl rest r h

/-! ### the transformed rules are normal: the leaf preferences have nothing left to do on them -/

/-- the literal keyword is the normalised one when `defaultAtKeyword` asks for it -/
def kwNormal (p : Prefs) (atk : Cps) (kw : Option Cps) : Bool := !p.defaultAtKeyword || kw == some atk

def VItem.nameNormal (p : Prefs) : VItem → Bool
  | .var name nname _ => !p.normalizedVarNames || name == nname
  | _ => true

/-- a rule whose own leaves are normal for the record: href type as `importHrefFormat` demands, literal keyword
normalised under `defaultAtKeyword`, variable names normalised under `normalizedVarNames` -/
def Rule.leafNormal (p : Prefs) : Rule → Bool
  | .import_ _ atk kw hs _ => kwNormal p atk kw && hrefEffect p hs == hs
  | .namespace_ _ atk kw _ _ _ => kwNormal p atk kw
  | .media _ atk kw _ _ _ _ => kwNormal p atk kw
  | .page _ atk kw _ _ _ => kwNormal p atk kw
  | .margin (some atk) kw _ _ => kwNormal p atk kw
  | .fontface _ atk kw _ _ => kwNormal p atk kw
  | .variables _ atk kw _ vars => kwNormal p atk kw && vars.all (VItem.nameNormal p)
  | _ => true

theorem kwNormal_kwEffect (p : Prefs) (atk : Cps) (kw : Option Cps) : kwNormal p atk (kwEffect p atk kw) = true := by
  unfold kwNormal kwEffect
  cases p.defaultAtKeyword <;> simp

theorem hrefEffect_idem (p : Prefs) (hs : Bool) : hrefEffect p (hrefEffect p hs) = hrefEffect p hs := by
  unfold hrefEffect
  cases (p.importHrefFormat == some s_string) <;> cases (p.importHrefFormat != some s_uri) <;> cases hs <;> rfl

theorem effectRule_leafNormal (p : Prefs) (lv sl : Nat) (r : Rule) : (effectRule p lv sl r).leafNormal p = true := by
  cases r with
  | margin atk kw wf st =>
    cases atk with
    | none => rfl
    | some a => simp [effectRule, Rule.leafNormal, kwEffectO, kwNormal_kwEffect]
  | variables wf atk kw items vars =>
    simp only [effectRule, Rule.leafNormal, kwNormal_kwEffect, Bool.true_and, List.all_eq_true, List.mem_map]
    rintro x ⟨v, _, rfl⟩
    cases v <;> simp only [VItem.nameEffect, VItem.nameNormal]
    cases p.normalizedVarNames <;> simp
  | _ => simp [effectRule, Rule.leafNormal, kwNormal_kwEffect, hrefEffect_idem]

/-- on a normal keyword `defaultAtKeyword` is not read: the keyword is written the same under both settings -/
theorem atKeyword_of_normal (p : Prefs) (b : Bool) (atk : Cps) (kw : Option Cps) (hn : kwNormal p atk kw = true)
    (hb : p.defaultAtKeyword = true) :
    atKeyword { p with defaultAtKeyword := b } atk kw = atKeyword p atk kw := by
  have : kw = some atk := by simpa [kwNormal, hb] using hn
  subst this
  cases b <;> simp [atKeyword, hb]

/-- on a normal href type `importHrefFormat` is not read: the calls are those of the record without a format -/
theorem importCalls_of_normal (p : Prefs) (hs : Bool) (its : List EItem) (hn : hrefEffect p hs = hs) :
    importCalls { p with importHrefFormat := none } hs its = importCalls p hs its := by
  unfold importCalls
  congr 1
  funext it
  unfold hrefEffect at hn
  by_cases h1 : p.importHrefFormat == some s_string <;> by_cases h2 : p.importHrefFormat != some s_uri <;>
    cases hs <;> simp [s_string, s_uri] at h1 h2 hn <;> simp_all [s_string, s_uri]

/-! ### T6.4c — minified nested `@media` -/

theorem rep_nil (n : Nat) : rep n ([] : Cps) = [] := by
  induction n with
  | zero => rfl
  | succ k ih => simp only [rep, List.replicate_succ, List.flatten_cons] at *; exact ih

theorem mediaRulesOut_minified (p : Prefs) (hl : p.lineSeparator = []) (lv : Nat) (texts : List Cps) :
    (mediaRulesOut p lv texts).flatten = texts.flatten := by
  unfold mediaRulesOut
  induction texts with
  | nil => rfl
  | cons t rest ih =>
    simp only [List.flatMap_cons, List.flatten_append, ih, List.flatten_cons]
    congr 1
    split
    · simp [indentblock, hl]
    · rename_i he
      have : t = [] := by simpa using he
      subst this; rfl

/-- **T6.4c.** With the layout strings of the minified preset (`indent`, `lineSeparator`, `paranthesisSpacer`,
`spacer` empty) a `@media` rule is written as `@media <list>{<nested rule texts>}` — exactly one space after the
keyword, no separator between the nested rules, nothing between the last nested rule and `}` — at any nesting
depth, whatever the nested rules are (so nested `@media` rules nest without any layout dependence). -/
theorem mediaTail_minified (p : Prefs) (hi : p.indent = []) (hl : p.lineSeparator = []) (hps : p.paranthesisSpacer = [])
    (hs : p.spacer = []) (lv : Nat) (k mt : Cps) (texts : List Cps) :
    mediaTail p lv k mt none [] texts =
      if !p.keepEmptyRules && allWs texts.flatten then [] else k ++ [32] ++ mt ++ [123] ++ texts.flatten ++ [125] := by
  unfold mediaTail
  simp only [mediaRulesOut_minified p hl, hi, hl, hps, hs, rep_nil]
  split
  · rfl
  · simp [mediaRulesOut_minified p hl]


/-! ### after the repairs -/

theorem doURule_not_kept (p : Prefs) (lv : Nat) (r : URule) (hk : p.keepUnknownAtRules = false) :
    doURule p lv r = pure [] := by
  cases r with
  | mk wf atk items => simp [doURule, hk]

theorem declOut_all_unknown (p : Prefs) (lv : Nat) (sep : Cps) (ol : Bool) (hk : p.keepUnknownAtRules = false) :
    ∀ items : List DItem, (∀ it ∈ items, ∃ r, it = .urule r) → declOut p lv sep ol items = pure []
  | [], _ => rfl
  | it :: rest, hall => by
    obtain ⟨r, rfl⟩ := hall it List.mem_cons_self
    have ih := declOut_all_unknown p lv sep ol hk rest (fun x hx => hall x (List.mem_cons_of_mem _ hx))
    simp [declOut, declHere, doURule_not_kept p lv r hk, ih, pure, Except.pure]

theorem declSeq_no_props (p : Prefs) : ∀ items : List DItem, (∀ it ∈ items, ∃ r, it = .urule r) →
    declSeq p items = items := by
  intro items hall
  unfold declSeq
  split
  · rfl
  · dsimp only
    refine (congrArg _ (List.filter_eq_self.mpr ?_)).trans (by simp)
    intro x hx
    obtain ⟨r, hr⟩ := hall x.1 (by
      rcases x with ⟨a, i⟩
      exact (List.mem_zipIdx hx).2.2 ▸ List.getElem_mem _)
    rw [hr]

/-- **(was finding C06-empty-items-block)** a block that holds nothing but unknown at-rules is written as the EMPTY
text when `keepUnknownAtRules` is off — under every record, whatever the line separator is — so the rule around it
counts as empty under every layout. -/
theorem doDecl_all_unknown_dropped (p : Prefs) (lv : Nat) (om : Bool) (hk : p.keepUnknownAtRules = false)
    (items : List DItem) (hall : ∀ it ∈ items, ∃ r, it = .urule r) : doDecl p lv items om = .ok [] := by
  unfold doDecl
  split
  · rfl
  · rw [declSeq_no_props p items hall, declOut_all_unknown p lv _ _ hk items hall]
    rfl

/-- **(was finding C06-linenumbers-emptysep)** -/
theorem lineNumbers_empty_separator (p : Prefs) (t : Cps) (h : p.lineSeparator = []) : lineNumbers p t = .ok t := by
  simp [lineNumbers, h, pure, Except.pure]

/-- **(was finding C06-atkeyword-attr)** `_atkeyword` is total: the literal keyword if the rule recorded one, else the
normalised keyword -/
theorem atKeyword_total (p : Prefs) (atk : Cps) (kw : Option Cps) :
    atKeyword p atk kw = .ok (if p.defaultAtKeyword then atk else kw.getD atk) := rfl

end CssVerif.Out
