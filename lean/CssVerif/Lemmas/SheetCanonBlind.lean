import CssVerif.Lemmas.SheetCanonPrune
/-!
# Lemmas for C03 (sheet level): an oracle that does not look at the white space of gaps accepts what the serializer writes

`Accepts O (canon s)` follows from `s.WF O M` when the sub-parser oracle `O` is *gap blind*: its verdict on a value /
selector list / media query list depends on the comments of the gaps around the opaque parts, not on their white space
(the real sub-parsers skip S tokens at these places), and its verdict on `@charset` not on the quote style.
-/
namespace CssVerif.SheetCanon
open CssVerif.Proto (Cps)
open CssVerif.Struct CssVerif.SheetSpec CssVerif.AtRules
set_option linter.unusedSimpArgs false
set_option linter.unusedVariables false

/-- the same selectors with the same comments in every gap -/
def SameMore : List (Gap × List Tok × Gap) → List (Gap × List Tok × Gap) → Prop
  | [], [] => True
  | (a, c, b) :: r, (a', c', b') :: r' =>
    comments a = comments a' ∧ c = c' ∧ comments b = comments b' ∧ SameMore r r'
  | _, _ => False

def SameSel (s s' : SSel) : Prop :=
  s.first = s'.first ∧ comments s.post = comments s'.post ∧ SameMore s.more s'.more

/-- the verdicts of the oracle do not depend on the white space of the gaps, nor on the quote style of `@charset` -/
structure GapBlind (O : Oracle) : Prop where
  value : ∀ (g2 g3 g2' g3' : Gap) (v : List Tok), comments g2 = comments g2' → comments g3 = comments g3' →
    O.valueOk (Gap.toks g2 ++ (v ++ Gap.toks g3)) = O.valueOk (Gap.toks g2' ++ (v ++ Gap.toks g3'))
  sel : ∀ ns (s s' : SSel), SameSel s s' → O.selOk ns s.toks = O.selOk ns s'.toks
  media : ∀ (g1 g2 g1' g2' : Gap) (mq : List Tok), comments g1 = comments g1' → comments g2 = comments g2' →
    O.mediaOk (mediaHead g1 mq g2) = O.mediaOk (mediaHead g1' mq g2')
  /-- the gap behind the media query list of `@import` (white space and comments) does not matter -/
  impMedia : ∀ (mq : List Tok) (g g' : Gap), O.mediaOk (mq ++ Gap.toks g) = O.mediaOk (mq ++ Gap.toks g')
  charset : ∀ (q : Quote) (enc : Cps),
    O.atOk .charsetSym false (charsetToks (q, enc)) = O.atOk .charsetSym false (charsetToks (.dq, enc))

theorem declAcc_canon (O : Oracle) (hB : GapBlind O) (c : Option Ws) (d : SDecl) (h : d.WF O) :
    declAcc O (canonDecl c d) := by
  unfold declAcc
  have e : O.valueOk (Gap.toks (canonDecl c d).g2 ++ ((canonDecl c d).value ++ Gap.toks (canonDecl c d).g3)) =
      O.valueOk (Gap.toks d.g2 ++ (d.value ++ Gap.toks d.g3)) := by
    apply hB.value
    · simp [canonDecl]
    · cases hd : d.prio <;> simp [canonDecl, hd, comments_gTrail, comments]
  rw [e]; exact h.accepts

theorem itemAcc_canon (O : Oracle) (hB : GapBlind O) (i : SItem) (h : i.WF O) : itemAcc O (canonItem i) := by
  cases i with
  | decl d => exact declAcc_canon O hB none d h
  | comment b => trivial
  | unknown t => trivial
  | semi => trivial

theorem laidAcc_canon (O : Oracle) (hB : GapBlind O) (om : Bool) (lv : Nat) (l : List SItem) (h : ∀ i ∈ l, i.WF O) :
    laidAcc O (layItems om lv l) := by
  have hs := layItems_shape om lv l
  refine ⟨?_, ?_⟩
  · intro p hp
    obtain ⟨i, hi, e⟩ := hs.1 p hp
    rw [e]; exact itemAcc_canon O hB i (h i hi)
  · intro d hd
    obtain ⟨d0, h0, e⟩ := hs.2 d hd
    rw [e]; exact declAcc_canon O hB _ d0 (h _ h0)

theorem blockAcc_canon (O : Oracle) (hB : GapBlind O) (lv : Nat) (b : SBlock) (h : b.WF O) :
    blockAcc O (canonBlock lv b) :=
  laidAcc_canon O hB true lv (realItems b) (realItems_wf O b h)

theorem pageBlockAcc_canon (O : Oracle) (hB : GapBlind O) (M : List Cps) (lv : Nat) (sel : SPageSel) (blk : SPageBlock)
    (h : PageWF O M sel blk) : pageBlockAcc O (canonPageBlock lv blk) := by
  have hplain : ∀ i ∈ pagePlain blk.items ++ (blk.last.map SItem.decl).toList, i.WF O := by
    intro i hi
    simp only [List.mem_append] at hi
    rcases hi with hi | hi
    · obtain ⟨w, hw⟩ := pagePlain_mem _ _ hi
      exact (h.itemsWF _ hw).1
    · cases hb : blk.last with
      | none => simp [hb] at hi
      | some d => simp [hb] at hi; subst hi; exact (h.lastWF d hb).1
  have hl := laidAcc_canon O hB (pageMargins lv blk.items).isEmpty lv _ hplain
  refine ⟨?_, hl.2⟩
  intro p hp
  simp only [canonPageBlock, List.mem_append] at hp
  rcases hp with hp | hp
  · obtain ⟨i, w, hw, rfl⟩ := asPageItems_mem _ _ hp
    exact hl.1 _ hw
  · obtain ⟨n, kw, g, b, w, _, e⟩ := pageMargins_mem _ _ _ hp
    rw [e]; trivial

theorem sameMore_canon (m : List (Gap × List Tok × Gap)) : SameMore (canonMore m) m := by
  induction m with
  | nil => trivial
  | cons p rest ih =>
    obtain ⟨a, c, b⟩ := p
    refine ⟨by simp [comments], rfl, ?_, ih⟩
    rw [comments_gTrail, comments_if_sp]; simp

theorem sameSel_canon (s : SSel) : SameSel (canonSel s) s := by
  refine ⟨rfl, ?_, sameMore_canon _⟩
  show comments (gTrail s.post _) = comments s.post
  rw [comments_gTrail, comments_if_sp]; simp

mutual
theorem ruleAcc_canon (O : Oracle) (hB : GapBlind O) (M : List Cps) (ns : List (Cps × Cps)) (im : Bool) (lv : Nat) :
    (r : SRule) → r.WF O M ns im → ruleAcc O ns (canonRule lv r)
  | .comment b, _ => by simp only [canonRule]; trivial
  | .style sel blk, h => by
    have h : StyleWF O ns sel blk := h
    refine (⟨?_, blockAcc_canon O hB _ blk h.blkWF⟩ :
      O.selOk ns (canonSel sel).toks = true ∧ blockAcc O (canonBlock (lv + 1) blk))
    rw [hB.sel ns _ _ (sameSel_canon sel)]; exact h.accepts
  | .unknown t, _ => by simp only [canonRule]; trivial
  | .media kw g1 mq g2 name lead rules, h => by
    have h : MqOk mq ∧ O.mediaOk (mediaHead g1 mq g2) = true ∧ rules.WF O M ns true ∧ NameWF name := h
    refine (⟨?_, rulesAcc_canon O hB M ns true (lv + 1) true rules h.2.2.1⟩ :
      O.mediaOk (mediaHead (gLead g1) mq (gTrail g2 [.ws sp])) = true ∧ rulesAcc O ns (canonRules (lv + 1) true rules))
    rw [hB.media (gLead g1) (gTrail g2 [.ws sp]) g1 g2 mq (by simp) (by simp [comments_gTrail, comments])]
    exact h.2.1
  | .fontface kw g1 blk, h => by
    have h : im = false ∧ blk.WF O := h
    exact (blockAcc_canon O hB _ blk h.2 : blockAcc O (canonBlock (lv + 1) blk))
  | .page kw g0 sel g1 blk, h => by
    have h : PageWF O M sel blk := h
    exact (pageBlockAcc_canon O hB M _ sel blk h : pageBlockAcc O (canonPageBlock (lv + 1) blk))
theorem rulesAcc_canon (O : Oracle) (hB : GapBlind O) (M : List Cps) (ns : List (Cps × Cps)) (im : Bool) (lv : Nat)
    (inner : Bool) : (rs : SRules) → rs.WF O M ns im → rulesAcc O ns (canonRules lv inner rs)
  | .nil, _ => by simp only [canonRules]; trivial
  | .cons r w rest, h => by
    have h : r.WF O M ns im ∧ rest.WF O M ns im := h
    exact (⟨ruleAcc_canon O hB M ns im lv r h.1, rulesAcc_canon O hB M ns im lv inner rest h.2⟩ :
      ruleAcc O ns (canonRule lv r) ∧ rulesAcc O ns (canonRules lv inner rest))
end

theorem impAcc_canon (O : Oracle) (hB : GapBlind O) (M : List Cps) (r : SImp) (h : r.WF O M) : impAcc O (canonImp r) := by
  cases r with
  | comment b => trivial
  | unknown t => trivial
  | import_ kw g1 href g2 mq name =>
    have h : ImportWF O href mq name := h
    cases mq with
    | none => trivial
    | some p =>
      show O.mediaOk (p.1 ++ Gap.toks (gTrail (p.2 ++ emptyNameGap name) _)) = true
      rw [hB.impMedia p.1 _ p.2]; exact (h.mqWF p rfl).2

theorem varDeclAcc_canon (O : Oracle) (hB : GapBlind O) (c : Option Ws) (d : SVarDecl) (h : d.WF O) :
    varDeclAcc O (canonVarDecl c d) := by
  unfold varDeclAcc
  have e := hB.value [] (gTrail d.g3 (closing c)) [] d.g3 d.value rfl (by simp [comments_gTrail])
  have e' : O.valueOk ((canonVarDecl c d).value ++ Gap.toks (canonVarDecl c d).g3) =
      O.valueOk (d.value ++ Gap.toks d.g3) := by
    simpa [Gap.toks, canonVarDecl] using e
  rw [e']; exact h.accepts

theorem varAcc_canon (O : Oracle) (hB : GapBlind O) (M : List Cps) (r : SVar) (h : r.WF O M) : varAcc O (canonVar r) := by
  cases r with
  | comment b => trivial
  | unknown t => trivial
  | variables kw g0 blk =>
    have h : blk.WF O := h
    have hs := layVarItems_shape 1 (varDecls blk)
    refine (⟨?_, ?_⟩ : (∀ p ∈ (canonVarBlock 1 blk).items, varDeclAcc O p.1) ∧
      ∀ d, (canonVarBlock 1 blk).last = some d → varDeclAcc O d)
    · intro p hp
      obtain ⟨d0, h0, e⟩ := hs.1 p hp
      rw [e]; exact varDeclAcc_canon O hB none d0 (varDecls_wf O blk h d0 h0)
    · intro d hd
      obtain ⟨d0, h0, e⟩ := hs.2 d hd
      rw [e]; exact varDeclAcc_canon O hB _ d0 (varDecls_wf O blk h d0 h0)

theorem acceptsV_of_blind (O : Oracle) (hB : GapBlind O) (M : List Cps) (t : SSheet) (h : t.WF O M) :
    Accepts O (canonV t) := by
  refine ⟨?_, ?_, ?_, ?_⟩
  · intro c hc
    cases hcs : t.charset with
    | none => simp [canonV, hcs] at hc
    | some c0 =>
      have e : c = (Quote.dq, c0.2) := by simp [canonV, hcs] at hc; exact hc.symm
      rw [e, ← hB.charset c0.1 c0.2]
      exact (h.charsetOk c0 hcs).2
  · intro p hp
    obtain ⟨q, hq, e⟩ := layStmts_mem _ _ _ p hp
    rw [e]; exact impAcc_canon O hB M q.1 (h.importsOk q hq)
  · intro p hp
    obtain ⟨q, hq, e⟩ := layStmts_mem _ _ _ p hp
    rw [e]; exact varAcc_canon O hB M q.1 (h.variablesOk q hq)
  · have hns : nsPairs (canonV t).namespaces = nsPairs t.namespaces := nsPairs_layStmts _ _
    rw [hns]
    exact rulesAcc_canon O hB M _ false 0 false t.rules h.rulesOk

/-- a gap-blind oracle that accepts the source accepts what the serializer writes -/
theorem accepts_of_blind (O : Oracle) (hB : GapBlind O) (M : List Cps) (s : SSheet) (h : s.WF O M) :
    Accepts O (canon s) :=
  acceptsV_of_blind O hB M (prune s) (prune_wf O M s h)

end CssVerif.SheetCanon
