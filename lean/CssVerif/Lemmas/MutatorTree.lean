import CssVerif.Model.MutatorTree
import CssVerif.Lemmas.Mutators
/-!
The ownership-depth induction (helper lemmas for C11): in a world whose every script passes the static discipline,
the handler that really runs the child's scripts is atomic at every depth.
-/
namespace CssVerif.Mutators

/-- every mutator of every object of the tree passes the static discipline -/
def World.Disciplined (W : World) : Prop := ∀ k, ∀ m ∈ W.scripts k, Mutators.Disciplined m.fields m.body = true

/-- every object of the tree is in a well-formed state when a mutator is entered on it -/
def World.WF (W : World) : Prop := ∀ k, (W.kid k).WF

theorem unchangedOn_of_eq {fs : List Field} {a b : St} (h : ∀ f ∈ fs, a.cur f = b.cur f) :
    unchangedOn fs a b = true := by
  simp only [unchangedOn, List.all_eq_true, beq_iff_eq]
  exact h

/-- **the induction over the ownership depth**: level `d + 1` runs a disciplined script of the child with the
child's own calls answered by level `d`, which is atomic by the induction hypothesis, so `disciplined_atomicG`
applies to the child: if it raised, its observable fields are unchanged -/
theorem World.handlerFrom_atomic (W : World) (hd : W.Disciplined) (hwf : W.WF) (base : Handler)
    (hbase : base.Atomic) : ∀ d key, (W.handlerFrom base d key).Atomic := by
  intro d
  induction d with
  | zero => intro key; exact hbase
  | succ d ih =>
    intro key fuel f v os hr
    simp only [World.handlerFrom] at hr ⊢
    generalize ((f, v) :: key : Key) = k at hr ⊢
    cases hm : (W.scripts k)[(pick os).1]? with
    | none => simp [hm] at hr
    | some m =>
      simp only [hm] at hr ⊢
      have hmem : m ∈ W.scripts k := List.mem_of_getElem? hm
      have hat := disciplined_atomicG (W.handlerFrom base d k) (ih k) m.fields m.body (hd k m hmem) fuel (W.kid k)
        (pick os).2 (hwf k)
      generalize runG (W.handlerFrom base d k) fuel m.body (W.kid k) (pick os).2 = r at hr hat ⊢
      cases hx : r.exit <;> simp only [hx] at hr ⊢ <;> try (simp at hr)
      · simp [unchangedOn_of_eq (hat (Or.inl hx))]
      · simp [unchangedOn_of_eq (hat (Or.inr hx))]

theorem Handler.stuck_atomic : Handler.stuck.Atomic := by
  intro fuel f v os hr; simp [Handler.stuck] at hr

theorem World.handler_atomic (W : World) (hd : W.Disciplined) (hwf : W.WF) :
    ∀ d key, (W.handler d key).Atomic :=
  W.handlerFrom_atomic hd hwf Handler.stuck Handler.stuck_atomic

/-- atomicity of a disciplined script run on any object of a disciplined ownership tree, any depth -/
theorem World.run_atomic (W : World) (hd : W.Disciplined) (hwf : W.WF) (d : Nat) (key : Key)
    (fs : List Field) (sc : Stmt) (hsc : Mutators.Disciplined fs sc = true)
    (fuel : Nat) (st : St) (os : Outcomes) (hst : st.WF)
    (hexc : (W.run d key fuel sc st os).exit = .exc ∨ (W.run d key fuel sc st os).exit = .roExc) :
    ∀ f ∈ fs, (W.run d key fuel sc st os).st.cur f = st.cur f :=
  disciplined_atomicG (W.handler d key) (W.handler_atomic hd hwf d key) fs sc hsc fuel st os hst hexc

/-- equal versions of the listed fields = equal observable trees, to every depth -/
theorem World.obs_congr (W : World) (fields : Key → List Field) (n : Nat) (key : Key) (a b : St)
    (h : ∀ f ∈ fields key, a.cur f = b.cur f) : W.obs fields n key a = W.obs fields n key b := by
  cases n with
  | zero => rfl
  | succ n =>
    simp only [World.obs]
    congr 1
    apply List.map_congr_left
    intro f hf
    rw [h f hf]

end CssVerif.Mutators
