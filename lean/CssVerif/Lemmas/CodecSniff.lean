import CssVerif.Lemmas.CodecInner
/-!
The BOM-sniffing incremental decoders (`utf_8_sig.py`, `utf_16.py`, `utf_32.py`) split at any point of the
data as well: what a decoder object does with `a ++ b` is what it does with `a`, then — in the state it is
in after `a` — with its buffer followed by `b`.
-/
namespace CssVerif.Codec

/-- the law every `_buffer_decode` obeys (data `a` seen non-final, then `b`) -/
def Splits (feed : Option Kind → List Nat → Bool → IRes) (m : Option Kind) (a : List Nat) : Prop :=
  ∀ b f,
    (feed m (a ++ b) f).res = (feed m a false).res.andThen (fun p => (feed (feed m a false).mode (p ++ b) f).res) ∧
    ((feed m a false).res.err = false →
      (feed m (a ++ b) f).mode = (feed (feed m a false).mode ((feed m a false).res.pend ++ b) f).mode)

theorem take_len {a l : List Nat} {w : Nat} (h : a.take w = l) (hl : l.length = w) : w ≤ a.length := by
  have := congrArg List.length h
  simp only [List.length_take] at this; omega

/-- `Res.andThen` on a result with nothing decoded and everything kept -/
theorem andThen_keep (a : List Nat) (k : List Nat → Res) :
    (⟨[], a, false⟩ : Res).andThen k = k a := by
  simp [Res.andThen]

theorem andThen_fail (k : List Nat → Res) : Res.fail.andThen k = Res.fail := by
  simp [Res.andThen, Res.fail]

def feedBom (w : Nat) (le be : List Nat) (kle kbe : Kind) (m : Option Kind) (d : List Nat) (f : Bool) : IRes :=
  match m with
  | some k => ⟨some k, scan k.first d f⟩
  | none => sniffBom w le be kle kbe d f

theorem splits_some (feed : Option Kind → List Nat → Bool → IRes) (k : Kind)
    (hf : ∀ d f, feed (some k) d f = ⟨some k, scan k.first d f⟩) (a : List Nat) : Splits feed (some k) a := by
  intro b f
  constructor
  · simp only [hf]; exact scan_append _ a b f
  · intro _; simp only [hf]

theorem feedBom_splits (w : Nat) (le be : List Nat) (kle kbe : Kind) (hle : le.length = w) (hbe : be.length = w)
    (hshort : ∀ a : List Nat, a.length < w → (scan kle.first a false).err = false)
    (hm : ∀ x t cp j, (kle.first x).run t 0 = .done cp j → w - 1 ≤ j) (hw : 0 < w)
    (m : Option Kind) (a : List Nat) : Splits (feedBom w le be kle kbe) m a := by
  cases m with
  | some k => exact splits_some _ k (fun _ _ => rfl) a
  | none =>
    intro b f
    simp only [feedBom]
    by_cases h1 : a.take w = le
    · have hl := take_len h1 hle
      have e1 : (a ++ b).take w = le := by rw [List.take_append_of_le_length hl]; exact h1
      have e2 : (a ++ b).drop w = a.drop w ++ b := List.drop_append_of_le_length hl
      simp only [sniffBom, h1, e1, if_true, e2]
      exact ⟨scan_append _ _ b f, fun _ => trivial⟩
    · by_cases h2 : a.take w = be
      · have hl := take_len h2 hbe
        have e1 : (a ++ b).take w = be := by rw [List.take_append_of_le_length hl]; exact h2
        have e1' : ¬ (a ++ b).take w = le := by rw [List.take_append_of_le_length hl]; exact h1
        have e2 : (a ++ b).drop w = a.drop w ++ b := List.drop_append_of_le_length hl
        have hne : ¬ be = le := by rw [← h2]; exact h1
        simp only [sniffBom, h2, e1, hne, if_true, if_false, e2]
        exact ⟨scan_append _ _ b f, fun _ => trivial⟩
      · -- no BOM in `a`
        have hsa := scan_append kle.first a b f
        by_cases he : (scan kle.first a false).err = true
        · have hl : w ≤ a.length := by
            rcases Nat.lt_or_ge a.length w with h | h
            · have := hshort a h; rw [this] at he; cases he
            · exact h
          have e1 : ¬ (a ++ b).take w = le := by rw [List.take_append_of_le_length hl]; exact h1
          have e2 : ¬ (a ++ b).take w = be := by rw [List.take_append_of_le_length hl]; exact h2
          have he' : (scan kle.first (a ++ b) f).err = true := by rw [hsa]; simp [Res.andThen, he]
          simp only [sniffBom, h1, h2, e1, e2, if_false, he, he', if_true]
          exact ⟨by simp [Res.andThen, Res.fail], fun h => by simp [Res.fail] at h⟩
        · have he0 : (scan kle.first a false).err = false := by
            cases h : (scan kle.first a false).err with
            | true => exact absurd h he
            | false => rfl
          by_cases hc : (scan kle.first a false).pend.length + w ≤ a.length
          · have hl : w ≤ a.length := by omega
            have e1 : ¬ (a ++ b).take w = le := by rw [List.take_append_of_le_length hl]; exact h1
            have e2 : ¬ (a ++ b).take w = be := by rw [List.take_append_of_le_length hl]; exact h2
            have hp : (scan kle.first (a ++ b) f).err = false →
                (scan kle.first (a ++ b) f).pend.length + w ≤ (a ++ b).length := by
              intro _
              rw [hsa]
              simp only [Res.andThen, he0, Bool.false_eq_true, if_false, List.length_append]
              have := scan_pend_le kle.first ((scan kle.first a false).pend ++ b) f
              simp only [List.length_append] at this
              omega
            simp only [sniffBom, h1, h2, e1, e2, if_false, he0, Bool.false_eq_true, hc, if_true]
            refine ⟨?_, fun h => by simp [Res.fail] at h⟩
            rw [andThen_fail]
            cases hx : (scan kle.first (a ++ b) f).err with
            | true => simp
            | false =>
              have := hp hx
              simp only [List.length_append] at this
              simp [this]
          · -- nothing consumed: still undecided, everything is kept
            have ht : (scan kle.first a false).text = [] := by
              cases htx : (scan kle.first a false).text with
              | nil => rfl
              | cons c cs =>
                have := scan_consumed kle.first (w - 1) hm a false (by rw [htx]; simp)
                omega
            have hpd := scan_text_nil _ _ _ he0 ht
            have hr : scan kle.first a false = ⟨[], a, false⟩ := by
              cases hq : scan kle.first a false with
              | mk t p e => rw [hq] at ht hpd he0; simp at ht hpd he0; subst ht; subst hpd; subst he0; rfl
            simp only [sniffBom, h1, h2, if_false, hr, Bool.false_eq_true]
            have : ¬ (a.length + w ≤ a.length) := by omega
            simp only [this, if_false, andThen_keep]
            exact ⟨trivial, fun _ => trivial⟩

def feedSig (m : Option Kind) (d : List Nat) (f : Bool) : IRes :=
  match m with
  | some k => ⟨some k, scan k.first d f⟩
  | none => sniffSig d f

theorem feedSig_splits (m : Option Kind) (a : List Nat) : Splits feedSig m a := by
  cases m with
  | some k => exact splits_some _ k (fun _ _ => rfl) a
  | none =>
    intro b f
    simp only [feedSig]
    by_cases hl : a.length < 3
    · by_cases hp : a.isPrefixOf bom8 = true
      · simp only [sniffSig, hl, hp, if_true, andThen_keep]
        exact ⟨trivial, fun _ => trivial⟩
      · -- `a` already differs from the BOM: plain UTF-8 from now on, whatever follows
        have key : sniffSig (a ++ b) f = ⟨some .u8, scan first8 (a ++ b) f⟩ := by
          unfold sniffSig
          by_cases hl' : (a ++ b).length < 3
          · have : ¬ ((a ++ b).isPrefixOf bom8 = true) := by
              intro hq
              rw [List.isPrefixOf_iff_prefix] at hq
              exact hp (List.isPrefixOf_iff_prefix.mpr ((List.prefix_append a b).trans hq))
            simp only [hl', if_true, this, Bool.false_eq_true, if_false]
          · have : ¬ ((a ++ b).take 3 = bom8) := by
              intro hq
              rw [List.take_append] at hq
              apply hp
              rw [List.isPrefixOf_iff_prefix]
              have ha : a.take 3 = a := List.take_of_length_le (by omega)
              rw [ha] at hq
              exact ⟨_, hq⟩
            simp only [hl', if_false, this]
        simp only [key]
        simp only [sniffSig, hl, hp, if_true, Bool.false_eq_true, if_false]
        exact ⟨scan_append _ a b f, fun _ => trivial⟩
    · have hge : 3 ≤ a.length := by omega
      have hl' : ¬ (a ++ b).length < 3 := by simp only [List.length_append]; omega
      have e1 : (a ++ b).take 3 = a.take 3 := List.take_append_of_le_length hge
      have e2 : (a ++ b).drop 3 = a.drop 3 ++ b := List.drop_append_of_le_length hge
      by_cases hb : a.take 3 = bom8
      · simp only [sniffSig, hl, hl', if_false, e1, hb, if_true, e2]
        exact ⟨scan_append _ _ b f, fun _ => trivial⟩
      · simp only [sniffSig, hl, hl', if_false, e1, hb]
        exact ⟨scan_append _ a b f, fun _ => trivial⟩

/-! the two facts about the native unit decoders that `feedBom_splits` needs -/
theorem short16 (a : List Nat) (h : a.length < 2) : (scan (Kind.first .u16le) a false).err = false := by
  match a, h with
  | [], _ => rfl
  | [x], _ => rfl

theorem short32 (a : List Nat) (h : a.length < 4) : (scan (Kind.first .u32le) a false).err = false := by
  match a, h with
  | [], _ => rfl
  | [x], _ => rfl
  | [x, y], _ => rfl
  | [x, y, z], _ => rfl

theorem min16 (x : Nat) (t : List Nat) (cp j : Nat) (h : ((Kind.first .u16le) x).run t 0 = .done cp j) : 2 - 1 ≤ j := by
  cases t with
  | nil => simp [Kind.first, first16, Rd.run] at h
  | cons y t =>
    simp only [Kind.first, first16, Rd.run] at h
    have := run_done_le _ _ _ _ _ h
    omega

theorem min32 (x : Nat) (t : List Nat) (cp j : Nat) (h : ((Kind.first .u32le) x).run t 0 = .done cp j) : 4 - 1 ≤ j := by
  match t with
  | [] => simp [Kind.first, first32, Rd.run] at h
  | [_] => simp [Kind.first, first32, Rd.run] at h
  | [_, _] => simp [Kind.first, first32, Rd.run] at h
  | a :: b :: c :: t =>
    simp only [Kind.first, first32, Rd.run] at h
    have := run_done_le _ _ _ _ _ h
    omega

/-- **every decoder object of the model splits at every point of the data** -/
theorem ifeed_splits (c : CName) (m : Option Kind) (a : List Nat) : Splits (ifeed c) m a := by
  cases c with
  | plain k =>
    cases m with
    | some k' => exact splits_some _ k' (fun _ _ => rfl) a
    | none =>
      intro b f
      simp only [ifeed, sniff]
      exact ⟨scan_append _ a b f, fun _ => trivial⟩
  | u8sig =>
    have e : ifeed .u8sig = feedSig := by funext m d f; cases m <;> rfl
    rw [e]; exact feedSig_splits m a
  | u16 =>
    have e : ifeed .u16 = feedBom 2 bom16le bom16be .u16le .u16be := by funext m d f; cases m <;> rfl
    rw [e]; exact feedBom_splits 2 _ _ _ _ rfl rfl short16 min16 (by decide) m a
  | u32 =>
    have e : ifeed .u32 = feedBom 4 bom32le bom32be .u32le .u32be := by funext m d f; cases m <;> rfl
    rw [e]; exact feedBom_splits 4 _ _ _ _ rfl rfl short32 min32 (by decide) m a

end CssVerif.Codec
