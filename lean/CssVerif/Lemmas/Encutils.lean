import CssVerif.Model.Encutils
/-!
# Helper lemmas and specification-side definitions for C20 (`Props/C20.lean`)

* Python string helpers: `lower` is idempotent, a lower-cased string has no ASCII capital
* `Re` facts needed for the three regexes of encutils (`application/.*?\+xml`, `text\/.*?\+xml`, the XML
  declaration pattern): membership in `ms` of sequences / classes / stars of one class
* the documented media-type classes (`MClass`, `specClass`) and BOM table (`specBom`) — written by hand from the
  documentation, with literal strings; the theorems of `Props/C20.lean` tie the model (whose tables are
  regenerated from the source) to them.
-/
set_option linter.unusedSimpArgs false
set_option linter.unusedVariables false
set_option linter.unnecessarySimpa false

namespace CssVerif.Encutils
open CssVerif CssVerif.Proto CssVerif.Gen

/-! ## strings -/

def isUpperA (c : Nat) : Bool := 65 ≤ c && c ≤ 90

theorem lowerC_idem (c : Nat) : lowerC (lowerC c) = lowerC c := by
  unfold lowerC
  simp only [Bool.and_eq_true, decide_eq_true_eq, bne_iff_ne, ne_eq]
  repeat' split
  all_goals omega

theorem lower_idem (s : Cps) : lower (lower s) = lower s := by
  unfold lower
  simp [List.map_map, Function.comp_def, lowerC_idem]

theorem lowerC_not_upper (c : Nat) : isUpperA (lowerC c) = false := by
  unfold lowerC isUpperA
  simp only [Bool.and_eq_true, decide_eq_true_eq, bne_iff_ne, ne_eq, Bool.and_eq_false_iff, decide_eq_false_iff_not]
  repeat' split
  all_goals omega

/-- no ASCII capital letter -/
def NoUpper (s : Cps) : Prop := ∀ c ∈ s, isUpperA c = false

theorem noUpper_lower (s : Cps) : NoUpper (lower s) := by
  intro c hc
  unfold lower at hc
  simp only [List.mem_map] at hc
  obtain ⟨d, _, rfl⟩ := hc
  exact lowerC_not_upper d

theorem NoUpper.tail {c : Nat} {t : Cps} (h : NoUpper (c :: t)) : NoUpper t :=
  fun d hd => h d (List.mem_cons_of_mem _ hd)

theorem NoUpper.drop {s : Cps} (h : NoUpper s) (k : Nat) : NoUpper (s.drop k) :=
  fun d hd => h d (List.mem_of_mem_drop hd)

/-- `contains` is "some suffix starts with the needle" -/
theorem contains_iff (n : Cps) : ∀ h : Cps, contains n h = true ↔ ∃ k, k ≤ h.length ∧ n.isPrefixOf (h.drop k) = true := by
  intro h
  induction h with
  | nil =>
    cases n with
    | nil => simp [contains]
    | cons a t => simp [contains, List.isPrefixOf]
  | cons c t ih =>
    simp only [contains, Bool.or_eq_true, ih]
    constructor
    · rintro (h | ⟨k, hk, hp⟩)
      · exact ⟨0, by simp, by simpa using h⟩
      · exact ⟨k + 1, by simp; omega, by simpa using hp⟩
    · rintro ⟨k, hk, hp⟩
      cases k with
      | zero => left; simpa using hp
      | succ k => right; exact ⟨k, by simp at hk; omega, by simpa using hp⟩

/-! ## `Re`: does the pattern match at the start? -/

/-- `re.match(pattern, s)` is not `None` -/
def hits (r : Re) (s : Cps) : Bool := (r.first s).isSome

theorem ms_seq (a b : Re) (s : Cps) :
    (Re.seq a b).ms s = (a.ms s).flatMap fun l1 => (b.ms (s.drop l1)).map (l1 + ·) := by
  rw [Re.ms]

theorem hits_iff (r : Re) (s : Cps) : hits r s = true ↔ r.ms s ≠ [] := by
  unfold hits Re.first
  cases r.ms s <;> simp

theorem hits_cls (neg : Bool) (rs : List (Nat × Nat)) (s : Cps) :
    hits (.cls neg rs) s = match s with | [] => false | c :: _ => Re.inCls neg rs c := by
  cases s with
  | nil => simp [hits, Re.first, Re.ms]
  | cons c t => by_cases h : Re.inCls neg rs c = true <;> simp [hits, Re.first, Re.ms, h]

theorem hits_seq_cls (neg : Bool) (rs : List (Nat × Nat)) (b : Re) (s : Cps) :
    hits (.seq (.cls neg rs) b) s = match s with | [] => false | c :: t => Re.inCls neg rs c && hits b t := by
  cases s with
  | nil => simp [hits, Re.first, Re.ms]
  | cons c t =>
    by_cases h : Re.inCls neg rs c = true
    · simp only [hits, Re.first, Re.ms, h, if_true, List.flatMap_cons, List.flatMap_nil, List.append_nil,
        List.drop_succ_cons, List.drop_zero, Bool.true_and]
      cases b.ms t <;> simp
    · simp [hits, Re.first, Re.ms, h]

/-- the class that matches every character (`.` under re.S) -/
abbrev anyCls : Re := .cls true []

theorem any_ms (s : Cps) : anyCls.ms s = match s with | [] => [] | _ :: _ => [1] := by
  cases s <;> simp [Re.ms, Re.inCls]

theorem mem_starMs_any (g : Bool) : ∀ (fuel : Nat) (s : Cps), s.length < fuel →
    ∀ k, k ∈ Re.starMs anyCls.ms g fuel s ↔ k ≤ s.length := by
  intro fuel
  induction fuel with
  | zero => intro s h; omega
  | succ n ih =>
    intro s hs k
    cases s with
    | nil =>
      simp only [Re.starMs, any_ms]
      cases g <;> simp
    | cons c t =>
      have hlen : t.length < n := by simp at hs; omega
      have key : ∀ k, k ∈ (((anyCls.ms (c :: t)).filter (· > 0)).flatMap fun l1 =>
          (Re.starMs anyCls.ms g n ((c :: t).drop l1)).map (l1 + ·)) ↔ ∃ k', k' ≤ t.length ∧ k = 1 + k' := by
        intro k
        simp only [any_ms, List.filter_cons, List.filter_nil, List.flatMap_cons, List.flatMap_nil,
          List.append_nil, List.mem_map, List.drop_succ_cons, List.drop_zero]
        simp only [show (1 : Nat) > 0 from by omega, decide_true, if_true, List.flatMap_cons, List.flatMap_nil,
          List.append_nil, List.mem_map, List.drop_succ_cons, List.drop_zero, ih t hlen]
        constructor
        · rintro ⟨a, ha, rfl⟩; exact ⟨a, ha, rfl⟩
        · rintro ⟨a, ha, rfl⟩; exact ⟨a, ha, rfl⟩
      simp only [Re.starMs]
      cases g
      · simp only [Bool.false_eq_true, if_false, List.mem_cons, key, List.length_cons]
        constructor
        · rintro (rfl | ⟨k', hk', rfl⟩) <;> omega
        · intro h
          cases k with
          | zero => left; rfl
          | succ k => right; exact ⟨k, by omega, by omega⟩
      · simp only [if_true, List.mem_append, List.mem_singleton, key, List.length_cons]
        constructor
        · rintro (⟨k', hk', rfl⟩ | rfl) <;> omega
        · intro h
          cases k with
          | zero => right; rfl
          | succ k => left; exact ⟨k, by omega, by omega⟩

theorem mem_star_any (g : Bool) (s : Cps) (k : Nat) : k ∈ (Re.star anyCls g).ms s ↔ k ≤ s.length := by
  simp only [Re.ms]
  exact mem_starMs_any g (s.length + 1) s (by omega) k

/-- `.*X` matches iff `X` matches at some offset -/
theorem hits_seq_star_any (g : Bool) (b : Re) (s : Cps) :
    hits (.seq (.star anyCls g) b) s = true ↔ ∃ k, k ≤ s.length ∧ hits b (s.drop k) = true := by
  rw [hits_iff]
  constructor
  · intro h
    obtain ⟨l, hl⟩ := List.exists_mem_of_ne_nil _ h
    rw [ms_seq] at hl
    simp only [List.mem_flatMap, List.mem_map] at hl
    obtain ⟨l1, h1, l2, h2, _⟩ := hl
    refine ⟨l1, (mem_star_any g s l1).1 h1, ?_⟩
    rw [hits_iff]; exact List.ne_nil_of_mem h2
  · rintro ⟨k, hk, hb⟩
    rw [hits_iff] at hb
    obtain ⟨l2, h2⟩ := List.exists_mem_of_ne_nil _ hb
    apply List.ne_nil_of_mem (a := k + l2)
    rw [ms_seq]
    simp only [List.mem_flatMap, List.mem_map]
    exact ⟨k, (mem_star_any g s k).2 hk, l2, h2, rfl⟩

/-! ### a run of single-character classes (how relib nests a literal) -/

abbrev Cls := Bool × List (Nat × Nat)

/-- `c₁ c₂ … cₙ r` nested to the right -/
def clsChain : List Cls → Re → Re
  | [], r => r
  | c :: cs, r => .seq (.cls c.1 c.2) (clsChain cs r)

/-- `c₁ c₂ … cₙ` nested to the right, the last one standing alone -/
def clsSeq : List Cls → Re
  | [] => .eps
  | [c] => .cls c.1 c.2
  | c :: d :: cs => .seq (.cls c.1 c.2) (clsSeq (d :: cs))

/-- the first `cs.length` characters of `s` are in the respective classes -/
def matchCls : List Cls → Cps → Bool
  | [], _ => true
  | _ :: _, [] => false
  | c :: cs, x :: t => Re.inCls c.1 c.2 x && matchCls cs t

theorem hits_clsChain (r : Re) : ∀ (cs : List Cls) (s : Cps),
    hits (clsChain cs r) s = (matchCls cs s && hits r (s.drop cs.length)) := by
  intro cs
  induction cs with
  | nil => intro s; simp [clsChain, matchCls]
  | cons c cs ih =>
    intro s
    simp only [clsChain, hits_seq_cls]
    cases s with
    | nil => simp [matchCls]
    | cons x t => simp [matchCls, ih, Bool.and_assoc]

theorem hits_clsSeq : ∀ (cs : List Cls) (s : Cps), hits (clsSeq cs) s = matchCls cs s := by
  intro cs
  induction cs with
  | nil => intro s; simp [clsSeq, matchCls, hits, Re.first, Re.ms]
  | cons c cs ih =>
    intro s
    cases cs with
    | nil =>
      simp only [clsSeq, hits_cls]
      cases s <;> simp [matchCls]
    | cons d cs =>
      simp only [clsSeq, hits_seq_cls]
      cases s with
      | nil => simp [matchCls]
      | cons x t => simp [matchCls, ih]

/-- the class relib produces for a literal character under re.I -/
def foldCls (c : Nat) : Cls := (false, if 97 ≤ c ∧ c ≤ 122 then [(c, c), (c - 32, c - 32)] else [(c, c)])

theorem inCls_foldCls (c x : Nat) (hx : isUpperA x = false) : Re.inCls (foldCls c).1 (foldCls c).2 x = (c == x) := by
  unfold foldCls Re.inCls
  unfold isUpperA at hx
  simp only [Bool.and_eq_false_iff, decide_eq_false_iff_not] at hx
  rw [Bool.eq_iff_iff]
  by_cases h : 97 ≤ c ∧ c ≤ 122
  · simp only [h, and_self, if_true, List.any_cons, List.any_nil, Bool.or_false, bne_iff_ne, ne_eq,
      Bool.or_eq_true, Bool.and_eq_true, decide_eq_true_eq, beq_iff_eq]
    simp only [Bool.false_eq, Bool.or_eq_false_iff, Bool.and_eq_false_iff, decide_eq_false_iff_not, not_and, not_or]
    omega
  · simp only [h, if_false, List.any_cons, List.any_nil, Bool.or_false, bne_iff_ne, ne_eq,
      Bool.and_eq_true, decide_eq_true_eq, beq_iff_eq]
    simp only [Bool.false_eq, Bool.and_eq_false_iff, decide_eq_false_iff_not]
    omega

/-- on input without capitals the folded literal matches exactly where the literal is a prefix -/
theorem matchCls_fold : ∀ (lit s : Cps), NoUpper s → matchCls (lit.map foldCls) s = lit.isPrefixOf s := by
  intro lit
  induction lit with
  | nil => intro s _; simp [matchCls]
  | cons c lit ih =>
    intro s hs
    cases s with
    | nil => simp [matchCls, List.isPrefixOf]
    | cons x t =>
      simp only [List.map_cons, matchCls, List.isPrefixOf]
      rw [inCls_foldCls c x (hs x (by simp)), ih t hs.tail]

/-- `lit₁ .* lit₂` under re.I|re.S on a string without capitals: prefix and infix -/
theorem hits_lit_any_lit (a b : Cps) (g : Bool) (s : Cps) (hs : NoUpper s) :
    hits (clsChain (a.map foldCls) (.seq (.star anyCls g) (clsSeq (b.map foldCls)))) s =
      (a.isPrefixOf s && contains b (s.drop a.length)) := by
  rw [hits_clsChain, matchCls_fold a s hs, List.length_map]
  congr 1
  rw [Bool.eq_iff_iff, hits_seq_star_any, contains_iff]
  constructor
  · rintro ⟨k, hk, h⟩
    refine ⟨k, hk, ?_⟩
    rw [hits_clsSeq, matchCls_fold b _ ((hs.drop _).drop _)] at h
    exact h
  · rintro ⟨k, hk, h⟩
    refine ⟨k, hk, ?_⟩
    rw [hits_clsSeq, matchCls_fold b _ ((hs.drop _).drop _)]
    exact h

/-! ## the documented media-type classes -/

/-- the six classes named in the comments at the type constants (`encutils/__init__.py:76-94`) -/
inductive MClass where
  | appXml    -- application/xml, application/xml-dtd, application/xml-external-parsed-entity, application/…+xml
  | textXml   -- text/xml, text/xml-external-parsed-entity, text/…+xml
  | html      -- text/html
  | css       -- text/css ("any text/* which defaults to UTF-8, for now only text/css")
  | text      -- any other text/*
  | other
deriving DecidableEq, Repr

/-- the integer the code uses for a class -/
def MClass.code : MClass → Nat
  | .appXml => C20.XML_APPLICATION_TYPE
  | .textXml => C20.XML_TEXT_TYPE
  | .html => C20.HTML_TEXT_TYPE
  | .css => C20.TEXT_UTF8
  | .text => C20.TEXT_TYPE
  | .other => C20.OTHER_TYPE

/-- class of a stripped, lower-cased media type — written from the documentation, literal strings -/
def specClassNorm (n : Cps) : MClass :=
  if n = cps "application/xml" ∨ n = cps "application/xml-dtd" ∨ n = cps "application/xml-external-parsed-entity" ∨
      ((cps "application/").isPrefixOf n = true ∧ contains (cps "+xml") (n.drop 12) = true) then .appXml
  else if n = cps "text/xml" ∨ n = cps "text/xml-external-parsed-entity" ∨
      ((cps "text/").isPrefixOf n = true ∧ contains (cps "+xml") (n.drop 5) = true) then .textXml
  else if n = cps "text/html" then .html
  else if n = cps "text/css" then .css
  else if (cps "text/").isPrefixOf n = true then .text
  else .other

/-- class of a media type as the transport gives it (absent or empty: other) -/
def specClass : Option Cps → MClass
  | none => .other
  | some [] => .other
  | some m => specClassNorm (lower (strip m))

theorem app_re_shape : C20.xml_application_types_re =
    clsChain ((cps "application/").map foldCls) (.seq (.star anyCls false) (clsSeq ((cps "+xml").map foldCls))) := by
  decide

theorem text_re_shape : C20.xml_text_types_re =
    clsChain ((cps "text/").map foldCls) (.seq (.star anyCls false) (clsSeq ((cps "+xml").map foldCls))) := by
  decide

/-- the regex source string that sits in `xml_text_types` next to the real names; before the fix it was taken for a
media type of the text/xml family -/
def textRegexLiteral : Cps := cps "text\\/.*?\\+xml"

theorem ladder_spec (n : Cps) (hn : NoUpper n) :
    runLadder n C20.ladder = (specClassNorm n).code := by
  have happ : ruleHits (.listRe (C20.xml_application_types.drop 1) C20.xml_application_types_re C20.XML_APPLICATION_TYPE) n = true ↔
      (n = cps "application/xml" ∨ n = cps "application/xml-dtd" ∨ n = cps "application/xml-external-parsed-entity" ∨
        ((cps "application/").isPrefixOf n = true ∧ contains (cps "+xml") (n.drop 12) = true)) := by
    have hre : (C20.xml_application_types_re.first n).isSome =
        ((cps "application/").isPrefixOf n && contains (cps "+xml") (n.drop 12)) := by
      have := hits_lit_any_lit (cps "application/") (cps "+xml") false n hn
      rw [← app_re_shape] at this
      exact this
    simp only [ruleHits, hre, C20.xml_application_types, List.drop_succ_cons, List.drop_zero, List.contains_cons,
      List.contains_nil, Bool.or_false, Bool.or_eq_true, beq_iff_eq, Bool.and_eq_true]
    constructor
    · rintro ((h | h | h) | h)
      · left; rw [h]; decide
      · right; left; rw [h]; decide
      · right; right; left; rw [h]; decide
      · right; right; right; exact h
    · rintro (h | h | h | h)
      · left; left; rw [h]; decide
      · left; right; left; rw [h]; decide
      · left; right; right; rw [h]; decide
      · right; exact h
  have htxt : ruleHits (.listRe (C20.xml_text_types.drop 1) C20.xml_text_types_re C20.XML_TEXT_TYPE) n = true ↔
      (n = cps "text/xml" ∨ n = cps "text/xml-external-parsed-entity" ∨
        ((cps "text/").isPrefixOf n = true ∧ contains (cps "+xml") (n.drop 5) = true)) := by
    have hre : (C20.xml_text_types_re.first n).isSome =
        ((cps "text/").isPrefixOf n && contains (cps "+xml") (n.drop 5)) := by
      have := hits_lit_any_lit (cps "text/") (cps "+xml") false n hn
      rw [← text_re_shape] at this
      exact this
    simp only [ruleHits, hre, C20.xml_text_types, List.drop_succ_cons, List.drop_zero, List.contains_cons,
      List.contains_nil, Bool.or_false, Bool.or_eq_true, beq_iff_eq, Bool.and_eq_true]
    constructor
    · rintro ((h | h) | h)
      · left; rw [h]; decide
      · right; left; rw [h]; decide
      · right; right; exact h
    · rintro (h | h | h)
      · left; left; rw [h]; decide
      · left; right; rw [h]; decide
      · right; exact h
  have hhtml : ruleHits (.eq (cps "text/html") C20.HTML_TEXT_TYPE) n = true ↔ n = cps "text/html" := by
    simp [ruleHits]
  have hcss : ruleHits (.eq (cps "text/css") C20.TEXT_UTF8) n = true ↔ n = cps "text/css" := by
    simp [ruleHits]
  have hl : C20.ladder = [.listRe (C20.xml_application_types.drop 1) C20.xml_application_types_re C20.XML_APPLICATION_TYPE,
      .listRe (C20.xml_text_types.drop 1) C20.xml_text_types_re C20.XML_TEXT_TYPE,
      .eq (cps "text/html") C20.HTML_TEXT_TYPE, .eq (cps "text/css") C20.TEXT_UTF8,
      .pre (cps "text/") C20.TEXT_TYPE] := by decide
  rw [hl]
  unfold specClassNorm
  simp only [runLadder]
  by_cases h1 : ruleHits (.listRe (C20.xml_application_types.drop 1) C20.xml_application_types_re C20.XML_APPLICATION_TYPE) n = true
  · rw [if_pos h1, if_pos (happ.1 h1)]; rfl
  · rw [if_neg h1, if_neg (fun h => h1 (happ.2 h))]
    by_cases h2 : ruleHits (.listRe (C20.xml_text_types.drop 1) C20.xml_text_types_re C20.XML_TEXT_TYPE) n = true
    · rw [if_pos h2, if_pos (htxt.1 h2)]; rfl
    · rw [if_neg h2, if_neg (fun h => h2 (htxt.2 h))]
      by_cases h3 : ruleHits (.eq (cps "text/html") C20.HTML_TEXT_TYPE) n = true
      · rw [if_pos h3, if_pos (hhtml.1 h3)]; rfl
      · rw [if_neg h3, if_neg (fun h => h3 (hhtml.2 h))]
        by_cases h4 : ruleHits (.eq (cps "text/css") C20.TEXT_UTF8) n = true
        · rw [if_pos h4, if_pos (hcss.1 h4)]; rfl
        · rw [if_neg h4, if_neg (fun h => h4 (hcss.2 h))]
          by_cases h5 : (cps "text/").isPrefixOf n = true
          · have : ruleHits (.pre (cps "text/") C20.TEXT_TYPE) n = true := h5
            rw [if_pos this, if_pos h5]; rfl
          · have : ¬ ruleHits (.pre (cps "text/") C20.TEXT_TYPE) n = true := h5
            rw [if_neg this, if_neg h5]; rfl

/-! ## the XML sniffer -/

/-- the documented BOM table: four-byte patterns, then the three-byte one, then the two-byte ones -/
def specBom (b1 b2 b3 b4 : Nat) : Option Cps :=
  if b1 = 0x00 ∧ b2 = 0x00 ∧ b3 = 0xFE ∧ b4 = 0xFF then some (cps "utf_32_be")
  else if b1 = 0xFF ∧ b2 = 0xFE ∧ b3 = 0x00 ∧ b4 = 0x00 then some (cps "utf_32_le")
  else if b1 = 0xEF ∧ b2 = 0xBB ∧ b3 = 0xBF then some (cps "utf-8")
  else if b1 = 0xFE ∧ b2 = 0xFF then some (cps "utf_16_be")
  else if b1 = 0xFF ∧ b2 = 0xFE then some (cps "utf_16_le")
  else none

theorem bomDetect_spec (b1 b2 b3 b4 : Nat) :
    bomDetect (some b1) (some b2) (some b3) (some b4) = specBom b1 b2 b3 b4 := by
  have e1 : cps "utf_32_be" = [117, 116, 102, 95, 51, 50, 95, 98, 101] := by decide
  have e2 : cps "utf_32_le" = [117, 116, 102, 95, 51, 50, 95, 108, 101] := by decide
  have e3 : cps "utf-8" = [117, 116, 102, 45, 56] := by decide
  have e4 : cps "utf_16_be" = [117, 116, 102, 95, 49, 54, 95, 98, 101] := by decide
  have e5 : cps "utf_16_le" = [117, 116, 102, 95, 49, 54, 95, 108, 101] := by decide
  unfold bomDetect bomGet specBom
  rw [e1, e2, e3, e4, e5]
  simp only [C20.bomDict, dictGet]
  by_cases h1 : b1 = 0 ∧ b2 = 0 ∧ b3 = 254 ∧ b4 = 255
  · obtain ⟨rfl, rfl, rfl, rfl⟩ := h1; simp
  · by_cases h2 : b1 = 255 ∧ b2 = 254 ∧ b3 = 0 ∧ b4 = 0
    · obtain ⟨rfl, rfl, rfl, rfl⟩ := h2; simp
    · by_cases h3 : b1 = 239 ∧ b2 = 187 ∧ b3 = 191
      · obtain ⟨rfl, rfl, rfl⟩ := h3; simp
      · by_cases h4 : b1 = 254 ∧ b2 = 255
        · obtain ⟨rfl, rfl⟩ := h4; simp
        · by_cases h5 : b1 = 255 ∧ b2 = 254
          · obtain ⟨rfl, rfl⟩ := h5
            have : ¬ (0 = b3 ∧ 0 = b4) := by omega
            simp [this]
            omega
          · have a1 : ¬ (0 = b1 ∧ 0 = b2 ∧ 254 = b3 ∧ 255 = b4) := by omega
            have a2 : ¬ (255 = b1 ∧ 254 = b2 ∧ 0 = b3 ∧ 0 = b4) := by omega
            have a3 : ¬ (239 = b1 ∧ 187 = b2 ∧ 191 = b3) := by omega
            have a4 : ¬ (254 = b1 ∧ 255 = b2) := by omega
            have a5 : ¬ (255 = b1 ∧ 254 = b2) := by omega
            simp [h1, h2, h3, h4, h5, a1, a2, a3, a4, a5]

/-- what the sniffer answers for a `str`/`bytes` document: the BOM's encoding, else the declared encoding
(lower-cased), else UTF-8 (or nothing, for `includeDefault=False`). For fewer than four characters the code raises
`ValueError` and `getEncodingInfo` turns that into "unknown" (known finding C20-xml-short): `none`. -/
def specSniff (txt : Cps) (incl : Bool) : Option Cps :=
  match txt with
  | b1 :: b2 :: b3 :: b4 :: _ =>
    match specBom b1 b2 b3 b4 with
    | some n => some n
    | none =>
      match declMatch (txt.take 2048) with
      | some e => some (lower e)
      | none => if incl then some (cps "utf-8") else none
  | _ => none

/-- the BOM a document of fewer than four characters can still start with: the three-byte and the two-byte ones -/
def specBomShort : Cps → Option Cps
  | [b1, b2, b3] =>
    if b1 = 0xEF ∧ b2 = 0xBB ∧ b3 = 0xBF then some (cps "utf-8")
    else if b1 = 0xFE ∧ b2 = 0xFF then some (cps "utf_16_be")
    else if b1 = 0xFF ∧ b2 = 0xFE then some (cps "utf_16_le")
    else none
  | [b1, b2] =>
    if b1 = 0xFE ∧ b2 = 0xFF then some (cps "utf_16_be")
    else if b1 = 0xFF ∧ b2 = 0xFE then some (cps "utf_16_le")
    else none
  | _ => none

/-- what `detectXMLEncoding` answers for a document of fewer than four characters (since the fix "no longer raises
ValueError for a document shorter than four characters"): a shorter BOM, else the declaration pattern (which cannot
match so short a text, `decl_iff`), else the default -/
def specSniffShort (txt : Cps) (incl : Bool) : Option Cps :=
  match specBomShort txt with
  | some n => some n
  | none =>
    match declMatch txt with
    | some e => some (lower e)
    | none => if incl then some (cps "utf-8") else none

theorem bomDetect_short3 (b1 b2 b3 : Nat) :
    bomDetect (some b1) (some b2) (some b3) none = specBomShort [b1, b2, b3] := by
  have e3 : cps "utf-8" = [117, 116, 102, 45, 56] := by decide
  have e4 : cps "utf_16_be" = [117, 116, 102, 95, 49, 54, 95, 98, 101] := by decide
  have e5 : cps "utf_16_le" = [117, 116, 102, 95, 49, 54, 95, 108, 101] := by decide
  unfold bomDetect bomGet specBomShort
  rw [e3, e4, e5]
  simp only [C20.bomDict, dictGet]
  by_cases h3 : b1 = 239 ∧ b2 = 187 ∧ b3 = 191
  · obtain ⟨rfl, rfl, rfl⟩ := h3; simp
  · by_cases h4 : b1 = 254 ∧ b2 = 255
    · obtain ⟨rfl, rfl⟩ := h4; simp
    · by_cases h5 : b1 = 255 ∧ b2 = 254
      · obtain ⟨rfl, rfl⟩ := h5; simp
      · have a3 : ¬ (239 = b1 ∧ 187 = b2 ∧ 191 = b3) := by omega
        have a4 : ¬ (254 = b1 ∧ 255 = b2) := by omega
        have a5 : ¬ (255 = b1 ∧ 254 = b2) := by omega
        simp [h3, h4, h5, a3, a4, a5]

theorem bomDetect_short2 (b1 b2 : Nat) :
    bomDetect (some b1) (some b2) none none = specBomShort [b1, b2] := by
  have e4 : cps "utf_16_be" = [117, 116, 102, 95, 49, 54, 95, 98, 101] := by decide
  have e5 : cps "utf_16_le" = [117, 116, 102, 95, 49, 54, 95, 108, 101] := by decide
  unfold bomDetect bomGet specBomShort
  rw [e4, e5]
  simp only [C20.bomDict, dictGet]
  by_cases h4 : b1 = 254 ∧ b2 = 255
  · obtain ⟨rfl, rfl⟩ := h4; simp
  · by_cases h5 : b1 = 255 ∧ b2 = 254
    · obtain ⟨rfl, rfl⟩ := h5; simp
    · have a4 : ¬ (254 = b1 ∧ 255 = b2) := by omega
      have a5 : ¬ (255 = b1 ∧ 254 = b2) := by omega
      simp [h4, h5, a4, a5]

theorem bomDetect_short1 (b1 : Nat) : bomDetect (some b1) none none none = none := by
  unfold bomDetect bomGet
  simp [C20.bomDict, dictGet]

theorem bomDetect_short0 : bomDetect none none none none = none := by
  unfold bomDetect bomGet
  simp [C20.bomDict, dictGet]

theorem detectXMLStream_long (b1 b2 b3 b4 : Nat) (t : Cps) (pos : Nat) (bin incl : Bool) :
    detectXMLStream ⟨b1 :: b2 :: b3 :: b4 :: t, pos, bin⟩ incl =
      ⟨.ok (specSniff (b1 :: b2 :: b3 :: b4 :: t) incl), ⟨b1 :: b2 :: b3 :: b4 :: t, pos, bin⟩⟩ := by
  have e3 : C20.xmlDefault = cps "utf-8" := by decide
  simp only [detectXMLStream, C20.bomRead, C20.declRead, specSniff, bomDetect_spec, e3, List.take_succ_cons,
    List.take_zero, List.map_cons, List.map_nil, List.cons_append, List.nil_append]
  cases specBom b1 b2 b3 b4 with
  | some n => rfl
  | none =>
    simp only []
    generalize declMatch _ = d
    cases d with
    | some e => rfl
    | none => cases incl <;> rfl

theorem detectXMLStream_short (fp : Stream) (incl : Bool) (h : fp.content.length < 4) :
    detectXMLStream fp incl = ⟨.ok (specSniffShort fp.content incl), fp⟩ := by
  have e3 : C20.xmlDefault = cps "utf-8" := by decide
  obtain ⟨c, p, b⟩ := fp
  simp only at h
  match c, h with
  | [], h =>
    simp only [detectXMLStream, C20.bomRead, C20.declRead, e3, List.take_nil, List.map_nil, List.nil_append,
      List.replicate, List.take_succ_cons, List.take_zero, bomDetect_short0, specSniffShort, specBomShort]
    cases declMatch [] with
    | some e => rfl
    | none => cases incl <;> rfl
  | [b1], h =>
    simp only [detectXMLStream, C20.bomRead, C20.declRead, e3, List.take_nil, List.map_nil, List.nil_append,
      List.map_cons, List.cons_append,
      List.replicate, List.take_succ_cons, List.take_zero, bomDetect_short1, specSniffShort, specBomShort]
    cases declMatch [b1] with
    | some e => rfl
    | none => cases incl <;> rfl
  | [b1, b2], h =>
    simp only [detectXMLStream, C20.bomRead, C20.declRead, e3, List.take_nil, List.map_nil, List.nil_append,
      List.map_cons, List.cons_append,
      List.replicate, List.take_succ_cons, List.take_zero, bomDetect_short2, specSniffShort]
    cases specBomShort [b1, b2] with
    | some n => rfl
    | none =>
      simp only []
      cases declMatch [b1, b2] with
      | some e => rfl
      | none => cases incl <;> rfl
  | [b1, b2, b3], h =>
    simp only [detectXMLStream, C20.bomRead, C20.declRead, e3, List.take_nil, List.map_nil, List.nil_append,
      List.map_cons, List.cons_append,
      List.replicate, List.take_succ_cons, List.take_zero, bomDetect_short3, specSniffShort]
    cases specBomShort [b1, b2, b3] with
    | some n => rfl
    | none =>
      simp only []
      cases declMatch [b1, b2, b3] with
      | some e => rfl
      | none => cases incl <;> rfl
  | _ :: _ :: _ :: _ :: _, h => simp at h; omega

theorem detectXML_long (b1 b2 b3 b4 : Nat) (t : Cps) (incl : Bool) :
    detectXML (b1 :: b2 :: b3 :: b4 :: t) incl = .ok (specSniff (b1 :: b2 :: b3 :: b4 :: t) incl) := by
  simp [detectXML, detectXMLStream_long]

theorem detectXML_short (txt : Cps) (incl : Bool) (h : txt.length < 4) :
    detectXML txt incl = .ok (specSniffShort txt incl) := by
  simp [detectXML, detectXMLStream_short ⟨txt, 0, false⟩ incl h]

theorem specSniff_short (txt : Cps) (incl : Bool) (h : txt.length < 4) : specSniff txt incl = none := by
  match txt, h with
  | [], _ => rfl
  | [_], _ => rfl
  | [_, _], _ => rfl
  | [_, _, _], _ => rfl
  | _ :: _ :: _ :: _ :: _, h => simp at h; omega

/-- what a direct call of the sniffer answers, for every document -/
def specSniffAll (txt : Cps) (incl : Bool) : Option Cps :=
  if txt.length < 4 then specSniffShort txt incl else specSniff txt incl

/-- the sniffer never raises, so the `except` of `getEncodingInfo` has nothing to catch -/
theorem sniffCaught_spec (txt : Cps) (incl : Bool) : sniffCaught txt incl = .ok (specSniffAll txt incl) := by
  unfold specSniffAll
  by_cases h : txt.length < 4
  · simp [sniffCaught, detectXML_short txt incl h, h]
  · match txt, h with
    | b1 :: b2 :: b3 :: b4 :: t, _ =>
      simp only [sniffCaught, detectXML_long]
      rw [if_neg (by simp)]
    | [], h => simp at h
    | [_], h => simp at h
    | [_, _], h => simp at h
    | [_, _, _], h => simp at h

/-! ## `getEncodingInfo` -/

theorem getEncodingInfo_ok {resp : Option Resp} {text : Option Cps} {m : MetaRaw} {t : Option Cps} {i : Info}
    (h : getEncodingInfo resp text m t = .ok i) :
    ∃ txt xml metaI, effText resp text = .ok txt ∧ xmlOf (typeOf resp txt) txt = .ok xml ∧
      metaOf (typeOf resp txt) m = .ok metaI ∧ i = assemble (typeOf resp txt) (httpOf resp) xml metaI t := by
  unfold getEncodingInfo at h
  split at h
  · simp at h
  · rename_i txt htxt
    simp only at h
    split at h
    · simp at h
    · rename_i xml hxml
      split at h
      · simp at h
      · rename_i metaI hmeta
        simp only [Except.ok.injEq] at h
        exact ⟨txt, xml, metaI, htxt, hxml, hmeta, h.symm⟩

/-- documented default encoding of a class -/
def specDefault : MClass → Option Cps
  | .appXml => some (cps "utf-8")
  | .textXml => some (cps "ascii")
  | .html => some (cps "iso-8859-1")
  | .text => some (cps "iso-8859-1")
  | .css => some (cps "utf-8")
  | .other => none

/-- how the document is classified: by the transport media type; without a response, XML if `<?xml version=` occurs
in the first 30 characters (the code's "naive test"), else other -/
def docClass (resp : Option Resp) (txt : Cps) : MClass :=
  match resp with
  | some r => specClass r.mediaType
  | none => if contains (cps "<?xml version=") (txt.take 30) = true then .appXml else .other

/-- charset found by the meta sniffer (tail of `getMetaInfo`) -/
def metaCharset : MetaRaw → Option Cps
  | .found _ (.str s) => some (if s.isEmpty then s else lower s)
  | .found _ (.tuple s) => some (if s.isEmpty then s else lower s)
  | _ => none

theorem metaCharset_lower (m : MetaRaw) (x : Cps) (h : metaCharset m = some x) : lower x = x := by
  have key : ∀ s : Cps, lower (if s.isEmpty then s else lower s) = (if s.isEmpty then s else lower s) := by
    intro s
    cases s with
    | nil => rfl
    | cons a l => simp [lower_idem]
  cases m with
  | raises => simp [metaCharset] at h
  | absent => simp [metaCharset] at h
  | found mt p =>
    cases p with
    | none => simp [metaCharset] at h
    | str s => simp only [metaCharset, Option.some.injEq] at h; rw [← h]; exact key s
    | tuple s => simp only [metaCharset, Option.some.injEq] at h; rw [← h]; exact key s

theorem classify_spec (mt : Option Cps) : textTypeByMediaType mt = (specClass mt).code := by
  match mt with
  | none => rfl
  | some [] => rfl
  | some (c :: t) =>
    simp only [textTypeByMediaType, specClass]
    exact ladder_spec _ (noUpper_lower _)

theorem code_injective (a b : MClass) (h : a.code = b.code) : a = b := by
  cases a <;> cases b <;> first | rfl | (exact absurd h (by decide))

theorem typeOf_spec (resp : Option Resp) (txt : Cps) :
    typeOf resp txt = (docClass resp txt).code := by
  cases resp with
  | none =>
    have e : C20.sniffNeedle = cps "<?xml version=" := by decide
    simp only [typeOf, docClass, textTypeOfText, e, C20.sniffWindow]
    split <;> rfl
  | some r => exact classify_spec r.mediaType

theorem xmlOf_spec (c : MClass) (txt : Cps) :
    xmlOf c.code txt = .ok (match c with
      | .appXml => specSniff txt true
      | .html => specSniff txt false
      | _ => none) := by
  by_cases h : txt.length < 4
  · have h' : ¬ 4 ≤ txt.length := by omega
    cases c <;> simp [xmlOf, MClass.code, C20.XML_APPLICATION_TYPE, C20.HTML_TEXT_TYPE, C20.XML_TEXT_TYPE,
      C20.TEXT_TYPE, C20.TEXT_UTF8, C20.OTHER_TYPE, h', specSniff_short txt _ h]
  · have h' : 4 ≤ txt.length := by omega
    cases c <;> simp [xmlOf, MClass.code, C20.XML_APPLICATION_TYPE, C20.HTML_TEXT_TYPE, C20.XML_TEXT_TYPE,
      C20.TEXT_TYPE, C20.TEXT_UTF8, C20.OTHER_TYPE, sniffCaught_spec, specSniffAll, h, h']

theorem metaOf_spec (c : MClass) (m : MetaRaw) :
    metaOf c.code m = (match c with
      | .html => getMetaInfo m
      | .text => getMetaInfo m
      | _ => .ok (none, none)) := by
  cases c <;> simp [metaOf, MClass.code, C20.XML_APPLICATION_TYPE, C20.HTML_TEXT_TYPE, C20.XML_TEXT_TYPE,
    C20.TEXT_TYPE, C20.TEXT_UTF8, C20.OTHER_TYPE]

theorem getMetaInfo_charset {m : MetaRaw} {p : Option Cps × Option Cps} (h : getMetaInfo m = .ok p) :
    p.2 = metaCharset m := by
  cases m with
  | raises => simp [getMetaInfo] at h
  | absent => simp [getMetaInfo] at h; subst h; rfl
  | found mt ch =>
    cases ch with
    | none => simp [getMetaInfo] at h; subst h; rfl
    | str s => simp [getMetaInfo] at h; subst h; simp [metaCharset]
    | tuple s => simp [getMetaInfo] at h; subst h; simp [metaCharset]

theorem defaults_spec (c : MClass) : (dictGet c.code C20.defaultEncodings).join = specDefault c := by
  cases c <;> decide

theorem truthy_cases (o : Option Cps) : (truthy o = true ∧ ∃ a l, o = some (a :: l)) ∨ (truthy o = false ∧ (o = none ∨ o = some [])) := by
  match o with
  | none => right; simp [truthy]
  | some [] => right; simp [truthy]
  | some (a :: l) => left; exact ⟨rfl, a, l, rfl⟩

/-- the precedence chain as the documented first-match table -/
theorem chain_spec (c : MClass) (http xml metaE bm tryEnc : Option Cps) (hbm : c ≠ .appXml → c ≠ .other → bm = specDefault c) :
    chain c.code http xml metaE bm tryEnc =
      if truthy http = true then http else
        match (generalizing := false) c with
        | .appXml => xml
        | .html => if truthy metaE = true then metaE else some (cps "iso-8859-1")
        | .textXml => some (cps "ascii")
        | .text => some (cps "iso-8859-1")
        | .css => some (cps "utf-8")
        | .other => http := by
  rcases truthy_cases http with ⟨ht, a, l, rfl⟩ | ⟨ht, rfl | rfl⟩
  · cases c <;> simp [chain, MClass.code, C20.XML_APPLICATION_TYPE, C20.HTML_TEXT_TYPE, C20.XML_TEXT_TYPE,
      C20.TEXT_TYPE, C20.TEXT_UTF8, C20.OTHER_TYPE, truthy]
  all_goals
    cases c
    case appXml => simp [chain, MClass.code, C20.XML_APPLICATION_TYPE, truthy]
    case other => simp [chain, MClass.code, C20.XML_APPLICATION_TYPE, C20.HTML_TEXT_TYPE, C20.XML_TEXT_TYPE,
      C20.TEXT_TYPE, C20.TEXT_UTF8, C20.OTHER_TYPE, truthy]
    case html =>
      have := hbm (by decide) (by decide); subst this
      rcases truthy_cases metaE with ⟨hm, a, l, rfl⟩ | ⟨hm, rfl | rfl⟩ <;>
        simp [chain, MClass.code, C20.XML_APPLICATION_TYPE, C20.HTML_TEXT_TYPE, truthy, specDefault, cps]
    case textXml =>
      have := hbm (by decide) (by decide); subst this
      simp [chain, MClass.code, C20.XML_APPLICATION_TYPE, C20.HTML_TEXT_TYPE, C20.XML_TEXT_TYPE, truthy, specDefault]
    case text =>
      have := hbm (by decide) (by decide); subst this
      simp [chain, MClass.code, C20.XML_APPLICATION_TYPE, C20.HTML_TEXT_TYPE, C20.XML_TEXT_TYPE, C20.TEXT_TYPE,
        truthy, specDefault]
    case css =>
      have := hbm (by decide) (by decide); subst this
      simp [chain, MClass.code, C20.XML_APPLICATION_TYPE, C20.HTML_TEXT_TYPE, C20.XML_TEXT_TYPE, C20.TEXT_TYPE,
        C20.TEXT_UTF8, truthy, specDefault]

/-- the media-type default handed to the chain is the documented default of the class -/
theorem byMediaType_spec (resp : Option Resp) (txt : Cps)
    (hc : docClass resp txt ≠ .appXml) (ho : docClass resp txt ≠ .other) :
    encodingByMediaType (httpOf resp).1 = specDefault (docClass resp txt) := by
  cases resp with
  | none => simp only [docClass] at hc ho; split at hc <;> simp_all
  | some r =>
    simp only [httpOf, getHTTPInfo, encodingByMediaType, docClass]
    rw [classify_spec r.mediaType, defaults_spec]

/-! ## the XML declaration pattern -/

theorem ms_cls (n : Bool) (rs : List (Nat × Nat)) (s : Cps) :
    (Re.cls n rs).ms s = match s with | [] => [] | c :: _ => if Re.inCls n rs c then [1] else [] := by
  cases s <;> simp [Re.ms]

theorem ms_clsChain (r : Re) : ∀ (cs : List Cls) (s : Cps),
    (clsChain cs r).ms s = if matchCls cs s then (r.ms (s.drop cs.length)).map (cs.length + ·) else [] := by
  intro cs
  induction cs with
  | nil => intro s; simp [clsChain, matchCls]
  | cons c cs ih =>
    intro s
    cases s with
    | nil => simp [clsChain, matchCls, ms_seq, ms_cls]
    | cons x t =>
      simp only [clsChain, ms_seq, ms_cls, matchCls]
      by_cases hx : Re.inCls c.1 c.2 x = true
      · simp only [hx, if_true, List.flatMap_cons, List.flatMap_nil, List.append_nil, List.drop_succ_cons,
          List.drop_zero, ih, Bool.true_and, List.length_cons]
        split
        · simp [List.map_map, Function.comp_def]; intro a _; omega
        · simp
      · simp [hx]

theorem ms_clsSeq : ∀ (cs : List Cls) (s : Cps), (clsSeq cs).ms s = if matchCls cs s then [cs.length] else [] := by
  intro cs
  induction cs with
  | nil => intro s; simp [clsSeq, matchCls, Re.ms]
  | cons c cs ih =>
    intro s
    cases cs with
    | nil =>
      simp only [clsSeq, ms_cls]
      cases s <;> simp [matchCls]
    | cons d cs =>
      cases s with
      | nil => simp [clsSeq, matchCls, ms_seq, ms_cls]
      | cons x t =>
        simp only [clsSeq, ms_seq, ms_cls]
        by_cases hx : Re.inCls c.1 c.2 x = true
        · simp only [hx, if_true, List.flatMap_cons, List.flatMap_nil, List.append_nil, List.drop_succ_cons,
            List.drop_zero, ih]
          simp only [matchCls, hx, Bool.true_and]
          split <;> simp; omega
        · simp [hx, matchCls]

/-- length of the longest prefix whose characters are all in the class -/
def run (n : Bool) (rs : List (Nat × Nat)) : Cps → Nat
  | [] => 0
  | c :: t => if Re.inCls n rs c then 1 + run n rs t else 0

theorem run_le (n : Bool) (rs : List (Nat × Nat)) : ∀ s : Cps, run n rs s ≤ s.length := by
  intro s; induction s with
  | nil => simp [run]
  | cons c t ih => simp only [run]; split <;> simp <;> omega

theorem range_shift (m : Nat) : 0 :: (List.range (m + 1)).map (fun x => 1 + x) = List.range (m + 2) := by
  rw [List.range_succ_eq_map (n := m + 1)]
  congr 1
  apply List.map_congr_left
  intro a _; simp; omega

theorem range_shift_rev (m : Nat) :
    ((List.range (m + 1)).reverse.map (fun x => 1 + x)) ++ [0] = (List.range (m + 2)).reverse := by
  rw [← range_shift m, List.reverse_cons, List.map_reverse]

theorem starMs_cls_lazy (n : Bool) (rs : List (Nat × Nat)) : ∀ (fuel : Nat) (s : Cps), run n rs s < fuel →
    Re.starMs (Re.cls n rs).ms false fuel s = List.range (run n rs s + 1) := by
  intro fuel
  induction fuel with
  | zero => intro s h; omega
  | succ f ih =>
    intro s h
    cases s with
    | nil => simp [Re.starMs, ms_cls, run]
    | cons c t =>
      simp only [Re.starMs, ms_cls, run]
      by_cases hc : Re.inCls n rs c = true
      · simp only [run, hc, if_true] at h
        simp only [hc, if_true]
        have := ih t (by omega)
        simp only [List.filter_cons, show (1:Nat) > 0 from by omega, decide_true, if_true, List.filter_nil,
          List.flatMap_cons, List.flatMap_nil, List.append_nil, List.drop_succ_cons, List.drop_zero, this,
          Bool.false_eq_true, if_false]
        rw [show 1 + run n rs t + 1 = run n rs t + 2 from by omega, ← range_shift]
      · simp [hc]

theorem starMs_cls_greedy (n : Bool) (rs : List (Nat × Nat)) : ∀ (fuel : Nat) (s : Cps), run n rs s < fuel →
    Re.starMs (Re.cls n rs).ms true fuel s = (List.range (run n rs s + 1)).reverse := by
  intro fuel
  induction fuel with
  | zero => intro s h; omega
  | succ f ih =>
    intro s h
    cases s with
    | nil => simp [Re.starMs, ms_cls, run]
    | cons c t =>
      simp only [Re.starMs, ms_cls, run]
      by_cases hc : Re.inCls n rs c = true
      · simp only [run, hc, if_true] at h
        simp only [hc, if_true]
        have := ih t (by omega)
        simp only [List.filter_cons, show (1:Nat) > 0 from by omega, decide_true, if_true, List.filter_nil,
          List.flatMap_cons, List.flatMap_nil, List.append_nil, List.drop_succ_cons, List.drop_zero, this]
        rw [show 1 + run n rs t + 1 = run n rs t + 2 from by omega, ← range_shift_rev]
      · simp [hc]

theorem ms_star_cls_lazy (n : Bool) (rs : List (Nat × Nat)) (s : Cps) :
    (Re.star (Re.cls n rs) false).ms s = List.range (run n rs s + 1) := by
  rw [Re.ms]; exact starMs_cls_lazy n rs _ s (by have := run_le n rs s; omega)

theorem ms_star_cls_greedy (n : Bool) (rs : List (Nat × Nat)) (s : Cps) :
    (Re.star (Re.cls n rs) true).ms s = (List.range (run n rs s + 1)).reverse := by
  rw [Re.ms]; exact starMs_cls_greedy n rs _ s (by have := run_le n rs s; omega)


/-- a class of exactly one character -/
def exact (c : Nat) : Cls := (false, [(c, c)])
abbrev quoteC : Cls := (false, [(34, 34), (39, 39)])
/-- `"` or `'` -/
def isQuote (c : Nat) : Prop := c = 34 ∨ c = 39
instance (c : Nat) : Decidable (isQuote c) := by unfold isQuote; infer_instance

theorem inCls_exact (c x : Nat) : Re.inCls (exact c).1 (exact c).2 x = (c == x) := by
  simp only [exact, Re.inCls, List.any_cons, List.any_nil, Bool.or_false, bne_iff_ne, ne_eq]
  rw [Bool.eq_iff_iff]; simp; omega

theorem matchCls_exact : ∀ (lit s : Cps), matchCls (lit.map exact) s = lit.isPrefixOf s := by
  intro lit
  induction lit with
  | nil => intro s; simp [matchCls]
  | cons c lit ih =>
    intro s
    cases s with
    | nil => simp [matchCls, List.isPrefixOf]
    | cons x t => simp only [List.map_cons, matchCls, List.isPrefixOf, inCls_exact, ih]

theorem matchCls_append : ∀ (as bs : List Cls) (s : Cps),
    matchCls (as ++ bs) s = (matchCls as s && matchCls bs (s.drop as.length)) := by
  intro as
  induction as with
  | nil => intro bs s; simp [matchCls]
  | cons a as ih =>
    intro bs s
    cases s with
    | nil => cases bs <;> simp [matchCls]
    | cons x t => simp [matchCls, ih, Bool.and_assoc]

theorem inCls_notLF (x : Nat) : Re.inCls true [(10, 10)] x = true ↔ x ≠ 10 := by
  simp [Re.inCls]; omega

theorem inCls_quote (x : Nat) : Re.inCls false [(34, 34), (39, 39)] x = true ↔ isQuote x := by
  simp [Re.inCls, isQuote]; omega

theorem inCls_notQuote (x : Nat) : Re.inCls true [(34, 34), (39, 39)] x = true ↔ ¬ isQuote x := by
  simp [Re.inCls, isQuote]; omega

theorem isPrefixOf_eq : ∀ (a s : Cps), a.isPrefixOf s = true → s = a ++ s.drop a.length := by
  intro a
  induction a with
  | nil => intro s _; simp
  | cons c a ih =>
    intro s h
    cases s with
    | nil => simp [List.isPrefixOf] at h
    | cons x t =>
      simp only [List.isPrefixOf, Bool.and_eq_true, beq_iff_eq] at h
      obtain ⟨rfl, h⟩ := h
      simp only [List.cons_append, List.length_cons, List.drop_succ_cons]
      rw [← ih t h]

theorem isPrefixOf_append (a t : Cps) : a.isPrefixOf (a ++ t) = true := by
  induction a with
  | nil => simp
  | cons c a ih => simp [List.isPrefixOf, ih]

theorem take_run (n : Bool) (rs : List (Nat × Nat)) : ∀ (s : Cps) (k : Nat), k ≤ run n rs s →
    ∀ c ∈ s.take k, Re.inCls n rs c = true := by
  intro s
  induction s with
  | nil => intro k _ c hc; simp at hc
  | cons x t ih =>
    intro k hk c hc
    cases k with
    | zero => simp at hc
    | succ k =>
      simp only [run] at hk
      by_cases hx : Re.inCls n rs x = true
      · simp only [hx, if_true] at hk
        simp only [List.take_succ_cons, List.mem_cons] at hc
        rcases hc with rfl | hc
        · exact hx
        · exact ih k (by omega) c hc
      · simp [hx] at hk

/-- a run of characters of the class, followed by anything, runs at least that far -/
theorem run_append_ge (n : Bool) (rs : List (Nat × Nat)) : ∀ (a t : Cps), (∀ c ∈ a, Re.inCls n rs c = true) →
    a.length ≤ run n rs (a ++ t) := by
  intro a
  induction a with
  | nil => intro t _; simp
  | cons x a ih =>
    intro t h
    simp only [List.cons_append, run, h x (by simp), if_true, List.length_cons]
    have := ih t (fun c hc => h c (by simp [hc]))
    omega

/-- a run that ends at a character outside the class is exactly that long -/
theorem run_append_stop (n : Bool) (rs : List (Nat × Nat)) : ∀ (a : Cps) (x : Nat) (t : Cps),
    (∀ c ∈ a, Re.inCls n rs c = true) → Re.inCls n rs x = false → run n rs (a ++ x :: t) = a.length := by
  intro a
  induction a with
  | nil => intro x t _ hx; simp [run, hx]
  | cons y a ih =>
    intro x t h hx
    simp only [List.cons_append, run, h y (by simp), if_true, List.length_cons]
    rw [ih x t (fun c hc => h c (by simp [hc])) hx]; omega

/-- `c+` lazy: lengths 1, 2, …, run -/
theorem ms_plus_lazy (n : Bool) (rs : List (Nat × Nat)) (s : Cps) :
    (Re.seq (Re.cls n rs) (Re.star (Re.cls n rs) false)).ms s = (List.range (run n rs s)).map (1 + ·) := by
  cases s with
  | nil => simp [ms_seq, ms_cls, run]
  | cons c t =>
    simp only [ms_seq, ms_cls, run]
    by_cases hc : Re.inCls n rs c = true
    · simp [hc, ms_star_cls_lazy, Nat.add_comm]
    · simp [hc]

/-- `c+` greedy: lengths run, run-1, …, 1 -/
theorem ms_plus_greedy (n : Bool) (rs : List (Nat × Nat)) (s : Cps) :
    (Re.seq (Re.cls n rs) (Re.star (Re.cls n rs) true)).ms s = (List.range (run n rs s)).reverse.map (1 + ·) := by
  cases s with
  | nil => simp [ms_seq, ms_cls, run]
  | cons c t =>
    simp only [ms_seq, ms_cls, run]
    by_cases hc : Re.inCls n rs c = true
    · simp [hc, ms_star_cls_greedy, Nat.add_comm]
    · simp [hc]

theorem mem_range_map_succ (a N : Nat) : a ∈ (List.range N).map (1 + ·) ↔ 1 ≤ a ∧ a ≤ N := by
  simp only [List.mem_map, List.mem_range]
  constructor
  · rintro ⟨k, hk, rfl⟩; omega
  · rintro ⟨h1, h2⟩; exact ⟨a - 1, by omega, by omega⟩

theorem drop_app (a t : Cps) (n : Nat) (h : n = a.length) : (a ++ t).drop n = t := by
  subst h; induction a with
  | nil => rfl
  | cons c a ih => simpa using ih

theorem take_app (a t : Cps) (n : Nat) (h : n = a.length) : (a ++ t).take n = a := by
  subst h; induction a with
  | nil => simp
  | cons c a ih => simpa using ih

theorem flatMap_range_nil {β : Type} (g : Nat → List β) (N : Nat) (h : ∀ k, k < N → g k = []) :
    (List.range N).flatMap g = [] := by
  rw [List.flatMap_eq_nil_iff]
  intro k hk
  exact h k (List.mem_range.1 hk)

theorem flatMap_range_skip {β : Type} (g : Nat → List β) (k0 : Nat) (h0 : ∀ k, k < k0 → g k = []) :
    ∀ N, k0 < N → ∃ tail, (List.range N).flatMap g = g k0 ++ tail := by
  intro N
  induction N with
  | zero => intro h; omega
  | succ N ih =>
    intro h
    rw [List.range_succ, List.flatMap_append]
    by_cases hk : k0 = N
    · subst hk
      rw [flatMap_range_nil g k0 h0]
      exact ⟨[], by simp⟩
    · obtain ⟨tail, ht⟩ := ih (by omega)
      exact ⟨tail ++ [N].flatMap g, by rw [ht, List.append_assoc]⟩

theorem take_append_le (a t : Cps) (n : Nat) (h : a.length ≤ n) : (a ++ t).take n = a ++ t.take (n - a.length) := by
  rw [List.take_append, List.take_of_length_le h]

/-! ## deterministic patterns: characters, `c*`, `c+` where what follows cannot start with a `c` -/

inductive Item where
  | one (c : Cls)
  | star (c : Cls) (greedy : Bool)
  | plus (c : Cls) (greedy : Bool)
deriving DecidableEq

def Item.re : Item → Re
  | .one c => .cls c.1 c.2
  | .star c g => .star (.cls c.1 c.2) g
  | .plus c g => .seq (.cls c.1 c.2) (.star (.cls c.1 c.2) g)

/-- the items in sequence, then `r` (how relib nests a top-level sequence) -/
def chainK : List Item → Re → Re
  | [], r => r
  | i :: t, r => .seq i.re (chainK t r)

/-- deterministic scan: every `c*` / `c+` takes the longest run; the offset after the items, if they all match -/
def scanK : List Item → Cps → Option Nat
  | [], _ => some 0
  | .one _ :: _, [] => none
  | .one c :: t, x :: s => if Re.inCls c.1 c.2 x then (scanK t s).map (1 + ·) else none
  | .star c _ :: t, s => (scanK t (s.drop (run c.1 c.2 s))).map (run c.1 c.2 s + ·)
  | .plus c _ :: t, s =>
    if run c.1 c.2 s = 0 then none else (scanK t (s.drop (run c.1 c.2 s))).map (run c.1 c.2 s + ·)

/-- `r` cannot match a text that starts with a character of class `c` -/
def RejectsHead (c : Cls) (r : Re) : Prop := ∀ x s, Re.inCls c.1 c.2 x = true → r.ms (x :: s) = []

/-- every repetition is followed by something that cannot start with a repeated character -/
def DetK : List Item → Re → Prop
  | [], _ => True
  | .one _ :: t, r => DetK t r
  | .star c _ :: t, r => RejectsHead c (chainK t r) ∧ DetK t r
  | .plus c _ :: t, r => RejectsHead c (chainK t r) ∧ DetK t r

theorem drop_lt_run (n : Bool) (rs : List (Nat × Nat)) : ∀ (s : Cps) (k : Nat), k < run n rs s →
    ∃ x s', s.drop k = x :: s' ∧ Re.inCls n rs x = true := by
  intro s
  induction s with
  | nil => intro k h; simp [run] at h
  | cons y t ih =>
    intro k h
    simp only [run] at h
    by_cases hy : Re.inCls n rs y = true
    · simp only [hy, if_true] at h
      cases k with
      | zero => exact ⟨y, t, rfl, hy⟩
      | succ k => simpa using ih k (by omega)
    · simp [hy] at h

theorem star_then (c : Cls) (g : Bool) (R : Re) (hR : RejectsHead c R) (s : Cps) :
    (Re.seq (.star (.cls c.1 c.2) g) R).ms s =
      (R.ms (s.drop (run c.1 c.2 s))).map (run c.1 c.2 s + ·) := by
  rw [ms_seq]
  have hz : ∀ k, k < run c.1 c.2 s → (R.ms (s.drop k)).map (k + ·) = [] := by
    intro k hk
    obtain ⟨x, s', hd, hx⟩ := drop_lt_run c.1 c.2 s k hk
    rw [hd, hR x s' hx]; rfl
  cases g with
  | false =>
    rw [ms_star_cls_lazy, List.range_succ, List.flatMap_append, flatMap_range_nil _ _ hz]
    simp
  | true =>
    rw [ms_star_cls_greedy, List.range_succ, List.reverse_append, List.flatMap_append]
    have : (List.range (run c.1 c.2 s)).reverse.flatMap (fun l1 => (R.ms (s.drop l1)).map (l1 + ·)) = [] := by
      rw [List.flatMap_eq_nil_iff]
      intro k hk
      exact hz k (List.mem_range.1 (List.mem_reverse.1 hk))
    rw [this]; simp

theorem plus_then (c : Cls) (g : Bool) (R : Re) (hR : RejectsHead c R) (s : Cps) :
    (Re.seq (.seq (.cls c.1 c.2) (.star (.cls c.1 c.2) g)) R).ms s =
      if run c.1 c.2 s = 0 then [] else (R.ms (s.drop (run c.1 c.2 s))).map (run c.1 c.2 s + ·) := by
  rw [ms_seq]
  have hz : ∀ k, 1 + k < run c.1 c.2 s → (R.ms (s.drop (1 + k))).map ((1 + k) + ·) = [] := by
    intro k hk
    obtain ⟨x, s', hd, hx⟩ := drop_lt_run c.1 c.2 s (1 + k) hk
    rw [hd, hR x s' hx]; rfl
  by_cases h0 : run c.1 c.2 s = 0
  · cases g <;> simp [ms_plus_lazy, ms_plus_greedy, h0]
  · obtain ⟨m, hm⟩ : ∃ m, run c.1 c.2 s = m + 1 := ⟨run c.1 c.2 s - 1, by omega⟩
    rw [if_neg h0]
    cases g with
    | false =>
      rw [ms_plus_lazy, List.flatMap_map, hm, List.range_succ, List.flatMap_append,
        flatMap_range_nil _ _ (fun k hk => hz k (by omega))]
      simp [Nat.add_comm]
    | true =>
      rw [ms_plus_greedy, List.flatMap_map, hm, List.range_succ, List.reverse_append, List.flatMap_append]
      have : (List.range m).reverse.flatMap (fun k => (R.ms (s.drop (1 + k))).map ((1 + k) + ·)) = [] := by
        rw [List.flatMap_eq_nil_iff]
        intro k hk
        exact hz k (by have := List.mem_range.1 (List.mem_reverse.1 hk); omega)
      rw [this]; simp [Nat.add_comm]

theorem ms_chainK (r : Re) : ∀ (items : List Item) (s : Cps), DetK items r →
    (chainK items r).ms s = match scanK items s with
      | some n => (r.ms (s.drop n)).map (n + ·)
      | none => [] := by
  intro items
  induction items with
  | nil => intro s _; simp [chainK, scanK]
  | cons i t ih =>
    intro s hd
    cases i with
    | one c =>
      simp only [chainK, Item.re, ms_seq, ms_cls]
      cases s with
      | nil => simp [scanK]
      | cons x s' =>
        simp only [scanK]
        by_cases hx : Re.inCls c.1 c.2 x = true
        · simp only [hx, if_true, List.flatMap_cons, List.flatMap_nil, List.append_nil, List.drop_succ_cons,
            List.drop_zero, ih s' hd]
          cases scanK t s' with
          | none => simp
          | some n =>
            simp [List.map_map, Function.comp_def, Nat.add_assoc, Nat.add_comm 1 n, List.drop_succ_cons]
            intro a _; omega
        · simp [hx]
    | star c g =>
      simp only [chainK, Item.re, scanK]
      rw [star_then c g _ hd.1, ih _ hd.2]
      cases scanK t (s.drop (run c.1 c.2 s)) with
      | none => simp
      | some n => simp [List.map_map, Function.comp_def, Nat.add_assoc, List.drop_drop]
    | plus c g =>
      simp only [chainK, Item.re, scanK]
      rw [plus_then c g _ hd.1]
      by_cases h0 : run c.1 c.2 s = 0
      · simp [h0]
      · rw [if_neg h0, if_neg h0, ih _ hd.2]
        cases scanK t (s.drop (run c.1 c.2 s)) with
        | none => simp
        | some n => simp [List.map_map, Function.comp_def, Nat.add_assoc, List.drop_drop]


/-! ## the XML declaration pattern -/

/-- `\s` of a `str` pattern -/
abbrev wsC : Cls := (false, [(9, 13), (28, 31), (32, 32), (133, 133), (160, 160), (5760, 5760), (8192, 8202),
  (8232, 8233), (8239, 8239), (8287, 8287), (12288, 12288)])
abbrev notQuoteC : Cls := (true, [(34, 34), (39, 39)])
/-- `[^?>]` -/
abbrev notEndC : Cls := (true, [(63, 63), (62, 62)])

/-- the characters of a literal -/
def lits (s : String) : List Item := (cps s).map fun c => .one (exact c)

/-- `<\?xml\s+version\s*=\s*["'][^"']*["']\s+encoding\s*=\s*` (then the opening quote) -/
def preItems : List Item :=
  lits "<?xml" ++ [.plus wsC true] ++ lits "version" ++ [.star wsC true] ++ lits "=" ++
  [.star wsC true, .one quoteC, .star notQuoteC true, .one quoteC, .plus wsC true] ++
  lits "encoding" ++ [.star wsC true] ++ lits "=" ++ [.star wsC true]

/-- `["'][^?>]*\?` (then `>`) -/
def postItems : List Item := [.one quoteC, .star notEndC true, .one (exact 63)]

theorem declPre_shape : C20.declPre = chainK preItems (.cls quoteC.1 quoteC.2) := by decide
theorem declGrp_shape : C20.declGrp = .seq (.cls notQuoteC.1 notQuoteC.2) (.star (.cls notQuoteC.1 notQuoteC.2) true) := by
  decide
theorem declPost_shape : C20.declPost = chainK postItems (.cls (exact 62).1 (exact 62).2) := by decide

theorem inCls_ws (x : Nat) : Re.inCls wsC.1 wsC.2 x = isSpace x := by
  simp only [Re.inCls, isSpace, List.any_cons, List.any_nil, Bool.or_false]
  rw [Bool.eq_iff_iff]
  simp only [bne_iff_ne, ne_eq, Bool.or_eq_true, Bool.and_eq_true, decide_eq_true_eq, beq_iff_eq]
  simp only [Bool.false_eq, Bool.or_eq_false_iff, Bool.and_eq_false_iff, decide_eq_false_iff_not]
  omega

theorem inCls_notEnd (x : Nat) : Re.inCls notEndC.1 notEndC.2 x = true ↔ (x ≠ 63 ∧ x ≠ 62) := by
  simp [Re.inCls]; omega

theorem rejects_cls (c d : Cls) (h : ∀ x, Re.inCls c.1 c.2 x = true → Re.inCls d.1 d.2 x = false) :
    RejectsHead c (.cls d.1 d.2) := by
  intro x s hx; simp [ms_cls, h x hx]

theorem rejects_one (c d : Cls) (t : List Item) (r : Re)
    (h : ∀ x, Re.inCls c.1 c.2 x = true → Re.inCls d.1 d.2 x = false) :
    RejectsHead c (chainK (.one d :: t) r) := by
  intro x s hx; simp [chainK, Item.re, ms_seq, ms_cls, h x hx]

theorem ws_not_exact (c : Nat) (hc : isSpace c = false) :
    ∀ x, Re.inCls wsC.1 wsC.2 x = true → Re.inCls (exact c).1 (exact c).2 x = false := by
  intro x hx
  rw [inCls_exact]
  cases h : (c == x) with
  | false => rfl
  | true => rw [beq_iff_eq] at h; subst h; rw [inCls_ws, hc] at hx; exact absurd hx (by simp)

theorem ws_not_quote : ∀ x, Re.inCls wsC.1 wsC.2 x = true → Re.inCls quoteC.1 quoteC.2 x = false := by
  intro x hx
  cases h : Re.inCls quoteC.1 quoteC.2 x with
  | false => rfl
  | true =>
    rw [inCls_ws] at hx
    rcases (inCls_quote x).1 h with rfl | rfl <;> simp [isSpace] at hx

theorem notQuote_not_quote : ∀ x, Re.inCls notQuoteC.1 notQuoteC.2 x = true → Re.inCls quoteC.1 quoteC.2 x = false := by
  intro x hx
  cases h : Re.inCls quoteC.1 quoteC.2 x with
  | false => rfl
  | true => exact absurd ((inCls_quote x).1 h) ((inCls_notQuote x).1 hx)

theorem notEnd_not_q : ∀ x, Re.inCls notEndC.1 notEndC.2 x = true → Re.inCls (exact 63).1 (exact 63).2 x = false := by
  intro x hx
  rw [inCls_exact]
  have := (inCls_notEnd x).1 hx
  cases h : (63 == x) with
  | false => rfl
  | true => rw [beq_iff_eq] at h; omega

/-- syntactic disjointness of a repeated class and the class that follows it (sound, not complete) -/
def disj (c d : Cls) : Bool :=
  (c == wsC && d == quoteC) || (c == notQuoteC && d == quoteC) || (c == notEndC && d == exact 63) ||
  (c == wsC && match d with
    | (false, [(a, b)]) => a == b && !isSpace a
    | _ => false)

theorem disj_sound (c d : Cls) (h : disj c d = true) :
    ∀ x, Re.inCls c.1 c.2 x = true → Re.inCls d.1 d.2 x = false := by
  unfold disj at h
  simp only [Bool.or_eq_true, Bool.and_eq_true, beq_iff_eq] at h
  rcases h with ((⟨rfl, rfl⟩ | ⟨rfl, rfl⟩) | ⟨rfl, rfl⟩) | ⟨rfl, h⟩
  · exact ws_not_quote
  · exact notQuote_not_quote
  · exact notEnd_not_q
  · obtain ⟨n, rs⟩ := d
    match n, rs, h with
    | false, [(a, b)], h =>
      simp only [Bool.and_eq_true, beq_iff_eq, Bool.not_eq_true'] at h
      obtain ⟨rfl, ha⟩ := h
      exact ws_not_exact a ha

/-- every repetition is followed by a single-character item (or the final class) that is disjoint from it -/
def detCheck : List Item → Cls → Bool
  | [], _ => true
  | .one _ :: t, last => detCheck t last
  | .star c _ :: t, last => (match t with
      | [] => disj c last
      | .one d :: _ => disj c d
      | _ => false) && detCheck t last
  | .plus c _ :: t, last => (match t with
      | [] => disj c last
      | .one d :: _ => disj c d
      | _ => false) && detCheck t last

theorem rejects_next (c : Cls) (t : List Item) (last : Cls)
    (h : (match t with
      | [] => disj c last
      | .one d :: _ => disj c d
      | _ => false) = true) : RejectsHead c (chainK t (.cls last.1 last.2)) := by
  match t, h with
  | [], h => exact rejects_cls c last (disj_sound c last h)
  | .one d :: t', h => exact rejects_one c d t' _ (disj_sound c d h)

theorem detCheck_sound : ∀ (items : List Item) (last : Cls), detCheck items last = true →
    DetK items (.cls last.1 last.2) := by
  intro items
  induction items with
  | nil => intro _ _; trivial
  | cons i t ih =>
    intro last h
    cases i with
    | one c => exact ih last h
    | star c g =>
      simp only [detCheck, Bool.and_eq_true] at h
      exact ⟨rejects_next c t last h.1, ih last h.2⟩
    | plus c g =>
      simp only [detCheck, Bool.and_eq_true] at h
      exact ⟨rejects_next c t last h.1, ih last h.2⟩

theorem det_pre : DetK preItems (.cls quoteC.1 quoteC.2) := detCheck_sound preItems quoteC (by decide)
theorem det_post : DetK postItems (.cls (exact 62).1 (exact 62).2) := detCheck_sound postItems (exact 62) (by decide)


/-- where the items and the single class after them end, if all match (deterministic) -/
def scanAll (items : List Item) (last : Cls) (s : Cps) : Option Nat :=
  match scanK items s with
  | none => none
  | some n =>
    match s.drop n with
    | x :: _ => if Re.inCls last.1 last.2 x then some (n + 1) else none
    | [] => none

theorem ms_chain_last (items : List Item) (last : Cls) (s : Cps) (h : DetK items (.cls last.1 last.2)) :
    (chainK items (.cls last.1 last.2)).ms s = (scanAll items last s).toList := by
  rw [ms_chainK _ items s h]
  unfold scanAll
  cases scanK items s with
  | none => rfl
  | some n =>
    simp only [ms_cls]
    cases s.drop n with
    | nil => rfl
    | cons x t => by_cases hx : Re.inCls last.1 last.2 x = true <;> simp [hx]

/-- the declared encoding, read off deterministically: `<?xml`, white space, `version`, `=` (white space allowed
around it), a quoted value, white space, `encoding`, `=`, a quote, the longest quote-free text (not empty), a quote,
no `?` or `>` up to the closing `?>` -/
def specDecl (buf : Cps) : Option Cps :=
  match scanAll preItems quoteC buf with
  | none => none
  | some l1 =>
    if run notQuoteC.1 notQuoteC.2 (buf.drop l1) = 0 then none
    else if (scanAll postItems (exact 62) ((buf.drop l1).drop (run notQuoteC.1 notQuoteC.2 (buf.drop l1)))).isSome
      then some ((buf.drop l1).take (run notQuoteC.1 notQuoteC.2 (buf.drop l1)))
      else none

theorem post_rejects_notQuote : RejectsHead notQuoteC C20.declPost := by
  rw [declPost_shape]
  exact rejects_one notQuoteC quoteC _ _ notQuote_not_quote

/-- the pattern of the code finds exactly what the deterministic reading finds — for every text -/
theorem declMatch_spec (buf : Cps) : declMatch buf = specDecl buf := by
  unfold declMatch declSpans specDecl
  rw [declPre_shape, ms_chain_last preItems quoteC buf det_pre]
  cases scanAll preItems quoteC buf with
  | none => rfl
  | some l1 =>
    simp only [Option.toList, List.flatMap_cons, List.flatMap_nil, List.append_nil, ← List.drop_drop]
    generalize hs3 : buf.drop l1 = s3
    rw [declGrp_shape, ms_plus_greedy]
    have hz : ∀ k, 1 + k < run notQuoteC.1 notQuoteC.2 s3 →
        (C20.declPost.ms (s3.drop (1 + k))).map (fun _ => (l1, 1 + k)) = [] := by
      intro k hk
      obtain ⟨x, s', hd, hx⟩ := drop_lt_run notQuoteC.1 notQuoteC.2 s3 (1 + k) hk
      rw [hd, post_rejects_notQuote x s' hx]; rfl
    by_cases h0 : run notQuoteC.1 notQuoteC.2 s3 = 0
    · simp [h0]
    · obtain ⟨m, hm⟩ : ∃ m, run notQuoteC.1 notQuoteC.2 s3 = m + 1 := ⟨_, (Nat.succ_pred_eq_of_ne_zero h0).symm⟩
      rw [if_neg h0, List.flatMap_map, hm, List.range_succ, List.reverse_append, List.flatMap_append]
      have hnil : (List.range m).reverse.flatMap
          (fun a => (C20.declPost.ms (s3.drop (1 + a))).map fun _ => (l1, 1 + a)) = [] := by
        rw [List.flatMap_eq_nil_iff]
        intro k hk
        exact hz k (by have := List.mem_range.1 (List.mem_reverse.1 hk); omega)
      rw [hnil, List.append_nil, List.reverse_singleton, List.flatMap_singleton, Nat.add_comm 1 m,
        declPost_shape, ms_chain_last postItems (exact 62) _ det_post]
      cases scanAll postItems (exact 62) (s3.drop (m + 1)) with
      | none => rfl
      | some n => simp [Option.toList, hs3]


/-! ### texts that a deterministic pattern consumes: segments -/

/-- an item together with the text it is to consume -/
structure Seg where
  item : Item
  text : Cps

def render : List Seg → Cps
  | [] => []
  | sg :: t => sg.text ++ render t

/-- the segment's text fits its item, and a repetition cannot go on into what follows (`next` = the next character) -/
def segOK (sg : Seg) (next : Option Nat) : Prop :=
  match sg.item with
  | .one c => ∃ x, sg.text = [x] ∧ Re.inCls c.1 c.2 x = true
  | .star c _ => (∀ x ∈ sg.text, Re.inCls c.1 c.2 x = true) ∧ ∀ y, next = some y → Re.inCls c.1 c.2 y = false
  | .plus c _ => sg.text ≠ [] ∧ (∀ x ∈ sg.text, Re.inCls c.1 c.2 x = true) ∧
      ∀ y, next = some y → Re.inCls c.1 c.2 y = false

def SegsOK : List Seg → Cps → Prop
  | [], _ => True
  | sg :: t, rest => segOK sg (render t ++ rest).head? ∧ SegsOK t rest

theorem run_all_then (n : Bool) (rs : List (Nat × Nat)) (a t : Cps) (ha : ∀ x ∈ a, Re.inCls n rs x = true)
    (ht : ∀ y, t.head? = some y → Re.inCls n rs y = false) : run n rs (a ++ t) = a.length := by
  cases t with
  | nil =>
    simp only [List.append_nil]
    induction a with
    | nil => rfl
    | cons x a ih =>
      simp only [run, ha x (by simp), if_true, List.length_cons]
      rw [ih (fun y hy => ha y (by simp [hy]))]; omega
  | cons y t => exact run_append_stop n rs a y t ha (ht y rfl)

/-- a well-segmented text is consumed exactly, whatever follows -/
theorem scanK_segs : ∀ (segs : List Seg) (rest : Cps), SegsOK segs rest →
    scanK (segs.map (·.item)) (render segs ++ rest) = some (render segs).length := by
  intro segs
  induction segs with
  | nil => intro rest _; simp [scanK, render]
  | cons sg t ih =>
    intro rest h
    obtain ⟨it, tx⟩ := sg
    obtain ⟨h1, h2⟩ := h
    cases it with
    | one c =>
      obtain ⟨x, hx, hc⟩ := h1
      simp only at hx; subst hx
      simp only [List.map_cons, render, List.cons_append, List.nil_append, scanK, hc, if_true, ih rest h2,
        Option.map_some, List.length_cons]
      congr 1; omega
    | star c g =>
      obtain ⟨ha, hn⟩ := h1
      simp only at ha hn
      have hr : run c.1 c.2 (tx ++ (render t ++ rest)) = tx.length := run_all_then c.1 c.2 tx _ ha hn
      simp only [List.map_cons, render, List.append_assoc, scanK, hr, drop_app tx _ _ rfl, ih rest h2,
        Option.map_some, List.length_append]
    | plus c g =>
      obtain ⟨hne, ha, hn⟩ := h1
      simp only at hne ha hn
      have hr : run c.1 c.2 (tx ++ (render t ++ rest)) = tx.length := run_all_then c.1 c.2 tx _ ha hn
      have hl : tx.length ≠ 0 := by cases tx with | nil => exact absurd rfl hne | cons _ _ => simp
      simp only [List.map_cons, render, List.append_assoc, scanK, hr, hl, if_false, drop_app tx _ _ rfl,
        ih rest h2, Option.map_some, List.length_append]

/-- the segments of a literal -/
def litSegs (s : String) : List Seg := (cps s).map fun c => ⟨.one (exact c), [c]⟩

theorem litSegs_items (s : String) : (litSegs s).map (·.item) = lits s := by
  simp [litSegs, lits, List.map_map, Function.comp_def]

theorem render_append (a b : List Seg) : render (a ++ b) = render a ++ render b := by
  induction a with
  | nil => rfl
  | cons sg a ih => simp [render, ih, List.append_assoc]

theorem render_litSegs (s : String) : render (litSegs s) = cps s := by
  unfold litSegs
  induction cps s with
  | nil => rfl
  | cons c l ih => simp [render, ih]

theorem segsOK_lit (l : Cps) (t : List Seg) (rest : Cps) (h : SegsOK t rest) :
    SegsOK (l.map (fun c => (⟨.one (exact c), [c]⟩ : Seg)) ++ t) rest := by
  induction l with
  | nil => exact h
  | cons c l ih => exact ⟨⟨c, rfl, by rw [inCls_exact]; simp⟩, ih⟩

theorem segsOK_litSegs (s : String) (t : List Seg) (rest : Cps) (h : SegsOK t rest) :
    SegsOK (litSegs s ++ t) rest := segsOK_lit (cps s) t rest h


/-- only white space (what `\s` / `str.isspace` accept) -/
def AllWs (w : Cps) : Prop := ∀ x ∈ w, isSpace x = true
def NoQuote (e : Cps) : Prop := ∀ c ∈ e, ¬ isQuote c
/-- neither `?` nor `>` -/
def NoEnd (t : Cps) : Prop := ∀ c ∈ t, c ≠ 63 ∧ c ≠ 62
instance (w : Cps) : Decidable (AllWs w) := by unfold AllWs; infer_instance
instance (w : Cps) : Decidable (NoQuote w) := by unfold NoQuote; infer_instance
instance (w : Cps) : Decidable (NoEnd w) := by unfold NoEnd; infer_instance

def preSegs (w1 w2 w3 : Cps) (qa : Nat) (ver : Cps) (qb : Nat) (w4 w5 w6 : Cps) : List Seg :=
  litSegs "<?xml" ++ (⟨.plus wsC true, w1⟩ :: (litSegs "version" ++ (⟨.star wsC true, w2⟩ :: (litSegs "=" ++
  (⟨.star wsC true, w3⟩ :: ⟨.one quoteC, [qa]⟩ :: ⟨.star notQuoteC true, ver⟩ :: ⟨.one quoteC, [qb]⟩ ::
    ⟨.plus wsC true, w4⟩ ::
  (litSegs "encoding" ++ (⟨.star wsC true, w5⟩ :: (litSegs "=" ++ [⟨.star wsC true, w6⟩]))))))))

theorem preSegs_items (w1 w2 w3 : Cps) (qa : Nat) (ver : Cps) (qb : Nat) (w4 w5 w6 : Cps) :
    (preSegs w1 w2 w3 qa ver qb w4 w5 w6).map (·.item) = preItems := by
  simp [preSegs, preItems, litSegs_items, List.map_append]

theorem preSegs_render (w1 w2 w3 : Cps) (qa : Nat) (ver : Cps) (qb : Nat) (w4 w5 w6 : Cps) :
    render (preSegs w1 w2 w3 qa ver qb w4 w5 w6) =
      cps "<?xml" ++ w1 ++ cps "version" ++ w2 ++ cps "=" ++ w3 ++ [qa] ++ ver ++ [qb] ++ w4 ++ cps "encoding" ++
        w5 ++ cps "=" ++ w6 := by
  simp [preSegs, render_append, render_litSegs, render, List.append_assoc]

theorem ws_of_allWs {w : Cps} (h : AllWs w) : ∀ x ∈ w, Re.inCls wsC.1 wsC.2 x = true := by
  intro x hx; rw [inCls_ws]; exact h x hx

theorem head_lit (s : String) (t : List Seg) (r : Cps) (c : Nat) (l : Cps) (h : cps s = c :: l) :
    (render (litSegs s ++ t) ++ r).head? = some c := by
  simp [render_append, render_litSegs, h]

theorem preSegs_ok (w1 w2 w3 : Cps) (qa : Nat) (ver : Cps) (qb : Nat) (w4 w5 w6 : Cps) (q1 : Nat) (rest : Cps)
    (h1 : AllWs w1) (n1 : w1 ≠ []) (h2 : AllWs w2) (h3 : AllWs w3) (ha : isQuote qa) (hv : NoQuote ver)
    (hb : isQuote qb) (h4 : AllWs w4) (n4 : w4 ≠ []) (h5 : AllWs w5) (h6 : AllWs w6) (hq1 : isQuote q1) :
    SegsOK (preSegs w1 w2 w3 qa ver qb w4 w5 w6) (q1 :: rest) := by
  have wsq : ∀ q, isQuote q → Re.inCls wsC.1 wsC.2 q = false := fun q hq => by
    cases h : Re.inCls wsC.1 wsC.2 q with
    | false => rfl
    | true => have := ws_not_quote q h; rw [(inCls_quote q).2 hq] at this; exact absurd this (by simp)
  have wsc : ∀ c, isSpace c = false → Re.inCls wsC.1 wsC.2 c = false := fun c hc => by rw [inCls_ws, hc]
  unfold preSegs
  apply segsOK_litSegs
  refine ⟨⟨n1, ws_of_allWs h1, ?_⟩, ?_⟩
  · intro y hy
    rw [head_lit "version" _ _ 118 (cps "ersion") (by decide)] at hy
    injection hy with hy; subst hy; exact wsc 118 (by decide)
  apply segsOK_litSegs
  refine ⟨⟨ws_of_allWs h2, ?_⟩, ?_⟩
  · intro y hy
    rw [head_lit "=" _ _ 61 [] (by decide)] at hy
    injection hy with hy; subst hy; exact wsc 61 (by decide)
  apply segsOK_litSegs
  refine ⟨⟨ws_of_allWs h3, ?_⟩, ⟨qa, rfl, (inCls_quote qa).2 ha⟩, ⟨fun x hx => (inCls_notQuote x).2 (hv x hx), ?_⟩,
    ⟨qb, rfl, (inCls_quote qb).2 hb⟩, ⟨n4, ws_of_allWs h4, ?_⟩, ?_⟩
  · intro y hy
    simp only [render, List.cons_append, List.nil_append, List.head?_cons] at hy
    injection hy with hy; subst hy; exact wsq _ ha
  · intro y hy
    simp only [render, List.cons_append, List.nil_append, List.append_assoc, List.head?_cons] at hy
    injection hy with hy; subst hy
    cases h : Re.inCls notQuoteC.1 notQuoteC.2 qb with
    | false => rfl
    | true => exact absurd hb ((inCls_notQuote qb).1 h)
  · intro y hy
    rw [head_lit "encoding" _ _ 101 (cps "ncoding") (by decide)] at hy
    injection hy with hy; subst hy; exact wsc 101 (by decide)
  apply segsOK_litSegs
  refine ⟨⟨ws_of_allWs h5, ?_⟩, ?_⟩
  · intro y hy
    rw [head_lit "=" _ _ 61 [] (by decide)] at hy
    injection hy with hy; subst hy; exact wsc 61 (by decide)
  apply segsOK_litSegs
  refine ⟨⟨ws_of_allWs h6, ?_⟩, trivial⟩
  intro y hy
  simp only [render, List.nil_append, List.head?_cons] at hy
  injection hy with hy; subst hy; exact wsq _ hq1


theorem scanAll_segs (segs : List Seg) (last : Cls) (x : Nat) (rest : Cps) (h : SegsOK segs (x :: rest))
    (hx : Re.inCls last.1 last.2 x = true) :
    scanAll (segs.map (·.item)) last (render segs ++ x :: rest) = some ((render segs).length + 1) := by
  unfold scanAll
  rw [scanK_segs segs _ h]
  simp only [drop_app (render segs) _ _ rfl, hx, if_true]

def postSegs (q2 : Nat) (tail : Cps) : List Seg :=
  [⟨.one quoteC, [q2]⟩, ⟨.star notEndC true, tail⟩, ⟨.one (exact 63), [63]⟩]

theorem scanAll_post (q2 : Nat) (tail rest : Cps) (hq2 : isQuote q2) (ht : NoEnd tail) :
    scanAll postItems (exact 62) (q2 :: (tail ++ 63 :: 62 :: rest)) = some (tail.length + 3) := by
  have hseg : SegsOK (postSegs q2 tail) (62 :: rest) := by
    refine ⟨⟨q2, rfl, (inCls_quote q2).2 hq2⟩, ⟨fun x hx => (inCls_notEnd x).2 (ht x hx), ?_⟩,
      ⟨63, rfl, by rw [inCls_exact]; rfl⟩, trivial⟩
    intro y hy
    simp only [render, List.cons_append, List.nil_append, List.head?_cons] at hy
    injection hy with hy; subst hy; decide
  have h := scanAll_segs (postSegs q2 tail) (exact 62) 62 rest hseg (by rw [inCls_exact]; rfl)
  have hi : (postSegs q2 tail).map (·.item) = postItems := rfl
  have hr : render (postSegs q2 tail) = q2 :: (tail ++ [63]) := by simp [postSegs, render]
  rw [hi, hr] at h
  simp only [List.cons_append, List.append_assoc, List.nil_append, List.length_cons, List.length_append,
    List.length_nil] at h
  rw [h]

/-- completeness of the declaration pattern: every text of the documented shape yields its encoding -/
theorem declMatch_complete (w1 w2 w3 : Cps) (qa : Nat) (ver : Cps) (qb : Nat) (w4 w5 w6 : Cps) (q1 : Nat) (e : Cps)
    (q2 : Nat) (tail rest : Cps)
    (h1 : AllWs w1) (n1 : w1 ≠ []) (h2 : AllWs w2) (h3 : AllWs w3) (ha : isQuote qa) (hv : NoQuote ver)
    (hb : isQuote qb) (h4 : AllWs w4) (n4 : w4 ≠ []) (h5 : AllWs w5) (h6 : AllWs w6) (hq1 : isQuote q1)
    (he : e ≠ []) (hne : NoQuote e) (hq2 : isQuote q2) (ht : NoEnd tail) :
    declMatch (cps "<?xml" ++ w1 ++ cps "version" ++ w2 ++ cps "=" ++ w3 ++ [qa] ++ ver ++ [qb] ++ w4 ++
      cps "encoding" ++ w5 ++ cps "=" ++ w6 ++ [q1] ++ e ++ [q2] ++ tail ++ cps "?>" ++ rest) = some e := by
  rw [declMatch_spec]
  generalize hX : tail ++ cps "?>" ++ rest = X
  have hbuf : cps "<?xml" ++ w1 ++ cps "version" ++ w2 ++ cps "=" ++ w3 ++ [qa] ++ ver ++ [qb] ++ w4 ++
      cps "encoding" ++ w5 ++ cps "=" ++ w6 ++ [q1] ++ e ++ [q2] ++ tail ++ cps "?>" ++ rest =
      render (preSegs w1 w2 w3 qa ver qb w4 w5 w6) ++ q1 :: (e ++ q2 :: X) := by
    rw [preSegs_render, ← hX]; simp [List.append_assoc]
  rw [hbuf]
  unfold specDecl
  have hpre := scanAll_segs (preSegs w1 w2 w3 qa ver qb w4 w5 w6) quoteC q1 (e ++ q2 :: X)
    (preSegs_ok w1 w2 w3 qa ver qb w4 w5 w6 q1 _ h1 n1 h2 h3 ha hv hb h4 n4 h5 h6 hq1) ((inCls_quote q1).2 hq1)
  rw [preSegs_items] at hpre
  rw [hpre]
  have hd : (render (preSegs w1 w2 w3 qa ver qb w4 w5 w6) ++ q1 :: (e ++ q2 :: X)).drop
      ((render (preSegs w1 w2 w3 qa ver qb w4 w5 w6)).length + 1) = e ++ q2 :: X := by
    rw [← List.drop_drop, drop_app _ _ _ rfl]; rfl
  simp only [hd]
  have hq2n : Re.inCls notQuoteC.1 notQuoteC.2 q2 = false := by
    cases h : Re.inCls notQuoteC.1 notQuoteC.2 q2 with
    | false => rfl
    | true => exact absurd hq2 ((inCls_notQuote q2).1 h)
  have hr : run notQuoteC.1 notQuoteC.2 (e ++ q2 :: X) = e.length :=
    run_append_stop _ _ e q2 X (fun c hc => (inCls_notQuote c).2 (hne c hc)) hq2n
  have hl : e.length ≠ 0 := by cases e with | nil => exact absurd rfl he | cons _ _ => simp
  rw [hr, if_neg hl, drop_app e _ _ rfl, take_app e _ _ rfl]
  have hc : cps "?>" = [63, 62] := by decide
  have hXe : X = tail ++ 63 :: 62 :: rest := by rw [← hX, hc]; simp [List.append_assoc]
  rw [hXe, scanAll_post q2 tail rest hq2 ht]; rfl


/-! ### soundness: what a successful scan has consumed -/

/-- the text of a segment fits its item -/
def Seg.fits (sg : Seg) : Prop :=
  match sg.item with
  | .one c => ∃ x, sg.text = [x] ∧ Re.inCls c.1 c.2 x = true
  | .star c _ => ∀ x ∈ sg.text, Re.inCls c.1 c.2 x = true
  | .plus c _ => sg.text ≠ [] ∧ ∀ x ∈ sg.text, Re.inCls c.1 c.2 x = true

theorem scanK_sound : ∀ (items : List Item) (s : Cps) (n : Nat), scanK items s = some n →
    ∃ segs : List Seg, segs.map (·.item) = items ∧ s = render segs ++ s.drop n ∧ (render segs).length = n ∧
      ∀ sg ∈ segs, sg.fits := by
  intro items
  induction items with
  | nil =>
    intro s n h
    simp only [scanK, Option.some.injEq] at h; subst h
    exact ⟨[], rfl, by simp [render], rfl, by simp⟩
  | cons i t ih =>
    intro s n h
    cases i with
    | one c =>
      cases s with
      | nil => simp [scanK] at h
      | cons x s' =>
        simp only [scanK] at h
        by_cases hx : Re.inCls c.1 c.2 x = true
        · simp only [hx, if_true, Option.map_eq_some_iff] at h
          obtain ⟨n', hn', rfl⟩ := h
          obtain ⟨segs, h1, h2, h3, h4⟩ := ih s' n' hn'
          refine ⟨⟨.one c, [x]⟩ :: segs, by simp [h1], ?_, by simp [render, h3]; omega, ?_⟩
          · simp only [render, List.cons_append, List.nil_append, Nat.add_comm 1 n', List.drop_succ_cons]
            rw [← h2]
          · intro sg hsg
            rcases List.mem_cons.1 hsg with rfl | hsg
            · exact ⟨x, rfl, hx⟩
            · exact h4 sg hsg
        · simp [hx] at h
    | star c g =>
      simp only [scanK, Option.map_eq_some_iff] at h
      obtain ⟨n', hn', rfl⟩ := h
      obtain ⟨segs, h1, h2, h3, h4⟩ := ih _ n' hn'
      refine ⟨⟨.star c g, s.take (run c.1 c.2 s)⟩ :: segs, by simp [h1], ?_, ?_, ?_⟩
      · simp only [render, List.append_assoc]
        rw [← List.drop_drop, ← h2, List.take_append_drop]
      · have := run_le c.1 c.2 s
        simp only [render, List.length_append, List.length_take, h3]; omega
      · intro sg hsg
        rcases List.mem_cons.1 hsg with rfl | hsg
        · exact take_run c.1 c.2 s _ (Nat.le_refl _)
        · exact h4 sg hsg
    | plus c g =>
      simp only [scanK] at h
      by_cases h0 : run c.1 c.2 s = 0
      · simp [h0] at h
      · simp only [h0, if_false, Option.map_eq_some_iff] at h
        obtain ⟨n', hn', rfl⟩ := h
        obtain ⟨segs, h1, h2, h3, h4⟩ := ih _ n' hn'
        have hle := run_le c.1 c.2 s
        refine ⟨⟨.plus c g, s.take (run c.1 c.2 s)⟩ :: segs, by simp [h1], ?_, ?_, ?_⟩
        · simp only [render, List.append_assoc]
          rw [← List.drop_drop, ← h2, List.take_append_drop]
        · simp only [render, List.length_append, List.length_take, h3]; omega
        · intro sg hsg
          rcases List.mem_cons.1 hsg with rfl | hsg
          · refine ⟨?_, take_run c.1 c.2 s _ (Nat.le_refl _)⟩
            intro he
            simp only at he
            have : (s.take (run c.1 c.2 s)).length = 0 := by rw [he]; rfl
            rw [List.length_take] at this; omega
          · exact h4 sg hsg


theorem render_of_lits : ∀ (l : Cps) (segs : List Seg), segs.map (·.item) = l.map (fun c => Item.one (exact c)) →
    (∀ sg ∈ segs, sg.fits) → render segs = l := by
  intro l
  induction l with
  | nil => intro segs h _; simp at h; subst h; rfl
  | cons c l ih =>
    intro segs h hf
    obtain ⟨sg, r, rfl, hi, hr⟩ := List.map_eq_cons_iff.1 h
    have hfit := hf sg (by simp)
    unfold Seg.fits at hfit
    rw [hi] at hfit
    obtain ⟨x, hx, hc⟩ := hfit
    rw [inCls_exact, beq_iff_eq] at hc
    simp only [render, hx, ih r hr (fun s hs => hf s (by simp [hs])), hc, List.cons_append, List.nil_append]

theorem allWs_of_fits {w : Cps} (h : ∀ x ∈ w, Re.inCls wsC.1 wsC.2 x = true) : AllWs w := by
  intro x hx; rw [← inCls_ws]; exact h x hx

theorem preItems_nested : preItems =
    lits "<?xml" ++ (.plus wsC true :: (lits "version" ++ (.star wsC true :: (lits "=" ++
    (.star wsC true :: .one quoteC :: .star notQuoteC true :: .one quoteC :: .plus wsC true ::
    (lits "encoding" ++ (.star wsC true :: (lits "=" ++ [.star wsC true])))))))) := by
  simp [preItems, List.append_assoc]

/-- a text consumed by the part of the pattern before the group has the documented shape -/
theorem preItems_shape (segs : List Seg) (h : segs.map (·.item) = preItems) (hf : ∀ sg ∈ segs, sg.fits) :
    ∃ w1 w2 w3 qa ver qb w4 w5 w6,
      render segs = cps "<?xml" ++ w1 ++ cps "version" ++ w2 ++ cps "=" ++ w3 ++ [qa] ++ ver ++ [qb] ++ w4 ++
        cps "encoding" ++ w5 ++ cps "=" ++ w6 ∧
      AllWs w1 ∧ w1 ≠ [] ∧ AllWs w2 ∧ AllWs w3 ∧ isQuote qa ∧ NoQuote ver ∧ isQuote qb ∧ AllWs w4 ∧ w4 ≠ [] ∧
      AllWs w5 ∧ AllWs w6 := by
  rw [preItems_nested] at h
  obtain ⟨s1, r, rfl, hs1, h⟩ := List.map_eq_append_iff.1 h
  obtain ⟨g1, r, rfl, hg1, h⟩ := List.map_eq_cons_iff.1 h
  obtain ⟨s2, r, rfl, hs2, h⟩ := List.map_eq_append_iff.1 h
  obtain ⟨g2, r, rfl, hg2, h⟩ := List.map_eq_cons_iff.1 h
  obtain ⟨s3, r, rfl, hs3, h⟩ := List.map_eq_append_iff.1 h
  obtain ⟨g3, r, rfl, hg3, h⟩ := List.map_eq_cons_iff.1 h
  obtain ⟨ga, r, rfl, hga, h⟩ := List.map_eq_cons_iff.1 h
  obtain ⟨gv, r, rfl, hgv, h⟩ := List.map_eq_cons_iff.1 h
  obtain ⟨gb, r, rfl, hgb, h⟩ := List.map_eq_cons_iff.1 h
  obtain ⟨g4, r, rfl, hg4, h⟩ := List.map_eq_cons_iff.1 h
  obtain ⟨s4, r, rfl, hs4, h⟩ := List.map_eq_append_iff.1 h
  obtain ⟨g5, r, rfl, hg5, h⟩ := List.map_eq_cons_iff.1 h
  obtain ⟨s5, r, rfl, hs5, h⟩ := List.map_eq_append_iff.1 h
  obtain ⟨g6, r, rfl, hg6, h⟩ := List.map_eq_cons_iff.1 h
  simp only [List.map_eq_nil_iff] at h; subst h
  have f1 := hf g1 (by simp); unfold Seg.fits at f1; rw [hg1] at f1
  have f2 := hf g2 (by simp); unfold Seg.fits at f2; rw [hg2] at f2
  have f3 := hf g3 (by simp); unfold Seg.fits at f3; rw [hg3] at f3
  have fa := hf ga (by simp); unfold Seg.fits at fa; rw [hga] at fa
  have fv := hf gv (by simp); unfold Seg.fits at fv; rw [hgv] at fv
  have fb := hf gb (by simp); unfold Seg.fits at fb; rw [hgb] at fb
  have f4 := hf g4 (by simp); unfold Seg.fits at f4; rw [hg4] at f4
  have f5 := hf g5 (by simp); unfold Seg.fits at f5; rw [hg5] at f5
  have f6 := hf g6 (by simp); unfold Seg.fits at f6; rw [hg6] at f6
  obtain ⟨qa, hqa, hca⟩ := fa
  obtain ⟨qb, hqb, hcb⟩ := fb
  have r1 := render_of_lits (cps "<?xml") s1 hs1 (fun s hs => hf s (by simp [hs]))
  have r2 := render_of_lits (cps "version") s2 hs2 (fun s hs => hf s (by simp [hs]))
  have r3 := render_of_lits (cps "=") s3 hs3 (fun s hs => hf s (by simp [hs]))
  have r4 := render_of_lits (cps "encoding") s4 hs4 (fun s hs => hf s (by simp [hs]))
  have r5 := render_of_lits (cps "=") s5 hs5 (fun s hs => hf s (by simp [hs]))
  refine ⟨g1.text, g2.text, g3.text, qa, gv.text, qb, g4.text, g5.text, g6.text, ?_,
    allWs_of_fits f1.2, f1.1, allWs_of_fits f2, allWs_of_fits f3, (inCls_quote qa).1 hca,
    fun c hc => (inCls_notQuote c).1 (fv c hc), (inCls_quote qb).1 hcb, allWs_of_fits f4.2, f4.1,
    allWs_of_fits f5, allWs_of_fits f6⟩
  simp only [render_append, render, r1, r2, r3, r4, r5, hqa, hqb, List.append_assoc, List.cons_append,
    List.nil_append, List.append_nil]


theorem postItems_shape (segs : List Seg) (h : segs.map (·.item) = postItems) (hf : ∀ sg ∈ segs, sg.fits) :
    ∃ q2 tail, render segs = q2 :: (tail ++ [63]) ∧ isQuote q2 ∧ NoEnd tail := by
  unfold postItems at h
  obtain ⟨ga, r, rfl, hga, h⟩ := List.map_eq_cons_iff.1 h
  obtain ⟨gt, r, rfl, hgt, h⟩ := List.map_eq_cons_iff.1 h
  obtain ⟨gq, r, rfl, hgq, h⟩ := List.map_eq_cons_iff.1 h
  simp only [List.map_eq_nil_iff] at h; subst h
  have fa := hf ga (by simp); unfold Seg.fits at fa; rw [hga] at fa
  have ft := hf gt (by simp); unfold Seg.fits at ft; rw [hgt] at ft
  have fq := hf gq (by simp); unfold Seg.fits at fq; rw [hgq] at fq
  obtain ⟨q2, hq2, hc2⟩ := fa
  obtain ⟨x, hx, hcx⟩ := fq
  rw [inCls_exact, beq_iff_eq] at hcx; subst hcx
  exact ⟨q2, gt.text, by simp [render, hq2, hx], (inCls_quote q2).1 hc2, fun c hc => (inCls_notEnd c).1 (ft c hc)⟩

theorem scanAll_sound (items : List Item) (last : Cls) (s : Cps) (l : Nat) (h : scanAll items last s = some l) :
    ∃ segs : List Seg, ∃ x rest, segs.map (·.item) = items ∧ (∀ sg ∈ segs, sg.fits) ∧
      s = render segs ++ x :: rest ∧ Re.inCls last.1 last.2 x = true ∧ l = (render segs).length + 1 ∧
      s.drop l = rest := by
  unfold scanAll at h
  split at h
  · simp at h
  · rename_i n hn
    obtain ⟨segs, h1, h2, h3, h4⟩ := scanK_sound items s n hn
    split at h
    · rename_i x rest hd
      split at h
      · rename_i hx
        injection h with h
        refine ⟨segs, x, rest, h1, h4, by rw [← hd]; exact h2, hx, by omega, ?_⟩
        rw [← h, ← List.drop_drop, hd]; rfl
      · simp at h
    · simp at h

/-- soundness of the declaration pattern: whatever it returns comes from a text of the documented shape -/
theorem declMatch_sound (buf e : Cps) (h : declMatch buf = some e) :
    ∃ w1 w2 w3 qa ver qb w4 w5 w6 q1 q2 tail rest,
      buf = cps "<?xml" ++ w1 ++ cps "version" ++ w2 ++ cps "=" ++ w3 ++ [qa] ++ ver ++ [qb] ++ w4 ++
        cps "encoding" ++ w5 ++ cps "=" ++ w6 ++ [q1] ++ e ++ [q2] ++ tail ++ cps "?>" ++ rest ∧
      AllWs w1 ∧ w1 ≠ [] ∧ AllWs w2 ∧ AllWs w3 ∧ isQuote qa ∧ NoQuote ver ∧ isQuote qb ∧ AllWs w4 ∧ w4 ≠ [] ∧
      AllWs w5 ∧ AllWs w6 ∧ isQuote q1 ∧ e ≠ [] ∧ NoQuote e ∧ isQuote q2 ∧ NoEnd tail := by
  rw [declMatch_spec] at h
  unfold specDecl at h
  split at h
  · simp at h
  · rename_i l1 hl1
    obtain ⟨segs, q1, s3, hi, hfit, hbuf, hq1, _, hd⟩ := scanAll_sound _ _ _ _ hl1
    rw [hd] at h
    split at h
    · simp at h
    · rename_i hr
      split at h
      · rename_i hpost
        injection h with h
        obtain ⟨m, hm⟩ := Option.isSome_iff_exists.1 hpost
        obtain ⟨segs2, y, rest, hi2, hfit2, hs4, hy, _, _⟩ := scanAll_sound _ _ _ _ hm
        obtain ⟨w1, w2, w3, qa, ver, qb, w4, w5, w6, hren, c1, c2, c3, c4, c5, c6, c7, c8, c9, c10, c11⟩ :=
          preItems_shape segs hi hfit
        obtain ⟨q2, tail, hren2, hq2, htail⟩ := postItems_shape segs2 hi2 hfit2
        rw [inCls_exact, beq_iff_eq] at hy; subst hy
        have hs3 : s3 = e ++ (q2 :: (tail ++ [63])) ++ 62 :: rest := by
          rw [← hren2, List.append_assoc, ← hs4, ← h, List.take_append_drop]
        refine ⟨w1, w2, w3, qa, ver, qb, w4, w5, w6, q1, q2, tail, rest, ?_, c1, c2, c3, c4, c5, c6, c7, c8, c9, c10, c11,
          (inCls_quote q1).1 hq1, ?_, ?_, hq2, htail⟩
        · have hc : cps "?>" = [63, 62] := by decide
          rw [hbuf, hren, hs3, hc]; simp [List.append_assoc]
        · intro he
          rw [← h] at he
          have : (s3.take (run notQuoteC.1 notQuoteC.2 s3)).length = 0 := by rw [he]; rfl
          have hle := run_le notQuoteC.1 notQuoteC.2 s3
          rw [List.length_take] at this; omega
        · rw [← h]; intro c hc
          exact (inCls_notQuote c).1 (take_run _ _ s3 _ (Nat.le_refl _) c hc)
      · simp at h


/-- a document that does not start with `<?xml` has no declaration for the pattern -/
theorem declMatch_none_of_no_prefix (buf : Cps) (h : (cps "<?xml").isPrefixOf buf = false) : declMatch buf = none := by
  cases hm : declMatch buf with
  | none => rfl
  | some e =>
    obtain ⟨w1, w2, w3, qa, ver, qb, w4, w5, w6, q1, q2, tail, rest, hb, _⟩ := declMatch_sound buf e hm
    rw [hb] at h
    simp only [List.append_assoc] at h
    rw [isPrefixOf_append] at h
    exact absurd h (by simp)

end CssVerif.Encutils
