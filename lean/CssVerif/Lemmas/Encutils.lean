import CssVerif.Model.Encutils
/-!
# Helper lemmas and specification-side definitions for C20 (`Props/C20.lean`)

* Python string helpers: `lower` is idempotent, a lower-cased string has no ASCII capital
* `Re` facts needed for the three regexes of encutils (`application/.*?\+xml`, `text\/.*?\+xml`, the XML
  declaration pattern): membership in `ms` of sequences / classes / stars of one class
* the documented media-type classes (`MClass`, `specClass`) and BOM table (`specBom`) — written by hand from the
  documentation, with literal strings; the theorems of `Props/C20.lean` tie the model (whose tables are
  regenerated from the source) to them.
-/
set_option linter.unusedSimpArgs false
set_option linter.unusedVariables false

namespace CssVerif.Encutils
open CssVerif CssVerif.Proto CssVerif.Gen

/-! ## strings -/

def isUpperA (c : Nat) : Bool := 65 ≤ c && c ≤ 90

theorem lowerC_idem (c : Nat) : lowerC (lowerC c) = lowerC c := by
  unfold lowerC
  simp only [Bool.and_eq_true, decide_eq_true_eq, bne_iff_ne, ne_eq]
  repeat' split
  all_goals omega

theorem lower_idem (s : Cps) : lower (lower s) = lower s := by
  unfold lower
  simp [List.map_map, Function.comp_def, lowerC_idem]

theorem lowerC_not_upper (c : Nat) : isUpperA (lowerC c) = false := by
  unfold lowerC isUpperA
  simp only [Bool.and_eq_true, decide_eq_true_eq, bne_iff_ne, ne_eq, Bool.and_eq_false_iff, decide_eq_false_iff_not]
  repeat' split
  all_goals omega

/-- no ASCII capital letter -/
def NoUpper (s : Cps) : Prop := ∀ c ∈ s, isUpperA c = false

theorem noUpper_lower (s : Cps) : NoUpper (lower s) := by
  intro c hc
  unfold lower at hc
  simp only [List.mem_map] at hc
  obtain ⟨d, _, rfl⟩ := hc
  exact lowerC_not_upper d

theorem NoUpper.tail {c : Nat} {t : Cps} (h : NoUpper (c :: t)) : NoUpper t :=
  fun d hd => h d (List.mem_cons_of_mem _ hd)

theorem NoUpper.drop {s : Cps} (h : NoUpper s) (k : Nat) : NoUpper (s.drop k) :=
  fun d hd => h d (List.mem_of_mem_drop hd)

/-- `contains` is "some suffix starts with the needle" -/
theorem contains_iff (n : Cps) : ∀ h : Cps, contains n h = true ↔ ∃ k, k ≤ h.length ∧ n.isPrefixOf (h.drop k) = true := by
  intro h
  induction h with
  | nil =>
    cases n with
    | nil => simp [contains]
    | cons a t => simp [contains, List.isPrefixOf]
  | cons c t ih =>
    simp only [contains, Bool.or_eq_true, ih]
    constructor
    · rintro (h | ⟨k, hk, hp⟩)
      · exact ⟨0, by simp, by simpa using h⟩
      · exact ⟨k + 1, by simp; omega, by simpa using hp⟩
    · rintro ⟨k, hk, hp⟩
      cases k with
      | zero => left; simpa using hp
      | succ k => right; exact ⟨k, by simp at hk; omega, by simpa using hp⟩

/-! ## `Re`: does the pattern match at the start? -/

/-- `re.match(pattern, s)` is not `None` -/
def hits (r : Re) (s : Cps) : Bool := (r.first s).isSome

theorem ms_seq (a b : Re) (s : Cps) :
    (Re.seq a b).ms s = (a.ms s).flatMap fun l1 => (b.ms (s.drop l1)).map (l1 + ·) := by
  rw [Re.ms]

theorem hits_iff (r : Re) (s : Cps) : hits r s = true ↔ r.ms s ≠ [] := by
  unfold hits Re.first
  cases r.ms s <;> simp

theorem hits_cls (neg : Bool) (rs : List (Nat × Nat)) (s : Cps) :
    hits (.cls neg rs) s = match s with | [] => false | c :: _ => Re.inCls neg rs c := by
  cases s with
  | nil => simp [hits, Re.first, Re.ms]
  | cons c t => by_cases h : Re.inCls neg rs c = true <;> simp [hits, Re.first, Re.ms, h]

theorem hits_seq_cls (neg : Bool) (rs : List (Nat × Nat)) (b : Re) (s : Cps) :
    hits (.seq (.cls neg rs) b) s = match s with | [] => false | c :: t => Re.inCls neg rs c && hits b t := by
  cases s with
  | nil => simp [hits, Re.first, Re.ms]
  | cons c t =>
    by_cases h : Re.inCls neg rs c = true
    · simp only [hits, Re.first, Re.ms, h, if_true, List.flatMap_cons, List.flatMap_nil, List.append_nil,
        List.drop_succ_cons, List.drop_zero, Bool.true_and]
      cases b.ms t <;> simp
    · simp [hits, Re.first, Re.ms, h]

/-- the class that matches every character (`.` under re.S) -/
abbrev anyCls : Re := .cls true []

theorem any_ms (s : Cps) : anyCls.ms s = match s with | [] => [] | _ :: _ => [1] := by
  cases s <;> simp [Re.ms, Re.inCls]

theorem mem_starMs_any (g : Bool) : ∀ (fuel : Nat) (s : Cps), s.length < fuel →
    ∀ k, k ∈ Re.starMs anyCls.ms g fuel s ↔ k ≤ s.length := by
  intro fuel
  induction fuel with
  | zero => intro s h; omega
  | succ n ih =>
    intro s hs k
    cases s with
    | nil =>
      simp only [Re.starMs, any_ms]
      cases g <;> simp
    | cons c t =>
      have hlen : t.length < n := by simp at hs; omega
      have key : ∀ k, k ∈ (((anyCls.ms (c :: t)).filter (· > 0)).flatMap fun l1 =>
          (Re.starMs anyCls.ms g n ((c :: t).drop l1)).map (l1 + ·)) ↔ ∃ k', k' ≤ t.length ∧ k = 1 + k' := by
        intro k
        simp only [any_ms, List.filter_cons, List.filter_nil, List.flatMap_cons, List.flatMap_nil,
          List.append_nil, List.mem_map, List.drop_succ_cons, List.drop_zero]
        simp only [show (1 : Nat) > 0 from by omega, decide_true, if_true, List.flatMap_cons, List.flatMap_nil,
          List.append_nil, List.mem_map, List.drop_succ_cons, List.drop_zero, ih t hlen]
        constructor
        · rintro ⟨a, ha, rfl⟩; exact ⟨a, ha, rfl⟩
        · rintro ⟨a, ha, rfl⟩; exact ⟨a, ha, rfl⟩
      simp only [Re.starMs]
      cases g
      · simp only [Bool.false_eq_true, if_false, List.mem_cons, key, List.length_cons]
        constructor
        · rintro (rfl | ⟨k', hk', rfl⟩) <;> omega
        · intro h
          cases k with
          | zero => left; rfl
          | succ k => right; exact ⟨k, by omega, by omega⟩
      · simp only [if_true, List.mem_append, List.mem_singleton, key, List.length_cons]
        constructor
        · rintro (⟨k', hk', rfl⟩ | rfl) <;> omega
        · intro h
          cases k with
          | zero => right; rfl
          | succ k => left; exact ⟨k, by omega, by omega⟩

theorem mem_star_any (g : Bool) (s : Cps) (k : Nat) : k ∈ (Re.star anyCls g).ms s ↔ k ≤ s.length := by
  simp only [Re.ms]
  exact mem_starMs_any g (s.length + 1) s (by omega) k

/-- `.*X` matches iff `X` matches at some offset -/
theorem hits_seq_star_any (g : Bool) (b : Re) (s : Cps) :
    hits (.seq (.star anyCls g) b) s = true ↔ ∃ k, k ≤ s.length ∧ hits b (s.drop k) = true := by
  rw [hits_iff]
  constructor
  · intro h
    obtain ⟨l, hl⟩ := List.exists_mem_of_ne_nil _ h
    rw [ms_seq] at hl
    simp only [List.mem_flatMap, List.mem_map] at hl
    obtain ⟨l1, h1, l2, h2, _⟩ := hl
    refine ⟨l1, (mem_star_any g s l1).1 h1, ?_⟩
    rw [hits_iff]; exact List.ne_nil_of_mem h2
  · rintro ⟨k, hk, hb⟩
    rw [hits_iff] at hb
    obtain ⟨l2, h2⟩ := List.exists_mem_of_ne_nil _ hb
    apply List.ne_nil_of_mem (a := k + l2)
    rw [ms_seq]
    simp only [List.mem_flatMap, List.mem_map]
    exact ⟨k, (mem_star_any g s k).2 hk, l2, h2, rfl⟩

/-! ### a run of single-character classes (how relib nests a literal) -/

abbrev Cls := Bool × List (Nat × Nat)

/-- `c₁ c₂ … cₙ r` nested to the right -/
def clsChain : List Cls → Re → Re
  | [], r => r
  | c :: cs, r => .seq (.cls c.1 c.2) (clsChain cs r)

/-- `c₁ c₂ … cₙ` nested to the right, the last one standing alone -/
def clsSeq : List Cls → Re
  | [] => .eps
  | [c] => .cls c.1 c.2
  | c :: d :: cs => .seq (.cls c.1 c.2) (clsSeq (d :: cs))

/-- the first `cs.length` characters of `s` are in the respective classes -/
def matchCls : List Cls → Cps → Bool
  | [], _ => true
  | _ :: _, [] => false
  | c :: cs, x :: t => Re.inCls c.1 c.2 x && matchCls cs t

theorem hits_clsChain (r : Re) : ∀ (cs : List Cls) (s : Cps),
    hits (clsChain cs r) s = (matchCls cs s && hits r (s.drop cs.length)) := by
  intro cs
  induction cs with
  | nil => intro s; simp [clsChain, matchCls]
  | cons c cs ih =>
    intro s
    simp only [clsChain, hits_seq_cls]
    cases s with
    | nil => simp [matchCls]
    | cons x t => simp [matchCls, ih, Bool.and_assoc]

theorem hits_clsSeq : ∀ (cs : List Cls) (s : Cps), hits (clsSeq cs) s = matchCls cs s := by
  intro cs
  induction cs with
  | nil => intro s; simp [clsSeq, matchCls, hits, Re.first, Re.ms]
  | cons c cs ih =>
    intro s
    cases cs with
    | nil =>
      simp only [clsSeq, hits_cls]
      cases s <;> simp [matchCls]
    | cons d cs =>
      simp only [clsSeq, hits_seq_cls]
      cases s with
      | nil => simp [matchCls]
      | cons x t => simp [matchCls, ih]

/-- the class relib produces for a literal character under re.I -/
def foldCls (c : Nat) : Cls := (false, if 97 ≤ c ∧ c ≤ 122 then [(c, c), (c - 32, c - 32)] else [(c, c)])

theorem inCls_foldCls (c x : Nat) (hx : isUpperA x = false) : Re.inCls (foldCls c).1 (foldCls c).2 x = (c == x) := by
  unfold foldCls Re.inCls
  unfold isUpperA at hx
  simp only [Bool.and_eq_false_iff, decide_eq_false_iff_not] at hx
  rw [Bool.eq_iff_iff]
  by_cases h : 97 ≤ c ∧ c ≤ 122
  · simp only [h, and_self, if_true, List.any_cons, List.any_nil, Bool.or_false, bne_iff_ne, ne_eq,
      Bool.or_eq_true, Bool.and_eq_true, decide_eq_true_eq, beq_iff_eq]
    simp only [Bool.false_eq, Bool.or_eq_false_iff, Bool.and_eq_false_iff, decide_eq_false_iff_not, not_and, not_or]
    omega
  · simp only [h, if_false, List.any_cons, List.any_nil, Bool.or_false, bne_iff_ne, ne_eq,
      Bool.and_eq_true, decide_eq_true_eq, beq_iff_eq]
    simp only [Bool.false_eq, Bool.and_eq_false_iff, decide_eq_false_iff_not]
    omega

/-- on input without capitals the folded literal matches exactly where the literal is a prefix -/
theorem matchCls_fold : ∀ (lit s : Cps), NoUpper s → matchCls (lit.map foldCls) s = lit.isPrefixOf s := by
  intro lit
  induction lit with
  | nil => intro s _; simp [matchCls]
  | cons c lit ih =>
    intro s hs
    cases s with
    | nil => simp [matchCls, List.isPrefixOf]
    | cons x t =>
      simp only [List.map_cons, matchCls, List.isPrefixOf]
      rw [inCls_foldCls c x (hs x (by simp)), ih t hs.tail]

/-- `lit₁ .* lit₂` under re.I|re.S on a string without capitals: prefix and infix -/
theorem hits_lit_any_lit (a b : Cps) (g : Bool) (s : Cps) (hs : NoUpper s) :
    hits (clsChain (a.map foldCls) (.seq (.star anyCls g) (clsSeq (b.map foldCls)))) s =
      (a.isPrefixOf s && contains b (s.drop a.length)) := by
  rw [hits_clsChain, matchCls_fold a s hs, List.length_map]
  congr 1
  rw [Bool.eq_iff_iff, hits_seq_star_any, contains_iff]
  constructor
  · rintro ⟨k, hk, h⟩
    refine ⟨k, hk, ?_⟩
    rw [hits_clsSeq, matchCls_fold b _ ((hs.drop _).drop _)] at h
    exact h
  · rintro ⟨k, hk, h⟩
    refine ⟨k, hk, ?_⟩
    rw [hits_clsSeq, matchCls_fold b _ ((hs.drop _).drop _)]
    exact h

/-! ## the documented media-type classes -/

/-- the six classes named in the comments at the type constants (`encutils/__init__.py:76-94`) -/
inductive MClass where
  | appXml    -- application/xml, application/xml-dtd, application/xml-external-parsed-entity, application/…+xml
  | textXml   -- text/xml, text/xml-external-parsed-entity, text/…+xml
  | html      -- text/html
  | css       -- text/css ("any text/* which defaults to UTF-8, for now only text/css")
  | text      -- any other text/*
  | other
deriving DecidableEq, Repr

/-- the integer the code uses for a class -/
def MClass.code : MClass → Nat
  | .appXml => C20.XML_APPLICATION_TYPE
  | .textXml => C20.XML_TEXT_TYPE
  | .html => C20.HTML_TEXT_TYPE
  | .css => C20.TEXT_UTF8
  | .text => C20.TEXT_TYPE
  | .other => C20.OTHER_TYPE

/-- class of a stripped, lower-cased media type — written from the documentation, literal strings -/
def specClassNorm (n : Cps) : MClass :=
  if n = cps "application/xml" ∨ n = cps "application/xml-dtd" ∨ n = cps "application/xml-external-parsed-entity" ∨
      ((cps "application/").isPrefixOf n = true ∧ contains (cps "+xml") (n.drop 12) = true) then .appXml
  else if n = cps "text/xml" ∨ n = cps "text/xml-external-parsed-entity" ∨
      ((cps "text/").isPrefixOf n = true ∧ contains (cps "+xml") (n.drop 5) = true) then .textXml
  else if n = cps "text/html" then .html
  else if n = cps "text/css" then .css
  else if (cps "text/").isPrefixOf n = true then .text
  else .other

/-- class of a media type as the transport gives it (absent or empty: other) -/
def specClass : Option Cps → MClass
  | none => .other
  | some [] => .other
  | some m => specClassNorm (lower (strip m))

theorem app_re_shape : C20.xml_application_types_re =
    clsChain ((cps "application/").map foldCls) (.seq (.star anyCls false) (clsSeq ((cps "+xml").map foldCls))) := by
  decide

theorem text_re_shape : C20.xml_text_types_re =
    clsChain ((cps "text/").map foldCls) (.seq (.star anyCls false) (clsSeq ((cps "+xml").map foldCls))) := by
  decide

/-- the regex string that sits in `xml_text_types` next to the real names (`:199`) -/
def textRegexLiteral : Cps := cps "text\\/.*?\\+xml"

theorem ladder_spec (n : Cps) (hn : NoUpper n) (hlit : n ≠ textRegexLiteral) :
    runLadder n C20.ladder = (specClassNorm n).code := by
  have happ : ruleHits (.listRe C20.xml_application_types C20.xml_application_types_re C20.XML_APPLICATION_TYPE) n = true ↔
      (n = cps "application/xml" ∨ n = cps "application/xml-dtd" ∨ n = cps "application/xml-external-parsed-entity" ∨
        ((cps "application/").isPrefixOf n = true ∧ contains (cps "+xml") (n.drop 12) = true)) := by
    have hre : (C20.xml_application_types_re.first n).isSome =
        ((cps "application/").isPrefixOf n && contains (cps "+xml") (n.drop 12)) := by
      have := hits_lit_any_lit (cps "application/") (cps "+xml") false n hn
      rw [← app_re_shape] at this
      exact this
    simp only [ruleHits, hre, C20.xml_application_types, List.contains_cons, List.contains_nil, Bool.or_false,
      Bool.or_eq_true, beq_iff_eq, Bool.and_eq_true]
    constructor
    · rintro ((h | h | h | h) | h)
      · right; right; right; subst h; decide
      · left; rw [h]; decide
      · right; left; rw [h]; decide
      · right; right; left; rw [h]; decide
      · right; right; right; exact h
    · rintro (h | h | h | h)
      · left; right; left; rw [h]; decide
      · left; right; right; left; rw [h]; decide
      · left; right; right; right; rw [h]; decide
      · right; exact h
  have htxt : ruleHits (.listRe C20.xml_text_types C20.xml_text_types_re C20.XML_TEXT_TYPE) n = true ↔
      (n = cps "text/xml" ∨ n = cps "text/xml-external-parsed-entity" ∨
        ((cps "text/").isPrefixOf n = true ∧ contains (cps "+xml") (n.drop 5) = true)) := by
    have hre : (C20.xml_text_types_re.first n).isSome =
        ((cps "text/").isPrefixOf n && contains (cps "+xml") (n.drop 5)) := by
      have := hits_lit_any_lit (cps "text/") (cps "+xml") false n hn
      rw [← text_re_shape] at this
      exact this
    simp only [ruleHits, hre, C20.xml_text_types, List.contains_cons, List.contains_nil, Bool.or_false,
      Bool.or_eq_true, beq_iff_eq, Bool.and_eq_true]
    constructor
    · rintro ((h | h | h) | h)
      · exact absurd (by rw [h]; decide) hlit
      · left; rw [h]; decide
      · right; left; rw [h]; decide
      · right; right; exact h
    · rintro (h | h | h)
      · left; right; left; rw [h]; decide
      · left; right; right; rw [h]; decide
      · right; exact h
  have hhtml : ruleHits (.eq (cps "text/html") C20.HTML_TEXT_TYPE) n = true ↔ n = cps "text/html" := by
    simp [ruleHits]
  have hcss : ruleHits (.eq (cps "text/css") C20.TEXT_UTF8) n = true ↔ n = cps "text/css" := by
    simp [ruleHits]
  have hl : C20.ladder = [.listRe C20.xml_application_types C20.xml_application_types_re C20.XML_APPLICATION_TYPE,
      .listRe C20.xml_text_types C20.xml_text_types_re C20.XML_TEXT_TYPE,
      .eq (cps "text/html") C20.HTML_TEXT_TYPE, .eq (cps "text/css") C20.TEXT_UTF8,
      .pre (cps "text/") C20.TEXT_TYPE] := by decide
  rw [hl]
  unfold specClassNorm
  simp only [runLadder]
  by_cases h1 : ruleHits (.listRe C20.xml_application_types C20.xml_application_types_re C20.XML_APPLICATION_TYPE) n = true
  · rw [if_pos h1, if_pos (happ.1 h1)]; rfl
  · rw [if_neg h1, if_neg (fun h => h1 (happ.2 h))]
    by_cases h2 : ruleHits (.listRe C20.xml_text_types C20.xml_text_types_re C20.XML_TEXT_TYPE) n = true
    · rw [if_pos h2, if_pos (htxt.1 h2)]; rfl
    · rw [if_neg h2, if_neg (fun h => h2 (htxt.2 h))]
      by_cases h3 : ruleHits (.eq (cps "text/html") C20.HTML_TEXT_TYPE) n = true
      · rw [if_pos h3, if_pos (hhtml.1 h3)]; rfl
      · rw [if_neg h3, if_neg (fun h => h3 (hhtml.2 h))]
        by_cases h4 : ruleHits (.eq (cps "text/css") C20.TEXT_UTF8) n = true
        · rw [if_pos h4, if_pos (hcss.1 h4)]; rfl
        · rw [if_neg h4, if_neg (fun h => h4 (hcss.2 h))]
          by_cases h5 : (cps "text/").isPrefixOf n = true
          · have : ruleHits (.pre (cps "text/") C20.TEXT_TYPE) n = true := h5
            rw [if_pos this, if_pos h5]; rfl
          · have : ¬ ruleHits (.pre (cps "text/") C20.TEXT_TYPE) n = true := h5
            rw [if_neg this, if_neg h5]; rfl

/-! ## the XML sniffer -/

/-- the documented BOM table: four-byte patterns, then the three-byte one, then the two-byte ones -/
def specBom (b1 b2 b3 b4 : Nat) : Option Cps :=
  if b1 = 0x00 ∧ b2 = 0x00 ∧ b3 = 0xFE ∧ b4 = 0xFF then some (cps "utf_32_be")
  else if b1 = 0xFF ∧ b2 = 0xFE ∧ b3 = 0x00 ∧ b4 = 0x00 then some (cps "utf_32_le")
  else if b1 = 0xEF ∧ b2 = 0xBB ∧ b3 = 0xBF then some (cps "utf-8")
  else if b1 = 0xFE ∧ b2 = 0xFF then some (cps "utf_16_be")
  else if b1 = 0xFF ∧ b2 = 0xFE then some (cps "utf_16_le")
  else none

theorem bomDetect_spec (b1 b2 b3 b4 : Nat) : bomDetect b1 b2 b3 b4 = specBom b1 b2 b3 b4 := by
  have e1 : cps "utf_32_be" = [117, 116, 102, 95, 51, 50, 95, 98, 101] := by decide
  have e2 : cps "utf_32_le" = [117, 116, 102, 95, 51, 50, 95, 108, 101] := by decide
  have e3 : cps "utf-8" = [117, 116, 102, 45, 56] := by decide
  have e4 : cps "utf_16_be" = [117, 116, 102, 95, 49, 54, 95, 98, 101] := by decide
  have e5 : cps "utf_16_le" = [117, 116, 102, 95, 49, 54, 95, 108, 101] := by decide
  unfold bomDetect bomGet specBom
  rw [e1, e2, e3, e4, e5]
  simp only [C20.bomDict, dictGet]
  by_cases h1 : b1 = 0 ∧ b2 = 0 ∧ b3 = 254 ∧ b4 = 255
  · obtain ⟨rfl, rfl, rfl, rfl⟩ := h1; simp
  · by_cases h2 : b1 = 255 ∧ b2 = 254 ∧ b3 = 0 ∧ b4 = 0
    · obtain ⟨rfl, rfl, rfl, rfl⟩ := h2; simp
    · by_cases h3 : b1 = 239 ∧ b2 = 187 ∧ b3 = 191
      · obtain ⟨rfl, rfl, rfl⟩ := h3; simp
      · by_cases h4 : b1 = 254 ∧ b2 = 255
        · obtain ⟨rfl, rfl⟩ := h4; simp
        · by_cases h5 : b1 = 255 ∧ b2 = 254
          · obtain ⟨rfl, rfl⟩ := h5
            have : ¬ (0 = b3 ∧ 0 = b4) := by omega
            simp [this]
            omega
          · have a1 : ¬ (0 = b1 ∧ 0 = b2 ∧ 254 = b3 ∧ 255 = b4) := by omega
            have a2 : ¬ (255 = b1 ∧ 254 = b2 ∧ 0 = b3 ∧ 0 = b4) := by omega
            have a3 : ¬ (239 = b1 ∧ 187 = b2 ∧ 191 = b3) := by omega
            have a4 : ¬ (254 = b1 ∧ 255 = b2) := by omega
            have a5 : ¬ (255 = b1 ∧ 254 = b2) := by omega
            simp [h1, h2, h3, h4, h5, a1, a2, a3, a4, a5]

/-- what the sniffer answers for a `str`/`bytes` document: the BOM's encoding, else the declared encoding
(lower-cased), else UTF-8 (or nothing, for `includeDefault=False`). For fewer than four characters the code raises
`ValueError` and `getEncodingInfo` turns that into "unknown" (known finding C20-xml-short): `none`. -/
def specSniff (txt : Cps) (incl : Bool) : Option Cps :=
  match txt with
  | b1 :: b2 :: b3 :: b4 :: _ =>
    match specBom b1 b2 b3 b4 with
    | some n => some n
    | none =>
      match declMatch (txt.take 2048) with
      | some e => some (lower e)
      | none => if incl then some (cps "utf-8") else none
  | _ => none

theorem detectXMLStream_long (b1 b2 b3 b4 : Nat) (t : Cps) (pos : Nat) (incl : Bool) :
    detectXMLStream ⟨b1 :: b2 :: b3 :: b4 :: t, pos, false⟩ incl =
      ⟨.ok (specSniff (b1 :: b2 :: b3 :: b4 :: t) incl), ⟨b1 :: b2 :: b3 :: b4 :: t, pos, false⟩⟩ := by
  have e3 : C20.xmlDefault = cps "utf-8" := by decide
  simp only [detectXMLStream, C20.bomRead, C20.declRead, specSniff, bomDetect_spec, e3, List.take_succ_cons,
    List.take_zero, Bool.false_and, Bool.false_eq_true, if_false]
  cases specBom b1 b2 b3 b4 with
  | some n => rfl
  | none =>
    simp only []
    generalize declMatch _ = d
    cases d with
    | some e => rfl
    | none => cases incl <;> rfl

theorem detectXMLStream_short (fp : Stream) (incl : Bool) (hb : fp.binary = false) (h : fp.content.length < 4) :
    detectXMLStream fp incl = ⟨.error .valueError, { fp with pos := fp.content.length }⟩ := by
  obtain ⟨c, p, b⟩ := fp
  simp only at hb h
  subst hb
  match c, h with
  | [], _ => simp [detectXMLStream, C20.bomRead]
  | [_], _ => simp [detectXMLStream, C20.bomRead]
  | [_, _], _ => simp [detectXMLStream, C20.bomRead]
  | [_, _, _], _ => simp [detectXMLStream, C20.bomRead]
  | _ :: _ :: _ :: _ :: _, h => simp at h; omega

theorem detectXMLStream_binary (c : Cps) (p : Nat) (incl : Bool) (h : c ≠ []) :
    detectXMLStream ⟨c, p, true⟩ incl = ⟨.error .typeError, ⟨c, min 4 c.length, true⟩⟩ := by
  cases c with
  | nil => exact absurd rfl h
  | cons a t => simp [detectXMLStream, C20.bomRead, List.length_take]; omega

theorem detectXML_long (b1 b2 b3 b4 : Nat) (t : Cps) (incl : Bool) :
    detectXML (b1 :: b2 :: b3 :: b4 :: t) incl = .ok (specSniff (b1 :: b2 :: b3 :: b4 :: t) incl) := by
  simp [detectXML, detectXMLStream_long]

theorem detectXML_short (txt : Cps) (incl : Bool) (h : txt.length < 4) : detectXML txt incl = .error .valueError := by
  simp [detectXML, detectXMLStream_short ⟨txt, 0, false⟩ incl rfl h]

theorem specSniff_short (txt : Cps) (incl : Bool) (h : txt.length < 4) : specSniff txt incl = none := by
  match txt, h with
  | [], _ => rfl
  | [_], _ => rfl
  | [_, _], _ => rfl
  | [_, _, _], _ => rfl
  | _ :: _ :: _ :: _ :: _, h => simp at h; omega

/-- inside `getEncodingInfo` the `ValueError` is caught -/
theorem sniffCaught_spec (txt : Cps) (incl : Bool) : sniffCaught txt incl = .ok (specSniff txt incl) := by
  by_cases h : txt.length < 4
  · simp [sniffCaught, detectXML_short txt incl h, specSniff_short txt incl h]
  · match txt, h with
    | b1 :: b2 :: b3 :: b4 :: t, _ => simp [sniffCaught, detectXML_long]
    | [], h => simp at h
    | [_], h => simp at h
    | [_, _], h => simp at h
    | [_, _, _], h => simp at h

/-! ## `getEncodingInfo` -/

theorem getEncodingInfo_ok {resp : Option Resp} {text : Option Cps} {m : MetaRaw} {t : Option Cps} {i : Info}
    (h : getEncodingInfo resp text m t = .ok i) :
    ∃ txt xml metaI, effText resp text = .ok txt ∧ xmlOf (typeOf resp txt) txt = .ok xml ∧
      metaOf (typeOf resp txt) m = .ok metaI ∧ i = assemble (typeOf resp txt) (httpOf resp) xml metaI t := by
  unfold getEncodingInfo at h
  split at h
  · simp at h
  · rename_i txt htxt
    simp only at h
    split at h
    · simp at h
    · rename_i xml hxml
      split at h
      · simp at h
      · rename_i metaI hmeta
        simp only [Except.ok.injEq] at h
        exact ⟨txt, xml, metaI, htxt, hxml, hmeta, h.symm⟩

/-- guard of the classification theorems: the media type is not the regex source string `text\\/.*?\\+xml`, which the
code keeps in the same list as the real names (known finding C20-regex-literal-media-type) -/
def NotRegexLiteral (mt : Option Cps) : Prop := ∀ m, mt = some m → lower (strip m) ≠ textRegexLiteral

def RespOk : Option Resp → Prop
  | some r => NotRegexLiteral r.mediaType
  | none => True

/-- documented default encoding of a class -/
def specDefault : MClass → Option Cps
  | .appXml => some (cps "utf-8")
  | .textXml => some (cps "ascii")
  | .html => some (cps "iso-8859-1")
  | .text => some (cps "iso-8859-1")
  | .css => some (cps "utf-8")
  | .other => none

/-- how the document is classified: by the transport media type; without a response, XML if `<?xml version=` occurs
in the first 30 characters (the code's "naive test"), else other -/
def docClass (resp : Option Resp) (txt : Cps) : MClass :=
  match resp with
  | some r => specClass r.mediaType
  | none => if contains (cps "<?xml version=") (txt.take 30) = true then .appXml else .other

/-- charset found by the meta sniffer (tail of `getMetaInfo`) -/
def metaCharset : MetaRaw → Option Cps
  | .found _ (.str s) => some (if s.isEmpty then s else lower s)
  | _ => none

theorem classify_spec (mt : Option Cps) (h : NotRegexLiteral mt) : textTypeByMediaType mt = (specClass mt).code := by
  match mt with
  | none => rfl
  | some [] => rfl
  | some (c :: t) =>
    simp only [textTypeByMediaType, specClass]
    exact ladder_spec _ (noUpper_lower _) (h _ rfl)

theorem code_injective (a b : MClass) (h : a.code = b.code) : a = b := by
  cases a <;> cases b <;> first | rfl | (exact absurd h (by decide))

theorem typeOf_spec (resp : Option Resp) (txt : Cps) (g : RespOk resp) :
    typeOf resp txt = (docClass resp txt).code := by
  cases resp with
  | none =>
    have e : C20.sniffNeedle = cps "<?xml version=" := by decide
    simp only [typeOf, docClass, textTypeOfText, e, C20.sniffWindow]
    split <;> rfl
  | some r => exact classify_spec r.mediaType g

theorem xmlOf_spec (c : MClass) (txt : Cps) :
    xmlOf c.code txt = .ok (match c with
      | .appXml => specSniff txt true
      | .html => specSniff txt false
      | _ => none) := by
  cases c <;> simp [xmlOf, MClass.code, C20.XML_APPLICATION_TYPE, C20.HTML_TEXT_TYPE, C20.XML_TEXT_TYPE,
    C20.TEXT_TYPE, C20.TEXT_UTF8, C20.OTHER_TYPE, sniffCaught_spec]

theorem metaOf_spec (c : MClass) (m : MetaRaw) :
    metaOf c.code m = (match c with
      | .html => getMetaInfo m
      | .text => getMetaInfo m
      | _ => .ok (none, none)) := by
  cases c <;> simp [metaOf, MClass.code, C20.XML_APPLICATION_TYPE, C20.HTML_TEXT_TYPE, C20.XML_TEXT_TYPE,
    C20.TEXT_TYPE, C20.TEXT_UTF8, C20.OTHER_TYPE]

theorem getMetaInfo_charset {m : MetaRaw} {p : Option Cps × Option Cps} (h : getMetaInfo m = .ok p) :
    p.2 = metaCharset m := by
  cases m with
  | raises => simp [getMetaInfo] at h
  | absent => simp [getMetaInfo] at h; subst h; rfl
  | found mt ch =>
    cases ch with
    | none => simp [getMetaInfo] at h; subst h; rfl
    | str s => simp [getMetaInfo] at h; subst h; simp [metaCharset]
    | tuple => simp [getMetaInfo] at h

theorem defaults_spec (c : MClass) : (dictGet c.code C20.defaultEncodings).join = specDefault c := by
  cases c <;> decide

theorem truthy_cases (o : Option Cps) : (truthy o = true ∧ ∃ a l, o = some (a :: l)) ∨ (truthy o = false ∧ (o = none ∨ o = some [])) := by
  match o with
  | none => right; simp [truthy]
  | some [] => right; simp [truthy]
  | some (a :: l) => left; exact ⟨rfl, a, l, rfl⟩

/-- the precedence chain as the documented first-match table -/
theorem chain_spec (c : MClass) (http xml metaE bm tryEnc : Option Cps) (hbm : c ≠ .appXml → c ≠ .other → bm = specDefault c) :
    chain c.code http xml metaE bm tryEnc =
      if truthy http = true then http else
        match (generalizing := false) c with
        | .appXml => xml
        | .html => if truthy metaE = true then metaE else some (cps "iso-8859-1")
        | .textXml => some (cps "ascii")
        | .text => some (cps "iso-8859-1")
        | .css => some (cps "utf-8")
        | .other => http := by
  rcases truthy_cases http with ⟨ht, a, l, rfl⟩ | ⟨ht, rfl | rfl⟩
  · cases c <;> simp [chain, MClass.code, C20.XML_APPLICATION_TYPE, C20.HTML_TEXT_TYPE, C20.XML_TEXT_TYPE,
      C20.TEXT_TYPE, C20.TEXT_UTF8, C20.OTHER_TYPE, truthy]
  all_goals
    cases c
    case appXml => simp [chain, MClass.code, C20.XML_APPLICATION_TYPE, truthy]
    case other => simp [chain, MClass.code, C20.XML_APPLICATION_TYPE, C20.HTML_TEXT_TYPE, C20.XML_TEXT_TYPE,
      C20.TEXT_TYPE, C20.TEXT_UTF8, C20.OTHER_TYPE, truthy]
    case html =>
      have := hbm (by decide) (by decide); subst this
      rcases truthy_cases metaE with ⟨hm, a, l, rfl⟩ | ⟨hm, rfl | rfl⟩ <;>
        simp [chain, MClass.code, C20.XML_APPLICATION_TYPE, C20.HTML_TEXT_TYPE, truthy, specDefault, cps]
    case textXml =>
      have := hbm (by decide) (by decide); subst this
      simp [chain, MClass.code, C20.XML_APPLICATION_TYPE, C20.HTML_TEXT_TYPE, C20.XML_TEXT_TYPE, truthy, specDefault]
    case text =>
      have := hbm (by decide) (by decide); subst this
      simp [chain, MClass.code, C20.XML_APPLICATION_TYPE, C20.HTML_TEXT_TYPE, C20.XML_TEXT_TYPE, C20.TEXT_TYPE,
        truthy, specDefault]
    case css =>
      have := hbm (by decide) (by decide); subst this
      simp [chain, MClass.code, C20.XML_APPLICATION_TYPE, C20.HTML_TEXT_TYPE, C20.XML_TEXT_TYPE, C20.TEXT_TYPE,
        C20.TEXT_UTF8, truthy, specDefault]

/-- the media-type default handed to the chain is the documented default of the class -/
theorem byMediaType_spec (resp : Option Resp) (txt : Cps) (g : RespOk resp)
    (hc : docClass resp txt ≠ .appXml) (ho : docClass resp txt ≠ .other) :
    encodingByMediaType (httpOf resp).1 = specDefault (docClass resp txt) := by
  cases resp with
  | none => simp only [docClass] at hc ho; split at hc <;> simp_all
  | some r =>
    simp only [httpOf, getHTTPInfo, encodingByMediaType, docClass]
    rw [classify_spec r.mediaType g, defaults_spec]

end CssVerif.Encutils
