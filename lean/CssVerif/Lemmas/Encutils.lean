import CssVerif.Model.Encutils
/-!
# Helper lemmas and specification-side definitions for C20 (`Props/C20.lean`)

* Python string helpers: `lower` is idempotent, a lower-cased string has no ASCII capital
* `Re` facts needed for the three regexes of encutils (`application/.*?\+xml`, `text\/.*?\+xml`, the XML
  declaration pattern): membership in `ms` of sequences / classes / stars of one class
* the documented media-type classes (`MClass`, `specClass`) and BOM table (`specBom`) — written by hand from the
  documentation, with literal strings; the theorems of `Props/C20.lean` tie the model (whose tables are
  regenerated from the source) to them.
-/
set_option linter.unusedSimpArgs false
set_option linter.unusedVariables false
set_option linter.unnecessarySimpa false

namespace CssVerif.Encutils
open CssVerif CssVerif.Proto CssVerif.Gen

/-! ## strings -/

def isUpperA (c : Nat) : Bool := 65 ≤ c && c ≤ 90

theorem lowerC_idem (c : Nat) : lowerC (lowerC c) = lowerC c := by
  unfold lowerC
  simp only [Bool.and_eq_true, decide_eq_true_eq, bne_iff_ne, ne_eq]
  repeat' split
  all_goals omega

theorem lower_idem (s : Cps) : lower (lower s) = lower s := by
  unfold lower
  simp [List.map_map, Function.comp_def, lowerC_idem]

theorem lowerC_not_upper (c : Nat) : isUpperA (lowerC c) = false := by
  unfold lowerC isUpperA
  simp only [Bool.and_eq_true, decide_eq_true_eq, bne_iff_ne, ne_eq, Bool.and_eq_false_iff, decide_eq_false_iff_not]
  repeat' split
  all_goals omega

/-- no ASCII capital letter -/
def NoUpper (s : Cps) : Prop := ∀ c ∈ s, isUpperA c = false

theorem noUpper_lower (s : Cps) : NoUpper (lower s) := by
  intro c hc
  unfold lower at hc
  simp only [List.mem_map] at hc
  obtain ⟨d, _, rfl⟩ := hc
  exact lowerC_not_upper d

theorem NoUpper.tail {c : Nat} {t : Cps} (h : NoUpper (c :: t)) : NoUpper t :=
  fun d hd => h d (List.mem_cons_of_mem _ hd)

theorem NoUpper.drop {s : Cps} (h : NoUpper s) (k : Nat) : NoUpper (s.drop k) :=
  fun d hd => h d (List.mem_of_mem_drop hd)

/-- `contains` is "some suffix starts with the needle" -/
theorem contains_iff (n : Cps) : ∀ h : Cps, contains n h = true ↔ ∃ k, k ≤ h.length ∧ n.isPrefixOf (h.drop k) = true := by
  intro h
  induction h with
  | nil =>
    cases n with
    | nil => simp [contains]
    | cons a t => simp [contains, List.isPrefixOf]
  | cons c t ih =>
    simp only [contains, Bool.or_eq_true, ih]
    constructor
    · rintro (h | ⟨k, hk, hp⟩)
      · exact ⟨0, by simp, by simpa using h⟩
      · exact ⟨k + 1, by simp; omega, by simpa using hp⟩
    · rintro ⟨k, hk, hp⟩
      cases k with
      | zero => left; simpa using hp
      | succ k => right; exact ⟨k, by simp at hk; omega, by simpa using hp⟩

/-! ## `Re`: does the pattern match at the start? -/

/-- `re.match(pattern, s)` is not `None` -/
def hits (r : Re) (s : Cps) : Bool := (r.first s).isSome

theorem ms_seq (a b : Re) (s : Cps) :
    (Re.seq a b).ms s = (a.ms s).flatMap fun l1 => (b.ms (s.drop l1)).map (l1 + ·) := by
  rw [Re.ms]

theorem hits_iff (r : Re) (s : Cps) : hits r s = true ↔ r.ms s ≠ [] := by
  unfold hits Re.first
  cases r.ms s <;> simp

theorem hits_cls (neg : Bool) (rs : List (Nat × Nat)) (s : Cps) :
    hits (.cls neg rs) s = match s with | [] => false | c :: _ => Re.inCls neg rs c := by
  cases s with
  | nil => simp [hits, Re.first, Re.ms]
  | cons c t => by_cases h : Re.inCls neg rs c = true <;> simp [hits, Re.first, Re.ms, h]

theorem hits_seq_cls (neg : Bool) (rs : List (Nat × Nat)) (b : Re) (s : Cps) :
    hits (.seq (.cls neg rs) b) s = match s with | [] => false | c :: t => Re.inCls neg rs c && hits b t := by
  cases s with
  | nil => simp [hits, Re.first, Re.ms]
  | cons c t =>
    by_cases h : Re.inCls neg rs c = true
    · simp only [hits, Re.first, Re.ms, h, if_true, List.flatMap_cons, List.flatMap_nil, List.append_nil,
        List.drop_succ_cons, List.drop_zero, Bool.true_and]
      cases b.ms t <;> simp
    · simp [hits, Re.first, Re.ms, h]

/-- the class that matches every character (`.` under re.S) -/
abbrev anyCls : Re := .cls true []

theorem any_ms (s : Cps) : anyCls.ms s = match s with | [] => [] | _ :: _ => [1] := by
  cases s <;> simp [Re.ms, Re.inCls]

theorem mem_starMs_any (g : Bool) : ∀ (fuel : Nat) (s : Cps), s.length < fuel →
    ∀ k, k ∈ Re.starMs anyCls.ms g fuel s ↔ k ≤ s.length := by
  intro fuel
  induction fuel with
  | zero => intro s h; omega
  | succ n ih =>
    intro s hs k
    cases s with
    | nil =>
      simp only [Re.starMs, any_ms]
      cases g <;> simp
    | cons c t =>
      have hlen : t.length < n := by simp at hs; omega
      have key : ∀ k, k ∈ (((anyCls.ms (c :: t)).filter (· > 0)).flatMap fun l1 =>
          (Re.starMs anyCls.ms g n ((c :: t).drop l1)).map (l1 + ·)) ↔ ∃ k', k' ≤ t.length ∧ k = 1 + k' := by
        intro k
        simp only [any_ms, List.filter_cons, List.filter_nil, List.flatMap_cons, List.flatMap_nil,
          List.append_nil, List.mem_map, List.drop_succ_cons, List.drop_zero]
        simp only [show (1 : Nat) > 0 from by omega, decide_true, if_true, List.flatMap_cons, List.flatMap_nil,
          List.append_nil, List.mem_map, List.drop_succ_cons, List.drop_zero, ih t hlen]
        constructor
        · rintro ⟨a, ha, rfl⟩; exact ⟨a, ha, rfl⟩
        · rintro ⟨a, ha, rfl⟩; exact ⟨a, ha, rfl⟩
      simp only [Re.starMs]
      cases g
      · simp only [Bool.false_eq_true, if_false, List.mem_cons, key, List.length_cons]
        constructor
        · rintro (rfl | ⟨k', hk', rfl⟩) <;> omega
        · intro h
          cases k with
          | zero => left; rfl
          | succ k => right; exact ⟨k, by omega, by omega⟩
      · simp only [if_true, List.mem_append, List.mem_singleton, key, List.length_cons]
        constructor
        · rintro (⟨k', hk', rfl⟩ | rfl) <;> omega
        · intro h
          cases k with
          | zero => right; rfl
          | succ k => left; exact ⟨k, by omega, by omega⟩

theorem mem_star_any (g : Bool) (s : Cps) (k : Nat) : k ∈ (Re.star anyCls g).ms s ↔ k ≤ s.length := by
  simp only [Re.ms]
  exact mem_starMs_any g (s.length + 1) s (by omega) k

/-- `.*X` matches iff `X` matches at some offset -/
theorem hits_seq_star_any (g : Bool) (b : Re) (s : Cps) :
    hits (.seq (.star anyCls g) b) s = true ↔ ∃ k, k ≤ s.length ∧ hits b (s.drop k) = true := by
  rw [hits_iff]
  constructor
  · intro h
    obtain ⟨l, hl⟩ := List.exists_mem_of_ne_nil _ h
    rw [ms_seq] at hl
    simp only [List.mem_flatMap, List.mem_map] at hl
    obtain ⟨l1, h1, l2, h2, _⟩ := hl
    refine ⟨l1, (mem_star_any g s l1).1 h1, ?_⟩
    rw [hits_iff]; exact List.ne_nil_of_mem h2
  · rintro ⟨k, hk, hb⟩
    rw [hits_iff] at hb
    obtain ⟨l2, h2⟩ := List.exists_mem_of_ne_nil _ hb
    apply List.ne_nil_of_mem (a := k + l2)
    rw [ms_seq]
    simp only [List.mem_flatMap, List.mem_map]
    exact ⟨k, (mem_star_any g s k).2 hk, l2, h2, rfl⟩

/-! ### a run of single-character classes (how relib nests a literal) -/

abbrev Cls := Bool × List (Nat × Nat)

/-- `c₁ c₂ … cₙ r` nested to the right -/
def clsChain : List Cls → Re → Re
  | [], r => r
  | c :: cs, r => .seq (.cls c.1 c.2) (clsChain cs r)

/-- `c₁ c₂ … cₙ` nested to the right, the last one standing alone -/
def clsSeq : List Cls → Re
  | [] => .eps
  | [c] => .cls c.1 c.2
  | c :: d :: cs => .seq (.cls c.1 c.2) (clsSeq (d :: cs))

/-- the first `cs.length` characters of `s` are in the respective classes -/
def matchCls : List Cls → Cps → Bool
  | [], _ => true
  | _ :: _, [] => false
  | c :: cs, x :: t => Re.inCls c.1 c.2 x && matchCls cs t

theorem hits_clsChain (r : Re) : ∀ (cs : List Cls) (s : Cps),
    hits (clsChain cs r) s = (matchCls cs s && hits r (s.drop cs.length)) := by
  intro cs
  induction cs with
  | nil => intro s; simp [clsChain, matchCls]
  | cons c cs ih =>
    intro s
    simp only [clsChain, hits_seq_cls]
    cases s with
    | nil => simp [matchCls]
    | cons x t => simp [matchCls, ih, Bool.and_assoc]

theorem hits_clsSeq : ∀ (cs : List Cls) (s : Cps), hits (clsSeq cs) s = matchCls cs s := by
  intro cs
  induction cs with
  | nil => intro s; simp [clsSeq, matchCls, hits, Re.first, Re.ms]
  | cons c cs ih =>
    intro s
    cases cs with
    | nil =>
      simp only [clsSeq, hits_cls]
      cases s <;> simp [matchCls]
    | cons d cs =>
      simp only [clsSeq, hits_seq_cls]
      cases s with
      | nil => simp [matchCls]
      | cons x t => simp [matchCls, ih]

/-- the class relib produces for a literal character under re.I -/
def foldCls (c : Nat) : Cls := (false, if 97 ≤ c ∧ c ≤ 122 then [(c, c), (c - 32, c - 32)] else [(c, c)])

theorem inCls_foldCls (c x : Nat) (hx : isUpperA x = false) : Re.inCls (foldCls c).1 (foldCls c).2 x = (c == x) := by
  unfold foldCls Re.inCls
  unfold isUpperA at hx
  simp only [Bool.and_eq_false_iff, decide_eq_false_iff_not] at hx
  rw [Bool.eq_iff_iff]
  by_cases h : 97 ≤ c ∧ c ≤ 122
  · simp only [h, and_self, if_true, List.any_cons, List.any_nil, Bool.or_false, bne_iff_ne, ne_eq,
      Bool.or_eq_true, Bool.and_eq_true, decide_eq_true_eq, beq_iff_eq]
    simp only [Bool.false_eq, Bool.or_eq_false_iff, Bool.and_eq_false_iff, decide_eq_false_iff_not, not_and, not_or]
    omega
  · simp only [h, if_false, List.any_cons, List.any_nil, Bool.or_false, bne_iff_ne, ne_eq,
      Bool.and_eq_true, decide_eq_true_eq, beq_iff_eq]
    simp only [Bool.false_eq, Bool.and_eq_false_iff, decide_eq_false_iff_not]
    omega

/-- on input without capitals the folded literal matches exactly where the literal is a prefix -/
theorem matchCls_fold : ∀ (lit s : Cps), NoUpper s → matchCls (lit.map foldCls) s = lit.isPrefixOf s := by
  intro lit
  induction lit with
  | nil => intro s _; simp [matchCls]
  | cons c lit ih =>
    intro s hs
    cases s with
    | nil => simp [matchCls, List.isPrefixOf]
    | cons x t =>
      simp only [List.map_cons, matchCls, List.isPrefixOf]
      rw [inCls_foldCls c x (hs x (by simp)), ih t hs.tail]

/-- `lit₁ .* lit₂` under re.I|re.S on a string without capitals: prefix and infix -/
theorem hits_lit_any_lit (a b : Cps) (g : Bool) (s : Cps) (hs : NoUpper s) :
    hits (clsChain (a.map foldCls) (.seq (.star anyCls g) (clsSeq (b.map foldCls)))) s =
      (a.isPrefixOf s && contains b (s.drop a.length)) := by
  rw [hits_clsChain, matchCls_fold a s hs, List.length_map]
  congr 1
  rw [Bool.eq_iff_iff, hits_seq_star_any, contains_iff]
  constructor
  · rintro ⟨k, hk, h⟩
    refine ⟨k, hk, ?_⟩
    rw [hits_clsSeq, matchCls_fold b _ ((hs.drop _).drop _)] at h
    exact h
  · rintro ⟨k, hk, h⟩
    refine ⟨k, hk, ?_⟩
    rw [hits_clsSeq, matchCls_fold b _ ((hs.drop _).drop _)]
    exact h

/-! ## the documented media-type classes -/

/-- the six classes named in the comments at the type constants (`encutils/__init__.py:76-94`) -/
inductive MClass where
  | appXml    -- application/xml, application/xml-dtd, application/xml-external-parsed-entity, application/…+xml
  | textXml   -- text/xml, text/xml-external-parsed-entity, text/…+xml
  | html      -- text/html
  | css       -- text/css ("any text/* which defaults to UTF-8, for now only text/css")
  | text      -- any other text/*
  | other
deriving DecidableEq, Repr

/-- the integer the code uses for a class -/
def MClass.code : MClass → Nat
  | .appXml => C20.XML_APPLICATION_TYPE
  | .textXml => C20.XML_TEXT_TYPE
  | .html => C20.HTML_TEXT_TYPE
  | .css => C20.TEXT_UTF8
  | .text => C20.TEXT_TYPE
  | .other => C20.OTHER_TYPE

/-- class of a stripped, lower-cased media type — written from the documentation, literal strings -/
def specClassNorm (n : Cps) : MClass :=
  if n = cps "application/xml" ∨ n = cps "application/xml-dtd" ∨ n = cps "application/xml-external-parsed-entity" ∨
      ((cps "application/").isPrefixOf n = true ∧ contains (cps "+xml") (n.drop 12) = true) then .appXml
  else if n = cps "text/xml" ∨ n = cps "text/xml-external-parsed-entity" ∨
      ((cps "text/").isPrefixOf n = true ∧ contains (cps "+xml") (n.drop 5) = true) then .textXml
  else if n = cps "text/html" then .html
  else if n = cps "text/css" then .css
  else if (cps "text/").isPrefixOf n = true then .text
  else .other

/-- class of a media type as the transport gives it (absent or empty: other) -/
def specClass : Option Cps → MClass
  | none => .other
  | some [] => .other
  | some m => specClassNorm (lower (strip m))

theorem app_re_shape : C20.xml_application_types_re =
    clsChain ((cps "application/").map foldCls) (.seq (.star anyCls false) (clsSeq ((cps "+xml").map foldCls))) := by
  decide

theorem text_re_shape : C20.xml_text_types_re =
    clsChain ((cps "text/").map foldCls) (.seq (.star anyCls false) (clsSeq ((cps "+xml").map foldCls))) := by
  decide

/-- the regex string that sits in `xml_text_types` next to the real names (`:199`) -/
def textRegexLiteral : Cps := cps "text\\/.*?\\+xml"

theorem ladder_spec (n : Cps) (hn : NoUpper n) (hlit : n ≠ textRegexLiteral) :
    runLadder n C20.ladder = (specClassNorm n).code := by
  have happ : ruleHits (.listRe C20.xml_application_types C20.xml_application_types_re C20.XML_APPLICATION_TYPE) n = true ↔
      (n = cps "application/xml" ∨ n = cps "application/xml-dtd" ∨ n = cps "application/xml-external-parsed-entity" ∨
        ((cps "application/").isPrefixOf n = true ∧ contains (cps "+xml") (n.drop 12) = true)) := by
    have hre : (C20.xml_application_types_re.first n).isSome =
        ((cps "application/").isPrefixOf n && contains (cps "+xml") (n.drop 12)) := by
      have := hits_lit_any_lit (cps "application/") (cps "+xml") false n hn
      rw [← app_re_shape] at this
      exact this
    simp only [ruleHits, hre, C20.xml_application_types, List.contains_cons, List.contains_nil, Bool.or_false,
      Bool.or_eq_true, beq_iff_eq, Bool.and_eq_true]
    constructor
    · rintro ((h | h | h | h) | h)
      · right; right; right; subst h; decide
      · left; rw [h]; decide
      · right; left; rw [h]; decide
      · right; right; left; rw [h]; decide
      · right; right; right; exact h
    · rintro (h | h | h | h)
      · left; right; left; rw [h]; decide
      · left; right; right; left; rw [h]; decide
      · left; right; right; right; rw [h]; decide
      · right; exact h
  have htxt : ruleHits (.listRe C20.xml_text_types C20.xml_text_types_re C20.XML_TEXT_TYPE) n = true ↔
      (n = cps "text/xml" ∨ n = cps "text/xml-external-parsed-entity" ∨
        ((cps "text/").isPrefixOf n = true ∧ contains (cps "+xml") (n.drop 5) = true)) := by
    have hre : (C20.xml_text_types_re.first n).isSome =
        ((cps "text/").isPrefixOf n && contains (cps "+xml") (n.drop 5)) := by
      have := hits_lit_any_lit (cps "text/") (cps "+xml") false n hn
      rw [← text_re_shape] at this
      exact this
    simp only [ruleHits, hre, C20.xml_text_types, List.contains_cons, List.contains_nil, Bool.or_false,
      Bool.or_eq_true, beq_iff_eq, Bool.and_eq_true]
    constructor
    · rintro ((h | h | h) | h)
      · exact absurd (by rw [h]; decide) hlit
      · left; rw [h]; decide
      · right; left; rw [h]; decide
      · right; right; exact h
    · rintro (h | h | h)
      · left; right; left; rw [h]; decide
      · left; right; right; rw [h]; decide
      · right; exact h
  have hhtml : ruleHits (.eq (cps "text/html") C20.HTML_TEXT_TYPE) n = true ↔ n = cps "text/html" := by
    simp [ruleHits]
  have hcss : ruleHits (.eq (cps "text/css") C20.TEXT_UTF8) n = true ↔ n = cps "text/css" := by
    simp [ruleHits]
  have hl : C20.ladder = [.listRe C20.xml_application_types C20.xml_application_types_re C20.XML_APPLICATION_TYPE,
      .listRe C20.xml_text_types C20.xml_text_types_re C20.XML_TEXT_TYPE,
      .eq (cps "text/html") C20.HTML_TEXT_TYPE, .eq (cps "text/css") C20.TEXT_UTF8,
      .pre (cps "text/") C20.TEXT_TYPE] := by decide
  rw [hl]
  unfold specClassNorm
  simp only [runLadder]
  by_cases h1 : ruleHits (.listRe C20.xml_application_types C20.xml_application_types_re C20.XML_APPLICATION_TYPE) n = true
  · rw [if_pos h1, if_pos (happ.1 h1)]; rfl
  · rw [if_neg h1, if_neg (fun h => h1 (happ.2 h))]
    by_cases h2 : ruleHits (.listRe C20.xml_text_types C20.xml_text_types_re C20.XML_TEXT_TYPE) n = true
    · rw [if_pos h2, if_pos (htxt.1 h2)]; rfl
    · rw [if_neg h2, if_neg (fun h => h2 (htxt.2 h))]
      by_cases h3 : ruleHits (.eq (cps "text/html") C20.HTML_TEXT_TYPE) n = true
      · rw [if_pos h3, if_pos (hhtml.1 h3)]; rfl
      · rw [if_neg h3, if_neg (fun h => h3 (hhtml.2 h))]
        by_cases h4 : ruleHits (.eq (cps "text/css") C20.TEXT_UTF8) n = true
        · rw [if_pos h4, if_pos (hcss.1 h4)]; rfl
        · rw [if_neg h4, if_neg (fun h => h4 (hcss.2 h))]
          by_cases h5 : (cps "text/").isPrefixOf n = true
          · have : ruleHits (.pre (cps "text/") C20.TEXT_TYPE) n = true := h5
            rw [if_pos this, if_pos h5]; rfl
          · have : ¬ ruleHits (.pre (cps "text/") C20.TEXT_TYPE) n = true := h5
            rw [if_neg this, if_neg h5]; rfl

/-! ## the XML sniffer -/

/-- the documented BOM table: four-byte patterns, then the three-byte one, then the two-byte ones -/
def specBom (b1 b2 b3 b4 : Nat) : Option Cps :=
  if b1 = 0x00 ∧ b2 = 0x00 ∧ b3 = 0xFE ∧ b4 = 0xFF then some (cps "utf_32_be")
  else if b1 = 0xFF ∧ b2 = 0xFE ∧ b3 = 0x00 ∧ b4 = 0x00 then some (cps "utf_32_le")
  else if b1 = 0xEF ∧ b2 = 0xBB ∧ b3 = 0xBF then some (cps "utf-8")
  else if b1 = 0xFE ∧ b2 = 0xFF then some (cps "utf_16_be")
  else if b1 = 0xFF ∧ b2 = 0xFE then some (cps "utf_16_le")
  else none

theorem bomDetect_spec (b1 b2 b3 b4 : Nat) : bomDetect b1 b2 b3 b4 = specBom b1 b2 b3 b4 := by
  have e1 : cps "utf_32_be" = [117, 116, 102, 95, 51, 50, 95, 98, 101] := by decide
  have e2 : cps "utf_32_le" = [117, 116, 102, 95, 51, 50, 95, 108, 101] := by decide
  have e3 : cps "utf-8" = [117, 116, 102, 45, 56] := by decide
  have e4 : cps "utf_16_be" = [117, 116, 102, 95, 49, 54, 95, 98, 101] := by decide
  have e5 : cps "utf_16_le" = [117, 116, 102, 95, 49, 54, 95, 108, 101] := by decide
  unfold bomDetect bomGet specBom
  rw [e1, e2, e3, e4, e5]
  simp only [C20.bomDict, dictGet]
  by_cases h1 : b1 = 0 ∧ b2 = 0 ∧ b3 = 254 ∧ b4 = 255
  · obtain ⟨rfl, rfl, rfl, rfl⟩ := h1; simp
  · by_cases h2 : b1 = 255 ∧ b2 = 254 ∧ b3 = 0 ∧ b4 = 0
    · obtain ⟨rfl, rfl, rfl, rfl⟩ := h2; simp
    · by_cases h3 : b1 = 239 ∧ b2 = 187 ∧ b3 = 191
      · obtain ⟨rfl, rfl, rfl⟩ := h3; simp
      · by_cases h4 : b1 = 254 ∧ b2 = 255
        · obtain ⟨rfl, rfl⟩ := h4; simp
        · by_cases h5 : b1 = 255 ∧ b2 = 254
          · obtain ⟨rfl, rfl⟩ := h5
            have : ¬ (0 = b3 ∧ 0 = b4) := by omega
            simp [this]
            omega
          · have a1 : ¬ (0 = b1 ∧ 0 = b2 ∧ 254 = b3 ∧ 255 = b4) := by omega
            have a2 : ¬ (255 = b1 ∧ 254 = b2 ∧ 0 = b3 ∧ 0 = b4) := by omega
            have a3 : ¬ (239 = b1 ∧ 187 = b2 ∧ 191 = b3) := by omega
            have a4 : ¬ (254 = b1 ∧ 255 = b2) := by omega
            have a5 : ¬ (255 = b1 ∧ 254 = b2) := by omega
            simp [h1, h2, h3, h4, h5, a1, a2, a3, a4, a5]

/-- what the sniffer answers for a `str`/`bytes` document: the BOM's encoding, else the declared encoding
(lower-cased), else UTF-8 (or nothing, for `includeDefault=False`). For fewer than four characters the code raises
`ValueError` and `getEncodingInfo` turns that into "unknown" (known finding C20-xml-short): `none`. -/
def specSniff (txt : Cps) (incl : Bool) : Option Cps :=
  match txt with
  | b1 :: b2 :: b3 :: b4 :: _ =>
    match specBom b1 b2 b3 b4 with
    | some n => some n
    | none =>
      match declMatch (txt.take 2048) with
      | some e => some (lower e)
      | none => if incl then some (cps "utf-8") else none
  | _ => none

theorem detectXMLStream_long (b1 b2 b3 b4 : Nat) (t : Cps) (pos : Nat) (incl : Bool) :
    detectXMLStream ⟨b1 :: b2 :: b3 :: b4 :: t, pos, false⟩ incl =
      ⟨.ok (specSniff (b1 :: b2 :: b3 :: b4 :: t) incl), ⟨b1 :: b2 :: b3 :: b4 :: t, pos, false⟩⟩ := by
  have e3 : C20.xmlDefault = cps "utf-8" := by decide
  simp only [detectXMLStream, C20.bomRead, C20.declRead, specSniff, bomDetect_spec, e3, List.take_succ_cons,
    List.take_zero, Bool.false_and, Bool.false_eq_true, if_false]
  cases specBom b1 b2 b3 b4 with
  | some n => rfl
  | none =>
    simp only []
    generalize declMatch _ = d
    cases d with
    | some e => rfl
    | none => cases incl <;> rfl

theorem detectXMLStream_short (fp : Stream) (incl : Bool) (hb : fp.binary = false) (h : fp.content.length < 4) :
    detectXMLStream fp incl = ⟨.error .valueError, { fp with pos := fp.content.length }⟩ := by
  obtain ⟨c, p, b⟩ := fp
  simp only at hb h
  subst hb
  match c, h with
  | [], _ => simp [detectXMLStream, C20.bomRead]
  | [_], _ => simp [detectXMLStream, C20.bomRead]
  | [_, _], _ => simp [detectXMLStream, C20.bomRead]
  | [_, _, _], _ => simp [detectXMLStream, C20.bomRead]
  | _ :: _ :: _ :: _ :: _, h => simp at h; omega

theorem detectXMLStream_binary (c : Cps) (p : Nat) (incl : Bool) (h : c ≠ []) :
    detectXMLStream ⟨c, p, true⟩ incl = ⟨.error .typeError, ⟨c, min 4 c.length, true⟩⟩ := by
  cases c with
  | nil => exact absurd rfl h
  | cons a t => simp [detectXMLStream, C20.bomRead, List.length_take]; omega

theorem detectXML_long (b1 b2 b3 b4 : Nat) (t : Cps) (incl : Bool) :
    detectXML (b1 :: b2 :: b3 :: b4 :: t) incl = .ok (specSniff (b1 :: b2 :: b3 :: b4 :: t) incl) := by
  simp [detectXML, detectXMLStream_long]

theorem detectXML_short (txt : Cps) (incl : Bool) (h : txt.length < 4) : detectXML txt incl = .error .valueError := by
  simp [detectXML, detectXMLStream_short ⟨txt, 0, false⟩ incl rfl h]

theorem specSniff_short (txt : Cps) (incl : Bool) (h : txt.length < 4) : specSniff txt incl = none := by
  match txt, h with
  | [], _ => rfl
  | [_], _ => rfl
  | [_, _], _ => rfl
  | [_, _, _], _ => rfl
  | _ :: _ :: _ :: _ :: _, h => simp at h; omega

/-- inside `getEncodingInfo` the `ValueError` is caught -/
theorem sniffCaught_spec (txt : Cps) (incl : Bool) : sniffCaught txt incl = .ok (specSniff txt incl) := by
  by_cases h : txt.length < 4
  · simp [sniffCaught, detectXML_short txt incl h, specSniff_short txt incl h]
  · match txt, h with
    | b1 :: b2 :: b3 :: b4 :: t, _ => simp [sniffCaught, detectXML_long]
    | [], h => simp at h
    | [_], h => simp at h
    | [_, _], h => simp at h
    | [_, _, _], h => simp at h

/-! ## `getEncodingInfo` -/

theorem getEncodingInfo_ok {resp : Option Resp} {text : Option Cps} {m : MetaRaw} {t : Option Cps} {i : Info}
    (h : getEncodingInfo resp text m t = .ok i) :
    ∃ txt xml metaI, effText resp text = .ok txt ∧ xmlOf (typeOf resp txt) txt = .ok xml ∧
      metaOf (typeOf resp txt) m = .ok metaI ∧ i = assemble (typeOf resp txt) (httpOf resp) xml metaI t := by
  unfold getEncodingInfo at h
  split at h
  · simp at h
  · rename_i txt htxt
    simp only at h
    split at h
    · simp at h
    · rename_i xml hxml
      split at h
      · simp at h
      · rename_i metaI hmeta
        simp only [Except.ok.injEq] at h
        exact ⟨txt, xml, metaI, htxt, hxml, hmeta, h.symm⟩

/-- guard of the classification theorems: the media type is not the regex source string `text\\/.*?\\+xml`, which the
code keeps in the same list as the real names (known finding C20-regex-literal-media-type) -/
def NotRegexLiteral (mt : Option Cps) : Prop := ∀ m, mt = some m → lower (strip m) ≠ textRegexLiteral

def RespOk : Option Resp → Prop
  | some r => NotRegexLiteral r.mediaType
  | none => True

/-- documented default encoding of a class -/
def specDefault : MClass → Option Cps
  | .appXml => some (cps "utf-8")
  | .textXml => some (cps "ascii")
  | .html => some (cps "iso-8859-1")
  | .text => some (cps "iso-8859-1")
  | .css => some (cps "utf-8")
  | .other => none

/-- how the document is classified: by the transport media type; without a response, XML if `<?xml version=` occurs
in the first 30 characters (the code's "naive test"), else other -/
def docClass (resp : Option Resp) (txt : Cps) : MClass :=
  match resp with
  | some r => specClass r.mediaType
  | none => if contains (cps "<?xml version=") (txt.take 30) = true then .appXml else .other

/-- charset found by the meta sniffer (tail of `getMetaInfo`) -/
def metaCharset : MetaRaw → Option Cps
  | .found _ (.str s) => some (if s.isEmpty then s else lower s)
  | _ => none

theorem classify_spec (mt : Option Cps) (h : NotRegexLiteral mt) : textTypeByMediaType mt = (specClass mt).code := by
  match mt with
  | none => rfl
  | some [] => rfl
  | some (c :: t) =>
    simp only [textTypeByMediaType, specClass]
    exact ladder_spec _ (noUpper_lower _) (h _ rfl)

theorem code_injective (a b : MClass) (h : a.code = b.code) : a = b := by
  cases a <;> cases b <;> first | rfl | (exact absurd h (by decide))

theorem typeOf_spec (resp : Option Resp) (txt : Cps) (g : RespOk resp) :
    typeOf resp txt = (docClass resp txt).code := by
  cases resp with
  | none =>
    have e : C20.sniffNeedle = cps "<?xml version=" := by decide
    simp only [typeOf, docClass, textTypeOfText, e, C20.sniffWindow]
    split <;> rfl
  | some r => exact classify_spec r.mediaType g

theorem xmlOf_spec (c : MClass) (txt : Cps) :
    xmlOf c.code txt = .ok (match c with
      | .appXml => specSniff txt true
      | .html => specSniff txt false
      | _ => none) := by
  cases c <;> simp [xmlOf, MClass.code, C20.XML_APPLICATION_TYPE, C20.HTML_TEXT_TYPE, C20.XML_TEXT_TYPE,
    C20.TEXT_TYPE, C20.TEXT_UTF8, C20.OTHER_TYPE, sniffCaught_spec]

theorem metaOf_spec (c : MClass) (m : MetaRaw) :
    metaOf c.code m = (match c with
      | .html => getMetaInfo m
      | .text => getMetaInfo m
      | _ => .ok (none, none)) := by
  cases c <;> simp [metaOf, MClass.code, C20.XML_APPLICATION_TYPE, C20.HTML_TEXT_TYPE, C20.XML_TEXT_TYPE,
    C20.TEXT_TYPE, C20.TEXT_UTF8, C20.OTHER_TYPE]

theorem getMetaInfo_charset {m : MetaRaw} {p : Option Cps × Option Cps} (h : getMetaInfo m = .ok p) :
    p.2 = metaCharset m := by
  cases m with
  | raises => simp [getMetaInfo] at h
  | absent => simp [getMetaInfo] at h; subst h; rfl
  | found mt ch =>
    cases ch with
    | none => simp [getMetaInfo] at h; subst h; rfl
    | str s => simp [getMetaInfo] at h; subst h; simp [metaCharset]
    | tuple => simp [getMetaInfo] at h

theorem defaults_spec (c : MClass) : (dictGet c.code C20.defaultEncodings).join = specDefault c := by
  cases c <;> decide

theorem truthy_cases (o : Option Cps) : (truthy o = true ∧ ∃ a l, o = some (a :: l)) ∨ (truthy o = false ∧ (o = none ∨ o = some [])) := by
  match o with
  | none => right; simp [truthy]
  | some [] => right; simp [truthy]
  | some (a :: l) => left; exact ⟨rfl, a, l, rfl⟩

/-- the precedence chain as the documented first-match table -/
theorem chain_spec (c : MClass) (http xml metaE bm tryEnc : Option Cps) (hbm : c ≠ .appXml → c ≠ .other → bm = specDefault c) :
    chain c.code http xml metaE bm tryEnc =
      if truthy http = true then http else
        match (generalizing := false) c with
        | .appXml => xml
        | .html => if truthy metaE = true then metaE else some (cps "iso-8859-1")
        | .textXml => some (cps "ascii")
        | .text => some (cps "iso-8859-1")
        | .css => some (cps "utf-8")
        | .other => http := by
  rcases truthy_cases http with ⟨ht, a, l, rfl⟩ | ⟨ht, rfl | rfl⟩
  · cases c <;> simp [chain, MClass.code, C20.XML_APPLICATION_TYPE, C20.HTML_TEXT_TYPE, C20.XML_TEXT_TYPE,
      C20.TEXT_TYPE, C20.TEXT_UTF8, C20.OTHER_TYPE, truthy]
  all_goals
    cases c
    case appXml => simp [chain, MClass.code, C20.XML_APPLICATION_TYPE, truthy]
    case other => simp [chain, MClass.code, C20.XML_APPLICATION_TYPE, C20.HTML_TEXT_TYPE, C20.XML_TEXT_TYPE,
      C20.TEXT_TYPE, C20.TEXT_UTF8, C20.OTHER_TYPE, truthy]
    case html =>
      have := hbm (by decide) (by decide); subst this
      rcases truthy_cases metaE with ⟨hm, a, l, rfl⟩ | ⟨hm, rfl | rfl⟩ <;>
        simp [chain, MClass.code, C20.XML_APPLICATION_TYPE, C20.HTML_TEXT_TYPE, truthy, specDefault, cps]
    case textXml =>
      have := hbm (by decide) (by decide); subst this
      simp [chain, MClass.code, C20.XML_APPLICATION_TYPE, C20.HTML_TEXT_TYPE, C20.XML_TEXT_TYPE, truthy, specDefault]
    case text =>
      have := hbm (by decide) (by decide); subst this
      simp [chain, MClass.code, C20.XML_APPLICATION_TYPE, C20.HTML_TEXT_TYPE, C20.XML_TEXT_TYPE, C20.TEXT_TYPE,
        truthy, specDefault]
    case css =>
      have := hbm (by decide) (by decide); subst this
      simp [chain, MClass.code, C20.XML_APPLICATION_TYPE, C20.HTML_TEXT_TYPE, C20.XML_TEXT_TYPE, C20.TEXT_TYPE,
        C20.TEXT_UTF8, truthy, specDefault]

/-- the media-type default handed to the chain is the documented default of the class -/
theorem byMediaType_spec (resp : Option Resp) (txt : Cps) (g : RespOk resp)
    (hc : docClass resp txt ≠ .appXml) (ho : docClass resp txt ≠ .other) :
    encodingByMediaType (httpOf resp).1 = specDefault (docClass resp txt) := by
  cases resp with
  | none => simp only [docClass] at hc ho; split at hc <;> simp_all
  | some r =>
    simp only [httpOf, getHTTPInfo, encodingByMediaType, docClass]
    rw [classify_spec r.mediaType g, defaults_spec]

/-! ## the XML declaration pattern -/

theorem ms_cls (n : Bool) (rs : List (Nat × Nat)) (s : Cps) :
    (Re.cls n rs).ms s = match s with | [] => [] | c :: _ => if Re.inCls n rs c then [1] else [] := by
  cases s <;> simp [Re.ms]

theorem ms_clsChain (r : Re) : ∀ (cs : List Cls) (s : Cps),
    (clsChain cs r).ms s = if matchCls cs s then (r.ms (s.drop cs.length)).map (cs.length + ·) else [] := by
  intro cs
  induction cs with
  | nil => intro s; simp [clsChain, matchCls]
  | cons c cs ih =>
    intro s
    cases s with
    | nil => simp [clsChain, matchCls, ms_seq, ms_cls]
    | cons x t =>
      simp only [clsChain, ms_seq, ms_cls, matchCls]
      by_cases hx : Re.inCls c.1 c.2 x = true
      · simp only [hx, if_true, List.flatMap_cons, List.flatMap_nil, List.append_nil, List.drop_succ_cons,
          List.drop_zero, ih, Bool.true_and, List.length_cons]
        split
        · simp [List.map_map, Function.comp_def]; intro a _; omega
        · simp
      · simp [hx]

theorem ms_clsSeq : ∀ (cs : List Cls) (s : Cps), (clsSeq cs).ms s = if matchCls cs s then [cs.length] else [] := by
  intro cs
  induction cs with
  | nil => intro s; simp [clsSeq, matchCls, Re.ms]
  | cons c cs ih =>
    intro s
    cases cs with
    | nil =>
      simp only [clsSeq, ms_cls]
      cases s <;> simp [matchCls]
    | cons d cs =>
      cases s with
      | nil => simp [clsSeq, matchCls, ms_seq, ms_cls]
      | cons x t =>
        simp only [clsSeq, ms_seq, ms_cls]
        by_cases hx : Re.inCls c.1 c.2 x = true
        · simp only [hx, if_true, List.flatMap_cons, List.flatMap_nil, List.append_nil, List.drop_succ_cons,
            List.drop_zero, ih]
          simp only [matchCls, hx, Bool.true_and]
          split <;> simp; omega
        · simp [hx, matchCls]

/-- length of the longest prefix whose characters are all in the class -/
def run (n : Bool) (rs : List (Nat × Nat)) : Cps → Nat
  | [] => 0
  | c :: t => if Re.inCls n rs c then 1 + run n rs t else 0

theorem run_le (n : Bool) (rs : List (Nat × Nat)) : ∀ s : Cps, run n rs s ≤ s.length := by
  intro s; induction s with
  | nil => simp [run]
  | cons c t ih => simp only [run]; split <;> simp <;> omega

theorem range_shift (m : Nat) : 0 :: (List.range (m + 1)).map (fun x => 1 + x) = List.range (m + 2) := by
  rw [List.range_succ_eq_map (n := m + 1)]
  congr 1
  apply List.map_congr_left
  intro a _; simp; omega

theorem range_shift_rev (m : Nat) :
    ((List.range (m + 1)).reverse.map (fun x => 1 + x)) ++ [0] = (List.range (m + 2)).reverse := by
  rw [← range_shift m, List.reverse_cons, List.map_reverse]

theorem starMs_cls_lazy (n : Bool) (rs : List (Nat × Nat)) : ∀ (fuel : Nat) (s : Cps), run n rs s < fuel →
    Re.starMs (Re.cls n rs).ms false fuel s = List.range (run n rs s + 1) := by
  intro fuel
  induction fuel with
  | zero => intro s h; omega
  | succ f ih =>
    intro s h
    cases s with
    | nil => simp [Re.starMs, ms_cls, run]
    | cons c t =>
      simp only [Re.starMs, ms_cls, run]
      by_cases hc : Re.inCls n rs c = true
      · simp only [run, hc, if_true] at h
        simp only [hc, if_true]
        have := ih t (by omega)
        simp only [List.filter_cons, show (1:Nat) > 0 from by omega, decide_true, if_true, List.filter_nil,
          List.flatMap_cons, List.flatMap_nil, List.append_nil, List.drop_succ_cons, List.drop_zero, this,
          Bool.false_eq_true, if_false]
        rw [show 1 + run n rs t + 1 = run n rs t + 2 from by omega, ← range_shift]
      · simp [hc]

theorem starMs_cls_greedy (n : Bool) (rs : List (Nat × Nat)) : ∀ (fuel : Nat) (s : Cps), run n rs s < fuel →
    Re.starMs (Re.cls n rs).ms true fuel s = (List.range (run n rs s + 1)).reverse := by
  intro fuel
  induction fuel with
  | zero => intro s h; omega
  | succ f ih =>
    intro s h
    cases s with
    | nil => simp [Re.starMs, ms_cls, run]
    | cons c t =>
      simp only [Re.starMs, ms_cls, run]
      by_cases hc : Re.inCls n rs c = true
      · simp only [run, hc, if_true] at h
        simp only [hc, if_true]
        have := ih t (by omega)
        simp only [List.filter_cons, show (1:Nat) > 0 from by omega, decide_true, if_true, List.filter_nil,
          List.flatMap_cons, List.flatMap_nil, List.append_nil, List.drop_succ_cons, List.drop_zero, this]
        rw [show 1 + run n rs t + 1 = run n rs t + 2 from by omega, ← range_shift_rev]
      · simp [hc]

theorem ms_star_cls_lazy (n : Bool) (rs : List (Nat × Nat)) (s : Cps) :
    (Re.star (Re.cls n rs) false).ms s = List.range (run n rs s + 1) := by
  rw [Re.ms]; exact starMs_cls_lazy n rs _ s (by have := run_le n rs s; omega)

theorem ms_star_cls_greedy (n : Bool) (rs : List (Nat × Nat)) (s : Cps) :
    (Re.star (Re.cls n rs) true).ms s = (List.range (run n rs s + 1)).reverse := by
  rw [Re.ms]; exact starMs_cls_greedy n rs _ s (by have := run_le n rs s; omega)


/-- a class of exactly one character -/
def exact (c : Nat) : Cls := (false, [(c, c)])
abbrev quoteC : Cls := (false, [(34, 34), (39, 39)])
/-- `"` or `'` -/
def isQuote (c : Nat) : Prop := c = 34 ∨ c = 39
instance (c : Nat) : Decidable (isQuote c) := by unfold isQuote; infer_instance

theorem inCls_exact (c x : Nat) : Re.inCls (exact c).1 (exact c).2 x = (c == x) := by
  simp only [exact, Re.inCls, List.any_cons, List.any_nil, Bool.or_false, bne_iff_ne, ne_eq]
  rw [Bool.eq_iff_iff]; simp; omega

theorem matchCls_exact : ∀ (lit s : Cps), matchCls (lit.map exact) s = lit.isPrefixOf s := by
  intro lit
  induction lit with
  | nil => intro s; simp [matchCls]
  | cons c lit ih =>
    intro s
    cases s with
    | nil => simp [matchCls, List.isPrefixOf]
    | cons x t => simp only [List.map_cons, matchCls, List.isPrefixOf, inCls_exact, ih]

theorem matchCls_append : ∀ (as bs : List Cls) (s : Cps),
    matchCls (as ++ bs) s = (matchCls as s && matchCls bs (s.drop as.length)) := by
  intro as
  induction as with
  | nil => intro bs s; simp [matchCls]
  | cons a as ih =>
    intro bs s
    cases s with
    | nil => cases bs <;> simp [matchCls]
    | cons x t => simp [matchCls, ih, Bool.and_assoc]

theorem inCls_notLF (x : Nat) : Re.inCls true [(10, 10)] x = true ↔ x ≠ 10 := by
  simp [Re.inCls]; omega

theorem inCls_quote (x : Nat) : Re.inCls false [(34, 34), (39, 39)] x = true ↔ isQuote x := by
  simp [Re.inCls, isQuote]; omega

theorem inCls_notQuote (x : Nat) : Re.inCls true [(34, 34), (39, 39)] x = true ↔ ¬ isQuote x := by
  simp [Re.inCls, isQuote]; omega

theorem isPrefixOf_eq : ∀ (a s : Cps), a.isPrefixOf s = true → s = a ++ s.drop a.length := by
  intro a
  induction a with
  | nil => intro s _; simp
  | cons c a ih =>
    intro s h
    cases s with
    | nil => simp [List.isPrefixOf] at h
    | cons x t =>
      simp only [List.isPrefixOf, Bool.and_eq_true, beq_iff_eq] at h
      obtain ⟨rfl, h⟩ := h
      simp only [List.cons_append, List.length_cons, List.drop_succ_cons]
      rw [← ih t h]

theorem isPrefixOf_append (a t : Cps) : a.isPrefixOf (a ++ t) = true := by
  induction a with
  | nil => simp
  | cons c a ih => simp [List.isPrefixOf, ih]

theorem take_run (n : Bool) (rs : List (Nat × Nat)) : ∀ (s : Cps) (k : Nat), k ≤ run n rs s →
    ∀ c ∈ s.take k, Re.inCls n rs c = true := by
  intro s
  induction s with
  | nil => intro k _ c hc; simp at hc
  | cons x t ih =>
    intro k hk c hc
    cases k with
    | zero => simp at hc
    | succ k =>
      simp only [run] at hk
      by_cases hx : Re.inCls n rs x = true
      · simp only [hx, if_true] at hk
        simp only [List.take_succ_cons, List.mem_cons] at hc
        rcases hc with rfl | hc
        · exact hx
        · exact ih k (by omega) c hc
      · simp [hx] at hk

/-- a run of characters of the class, followed by anything, runs at least that far -/
theorem run_append_ge (n : Bool) (rs : List (Nat × Nat)) : ∀ (a t : Cps), (∀ c ∈ a, Re.inCls n rs c = true) →
    a.length ≤ run n rs (a ++ t) := by
  intro a
  induction a with
  | nil => intro t _; simp
  | cons x a ih =>
    intro t h
    simp only [List.cons_append, run, h x (by simp), if_true, List.length_cons]
    have := ih t (fun c hc => h c (by simp [hc]))
    omega

/-- a run that ends at a character outside the class is exactly that long -/
theorem run_append_stop (n : Bool) (rs : List (Nat × Nat)) : ∀ (a : Cps) (x : Nat) (t : Cps),
    (∀ c ∈ a, Re.inCls n rs c = true) → Re.inCls n rs x = false → run n rs (a ++ x :: t) = a.length := by
  intro a
  induction a with
  | nil => intro x t _ hx; simp [run, hx]
  | cons y a ih =>
    intro x t h hx
    simp only [List.cons_append, run, h y (by simp), if_true, List.length_cons]
    rw [ih x t (fun c hc => h c (by simp [hc])) hx]; omega

/-- `c+` lazy: lengths 1, 2, …, run -/
theorem ms_plus_lazy (n : Bool) (rs : List (Nat × Nat)) (s : Cps) :
    (Re.seq (Re.cls n rs) (Re.star (Re.cls n rs) false)).ms s = (List.range (run n rs s)).map (1 + ·) := by
  cases s with
  | nil => simp [ms_seq, ms_cls, run]
  | cons c t =>
    simp only [ms_seq, ms_cls, run]
    by_cases hc : Re.inCls n rs c = true
    · simp [hc, ms_star_cls_lazy, Nat.add_comm]
    · simp [hc]

/-- `c+` greedy: lengths run, run-1, …, 1 -/
theorem ms_plus_greedy (n : Bool) (rs : List (Nat × Nat)) (s : Cps) :
    (Re.seq (Re.cls n rs) (Re.star (Re.cls n rs) true)).ms s = (List.range (run n rs s)).reverse.map (1 + ·) := by
  cases s with
  | nil => simp [ms_seq, ms_cls, run]
  | cons c t =>
    simp only [ms_seq, ms_cls, run]
    by_cases hc : Re.inCls n rs c = true
    · simp [hc, ms_star_cls_greedy, Nat.add_comm]
    · simp [hc]

theorem declPre_shape : C20.declPre = clsChain ((cps "<?xml").map exact)
    (.seq (.seq (.cls true [(10, 10)]) (.star (.cls true [(10, 10)]) false))
      (clsSeq ((cps "encoding=").map exact ++ [quoteC]))) := by decide

theorem declGrp_shape : C20.declGrp =
    .seq (.cls true [(34, 34), (39, 39)]) (.star (.cls true [(34, 34), (39, 39)]) true) := by decide

theorem declPost_shape : C20.declPost = clsChain [quoteC]
    (.seq (.star (.cls true [(10, 10)]) false) (clsSeq ((cps "?>").map exact))) := by decide


theorem matchCls_quote (s : Cps) : matchCls [quoteC] s = true ↔ ∃ q r, s = q :: r ∧ isQuote q := by
  cases s with
  | nil => simp [matchCls]
  | cons x t => simp [matchCls, inCls_quote]

theorem mem_range_map_succ (a N : Nat) : a ∈ (List.range N).map (1 + ·) ↔ 1 ≤ a ∧ a ≤ N := by
  simp only [List.mem_map, List.mem_range]
  constructor
  · rintro ⟨k, hk, rfl⟩; omega
  · rintro ⟨h1, h2⟩; exact ⟨a - 1, by omega, by omega⟩

/-- where the part of the declaration pattern before the group can end -/
theorem mem_declPre (buf : Cps) (l1 : Nat) : l1 ∈ C20.declPre.ms buf ↔
    (cps "<?xml").isPrefixOf buf = true ∧ ∃ a, 1 ≤ a ∧ a ≤ run true [(10, 10)] (buf.drop 5) ∧
      (cps "encoding=").isPrefixOf ((buf.drop 5).drop a) = true ∧
      (∃ q r, ((buf.drop 5).drop a).drop 9 = q :: r ∧ isQuote q) ∧ l1 = 5 + (a + 10) := by
  rw [declPre_shape, ms_clsChain, matchCls_exact]
  have e5 : ((cps "<?xml").map exact).length = 5 := by decide
  have e10 : ((cps "encoding=").map exact ++ [quoteC]).length = 10 := by decide
  have e9 : ((cps "encoding=").map exact).length = 9 := by decide
  rw [e5]
  by_cases hp : (cps "<?xml").isPrefixOf buf = true
  · rw [if_pos hp, ms_seq, ms_plus_lazy]
    have key : ∀ s : Cps, matchCls ((cps "encoding=").map exact ++ [quoteC]) s = true ↔
        ((cps "encoding=").isPrefixOf s = true ∧ ∃ q r, s.drop 9 = q :: r ∧ isQuote q) := by
      intro s
      rw [matchCls_append, Bool.and_eq_true, matchCls_exact, e9, matchCls_quote]
    simp only [hp, true_and, List.mem_map, List.mem_flatMap, ms_clsSeq, e10]
    constructor
    · rintro ⟨l, ⟨a, ha, l2, hl2, rfl⟩, rfl⟩
      have ha' := (mem_range_map_succ a _).1 (List.mem_map.2 ha)
      split at hl2
      · rename_i hm
        simp only [List.mem_singleton] at hl2; subst hl2
        exact ⟨a, ha'.1, ha'.2, ((key _).1 hm).1, ((key _).1 hm).2, rfl⟩
      · simp at hl2
    · rintro ⟨a, h1, h2, h3, h4, rfl⟩
      refine ⟨a + 10, ⟨a, List.mem_map.1 ((mem_range_map_succ a _).2 ⟨h1, h2⟩), 10, ?_, rfl⟩, rfl⟩
      rw [if_pos ((key _).2 ⟨h3, h4⟩)]; simp
  · simp [hp]

theorem mem_declGrp (s : Cps) (l2 : Nat) : l2 ∈ C20.declGrp.ms s ↔ 1 ≤ l2 ∧ l2 ≤ run true [(34, 34), (39, 39)] s := by
  rw [declGrp_shape, ms_plus_greedy]
  simp only [List.mem_map, List.mem_reverse, List.mem_range]
  constructor
  · rintro ⟨k, hk, rfl⟩; omega
  · rintro ⟨h1, h2⟩; exact ⟨l2 - 1, by omega, by omega⟩

theorem mem_declPost (s : Cps) (l3 : Nat) : l3 ∈ C20.declPost.ms s ↔
    ∃ q r, s = q :: r ∧ isQuote q ∧ ∃ j, j ≤ run true [(10, 10)] r ∧ (cps "?>").isPrefixOf (r.drop j) = true ∧
      l3 = 1 + (j + 2) := by
  rw [declPost_shape, ms_clsChain]
  have e2 : ((cps "?>").map exact).length = 2 := by decide
  by_cases hq : matchCls [quoteC] s = true
  · obtain ⟨q, r, rfl, hq'⟩ := (matchCls_quote s).1 hq
    simp only [hq, if_true, List.length_singleton, List.drop_succ_cons, List.drop_zero, List.mem_map, ms_seq,
      List.mem_flatMap, ms_star_cls_lazy, List.mem_range, ms_clsSeq, matchCls_exact, e2]
    constructor
    · rintro ⟨l, ⟨j, hj, l', hl', rfl⟩, rfl⟩
      split at hl'
      · rename_i hm
        simp only [List.mem_singleton] at hl'; subst hl'
        exact ⟨q, r, rfl, hq', j, by omega, hm, rfl⟩
      · simp at hl'
    · rintro ⟨q', r', h, _, j, hj, hm, rfl⟩
      injection h with h1 h2; subst h1; subst h2
      refine ⟨j + 2, ⟨j, by omega, 2, ?_, rfl⟩, rfl⟩
      rw [if_pos hm]; simp
  · rw [if_neg hq]
    simp only [List.not_mem_nil, false_iff]
    rintro ⟨q, r, rfl, hq', _⟩
    exact hq ((matchCls_quote _).2 ⟨q, r, rfl, hq'⟩)

theorem mem_declSpans (buf : Cps) (p : Nat × Nat) : p ∈ declSpans buf ↔
    p.1 ∈ C20.declPre.ms buf ∧ p.2 ∈ C20.declGrp.ms (buf.drop p.1) ∧ (C20.declPost.ms (buf.drop (p.1 + p.2))) ≠ [] := by
  obtain ⟨l1, l2⟩ := p
  simp only [declSpans, List.mem_flatMap, List.mem_map, Prod.mk.injEq]
  constructor
  · rintro ⟨a, ha, b, hb, c, hc, rfl, rfl⟩
    exact ⟨ha, hb, List.ne_nil_of_mem hc⟩
  · rintro ⟨ha, hb, hc⟩
    obtain ⟨c, hc⟩ := List.exists_mem_of_ne_nil _ hc
    exact ⟨l1, ha, l2, hb, c, hc, rfl, rfl⟩

/-- soundness of the declaration pattern: whatever it returns is the quoted value of an `encoding=` on the first
line of a document that starts with `<?xml`, and a `?>` follows on the same line -/
theorem declMatch_sound (buf e : Cps) (h : declMatch buf = some e) :
    ∃ v q1 q2 w rest, buf = cps "<?xml" ++ v ++ cps "encoding=" ++ [q1] ++ e ++ [q2] ++ w ++ cps "?>" ++ rest ∧
      v ≠ [] ∧ 10 ∉ v ∧ isQuote q1 ∧ e ≠ [] ∧ (∀ c ∈ e, ¬ isQuote c) ∧ isQuote q2 ∧ 10 ∉ w := by
  unfold declMatch at h
  split at h
  · simp at h
  · rename_i p ps hp
    injection h with h
    have hm : p ∈ declSpans buf := by rw [hp]; simp
    obtain ⟨h1, h2, h3⟩ := (mem_declSpans buf p).1 hm
    obtain ⟨hP, a, ha1, ha2, hE, ⟨q1, s3, hs3, hq1⟩, hl1⟩ := (mem_declPre buf p.1).1 h1
    obtain ⟨hg1, hg2⟩ := (mem_declGrp _ _).1 h2
    obtain ⟨l3, hl3⟩ := List.exists_mem_of_ne_nil _ h3
    obtain ⟨q2, s5, hs5, hq2, j, hj, hT, _⟩ := (mem_declPost _ _).1 hl3
    -- the pieces
    have b1 : buf = cps "<?xml" ++ buf.drop 5 := isPrefixOf_eq _ _ hP
    have b2 : buf.drop 5 = (buf.drop 5).take a ++ (buf.drop 5).drop a := (List.take_append_drop a _).symm
    have b3 : (buf.drop 5).drop a = cps "encoding=" ++ ((buf.drop 5).drop a).drop 9 := isPrefixOf_eq _ _ hE
    have d1 : buf.drop p.1 = s3 := by
      have hs3' : List.drop 1 (List.drop 9 (List.drop a (List.drop 5 buf))) = s3 := by rw [hs3]; rfl
      simp only [List.drop_drop] at hs3'
      rw [← hs3', hl1]; congr 1 <;> omega
    have b4 : s3 = s3.take p.2 ++ s3.drop p.2 := (List.take_append_drop _ _).symm
    have d2 : buf.drop (p.1 + p.2) = s3.drop p.2 := by rw [← d1, List.drop_drop]
    rw [d2] at hs5
    have b5 : s5 = s5.take j ++ s5.drop j := (List.take_append_drop _ _).symm
    have b6 : s5.drop j = cps "?>" ++ (s5.drop j).drop 2 := isPrefixOf_eq _ _ hT
    rw [d1] at h hg2
    refine ⟨(buf.drop 5).take a, q1, q2, s5.take j, (s5.drop j).drop 2, ?_, ?_, ?_, hq1, ?_, ?_, hq2, ?_⟩
    · rw [← h]
      calc buf = cps "<?xml" ++ ((buf.drop 5).take a ++ (cps "encoding=" ++ (q1 :: (s3.take p.2 ++ (q2 :: (s5.take j ++ (cps "?>" ++ (s5.drop j).drop 2))))))) := by
            rw [← b6, ← b5, ← hs5, ← b4, ← hs3, ← b3, ← b2, ← b1]
        _ = _ := by simp [List.append_assoc]
    · intro hv
      have : ((buf.drop 5).take a).length = 0 := by rw [hv]; rfl
      have hr := run_le true [(10, 10)] (buf.drop 5)
      rw [List.length_take] at this; omega
    · intro hv
      have := take_run true [(10, 10)] _ a ha2 10 hv
      rw [inCls_notLF] at this; exact this rfl
    · rw [← h]; intro he
      have : (s3.take p.2).length = 0 := by rw [he]; rfl
      have hr := run_le true [(34, 34), (39, 39)] s3
      rw [List.length_take] at this; omega
    · rw [← h]; intro c hc
      have := take_run true [(34, 34), (39, 39)] _ _ hg2 c hc
      exact (inCls_notQuote c).1 this
    · intro hw
      have := take_run true [(10, 10)] _ j hj 10 hw
      rw [inCls_notLF] at this; exact this rfl


/-! ### completeness of the declaration pattern on single-line declarations -/

theorem drop_app (a t : Cps) (n : Nat) (h : n = a.length) : (a ++ t).drop n = t := by
  subst h; induction a with
  | nil => rfl
  | cons c a ih => simpa using ih

theorem take_app (a t : Cps) (n : Nat) (h : n = a.length) : (a ++ t).take n = a := by
  subst h; induction a with
  | nil => simp
  | cons c a ih => simpa using ih

theorem matchCls_append_right : ∀ (cs : List Cls) (s t : Cps), cs.length ≤ s.length →
    matchCls cs (s ++ t) = matchCls cs s := by
  intro cs
  induction cs with
  | nil => intro s t _; simp [matchCls]
  | cons c cs ih =>
    intro s t h
    cases s with
    | nil => simp at h
    | cons x s => simp only [List.cons_append, matchCls]; rw [ih s t (by simpa using h)]

theorem flatMap_range_nil {β : Type} (g : Nat → List β) (N : Nat) (h : ∀ k, k < N → g k = []) :
    (List.range N).flatMap g = [] := by
  rw [List.flatMap_eq_nil_iff]
  intro k hk
  exact h k (List.mem_range.1 hk)

theorem flatMap_range_skip {β : Type} (g : Nat → List β) (k0 : Nat) (h0 : ∀ k, k < k0 → g k = []) :
    ∀ N, k0 < N → ∃ tail, (List.range N).flatMap g = g k0 ++ tail := by
  intro N
  induction N with
  | zero => intro h; omega
  | succ N ih =>
    intro h
    rw [List.range_succ, List.flatMap_append]
    by_cases hk : k0 = N
    · subst hk
      rw [flatMap_range_nil g k0 h0]
      exact ⟨[], by simp⟩
    · obtain ⟨tail, ht⟩ := ih (by omega)
      exact ⟨tail ++ [N].flatMap g, by rw [ht, List.append_assoc]⟩

/-- the pattern `encoding=` + quote -/
abbrev encEq : List Cls := (cps "encoding=").map exact ++ [quoteC]

/-- is there an `encoding=`+quote that starts inside `v` (at an offset ≥ 1), before the one that follows `v`? -/
def earlierCandidate (v : Cps) (q1 : Nat) : Bool :=
  (List.range v.length).any fun j => decide (1 ≤ j) && matchCls encEq ((v ++ cps "encoding=" ++ [q1]).drop j)

theorem declMatch_complete (v e w rest : Cps) (q1 q2 : Nat) (hv : v ≠ []) (hvlf : 10 ∉ v) (hq1 : isQuote q1)
    (he : e ≠ []) (heq : ∀ c ∈ e, ¬ isQuote c) (hq2 : isQuote q2) (hw : 10 ∉ w)
    (hfirst : earlierCandidate v q1 = false) :
    declMatch (cps "<?xml" ++ v ++ cps "encoding=" ++ [q1] ++ e ++ [q2] ++ w ++ cps "?>" ++ rest) = some e := by
  -- names for the suffixes
  generalize hs5 : w ++ (cps "?>" ++ rest) = s5
  generalize hs3 : e ++ q2 :: s5 = s3
  generalize hs1 : v ++ (cps "encoding=" ++ q1 :: s3) = s1
  have hbuf : cps "<?xml" ++ v ++ cps "encoding=" ++ [q1] ++ e ++ [q2] ++ w ++ cps "?>" ++ rest = cps "<?xml" ++ s1 := by
    rw [← hs1, ← hs3, ← hs5]; simp [List.append_assoc]
  rw [hbuf]
  have e5 : ((cps "<?xml").map exact).length = 5 := by decide
  have e10 : encEq.length = 10 := by decide
  have hvlen : 1 ≤ v.length := by cases v with | nil => exact absurd rfl hv | cons _ _ => simp
  have helen : 1 ≤ e.length := by cases e with | nil => exact absurd rfl he | cons _ _ => simp
  have q1lf : q1 ≠ 10 := by rcases hq1 with h | h <;> omega
  -- the X pattern at offset |v| of s1 matches, at earlier offsets it does not
  have hX0 : matchCls encEq (s1.drop v.length) = true := by
    rw [← hs1, drop_app v _ _ rfl, matchCls_append, matchCls_exact]
    have : (cps "encoding=" ++ q1 :: s3).drop ((cps "encoding=").map exact).length = q1 :: s3 := by
      apply drop_app; decide
    rw [this, isPrefixOf_append]
    simp [matchCls, (inCls_quote q1).2 hq1]
  have hXe : ∀ a, 1 ≤ a → a < v.length → matchCls encEq (s1.drop a) = false := by
    intro a h1 h2
    have hf := hfirst
    unfold earlierCandidate at hf
    rw [List.any_eq_false] at hf
    have := hf a (List.mem_range.2 h2)
    simp only [h1, decide_true, Bool.true_and, Bool.not_eq_true] at this
    have hsplit : s1 = (v ++ cps "encoding=" ++ [q1]) ++ s3 := by rw [← hs1]; simp [List.append_assoc]
    rw [hsplit, List.drop_append_of_le_length (by simp; omega), matchCls_append_right _ _ _ (by
      rw [e10]; simp [List.length_drop]; have : (cps "encoding=").length = 9 := by decide
      omega)]
    exact this
  -- the run of non-LF characters reaches at least to the end of v
  have hN : v.length ≤ run true [(10, 10)] s1 := by
    rw [← hs1]
    exact run_append_ge true [(10, 10)] v _ (fun c hc => (inCls_notLF c).2 (fun h => hvlf (h ▸ hc)))
  -- part before the group
  have hpre : ∃ tail, C20.declPre.ms (cps "<?xml" ++ s1) = (5 + (v.length + 10)) :: tail := by
    rw [declPre_shape, ms_clsChain, matchCls_exact, if_pos (isPrefixOf_append _ _), e5, drop_app _ _ _ (by decide),
      ms_seq, ms_plus_lazy, List.flatMap_map]
    obtain ⟨tail, ht⟩ := flatMap_range_skip
      (fun k => ((clsSeq encEq).ms (s1.drop (1 + k))).map ((1 + k) + ·)) (v.length - 1)
      (by
        intro k hk
        simp only [ms_clsSeq]
        rw [hXe (1 + k) (by omega) (by omega)]; simp)
      (run true [(10, 10)] s1) (by omega)
    rw [ht]
    simp only [ms_clsSeq, show 1 + (v.length - 1) = v.length from by omega, hX0, if_true, e10, List.map_cons,
      List.map_nil, List.cons_append, List.nil_append]
    exact ⟨_, rfl⟩
  -- the group
  have l5 : (cps "<?xml").length = 5 := by decide
  have l9 : (cps "encoding=").length = 9 := by decide
  have hdrop1 : (cps "<?xml" ++ s1).drop (5 + (v.length + 10)) = s3 := by
    have : cps "<?xml" ++ s1 = (cps "<?xml" ++ v ++ cps "encoding=" ++ [q1]) ++ s3 := by
      rw [← hs1]; simp [List.append_assoc]
    rw [this]
    apply drop_app
    simp only [List.length_append, l5, l9, List.length_singleton]; omega
  have hgrp : ∃ tail, C20.declGrp.ms s3 = e.length :: tail := by
    rw [declGrp_shape, ms_plus_greedy, ← hs3,
      run_append_stop true [(34, 34), (39, 39)] e q2 s5 (fun c hc => (inCls_notQuote c).2 (heq c hc))
        (by have := (inCls_notQuote q2); cases h : Re.inCls true [(34, 34), (39, 39)] q2 with
            | false => rfl
            | true => exact absurd hq2 (this.1 h))]
    obtain ⟨m, hm⟩ : ∃ m, e.length = m + 1 := ⟨e.length - 1, by omega⟩
    refine ⟨(List.range m).reverse.map (1 + ·), ?_⟩
    rw [hm, List.range_succ]
    simp [Nat.add_comm]
  have hdrop2 : (cps "<?xml" ++ s1).drop (5 + (v.length + 10) + e.length) = q2 :: s5 := by
    rw [← List.drop_drop, hdrop1, ← hs3]
    exact drop_app e _ _ rfl
  have hpost : C20.declPost.ms (q2 :: s5) ≠ [] := by
    apply List.ne_nil_of_mem (a := 1 + (w.length + 2))
    rw [mem_declPost]
    refine ⟨q2, s5, rfl, hq2, w.length, ?_, ?_, rfl⟩
    · rw [← hs5]
      exact run_append_ge true [(10, 10)] w _ (fun c hc => (inCls_notLF c).2 (fun h => hw (h ▸ hc)))
    · rw [← hs5, drop_app w _ _ rfl]; exact isPrefixOf_append _ _
  obtain ⟨t1, h1⟩ := hpre
  obtain ⟨t2, h2⟩ := hgrp
  obtain ⟨x, xs, h3⟩ := List.exists_cons_of_ne_nil hpost
  have hspans : ∃ tail, declSpans (cps "<?xml" ++ s1) = (5 + (v.length + 10), e.length) :: tail := by
    unfold declSpans
    rw [h1, List.flatMap_cons, hdrop1, h2, List.flatMap_cons, hdrop2, h3]
    exact ⟨_, rfl⟩
  obtain ⟨t3, h4⟩ := hspans
  unfold declMatch
  rw [h4]
  simp only [hdrop1]
  rw [← hs3, take_app e _ _ rfl]


theorem take_append_le (a t : Cps) (n : Nat) (h : a.length ≤ n) : (a ++ t).take n = a ++ t.take (n - a.length) := by
  rw [List.take_append, List.take_of_length_le h]

/-- a document that does not start with `<?xml` has no declaration for the pattern -/
theorem declMatch_none_of_no_prefix (buf : Cps) (h : (cps "<?xml").isPrefixOf buf = false) : declMatch buf = none := by
  cases hm : declMatch buf with
  | none => rfl
  | some e =>
    obtain ⟨v, q1, q2, w, rest, hb, _⟩ := declMatch_sound buf e hm
    rw [hb] at h
    simp only [List.append_assoc] at h
    rw [isPrefixOf_append] at h
    exact absurd h (by simp)

end CssVerif.Encutils
